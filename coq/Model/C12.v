(* C12 — executable model of the StateDB change journal of go-quai:
   core/state/journal.go, core/state/statedb.go (mutators, Snapshot,
   RevertToSnapshot), core/state/state_object.go (setters),
   core/state/access_list.go, core/state/transient_storage.go.
   Definitions only; proofs are in Proofs/C12.v.

   Conventions.  Addresses (20 bytes) and hashes (32 bytes) are keys [n] with n the
   big-endian number of the bytes (fixed length, so the numeric order is the byte
   order); a transient-storage cell is keyed [addr; slot].  32-byte words are N,
   big.Int values are Z, uint64 arithmetic is written mod 2^64 where Go wraps.
   The model follows the code INCLUDING its defect F8: StateDB.Suicide zeroes
   data.Size without journalling it.  The boolean parameter [fx] selects the
   proposed repair (suicideChange also records and restores the size); the code
   of /repo is [fx = false]. *)
From Coq Require Import List NArith ZArith Bool.
From GQ Require Import Lib.Key Lib.SMap Generated.C12Journal.
Import ListNotations.

(* Which variant of the code /repo contains, as found by the generator in the source text
   (Generated/C12Journal.v): the model follows these flags, so the check keeps deciding the property
   when one of the proposed repairs is applied.  Opaque for tactics (proofs hold for both values),
   still evaluated by vm_compute. *)
Definition code_fx : bool := gen_suicide_restores_size.        (* F8 repaired *)
Definition code_rejournal : bool := gen_size_revert_rejournals. (* sizeChange.revert uses the journalling setter *)
Definition code_fixd : bool := gen_evm_revert_restores_batch.   (* F9 repaired *)
Definition code_create_oog_reverts : bool := gen_create_reverts_on_codestore_oog. (* EVM.create reverts on ErrCodeStoreOutOfGas *)
Global Opaque code_fx code_rejournal code_fixd code_create_oog_reverts.

Definition word := N.

(* visible value of a storage cell: absent = zero (common.Hash{}) *)
Definition getw (k : key) (m : smap word) : word :=
  match get k m with Some v => v | None => 0%N end.
(* dirtyStorage[key] = value, seen through GetState; transientStorage.Set (deletes on zero) *)
Definition setw (k : key) (v : word) (m : smap word) : smap word :=
  if N.eqb v 0 then del k m else put k v m.

(* ---------- stateObject (state_object.go) ---------- *)
Record acct := mkAcct {
  a_nonce : N;            (* data.Nonce *)
  a_bal : Z;              (* data.Balance *)
  a_code : list N;        (* code; data.CodeHash = keccak(code) *)
  a_stor : smap word;     (* visible storage: dirty over pending over origin over trie *)
  a_size : Z;             (* data.Size, the storage-size counter *)
  a_suic : bool;          (* suicided *)
  a_del : bool            (* deleted (set by Finalize only) *)
}.

Definition new_acct : acct := mkAcct 0 0 [] [] 0 false false.   (* newObject(db, addr, Account{}) *)

Definition set_nonce (o : acct) (v : N) := mkAcct v (a_bal o) (a_code o) (a_stor o) (a_size o) (a_suic o) (a_del o).
Definition set_bal (o : acct) (v : Z) := mkAcct (a_nonce o) v (a_code o) (a_stor o) (a_size o) (a_suic o) (a_del o).
Definition set_code (o : acct) (v : list N) := mkAcct (a_nonce o) (a_bal o) v (a_stor o) (a_size o) (a_suic o) (a_del o).
Definition set_stor (o : acct) (v : smap word) := mkAcct (a_nonce o) (a_bal o) (a_code o) v (a_size o) (a_suic o) (a_del o).
Definition set_size (o : acct) (v : Z) := mkAcct (a_nonce o) (a_bal o) (a_code o) (a_stor o) v (a_suic o) (a_del o).
Definition set_suic (o : acct) (v : bool) := mkAcct (a_nonce o) (a_bal o) (a_code o) (a_stor o) (a_size o) v (a_del o).

(* stateObject.empty *)
Definition acct_empty (o : acct) : bool :=
  N.eqb (a_nonce o) 0 && Z.eqb (a_bal o) 0 && (match a_code o with [] => true | _ => false end) && Z.eqb (a_size o) 0.

(* ---------- the journalled part of StateDB ---------- *)
Record core := mkCore {
  objs : smap acct;            (* stateObjects over the account trie *)
  refund : N;                  (* refund (uint64) *)
  logs : list N;               (* logs[thash] for the current tx hash, payload ids *)
  logsize : N;                 (* logSize *)
  preim : smap (list N);       (* preimages *)
  al_addr : smap Z;            (* accessList.addresses : address -> index into slots, -1 = no slots *)
  al_slots : list (smap unit); (* accessList.slots *)
  transient : smap word        (* transientStorage, flattened to [addr;key] -> nonzero value *)
}.

Definition set_objs c v := mkCore v (refund c) (logs c) (logsize c) (preim c) (al_addr c) (al_slots c) (transient c).
Definition set_refund c v := mkCore (objs c) v (logs c) (logsize c) (preim c) (al_addr c) (al_slots c) (transient c).
Definition set_logs c v n := mkCore (objs c) (refund c) v n (preim c) (al_addr c) (al_slots c) (transient c).
Definition set_preim c v := mkCore (objs c) (refund c) (logs c) (logsize c) v (al_addr c) (al_slots c) (transient c).
Definition set_al c a s := mkCore (objs c) (refund c) (logs c) (logsize c) (preim c) a s (transient c).
Definition set_transient c v := mkCore (objs c) (refund c) (logs c) (logsize c) (preim c) (al_addr c) (al_slots c) v.

(* ---------- journal entries: one constructor per Go type in journal.go ---------- *)
Inductive entry :=
| ECreateObject (a : key)                                          (* createObjectChange *)
| EResetObject (a : key) (prev : acct)                              (* resetObjectChange (prevdestruct: snapshots only) *)
| ESuicide (a : key) (prev : bool) (prevbal : Z) (prevsize : option Z) (* suicideChange; prevsize = None in /repo *)
| EBalance (a : key) (prev : Z)                                    (* balanceChange *)
| ENonce (a : key) (prev : N)                                      (* nonceChange *)
| EStorage (a k : key) (prev : word)                               (* storageChange *)
| ECode (a : key) (prevcode : list N)                              (* codeChange *)
| ESize (a : key) (prev : Z)                                       (* sizeChange *)
| ERefund (prev : N)                                               (* refundChange *)
| EAddLog                                                          (* addLogChange *)
| EAddPreimage (h : key)                                           (* addPreimageChange *)
| ETouch (a : key)                                                 (* touchChange *)
| EALAccount (a : key)                                             (* accessListAddAccountChange *)
| EALSlot (a s : key)                                              (* accessListAddSlotChange *)
| ETransient (a k : key) (prev : word).                            (* transientStorageChange *)

(* Go type names, for the generated inventory (Generated/C12Journal.v) *)
Inductive jkind := KcreateObjectChange | KresetObjectChange | KsuicideChange | KbalanceChange
  | KnonceChange | KstorageChange | KcodeChange | KsizeChange | KrefundChange | KaddLogChange
  | KaddPreimageChange | KtouchChange | KaccessListAddAccountChange | KaccessListAddSlotChange
  | KtransientStorageChange.

Definition kind_of (e : entry) : jkind :=
  match e with
  | ECreateObject _ => KcreateObjectChange | EResetObject _ _ => KresetObjectChange
  | ESuicide _ _ _ _ => KsuicideChange | EBalance _ _ => KbalanceChange | ENonce _ _ => KnonceChange
  | EStorage _ _ _ => KstorageChange | ECode _ _ => KcodeChange | ESize _ _ => KsizeChange
  | ERefund _ => KrefundChange | EAddLog => KaddLogChange | EAddPreimage _ => KaddPreimageChange
  | ETouch _ => KtouchChange | EALAccount _ => KaccessListAddAccountChange
  | EALSlot _ _ => KaccessListAddSlotChange | ETransient _ _ _ => KtransientStorageChange
  end.

(* journalEntry.dirtied *)
Definition dirtied (e : entry) : option key :=
  match e with
  | ECreateObject a | ESuicide a _ _ _ | EBalance a _ | ENonce a _ | EStorage a _ _
  | ECode a _ | ESize a _ | ETouch a => Some a
  | EResetObject _ _ | ERefund _ | EAddLog | EAddPreimage _ | EALAccount _ | EALSlot _ _
  | ETransient _ _ _ => None
  end.

(* journal.dirties[addr]++ / the decrement in journal.revert *)
Definition dcount (a : key) (d : smap Z) : Z := match get a d with Some c => c | None => 0%Z end.
Definition dinc (a : key) (d : smap Z) : smap Z := put a (dcount a d + 1)%Z d.
Definition ddec (a : key) (d : smap Z) : smap Z :=
  let c := (dcount a d - 1)%Z in if Z.eqb c 0 then del a d else put a c d.

Record mstate := mkM { m_core : core; m_dirt : smap Z; m_jr : list entry (* newest first *) }.

Definition with_core (m : mstate) (c : core) : mstate := mkM c (m_dirt m) (m_jr m).
Definition with_objs (m : mstate) (v : smap acct) : mstate := with_core m (set_objs (m_core m) v).

(* journal.append *)
Definition append (e : entry) (m : mstate) : mstate :=
  mkM (m_core m) (match dirtied e with Some a => dinc a (m_dirt m) | None => m_dirt m end) (e :: m_jr m).

(* getDeletedStateObject / getStateObject *)
Definition live (a : key) (c : core) : option acct :=
  match get a (objs c) with
  | Some o => if a_del o then None else Some o
  | None => None
  end.

(* StateDB.createObject (address scope checks: harness addresses are in scope) *)
Definition create_object (a : key) (m : mstate) : mstate * option acct :=
  let prev := get a (objs (m_core m)) in
  let m1 := append (match prev with None => ECreateObject a | Some p => EResetObject a p end) m in
  (with_objs m1 (put a new_acct (objs (m_core m1))),
   match prev with Some p => if a_del p then None else Some p | None => None end).

(* StateDB.GetOrNewStateObject *)
Definition get_or_new (a : key) (m : mstate) : mstate * acct :=
  match live a (m_core m) with
  | Some o => (m, o)
  | None => (fst (create_object a m), new_acct)
  end.

Definition upd (a : key) (o : acct) (m : mstate) : mstate := with_objs m (put a o (objs (m_core m))).

Definition ripemd : key := [3%N].   (* 0x0000…03 *)

(* stateObject.touch *)
Definition touch (a : key) (m : mstate) : mstate :=
  let m1 := append (ETouch a) m in
  if keqb a ripemd then mkM (m_core m1) (dinc a (m_dirt m1)) (m_jr m1) else m1.

(* stateObject.SetBalance on the object returned by GetOrNewStateObject *)
Definition obj_set_balance (a : key) (o : acct) (v : Z) (m : mstate) : mstate :=
  upd a (set_bal o v) (append (EBalance a (a_bal o)) m).
Definition obj_set_size (a : key) (o : acct) (v : Z) (m : mstate) : mstate :=
  upd a (set_size o v) (append (ESize a (a_size o)) m).

Definition two64 : N := 18446744073709551616%N.

(* accessList.AddSlot + the journal appends of StateDB.AddSlotToAccessList *)
Fixpoint replace_nth {A} (n : nat) (x : A) (l : list A) : list A :=
  match l, n with
  | [], _ => []
  | _ :: t, O => x :: t
  | h :: t, S n' => h :: replace_nth n' x t
  end.

Definition al_add_slot (a s : key) (m : mstate) : mstate :=
  let c := m_core m in
  let fresh_slot := set_al c (put a (Z.of_nat (length (al_slots c))) (al_addr c)) (al_slots c ++ [[(s, tt)]]) in
  match get a (al_addr c) with
  | None =>                                                (* address not present *)
      append (EALSlot a s) (append (EALAccount a) (with_core m fresh_slot))
  | Some i =>
      if Z.ltb i 0 then                                    (* address present, no slots yet (idx == -1) *)
        append (EALSlot a s) (with_core m fresh_slot)
      else
        match nth_error (al_slots c) (Z.to_nat i) with
        | Some ss =>
            match get s ss with
            | Some _ => m                                  (* no changes required *)
            | None => append (EALSlot a s)
                        (with_core m (set_al c (al_addr c) (replace_nth (Z.to_nat i) (put s tt ss) (al_slots c))))
            end
        | None => m                                        (* index out of range: excluded by WF *)
        end
  end.

(* ---------- operations (exported mutators) ---------- *)
Inductive op :=
| OAddBalance (a : key) (v : Z) | OSubBalance (a : key) (v : Z) | OSetBalance (a : key) (v : Z)
| OSetNonce (a : key) (n : N) | OSetCode (a : key) (c : list N) | OSetState (a k : key) (v : word)
| OSuicide (a : key) | OCreateAccount (a : key) | OGetOrNew (a : key)
| OSetSize (a : key) (z : Z) | OAddSize (a : key) | OSubSize (a : key)    (* stateObject.SetSize/AddSize/SubSize *)
| OAddLog (p : N) | OAddPreimage (h : key) (p : list N) | OAddRefund (g : N) | OSubRefund (g : N)
| OALAddr (a : key) | OALSlot (a s : key) | OSetTransient (a k : key) (v : word)
| OSnapshot | ORevert (id : N).

Inductive out := OutNone | OutBool (b : bool) | OutId (n : N) | OutPanic | OutCrash.

(* one mutator on the journalled part; [fx] = proposed repair of Suicide *)
Definition mutate (fx : bool) (o : op) (m : mstate) : mstate * out :=
  match o with
  | OAddBalance a v =>                      (* StateDB.AddBalance -> stateObject.AddBalance *)
      let '(m1, ob) := get_or_new a m in
      if Z.eqb v 0 then ((if acct_empty ob then touch a m1 else m1), OutNone)
      else (obj_set_balance a ob (a_bal ob + v) m1, OutNone)
  | OSubBalance a v =>
      let '(m1, ob) := get_or_new a m in
      if Z.eqb v 0 then (m1, OutNone) else (obj_set_balance a ob (a_bal ob - v) m1, OutNone)
  | OSetBalance a v =>
      let '(m1, ob) := get_or_new a m in (obj_set_balance a ob v m1, OutNone)
  | OSetNonce a n =>
      let '(m1, ob) := get_or_new a m in
      (upd a (set_nonce ob n) (append (ENonce a (a_nonce ob)) m1), OutNone)
  | OSetCode a code =>
      let '(m1, ob) := get_or_new a m in
      (upd a (set_code ob code) (append (ECode a (a_code ob)) m1), OutNone)
  | OSetState a k v =>                      (* stateObject.SetState *)
      let '(m1, ob) := get_or_new a m in
      let prev := getw k (a_stor ob) in
      if N.eqb prev v then (m1, OutNone)
      else (upd a (set_stor ob (setw k v (a_stor ob))) (append (EStorage a k prev) m1), OutNone)
  | OSuicide a =>                           (* StateDB.Suicide *)
      match live a (m_core m) with
      | None => (m, OutBool false)
      | Some ob =>
          let m1 := append (ESuicide a (a_suic ob) (a_bal ob) (if fx then Some (a_size ob) else None)) m in
          (upd a (set_size (set_bal (set_suic ob true) 0) 0) m1, OutBool true)   (* Size zeroed, not journalled *)
      end
  | OCreateAccount a =>                     (* StateDB.CreateAccount *)
      let '(m1, prev) := create_object a m in
      match prev with
      | Some p => (upd a (set_size (set_bal new_acct (a_bal p)) (a_size p)) m1, OutNone)
      | None => (m1, OutNone)
      end
  | OGetOrNew a => (fst (get_or_new a m), OutNone)
  | OSetSize a z => let '(m1, ob) := get_or_new a m in (obj_set_size a ob z m1, OutNone)
  | OAddSize a => let '(m1, ob) := get_or_new a m in (obj_set_size a ob (a_size ob + 1) m1, OutNone)
  | OSubSize a => let '(m1, ob) := get_or_new a m in (obj_set_size a ob (a_size ob - 1) m1, OutNone)
  | OAddLog p =>
      let m1 := append EAddLog m in let c := m_core m1 in
      (with_core m1 (set_logs c (logs c ++ [p]) (logsize c + 1)), OutNone)
  | OAddPreimage h p =>
      match get h (preim (m_core m)) with
      | Some _ => (m, OutNone)
      | None => let m1 := append (EAddPreimage h) m in
                (with_core m1 (set_preim (m_core m1) (put h p (preim (m_core m1)))), OutNone)
      end
  | OAddRefund g =>
      let m1 := append (ERefund (refund (m_core m))) m in
      (with_core m1 (set_refund (m_core m1) ((refund (m_core m1) + g) mod two64)), OutNone)
  | OSubRefund g =>                         (* journals first, then panics if gas > refund *)
      let m1 := append (ERefund (refund (m_core m))) m in
      if N.ltb (refund (m_core m1)) g then (m1, OutPanic)
      else (with_core m1 (set_refund (m_core m1) (refund (m_core m1) - g)), OutNone)
  | OALAddr a =>
      match get a (al_addr (m_core m)) with
      | Some _ => (m, OutNone)
      | None => let c := m_core m in
                (append (EALAccount a) (with_core m (set_al c (put a (-1)%Z (al_addr c)) (al_slots c))), OutNone)
      end
  | OALSlot a s => (al_add_slot a s m, OutNone)
  | OSetTransient a k v =>
      let cell := a ++ k in
      let prev := getw cell (transient (m_core m)) in
      if N.eqb prev v then (m, OutNone)
      else let m1 := append (ETransient a k prev) m in
           (with_core m1 (set_transient (m_core m1) (setw cell v (transient (m_core m1)))), OutNone)
  | OSnapshot | ORevert _ => (m, OutNone)
  end.

(* ---------- revert (journalEntry.revert for each kind) ---------- *)
(* None = nil dereference / explicit panic inside journal.revert *)
Definition undo_obj (a : key) (f : acct -> acct) (c : core) : option core :=
  match live a c with
  | Some o => Some (set_objs c (put a (f o) (objs c)))
  | None => None
  end.

Definition undo_core (e : entry) (c : core) : option core :=
  match e with
  | ECreateObject a => Some (set_objs c (del a (objs c)))
  | EResetObject a prev => Some (set_objs c (put a prev (objs c)))
  | ESuicide a p pb ps =>
      match live a c with
      | Some o => Some (set_objs c (put a (match ps with
                                           | Some z => set_size (set_bal (set_suic o p) pb) z
                                           | None => set_bal (set_suic o p) pb
                                           end) (objs c)))
      | None => Some c
      end
  | EBalance a p => undo_obj a (fun o => set_bal o p) c
  | ENonce a p => undo_obj a (fun o => set_nonce o p) c
  | EStorage a k p => undo_obj a (fun o => set_stor o (setw k p (a_stor o))) c
  | ECode a p => undo_obj a (fun o => set_code o p) c
  | ESize a p => undo_obj a (fun o => set_size o p) c      (* via the journalling setter SetSize: see undo_dirt *)
  | ERefund p => Some (set_refund c p)
  | EAddLog => Some (set_logs c (removelast (logs c)) (logsize c - 1))
  | EAddPreimage h => Some (set_preim c (del h (preim c)))
  | ETouch _ => Some c
  | EALAccount a => Some (set_al c (del a (al_addr c)) (al_slots c))       (* accessList.DeleteAddress *)
  | EALSlot a s =>                                                       (* accessList.DeleteSlot *)
      match get a (al_addr c) with
      | None => None                                       (* panic: address not present in list *)
      | Some i =>
          if Z.ltb i 0 then None                           (* al.slots[-1]: index out of range *)
          else match nth_error (al_slots c) (Z.to_nat i) with
               | Some ss =>
                   match del s ss with
                   | [] => Some (set_al c (put a (-1)%Z (al_addr c)) (firstn (Z.to_nat i) (al_slots c)))
                   | ss' => Some (set_al c (al_addr c) (replace_nth (Z.to_nat i) ss' (al_slots c)))
                   end
               | None => None
               end
      end
  | ETransient a k p => Some (set_transient c (setw (a ++ k) p (transient c)))
  end.

(* Effect of reverting one entry on journal.dirties.  sizeChange.revert calls the
   journalling setter SetSize, whose journal.append increments dirties[a] before the
   loop in journal.revert decrements it (the appended entry itself is cut off by
   j.entries = j.entries[:snapshot]). *)
Definition undo_dirt (e : entry) (d : smap Z) : smap Z :=
  match e with
  | ESize a _ => if code_rejournal then ddec a (dinc a d) else ddec a d
  | _ => match dirtied e with Some a => ddec a d | None => d end
  end.

(* journal.revert(statedb, snapshot): entries len-1 .. snapshot, then truncate *)
Fixpoint rewind_core (n : nat) (c : core) (j : list entry) : option (core * list entry) :=
  match j with
  | [] => Some (c, [])
  | e :: j' =>
      if Nat.ltb n (length j) then
        match undo_core e c with Some c' => rewind_core n c' j' | None => None end
      else Some (c, j)
  end.

Fixpoint rewind_dirt (n : nat) (d : smap Z) (j : list entry) : smap Z :=
  match j with
  | [] => d
  | e :: j' => if Nat.ltb n (length j) then rewind_dirt n (undo_dirt e d) j' else d
  end.

Definition rewind (n : nat) (m : mstate) : option mstate :=
  match rewind_core n (m_core m) (m_jr m) with
  | Some (c, j) => Some (mkM c (rewind_dirt n (m_dirt m) (m_jr m)) j)
  | None => None
  end.

(* ---------- the whole StateDB ---------- *)
Record sdb := mkSdb {
  s_m : mstate;
  s_revs : list (N * nat);      (* validRevisions, oldest first: (id, journalIndex) *)
  s_next : N;                   (* nextRevisionId *)
  s_added : Z; s_removed : Z    (* SupplyAdded / SupplyRemoved: analytics, never journalled *)
}.

(* sort.Search(len, ids[i] >= revid): first index whose id is >= revid *)
Fixpoint search_rev (id : N) (l : list (N * nat)) (i : nat) : option (nat * (N * nat)) :=
  match l with
  | [] => None
  | r :: l' => if N.leb id (fst r) then Some (i, r) else search_rev id l' (S i)
  end.

Definition step (fx : bool) (x : sdb) (o : op) : sdb * out :=
  match o with
  | OSnapshot =>
      (mkSdb (s_m x) (s_revs x ++ [(s_next x, length (m_jr (s_m x)))]) (s_next x + 1) (s_added x) (s_removed x),
       OutId (s_next x))
  | ORevert id =>
      match search_rev id (s_revs x) 0 with
      | Some (i, (id', n)) =>
          if N.eqb id' id then
            match rewind n (s_m x) with
            | Some m' => (mkSdb m' (firstn i (s_revs x)) (s_next x) (s_added x) (s_removed x), OutNone)
            | None => (x, OutCrash)
            end
          else (x, OutPanic)
      | None => (x, OutPanic)               (* "revision id cannot be reverted" *)
      end
  | _ =>
      let '(m', r) := mutate fx o (s_m x) in
      (mkSdb m' (s_revs x) (s_next x)
         (match o with OAddBalance _ v => s_added x + v | _ => s_added x end)%Z
         (match o with OSubBalance _ v => s_removed x + v | _ => s_removed x end)%Z, r)
  end.

Definition run (fx : bool) (x : sdb) (ops : list op) : sdb :=
  fold_left (fun s o => fst (step fx s o)) ops x.

Fixpoint run_outs (fx : bool) (x : sdb) (ops : list op) : list out :=
  match ops with
  | [] => []
  | o :: ops' => let '(x', r) := step fx x o in r :: run_outs fx x' ops'
  end.

(* ---------- call frames ----------
   core/vm/evm.go Call/CallCode/DelegateCall/StaticCall/create:
     snapshot := evm.StateDB.Snapshot(); ... body ...; if err != nil { evm.StateDB.RevertToSnapshot(snapshot) }
   A frame body is a sequence of mutators and nested calls. *)
Definition is_mut (o : op) : bool := match o with OSnapshot | ORevert _ => false | _ => true end.

(* the one mutator call whose effect the journal of /repo does not fully record (finding F8):
   Suicide of a live account whose storage-size counter is not zero *)
Definition benign (fx : bool) (o : op) (m : mstate) : bool :=
  match o with
  | OSuicide a => fx || match live a (m_core m) with Some ob => Z.eqb (a_size ob) 0 | None => true end
  | _ => true
  end.

(* How a frame ends (core/vm/evm.go Call.. and create): every error reverts to the snapshot taken at
   entry, except that create keeps `err != ErrCodeStoreOutOfGas` in its guard: a creation whose code
   deposit runs out of gas is reported as failed but NOT reverted. *)
Inductive ending := EndOk | EndFail | EndCodeStoreOOG.
Definition ending_reverts (oog_reverts : bool) (e : ending) : bool :=
  match e with EndOk => false | EndFail => true | EndCodeStoreOOG => oog_reverts end.
Definition ending_failed (e : ending) : bool := match e with EndOk => false | _ => true end.
Definition ending_of_class (n : N) : ending :=   (* harness classes: 0 ok, 1 reverted, 2 code-store out of gas *)
  match n with 0%N => EndOk | 2%N => EndCodeStoreOOG | _ => EndFail end.

Inductive frame := FOp (o : op) | FCall (body : list frame) (e : ending).

(* the boolean component stays true as long as every FOp is a mutator and is benign *)
Fixpoint exec (fx oog : bool) (f : frame) (xb : sdb * bool) : sdb * bool :=
  match f with
  | FOp o => (fst (step fx (fst xb) o), snd xb && is_mut o && benign fx o (s_m (fst xb)))
  | FCall body e =>
      let id := s_next (fst xb) in
      let r := fold_left (fun acc g => exec fx oog g acc) body (fst (step fx (fst xb) OSnapshot), snd xb) in
      if ending_reverts oog e then (fst (step fx (fst r) (ORevert id)), snd r) else r
  end.

(* a StateDB between transactions: nothing to revert *)
Definition fresh (c : core) (d : smap Z) (next : N) : sdb := mkSdb (mkM c d []) [] next 0 0.

Definition empty_core : core := mkCore [] 0 [] 0 [] [] [] [].

(* ---------- EVM layer: core/vm/evm.go (evmSnapshot, snapshot, revertToSnapshot, UndoCoinbasesDeleted)
   and core/vm/contracts.go ClaimCoinbaseLockup ----------
   The EVM keeps, beside the StateDB revision: ETXCache, CoinbaseDeletedHashes, the map CoinbasesDeleted
   (key -> record bytes, the undo information) and EVM.Batch in which a claim stages the deletion of the
   lockup record.  revertToSnapshot truncates the two lists and REPLACES the map by the copy taken at the
   snapshot; it does not touch the batch (finding F9).  [fixd] = proposed repair: before replacing the
   map, put back into the batch every record whose undo information is about to be dropped. *)
Record evmst := mkEvm {
  e_etxs : list N;                      (* ETXCache (ids) *)
  e_hashes : list N;                    (* CoinbaseDeletedHashes *)
  e_deleted : smap (list N);            (* CoinbasesDeleted *)
  e_batch : smap (option (list N));     (* pending view of EVM.Batch: Some None = staged delete *)
  e_db : smap (list N)                  (* database under the batch *)
}.

(* rawdb.ReadCoinbaseLockup(db, batch, ...) *)
Definition lk_view (st : evmst) (k : key) : option (list N) :=
  match get k (e_batch st) with
  | Some None => None
  | Some (Some v) => Some v
  | None => get k (e_db st)
  end.

Inductive eframe :=
| EClaim (k : key) (etx h : N)           (* CALL to the lockup contract, 53-byte input *)
| EEmit (etx : N)                        (* opETX / CreateETX *)
| ECall (body : list eframe) (fails : bool).

Definition evm_restore (old new : smap (list N)) (b : smap (option (list N))) : smap (option (list N)) :=
  fold_left (fun b kv => match get (fst kv) old with Some _ => b | None => put (fst kv) (Some (snd kv)) b end) new b.

(* EVM.revertToSnapshot *)
Definition evm_revert (fixd : bool) (snap st : evmst) : evmst :=
  mkEvm (firstn (length (e_etxs snap)) (e_etxs st)) (firstn (length (e_hashes snap)) (e_hashes st))
        (e_deleted snap)
        (if fixd then evm_restore (e_deleted snap) (e_deleted st) (e_batch st) else e_batch st)
        (e_db st).

Fixpoint eexec (fixd : bool) (f : eframe) (st : evmst) : evmst :=
  match f with
  | EClaim k etx h =>
      match lk_view st k with
      | None => st                                      (* "no lockup to claim": the call errs, nothing staged *)
      | Some v => mkEvm (e_etxs st ++ [etx]) (e_hashes st ++ [h]) (put k v (e_deleted st))
                        (put k None (e_batch st)) (e_db st)
      end
  | EEmit etx => mkEvm (e_etxs st ++ [etx]) (e_hashes st) (e_deleted st) (e_batch st) (e_db st)
  | ECall body fails =>
      let st' := fold_left (fun a g => eexec fixd g a) body st in
      if fails then evm_revert fixd st st' else st'
  end.

(* EVM.UndoCoinbasesDeleted (applyTransaction, failed result) *)
Definition evm_undo (st : evmst) : evmst :=
  mkEvm (e_etxs st) [] []
        (fold_left (fun b kv => put (fst kv) (Some (snd kv)) b) (e_deleted st) (e_batch st)) (e_db st).

(* batch.Write at the end of the block *)
Definition evm_commit (st : evmst) : smap (list N) :=
  fold_left (fun d kv => match snd kv with Some v => put (fst kv) v d | None => del (fst kv) d end) (e_batch st) (e_db st).

(* one transaction = one top-level call; a failed result is followed by UndoCoinbasesDeleted *)
Definition evm_tx (fixd : bool) (top : eframe) (st : evmst) : evmst :=
  let st' := eexec fixd top st in
  match top with ECall _ true => evm_undo st' | _ => st' end.

(* ---------- well-formedness as a boolean (checked on every harness case) ---------- *)
Definition wf_al_entryb (slots : list (smap unit)) (kv : key * Z) : bool :=
  if Z.ltb (snd kv) 0 then Z.eqb (snd kv) (-1)
  else match nth_error slots (Z.to_nat (snd kv)) with Some (_ :: _) => true | _ => false end.

Definition nzb (m : smap word) : bool := forallb (fun kv => negb (N.eqb (snd kv) 0)) m.

Definition wf_coreb (c : core) : bool :=
  forallb (fun kv => sortedb (a_stor (snd kv)) && nzb (a_stor (snd kv))) (objs c)
  && sortedb (objs c) && sortedb (transient c) && nzb (transient c) && sortedb (al_addr c) && sortedb (preim c)
  && forallb (wf_al_entryb (al_slots c)) (al_addr c).

Definition wf_dirtb (d : smap Z) : bool := sortedb d && forallb (fun kv => negb (Z.eqb (snd kv) 0)) d.

(* ---------- decidable equality, for the correspondence check ---------- *)
Fixpoint list_eqb {A} (f : A -> A -> bool) (a b : list A) : bool :=
  match a, b with
  | [], [] => true
  | x :: a', y :: b' => f x y && list_eqb f a' b'
  | _, _ => false
  end.
Definition pair_eqb {A B} (f : A -> A -> bool) (g : B -> B -> bool) (a b : A * B) : bool :=
  f (fst a) (fst b) && g (snd a) (snd b).
Definition opt_eqb {A} (f : A -> A -> bool) (a b : option A) : bool :=
  match a, b with Some x, Some y => f x y | None, None => true | _, _ => false end.
Definition nl_eqb := list_eqb N.eqb.
Definition smap_eqb {V} (f : V -> V -> bool) (a b : smap V) : bool := list_eqb (pair_eqb nl_eqb f) a b.
Definition unit_eqb (a b : unit) := true.

Definition acct_eqb (a b : acct) : bool :=
  N.eqb (a_nonce a) (a_nonce b) && Z.eqb (a_bal a) (a_bal b) && nl_eqb (a_code a) (a_code b)
  && smap_eqb N.eqb (a_stor a) (a_stor b) && Z.eqb (a_size a) (a_size b)
  && Bool.eqb (a_suic a) (a_suic b) && Bool.eqb (a_del a) (a_del b).

Definition core_eqb (a b : core) : bool :=
  smap_eqb acct_eqb (objs a) (objs b) && N.eqb (refund a) (refund b) && nl_eqb (logs a) (logs b)
  && N.eqb (logsize a) (logsize b) && smap_eqb nl_eqb (preim a) (preim b)
  && smap_eqb Z.eqb (al_addr a) (al_addr b) && list_eqb (smap_eqb unit_eqb) (al_slots a) (al_slots b)
  && smap_eqb N.eqb (transient a) (transient b).

Definition entry_eqb (x y : entry) : bool :=
  match x, y with
  | ECreateObject a, ECreateObject b => nl_eqb a b
  | EResetObject a p, EResetObject b q => nl_eqb a b && acct_eqb p q
  | ESuicide a p pb ps, ESuicide b q qb qs => nl_eqb a b && Bool.eqb p q && Z.eqb pb qb && opt_eqb Z.eqb ps qs
  | EBalance a p, EBalance b q => nl_eqb a b && Z.eqb p q
  | ENonce a p, ENonce b q => nl_eqb a b && N.eqb p q
  | EStorage a k p, EStorage b l q => nl_eqb a b && nl_eqb k l && N.eqb p q
  | ECode a p, ECode b q => nl_eqb a b && nl_eqb p q
  | ESize a p, ESize b q => nl_eqb a b && Z.eqb p q
  | ERefund p, ERefund q => N.eqb p q
  | EAddLog, EAddLog => true
  | EAddPreimage a, EAddPreimage b => nl_eqb a b
  | ETouch a, ETouch b => nl_eqb a b
  | EALAccount a, EALAccount b => nl_eqb a b
  | EALSlot a s, EALSlot b t => nl_eqb a b && nl_eqb s t
  | ETransient a k p, ETransient b l q => nl_eqb a b && nl_eqb k l && N.eqb p q
  | _, _ => false
  end.

Definition sdb_eqb (x y : sdb) : bool :=
  core_eqb (m_core (s_m x)) (m_core (s_m y)) && smap_eqb Z.eqb (m_dirt (s_m x)) (m_dirt (s_m y))
  && list_eqb entry_eqb (m_jr (s_m x)) (m_jr (s_m y))
  && list_eqb (pair_eqb N.eqb Nat.eqb) (s_revs x) (s_revs y) && N.eqb (s_next x) (s_next y)
  && Z.eqb (s_added x) (s_added y) && Z.eqb (s_removed x) (s_removed y).

Definition out_eqb (a b : out) : bool :=
  match a, b with
  | OutNone, OutNone | OutPanic, OutPanic | OutCrash, OutCrash => true
  | OutBool x, OutBool y => Bool.eqb x y
  | OutId x, OutId y => N.eqb x y
  | _, _ => false
  end.

(* A StateDB case: id, initial journalled state (core, dirties, next revision id) observed on the real
   StateDB, the history with the observed result of each call, and the observed final state
   (journal and revisions relative to the start of the history). *)
Definition scase := (N * (core * smap Z * N) * list (op * out) * sdb)%type.

Definition scase_ok (c : scase) : bool :=
  let '(_, (c0, d0, n0), h, fin) := c in
  let x0 := fresh c0 d0 n0 in
  wf_coreb c0 && wf_dirtb d0
  && list_eqb out_eqb (run_outs code_fx x0 (map fst h)) (map snd h)
  && sdb_eqb (run code_fx x0 (map fst h)) fin.


(* ---------- storage layers of one slot over the transactions of a block (core/state/state_object.go) ----------
   A live state object keeps three caches per slot: dirtyStorage (written in the current transaction),
   pendingStorage (left by earlier transactions of the block: stateObject.finalize), originStorage
   (cache of the value in the storage trie, kept up to date by updateTrie).  GetState looks them up in
   that order.  [l_jr] = the prevalues of the storageChange entries of the slot, newest first;
   [l_pobj] = the account is in StateDB.stateObjectsPending.  A revision is a journal length.
   [plain = true]: storageChange.revert is  setState(key, prevalue)  and setState is
   dirtyStorage[key] = value  (the code of /repo, obligation storage_revert_is_plain_write);
   [plain = false]: the origin-aware revert (drops the dirty entry when prevalue = originStorage[key]). *)
Definition code_storage_revert_plain : bool := gen_storage_revert_plain && gen_setstate_plain.

Record lslot := mkL {
  l_dirty : option word; l_pending : option word; l_origin : option word; l_trie : word;
  l_jr : list word; l_pobj : bool }.

Definition l_fresh (b : word) : lslot := mkL None None None b [] false.

(* stateObject.GetCommittedState: pending, else cached origin, else read the trie and cache the value *)
Definition l_committed (s : lslot) : word * lslot :=
  match l_pending s with
  | Some v => (v, s)
  | None => match l_origin s with
            | Some v => (v, s)
            | None => (l_trie s, mkL (l_dirty s) None (Some (l_trie s)) (l_trie s) (l_jr s) (l_pobj s))
            end
  end.
(* stateObject.GetState *)
Definition l_get (s : lslot) : word * lslot :=
  match l_dirty s with Some v => (v, s) | None => l_committed s end.
(* stateObject.SetState: no-op when the value is unchanged, else journal the previous value *)
Definition l_set (w : word) (s : lslot) : lslot :=
  let s1 := snd (l_get s) in
  let prev := fst (l_get s) in
  if N.eqb prev w then s1 else mkL (Some w) (l_pending s1) (l_origin s1) (l_trie s1) (prev :: l_jr s1) (l_pobj s1).
(* storageChange.revert (the entry is already off the journal) *)
Definition l_undo (plain : bool) (prev : word) (s : lslot) : lslot :=
  let keep := mkL (Some prev) (l_pending s) (l_origin s) (l_trie s) (l_jr s) (l_pobj s) in
  if plain then keep
  else match l_origin s with
       | Some o => if N.eqb o prev then mkL None (l_pending s) (l_origin s) (l_trie s) (l_jr s) (l_pobj s) else keep
       | None => keep
       end.
(* journal.revert: undo the k newest entries *)
Fixpoint l_pop (plain : bool) (k : nat) (s : lslot) : lslot :=
  match k with
  | O => s
  | S k' => match l_jr s with
            | [] => s
            | p :: j => l_pop plain k' (l_undo plain p (mkL (l_dirty s) (l_pending s) (l_origin s) (l_trie s) j (l_pobj s)))
            end
  end.
Definition l_rewind (plain : bool) (n : nat) (s : lslot) : lslot := l_pop plain (length (l_jr s) - n) s.

Inductive lframe := LSet (w : word) | LCall (body : list lframe) (fails : bool).

Fixpoint l_exec (plain : bool) (f : lframe) (s : lslot) : lslot :=
  match f with
  | LSet w => l_set w s
  | LCall body fails =>
      let n := length (l_jr s) in                       (* Snapshot *)
      let s1 := fold_left (fun x g => l_exec plain g x) body s in
      if fails then l_rewind plain n s1 else s1          (* RevertToSnapshot *)
  end.
Definition l_frames (plain : bool) (fs : list lframe) (s : lslot) : lslot :=
  fold_left (fun x g => l_exec plain g x) fs s.

(* StateDB.Finalize: only accounts in journal.dirties are visited (one count per pending storageChange);
   stateObject.finalize moves the dirty value to pendingStorage; the journal is dropped *)
Definition l_finalize (s : lslot) : lslot :=
  match l_jr s with
  | [] => s
  | _ => mkL None (match l_dirty s with Some v => Some v | None => l_pending s end) (l_origin s) (l_trie s) [] true
  end.
(* StateDB.IntermediateRoot: Finalize, then updateTrie of every object in stateObjectsPending *)
Definition l_root (s : lslot) : lslot :=
  let s1 := l_finalize s in
  if l_pobj s1 then
    match (match l_dirty s1 with Some v => Some v | None => l_pending s1 end) with
    | None => mkL None None (l_origin s1) (l_trie s1) [] false
    | Some v =>
        if N.eqb v (match l_origin s1 with Some o => o | None => 0%N end)
        then mkL None None (l_origin s1) (l_trie s1) [] false
        else mkL None None (Some v) v [] false
    end
  else s1.

(* a block: transactions (frames) each followed by a boundary, true = IntermediateRoot, false = Finalize *)
Definition lblock := list (list lframe * bool).
Definition l_tx (plain : bool) (s : lslot) (t : list lframe * bool) : lslot :=
  let s1 := l_frames plain (fst t) s in if snd t then l_root s1 else l_finalize s1.
Definition l_block (plain : bool) (b : lblock) (s : lslot) : lslot := fold_left (l_tx plain) b s.

(* the harness reads the slot (GetState) after the frames of every transaction *)
Fixpoint l_trace (plain : bool) (b : lblock) (s : lslot) : list word * lslot :=
  match b with
  | [] => ([], s)
  | t :: b' =>
      let s1 := l_frames plain (fst t) s in
      let r := l_get s1 in
      let s2 := if snd t then l_root (snd r) else l_finalize (snd r) in
      let rest := l_trace plain b' s2 in
      (fst r :: fst rest, snd rest)
  end.

Definition optZ (o : option word) : Z := match o with Some v => Z.of_N v | None => (-1)%Z end.

(* a layered case: block-start value of the slot, the block, the values read after each transaction,
   the entries of dirtyStorage / pendingStorage / originStorage after the block (-1 = none), last read *)
Definition lcase_ok (b0 : word) (b : lblock) (vals : list word) (lay : Z * Z * Z) (fin : word) : bool :=
  let r := l_trace code_storage_revert_plain b (l_fresh b0) in
  let s := snd r in
  let '(d, p, o) := lay in
  list_eqb N.eqb (fst r) vals && Z.eqb (optZ (l_dirty s)) d && Z.eqb (optZ (l_pending s)) p
  && Z.eqb (optZ (l_origin s)) o && N.eqb (fst (l_get s)) fin.

(* An EVM case: a transaction (top-level call tree) on a database holding one lockup record [k -> v];
   observed: |ETXCache|, |CoinbaseDeletedHashes|, |CoinbasesDeleted| after the call, and whether the
   record is still readable after UndoCoinbasesDeleted-if-failed and batch.Write. *)
Inductive case :=
| CS (c : scase)
| CE (id : N) (k : key) (v : list N) (top : eframe) (n_etx n_hash n_del : N) (record_left : bool)
| CO (id : N) (class : N) (effects_left : bool)    (* a creation frame: how it ended, and whether its effects stayed *)
| CM (id : N) (db : smap (list N)) (top : eframe) (etxs : list N) (n_hash n_del : N)
| CL (id : N) (b0 : word) (b : lblock) (vals : list word) (lay : Z * Z * Z) (fin : word).
    (* a call tree compiled to bytecode (harness evmtree.go): every frame - entered by CALL, CALLCODE,
       DELEGATECALL, STATICCALL, CREATE or CREATE2, all of them [ECall]: see the obligation
       [evm_frames_covered] - sends (EEmit: ETX / CONVERT opcode) and claims lockup records of [db];
       observed: the ids of the ETXs in the cache after the transaction's call, in order, and the
       lengths of CoinbaseDeletedHashes and CoinbasesDeleted *)

Definition ecase_ok (k : key) (v : list N) (top : eframe) (n_etx n_hash n_del : N) (record_left : bool) : bool :=
  let st0 := mkEvm [] [] [] [] [(k, v)] in
  let st1 := eexec code_fixd top st0 in
  N.eqb (N.of_nat (length (e_etxs st1))) n_etx && N.eqb (N.of_nat (length (e_hashes st1))) n_hash
  && N.eqb (N.of_nat (length (e_deleted st1))) n_del
  && Bool.eqb (match get k (evm_commit (evm_tx code_fixd top st0)) with Some _ => true | None => false end) record_left.

Definition mcase_ok (db : smap (list N)) (top : eframe) (etxs : list N) (n_hash n_del : N) : bool :=
  let st1 := eexec code_fixd top (mkEvm [] [] [] [] db) in
  sortedb db && nl_eqb (e_etxs st1) etxs && N.eqb (N.of_nat (length (e_hashes st1))) n_hash
  && N.eqb (N.of_nat (length (e_deleted st1))) n_del.

Definition case_ok (c : case) : bool :=
  match c with
  | CS c => scase_ok c
  | CE _ k v top a b d r => ecase_ok k v top a b d r
  | CO _ cl stay => Bool.eqb stay (negb (ending_reverts code_create_oog_reverts (ending_of_class cl)))
  | CM _ db top etxs h d => mcase_ok db top etxs h d
  | CL _ b0 b vals lay fin => lcase_ok b0 b vals lay fin
  end.

Definition case_id (c : case) : N :=
  match c with CS (i, _, _, _) => i | CE i _ _ _ _ _ _ _ => i | CO i _ _ => i | CM i _ _ _ _ _ => i
  | CL i _ _ _ _ _ => i end.
Definition mismatches (cs : list case) : list N :=
  map case_id (filter (fun c => negb (case_ok c)) cs).

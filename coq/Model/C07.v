(* C07 — Own blocks validate; any deviation from re-execution is rejected; a rejected
   block leaves no trace.

   Executable model of the block-level control flow of go-quai:
     worker side     core/worker.go  GeneratePendingHeader / FinalizeAssemble
                     (HeaderChain.Finalize with setRoots = true fills the roots)
     validator side  core/block_validator.go ValidateBody, core/state_processor.go
                     Apply -> Process (fee comparisons) -> ValidateState,
                     core/bodydb.go Append, core/headerchain.go SetCurrentHeader.
   Transaction execution itself (Process' loop, HeaderChain.Finalize) is the abstract,
   deterministic function [exec] (its internals are the subject of C01/C02/C04/C13);
   the hashes of lists (types.DeriveSha, types.CalcUncleHash) and of the header are
   abstract functions.  Definitions only; proofs are in Proofs/C07.v. *)
From Coq Require Import List NArith Bool.
Import ListNotations.
Local Open Scope N_scope.

(* The header fields that are compared with a recomputed value by ValidateBody, Process
   and ValidateState (hashes as 256-bit numbers). *)
Record commitments := mkC {
  c_uncle_hash : N;      (* Header.UncleHash        vs CalcUncleHash(body uncles)     ValidateBody  *)
  c_tx_root : N;         (* Header.TxHash           vs DeriveSha(body transactions)   ValidateBody  *)
  c_etx_hash : N;        (* Header.OutboundEtxHash  vs DeriveSha(body outbound etxs)  ValidateBody
                                                    vs DeriveSha(emitted etxs)        ValidateState *)
  c_receipt_root : N;    (* Header.ReceiptHash      vs DeriveSha(receipts)            ValidateState *)
  c_evm_root : N;        (* Header.EVMRoot          vs statedb.IntermediateRoot       ValidateState *)
  c_utxo_root : N;       (* Header.UTXORoot         vs multiSet.Hash                  ValidateState *)
  c_etxset_root : N;     (* Header.EtxSetRoot       vs statedb.ETXRoot                ValidateState *)
  c_gas_used : N;        (* Header.GasUsed          vs usedGas                        ValidateState *)
  c_state_used : N;      (* Header.StateUsed        vs usedState                      ValidateState *)
  c_state_size : N;      (* Header.QuaiStateSize    vs statedb.GetQuaiTrieSize        ValidateState *)
  c_avg_fees : N;        (* Header.AvgTxFees        vs ComputeAverageTxFees           Process       *)
  c_total_fees : N;      (* Header.TotalFees        vs quaiFees + QiToQuai(qiFees)    Process       *)
  c_uncled_entropy : N   (* Header.UncledEntropy    vs UncledLogEntropy(block)        ValidateState *)
}.

Inductive field :=
| FUncleHash | FTxRoot | FEtxHash | FReceiptRoot | FEvmRoot | FUtxoRoot | FEtxSetRoot
| FGasUsed | FStateUsed | FStateSize | FAvgFees | FTotalFees | FUncledEntropy.

Definition all_fields : list field :=
  [FUncleHash; FTxRoot; FEtxHash; FReceiptRoot; FEvmRoot; FUtxoRoot; FEtxSetRoot;
   FGasUsed; FStateUsed; FStateSize; FAvgFees; FTotalFees; FUncledEntropy].

Definition get (f : field) (c : commitments) : N :=
  match f with
  | FUncleHash => c_uncle_hash c | FTxRoot => c_tx_root c | FEtxHash => c_etx_hash c
  | FReceiptRoot => c_receipt_root c | FEvmRoot => c_evm_root c | FUtxoRoot => c_utxo_root c
  | FEtxSetRoot => c_etxset_root c | FGasUsed => c_gas_used c | FStateUsed => c_state_used c
  | FStateSize => c_state_size c | FAvgFees => c_avg_fees c | FTotalFees => c_total_fees c
  | FUncledEntropy => c_uncled_entropy c
  end.

Definition set (f : field) (v : N) (c : commitments) : commitments :=
  match c with
  | mkC a1 a2 a3 a4 a5 a6 a7 a8 a9 a10 a11 a12 a13 =>
    match f with
    | FUncleHash => mkC v a2 a3 a4 a5 a6 a7 a8 a9 a10 a11 a12 a13
    | FTxRoot => mkC a1 v a3 a4 a5 a6 a7 a8 a9 a10 a11 a12 a13
    | FEtxHash => mkC a1 a2 v a4 a5 a6 a7 a8 a9 a10 a11 a12 a13
    | FReceiptRoot => mkC a1 a2 a3 v a5 a6 a7 a8 a9 a10 a11 a12 a13
    | FEvmRoot => mkC a1 a2 a3 a4 v a6 a7 a8 a9 a10 a11 a12 a13
    | FUtxoRoot => mkC a1 a2 a3 a4 a5 v a7 a8 a9 a10 a11 a12 a13
    | FEtxSetRoot => mkC a1 a2 a3 a4 a5 a6 v a8 a9 a10 a11 a12 a13
    | FGasUsed => mkC a1 a2 a3 a4 a5 a6 a7 v a9 a10 a11 a12 a13
    | FStateUsed => mkC a1 a2 a3 a4 a5 a6 a7 a8 v a10 a11 a12 a13
    | FStateSize => mkC a1 a2 a3 a4 a5 a6 a7 a8 a9 v a11 a12 a13
    | FAvgFees => mkC a1 a2 a3 a4 a5 a6 a7 a8 a9 a10 v a12 a13
    | FTotalFees => mkC a1 a2 a3 a4 a5 a6 a7 a8 a9 a10 a11 v a13
    | FUncledEntropy => mkC a1 a2 a3 a4 a5 a6 a7 a8 a9 a10 a11 a12 v
    end
  end.

Definition commitments_eqb (a b : commitments) : bool :=
  forallb (fun f => get f a =? get f b) all_fields.

(* Verdict classes, in the order in which the Go code performs the checks. *)
Inductive vclass :=
| VUncles          (* ValidateBody: hc.VerifyUncles *)
| VUncleHash       (* ValidateBody: "uncle root hash mismatch" *)
| VTxRoot          (* ValidateBody: "transaction root hash mismatch" *)
| VScope           (* ValidateBody: "Qi TXO emitted to an inactive chain" *)
| VEtxBody         (* ValidateBody: "outbound etx hash mismatch" *)
| VExec            (* Process: any error other than the two fee comparisons *)
| VAvg             (* Process: "invalid avgTxFees used" *)
| VTotal           (* Process: "invalid totalFees used" *)
| VGas             (* ValidateState: "invalid gas used" *)
| VStateUsed       (* "invalid state used" *)
| VReceipt         (* "invalid receipt root hash" *)
| VEvmRoot         (* "invalid merkle root" *)
| VStateSize       (* "invalid quai trie size" *)
| VUtxoRoot        (* "invalid utxo root" *)
| VEtxSetRoot      (* "invalid etx root" *)
| VEtxEmitted      (* "invalid outbound etx hash" *)
| VUncledEntropy.  (* "invalid uncledEntropy" *)

Definition class_code (c : vclass) : N :=
  match c with
  | VUncles => 1 | VUncleHash => 2 | VTxRoot => 3 | VScope => 4 | VEtxBody => 5 | VExec => 6
  | VAvg => 7 | VTotal => 8 | VGas => 9 | VStateUsed => 10 | VReceipt => 11 | VEvmRoot => 12
  | VStateSize => 13 | VUtxoRoot => 14 | VEtxSetRoot => 15 | VEtxEmitted => 16 | VUncledEntropy => 17
  end.

Section Chain.
  Variables tx uncle hdr state : Type.
  Variable root : list tx -> N.                 (* types.DeriveSha over a transaction list *)
  Variable uroot : list uncle -> N.             (* types.CalcUncleHash *)
  Variable uncles_ok : state -> hdr -> list uncle -> bool.   (* HeaderChain.VerifyUncles *)
  Variable scope_ok : list tx -> bool.          (* every Qi output goes to an active chain *)

  (* What re-execution produces (Process + the recomputations of ValidateState). *)
  Record exec_out := mkX {
    x_emitted : list tx;      (* ETXs emitted by the transactions ++ coinbase ETXs *)
    x_receipt_root : N; x_evm_root : N; x_utxo_root : N; x_etxset_root : N;
    x_gas_used : N; x_state_used : N; x_state_size : N; x_avg_fees : N; x_total_fees : N;
    x_uncled_entropy : N
  }.

  Variable exec : state -> hdr -> list tx -> list uncle -> option (state * exec_out).

  Record block := mkBlock {
    b_hdr : hdr;                 (* header fields that are not commitments (C09 checks them) *)
    b_txs : list tx;
    b_etxs : list tx;            (* outbound ETX list carried in the body *)
    b_uncles : list uncle;
    b_decl : commitments
  }.

  Definition recomputed (txs : list tx) (uncles : list uncle) (x : exec_out) : commitments :=
    mkC (uroot uncles) (root txs) (root (x_emitted x)) (x_receipt_root x) (x_evm_root x) (x_utxo_root x)
        (x_etxset_root x) (x_gas_used x) (x_state_used x) (x_state_size x) (x_avg_fees x) (x_total_fees x)
        (x_uncled_entropy x).

  Inductive result := Ok (st : state) | Err (c : vclass).

  Definition check (b : bool) (c : vclass) (k : result) : result := if b then k else Err c.

  (* ValidateState (core/block_validator.go), in source order. *)
  Definition validate_state (d : commitments) (st' : state) (x : exec_out) : result :=
    check (x_gas_used x =? c_gas_used d) VGas
   (check (x_state_used x =? c_state_used d) VStateUsed
   (check (x_receipt_root x =? c_receipt_root d) VReceipt
   (check (x_evm_root x =? c_evm_root d) VEvmRoot
   (check (x_state_size x =? c_state_size d) VStateSize
   (check (x_utxo_root x =? c_utxo_root d) VUtxoRoot
   (check (x_etxset_root x =? c_etxset_root d) VEtxSetRoot
   (check (root (x_emitted x) =? c_etx_hash d) VEtxEmitted
   (check (x_uncled_entropy x =? c_uncled_entropy d) VUncledEntropy
   (Ok st'))))))))).

  (* StateProcessor.Apply = Process (with its two fee comparisons) then ValidateState. *)
  Definition apply (st : state) (b : block) : result :=
    match exec st (b_hdr b) (b_txs b) (b_uncles b) with
    | None => Err VExec
    | Some (st', x) =>
        check (x_avg_fees x =? c_avg_fees (b_decl b)) VAvg
       (check (x_total_fees x =? c_total_fees (b_decl b)) VTotal
       (validate_state (b_decl b) st' x))
    end.

  (* ValidateBody (zone branch), in source order. *)
  Definition validate_body (st : state) (b : block) (k : result) : result :=
    check (uncles_ok st (b_hdr b) (b_uncles b)) VUncles
   (check (uroot (b_uncles b) =? c_uncle_hash (b_decl b)) VUncleHash
   (check (root (b_txs b) =? c_tx_root (b_decl b)) VTxRoot
   (check (scope_ok (b_txs b)) VScope
   (check (root (b_etxs b) =? c_etx_hash (b_decl b)) VEtxBody k)))).

  (* Slice.Append -> ConstructLocalBlock (ValidateBody) ... SetCurrentHeader -> Apply. *)
  Definition validate (st : state) (b : block) : result := validate_body st b (apply st b).

  (* Worker: the selected transactions are executed, the results become the header. *)
  Definition assemble (st : state) (h : hdr) (txs : list tx) (uncles : list uncle) : option block :=
    match exec st h txs uncles with
    | Some (_, x) => Some (mkBlock h txs (x_emitted x) uncles (recomputed txs uncles x))
    | None => None
    end.

  (* ---- database effects ---- *)
  Variable bhash : hdr -> commitments -> N.     (* block hash: covers every header field *)
  Variable h_parent : hdr -> N.
  Variable h_num : hdr -> N.

  Definition hash_of (b : block) : N := bhash (b_hdr b) (b_decl b).

  Record db := mkDb {
    d_state : state;             (* everything the block batch writes *)
    d_canon : list (N * N);      (* number -> canonical hash records *)
    d_head : N;                  (* head block hash *)
    d_headnum : N
  }.

  Definition canon_remove (n : N) (l : list (N * N)) : list (N * N) :=
    filter (fun p => negb (fst p =? n)) l.
  Definition canon_write (n h : N) (l : list (N * N)) : list (N * N) := (n, h) :: canon_remove n l.
  Fixpoint canon_get (n : N) (l : list (N * N)) : option N :=
    match l with
    | [] => None
    | (k, h) :: l' => if k =? n then Some h else canon_get n l'
    end.

  (* BodyDb.Append: the batch is written only if Apply returned nil. *)
  Definition append (d : db) (b : block) : db * result :=
    match apply (d_state d) b with
    | Ok st' => (mkDb st' (d_canon d) (d_head d) (d_headnum d), Ok st')
    | Err c => (d, Err c)
    end.

  Inductive sch_result := SOk | SSame | SErr (c : vclass) | SNotChild.

  (* HeaderChain.SetCurrentHeader, branch "head is the normal extension of the canonical head":
     WriteCanonicalHash, AppendBlock, on error DeleteCanonicalHash(number). The reorg branch
     is the subject of C10 and not modelled (SNotChild). *)
  Definition set_current_header (d : db) (b : block) : db * sch_result :=
    if hash_of b =? d_head d then (d, SSame)
    else if h_parent (b_hdr b) =? d_head d then
      let d1 := mkDb (d_state d) (canon_write (h_num (b_hdr b)) (hash_of b) (d_canon d)) (d_head d) (d_headnum d) in
      match append d1 b with
      | (d2, Ok _) => (mkDb (d_state d2) (d_canon d2) (hash_of b) (h_num (b_hdr b)), SOk)
      | (d2, Err c) => (mkDb (d_state d2) (canon_remove (h_num (b_hdr b)) (d_canon d2)) (d_head d2) (d_headnum d2), SErr c)
      end
    else (d, SNotChild).

  (* The full path of an incoming block: ValidateBody first; SetCurrentHeader only if it passed. *)
  Definition offer (d : db) (b : block) : db * sch_result :=
    match validate_body (d_state d) b (Ok (d_state d)) with
    | Err c => (d, SErr c)
    | Ok _ => set_current_header d b
    end.

  Definition run (d : db) (bs : list block) : db := fold_left (fun x b => fst (offer x b)) bs d.

  Fixpoint accepted (d : db) (bs : list block) : list block :=
    match bs with
    | [] => []
    | b :: bs' =>
        match offer d b with
        | (d', SOk) => b :: accepted d' bs'
        | (d', _) => accepted d' bs'
        end
    end.

  (* No canonical record above the head. *)
  Definition wf (d : db) : Prop := forall n h, In (n, h) (d_canon d) -> n <= d_headnum d.
  (* Numbering of a child block (a header rule: C09). *)
  Definition child_numbered (d : db) (b : block) : Prop :=
    h_parent (b_hdr b) = d_head d -> h_num (b_hdr b) = d_headnum d + 1.
End Chain.


(* ---------- correspondence cases ---------- *)

(* What the harness recomputes from the body with the library primitives. *)
Record body_obs := mkBody {
  o_uncles_ok : bool; o_uncle_root : N; o_tx_root : N; o_scope_ok : bool; o_etx_body_root : N }.

(* A case: id, declared commitments, body observation, the recomputed commitments as
   observed from a separate run of the real Process (None = Process returned an error
   other than a fee comparison), and the verdict class observed on the real validation path
   (0 = accepted, otherwise class_code). *)
Record case := mkCase {
  k_id : N; k_decl : commitments; k_body : body_obs; k_exec : option commitments; k_verdict : N }.

(* Instantiate the model: transactions / uncles are opaque tokens whose roots are the
   observed roots; exec returns the observed result. *)
Definition case_exec (k : case) : unit -> unit -> list N -> list N -> option (unit * exec_out N) :=
  fun _ _ _ _ =>
    match k_exec k with
    | None => None
    | Some r => Some (tt, mkX N [c_etx_hash r] (c_receipt_root r) (c_evm_root r) (c_utxo_root r) (c_etxset_root r)
                             (c_gas_used r) (c_state_used r) (c_state_size r) (c_avg_fees r) (c_total_fees r)
                             (c_uncled_entropy r))
    end.

Definition hd0 (l : list N) : N := match l with x :: _ => x | [] => 0 end.

Definition case_verdict (k : case) : N :=
  let o := k_body k in
  let b := mkBlock N N unit tt [o_tx_root o] [o_etx_body_root o] [o_uncle_root o] (k_decl k) in
  match validate N N unit unit hd0 hd0 (fun _ _ _ => o_uncles_ok o) (fun _ => o_scope_ok o) (case_exec k) tt b with
  | Ok _ _ => 0
  | Err _ c => class_code c
  end.

Definition case_ok (k : case) : bool := case_verdict k =? k_verdict k.

Definition mismatches (cs : list case) : list N :=
  map k_id (filter (fun k => negb (case_ok k)) cs).


(* ---------- the worker's arbitration between conflicting pool transactions ----------
   (added after the blind changes, see design/C07.md)

   The pool admits a Qi transaction by looking at the committed UTXO set only; two pool
   transactions may name the same outpoint. The worker arbitrates while it fills a block:
   core/worker.go processQiTx, input loop, with the per-block set env.deletedUtxos.
   A pool transaction is reduced to what this arbitration looks at: the outpoints it names (in
   order; outpoints are numbers) and whether all the OTHER checks of processQiTx (fee, gas,
   ETX limits, denominations, ...) would let it in.  Outputs are not modelled: the worker reads
   the committed set only (w.workerDb), the validator also sees the outputs created earlier in
   the block (GetUTXOWithBatch), so the validator of this model is the stricter one. *)

Definition memN (x : N) (l : list N) : bool := existsb (N.eqb x) l.
Definition delN (x : N) (l : list N) : list N := filter (fun y => negb (y =? x)) l.

Record ptx := mkP { p_ins : list N; p_rest_ok : bool }.

Inductive rverdict := RAccept | RMissing | RContested (x : N).

(* processQiTx, `for _, txIn := range tx.TxIn()`: GetUTXO == nil -> "spends non-existent UTXO";
   already in env.deletedUtxos -> "double spends UTXO"; otherwise env.deletedUtxos[h] = {}.
   Returns the set afterwards, the outpoints this transaction inserted itself, and the verdict. *)
Fixpoint reserve (utxo res own ins : list N) : list N * list N * rverdict :=
  match ins with
  | [] => (res, own, RAccept)
  | x :: r =>
      if negb (memN x utxo) then (res, own, RMissing)
      else if memN x res then (res, own, RContested x)
      else reserve utxo (x :: res) (x :: own) r
  end.

(* What happens to the reservations of a transaction that is NOT included:
   KeepAll      the code as it is: nothing is released (the inputs stay blocked for this block)
   ReleaseOwn   a clean-up that releases exactly what the rejected transaction inserted itself
   ReleaseNamed a clean-up that releases every outpoint the rejected transaction named so far,
                including the contested one (which belongs to a transaction already included) *)
Inductive policy := KeepAll | ReleaseOwn | ReleaseNamed.

Definition cleanup (p : policy) (res own : list N) (v : rverdict) : list N :=
  match p with
  | KeepAll => res
  | ReleaseOwn => fold_right delN res own
  | ReleaseNamed =>
      match v with
      | RContested x => delN x (fold_right delN res own)
      | _ => fold_right delN res own
      end
  end.

(* one iteration of the Qi branch of worker.commitTransactions: (reserved set, selected list) *)
Definition wstep (p : policy) (utxo : list N) (acc : list N * list ptx) (t : ptx) : list N * list ptx :=
  let '(res, sel) := acc in
  match reserve utxo res [] (p_ins t) with
  | (res', own, RAccept) =>
      if p_rest_ok t then (res', sel ++ [t]) else (cleanup p res' own RAccept, sel)
  | (res', own, v) => (cleanup p res' own v, sel)
  end.

Definition wselect (p : policy) (utxo : list N) (pool : list ptx) : list ptx :=
  snd (fold_left (wstep p utxo) pool ([], [])).

(* validator: core/state_processor.go ProcessQiTx input loop inside Process' loop over the body:
   every named outpoint must be in the set (GetUTXOWithBatch) and is deleted from it
   (rawdb.DeleteUTXO(batch, ...)); the first failing transaction rejects the block. *)
Fixpoint spend (utxo ins : list N) : option (list N) :=
  match ins with
  | [] => Some utxo
  | x :: r => if memN x utxo then spend (delN x utxo) r else None
  end.

Fixpoint vspend (utxo : list N) (body : list ptx) : bool :=
  match body with
  | [] => true
  | t :: r => match spend utxo (p_ins t) with Some u' => vspend u' r | None => false end
  end.

Definition spent_by (body : list ptx) : list N := flat_map p_ins body.


(* ---------- third round: skipped pool transactions and the minimum-inclusion rule ----------
   (added after the second set of blind changes, see design/C07.md)

   (a) core/worker.go commitTransaction, generic path: snap := env.state.Snapshot();
   ApplyTransaction(...); on error env.state.RevertToSnapshot(snap) and the transaction is
   skipped.  ApplyTransaction may fail AFTER it wrote to the state (buyGas debits the sender
   before ErrInsufficientFundsForTransfer; the whole message ran before "emits too many
   cross-region / cross-prime ETXs"), so [apply] returns the state it leaves behind together
   with the success flag.  [S] is the committed state; the per-block context that is not
   committed (gas pool, ETX budgets) is not modelled: success is a function of the state. *)

Inductive skip_policy := Revert | KeepEffects.

Section Skip.
  Variables S T : Type.
  Variable apply : S -> T -> S * bool.

  Definition wcommit (p : skip_policy) (st : S) (t : T) : S * bool :=
    let '(st', ok) := apply st t in
    if ok then (st', true)
    else (match p with Revert => st | KeepEffects => st' end, false).

  (* worker.commitTransactions, loop over the pool: (pending state, included list) *)
  Fixpoint wfill (p : skip_policy) (st : S) (pool : list T) : S * list T :=
    match pool with
    | [] => (st, [])
    | t :: r =>
        let '(st1, ok) := wcommit p st t in
        let '(st2, inc) := wfill p st1 r in
        (st2, if ok then t :: inc else inc)
    end.

  (* StateProcessor.Process: re-executes the included list; the first failure rejects the block *)
  Fixpoint vexec (st : S) (l : list T) : option S :=
    match l with
    | [] => Some st
    | t :: r => let '(st', ok) := apply st t in if ok then vexec st' r else None
    end.
End Skip.

(* (b) core/state_processor.go Process, after the transaction loop: oldestIndex :=
   statedb.GetOldestIndex(); etx := statedb.ReadETX(oldestIndex); etxAvailable := etx != nil;
   then, by regime, "total number of ETXs … is not within the range" / "total gas used by
   ETXs … is not within the range".  The queue is the list of the gas amounts its ETXs use;
   a block includes the first k of them (order and identity are checked in the loop).
   [AfterPops]: the probe reads the head of the queue as the block's pops left it (the code);
   [BeforePops]: the index is read before the loop; the slot it names is deleted by the first
   pop, so the probe finds nothing as soon as the block pops at least one ETX. *)

Inductive probe := AfterPops | BeforePops.

Definition etx_available (p : probe) (q : list N) (k : nat) : bool :=
  match p with
  | AfterPops => Nat.ltb k (List.length q)
  | BeforePops => match k with O => Nat.ltb 0 (List.length q) | Datatypes.S _ => false end
  end.

Definition gas_of (q : list N) (k : nat) : N := fold_right N.add 0 (firstn k q).

(* gas regime (block number > TimeToStartTx) *)
Definition rule_gas (p : probe) (q : list N) (k : nat) (minG maxG : N) : bool :=
  negb ((etx_available p q k && (gas_of q k <? minG)) || (maxG <? gas_of q k)).

(* count regime (block number <= TimeToStartTx) *)
Definition rule_count (p : probe) (q : list N) (k : nat) (minC maxC : N) : bool :=
  negb ((etx_available p q k && (N.of_nat k <? minC)) || (maxC <? N.of_nat k)).

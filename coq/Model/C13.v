(* C13 — executable model of the coinbase-lockup ledger (core/vm/contracts.go
   AddNewLock / ClaimCoinbaseLockup / GetLockupData / GetLatestLockupData over
   core/rawdb Read/Write/DeleteCoinbaseLockup), of the lockup value arithmetic
   (params/protocol_params.go CalculateCoinbaseValueWithLockup /
   CalculateLockupByteRewardsMultiple) and of the redemption scan
   (core/state_processor.go RedeemLockedQuai).  Definitions only; the branch order
   follows the Go source.  Constants come from Generated/C13Params.v. *)
From Coq Require Import List NArith ZArith Bool.
From GQ Require Import Lib.Key Lib.SMap Generated.C13Params.
Import ListNotations.
Import C13Params.
Local Open Scope N_scope.

Definition addr := list N.                       (* 20 bytes *)
Definition E : N := epoch_blocks.                (* params.CoinbaseEpochBlocks *)
Definition two16 : N := 65536.
Definition two32 : N := 4294967296.
Definition two256 : Z := Z.pow 2 256.

(* common.IsInChainScope for node location (0,0): byte prefix 0x00;
   Address.IsInQiLedgerScope: second byte > 127. *)
Definition internal (a : addr) : bool := match a with b0 :: _ => b0 =? 0 | [] => false end.
Definition is_qi (a : addr) : bool := match a with _ :: b1 :: _ => 127 <? b1 | _ => false end.
Definition is_quai (a : addr) : bool := negb (is_qi a).
Definition zero_addr : addr := repeat 0 20.

(* ---------------------------------------------------------------- ledger *)

Record lkrec := mkRec { r_bal : Z; r_unlock : N; r_elems : N; r_deleg : addr }.
Definition ledger := smap lkrec.
Definition empty_rec : lkrec := mkRec 0%Z 0 0 zero_addr.

Definition be4 (e : N) : list N :=
  [e / 16777216 mod 256; e / 65536 mod 256; e / 256 mod 256; e mod 256].
(* rawdb.CoinbaseLockupKey without the constant "cl" prefix *)
Definition enc (owner miner : addr) (lb epoch : N) : key := owner ++ miner ++ [lb] ++ be4 epoch.

(* rawdb.ReadCoinbaseLockup: pending view of the batch, then the database; absent = zeros *)
Definition read (L : ledger) (k : key) : lkrec :=
  match get k L with Some r => r | None => empty_rec end.

Record addargs := mkAdd {
  a_owner : addr; a_miner : addr; a_deleg : addr; a_sender_ok : bool;
  a_lb : N; a_unlock : N; a_epoch : N; a_value : Z }.
Definition add_key (a : addargs) : key := enc (a_owner a) (a_miner a) (a_lb a) (a_epoch a).

(* contracts.go:AddNewLock.  Some (L', deleted, oldLockupData) on success. *)
Definition add_core (L : ledger) (a : addargs) : option (ledger * bool * option lkrec) :=
  if negb (internal (a_owner a) && is_quai (a_owner a)) then None      (* ownerContract.InternalAndQuaiAddress *)
  else if negb (internal (a_miner a)) then None                        (* beneficiaryMiner.InternalAddress *)
  else if negb (a_sender_ok a) then None                               (* sender != OneInternal *)
  else if (a_value a <=? 0)%Z then None                                (* value.Sign() <= 0 *)
  else
    let k := add_key a in
    let r := read L k in
    if negb (r_unlock r =? 0) && (a_unlock a <? r_unlock r) then None  (* "math is broken" *)
    else if (a_epoch a =? 0) && negb (r_unlock r =? 0) then None
    else
      let '(bal, th, el, deleted, old) :=
        if r_unlock r =? 0 then
          (* new tranche: unlock height rounded down to the epoch, truncated to uint32 *)
          (0%Z, (a_unlock a - a_unlock a mod E) mod two32, 0, false, None)
        else
          (* existing tranche: the returned "old" record carries the delegate stored before
             (since fix commit 6881531a; it used to be built with the NEW delegate: finding F6 of C10) *)
          (r_bal r, r_unlock r, r_elems r, true,
           Some (mkRec (r_bal r) (r_unlock r) (r_elems r) (r_deleg r))) in
      let el' := (el + 1) mod two16 in                                 (* uint16 elements++ *)
      let bal' := (bal + a_value a)%Z in
      if (two256 <=? bal')%Z then None                                 (* WriteCoinbaseLockup: amount too large *)
      else Some (put k (mkRec bal' th el' (a_deleg a)) L, deleted, old).

Inductive cmode := TxOk | TxFailed | EvmOk | EvmInnerRevert.

Record claimargs := mkClaim {
  c_caller : addr; c_miner : addr; c_to : addr; c_lb : N; c_epoch : N;
  c_height : N; c_gas : N; c_etxgas : N }.
Definition claim_key (c : claimargs) : key := enc (c_caller c) (c_miner c) (c_lb c) (c_epoch c).

(* contracts.go:ClaimCoinbaseLockup after the gas deduction: Some r = the record paid out *)
Definition claim_check (L : ledger) (c : claimargs) : option lkrec :=
  if negb (internal (c_caller c) && is_quai (c_caller c)) then None
  else if negb (internal (c_miner c)) then None
  else
    let latest := (c_height c / E + 1) mod two32 in
    if latest <=? c_epoch c then None                                  (* epoch >= latestEpoch *)
    else if (is_qi (c_miner c) && is_quai (c_to c)) || (is_quai (c_miner c) && is_qi (c_to c)) then None
    else
      let r := read L (claim_key c) in
      if r_unlock r =? 0 then None                                     (* no lockup to claim *)
      else if c_height c mod two32 <? r_unlock r then None             (* tranche not unlocked yet *)
      else if r_elems r =? 0 then None
      else Some r.

Record paid := mkPaid { p_value : Z; p_to : addr; p_sender : addr; p_gas : N }.

Inductive op :=
| OAdd (a : addargs)
| OClaim (m : cmode) (c : claimargs)
| OGet (owner miner : addr) (lb epoch : N)              (* GetLockupData, 25-byte input *)
| OGetLatest (owner miner : addr) (lb height : N)       (* GetLatestLockupData, 21-byte input *)
| OCommit.                                              (* batch.Write + fresh pending batch *)

Inductive out :=
| RAdd (ok deleted : bool) (old : option lkrec) (post : lkrec)
| RClaim (ok : bool) (gas_after : N) (p : option paid) (post : lkrec)
| RGet (ok : bool) (r : lkrec)
| RAddN (oks : N) (post : lkrec)
| RNone.

Definition step (L : ledger) (o : op) : ledger * out :=
  match o with
  | OAdd a =>
      match add_core L a with
      | Some (L', d, old) => (L', RAdd true d old (read L' (add_key a)))
      | None => (L, RAdd false false None (read L (add_key a)))
      end
  | OClaim m c =>
      let k := claim_key c in
      let direct := match m with TxOk | TxFailed => true | _ => false end in
      if direct && (c_gas c <? c_etxgas c) then (L, RClaim false (c_gas c) None (read L k))
      else
        let g := if direct then c_gas c - c_etxgas c else 0 in
        match claim_check L c with
        | None =>
            (* direct call: error.  Through the EVM the callers swallow the failure and the outer
               call succeeds, except for common.ErrExternalAddress (external beneficiary), which
               opCall propagates as a hard failure of every enclosing frame *)
            (L, RClaim (negb direct && internal (c_miner c)) g None (read L k))
        | Some r =>
            let pd := mkPaid (r_bal r) (c_to c) (c_caller c) (c_etxgas c) in
            match m with
            | TxOk | EvmOk => let L' := del k L in (L', RClaim true g (Some pd) (read L' k))
            | TxFailed =>
                (* applyTransaction: result.Failed -> evm.UndoCoinbasesDeleted re-puts the record; no ETX *)
                let L' := put k r (del k L) in (L', RClaim true g None (read L' k))
            | EvmInnerRevert =>
                (* evm.revertToSnapshot restores ETXCache and CoinbasesDeleted but not the batch:
                   the record stays deleted and no ETX is emitted *)
                let L' := del k L in (L', RClaim true g None (read L' k))
            end
        end
  | OGet ow mi lb ep =>
      if negb (internal ow && is_quai ow) then (L, RGet false empty_rec)
      else if negb (internal mi) then (L, RGet false empty_rec)
      else (L, RGet true (read L (enc ow mi lb ep)))
  | OGetLatest ow mi lb h =>
      (L, RGet true (read L (enc ow mi lb ((h / E + 1) mod two32))))
  | OCommit => (L, RNone)
  end.

Definition run_state (L : ledger) (ops : list op) : ledger :=
  fold_left (fun l o => fst (step l o)) ops L.

Fixpoint run (L : ledger) (ops : list op) : list out :=
  match ops with
  | [] => []
  | o :: t => let '(L', r) := step L o in r :: run L' t
  end.

(* ghost bookkeeping used by the theorems: what an operation adds to / pays from / burns
   from the ledger, computed from the pre-state. *)
Definition added_by (L : ledger) (o : op) : Z :=
  match o with
  | OAdd a => match add_core L a with Some _ => a_value a | None => 0%Z end
  | _ => 0%Z
  end.
Definition claim_goes (c : claimargs) (m : cmode) : bool :=
  match m with TxOk | TxFailed => negb (c_gas c <? c_etxgas c) | _ => true end.
Definition paid_by (L : ledger) (o : op) : Z :=
  match o with
  | OClaim m c =>
      if claim_goes c m then
        match claim_check L c, m with
        | Some r, (TxOk | EvmOk) => r_bal r
        | _, _ => 0%Z
        end
      else 0%Z
  | _ => 0%Z
  end.
Definition burned_by (L : ledger) (o : op) : Z :=
  match o with
  | OClaim EvmInnerRevert c => match claim_check L c with Some r => r_bal r | None => 0%Z end
  | _ => 0%Z
  end.

Definition total (L : ledger) : Z := fold_right (fun kv acc => (r_bal (snd kv) + acc)%Z) 0%Z L.

Fixpoint sum_over (f : ledger -> op -> Z) (L : ledger) (ops : list op) : Z :=
  match ops with
  | [] => 0%Z
  | o :: t => (f L o + sum_over f (fst (step L o)) t)%Z
  end.

(* ---------------------------------------------------------------- lockup value *)

Definition BPY : N := blocks_per_year.

(* params.CalculateLockupByteRewardsMultiple for 1 <= lb <= MaxLockupByte (int64 arithmetic,
   Go's "/" truncates toward zero = Z.quot) *)
Definition rewards_multiple (lb h : N) : Z :=
  let year := h / BPY in
  let '(m0, m1) := nth (N.to_nat lb) multiples (0, 0) in
  if year =? 0 then Z.of_N m0
  else if 4 <? year then Z.of_N m1
  else
    let c := Z.of_N m0 in
    let a := (Z.of_N m1 - Z.of_N m0)%Z in
    let b := Z.of_N (4 * BPY) in
    let x := (Z.of_N h - Z.of_N BPY)%Z in
    Z.quot (a * x + b * c) b.

(* params.CalculateCoinbaseValueWithLockup (big.Int Div = Euclidean division) *)
Definition lockup_value (v : Z) (lb h : N) : Z :=
  if (lb =? 0) || (h <? 2 * blocks_per_month) then v
  else ((v * rewards_multiple lb h) / 100000)%Z.

(* ---------------------------------------------------------------- redemption *)

Inductive ekind := KCoinbase | KConversion | KOther.
Record retx := mkRetx { e_kind : ekind; e_to : addr; e_dlen : N; e_lock : N; e_value : Z }.

Definition depth_of (lb : N) : option N := nth_error depths (N.to_nat lb).
Definition plain_len : N := 1 + hash_length.
Definition contract_len1 : N := 1 + address_length + hash_length.
Definition contract_len2 : N := 1 + address_length + address_length + hash_length.

(* what RedeemLockedQuai does with one ETX of the block at height h - d *)
Inductive sel := SCredit (a : addr) (amount : Z) | SSkip | SError | SPanic.

Definition select (d h : N) (x : retx) : sel :=
  let conv :=
    match e_kind x with
    | KConversion =>
        if is_quai (e_to x) && (d =? conversion_lock_period) then
          if internal (e_to x) then SCredit (e_to x) (e_value x) else SError
        else SSkip
    | _ => SSkip
    end in
  match e_kind x with
  | KCoinbase =>
      if is_quai (e_to x) then
        if e_dlen x =? plain_len then
          if negb (internal (e_to x)) then SError
          else match depth_of (e_lock x) with
               | None => SPanic                                   (* LockupByteToBlockDepth[lockupByte] out of range *)
               | Some lk => if lk =? d then SCredit (e_to x) (lockup_value (e_value x) (e_lock x) h) else SSkip
               end
        else SSkip                                                (* contract-held or malformed: continue *)
      else conv
  | _ => conv
  end.

Definition accts := smap Z.                                       (* existing accounts and their balances *)

Inductive rres := RedOk (credits : list (addr * Z)) (st : accts) | RedErr | RedPanic.

(* inner loop over the ETXs of one target block *)
Fixpoint scan (d h : N) (fee : Z) (xs : list retx) (cr : list (addr * Z)) (st : accts) : rres :=
  match xs with
  | [] => RedOk cr st
  | x :: t =>
      match select d h x with
      | SError => RedErr
      | SPanic => RedPanic
      | SSkip => scan d h fee t cr st
      | SCredit a v =>
          match get a st with
          | Some b => scan d h fee t (cr ++ [(a, v)]) (put a (b + v)%Z st)
          | None =>
              if (fee <=? v)%Z then scan d h fee t (cr ++ [(a, (v - fee)%Z)]) (put a (v - fee)%Z st)
              else scan d h fee t cr st                           (* cannot pay the account creation fee *)
          end
      end
  end.

Definition chain := list (N * list retx).                        (* canonical blocks by height *)
Fixpoint block_at (ch : chain) (n : N) : option (list retx) :=
  match ch with
  | [] => None
  | (m, xs) :: t => if m =? n then Some xs else block_at t n
  end.

Fixpoint redeem_depths (ds : list N) (ch : chain) (h : N) (fee : Z) (cr : list (addr * Z)) (st : accts) : rres :=
  match ds with
  | [] => RedOk cr st
  | d :: t =>
      if h <=? d then redeem_depths t ch h fee cr st
      else match block_at ch (h - d) with
           | None => RedErr
           | Some xs =>
               match scan d h fee xs cr st with
               | RedOk cr' st' => redeem_depths t ch h fee cr' st'
               | r => r
               end
           end
  end.

Definition redeem (ch : chain) (h : N) (fee : Z) (st : accts) : rres := redeem_depths depths ch h fee [] st.

(* state-independent view: which (height, index) pairs the scan at height h selects *)
Fixpoint selected_in (d h b : N) (i : nat) (xs : list retx) : list (N * nat) :=
  match xs with
  | [] => []
  | x :: t =>
      match select d h x with
      | SCredit _ _ => (b, i) :: selected_in d h b (S i) t
      | _ => selected_in d h b (S i) t
      end
  end.
Definition selected_at (ds : list N) (ch : N -> option (list retx)) (h : N) : list (N * nat) :=
  flat_map (fun d => if h <=? d then [] else
                     match ch (h - d) with Some xs => selected_in d h (h - d) 0 xs | None => [] end) ds.

(* side conditions on the generated parameters *)
Fixpoint nodupb (l : list N) : bool :=
  match l with
  | [] => true
  | x :: t => negb (existsb (N.eqb x) t) && nodupb t
  end.
Definition depths_nodup : bool := nodupb depths.
Definition depths_ge_epoch : bool := forallb (fun d => (E <=? d) && (0 <? d)) depths && (0 <? E).
Definition conversion_depth_once : bool :=
  N.of_nat (length (filter (N.eqb conversion_lock_period) depths)) =? 1.
Definition depths_cover_lock_bytes : bool := N.of_nat (length depths) =? max_lockup_byte + 1.
Definition multiples_ok : bool :=
  (N.of_nat (length multiples) =? max_lockup_byte + 1) &&
  forallb (fun m => (snd m <=? fst m) && (100000 <=? snd m)) (tl multiples) && (0 <? blocks_per_year).

(* ---------------------------------------------------------------- reward split (pre-fork formula)
   state_processor.go Process tail: shareReward = blockReward * entropy_i / totalEntropy, and a share
   whose reward rounds to 0 is paid 1.  Modelled for the bound only; not driven by the harness. *)
Definition share_reward (R T e : Z) : Z := let s := (R * e / T)%Z in if (s =? 0)%Z then 1%Z else s.
Definition zsum (l : list Z) : Z := fold_right Z.add 0%Z l.
Definition split_prefork (R : Z) (es : list Z) : list Z := map (share_reward R (zsum es)) es.

(* ---------------------------------------------------------------- correspondence *)

Definition addr_eqb (a b : addr) : bool := keqb a b.
Definition rec_eqb (a b : lkrec) : bool :=
  Z.eqb (r_bal a) (r_bal b) && (r_unlock a =? r_unlock b) && (r_elems a =? r_elems b) &&
  addr_eqb (r_deleg a) (r_deleg b).
Definition orec_eqb (a b : option lkrec) : bool :=
  match a, b with Some x, Some y => rec_eqb x y | None, None => true | _, _ => false end.
Definition paid_eqb (a b : paid) : bool :=
  Z.eqb (p_value a) (p_value b) && addr_eqb (p_to a) (p_to b) && addr_eqb (p_sender a) (p_sender b) &&
  (p_gas a =? p_gas b).
Definition opaid_eqb (a b : option paid) : bool :=
  match a, b with Some x, Some y => paid_eqb x y | None, None => true | _, _ => false end.
Definition out_eqb (a b : out) : bool :=
  match a, b with
  | RAdd o d old p, RAdd o' d' old' p' => Bool.eqb o o' && Bool.eqb d d' && orec_eqb old old' && rec_eqb p p'
  | RClaim o g p r, RClaim o' g' p' r' => Bool.eqb o o' && (g =? g') && opaid_eqb p p' && rec_eqb r r'
  | RGet o r, RGet o' r' => Bool.eqb o o' && rec_eqb r r'
  | RAddN n r, RAddN n' r' => (n =? n') && rec_eqb r r'
  | RNone, RNone => true
  | _, _ => false
  end.

Inductive cop := CPrim (o : op) | CAddN (n : N) (a : addargs)
  | CBlockEnd                (* the operations since the last block end form one block; its undo records are written *)
  | CRollback (k : N).       (* HeaderChain.SetCurrentHeader to the k-th ancestor of the head *)

Definition addn (n : N) (a : addargs) (L : ledger) : ledger * N :=
  N.iter n (fun st => let '(l, oks) := st in
                      match add_core l a with Some (l', _, _) => (l', oks + 1) | None => (l, oks) end) (L, 0).

(* the per-block undo records of the lockups as StateProcessor.Process assembles them
   (CoinbaseLockupsCreatedKeys / CoinbaseLockupsDeleted): per reward, "deleted" (key, old record) if
   AddNewLock replaced a record, else "created" key; per successful claiming transaction the records
   in evm.CoinbasesDeleted (empty after a failed transaction and after a reverted frame) *)
Inductive leff := ECreated (k : key) | EDeleted (k : key) (r : lkrec).
Definition effects_of (L : ledger) (o : op) : list leff :=
  match o with
  | OAdd a =>
      match add_core L a with
      | Some (_, true, Some old) => [EDeleted (add_key a) old]
      | Some (_, _, _) => [ECreated (add_key a)]
      | None => []
      end
  | OClaim m c =>
      match m with
      | TxOk | EvmOk =>
          if claim_goes c m then match claim_check L c with Some r => [EDeleted (claim_key c) r] | None => [] end else []
      | _ => []
      end
  | _ => []
  end.
(* HeaderChain.SetCurrentHeader, rollback of one block: the deleted records are put back in reverse
   order, THEN the keys the block created are deleted *)
Definition undo_block (es : list leff) (L : ledger) : ledger :=
  let L1 := fold_left (fun l e => match e with EDeleted k r => put k r l | _ => l end) (rev es) L in
  fold_left (fun l e => match e with ECreated k => del k l | _ => l end) es L1.
Fixpoint undo_n (k : nat) (L : ledger) (st : list (list leff)) : ledger * list (list leff) :=
  match k, st with
  | S k', es :: st' => undo_n k' (undo_block es L) st'
  | _, _ => (L, st)
  end.

Fixpoint run_case_r (L : ledger) (cur : list leff) (st : list (list leff)) (h : list (cop * out)) : bool :=
  match h with
  | [] => true
  | (CPrim o, r) :: t => let '(L', r') := step L o in out_eqb r r' && run_case_r L' (cur ++ effects_of L o) st t
  | (CAddN n a, r) :: t =>
      let '(L', oks) := addn n a L in out_eqb r (RAddN oks (read L' (add_key a))) && run_case_r L' cur st t
  | (CBlockEnd, r) :: t => out_eqb r RNone && run_case_r L [] (cur :: st) t
  | (CRollback k, r) :: t =>
      let '(L', st') := undo_n (N.to_nat k) L st in out_eqb r RNone && run_case_r L' [] st' t
  end.
Definition run_case (L : ledger) (h : list (cop * out)) : bool := run_case_r L [] [] h.

Fixpoint credits_eqb (a b : list (addr * Z)) : bool :=
  match a, b with
  | [], [] => true
  | (x, v) :: a', (y, w) :: b' => addr_eqb x y && Z.eqb v w && credits_eqb a' b'
  | _, _ => false
  end.
Fixpoint bals_eqb (st : accts) (obs : list (addr * option Z)) : bool :=
  match obs with
  | [] => true
  | (a, ob) :: t =>
      (match get a st, ob with
       | Some x, Some y => Z.eqb x y
       | None, None => true
       | _, _ => false
       end) && bals_eqb st t
  end.

(* ---------------------------------------------------------------- workshare inclusion
   core/headerchain_validation.go HeaderChain.VerifyUncles (zone node, shares without AuxPoW) with
   core/headerchain.go WorkShareDistance, and the reward-at-depth rule of the Process tail
   (core/state_processor.go: a block pays the shares numbered block-depth found in its own uncle
   list and in those of its last `depth` ancestors).
   Blocks and shares are WorkObjectHeaders, so their hashes live in ONE space `hid`.
   The class of the proof of work of a share (hc.VerifySeal / hc.UncleWorkShareClassification: C08's
   subject) and "difficulty = CalcDifficulty(parent)" are observed inputs. *)
Definition hid := N.
Inductive powc := PBlock | PValid | PSub | PInvalid.

Record share := mkShare {
  s_id : hid;          (* uncle.Hash() *)
  s_parent : hid;      (* uncle.ParentHash() *)
  s_num : N;           (* uncle.NumberU64() *)
  s_ptn : N;           (* uncle.PrimeTerminusNumber() *)
  s_qi : bool;         (* uncle.PrimaryCoinbase().IsInQiLedgerScope() *)
  s_data : list N;     (* uncle.Data(); uncle.Location() = (0,0) *)
  s_lock : N;          (* uncle.Lock() *)
  s_seal : bool;       (* hc.VerifySeal(uncle) == nil *)
  s_cls : powc;        (* hc.UncleWorkShareClassification(uncle) *)
  s_diff_ok : bool     (* uncle.Difficulty() == hc.CalcDifficulty(parent) *)
}.
Record blk := mkBlk {
  b_id : hid; b_parent : hid; b_num : N; b_ptn : N; b_uncles : list share
}.

(* verdict classes: only the sentinel errors of package consensus are told apart, every other
   error is VOther *)
Inductive uverdict := VOk | VTooMany | VDup | VAncestor | VDangling | VNumber | VOther.
Definition uverdict_code (v : uverdict) : N :=
  match v with VOk => 0 | VTooMany => 1 | VDup => 2 | VAncestor => 3 | VDangling => 4 | VNumber => 5 | VOther => 6 end.

(* fork-dependent parameters, all selected by the INCLUDING block's prime terminus number *)
Definition u_depth (ptn : N) : nat :=
  N.to_nat (if inclusion_depth_change_block <=? ptn then new_workshares_inclusion_depth else workshares_inclusion_depth).
Definition u_maxcount (ptn : N) : N :=
  if singularity_fork_block <=? ptn then new_max_workshare_count else max_workshare_count.
Definition u_postkaw (ptn : N) : bool := kawpow_fork_block <=? ptn.

Definition hmem (h : hid) (l : list hid) : bool := existsb (N.eqb h) l.
Fixpoint find_blk (db : list blk) (h : hid) : option blk :=
  match db with
  | [] => None
  | b :: t => if b_id b =? h then Some b else find_blk t h
  end.
Definition uids (b : blk) : list hid := map s_id (b_uncles b).

(* the ancestor walk: `fuel` = inclusion depth; a missing header/body ends the walk *)
Fixpoint uwalk (db : list blk) (fuel : nat) (p : hid) (anc : list blk) (ban : list hid) : list blk * list hid :=
  match fuel with
  | O => (anc, ban)
  | S f =>
      match find_blk db p with
      | None => (anc, ban)
      | Some a => uwalk db f (b_parent a) (anc ++ [a]) (ban ++ uids a)
      end
  end.

(* the data field of the share header: lock byte [+ lockup contract [+ beneficiary]] *)
Definition udata_bad (d : list N) : bool :=
  match d with
  | [] => true
  | lb :: rest =>
      (max_lockup_byte <? lb)
      || ((address_length + 1 <=? N.of_nat (length d))
          && let c := firstn 20 rest in negb (internal c && is_quai c))
      || ((N.of_nat (length d) =? 2 * address_length + 1)
          && negb (internal (firstn 20 (skipn 20 rest))))
  end.

(* CheckPowIdValidity / CheckPowIdValidityForWorkshare for a header without AuxPoW *)
Definition upowid_bad (s : share) : bool := kawpow_fork_block + kawpow_transition_period <? s_ptn s.

(* one uncle of `b`, after the duplicate test; anc = the ancestors found by the walk, nearest first *)
Definition ucheck (b : blk) (anc : list blk) (s : share) : uverdict :=
  let family := map b_id anc ++ [b_id b] in
  if s_qi s && (b_ptn b <? controller_kick_in_block) then VOther else
  if udata_bad (s_data s) then VOther else
  if hmem (s_id s) family then VAncestor else
  match (if u_postkaw (b_ptn b)
         then match s_cls s with PBlock => Some false | PValid => Some true | _ => None end
         else Some (negb (s_seal s))) with
  | None => VOther
  | Some workshare =>
      if upowid_bad s then VOther else
      if negb (hmem (s_parent s) family) || (negb workshare && (s_parent s =? b_parent b)) then VDangling else
      (* WorkShareDistance: all `depth` ancestors must exist; a parent inside the family is near enough *)
      if negb (length anc =? u_depth (b_ptn b))%nat then VOther else
      if (s_num s <? 2 * blocks_per_month) && negb (s_lock s =? 0) then VOther else
      (* zone section: difficulty, prime terminus number (after the KawPow fork), number *)
      match find_blk anc (s_parent s) with
      | None => VOther          (* parent = the including block itself: not stored yet *)
      | Some p =>
          if negb (s_diff_ok s) then VOther else
          if u_postkaw (b_ptn b) && negb (s_ptn s =? b_ptn p) then VOther else
          if negb (s_num s =? b_num p + 1) then VNumber else VOk
      end
  end.

Fixpoint uloop (b : blk) (anc : list blk) (ban : list hid) (us : list share) : uverdict :=
  match us with
  | [] => VOk
  | s :: t =>
      if hmem (s_id s) ban then VDup else
      match ucheck b anc s with
      | VOk => uloop b anc (s_id s :: ban) t
      | v => v
      end
  end.

Definition verify_uncles (db : list blk) (b : blk) : uverdict :=
  if u_maxcount (b_ptn b) <? N.of_nat (length (b_uncles b)) then VTooMany else
  match b_uncles b with
  | [] => VOk
  | _ =>
      let '(anc, ban) := uwalk db (u_depth (b_ptn b)) (b_parent b) [] [] in
      uloop b anc (ban ++ [b_id b]) (b_uncles b)
  end.

(* Process tail: the shares a block pays (one coinbase ETX each): those numbered block-depth in
   the uncle lists of the last `depth` ancestors (nearest first) and of the block itself.
   `rest` = the chain below the block, nearest first. *)
Definition upaid (b : blk) (rest : list blk) : list share :=
  let d := u_depth (b_ptn b) in
  if b_num b <=? workshares_inclusion_depth then [] else
  if (length rest <? d)%nat then [] else
  filter (fun s => s_num s =? b_num b - N.of_nat d) (flat_map b_uncles (firstn d rest) ++ b_uncles b).

(* chains are written NEWEST FIRST; the database a block is validated against is the chain below it *)
Fixpoint uwf (c : list blk) : Prop :=          (* distinct block hashes, parent links *)
  match c with
  | [] => True
  | b :: rest =>
      ~ In (b_id b) (map b_id rest)
      /\ match rest with [] => True | p :: _ => b_parent b = b_id p end
      /\ uwf rest
  end.
(* the parent of the oldest block is not a block of the chain (hash chains have no cycles) *)
Definition uroot (c : list blk) : Prop := ~ In (b_parent (last c (mkBlk 0 0 0 0 []))) (map b_id c).
Fixpoint uaccepted (c : list blk) : Prop :=
  match c with [] => True | b :: rest => verify_uncles rest b = VOk /\ uaccepted rest end.
Fixpoint unumbered (c : list blk) : Prop :=
  match c with
  | [] => True
  | b :: rest => match rest with [] => True | p :: _ => b_num b = b_num p + 1 end /\ unumbered rest
  end.
Definition ushares (c : list blk) : list share := flat_map b_uncles c.
(* a hash determines the header it was computed from, in particular its parent hash; the negation is
   a collision of the header hash *)
Definition ubinds (c : list blk) : Prop :=
  forall s s', In s (ushares c) -> In s' (ushares c) -> s_id s = s_id s' -> s_parent s = s_parent s'.
Definition ubinds_blocks (c : list blk) : Prop :=
  forall s b, In s (ushares c) -> In b c -> s_id s = b_id b -> s_parent s = b_parent b.
Fixpoint upaid_all (c : list blk) : list share :=
  match c with [] => [] | b :: rest => upaid b rest ++ upaid_all rest end.

(* a run of the harness: blocks are validated in turn against the blocks stored so far *)
Fixpoint urun (db : list blk) (steps : list (blk * N * bool)) : bool :=
  match steps with
  | [] => true
  | (b, obs, store) :: t =>
      (uverdict_code (verify_uncles db b) =? obs) && urun (if store then b :: db else db) t
  end.

(* ---------------------------------------------------------------- post-fork share reward: time discount *)
(* core/headerchain.go HeaderChain.CalculateTimeDiscountedShareReward (used by StateProcessor.Process and the
   worker for every merged-mined share once PrimeTerminusNumber >= InclusionDepthChangeBlock).  All time
   arithmetic is uint32 and WRAPS (the Go code subtracts without a guard); the amount is big.Int. *)
Definition u32 (x : N) : N := x mod two32.
Definition u32sub (a b : N) : N := (u32 a + two32 - u32 b) mod two32.
Definition u32mul (a b : N) : N := (a * b) mod two32.
Definition u32add (a b : N) : N := (a + b) mod two32.
(* types.PowID: 0 Progpow, 1 Kawpow, 2 SHA_BTC, 3 SHA_BCH, 4 Scrypt; switch: SHA_BCH, SHA_BTC -> sha liveness, default *)
Definition liveness_of (pid : N) : N :=
  if (pid =? 3) || (pid =? 2) then new_share_liveness_time_for_sha else share_liveness_time.
Definition discount_clamp (live dt0 : N) : N :=
  let dt1 := if live <? dt0 then live else dt0 in                       (* if timeSinceSignature > livenessTime *)
  if dt1 <? no_penalty_time_threshold then no_penalty_time_threshold else dt1.
Definition discount_num (live dt : N) : N :=
  let range := u32sub live no_penalty_time_threshold in
  let dist := u32sub live dt in
  let pen := u32 unlively_share_penalty in
  let dv := u32 share_reward_penalty_divisor in
  u32add (u32mul pen range) (u32mul (u32sub dv pen) dist).
Definition discount_den (live : N) : N :=
  u32mul (u32 share_reward_penalty_divisor) (u32sub live no_penalty_time_threshold).
(* None = big.Int.Div panics (division by zero); excluded for the generated constants by discount_params_ok *)
Definition time_discount (pid ts sig : N) (reward : Z) : option Z :=
  let live := liveness_of pid in
  let dt := discount_clamp live (u32sub ts sig) in                      (* share timestamp - signatureTime, uint32 *)
  let den := discount_den live in
  if den =? 0 then None else Some (reward * Z.of_N (discount_num live dt) / Z.of_N den)%Z.
Definition max_penalty_amount (reward : Z) : Z :=
  (reward * Z.of_N unlively_share_penalty / Z.of_N share_reward_penalty_divisor)%Z.
(* side conditions on the generated constants under which no uint32 product wraps and no division is by zero *)
Definition discount_live_ok (live : N) : bool :=
  (no_penalty_time_threshold <? live) && (live <? two32)
  && (share_reward_penalty_divisor * (live - no_penalty_time_threshold) <? two32).
Definition discount_params_ok : bool :=
  discount_live_ok share_liveness_time && discount_live_ok new_share_liveness_time_for_sha
  && (0 <? unlively_share_penalty) && (unlively_share_penalty <=? share_reward_penalty_divisor)
  && (share_reward_penalty_divisor <? two32).

(* observed result of RedeemLockedQuai: class (0 ok, 1 error, 2 panic), unlock list,
   existence/balance of every address mentioned afterwards *)
Inductive cbody :=
| CDiscount (pid ts sig : N) (reward : Z) (cls : N) (observed : Z)
| CLedger (h : list (cop * out))
| CValue (v : Z) (lb h : N) (observed : Z)
| CRedeem (ch : chain) (h : N) (fee : Z) (pre : list (addr * Z))
          (cls : N) (credits : list (addr * Z)) (post : list (addr * option Z))
| CUncles (steps : list (blk * N * bool)).

Definition case := (N * cbody)%type.

Definition mk_accts (pre : list (addr * Z)) : accts := fold_left (fun m kv => put (fst kv) (snd kv) m) pre [].

Definition case_ok (c : case) : bool :=
  match snd c with
  | CLedger h => run_case [] h
  | CValue v lb h obs => Z.eqb (lockup_value v lb h) obs
  | CRedeem ch h fee pre cls cr post =>
      match redeem ch h fee (mk_accts pre) with
      | RedOk cr' st' => (cls =? 0) && credits_eqb cr cr' && bals_eqb st' post
      | RedErr => cls =? 1
      | RedPanic => cls =? 2
      end
  | CUncles steps => urun [] steps
  | CDiscount pid ts sg reward cls obs =>
      match time_discount pid ts sg reward with
      | Some v => (cls =? 0) && Z.eqb v obs
      | None => cls =? 2
      end
  end.

Definition mismatches (cs : list case) : list N :=
  map fst (filter (fun c => negb (case_ok c)) cs).

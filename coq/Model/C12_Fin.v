(* C12 — life cycle of ONE account over the transactions of a block, with the transaction boundary
   (StateDB.Finalize), the trie flush (StateDB.IntermediateRoot), what Commit hands to the snapshot tree,
   and the snapshot-side bookkeeping (snapDestructs, snapAccounts, resetObjectChange.prevdestruct):
   core/state/statedb.go getDeletedStateObject / getStateObject / GetOrNewStateObject / createObject /
   CreateAccount / AddBalance / SetNonce / SetCode / Suicide / Finalize / IntermediateRoot / Commit,
   core/state/journal.go createObjectChange / resetObjectChange / suicideChange / balanceChange /
   nonceChange / codeChange / touchChange (revert and dirtied), journal.append / journal.revert.
   Definitions only; proofs are in Proofs/C12_Fin.v.

   The account has no storage (its size counter stays 0; storage caches are the l_ model of
   Model/C12.v), so stateObject.empty is nonce = 0, balance = 0, no code.  [fa_obj] is what
   getDeletedStateObject returns: the entry of stateObjects, else the account of the parent state
   (loading it into stateObjects is not journalled and not observable: an account leaves stateObjects
   only through createObjectChange.revert, and then the parent state has none).
   [snap] = the StateDB reads through a snapshot layer (s.snap != nil). *)
From Coq Require Import List NArith ZArith Bool.
Import ListNotations.

Record aobj := mkO { o_nonce : N; o_bal : Z; o_code : bool; o_suic : bool; o_del : bool }.
Definition o_new : aobj := mkO 0 0 false false false.              (* newObject(s, addr, Account{}) *)
Definition o_empty (o : aobj) : bool := N.eqb (o_nonce o) 0 && Z.eqb (o_bal o) 0 && negb (o_code o).
Definition o_set_bal (o : aobj) (v : Z) := mkO (o_nonce o) v (o_code o) (o_suic o) (o_del o).
Definition o_set_nonce (o : aobj) (v : N) := mkO v (o_bal o) (o_code o) (o_suic o) (o_del o).
Definition o_set_code (o : aobj) (v : bool) := mkO (o_nonce o) (o_bal o) v (o_suic o) (o_del o).
Definition o_set_suic (o : aobj) (v : bool) := mkO (o_nonce o) (o_bal o) (o_code o) v (o_del o).
Definition o_set_del (o : aobj) (v : bool) := mkO (o_nonce o) (o_bal o) (o_code o) (o_suic o) v.

(* the journal entries that concern the account, with what each one saves *)
Inductive fentry :=
| FECreate                                     (* createObjectChange *)
| FEReset (prev : aobj) (prevdestruct : bool)  (* resetObjectChange *)
| FESuic (prev : bool) (prevbal : Z)           (* suicideChange *)
| FEBal (prev : Z)                             (* balanceChange *)
| FENonce (prev : N)                           (* nonceChange *)
| FECode (prev : bool)                         (* codeChange *)
| FETouch.                                     (* touchChange *)

(* journalEntry.dirtied() != nil *)
Definition fe_dirtied (e : fentry) : bool := match e with FEReset _ _ => false | _ => true end.

Record fstate := mkFS {
  fa_obj : option aobj;            (* getDeletedStateObject(addr) *)
  fa_destruct : bool;              (* addrHash in snapDestructs *)
  fa_snapacct : bool;              (* addrHash in snapAccounts *)
  fa_jr : list fentry;             (* journal, newest first *)
  fa_dirt : nat;                   (* journal.dirties[addr] *)
  fa_pend : bool;                  (* addr in stateObjectsPending *)
  fa_dirty : bool;                 (* addr in stateObjectsDirty *)
  fa_trie : option (N * Z * bool)  (* the account trie: nonce, balance, has code *)
}.

Definition fa_with_obj (s : fstate) (o : option aobj) : fstate :=
  mkFS o (fa_destruct s) (fa_snapacct s) (fa_jr s) (fa_dirt s) (fa_pend s) (fa_dirty s) (fa_trie s).

(* journal.append *)
Definition fa_append (e : fentry) (s : fstate) : fstate :=
  mkFS (fa_obj s) (fa_destruct s) (fa_snapacct s) (e :: fa_jr s)
       (if fe_dirtied e then S (fa_dirt s) else fa_dirt s) (fa_pend s) (fa_dirty s) (fa_trie s).

(* getStateObject: nil for an object deleted by an earlier transaction *)
Definition fa_live (s : fstate) : option aobj :=
  match fa_obj s with Some o => if o_del o then None else Some o | None => None end.

(* createObject: returns the state and the second result (prev, nil unless live) *)
Definition fa_create_object (snap : bool) (s : fstate) : fstate * option aobj :=
  match fa_obj s with
  | None => (fa_with_obj (fa_append FECreate s) (Some o_new), None)
  | Some p =>
      let prevdestruct := snap && fa_destruct s in
      let s1 := mkFS (fa_obj s) (if snap then true else fa_destruct s) (fa_snapacct s) (fa_jr s) (fa_dirt s)
                     (fa_pend s) (fa_dirty s) (fa_trie s) in
      (fa_with_obj (fa_append (FEReset p prevdestruct) s1) (Some o_new), if o_del p then None else Some p)
  end.

(* GetOrNewStateObject *)
Definition fa_get_or_new (snap : bool) (s : fstate) : fstate * aobj :=
  match fa_live s with
  | Some o => (s, o)
  | None => (fst (fa_create_object snap s), o_new)
  end.

Inductive fop :=
| FCreate                 (* StateDB.CreateAccount *)
| FCredit (v : Z)         (* StateDB.AddBalance *)
| FSetNonce (n : N)       (* StateDB.SetNonce *)
| FSetCode                (* StateDB.SetCode with non-empty code *)
| FSuicide.               (* StateDB.Suicide *)

Definition fa_op (snap : bool) (o : fop) (s : fstate) : fstate :=
  match o with
  | FCreate =>
      let '(s1, prev) := fa_create_object snap s in
      match prev with
      | Some p => fa_with_obj s1 (Some (o_set_bal o_new (o_bal p)))   (* newObj.setBalance(prev.data.Balance) *)
      | None => s1
      end
  | FCredit v =>
      let '(s1, ob) := fa_get_or_new snap s in
      if Z.eqb v 0 then (if o_empty ob then fa_append FETouch s1 else s1)
      else fa_with_obj (fa_append (FEBal (o_bal ob)) s1) (Some (o_set_bal ob (o_bal ob + v)))
  | FSetNonce n =>
      let '(s1, ob) := fa_get_or_new snap s in
      fa_with_obj (fa_append (FENonce (o_nonce ob)) s1) (Some (o_set_nonce ob n))
  | FSetCode =>
      let '(s1, ob) := fa_get_or_new snap s in
      fa_with_obj (fa_append (FECode (o_code ob)) s1) (Some (o_set_code ob true))
  | FSuicide =>
      match fa_live s with
      | None => s
      | Some ob => fa_with_obj (fa_append (FESuic (o_suic ob) (o_bal ob)) s) (Some (o_set_bal (o_set_suic ob true) 0))
      end
  end.

(* journalEntry.revert of one entry (already off the journal); the setters used by the reverts go
   through getStateObject: a nil object would panic, the model leaves the state alone there *)
Definition fa_undo_obj (f : aobj -> aobj) (s : fstate) : fstate :=
  match fa_live s with Some o => fa_with_obj s (Some (f o)) | None => s end.

Definition fa_undo (snap : bool) (e : fentry) (s : fstate) : fstate :=
  let s := mkFS (fa_obj s) (fa_destruct s) (fa_snapacct s) (fa_jr s)
                (if fe_dirtied e then pred (fa_dirt s) else fa_dirt s) (fa_pend s) (fa_dirty s) (fa_trie s) in
  match e with
  | FECreate =>            (* delete(s.stateObjects, addr); delete(s.stateObjectsDirty, addr) *)
      mkFS None (fa_destruct s) (fa_snapacct s) (fa_jr s) (fa_dirt s) (fa_pend s) false (fa_trie s)
  | FEReset p pd =>        (* setStateObject(prev); if !prevdestruct && s.snap != nil { delete(snapDestructs, ..) } *)
      mkFS (Some p) (if negb pd && snap then false else fa_destruct s) (fa_snapacct s) (fa_jr s) (fa_dirt s)
           (fa_pend s) (fa_dirty s) (fa_trie s)
  | FESuic p pb => fa_undo_obj (fun o => o_set_bal (o_set_suic o p) pb) s
  | FEBal p => fa_undo_obj (fun o => o_set_bal o p) s
  | FENonce p => fa_undo_obj (fun o => o_set_nonce o p) s
  | FECode p => fa_undo_obj (fun o => o_set_code o p) s
  | FETouch => s
  end.

(* journal.revert: undo the k newest entries *)
Fixpoint fa_pop (snap : bool) (k : nat) (s : fstate) : fstate :=
  match k with
  | O => s
  | S k' =>
      match fa_jr s with
      | [] => s
      | e :: j =>
          fa_pop snap k' (fa_undo snap e (mkFS (fa_obj s) (fa_destruct s) (fa_snapacct s) j (fa_dirt s)
                                              (fa_pend s) (fa_dirty s) (fa_trie s)))
      end
  end.
Definition fa_rewind (snap : bool) (n : nat) (s : fstate) : fstate := fa_pop snap (length (fa_jr s) - n) s.

(* call frames: Snapshot at entry, RevertToSnapshot iff the frame fails *)
Inductive fframe := FFOp (o : fop) | FFCall (body : list fframe) (fails : bool).

Fixpoint fa_exec (snap : bool) (f : fframe) (s : fstate) : fstate :=
  match f with
  | FFOp o => fa_op snap o s
  | FFCall body fails =>
      let n := length (fa_jr s) in
      let s1 := fold_left (fun x g => fa_exec snap g x) body s in
      if fails then fa_rewind snap n s1 else s1
  end.
Definition fa_frames (snap : bool) (fs : list fframe) (s : fstate) : fstate :=
  fold_left (fun x g => fa_exec snap g x) fs s.

(* StateDB.Finalize(true): only addresses in journal.dirties are visited; an address without a live
   entry is skipped; suicided or empty objects are marked deleted (and, with a snapshot layer, marked
   destructed, their snapAccounts entry dropped); then clearJournalAndRefund *)
Definition fa_finalize (snap : bool) (s : fstate) : fstate :=
  let s1 :=
    match fa_dirt s, fa_obj s with
    | S _, Some o =>
        if o_suic o || o_empty o then
          mkFS (Some (o_set_del o true)) (if snap then true else fa_destruct s)
               (if snap then false else fa_snapacct s) (fa_jr s) (fa_dirt s) true true (fa_trie s)
        else mkFS (fa_obj s) (fa_destruct s) (fa_snapacct s) (fa_jr s) (fa_dirt s) true true (fa_trie s)
    | _, _ => s
    end in
  match fa_jr s1 with
  | [] => s1
  | _ => mkFS (fa_obj s1) (fa_destruct s1) (fa_snapacct s1) [] 0 (fa_pend s1) (fa_dirty s1) (fa_trie s1)
  end.

(* StateDB.IntermediateRoot(true): Finalize, then every pending object is deleted from / written to the
   account trie (updateStateObject also records it in snapAccounts) *)
Definition fa_root (snap : bool) (s : fstate) : fstate :=
  let s1 := fa_finalize snap s in
  if fa_pend s1 then
    match fa_obj s1 with
    | None => s1
    | Some o =>
        if o_del o then mkFS (fa_obj s1) (fa_destruct s1) (fa_snapacct s1) (fa_jr s1) (fa_dirt s1) false (fa_dirty s1) None
        else mkFS (fa_obj s1) (fa_destruct s1) (if snap then true else fa_snapacct s1) (fa_jr s1) (fa_dirt s1)
                  false (fa_dirty s1) (Some (o_nonce o, o_bal o, o_code o))
    end
  else s1.

(* a block: transactions (frames) each followed by a boundary, true = IntermediateRoot, false = Finalize *)
Definition fblock := list (list fframe * bool).
Definition fa_tx (snap : bool) (s : fstate) (t : list fframe * bool) : fstate :=
  let s1 := fa_frames snap (fst t) s in if snd t then fa_root snap s1 else fa_finalize snap s1.
Definition fa_block (snap : bool) (b : fblock) (s : fstate) : fstate := fold_left (fa_tx snap) b s.

(* StateDB.Commit(true): IntermediateRoot; what reaches the database and snaps.Update: the account trie
   entry and, with a snapshot layer, the destruct mark and the account entry of the new diff layer *)
Definition fa_commit (snap : bool) (s : fstate) : option (N * Z * bool) * bool * bool :=
  let s1 := fa_root snap s in (fa_trie s1, snap && fa_destruct s1, snap && fa_snapacct s1).

(* a StateDB opened on a parent state holding [base] for the address *)
Definition fa_fresh (base : option (N * Z * bool)) : fstate :=
  mkFS (match base with Some (n, b, c) => Some (mkO n b c false false) | None => None end)
       false false [] 0 false false base.

(* ---------- correspondence ---------- *)
(* what the harness reads on the real StateDB: the account (present, deleted, suicided, nonce, balance,
   has code), snapDestructs / snapAccounts membership, number of journal entries, journal.dirties[addr],
   membership in stateObjectsPending / stateObjectsDirty, the account trie entry *)
Definition fobs := (option (bool * bool * N * Z * bool) * bool * bool * N * N * bool * bool * option (N * Z * bool))%type.

Definition fa_obs (s : fstate) : fobs :=
  (match fa_obj s with Some o => Some (o_del o, o_suic o, o_nonce o, o_bal o, o_code o) | None => None end,
   fa_destruct s, fa_snapacct s, N.of_nat (length (fa_jr s)), N.of_nat (fa_dirt s), fa_pend s, fa_dirty s, fa_trie s).

Definition obj_eqb (a b : bool * bool * N * Z * bool) : bool :=
  let '(d1, s1, n1, b1, c1) := a in let '(d2, s2, n2, b2, c2) := b in
  Bool.eqb d1 d2 && Bool.eqb s1 s2 && N.eqb n1 n2 && Z.eqb b1 b2 && Bool.eqb c1 c2.
Definition tr_eqb (a b : N * Z * bool) : bool :=
  let '(n1, b1, c1) := a in let '(n2, b2, c2) := b in N.eqb n1 n2 && Z.eqb b1 b2 && Bool.eqb c1 c2.
Definition fopt_eqb {A} (f : A -> A -> bool) (a b : option A) : bool :=
  match a, b with Some x, Some y => f x y | None, None => true | _, _ => false end.
Definition fobs_eqb (a b : fobs) : bool :=
  let '(o1, d1, a1, j1, c1, p1, y1, t1) := a in let '(o2, d2, a2, j2, c2, p2, y2, t2) := b in
  fopt_eqb obj_eqb o1 o2 && Bool.eqb d1 d2 && Bool.eqb a1 a2 && N.eqb j1 j2 && N.eqb c1 c2
  && Bool.eqb p1 p2 && Bool.eqb y1 y2 && fopt_eqb tr_eqb t1 t2.

(* observations: after the frames of every transaction (before its boundary) and after the boundary *)
Fixpoint fa_trace (snap : bool) (b : fblock) (s : fstate) : list (fobs * fobs) :=
  match b with
  | [] => []
  | t :: b' =>
      let s1 := fa_frames snap (fst t) s in
      let s2 := if snd t then fa_root snap s1 else fa_finalize snap s1 in
      (fa_obs s1, fa_obs s2) :: fa_trace snap b' s2
  end.

Fixpoint flist_eqb {A} (f : A -> A -> bool) (a b : list A) : bool :=
  match a, b with
  | [], [] => true
  | x :: a', y :: b' => f x y && flist_eqb f a' b'
  | _, _ => false
  end.

Definition fcase_ok (snap : bool) (base : option (N * Z * bool)) (b : fblock) (obs : list (fobs * fobs)) : bool :=
  flist_eqb (fun x y => fobs_eqb (fst x) (fst y) && fobs_eqb (snd x) (snd y)) (fa_trace snap b (fa_fresh base)) obs.

(* C02 — Quai ledger: executing a transaction never creates value.
   Executable model of the balance-relevant part of
     core/state_transition.go  (StateTransition.preCheck / buyGas / subGasETX / TransitionDb / refundGas)
     core/evm.go               (CanTransfer, Transfer)
     core/vm/evm.go            (EVM.Call / CallCode / DelegateCall / StaticCall / create / CreateETX)
     core/vm/instructions.go   (opSuicide, opETX, opConvert)
     core/state_processor.go   (applyTransaction: Finalize;  ApplyTransaction / prepareApplyETX: ETX staging)
     core/state/statedb.go     (AddBalance / SubBalance / Suicide / CreateAccount / Snapshot / RevertToSnapshot)
   Arbitrary bytecode is abstracted to its BALANCE-RELEVANT EFFECT TREE ([action]); the EVM's
   arithmetic, memory, storage and gas metering are not modelled: whatever the interpreter
   decides (which frame reverts, how much gas is left, whether a frame was entered at all)
   is an input of the model.  What the model decides itself, exactly as the code does, is
   every balance guard (CanTransfer), every balance primitive and its order, the snapshot /
   revert discipline, the once-only rent refund, the gas purchase and refund, and the ETX
   staging on the zone's zero address.
   Definitions only; proofs are in Proofs/C02*.v. *)
From Coq Require Import List ZArith NArith Bool String.
From GQ Require Import Lib.C02_BMap Generated.C02Sites.
Import ListNotations.
Local Open Scope Z_scope.

(* ---------- balance primitives as seen at the vm.StateDB interface ---------- *)
Inductive prim :=
| PSub (a : addr) (v : Z)        (* StateDB.SubBalance *)
| PAdd (a : addr) (v : Z)        (* StateDB.AddBalance *)
| PSuicide (a : addr)            (* StateDB.Suicide: balance := 0, suicided := true *)
| PCreate (a : addr)             (* StateDB.CreateAccount: balance carried over *)
| PSnap (id : N)                 (* StateDB.Snapshot, id relative to the first one of the transaction *)
| PRevert (id : N).              (* StateDB.RevertToSnapshot *)

Record st := mkSt {
  bal : bmap;             (* account balances *)
  sui : list addr;        (* accounts with stateObject.suicided set *)
  etx : list (Z * Z);     (* EVM.ETXCache, oldest first: (value carried, fee debited with it) *)
  burn : Z;               (* ghost: value destroyed (debit without ETX, SELFDESTRUCT to self, deleted accounts, lost ETX residue) *)
  rent : list addr;       (* ghost: accounts granted the state-rent refund, newest first *)
  bad : bool;             (* CreateAccount hit an account already self-destructed in this transaction (outside the model) *)
  nsnap : N;              (* snapshots taken so far *)
  trace : list prim       (* primitives issued so far, newest first *)
}.

Definition init (b : bmap) : st := mkSt b [] [] 0 [] false 0%N [].

Record env := mkEnv {
  e_basefee : Z;          (* BlockContext.BaseFee *)
  e_newacct : Z;          (* params.CallNewAccountGas(QuaiStateSize) *)
  e_prefork : bool;       (* PrimeTerminusNumber < params.SelfDestructRefundForkBlock *)
  e_maxetxgas : Z;        (* BlockContext.GasLimit / params.MinimumEtxGasDivisor *)
  e_gp : Z;               (* gas available in the block's GasPool *)
  e_zero : addr           (* the zone's zero address (ETX staging cell) *)
}.
Definition e_rent (e : env) : Z := e_basefee e * e_newacct e.

(* ---------- primitive state transformers ---------- *)
Definition p_sub (a : addr) (v : Z) (s : st) : st :=
  mkSt (bset a (bget a (bal s) - v) (bal s)) (sui s) (etx s) (burn s) (rent s) (bad s) (nsnap s) (PSub a v :: trace s).
Definition p_add (a : addr) (v : Z) (s : st) : st :=
  mkSt (bset a (bget a (bal s) + v) (bal s)) (sui s) (etx s) (burn s) (rent s) (bad s) (nsnap s) (PAdd a v :: trace s).
Definition p_suicide (a : addr) (s : st) : st :=
  mkSt (bset a 0 (bal s)) (a :: sui s) (etx s) (burn s) (rent s) (bad s) (nsnap s) (PSuicide a :: trace s).
Definition p_create (a : addr) (s : st) : st :=
  mkSt (bal s) (sui s) (etx s) (burn s) (rent s) (bad s || mem a (sui s)) (nsnap s) (PCreate a :: trace s).
Definition p_snap (s : st) : st :=
  mkSt (bal s) (sui s) (etx s) (burn s) (rent s) (bad s) (N.succ (nsnap s)) (PSnap (nsnap s) :: trace s).
(* evm.revertToSnapshot: journal (balances, suicided flags) and ETX cache go back to [s0];
   the ghosts follow the balances they account for *)
Definition restore (s0 s : st) (id : N) : st :=
  mkSt (bal s0) (sui s0) (etx s0) (burn s0) (rent s0) (bad s) (nsnap s) (PRevert id :: trace s).
Definition add_etx (x : Z * Z) (s : st) : st :=
  mkSt (bal s) (sui s) (etx s ++ [x]) (burn s) (rent s) (bad s) (nsnap s) (trace s).
Definition add_burn (v : Z) (s : st) : st :=
  mkSt (bal s) (sui s) (etx s) (burn s + v) (rent s) (bad s) (nsnap s) (trace s).
Definition add_rent (a : addr) (s : st) : st :=
  mkSt (bal s) (sui s) (etx s) (burn s) (a :: rent s) (bad s) (nsnap s) (trace s).
Definition frame_end (s1 s2 : st) (id : N) (reverted : bool) : st :=
  if reverted then restore s1 s2 id else s2.

(* core/evm.go:CanTransfer *)
Definition can_transfer (a : addr) (v : Z) (s : st) : bool := v <=? bget a (bal s).
(* core/evm.go:Transfer *)
Definition transfer (f t : addr) (v : Z) (s : st) : st := p_add t v (p_sub f v s).

(* core/vm/instructions.go:opSuicide *)
Definition do_selfdestruct (e : env) (a ben : addr) (s : st) : st :=
  let b := bget a (bal s) in
  let s1 := p_add ben b s in
  let s2 := if e_prefork e || negb (mem a (sui s1))
            then add_rent a (p_add ben (e_rent e) s1) else s1 in
  (* Suicide zeroes the account: all of it beyond the [b] that was moved out is destroyed *)
  add_burn (bget a (bal s2) - b) (p_suicide a s2).

(* ---------- the effect tree ---------- *)
(* [reach]: how far the real frame got for reasons the model does not see (call depth, gas for
   a new account, non-existent target, address collision, ...): 0 = returned before taking a
   snapshot, 1 = snapshot taken but no value moved, 2 = value moved and body run.  It is
   consulted only after the balance guard has passed. *)
Inductive action :=
| ACall (from to : addr) (v : Z) (reach : N) (mk : bool) (body : list action) (reverted : bool)
      (* EVM.Call to an in-zone account / precompile / lockup contract (reach 1) *)
| ACallEtx (from : addr) (v : Z) (reach : N) (reverted : bool)
      (* EVM.Call to an address outside the zone's Quai ledger: EVM.CreateETX *)
| AFrame (self : addr) (v : Z) (checked : bool) (reach : N) (body : list action) (reverted : bool)
      (* EVM.CallCode (checked: CanTransfer self v, nothing moves), DelegateCall, StaticCall *)
| ACreate (from new : addr) (v : Z) (reach : N) (body : list action) (out : N)
      (* EVM.create; out: 0 = ok, 1 = error and reverted, 2 = ErrCodeStoreOutOfGas (error, NOT reverted) *)
| ASelfDestruct (a ben : addr)
| AEtx (a : addr) (value fee : Z) (pre_ok emitted : bool)
      (* opETX / opConvert: pre_ok = the non-balance checks in front of the debit pass;
         emitted = an ETX was appended (false: the debit is kept without ETX) *)
| AOther.

Fixpoint wf (a : action) : bool :=
  match a with
  | ACall _ _ v _ _ body _ => (0 <=? v) && forallb wf body
  | ACallEtx _ v _ _ => 0 <=? v
  | AFrame _ v _ _ body _ => (0 <=? v) && forallb wf body
  | ACreate _ _ v _ body _ => (0 <=? v) && forallb wf body
  | ASelfDestruct _ _ => true
  | AEtx _ value fee _ _ => (0 <=? value) && (0 <=? fee)
  | AOther => true
  end.

Fixpoint exec (e : env) (a : action) (s : st) {struct a} : st :=
  match a with
  | ACall from to v reach mk body reverted =>
      (* evm.go:Call  "value.Sign() != 0 && !CanTransfer" -> ErrInsufficientBalance, nothing touched *)
      if negb (v =? 0) && negb (can_transfer from v s) then s
      else if (reach =? 0)%N then s
      else
        let id := nsnap s in
        let s1 := p_snap s in
        let s2 := if (reach =? 1)%N then s1
                  else fold_left (fun x b => exec e b x) body
                         (transfer from to v (if mk then p_create to s1 else s1)) in
        frame_end s1 s2 id reverted
  | ACallEtx from v reach reverted =>
      if negb (v =? 0) && negb (can_transfer from v s) then s
      else if (reach =? 0)%N then s
      else
        let id := nsnap s in
        let s1 := p_snap s in
        if (reach =? 1)%N then frame_end s1 s1 id reverted
        else if negb (can_transfer from v s1) then frame_end s1 s1 id reverted   (* CreateETX's own guard *)
        else
          let s2 := p_sub from v s1 in
          if reverted then restore s1 s2 id else add_etx (v, 0) s2
  | AFrame self v checked reach body reverted =>
      if checked && negb (can_transfer self v s) then s
      else if (reach =? 0)%N then s
      else
        let id := nsnap s in
        let s1 := p_snap s in
        let s2 := if (reach =? 1)%N then s1 else fold_left (fun x b => exec e b x) body s1 in
        frame_end s1 s2 id reverted
  | ACreate from new v reach body out =>
      if negb (can_transfer from v s) then s
      else if (reach <? 2)%N then s
      else
        let id := nsnap s in
        let s1 := p_snap s in
        let s2 := fold_left (fun x b => exec e b x) body (transfer from new v (p_create new s1)) in
        frame_end s1 s2 id (out =? 1)%N
  | ASelfDestruct a ben => do_selfdestruct e a ben s
  | AEtx a value fee pre_ok emitted =>
      let total := value + fee in
      if negb pre_ok then s
      else if (total =? 0) || negb (can_transfer a total s) then s
      else
        let s1 := p_sub a total s in
        if emitted then add_etx (value, fee) s1 else add_burn total s1
  | AOther => s
  end.

Definition exec_list (e : env) (l : list action) (s : st) : st := fold_left (fun x b => exec e b x) l s.

(* The outbound set as the property words it: the (value, fee) of the sends recorded by operations
   that succeeded and do not sit inside a frame that failed and was rolled back - read off the tree
   alone, without running anything.  (A creation that fails with ErrCodeStoreOutOfGas, out = 2, is
   not rolled back by the code: its sends stay, with their debits.)  Whether a listed send really
   debits and emits still depends on the balance guard, so the ETX cache grows by a SUBSEQUENCE of
   this list (Proofs/C02_Out.v). *)
Fixpoint live_sends (a : action) : list (Z * Z) :=
  match a with
  | ACall _ _ _ _ _ body reverted => if reverted then [] else flat_map live_sends body
  | ACallEtx _ v _ reverted => if reverted then [] else [(v, 0)]
  | AFrame _ _ _ _ body reverted => if reverted then [] else flat_map live_sends body
  | ACreate _ _ _ _ body out => if (out =? 1)%N then [] else flat_map live_sends body
  | AEtx _ value fee pre_ok emitted => if pre_ok && emitted then [(value, fee)] else []
  | _ => []
  end.

(* ---------- the message and TransitionDb ---------- *)
Inductive kind :=
| KNormal
| KKQuai (err : bool)                 (* sender is kQuaiSettingAddress: no execution, no refund *)
| KSuicide (ben : option addr).       (* "Suicide"+20 bytes sent to self; None: beneficiary not an in-zone Quai address *)

Record msg := mkMsg {
  m_from : addr;
  m_value : Z;
  m_gas : Z;
  m_price : Z;
  m_isETX : bool;
  m_kind : kind;
  m_create : bool;                     (* contractCreation as computed by TransitionDb *)
  m_nz : Z; m_z : Z;                   (* non-zero / zero bytes of the data *)
  m_al : Z; m_keys : Z                 (* access-list addresses / storage keys *)
}.

(* state_transition.go:IntrinsicGas (the uint64 overflow guards are out of range for Z-sized inputs < 2^64/16) *)
Definition intrinsic (m : msg) : Z :=
  (if m_create m then C02Sites.tx_gas_contract_creation else C02Sites.tx_gas)
  + m_nz m * C02Sites.tx_data_non_zero_gas + m_z m * C02Sites.tx_data_zero_gas
  + m_al m * C02Sites.tx_access_list_address_gas + m_keys m * C02Sites.tx_access_list_storage_key_gas.

(* what the interpreter decided (not modelled) *)
Record opaque := mkOpq {
  o_pre_ok : bool;      (* nonce and sender-is-EOA checks of preCheck pass *)
  o_gleft : Z;          (* gas returned by the top-level Call/Create *)
  o_refctr : Z;         (* StateDB.GetRefund() after execution *)
  o_top_err : bool      (* the top-level Call returned an error on a path that moved nothing *)
}.

Inductive result :=
| RInvalid                               (* (nil, err): consensus error, the caller discards the state *)
| RDone (used : Z) (failed : bool).      (* ExecutionResult.UsedGas, ExecutionResult.Failed() *)

(* vmerr != nil for the top-level action TransitionDb issues *)
Definition top_failed (top : action) (s : st) (o : opaque) : bool :=
  match top with
  | ACall from _ v reach _ _ reverted =>
      (negb (v =? 0) && negb (can_transfer from v s))
      || (if (reach <? 2)%N then o_top_err o else reverted)
  | ACallEtx from v reach reverted =>
      (negb (v =? 0) && negb (can_transfer from v s))
      || (if (reach =? 0)%N then o_top_err o else reverted)
  | ACreate from _ v reach _ out =>
      negb (can_transfer from v s) || (reach <? 2)%N || negb (out =? 0)%N
  | _ => o_top_err o
  end.

Definition is_top (a : action) : bool :=
  match a with ACall _ _ _ _ _ _ _ | ACallEtx _ _ _ _ | ACreate _ _ _ _ _ _ => true | _ => false end.

(* the state-changing part of TransitionDb after the gas purchase *)
Definition after_buy (e : env) (m : msg) (o : opaque) (top : action) (s1 : st) : st * result :=
  (* clauses 4-5: intrinsic gas *)
  if m_gas m <? intrinsic m then (s1, RInvalid)
  (* clause 6 *)
  else if (0 <? m_value m) && negb (can_transfer (m_from m) (m_value m) s1) then (s1, RInvalid)
  else
    match m_kind m with
    | KKQuai err => (s1, RDone (intrinsic m) err)
    | KSuicide None => (s1, RInvalid)
    | KSuicide (Some ben) =>
        let b := bget (m_from m) (bal s1) in
        let mint := e_prefork e || negb (mem (m_from m) (sui s1)) in
        let s2 := p_suicide (m_from m) s1 in
        let s3 := p_add ben (if mint then b + e_rent e else b) s2 in
        (if mint then add_rent (m_from m) s3 else s3, RDone (intrinsic m) false)
    | KNormal =>
        let s2 := exec e top s1 in
        (* refundGas(params.RefundQuotient) *)
        let g := o_gleft o in
        let refund := Z.min ((m_gas m - g) / C02Sites.refund_quotient) (o_refctr o) in
        let g' := g + refund in
        let s3 := p_add (m_from m) (g' * m_price m) s2 in
        (s3, RDone (m_gas m - g') (top_failed top s1 o))
    end.

Definition transition (e : env) (m : msg) (o : opaque) (top : action) (s : st) : st * result :=
  if m_isETX m then
    (* subGasETX: the ETX does not pay for gas *)
    if e_maxetxgas e <? m_gas m then
      (if e_gp e <? C02Sites.tx_gas then (s, RInvalid) else (s, RDone C02Sites.tx_gas true))
    else if e_gp e <? m_gas m then (s, RInvalid)
    else after_buy e m o top s
  else
    (* preCheck: nonce, EOA, fee cap >= base fee *)
    if negb (o_pre_ok o) then (s, RInvalid)
    else if m_price m <? e_basefee e then (s, RInvalid)
    (* buyGas *)
    else if bget (m_from m) (bal s) <? m_gas m * m_price m + m_value m then (s, RInvalid)
    else if e_gp e <? m_gas m then (s, RInvalid)
    else after_buy e m o top (p_sub (m_from m) (m_gas m * m_price m) s).

(* ExecutionResult.QuaiFees, "fees that need to be credited to the miner from the transaction": every
   return of TransitionDb computes gasUsed x st.fee() (st.fee() = st.gasPrice); the two returns an inbound
   ETX can reach (ETX gas limit exceeded; the end of TransitionDb, `if !st.msg.IsETX()`) give 0.  The
   block pays this amount out later (coinbase ETX), so it has to be covered by what the payer lost. *)
Definition fees_of (m : msg) (r : result) : Z :=
  match r with
  | RInvalid => 0
  | RDone used _ => if m_isETX m then 0 else used * m_price m
  end.

(* state_processor.go:applyTransaction -> StateDB.Finalize(true): self-destructed accounts are deleted *)
Definition finalise (s : st) : st :=
  fold_left (fun x a => mkSt (bset a 0 (bal x)) (sui x) (etx x) (burn x + bget a (bal x)) (rent x) (bad x) (nsnap x) (trace x))
            (sui s) s.

Definition is_invalid (r : result) : bool := match r with RInvalid => true | _ => false end.

(* an ordinary Quai transaction: ApplyMessage, then Finalize *)
Definition apply_tx (e : env) (m : msg) (o : opaque) (top : action) (s : st) : st * result :=
  let '(s1, r) := transition e m o top s in
  (if is_invalid r then s1 else finalise s1, r).

(* an inbound ETX: state_processor.go ApplyTransaction / Process
     prevZeroBal := prepareApplyETX(statedb, msg.Value(), loc)   -- SetBalance(zero, value)
     applyTransaction(...)                                        -- ApplyMessage; Finalize
     statedb.SetBalance(zero, prevZeroBal)                        -- "residual balance will be lost" *)
Definition stage (z : addr) (v : Z) (s : st) : st :=
  mkSt (bset z v (bal s)) (sui s) (etx s) (burn s) (rent s) (bad s) (nsnap s) (trace s).
Definition unstage (z : addr) (prev : Z) (s : st) : st :=
  mkSt (bset z prev (bal s)) (sui s) (etx s) (burn s + bget z (bal s)) (rent s) (bad s) (nsnap s) (trace s).
Definition apply_etx (e : env) (m : msg) (o : opaque) (top : action) (s : st) : st * result :=
  let prev := bget (e_zero e) (bal s) in
  let '(s1, r) := apply_tx e m o top (stage (e_zero e) (m_value m) s) in
  (unstage (e_zero e) prev s1, r).

(* the conserved quantity: balances + value that left in ETXs + destroyed value - minted rent refunds *)
Definition etx_total (l : list (Z * Z)) : Z := fold_right (fun x acc => fst x + snd x + acc) 0 l.
Definition ledger (e : env) (s : st) : Z :=
  bsum (bal s) + etx_total (etx s) + burn s - e_rent e * Z.of_nat (List.length (rent s)).

(* ---------- reviewed call-site tables (tie (i)) ---------- *)
Local Open Scope string_scope.
(* every syntactic balance-touching call outside core/state  ->  what covers it *)
Definition site_table : list (string * string * nat * string) := [
  ("core/evm.go:Transfer", "AddBalance", 1%nat, "transfer (ACall/ACreate)");
  ("core/evm.go:Transfer", "SubBalance", 1%nat, "transfer (ACall/ACreate)");
  ("core/state_processor.go:ApplyTransaction", "SetBalance", 1%nat, "apply_etx: unstage");
  ("core/state_processor.go:RedeemLockedQuai", "AddBalance", 2%nat, "outside C02: block-level credit (coinbase / conversion redemption, C13/C20)");
  ("core/state_processor.go:StateProcessor.Process", "AddBalance", 1%nat, "outside C02: block-level credit (refund of a reverted conversion, C20)");
  ("core/state_processor.go:StateProcessor.Process", "SetBalance", 1%nat, "apply_etx: unstage (same three lines as ApplyTransaction)");
  ("core/state_processor.go:prepareApplyETX", "SetBalance", 1%nat, "apply_etx: stage");
  ("core/state_transition.go:StateTransition.TransitionDb", "AddBalance", 1%nat, "after_buy: KSuicide");
  ("core/state_transition.go:StateTransition.TransitionDb", "Suicide", 1%nat, "after_buy: KSuicide");
  ("core/state_transition.go:StateTransition.buyGas", "SubBalance", 1%nat, "transition: buyGas");
  ("core/state_transition.go:StateTransition.refundGas", "AddBalance", 1%nat, "after_buy: refundGas");
  ("core/vm/evm.go:EVM.Call", "Transfer", 1%nat, "ACall");
  ("core/vm/evm.go:EVM.CreateETX", "SubBalance", 1%nat, "ACallEtx");
  ("core/vm/evm.go:EVM.create", "Transfer", 1%nat, "ACreate");
  ("core/vm/instructions.go:opConvert", "SubBalance", 1%nat, "AEtx");
  ("core/vm/instructions.go:opETX", "SubBalance", 1%nat, "AEtx");
  ("core/vm/instructions.go:opSuicide", "AddBalance", 2%nat, "ASelfDestruct");
  ("core/vm/instructions.go:opSuicide", "Suicide", 1%nat, "ASelfDestruct");
  ("core/worker.go:worker.commitTransaction", "AddBalance", 1%nat, "outside C02: block-level credit (miner's copy of the reverted-conversion refund in Process)");
  ("internal/quaiapi/api.go:StateOverride.Apply", "SetBalance", 1%nat, "outside C02: eth_call state override on a throw-away state")
].
(* balance writers inside core/state  ->  the vm.StateDB method through which the EVM reaches them *)
Definition writer_table : list (string * string * nat * string) := [
  ("core/state/gen_allocs.go:StateDB.AddLockedBalances", "call AddBalance", 1%nat, "outside C02: genesis allocation");
  ("core/state/journal.go:balanceChange.revert", "call setBalance", 1%nat, "RevertToSnapshot (PRevert)");
  ("core/state/journal.go:suicideChange.revert", "call setBalance", 1%nat, "RevertToSnapshot (PRevert)");
  ("core/state/state_object.go:newObject", "assign Balance", 1%nat, "nil -> 0 normalisation");
  ("core/state/state_object.go:stateObject.AddBalance", "call SetBalance", 1%nat, "AddBalance (PAdd)");
  ("core/state/state_object.go:stateObject.SetBalance", "call setBalance", 1%nat, "AddBalance / SubBalance / SetBalance");
  ("core/state/state_object.go:stateObject.SubBalance", "call SetBalance", 1%nat, "SubBalance (PSub)");
  ("core/state/state_object.go:stateObject.setBalance", "assign Balance", 1%nat, "leaf");
  ("core/state/statedb.go:StateDB.AddBalance", "call AddBalance", 1%nat, "AddBalance (PAdd)");
  ("core/state/statedb.go:StateDB.CreateAccount", "call setBalance", 1%nat, "CreateAccount (PCreate): balance carried over");
  ("core/state/statedb.go:StateDB.SetBalance", "call SetBalance", 1%nat, "not in vm.StateDB: stage / unstage only");
  ("core/state/statedb.go:StateDB.SubBalance", "call SubBalance", 1%nat, "SubBalance (PSub)");
  ("core/state/statedb.go:StateDB.Suicide", "assign Balance", 1%nat, "Suicide (PSuicide)")
].
(* vm.StateDB: the methods that can change a balance are intercepted by the harness wrapper *)
Definition iface_balance : list string := ["AddBalance"; "CreateAccount"; "Finalize"; "RevertToSnapshot"; "SubBalance"; "Suicide"].
Definition iface_other : list string := [
  "AddAddressToAccessList"; "AddLog"; "AddPreimage"; "AddRefund"; "AddSlotToAccessList"; "AddressInAccessList";
  "ConfigureAccessListChecks"; "Empty"; "Exist"; "ForEachStorage"; "FreezeKQuai"; "GetBalance"; "GetCode";
  "GetCodeHash"; "GetCodeSize"; "GetCommittedState"; "GetKQuai"; "GetNonce"; "GetRefund"; "GetSize"; "GetState";
  "GetTransientState"; "GetUpdateBit"; "HasSuicided"; "PrepareAccessList"; "SetCode"; "SetNonce"; "SetState";
  "SetTransientState"; "SlotInAccessList"; "Snapshot"; "SubRefund"; "UnFreezeKQuai"; "UnderlyingDatabase"; "UpdateKQuai"].

Definition row_eqb (a b : string * string * nat) : bool :=
  let '(a1, a2, a3) := a in let '(b1, b2, b3) := b in String.eqb a1 b1 && String.eqb a2 b2 && Nat.eqb a3 b3.
Fixpoint rows_eqb (a b : list (string * string * nat)) : bool :=
  match a, b with
  | [], [] => true
  | x :: a', y :: b' => row_eqb x y && rows_eqb a' b'
  | _, _ => false
  end.
Definition strip (t : list (string * string * nat * string)) := map (fun r => fst r) t.
Definition callsites_covered : bool := rows_eqb C02Sites.sites (strip site_table).
Definition state_writers_covered : bool := rows_eqb C02Sites.state_writers (strip writer_table).
Fixpoint insert_str (x : string) (l : list string) : list string :=
  match l with
  | [] => [x]
  | y :: r => if String.leb x y then x :: l else y :: insert_str x r
  end.
Definition sort_str (l : list string) : list string := fold_right insert_str [] l.
Fixpoint strs_eqb (a b : list string) : bool :=
  match a, b with
  | [], [] => true
  | x :: a', y :: b' => String.eqb x y && strs_eqb a' b'
  | _, _ => false
  end.
Definition iface_covered : bool := strs_eqb (sort_str C02Sites.statedb_iface) (sort_str (iface_balance ++ iface_other)).
Local Close Scope string_scope.
Definition params_ok : bool :=
  (C02Sites.refund_quotient =? 5) && (0 <? C02Sites.tx_gas) && (C02Sites.tx_gas <=? C02Sites.tx_gas_contract_creation)
  && (0 <=? C02Sites.tx_data_zero_gas) && (0 <=? C02Sites.tx_data_non_zero_gas)
  && (0 <=? C02Sites.tx_access_list_address_gas) && (0 <=? C02Sites.tx_access_list_storage_key_gas)
  && (0 <? C02Sites.minimum_etx_gas_divisor).

(* ---------- a sequence of transactions (the Quai part of a block) ---------- *)
(* Every transaction starts from the balances the previous one left (after Finalize: no account marked,
   empty ETX cache); a message refused with a consensus error is not included: its state is discarded. *)
Record txn := mkTxn { t_inbound : bool; t_env : env; t_msg : msg; t_opq : opaque; t_top : action }.
Record totals := mkTot { tot_charge : Z; tot_etx : Z; tot_burn : Z; tot_rent : Z; tot_inbound : Z }.
Definition tot0 : totals := mkTot 0 0 0 0 0.
Definition charge_of (m : msg) (r : result) : Z :=
  match r with
  | RInvalid => 0
  | RDone used _ =>
      if m_isETX m then 0
      else match m_kind m with KNormal => used * m_price m | _ => m_gas m * m_price m end
  end.
Definition run_tx (t : txn) (b : bmap) (acc : totals) : bmap * totals :=
  let '(s', r) := (if t_inbound t then apply_etx else apply_tx) (t_env t) (t_msg t) (t_opq t) (t_top t) (init b) in
  if is_invalid r then (b, acc)
  else (bal s',
        mkTot (tot_charge acc + charge_of (t_msg t) r) (tot_etx acc + etx_total (etx s')) (tot_burn acc + burn s')
              (tot_rent acc + e_rent (t_env t) * Z.of_nat (List.length (rent s')))
              (tot_inbound acc + (if t_inbound t then m_value (t_msg t) else 0))).
Fixpoint run_block (l : list txn) (b : bmap) (acc : totals) : bmap * totals :=
  match l with
  | [] => (b, acc)
  | t :: r => let '(b', acc') := run_tx t b acc in run_block r b' acc'
  end.

(* the QuaiFees of the ExecutionResults of the block, message by message along [run_block] (a refused
   message has no result) *)
Fixpoint block_fees (l : list txn) (b : bmap) : Z :=
  match l with
  | [] => 0
  | t :: r =>
      let '(s', res) := (if t_inbound t then apply_etx else apply_tx) (t_env t) (t_msg t) (t_opq t) (t_top t) (init b) in
      fees_of (t_msg t) res + block_fees r (if is_invalid res then b else bal s')
  end.

(* ---------- correspondence check ---------- *)
Record obs := mkObs {
  b_invalid : bool;              (* ApplyMessage returned (nil, err) *)
  b_used : Z;                    (* ExecutionResult.UsedGas *)
  b_failed : bool;               (* ExecutionResult.Failed() *)
  b_fees : Z;                    (* ExecutionResult.QuaiFees *)
  b_post : bmap;                 (* balances of the whole universe after ApplyMessage (before Finalize) *)
  b_fin : bmap;                  (* ... after Finalize (and, for an inbound ETX, after the zero address is reset) *)
  b_sui : list addr;             (* accounts with HasSuicided after ApplyMessage, ascending *)
  b_etx : list Z;                (* values of the ETXs in ExecutionResult.Etxs (default / conversion type), in order *)
  b_trace : list prim            (* primitives logged by the StateDB wrapper, oldest first *)
}.
Record case := mkCase {
  c_id : N;
  c_inbound : bool;              (* true: inbound ETX (staged on the zero address) *)
  c_env : env;
  c_msg : msg;
  c_opq : opaque;
  c_top : action;
  c_pre : bmap;                  (* balances of the universe before *)
  c_obs : obs;
  (* block shape: the case's message is applied to the state that earlier messages of the same block left
     (same StateDB, only Finalize in between).  [c_blkpre] = balances at the start of the block, [c_blk] =
     the earlier messages (all of them: the model decides itself which are refused and roll back).  For a
     single-message case [c_blk = []] and [c_blkpre = c_pre]. *)
  c_blkpre : bmap;
  c_blk : list txn
}.

Definition prim_eqb (a b : prim) : bool :=
  match a, b with
  | PSub x v, PSub y w => N.eqb x y && (v =? w)
  | PAdd x v, PAdd y w => N.eqb x y && (v =? w)
  | PSuicide x, PSuicide y => N.eqb x y
  | PCreate x, PCreate y => N.eqb x y
  | PSnap x, PSnap y => N.eqb x y
  | PRevert x, PRevert y => N.eqb x y
  | _, _ => false
  end.
Fixpoint prims_eqb (a b : list prim) : bool :=
  match a, b with
  | [], [] => true
  | x :: a', y :: b' => prim_eqb x y && prims_eqb a' b'
  | _, _ => false
  end.
Definition bals_agree (observed : bmap) (m : bmap) : bool :=
  forallb (fun p => bget (fst p) m =? snd p) observed
  && forallb (fun p => (snd p =? 0) || mem (fst p) (bkeys observed)) m.
Fixpoint zs_eqb (a b : list Z) : bool :=
  match a, b with
  | [], [] => true
  | x :: a', y :: b' => (x =? y) && zs_eqb a' b'
  | _, _ => false
  end.
Definition sui_agree (observed : list addr) (l : list addr) : bool :=
  forallb (fun a => mem a l) observed && forallb (fun a => mem a observed) l.

(* the side conditions the theorems assume, checked on every observed case *)
Definition hyps_ok (c : case) : bool :=
  let e := c_env c in let m := c_msg c in let o := c_opq c in
  (0 <=? e_rent e) && wf (c_top c) && (0 <=? m_price m) && (0 <=? m_value m) && (0 <=? m_gas m)
  && (0 <=? o_gleft o) && (o_gleft o <=? m_gas m) && (0 <=? o_refctr o)
  && (if m_isETX m then m_price m =? 0 else true) && Bool.eqb (m_isETX m) (c_inbound c)
  && (0 <=? m_nz m) && (0 <=? m_z m) && (0 <=? m_al m) && (0 <=? m_keys m)
  && forallb (fun p => 0 <=? snd p) (c_pre c).

(* the hypotheses of [block_never_creates_value], as booleans *)
Definition txn_hyps_ok (t : txn) : bool :=
  let e := t_env t in let m := t_msg t in let o := t_opq t in
  (0 <=? e_rent e) && wf (t_top t) && (0 <=? m_price m) && (0 <=? m_value m) && (0 <=? m_gas m)
  && (0 <=? o_gleft o) && (o_gleft o <=? m_gas m) && (0 <=? o_refctr o)
  && (if m_isETX m then m_price m =? 0 else true) && Bool.eqb (m_isETX m) (t_inbound t).
Definition shape_ok (m : msg) : bool := (0 <=? m_nz m) && (0 <=? m_z m) && (0 <=? m_al m) && (0 <=? m_keys m).
Definition blk_hyps_ok (c : case) : bool :=
  forallb txn_hyps_ok (c_blk c) && forallb (fun p => 0 <=? snd p) (c_blkpre c).
Definition blk_shape_ok (c : case) : bool := forallb (fun t => shape_ok (t_msg t)) (c_blk c).
(* the model, run over the earlier messages of the block from the balances at its start, arrives at the
   balances the real StateDB shows in front of this message (in particular: an account removed by Finalize
   holds nothing when a later message brings its address back) *)
Definition blk_ok (c : case) : bool :=
  blk_hyps_ok c && blk_shape_ok c && bals_agree (c_pre c) (fst (run_block (c_blk c) (c_blkpre c) tot0)).

Definition case_ok (c : case) : bool :=
  let e := c_env c in let m := c_msg c in let b := c_obs c in
  let s0 := init (c_pre c) in
  let s0' := if c_inbound c then stage (e_zero e) (m_value m) s0 else s0 in
  let '(s1, r) := transition e m (c_opq c) (c_top c) s0' in
  let sf := if is_invalid r then s1 else finalise s1 in
  let sf' := if c_inbound c then unstage (e_zero e) (bget (e_zero e) (c_pre c)) sf else sf in
  hyps_ok c
  && match r with
     | RInvalid => b_invalid b
     | RDone used failed => negb (b_invalid b) && (used =? b_used b) && Bool.eqb failed (b_failed b)
                            && (fees_of m r =? b_fees b)
     end
  && bals_agree (b_post b) (bal s1)
  && bals_agree (b_fin b) (bal sf')
  && sui_agree (b_sui b) (sui s1)
  && (if is_invalid r then true else zs_eqb (map fst (etx s1)) (b_etx b))
  && prims_eqb (rev (trace s1)) (b_trace b)
  && negb (bad s1)
  && blk_ok c.

(* compact syntax for harness-written cases: every numeral is a Z (accounts are converted) *)
Definition zn (z : Z) : N := Z.to_N z.
Fixpoint zb_from (i : N) (l : list Z) : bmap :=
  match l with [] => [] | v :: r => (i, v) :: zb_from (N.succ i) r end.
Definition zb (l : list Z) : bmap := zb_from 0%N l.
Definition zl (l : list Z) : list addr := map zn l.
Definition aCall f t v r mk body rv := ACall (zn f) (zn t) v (zn r) mk body rv.
Definition aCallEtx f v r rv := ACallEtx (zn f) v (zn r) rv.
Definition aFrame self v c r body rv := AFrame (zn self) v c (zn r) body rv.
Definition aCreate f n v r body out := ACreate (zn f) (zn n) v (zn r) body (zn out).
Definition aSelfd a b := ASelfDestruct (zn a) (zn b).
Definition aEtx a v f p em := AEtx (zn a) v f p em.
Definition pS a v := PSub (zn a) v.
Definition pA a v := PAdd (zn a) v.
Definition pK a := PSuicide (zn a).
Definition pC a := PCreate (zn a).
Definition pN i := PSnap (zn i).
Definition pR i := PRevert (zn i).
Definition kSuicide (b : Z) : kind := KSuicide (if b <? 0 then None else Some (zn b)).
Definition cEnv bf na pf mx gp := mkEnv bf na pf mx gp 0%N.
Definition cMsg f v g p x k c nz z al ks := mkMsg (zn f) v g p x k c nz z al ks.
Definition cObs inv used failed fees post fin sui etx tr := mkObs inv used failed fees (zb post) (zb fin) (zl sui) etx tr.
Definition cCase id inb e m o top pre ob := mkCase (zn id) inb e m o top (zb pre) ob (zb pre) [].
Definition cTxn inb e m o top := mkTxn inb e m o top.
Definition cCaseB id inb e m o top pre ob blkpre blk := mkCase (zn id) inb e m o top (zb pre) ob (zb blkpre) blk.

Definition mismatches (cs : list case) : list N :=
  map c_id (filter (fun c => negb (case_ok c)) cs).


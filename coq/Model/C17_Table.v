(* C17 — executable model of the rawdb table wrapper (core/rawdb/table.go: table,
   tableBatch, tableReplayer, tableIterator) layered over the store model of
   Model/C17.v.  A table operation is turned into the operation it issues on the
   INNER database/batch (key := prefix ++ key) and the inner result is rendered
   back (iterator keys lose the first len(prefix) bytes).  Definitions only;
   proofs are in Proofs/C17_Table.v. *)
From Coq Require Import List NArith Bool.
From GQ Require Import Lib.Key Lib.SMap Model.C17.
Import ListNotations.
Local Open Scope N_scope.

(* table.Put / table.Delete / tableBatch.Put / tableBatch.Delete:
   append([]byte(t.prefix), key...) *)
Definition tr_wop (tp : key) (w : wop) : wop :=
  match w with
  | WPut k v => WPut (tp ++ k) v
  | WDel k => WDel (tp ++ k)
  end.

(* tableReplayer.Put / .Delete: key[len(r.prefix):] *)
Definition strip_key (tp k : key) : key := skipn (length tp) k.
Definition strip_wop (tp : key) (w : wop) : wop :=
  match w with
  | WPut k v => WPut (strip_key tp k) v
  | WDel k => WDel (strip_key tp k)
  end.

(* tableIterator.Key: key[len(iter.prefix):]; Value unchanged *)
Definition strip_kvs {V : Type} (tp : key) (l : list (key * V)) : list (key * V) :=
  map (fun kv => (strip_key tp (fst kv), snd kv)) l.

Definition strip_out (tp : key) (r : out) : out :=
  match r with
  | OList l => OList (strip_kvs tp l)
  | r => r
  end.

(* tableBatch.Replay(w): the inner batch replays into a tableReplayer, which strips the
   prefix and hands the operation to w; in the harness (and in the model's op set) w is
   the table itself or the table's other batch, which put the prefix back. *)
Definition replayed (tp : key) (ops : list wop) : list wop :=
  map (fun w => tr_wop tp (strip_wop tp w)) ops.

(* One operation issued through a table with prefix tp, executed on the inner state. *)
Definition tstep (tp : key) (s : state) (o : op) : state * out :=
  match o with
  | DbPut k v => step s (DbPut (tp ++ k) v)
  | DbDel k => step s (DbDel (tp ++ k))
  | DbGet k => step s (DbGet (tp ++ k))
  | DbHas k => step s (DbHas (tp ++ k))
  | DbIter p st =>                                  (* innerPrefix := append(t.prefix, prefix...); start unchanged *)
      let '(s', r) := step s (DbIter (tp ++ p) st) in (s', strip_out tp r)
  | BPut b k v => step s (BPut b (tp ++ k) v)
  | BDel b k => step s (BDel b (tp ++ k))
  | BSetPending b f => step s (BSetPending b f)
  | BGetPending b k => step s (BGetPending b (tp ++ k))
  | BSize b => step s (BSize b)
  | BWrite b => step s (BWrite b)
  | BReset b => step s (BReset b)
  | BReplayDb b =>
      (mkState (apply_ops (replayed tp (b_ops (getb s b))) (s_db s)) (s_b0 s) (s_b1 s), ONone)
  | BReplayB b =>
      let src := getb s b in
      let dst := getb s (negb b) in
      (setb s (negb b) (fold_left batch_apply (replayed tp (b_ops src)) dst), ONone)
  | DbCompact => step s DbCompact                    (* Compact(prefix, prefix+1): no observable effect *)
  | DbIterDuring p st ws =>
      let '(s', r) := step s (DbIterDuring (tp ++ p) st (map (tr_wop tp) ws)) in (s', strip_out tp r)
  end.

Fixpoint trun (tp : key) (s : state) (ops : list op) : list out :=
  match ops with
  | [] => []
  | o :: ops' => let '(s', r) := tstep tp s o in r :: trun tp s' ops'
  end.

Definition trun_state (tp : key) (s : state) (ops : list op) : state :=
  fold_left (fun st o => fst (tstep tp st o)) ops s.

(* What the table shows of an inner map: the entries under the prefix, keys stripped. *)
Definition tview {V : Type} (tp : key) (m : smap V) : smap V :=
  strip_kvs tp (filter (fun kv => has_prefix tp (fst kv)) m).

(* What the table does not own. *)
Definition foreign {V : Type} (tp : key) (m : smap V) : smap V :=
  filter (fun kv => negb (has_prefix tp (fst kv))) m.

(* --- correspondence check: a table history run over a real backend that was
   pre-loaded with foreign keys; observed = the table's outputs per operation and
   the INNER database's full content at the end (sorted scan). --- *)
Definition preload (pre : list (key * val)) : smap val :=
  fold_left (fun m kv => put (fst kv) (snd kv) m) pre [].

Definition tcase := (N * (key * list (key * val) * list (op * out) * list (key * val)))%type.

Definition tcase_ok (c : tcase) : bool :=
  let '(tp, pre, h, inner_end) := snd c in
  let s0 := mkState (preload pre) empty_batch empty_batch in
  outs_eqb (trun tp s0 (map fst h)) (map snd h)
  && kvs_eqb (s_db (trun_state tp s0 (map fst h))) inner_end.

Definition tmismatches (cs : list tcase) : list N :=
  map fst (filter (fun c => negb (tcase_ok c)) cs).

(* C17 — executable model of the ethdb key-value contract (database + write batch
   with pending tracking), mirroring ethdb/leveldb/leveldb.go (the reference
   backend) operation by operation.  Definitions only; proofs are in Proofs/C17.v. *)
From Coq Require Import List NArith Bool.
From GQ Require Import Lib.Key Lib.SMap.
Import ListNotations.
Local Open Scope N_scope.

Definition val := list N.

Inductive wop := WPut (k : key) (v : val) | WDel (k : key).

Record batch := mkBatch {
  b_ops : list wop;                    (* issue order, oldest first *)
  b_size : N;
  b_tracking : bool;                   (* setPending *)
  b_pend : smap (option val)           (* None = tombstone *)
}.

Definition empty_batch : batch := mkBatch [] 0 false [].

Record state := mkState {
  s_db : smap val;
  s_b0 : batch;
  s_b1 : batch
}.

Definition init : state := mkState [] empty_batch empty_batch.

Inductive op :=
| DbPut (k : key) (v : val) | DbDel (k : key) | DbGet (k : key) | DbHas (k : key)
| DbIter (prefix start : key)
| BPut (b : bool) (k : key) (v : val) | BDel (b : bool) (k : key)
| BSetPending (b : bool) (flag : bool) | BGetPending (b : bool) (k : key)
| BSize (b : bool) | BWrite (b : bool) | BReset (b : bool)
| BReplayDb (b : bool)             (* Replay(db) *)
| BReplayB (b : bool)              (* Replay(other batch) *)
| DbCompact                        (* Compact(nil, nil): flush + full compaction, no observable effect *)
| DbIterDuring (prefix start : key) (ws : list wop).
    (* NewIterator(prefix,start); then the direct writes ws; then drain the iterator: the iterator is a
       snapshot taken at creation (leveldb/pebble snapshots, memorydb copies keys and values up front) *)

Inductive out :=
| ONone
| OVal (v : option val)
| OBool (b : bool)
| OList (l : list (key * val))
| OPend (deleted : bool) (v : option val)
| ONum (n : N).

Definition getb (s : state) (b : bool) : batch := if b then s_b1 s else s_b0 s.
Definition setb (s : state) (b : bool) (x : batch) : state :=
  if b then mkState (s_db s) (s_b0 s) x else mkState (s_db s) x (s_b1 s).

Definition apply_wop (m : smap val) (w : wop) : smap val :=
  match w with
  | WPut k v => put k v m
  | WDel k => del k m
  end.

Definition apply_ops (ops : list wop) (m : smap val) : smap val := fold_left apply_wop ops m.

Definition len (l : list N) : N := N.of_nat (length l).

Definition batch_put (x : batch) (k : key) (v : val) : batch :=
  mkBatch (b_ops x ++ [WPut k v]) (b_size x + len v) (b_tracking x)
          (if b_tracking x then put k (Some v) (b_pend x) else b_pend x).

Definition batch_del (x : batch) (k : key) : batch :=
  mkBatch (b_ops x ++ [WDel k]) (b_size x + len k) (b_tracking x)
          (if b_tracking x then put k None (b_pend x) else b_pend x).

Definition batch_apply (x : batch) (w : wop) : batch :=
  match w with
  | WPut k v => batch_put x k v
  | WDel k => batch_del x k
  end.

Definition batch_get_pending (x : batch) (k : key) : out :=
  match get k (b_pend x) with
  | Some None => OPend true None
  | Some (Some v) => OPend false (Some v)
  | None => OPend false None
  end.

Definition step (s : state) (o : op) : state * out :=
  match o with
  | DbPut k v => (mkState (put k v (s_db s)) (s_b0 s) (s_b1 s), ONone)
  | DbDel k => (mkState (del k (s_db s)) (s_b0 s) (s_b1 s), ONone)
  | DbGet k => (s, OVal (get k (s_db s)))
  | DbHas k => (s, OBool (match get k (s_db s) with Some _ => true | None => false end))
  | DbIter p st => (s, OList (iterate p st (s_db s)))
  | BPut b k v => (setb s b (batch_put (getb s b) k v), ONone)
  | BDel b k => (setb s b (batch_del (getb s b) k), ONone)
  | BSetPending b f =>
      let x := getb s b in
      (setb s b (mkBatch (b_ops x) (b_size x) f []), ONone)
  | BGetPending b k => (s, batch_get_pending (getb s b) k)
  | BSize b => (s, ONum (b_size (getb s b)))
  | BWrite b =>
      let x := getb s b in
      let s' := setb s b (mkBatch (b_ops x) (b_size x) false []) in
      (mkState (apply_ops (b_ops x) (s_db s)) (s_b0 s') (s_b1 s'), ONone)
  | BReset b => (setb s b empty_batch, ONone)
  | BReplayDb b =>
      (mkState (apply_ops (b_ops (getb s b)) (s_db s)) (s_b0 s) (s_b1 s), ONone)
  | BReplayB b =>
      let src := getb s b in
      let dst := getb s (negb b) in
      (setb s (negb b) (fold_left batch_apply (b_ops src) dst), ONone)
  | DbCompact => (s, ONone)
  | DbIterDuring p st ws =>
      (mkState (apply_ops ws (s_db s)) (s_b0 s) (s_b1 s), OList (iterate p st (s_db s)))
  end.

Fixpoint run (s : state) (ops : list op) : list out :=
  match ops with
  | [] => []
  | o :: ops' => let '(s', r) := step s o in r :: run s' ops'
  end.

Definition run_state (s : state) (ops : list op) : state :=
  fold_left (fun st o => fst (step st o)) ops s.

(* --- comparison of observed outputs (correspondence check) --- *)
Definition val_eqb (a b : val) : bool := keqb a b.
Definition oval_eqb (a b : option val) : bool :=
  match a, b with
  | None, None => true
  | Some x, Some y => val_eqb x y
  | _, _ => false
  end.
Fixpoint kvs_eqb (a b : list (key * val)) : bool :=
  match a, b with
  | [], [] => true
  | (k, v) :: a', (k', v') :: b' => keqb k k' && val_eqb v v' && kvs_eqb a' b'
  | _, _ => false
  end.
Definition out_eqb (a b : out) : bool :=
  match a, b with
  | ONone, ONone => true
  | OVal x, OVal y => oval_eqb x y
  | OBool x, OBool y => Bool.eqb x y
  | OList x, OList y => kvs_eqb x y
  | OPend d x, OPend e y => Bool.eqb d e && oval_eqb x y
  | ONum x, ONum y => N.eqb x y
  | _, _ => false
  end.
Fixpoint outs_eqb (a b : list out) : bool :=
  match a, b with
  | [] , [] => true
  | x :: a', y :: b' => out_eqb x y && outs_eqb a' b'
  | _, _ => false
  end.

(* a case = id, history, outputs observed on one real backend *)
Definition case := (N * list (op * out))%type.
Definition case_ok (c : case) : bool :=
  let h := snd c in outs_eqb (run init (map fst h)) (map snd h).
Definition mismatches (cs : list case) : list N :=
  map fst (filter (fun c => negb (case_ok c)) cs).

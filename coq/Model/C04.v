(* C04 -- executable model of the cross-chain transaction (ETX) path at a destination:
   (a) the ETX queue kept in the ETX trie of StateDB (core/state/statedb.go),
   (b) the acceptance discipline of StateProcessor.Process (core/state_processor.go),
   (c) the destination filters of core/types/transaction.go (FilterToSub/FilterToLocation).
   Definitions only; proofs are in Proofs/C04*.v. *)
From Coq Require Import List NArith Bool.
From Coq Require String.
From GQ Require Import Lib.Key Lib.SMap Lib.C04_BigEndian Lib.C04_Expr.
Import ListNotations.
Local Open Scope N_scope.

(* ------------------------------------------------------------------ (a) queue *)

(* An ETX is represented by the bytes stored for it (in the code: its RLP, never empty). *)
Definition etx := list N.

(* The ETX trie: (pre-image) key -> non-empty value.  The code uses a secure trie
   (keys hashed with keccak); the model works on the pre-image keys. *)
Definition trie := smap (list N).

(* statedb.go: newestEtxKey/oldestEtxKey/kQuaiKey/updateBitKey = common.HexToHash of 28
   bytes of 0xff.. => left-padded to 32 bytes with four zero bytes. *)
Definition ctl_key (last : N) : key := [0;0;0;0] ++ repeat 255 27 ++ [last].
Definition newest_key : key := ctl_key 255.
Definition oldest_key : key := ctl_key 254.
Definition kquai_key : key := ctl_key 250.
Definition update_bit_key : key := ctl_key 251.

(* trie.TryUpdate: an empty value deletes the key *)
Definition tupdate (k : key) (v : list N) (t : trie) : trie :=
  match v with
  | [] => del k t
  | _ => put k v t
  end.
(* trie.TryGet: absent => nil *)
Definition tget (k : key) (t : trie) : list N :=
  match get k t with Some v => v | None => [] end.

(* statedb.go:GetNewestIndex / GetOldestIndex : new(big.Int).SetBytes(cell) *)
Definition get_newest (t : trie) : N := of_be (tget newest_key t).
Definition get_oldest (t : trie) : N := of_be (tget oldest_key t).

(* statedb.go:PushETXs : read newest once, store each item at index.Bytes(), index++,
   write newest once after the loop *)
Fixpoint push_loop (t : trie) (idx : N) (l : list etx) : trie * N :=
  match l with
  | [] => (t, idx)
  | e :: l' => push_loop (tupdate (be_min idx) e t) (idx + 1) l'
  end.
Definition push_etxs (t : trie) (l : list etx) : trie :=
  let '(t', n) := push_loop t (get_newest t) l in
  tupdate newest_key (be_min n) t'.

(* statedb.go:PushETX (single) *)
Definition push_etx (t : trie) (e : etx) : trie :=
  let n := get_newest t in
  tupdate newest_key (be_min (n + 1)) (tupdate (be_min n) e t).

(* statedb.go:PopETX : empty cell at oldest => (nil, nil), nothing written; otherwise
   delete the cell, oldest++ *)
Definition pop_etx (t : trie) : option etx * trie :=
  let o := get_oldest t in
  match tget (be_min o) t with
  | [] => (None, t)
  | enc => (Some enc, tupdate oldest_key (be_min (o + 1)) (del (be_min o) t))
  end.

(* statedb.go:ReadETX *)
Definition read_etx (t : trie) (i : N) : option etx :=
  match tget (be_min i) t with
  | [] => None
  | enc => Some enc
  end.

(* statedb.go:UpdateKQuai / GetKQuai (another tenant of the same trie) *)
Definition set_kquai (t : trie) (v : N) : trie := tupdate kquai_key (be_min v) t.
Definition get_kquai (t : trie) : N := of_be (tget kquai_key t).

(* a queue whose next index is o0 and that holds nothing (state after o0 pushes and pops) *)
Definition init_at (o0 : N) : trie :=
  tupdate newest_key (be_min o0) (tupdate oldest_key (be_min o0) []).

Inductive qop :=
| QPush (l : list etx)
| QPush1 (e : etx)
| QPop
| QRead (i : N)
| QOldest
| QNewest
| QCommit                (* CommitEtxs + TrieDB().Commit + state.New at the root: identity *)
| QSetK (v : N)
| QGetK.

Inductive qout :=
| OUnit
| OEtx (e : option etx)
| ONum (n : N).

Definition qstep (t : trie) (o : qop) : trie * qout :=
  match o with
  | QPush l => (push_etxs t l, OUnit)
  | QPush1 e => (push_etx t e, OUnit)
  | QPop => let '(r, t') := pop_etx t in (t', OEtx r)
  | QRead i => (t, OEtx (read_etx t i))
  | QOldest => (t, ONum (get_oldest t))
  | QNewest => (t, ONum (get_newest t))
  | QCommit => (t, OUnit)
  | QSetK v => (set_kquai t v, OUnit)
  | QGetK => (t, ONum (get_kquai t))
  end.

Fixpoint qrun (t : trie) (ops : list qop) : list qout :=
  match ops with
  | [] => []
  | o :: ops' => let '(t', r) := qstep t o in r :: qrun t' ops'
  end.

Definition qrun_state (t : trie) (ops : list qop) : trie :=
  fold_left (fun s o => fst (qstep s o)) ops t.

(* ------------------------------------------------------------------ (b) Process *)

(* params/protocol_params.go (compared with the generated values in Props/C04.v) *)
Definition P_MIN_GAS_DIVISOR : N := 5.
Definition P_MAX_GAS_MULT : N := 2.
Definition P_MIN_COUNT : N := 50.
Definition P_MAX_COUNT : N := 100.
Definition P_TIME_TO_START_TX : N := 259200.

Inductive verdict := VAccept | VPopNil | VHashMismatch | VCountRule | VGasRule.

(* state_processor.go:Process, end of the transaction loop:
   if num <= TimeToStartTx && (etxAvailable && etxCount < min || etxCount > max) -> error *)
Definition count_rule_viol (num : N) (avail : bool) (count : N) : bool :=
  (num <=? P_TIME_TO_START_TX) && ((avail && (count <? P_MIN_COUNT)) || (P_MAX_COUNT <? count)).
(* if num > TimeToStartTx && ((etxAvailable && totalEtxGas < minGas) || totalEtxGas > maxGas) -> error
   with minGas = gasLimit / 5, maxGas = minGas * 2 *)
Definition min_etx_gas (gaslimit : N) : N := gaslimit / P_MIN_GAS_DIVISOR.
Definition max_etx_gas (gaslimit : N) : N := min_etx_gas gaslimit * P_MAX_GAS_MULT.
Definition gas_rule_viol (num : N) (avail : bool) (gas gaslimit : N) : bool :=
  (P_TIME_TO_START_TX <? num) && ((avail && (gas <? min_etx_gas gaslimit)) || (max_etx_gas gaslimit <? gas)).

(* the same two guards as expression trees, the shape the generator extracts from the source *)
Definition count_rule_expr : bexp :=
  BAnd (BLe (AVar V_NUM) (AConst P_TIME_TO_START_TX))
       (BOr (BAnd (BVar B_AVAIL) (BLt (AVar V_COUNT) (AConst P_MIN_COUNT)))
            (BGt (AVar V_COUNT) (AConst P_MAX_COUNT))).
Definition min_gas_expr : aexp := ADiv (AVar V_GASLIMIT) (AConst P_MIN_GAS_DIVISOR).
Definition max_gas_expr : aexp := AMul min_gas_expr (AConst P_MAX_GAS_MULT).
Definition gas_rule_expr : bexp :=
  BAnd (BGt (AVar V_NUM) (AConst P_TIME_TO_START_TX))
       (BOr (BAnd (BVar B_AVAIL) (BLt (AVar V_GAS) min_gas_expr))
            (BGt (AVar V_GAS) max_gas_expr)).

Definition rule_env (num count gas gaslimit : N) : N -> N :=
  fun v => if v =? V_NUM then num else if v =? V_COUNT then count
           else if v =? V_GAS then gas else if v =? V_GASLIMIT then gaslimit else 0.
Definition rule_benv (avail : bool) : N -> bool := fun v => if v =? B_AVAIL then avail else false.

Section Accept.
  (* the transaction hash is abstract: any function into a type with a boolean comparison *)
  Variable H : Type.
  Variable hash : etx -> H.
  Variable heqb : H -> H -> bool.

  (* Process, per external transaction of the block: etxCount++, PopETX, nil => error,
     hash differs => error, then execution adds the gas accounted for this ETX *)
  Fixpoint pop_compare (t : trie) (blk : list (etx * N)) (count gas : N) : verdict * trie * N * N :=
    match blk with
    | [] => (VAccept, t, count, gas)
    | (x, g) :: blk' =>
        let count' := count + 1 in
        match pop_etx t with
        | (None, t1) => (VPopNil, t1, count', gas)
        | (Some e, t1) =>
            if heqb (hash e) (hash x) then pop_compare t1 blk' count' (gas + g)
            else (VHashMismatch, t1, count', gas)
        end
    end.

  (* Process: push the parent's inbound set (only if non-empty), run the loop, then the
     availability probe ReadETX(GetOldestIndex()) and the two inclusion guards *)
  Definition accept_block (t : trie) (inbound : list etx) (blk : list (etx * N)) (num gaslimit : N)
    : verdict * trie :=
    let t0 := match inbound with [] => t | _ => push_etxs t inbound end in
    let '(v, t1, count, gas) := pop_compare t0 blk 0 0 in
    match v with
    | VAccept =>
        let avail := match read_etx t1 (get_oldest t1) with Some _ => true | None => false end in
        if count_rule_viol num avail count then (VCountRule, t1)
        else if gas_rule_viol num avail gas gaslimit then (VGasRule, t1)
        else (VAccept, t1)
    | _ => (v, t1)
    end.

  (* A chain of candidate blocks on top of a head block.  The head is (trie committed by the
     head's ETX-set root, the head's inbound set, which the next block pushes first).  An
     accepted candidate becomes the head, with the inbound set fixed for it by the dominant
     chain (4th component); a refused candidate leaves the head as it was (its state is
     discarded; Process opens the state at the parent's root for every block). *)
  Definition cand := (list (etx * N) * N * N * list etx)%type.
  Fixpoint run_chain (t : trie) (inb : list etx) (cs : list cand) : list verdict * trie * list etx :=
    match cs with
    | [] => ([], t, inb)
    | (blk, num, gl, next) :: cs' =>
        let '(v, t') := accept_block t inb blk num gl in
        match v with
        | VAccept => let '(vs, tf, inbf) := run_chain t' next cs' in (v :: vs, tf, inbf)
        | _ => let '(vs, tf, inbf) := run_chain t inb cs' in (v :: vs, tf, inbf)
        end
    end.
End Accept.

(* instance used by the correspondence check: the harness names every distinct
   transaction hash by a distinct byte string, so the hash is the identity *)
Definition accept_block_id := accept_block (list N) (fun e => e) keqb.
Definition run_chain_id := run_chain (list N) (fun e => e) keqb.

(* ------------------------------------------------------------------ (c) routing *)

(* common.Location of an address = the two nibbles of its first byte *)
Definition loc_of_prefix (b : N) : list N := [b / 16; b mod 16].

Definition ETX_COINBASE : N := 1.
Definition ETX_CONVERSION : N := 2.
Definition PRIME_CTX : N := 0.
Definition REGION_CTX : N := 1.
Definition ZONE_CTX : N := 2.

Definition optN_eqb (a b : option N) : bool :=
  match a, b with
  | Some x, Some y => x =? y
  | _, _ => false     (* Region() of a location without a region is -1: never equal to a real one *)
  end.

(* transaction.go:Transactions.FilterToSub, the test applied to one ETX (to-prefix byte, etx type) *)
Definition filter_to_sub (slice : list N) (ctx order : N) (tx : N * N) : bool :=
  let '(p, ty) := tx in
  let to := loc_of_prefix p in
  let standard := negb (ty =? ETX_COINBASE) && negb (ty =? ETX_CONVERSION) in
  if ctx =? PRIME_CTX then optN_eqb (nth_error to 0) (nth_error slice 0)
  else if ctx =? REGION_CTX then
    (if order =? PRIME_CTX then keqb to slice else keqb to slice && standard)
  else false.

(* transaction.go:Transactions.FilterToLocation *)
Definition filter_to_location (l : list N) (tx : N * N) : bool := keqb l (loc_of_prefix (fst tx)).

(* exhaustive enumeration used by the correspondence check: every address byte x ETX type 0..5 *)
Fixpoint nrange (s : N) (len : nat) : list N :=
  match len with
  | O => []
  | S l => s :: nrange (s + 1) l
  end.
Definition all_txs : list (N * N) :=
  flat_map (fun p => map (fun ty => (p, ty)) (nrange 0 6)) (nrange 0 256).
Fixpoint selected_from (f : N * N -> bool) (i : N) (l : list (N * N)) : list N :=
  match l with
  | [] => []
  | x :: l' => if f x then i :: selected_from f (i + 1) l' else selected_from f (i + 1) l'
  end.
Fixpoint ns_eqb (a b : list N) : bool :=
  match a, b with
  | [], [] => true
  | x :: a', y :: b' => (x =? y) && ns_eqb a' b'
  | _, _ => false
  end.

(* ------------------------------------------------------------------ (d) routing across region blocks *)

(* The hand-down of ETXs by a dominant node (core/slice.go:CollectNewlyConfirmedEtxs,
   core/headerchain.go:CollectSubRollup, and the glue of Slice.Append that uses them), as seen by a
   node of context ctx = REGION_CTX (blocks = region blocks, pending = the ETXs each zone block emitted)
   or ctx = PRIME_CTX (blocks = prime blocks, pending = the rollup each region block sent up).
   Hashes are names (N).  An ETX is (name of its hash, first byte
   of the destination address, ETX type). *)
Definition retx := (N * N * N)%type.
Definition retx_id (e : retx) : N := fst (fst e).
Definition retx_tx (e : retx) : N * N := (snd (fst e), snd e).

(* a region block: hash, parent hash, location of the zone that produced it, order (CalcOrder),
   expansion number, manifest (hashes of the zone blocks since the previous coincident block of that
   zone), inbound ETX set stored for it (rawdb.WriteInboundEtxs: what prime handed down with it) *)
Record rblock := mkRB {
  rb_hash : N; rb_parent : N; rb_loc : list N; rb_order : N; rb_exp : N;
  rb_manifest : list N; rb_inbound : list retx }.

(* what a region node holds: genesis hashes, blocks by hash (GetBlock), pending ETXs by zone block
   hash (GetPendingEtxs: what each zone block emitted) *)
Record rworld := mkRW {
  rw_genesis : list N;
  rw_blocks : list rblock;
  rw_pending : list (N * list retx) }.

Definition lookup_block (w : rworld) (h : N) : option rblock :=
  find (fun b => rb_hash b =? h) (rw_blocks w).
Definition lookup_pending (w : rworld) (h : N) : option (list retx) :=
  option_map snd (find (fun p => fst p =? h) (rw_pending w)).
Definition is_genesis (w : rworld) (h : N) : bool := existsb (N.eqb h) (rw_genesis w).

(* headerchain.go:CollectSubRollup (region branch): concatenation, in manifest order, of the pending
   ETXs of every hash of the manifest; one of them unknown => ErrPendingEtxNotFound *)
Fixpoint sub_rollup (w : rworld) (m : list N) : option (list retx) :=
  match m with
  | [] => Some []
  | h :: m' =>
      match lookup_pending w h with
      | None => None
      | Some l => match sub_rollup w m' with None => None | Some r => Some (l ++ r) end
      end
  end.

(* common/types.go:GetHierarchySizeForExpansionNumber, same recursion *)
Fixpoint hierarchy_size_nat (e : nat) : N * N :=
  match e with
  | O => (1, 1)
  | S e' =>
      match e' with
      | O => (1, 2)
      | S _ => let '(r, z) := hierarchy_size_nat e' in
               if Nat.even e then (r + 1, z) else (r, z + 1)
      end
  end.
Definition hierarchy_size (e : N) : N * N := hierarchy_size_nat (N.to_nat e).

(* Location.Region()/Zone() are -1 when absent *)
Definition opt_gt (o : option N) (n : N) : bool :=
  match o with Some x => n <? x | None => false end.
Definition opt_eq_int (a b : option N) : bool :=
  match a, b with
  | Some x, Some y => x =? y
  | None, None => true
  | _, _ => false
  end.
(* the zone named by loc is outside the hierarchy of expansion number e *)
Definition not_active (e : N) (loc : list N) : bool :=
  let '(regions, zones) := hierarchy_size e in
  opt_gt (nth_error loc 0) regions || opt_gt (nth_error loc 1) zones.
(* a.SubIndex(ctx) == b.SubIndex(ctx): Region() for prime, Zone() for a region, -1 otherwise *)
Definition same_sub (ctx : N) (a b : list N) : bool :=
  if ctx =? PRIME_CTX then opt_eq_int (nth_error a 0) (nth_error b 0)
  else if ctx =? REGION_CTX then opt_eq_int (nth_error a 1) (nth_error b 1)
  else true.

(* Transactions.FilterToSub(loc, ctx, order) on a list *)
Definition sel (ctx : N) (loc : list N) (order : N) (l : list retx) : list retx :=
  filter (fun e => filter_to_sub loc ctx order (retx_tx e)) l.

Inductive rres :=
| ROk (l : list retx)
| RErrParent            (* "unable to find parent" *)
| RErrPending           (* ErrPendingEtxNotFound *)
| RFuel.                (* the walk did not end within the number of stored blocks (cyclic store) *)

(* what the walk of CollectNewlyConfirmedEtxs does with one ancestor p, for a block of location loc
   queried at order border: stop, or add the roll-down of p's prime inbound set and p's sub rollup *)
Definition walk_stops (ctx : N) (loc : list N) (p : rblock) : bool :=
  ((rb_order p =? PRIME_CTX) && not_active (rb_exp p) loc)
  || (same_sub ctx (rb_loc p) loc && (rb_order p =? ctx)).
(* "if nodeCtx == common.REGION_CTX && order < nodeCtx && !blockLocation.Equal(parent.Location())" *)
Definition rolldown (ctx : N) (loc : list N) (p : rblock) : list retx :=
  if (ctx =? REGION_CTX) && (rb_order p <? ctx) && negb (keqb loc (rb_loc p))
  then sel ctx loc PRIME_CTX (rb_inbound p) else [].

(* slice.go:CollectNewlyConfirmedEtxs, the loop; cur is `block`, acc is newlyConfirmedEtxs *)
Fixpoint nc_walk (fuel : nat) (w : rworld) (ctx : N) (loc : list N) (border : N) (cur : rblock) (acc : list retx) : rres :=
  match fuel with
  | O => RFuel
  | S f =>
      match lookup_block w (rb_parent cur) with
      | None => RErrParent
      | Some p =>
          if is_genesis w (rb_parent cur) then ROk acc
          else if walk_stops ctx loc p then ROk acc
          else match sub_rollup w (rb_manifest p) with
               | None => RErrPending
               | Some roll => nc_walk f w ctx loc border p (acc ++ rolldown ctx loc p ++ sel ctx loc border roll)
               end
      end
  end.

Definition newly_confirmed (w : rworld) (ctx : N) (b : rblock) (border : N) : rres :=
  match sub_rollup w (rb_manifest b) with
  | None => RErrPending
  | Some roll => nc_walk (S (length (rw_blocks w))) w ctx (rb_loc b) border b (sel ctx (rb_loc b) border roll)
  end.

(* slice.go:Append: in a region, a block of dominant order hands to its zone the ETXs received from
   prime, filtered; otherwise (a region-order block in a region, every block in prime) the newly
   confirmed ETXs are handed down *)
Definition handed_down (w : rworld) (ctx : N) (b : rblock) : rres :=
  if rb_order b <? ctx then ROk (sel ctx (rb_loc b) (rb_order b) (rb_inbound b))
  else newly_confirmed w ctx b (rb_order b).

(* slice.go:Append (region node): what is sent up to prime of a sub rollup: everything that leaves
   the region, and every conversion / coinbase ETX *)
Definition goes_to_prime (region : N) (e : retx) : bool :=
  let '(p, ty) := retx_tx e in
  negb (p / 16 =? region) || (ty =? ETX_CONVERSION) || (ty =? ETX_COINBASE).

(* slice.go:GetPendingEtxsRollupFromSub (region branch): what the region answers when prime asks again
   for the rollup of a block -- the whole sub rollup, NOT filtered by goes_to_prime (as the code is) *)
Definition rollup_for_dom (w : rworld) (b : rblock) : option (list retx) := sub_rollup w (rb_manifest b).
(* what the header's EtxRollupHash commits to (Append checks DeriveSha(crossPrimeRollup) against it) and
   what prime therefore accepts (PendingEtxsRollup.IsValid) *)
Definition committed_rollup (w : rworld) (region : N) (b : rblock) : option (list retx) :=
  option_map (filter (goes_to_prime region)) (sub_rollup w (rb_manifest b)).

(* The statements of Slice.Append (outside its prime-only branches) the two definitions above were
   written against, in the canonical form produced by harness/gen/c04sites ("guards => statement").
   handed_down: lines 1-2 (a block of dominant order: store what the dominant chain sent, hand down its
   FilterToSub(block.Location(), nodeCtx, order)), line 4 (otherwise, when the block does not come from
   the dominant chain: CollectNewlyConfirmedEtxs(block, order); line 3/5: a memo of that result per block
   hash), line 7 (the set goes to the subordinate's Append unchanged).  goes_to_prime: lines 9-12 (the
   rollup sent up is the sub rollup filtered by destination region / conversion / coinbase), lines 13-14
   (it must hash to the header's EtxRollupHash), lines 15-16 (it is what prime receives). *)
Module C04Glue.
Import String.
Definition append_glue_model : list String.string := [
  "order < nodeCtx => rawdb.WriteInboundEtxs(sl.sliceDb, block.Hash(), newInboundEtxs)";
  "order < nodeCtx; nodeCtx == common.REGION_CTX => newInboundEtxs = newInboundEtxs.FilterToSub(block.Location(), nodeCtx, order)";
  "!domOrigin && nodeCtx != common.ZONE_CTX; exists && cachedInboundEtxs != nil && nodeCtx != common.PRIME_CTX => newInboundEtxs = cachedInboundEtxs";
  "!domOrigin && nodeCtx != common.ZONE_CTX; !(exists && cachedInboundEtxs != nil && nodeCtx != common.PRIME_CTX) => newInboundEtxs, err = sl.CollectNewlyConfirmedEtxs(block, order)";
  "!domOrigin && nodeCtx != common.ZONE_CTX; !(exists && cachedInboundEtxs != nil && nodeCtx != common.PRIME_CTX); !(nodeCtx == common.PRIME_CTX) => sl.inboundEtxsCache.Add(block.Hash(), newInboundEtxs)";
  " => var subPendingEtxs types.Transactions";
  "nodeCtx != common.ZONE_CTX; sl.subInterface[location.SubIndex(sl.NodeCtx())] != nil => subPendingEtxs, err = sl.subInterface[location.SubIndex(sl.NodeCtx())].Append(header, block.Manifest(), domTerminus, true, newInboundEtxs)";
  "nodeCtx != common.ZONE_CTX; sl.subInterface[location.SubIndex(sl.NodeCtx())] != nil => pEtxs := types.PendingEtxs{Header: header.ConvertToPEtxView(), OutboundEtxs: subPendingEtxs}";
  "nodeCtx != common.ZONE_CTX; sl.subInterface[location.SubIndex(sl.NodeCtx())] != nil; nodeCtx == common.REGION_CTX => crossPrimeRollup := types.Transactions{}";
  "nodeCtx != common.ZONE_CTX; sl.subInterface[location.SubIndex(sl.NodeCtx())] != nil; nodeCtx == common.REGION_CTX => subRollup, err := sl.hc.CollectSubRollup(block)";
  "nodeCtx != common.ZONE_CTX; sl.subInterface[location.SubIndex(sl.NodeCtx())] != nil; nodeCtx == common.REGION_CTX; range subRollup => to := etx.To().Location()";
  "nodeCtx != common.ZONE_CTX; sl.subInterface[location.SubIndex(sl.NodeCtx())] != nil; nodeCtx == common.REGION_CTX; range subRollup; to.Region() != sl.NodeLocation().Region() || types.IsConversionTx(etx) || types.IsCoinBaseTx(etx) => crossPrimeRollup = append(crossPrimeRollup, etx)";
  "nodeCtx != common.ZONE_CTX; sl.subInterface[location.SubIndex(sl.NodeCtx())] != nil; nodeCtx == common.REGION_CTX; nodeCtx == common.REGION_CTX => etxRollupHash := types.DeriveSha(crossPrimeRollup, trie.NewStackTrie(nil))";
  "nodeCtx != common.ZONE_CTX; sl.subInterface[location.SubIndex(sl.NodeCtx())] != nil; nodeCtx == common.REGION_CTX; nodeCtx == common.REGION_CTX => if etxRollupHash != block.EtxRollupHash() -> return nil, errors.New(""sub rollup does not match sub rollup hash"")";
  "nodeCtx != common.ZONE_CTX; sl.subInterface[location.SubIndex(sl.NodeCtx())] != nil; nodeCtx == common.REGION_CTX => pEtxRollup := types.PendingEtxsRollup{Header: header.ConvertToPEtxView(), EtxsRollup: crossPrimeRollup}";
  "nodeCtx != common.ZONE_CTX; sl.subInterface[location.SubIndex(sl.NodeCtx())] != nil; nodeCtx == common.REGION_CTX => sl.AddPendingEtxsRollup(pEtxRollup)";
  "!(nodeCtx == common.ZONE_CTX) => return subPendingEtxs, nil"
]%string.
End C04Glue.
Definition append_glue_model : list String.string := C04Glue.append_glue_model.

(* The same hand-down written over a chain given as a list, newest first (b :: anc: a block and its
   ancestors down to, excluding, the genesis).  Proofs/C04_Hier.v shows that the walk over the store
   computes exactly this on a tree-shaped store, and that it delivers every ETX exactly once. *)
Definition roll_of (w : rworld) (p : rblock) : list retx :=
  match sub_rollup w (rb_manifest p) with Some r => r | None => [] end.
Definition contrib (w : rworld) (ctx : N) (loc : list N) (border : N) (p : rblock) : list retx :=
  rolldown ctx loc p ++ sel ctx loc border (roll_of w p).
Fixpoint collect_list (w : rworld) (ctx : N) (loc : list N) (border : N) (anc : list rblock) : list retx :=
  match anc with
  | [] => []
  | p :: anc' => if walk_stops ctx loc p then [] else contrib w ctx loc border p ++ collect_list w ctx loc border anc'
  end.
(* what block b, whose ancestors are anc, hands to its subordinate chain *)
Definition handed_list (w : rworld) (ctx : N) (b : rblock) (anc : list rblock) : list retx :=
  if rb_order b <? ctx then sel ctx (rb_loc b) (rb_order b) (rb_inbound b)
  else sel ctx (rb_loc b) (rb_order b) (roll_of w b) ++ collect_list w ctx (rb_loc b) (rb_order b) anc.
(* everything a zone Z of this region is owed because of block b: what prime handed down with b for Z,
   and the standard ETXs for Z in the rollup of the zone blocks b refers to *)
Definition owed_by (w : rworld) (Z : list N) (b : rblock) : list retx :=
  (if rb_order b <? REGION_CTX then sel REGION_CTX Z PRIME_CTX (rb_inbound b) else []) ++ sel REGION_CTX Z REGION_CTX (roll_of w b).
(* along the chain (newest first), in chronological order: owed to Z, handed to zone Z, still pending *)
Fixpoint owed (w : rworld) (Z : list N) (c : list rblock) : list retx :=
  match c with [] => [] | b :: anc => owed w Z anc ++ owed_by w Z b end.
Fixpoint delivered (w : rworld) (Z : list N) (c : list rblock) : list retx :=
  match c with
  | [] => []
  | b :: anc => delivered w Z anc ++ (if keqb (rb_loc b) Z then handed_list w REGION_CTX b anc else [])
  end.
Definition pending_for (w : rworld) (Z : list N) (c : list rblock) : list retx := collect_list w REGION_CTX Z REGION_CTX c.

(* the same three for the prime node and a region (named by any location Z of it): every ETX of a rollup
   addressed to the region, of whatever type, is owed to it *)
Definition owed_by_p (w : rworld) (Z : list N) (b : rblock) : list retx := sel PRIME_CTX Z PRIME_CTX (roll_of w b).
Fixpoint owed_p (w : rworld) (Z : list N) (c : list rblock) : list retx :=
  match c with [] => [] | b :: anc => owed_p w Z anc ++ owed_by_p w Z b end.
Fixpoint delivered_p (w : rworld) (Z : list N) (c : list rblock) : list retx :=
  match c with
  | [] => []
  | b :: anc => delivered_p w Z anc ++ (if same_sub PRIME_CTX (rb_loc b) Z then handed_list w PRIME_CTX b anc else [])
  end.
Definition pending_for_p (w : rworld) (Z : list N) (c : list rblock) : list retx := collect_list w PRIME_CTX Z PRIME_CTX c.

(* ------------------------------------------------------------------ (e) recovery of a missed bundle *)

(* What happens when the bundle of a manifest entry is NOT in the store (headerchain.go:CollectSubRollup,
   the else branches; slice.go:GetPEtxRollupAfterRetryThreshold / GetPEtxAfterRetryThreshold,
   GetPendingEtxsRollupFromSub / GetPendingEtxsFromSub, AddPendingEtxsRollup / HeaderChain.AddPendingEtxs).
   A bundle is (name of its header's hash, content).  The header named h commits to `cm h`, the names
   of the ETXs in order (EtxRollupHash for a region block seen by prime, OutboundEtxHash for a zone
   block seen by a region; hashes are names, so a commitment is the list it is the hash of). *)
Definition bundle := (N * list retx)%type.

Definition assoc {A : Type} (l : list (N * A)) (k : N) : option A :=
  option_map snd (find (fun p => fst p =? k) l).
Fixpoint set_assoc {A : Type} (l : list (N * A)) (k : N) (v : A) : list (N * A) :=
  match l with
  | [] => [(k, v)]
  | p :: t => if fst p =? k then (k, v) :: t else p :: set_assoc t k v
  end.

(* the node's state: the store, and the retry counter per block hash (Slice.pEtxRetryCache; the 10-entry
   LRU bound of that cache is not modelled: the tie keeps the number of keys below it) *)
Record fstate := mkFS { fs_world : rworld; fs_retries : list (N * N) }.

Section Recovery.
Variable cm : list (N * list N).
Variable T : N.                            (* c_pEtxRetryThreshold *)

(* PendingEtxs.IsValid / PendingEtxsRollup.IsValid, "|| IsGenesisHash(header hash)" *)
Definition bundle_valid (w : rworld) (b : bundle) : bool :=
  match assoc cm (fst b) with
  | Some c => ns_eqb (map retx_id (snd b)) c
  | None => false
  end || is_genesis w (fst b).

(* AddPendingEtxs / AddPendingEtxsRollup: refuse an invalid bundle; store a valid one unless an entry of
   that header is known already *)
Definition add_validated (w : rworld) (b : bundle) : rworld :=
  if bundle_valid w b then
    match lookup_pending w (fst b) with
    | Some _ => w
    | None => mkRW (rw_genesis w) (rw_blocks w) (rw_pending w ++ [b])
    end
  else w.

(* hc.fetchPEtxRollup(b.Hash(), hash, ..) = GetPEtx(Rollup)AfterRetryThreshold: below the threshold count
   the failure; from the threshold on ask the subordinate, whose answer (any bundle, or an error) goes
   through the validated add.  The RETURN VALUE is dropped by CollectSubRollup: only the state changes. *)
Definition fetch (answers : list (N * bundle)) (st : fstate) (key h : N) : fstate :=
  match assoc (fs_retries st) key with
  | None => mkFS (fs_world st) (set_assoc (fs_retries st) key 0)
  | Some r =>
      if r <? T then mkFS (fs_world st) (set_assoc (fs_retries st) key (r + 1))
      else match assoc answers h with
           | Some b => mkFS (add_validated (fs_world st) b) (fs_retries st)
           | None => st
           end
  end.

(* CollectSubRollup with its side effect; key = hash of the block whose manifest is m *)
Fixpoint sub_rollup_f (answers : list (N * bundle)) (st : fstate) (key : N) (m : list N) (acc : list retx)
  : fstate * option (list retx) :=
  match m with
  | [] => (st, Some acc)
  | h :: m' =>
      match lookup_pending (fs_world st) h with
      | Some l => sub_rollup_f answers st key m' (acc ++ l)
      | None => (fetch answers st key h, None)
      end
  end.

(* CollectNewlyConfirmedEtxs, the loop, threading the state (the memo of successful sub rollups is
   transparent: entries of the store never change) *)
Fixpoint nc_walk_f (answers : list (N * bundle)) (fuel : nat) (st : fstate) (ctx : N) (loc : list N) (border : N)
  (cur : rblock) (acc : list retx) : fstate * rres :=
  match fuel with
  | O => (st, RFuel)
  | S f =>
      match lookup_block (fs_world st) (rb_parent cur) with
      | None => (st, RErrParent)
      | Some p =>
          if is_genesis (fs_world st) (rb_parent cur) then (st, ROk acc)
          else if walk_stops ctx loc p then (st, ROk acc)
          else match sub_rollup_f answers st (rb_hash p) (rb_manifest p) [] with
               | (st', None) => (st', RErrPending)
               | (st', Some roll) => nc_walk_f answers f st' ctx loc border p (acc ++ rolldown ctx loc p ++ sel ctx loc border roll)
               end
      end
  end.

Definition newly_confirmed_f (answers : list (N * bundle)) (st : fstate) (ctx : N) (b : rblock) (border : N) : fstate * rres :=
  match sub_rollup_f answers st (rb_hash b) (rb_manifest b) [] with
  | (st', None) => (st', RErrPending)
  | (st', Some roll) =>
      nc_walk_f answers (S (length (rw_blocks (fs_world st)))) st' ctx (rb_loc b) border b (sel ctx (rb_loc b) border roll)
  end.

(* one call of the node: q = (block, order); order 9 stands for the bare CollectSubRollup *)
Definition rres_out (r : rres) : N * list N :=
  match r with
  | ROk l => (0, map retx_id l)
  | RErrParent => (1, [])
  | RErrPending => (2, [])
  | RFuel => (7, [])
  end.
Definition run_round (answers : list (N * bundle)) (ctx : N) (st : fstate) (q : N * N) : fstate * (N * list N) :=
  match lookup_block (fs_world st) (fst q) with
  | None => (st, (8, []))
  | Some b =>
      if snd q =? 9 then
        match sub_rollup_f answers st (rb_hash b) (rb_manifest b) [] with
        | (st', Some l) => (st', (0, map retx_id l))
        | (st', None) => (st', (2, []))
        end
      else let '(st', r) := newly_confirmed_f answers st ctx b (snd q) in (st', rres_out r)
  end.
(* a history of calls; the subordinate may answer differently each time *)
Fixpoint run_rounds (ctx : N) (st : fstate) (rs : list (list (N * bundle) * (N * N))) : fstate * list (N * list N) :=
  match rs with
  | [] => (st, [])
  | (answers, q) :: rs' =>
      let '(st', o) := run_round answers ctx st q in
      let '(st'', os) := run_rounds ctx st' rs' in (st'', o :: os)
  end.
End Recovery.

(* ------------------------------------------------------------------ correspondence *)

Definition oetx_eqb (a b : option etx) : bool :=
  match a, b with
  | None, None => true
  | Some x, Some y => keqb x y
  | _, _ => false
  end.
Definition qout_eqb (a b : qout) : bool :=
  match a, b with
  | OUnit, OUnit => true
  | OEtx x, OEtx y => oetx_eqb x y
  | ONum x, ONum y => x =? y
  | _, _ => false
  end.
Fixpoint qouts_eqb (a b : list qout) : bool :=
  match a, b with
  | [], [] => true
  | x :: a', y :: b' => qout_eqb x y && qouts_eqb a' b'
  | _, _ => false
  end.
Fixpoint bools_eqb (a b : list bool) : bool :=
  match a, b with
  | [], [] => true
  | x :: a', y :: b' => Bool.eqb x y && bools_eqb a' b'
  | _, _ => false
  end.

Definition verdict_code (v : verdict) : N :=
  match v with VAccept => 0 | VPopNil => 1 | VHashMismatch => 2 | VCountRule => 3 | VGasRule => 4 end.

(* compact encodings used by the case files: an ETX is named by a positive number i (standing for
   the byte string be_min i); runs of consecutive names are written (first, length) *)
Definition ids_of (rs : list (N * N)) : list N :=
  flat_map (fun r => nrange (fst r) (N.to_nat (snd r))) rs.
Definition etxs_of (rs : list (N * N)) : list etx := map be_min (ids_of rs).
(* block items: (first, length, gas accounted for each) *)
Definition items_of (rs : list (N * N * N)) : list (etx * N) :=
  flat_map (fun r => let '(s, l, g) := r in map (fun i => (be_min i, g)) (nrange s (N.to_nat l))) rs.

(* one step of an observed queue history *)
Inductive cstep :=
| SPush (rs : list (N * N))
| SPush1 (i : N)
| SPops (k : N) (got : list (N * N)) (nones : N)   (* k pops: these items, then nothing nones times *)
| SRead (i : N) (got : option N)
| SOldest (n : N)
| SNewest (n : N)
| SCommit
| SSetK (v : N)
| SGetK (n : N).

Definition cstep_ops (c : cstep) : list qop :=
  match c with
  | SPush rs => [QPush (etxs_of rs)]
  | SPush1 i => [QPush1 (be_min i)]
  | SPops k _ _ => repeat QPop (N.to_nat k)
  | SRead i _ => [QRead i]
  | SOldest _ => [QOldest]
  | SNewest _ => [QNewest]
  | SCommit => [QCommit]
  | SSetK v => [QSetK v]
  | SGetK _ => [QGetK]
  end.
Definition cstep_outs (c : cstep) : list qout :=
  match c with
  | SPush _ | SPush1 _ | SCommit | SSetK _ => [OUnit]
  | SPops _ got nones => map (fun e => OEtx (Some e)) (etxs_of got) ++ repeat (OEtx None) (N.to_nat nones)
  | SRead _ got => [OEtx (option_map be_min got)]
  | SOldest n | SNewest n | SGetK n => [ONum n]
  end.

Inductive case :=
(* queue history from a queue positioned at index o0, with the outputs observed on StateDB *)
| CQ (id : N) (o0 : N) (h : list cstep)
(* block acceptance: queue at o0 holding pre, parent inbound set, block ETX items,
   zone block number, gas limit; observed verdict class and (oldest, newest) afterwards *)
| CB (id : N) (o0 : N) (pre inbound : list (N * N)) (blk : list (N * N * N)) (num gaslimit : N)
     (obs_verdict obs_oldest obs_newest : N)
(* end-to-end run of the real Process on a block with this ETX section: only the refusal class is
   observable (0 accept, 1 nil pop, 2 hash mismatch, 3 count rule, 4 gas rule, 9 = refused for a
   reason outside the ETX discipline, which may pre-empt any ETX verdict: no constraint) *)
| CV (id : N) (o0 : N) (pre inbound : list (N * N)) (blk : list (N * N * N)) (num gaslimit : N) (obs_class : N)
(* a chain of candidate blocks on a head whose queue is empty at o0 and whose inbound set is inb0:
   observed verdict classes, and (oldest, newest) of the final head state *)
| CC (id : N) (o0 : N) (inb0 : list (N * N)) (cs : list (list (N * N * N) * N * N * list (N * N)))
     (obs_verdicts : list N) (obs_oldest obs_newest : N)
(* FilterToSub on a list of (to-prefix, etx type): observed selection flags *)
| CR (id : N) (slice : list N) (ctx order : N) (txs : list (N * N)) (sel : list bool)
(* FilterToLocation *)
| CL (id : N) (l : list N) (txs : list (N * N)) (sel : list bool)
(* the same two on all_txs: observed = positions of the selected transactions *)
| CRX (id : N) (slice : list N) (ctx order : N) (sel : list N)
| CLX (id : N) (l : list N) (sel : list N)
(* a region (ctx = 1) or prime (ctx = 0) node holding these blocks and pending ETX bundles / rollups: observed CollectSubRollup per block
   (names of the ETXs, None = error) and CollectNewlyConfirmedEtxs per (block, order): class
   (0 ok, 1 parent not found, 2 pending ETXs not found) and the names of the ETXs, in order *)
| CH (id : N) (ctx : N) (gen : list N) (blocks : list rblock) (pend : list (N * list retx))
     (rollq : list (N * option (list N))) (ncq : list (N * N * N * list N))
(* recovery: a node (ctx) holding blocks and the initial store pend; cm = what each header commits to;
   answers = what the subordinate sends when asked for a hash (header name, content; absent = error);
   T = retry threshold; rounds = the calls made, in order: (block, order or 9 for the bare sub rollup,
   observed class, observed names); final = for each initially missing entry whether the store holds it
   at the end *)
| CF (id : N) (ctx : N) (gen : list N) (blocks : list rblock) (pend : list (N * list retx))
     (cm : list (N * list N)) (answers : list (N * bundle)) (T : N)
     (rounds : list (N * N * N * list N)) (final : list (N * bool)).

Definition case_id (c : case) : N :=
  match c with
  | CQ i _ _ => i | CB i _ _ _ _ _ _ _ _ _ => i | CR i _ _ _ _ _ => i | CL i _ _ _ => i
  | CC i _ _ _ _ _ _ => i | CV i _ _ _ _ _ _ _ => i
  | CRX i _ _ _ _ => i | CLX i _ _ => i | CH i _ _ _ _ _ _ => i
  | CF i _ _ _ _ _ _ _ _ _ => i
  end.

Definition rres_code (r : rres) : N * list N :=
  match r with
  | ROk l => (0, map retx_id l)
  | RErrParent => (1, [])
  | RErrPending => (2, [])
  | RFuel => (7, [])
  end.
Definition onl_eqb (a b : option (list N)) : bool :=
  match a, b with
  | None, None => true
  | Some x, Some y => ns_eqb x y
  | _, _ => false
  end.

Fixpoint outs_eqb (a b : list (N * list N)) : bool :=
  match a, b with
  | [], [] => true
  | x :: a', y :: b' => (fst x =? fst y) && ns_eqb (snd x) (snd y) && outs_eqb a' b'
  | _, _ => false
  end.

Definition case_ok (c : case) : bool :=
  match c with
  | CQ _ o0 h => qouts_eqb (qrun (init_at o0) (flat_map cstep_ops h)) (flat_map cstep_outs h)
  | CB _ o0 pre inbound blk num gl ov oo on =>
      let t := push_etxs (init_at o0) (etxs_of pre) in
      let '(v, t') := accept_block_id t (etxs_of inbound) (items_of blk) num gl in
      (verdict_code v =? ov) && (get_oldest t' =? oo) && (get_newest t' =? on)
  | CV _ o0 pre inbound blk num gl oc =>
      let v := fst (accept_block_id (push_etxs (init_at o0) (etxs_of pre)) (etxs_of inbound) (items_of blk) num gl) in
      (oc =? 9) || (verdict_code v =? oc)
  | CC _ o0 inb0 cs ovs oo on =>
      let cs' := map (fun c => let '(blk, num, gl, next) := c in (items_of blk, num, gl, etxs_of next)) cs in
      let '(vs, tf, _) := run_chain_id (init_at o0) (etxs_of inb0) cs' in
      ns_eqb (map verdict_code vs) ovs && (get_oldest tf =? oo) && (get_newest tf =? on)
  | CR _ slice ctx order txs sel => bools_eqb (map (filter_to_sub slice ctx order) txs) sel
  | CL _ l txs sel => bools_eqb (map (filter_to_location l) txs) sel
  | CRX _ slice ctx order sel => ns_eqb (selected_from (filter_to_sub slice ctx order) 0 all_txs) sel
  | CLX _ l sel => ns_eqb (selected_from (filter_to_location l) 0 all_txs) sel
  | CH _ ctx gen blocks pend rollq ncq =>
      let w := mkRW gen blocks pend in
      forallb (fun q : N * option (list N) =>
                 match lookup_block w (fst q) with
                 | None => false
                 | Some b => onl_eqb (option_map (map retx_id) (sub_rollup w (rb_manifest b))) (snd q)
                 end) rollq
      && forallb (fun q : N * N * N * list N =>
                 let '(h, order, cls, ids) := q in
                 match lookup_block w h with
                 | None => false
                 | Some b => let '(c, l) := rres_code (newly_confirmed w ctx b order) in (c =? cls) && ns_eqb l ids
                 end) ncq
  | CF _ ctx gen blocks pend cm answers T rounds final =>
      let st0 := mkFS (mkRW gen blocks pend) [] in
      let '(stf, outs) := run_rounds cm T ctx st0 (map (fun q : N * N * N * list N => (answers, (fst (fst (fst q)), snd (fst (fst q))))) rounds) in
      outs_eqb outs (map (fun q : N * N * N * list N => (snd (fst q), snd q)) rounds)
      && forallb (fun f : N * bool =>
                    Bool.eqb (match lookup_pending (fs_world stf) (fst f) with Some _ => true | None => false end) (snd f)) final
  end.

Definition mismatches (cs : list case) : list N :=
  map case_id (filter (fun c => negb (case_ok c)) cs).

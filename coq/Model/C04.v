(* C04 -- executable model of the cross-chain transaction (ETX) path at a destination:
   (a) the ETX queue kept in the ETX trie of StateDB (core/state/statedb.go),
   (b) the acceptance discipline of StateProcessor.Process (core/state_processor.go),
   (c) the destination filters of core/types/transaction.go (FilterToSub/FilterToLocation).
   Definitions only; proofs are in Proofs/C04*.v. *)
From Coq Require Import List NArith Bool.
From GQ Require Import Lib.Key Lib.SMap Lib.C04_BigEndian Lib.C04_Expr.
Import ListNotations.
Local Open Scope N_scope.

(* ------------------------------------------------------------------ (a) queue *)

(* An ETX is represented by the bytes stored for it (in the code: its RLP, never empty). *)
Definition etx := list N.

(* The ETX trie: (pre-image) key -> non-empty value.  The code uses a secure trie
   (keys hashed with keccak); the model works on the pre-image keys. *)
Definition trie := smap (list N).

(* statedb.go: newestEtxKey/oldestEtxKey/kQuaiKey/updateBitKey = common.HexToHash of 28
   bytes of 0xff.. => left-padded to 32 bytes with four zero bytes. *)
Definition ctl_key (last : N) : key := [0;0;0;0] ++ repeat 255 27 ++ [last].
Definition newest_key : key := ctl_key 255.
Definition oldest_key : key := ctl_key 254.
Definition kquai_key : key := ctl_key 250.
Definition update_bit_key : key := ctl_key 251.

(* trie.TryUpdate: an empty value deletes the key *)
Definition tupdate (k : key) (v : list N) (t : trie) : trie :=
  match v with
  | [] => del k t
  | _ => put k v t
  end.
(* trie.TryGet: absent => nil *)
Definition tget (k : key) (t : trie) : list N :=
  match get k t with Some v => v | None => [] end.

(* statedb.go:GetNewestIndex / GetOldestIndex : new(big.Int).SetBytes(cell) *)
Definition get_newest (t : trie) : N := of_be (tget newest_key t).
Definition get_oldest (t : trie) : N := of_be (tget oldest_key t).

(* statedb.go:PushETXs : read newest once, store each item at index.Bytes(), index++,
   write newest once after the loop *)
Fixpoint push_loop (t : trie) (idx : N) (l : list etx) : trie * N :=
  match l with
  | [] => (t, idx)
  | e :: l' => push_loop (tupdate (be_min idx) e t) (idx + 1) l'
  end.
Definition push_etxs (t : trie) (l : list etx) : trie :=
  let '(t', n) := push_loop t (get_newest t) l in
  tupdate newest_key (be_min n) t'.

(* statedb.go:PushETX (single) *)
Definition push_etx (t : trie) (e : etx) : trie :=
  let n := get_newest t in
  tupdate newest_key (be_min (n + 1)) (tupdate (be_min n) e t).

(* statedb.go:PopETX : empty cell at oldest => (nil, nil), nothing written; otherwise
   delete the cell, oldest++ *)
Definition pop_etx (t : trie) : option etx * trie :=
  let o := get_oldest t in
  match tget (be_min o) t with
  | [] => (None, t)
  | enc => (Some enc, tupdate oldest_key (be_min (o + 1)) (del (be_min o) t))
  end.

(* statedb.go:ReadETX *)
Definition read_etx (t : trie) (i : N) : option etx :=
  match tget (be_min i) t with
  | [] => None
  | enc => Some enc
  end.

(* statedb.go:UpdateKQuai / GetKQuai (another tenant of the same trie) *)
Definition set_kquai (t : trie) (v : N) : trie := tupdate kquai_key (be_min v) t.
Definition get_kquai (t : trie) : N := of_be (tget kquai_key t).

(* a queue whose next index is o0 and that holds nothing (state after o0 pushes and pops) *)
Definition init_at (o0 : N) : trie :=
  tupdate newest_key (be_min o0) (tupdate oldest_key (be_min o0) []).

Inductive qop :=
| QPush (l : list etx)
| QPush1 (e : etx)
| QPop
| QRead (i : N)
| QOldest
| QNewest
| QCommit                (* CommitEtxs + TrieDB().Commit + state.New at the root: identity *)
| QSetK (v : N)
| QGetK.

Inductive qout :=
| OUnit
| OEtx (e : option etx)
| ONum (n : N).

Definition qstep (t : trie) (o : qop) : trie * qout :=
  match o with
  | QPush l => (push_etxs t l, OUnit)
  | QPush1 e => (push_etx t e, OUnit)
  | QPop => let '(r, t') := pop_etx t in (t', OEtx r)
  | QRead i => (t, OEtx (read_etx t i))
  | QOldest => (t, ONum (get_oldest t))
  | QNewest => (t, ONum (get_newest t))
  | QCommit => (t, OUnit)
  | QSetK v => (set_kquai t v, OUnit)
  | QGetK => (t, ONum (get_kquai t))
  end.

Fixpoint qrun (t : trie) (ops : list qop) : list qout :=
  match ops with
  | [] => []
  | o :: ops' => let '(t', r) := qstep t o in r :: qrun t' ops'
  end.

Definition qrun_state (t : trie) (ops : list qop) : trie :=
  fold_left (fun s o => fst (qstep s o)) ops t.

(* ------------------------------------------------------------------ (b) Process *)

(* params/protocol_params.go (compared with the generated values in Props/C04.v) *)
Definition P_MIN_GAS_DIVISOR : N := 5.
Definition P_MAX_GAS_MULT : N := 2.
Definition P_MIN_COUNT : N := 50.
Definition P_MAX_COUNT : N := 100.
Definition P_TIME_TO_START_TX : N := 259200.

Inductive verdict := VAccept | VPopNil | VHashMismatch | VCountRule | VGasRule.

(* state_processor.go:Process, end of the transaction loop:
   if num <= TimeToStartTx && (etxAvailable && etxCount < min || etxCount > max) -> error *)
Definition count_rule_viol (num : N) (avail : bool) (count : N) : bool :=
  (num <=? P_TIME_TO_START_TX) && ((avail && (count <? P_MIN_COUNT)) || (P_MAX_COUNT <? count)).
(* if num > TimeToStartTx && ((etxAvailable && totalEtxGas < minGas) || totalEtxGas > maxGas) -> error
   with minGas = gasLimit / 5, maxGas = minGas * 2 *)
Definition min_etx_gas (gaslimit : N) : N := gaslimit / P_MIN_GAS_DIVISOR.
Definition max_etx_gas (gaslimit : N) : N := min_etx_gas gaslimit * P_MAX_GAS_MULT.
Definition gas_rule_viol (num : N) (avail : bool) (gas gaslimit : N) : bool :=
  (P_TIME_TO_START_TX <? num) && ((avail && (gas <? min_etx_gas gaslimit)) || (max_etx_gas gaslimit <? gas)).

(* the same two guards as expression trees, the shape the generator extracts from the source *)
Definition count_rule_expr : bexp :=
  BAnd (BLe (AVar V_NUM) (AConst P_TIME_TO_START_TX))
       (BOr (BAnd (BVar B_AVAIL) (BLt (AVar V_COUNT) (AConst P_MIN_COUNT)))
            (BGt (AVar V_COUNT) (AConst P_MAX_COUNT))).
Definition min_gas_expr : aexp := ADiv (AVar V_GASLIMIT) (AConst P_MIN_GAS_DIVISOR).
Definition max_gas_expr : aexp := AMul min_gas_expr (AConst P_MAX_GAS_MULT).
Definition gas_rule_expr : bexp :=
  BAnd (BGt (AVar V_NUM) (AConst P_TIME_TO_START_TX))
       (BOr (BAnd (BVar B_AVAIL) (BLt (AVar V_GAS) min_gas_expr))
            (BGt (AVar V_GAS) max_gas_expr)).

Definition rule_env (num count gas gaslimit : N) : N -> N :=
  fun v => if v =? V_NUM then num else if v =? V_COUNT then count
           else if v =? V_GAS then gas else if v =? V_GASLIMIT then gaslimit else 0.
Definition rule_benv (avail : bool) : N -> bool := fun v => if v =? B_AVAIL then avail else false.

Section Accept.
  (* the transaction hash is abstract: any function into a type with a boolean comparison *)
  Variable H : Type.
  Variable hash : etx -> H.
  Variable heqb : H -> H -> bool.

  (* Process, per external transaction of the block: etxCount++, PopETX, nil => error,
     hash differs => error, then execution adds the gas accounted for this ETX *)
  Fixpoint pop_compare (t : trie) (blk : list (etx * N)) (count gas : N) : verdict * trie * N * N :=
    match blk with
    | [] => (VAccept, t, count, gas)
    | (x, g) :: blk' =>
        let count' := count + 1 in
        match pop_etx t with
        | (None, t1) => (VPopNil, t1, count', gas)
        | (Some e, t1) =>
            if heqb (hash e) (hash x) then pop_compare t1 blk' count' (gas + g)
            else (VHashMismatch, t1, count', gas)
        end
    end.

  (* Process: push the parent's inbound set (only if non-empty), run the loop, then the
     availability probe ReadETX(GetOldestIndex()) and the two inclusion guards *)
  Definition accept_block (t : trie) (inbound : list etx) (blk : list (etx * N)) (num gaslimit : N)
    : verdict * trie :=
    let t0 := match inbound with [] => t | _ => push_etxs t inbound end in
    let '(v, t1, count, gas) := pop_compare t0 blk 0 0 in
    match v with
    | VAccept =>
        let avail := match read_etx t1 (get_oldest t1) with Some _ => true | None => false end in
        if count_rule_viol num avail count then (VCountRule, t1)
        else if gas_rule_viol num avail gas gaslimit then (VGasRule, t1)
        else (VAccept, t1)
    | _ => (v, t1)
    end.

  (* A chain of candidate blocks on top of a head block.  The head is (trie committed by the
     head's ETX-set root, the head's inbound set, which the next block pushes first).  An
     accepted candidate becomes the head, with the inbound set fixed for it by the dominant
     chain (4th component); a refused candidate leaves the head as it was (its state is
     discarded; Process opens the state at the parent's root for every block). *)
  Definition cand := (list (etx * N) * N * N * list etx)%type.
  Fixpoint run_chain (t : trie) (inb : list etx) (cs : list cand) : list verdict * trie * list etx :=
    match cs with
    | [] => ([], t, inb)
    | (blk, num, gl, next) :: cs' =>
        let '(v, t') := accept_block t inb blk num gl in
        match v with
        | VAccept => let '(vs, tf, inbf) := run_chain t' next cs' in (v :: vs, tf, inbf)
        | _ => let '(vs, tf, inbf) := run_chain t inb cs' in (v :: vs, tf, inbf)
        end
    end.
End Accept.

(* instance used by the correspondence check: the harness names every distinct
   transaction hash by a distinct byte string, so the hash is the identity *)
Definition accept_block_id := accept_block (list N) (fun e => e) keqb.
Definition run_chain_id := run_chain (list N) (fun e => e) keqb.

(* ------------------------------------------------------------------ (c) routing *)

(* common.Location of an address = the two nibbles of its first byte *)
Definition loc_of_prefix (b : N) : list N := [b / 16; b mod 16].

Definition ETX_COINBASE : N := 1.
Definition ETX_CONVERSION : N := 2.
Definition PRIME_CTX : N := 0.
Definition REGION_CTX : N := 1.
Definition ZONE_CTX : N := 2.

Definition optN_eqb (a b : option N) : bool :=
  match a, b with
  | Some x, Some y => x =? y
  | _, _ => false     (* Region() of a location without a region is -1: never equal to a real one *)
  end.

(* transaction.go:Transactions.FilterToSub, the test applied to one ETX (to-prefix byte, etx type) *)
Definition filter_to_sub (slice : list N) (ctx order : N) (tx : N * N) : bool :=
  let '(p, ty) := tx in
  let to := loc_of_prefix p in
  let standard := negb (ty =? ETX_COINBASE) && negb (ty =? ETX_CONVERSION) in
  if ctx =? PRIME_CTX then optN_eqb (nth_error to 0) (nth_error slice 0)
  else if ctx =? REGION_CTX then
    (if order =? PRIME_CTX then keqb to slice else keqb to slice && standard)
  else false.

(* transaction.go:Transactions.FilterToLocation *)
Definition filter_to_location (l : list N) (tx : N * N) : bool := keqb l (loc_of_prefix (fst tx)).

(* exhaustive enumeration used by the correspondence check: every address byte x ETX type 0..5 *)
Fixpoint nrange (s : N) (len : nat) : list N :=
  match len with
  | O => []
  | S l => s :: nrange (s + 1) l
  end.
Definition all_txs : list (N * N) :=
  flat_map (fun p => map (fun ty => (p, ty)) (nrange 0 6)) (nrange 0 256).
Fixpoint selected_from (f : N * N -> bool) (i : N) (l : list (N * N)) : list N :=
  match l with
  | [] => []
  | x :: l' => if f x then i :: selected_from f (i + 1) l' else selected_from f (i + 1) l'
  end.
Fixpoint ns_eqb (a b : list N) : bool :=
  match a, b with
  | [], [] => true
  | x :: a', y :: b' => (x =? y) && ns_eqb a' b'
  | _, _ => false
  end.

(* ------------------------------------------------------------------ correspondence *)

Definition oetx_eqb (a b : option etx) : bool :=
  match a, b with
  | None, None => true
  | Some x, Some y => keqb x y
  | _, _ => false
  end.
Definition qout_eqb (a b : qout) : bool :=
  match a, b with
  | OUnit, OUnit => true
  | OEtx x, OEtx y => oetx_eqb x y
  | ONum x, ONum y => x =? y
  | _, _ => false
  end.
Fixpoint qouts_eqb (a b : list qout) : bool :=
  match a, b with
  | [], [] => true
  | x :: a', y :: b' => qout_eqb x y && qouts_eqb a' b'
  | _, _ => false
  end.
Fixpoint bools_eqb (a b : list bool) : bool :=
  match a, b with
  | [], [] => true
  | x :: a', y :: b' => Bool.eqb x y && bools_eqb a' b'
  | _, _ => false
  end.

Definition verdict_code (v : verdict) : N :=
  match v with VAccept => 0 | VPopNil => 1 | VHashMismatch => 2 | VCountRule => 3 | VGasRule => 4 end.

(* compact encodings used by the case files: an ETX is named by a positive number i (standing for
   the byte string be_min i); runs of consecutive names are written (first, length) *)
Definition ids_of (rs : list (N * N)) : list N :=
  flat_map (fun r => nrange (fst r) (N.to_nat (snd r))) rs.
Definition etxs_of (rs : list (N * N)) : list etx := map be_min (ids_of rs).
(* block items: (first, length, gas accounted for each) *)
Definition items_of (rs : list (N * N * N)) : list (etx * N) :=
  flat_map (fun r => let '(s, l, g) := r in map (fun i => (be_min i, g)) (nrange s (N.to_nat l))) rs.

(* one step of an observed queue history *)
Inductive cstep :=
| SPush (rs : list (N * N))
| SPush1 (i : N)
| SPops (k : N) (got : list (N * N)) (nones : N)   (* k pops: these items, then nothing nones times *)
| SRead (i : N) (got : option N)
| SOldest (n : N)
| SNewest (n : N)
| SCommit
| SSetK (v : N)
| SGetK (n : N).

Definition cstep_ops (c : cstep) : list qop :=
  match c with
  | SPush rs => [QPush (etxs_of rs)]
  | SPush1 i => [QPush1 (be_min i)]
  | SPops k _ _ => repeat QPop (N.to_nat k)
  | SRead i _ => [QRead i]
  | SOldest _ => [QOldest]
  | SNewest _ => [QNewest]
  | SCommit => [QCommit]
  | SSetK v => [QSetK v]
  | SGetK _ => [QGetK]
  end.
Definition cstep_outs (c : cstep) : list qout :=
  match c with
  | SPush _ | SPush1 _ | SCommit | SSetK _ => [OUnit]
  | SPops _ got nones => map (fun e => OEtx (Some e)) (etxs_of got) ++ repeat (OEtx None) (N.to_nat nones)
  | SRead _ got => [OEtx (option_map be_min got)]
  | SOldest n | SNewest n | SGetK n => [ONum n]
  end.

Inductive case :=
(* queue history from a queue positioned at index o0, with the outputs observed on StateDB *)
| CQ (id : N) (o0 : N) (h : list cstep)
(* block acceptance: queue at o0 holding pre, parent inbound set, block ETX items,
   zone block number, gas limit; observed verdict class and (oldest, newest) afterwards *)
| CB (id : N) (o0 : N) (pre inbound : list (N * N)) (blk : list (N * N * N)) (num gaslimit : N)
     (obs_verdict obs_oldest obs_newest : N)
(* end-to-end run of the real Process on a block with this ETX section: only the refusal class is
   observable (0 accept, 1 nil pop, 2 hash mismatch, 3 count rule, 4 gas rule, 9 = refused for a
   reason outside the ETX discipline, which may pre-empt any ETX verdict: no constraint) *)
| CV (id : N) (o0 : N) (pre inbound : list (N * N)) (blk : list (N * N * N)) (num gaslimit : N) (obs_class : N)
(* a chain of candidate blocks on a head whose queue is empty at o0 and whose inbound set is inb0:
   observed verdict classes, and (oldest, newest) of the final head state *)
| CC (id : N) (o0 : N) (inb0 : list (N * N)) (cs : list (list (N * N * N) * N * N * list (N * N)))
     (obs_verdicts : list N) (obs_oldest obs_newest : N)
(* FilterToSub on a list of (to-prefix, etx type): observed selection flags *)
| CR (id : N) (slice : list N) (ctx order : N) (txs : list (N * N)) (sel : list bool)
(* FilterToLocation *)
| CL (id : N) (l : list N) (txs : list (N * N)) (sel : list bool)
(* the same two on all_txs: observed = positions of the selected transactions *)
| CRX (id : N) (slice : list N) (ctx order : N) (sel : list N)
| CLX (id : N) (l : list N) (sel : list N).

Definition case_id (c : case) : N :=
  match c with
  | CQ i _ _ => i | CB i _ _ _ _ _ _ _ _ _ => i | CR i _ _ _ _ _ => i | CL i _ _ _ => i
  | CC i _ _ _ _ _ _ => i | CV i _ _ _ _ _ _ _ => i
  | CRX i _ _ _ _ => i | CLX i _ _ => i
  end.

Definition case_ok (c : case) : bool :=
  match c with
  | CQ _ o0 h => qouts_eqb (qrun (init_at o0) (flat_map cstep_ops h)) (flat_map cstep_outs h)
  | CB _ o0 pre inbound blk num gl ov oo on =>
      let t := push_etxs (init_at o0) (etxs_of pre) in
      let '(v, t') := accept_block_id t (etxs_of inbound) (items_of blk) num gl in
      (verdict_code v =? ov) && (get_oldest t' =? oo) && (get_newest t' =? on)
  | CV _ o0 pre inbound blk num gl oc =>
      let v := fst (accept_block_id (push_etxs (init_at o0) (etxs_of pre)) (etxs_of inbound) (items_of blk) num gl) in
      (oc =? 9) || (verdict_code v =? oc)
  | CC _ o0 inb0 cs ovs oo on =>
      let cs' := map (fun c => let '(blk, num, gl, next) := c in (items_of blk, num, gl, etxs_of next)) cs in
      let '(vs, tf, _) := run_chain_id (init_at o0) (etxs_of inb0) cs' in
      ns_eqb (map verdict_code vs) ovs && (get_oldest tf =? oo) && (get_newest tf =? on)
  | CR _ slice ctx order txs sel => bools_eqb (map (filter_to_sub slice ctx order) txs) sel
  | CL _ l txs sel => bools_eqb (map (filter_to_location l) txs) sel
  | CRX _ slice ctx order sel => ns_eqb (selected_from (filter_to_sub slice ctx order) 0 all_txs) sel
  | CLX _ l sel => ns_eqb (selected_from (filter_to_location l) 0 all_txs) sel
  end.

Definition mismatches (cs : list case) : list N :=
  map case_id (filter (fun c => negb (case_ok c)) cs).

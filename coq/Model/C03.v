(* C03 — executable model of transaction authorisation in go-quai.
   (a) crypto/crypto.go:ValidateSignatureValues and the V handling of
       core/types/transaction_signing.go:recoverPlain;
   (b) SignerV1.Sender (chain-ID check, then recoverPlain) and types.Sender with the
       per-object sigCache compared by Signer.Equal (chain ID only);
   (c) the signing payload: core/types/transaction.go:ProtoEncodeTxSigningData marshalled
       by proto.Marshal (tag/length/value, Lib/C03_TLV) for Quai and Qi transactions, and
       the full ProtoEncode bytes tx.Hash() is computed from;
   (d) the ownership loop and signature test of core/state_processor.go:ProcessQiTx.
   keccak, ECDSA recovery, pubkey->address, Schnorr verification and MuSig2 key
   aggregation are Section variables.  Definitions only; proofs in Proofs/C03*.v. *)
From Coq Require Import List NArith ZArith Bool.
From GQ Require Import Lib.C03_TLV Generated.C03Params.
Import ListNotations.
Local Open Scope N_scope.

Definition bytes := list N.

(* ================= (a) signature values ================= *)

Definition secp_n : Z := Z.of_N C03Params.secp_n.
Definition secp_half_n : Z := Z.of_N C03Params.secp_half_n.

(* crypto/crypto.go:ValidateSignatureValues(v byte, r, s *big.Int), branch by branch *)
Definition validate_sig_values (v : N) (r s : Z) : bool :=
  if ((r <? 1) || (s <? 1))%Z then false
  else if (s >? secp_half_n)%Z then false
  else ((r <? secp_n) && (s <? secp_n))%Z && ((v =? 0) || (v =? 1)).

(* recoverPlain: Vb.BitLen() > 8 (BitLen is of the absolute value) *)
Definition bitlen_gt8 (vb : Z) : bool := (Z.abs vb >=? 256)%Z.
(* V := byte(Vb.Uint64() - 27): Uint64 is the low 64 bits of |Vb| (= |Vb| here since
   |Vb| < 256), the subtraction wraps modulo 2^64 and byte() keeps the low 8 bits;
   256 divides 2^64, so this is (|Vb| - 27) mod 256 *)
Definition v_byte (vb : Z) : N := Z.to_N ((Z.abs vb - 27) mod 256)%Z.

Inductive res (A : Type) :=
| ROk (a : A)
| RErrChain          (* types.ErrInvalidChainId *)
| RErrSig            (* types.ErrInvalidSig *)
| RErrRecover.       (* crypto.Ecrecover failed / invalid public key *)
Arguments ROk {A} a.
Arguments RErrChain {A}.
Arguments RErrSig {A}.
Arguments RErrRecover {A}.

(* ================= (c) payloads ================= *)

(* common.Hash.ProtoEncode: ProtoHash{value} (implicit presence) *)
Definition enc_hash (h : bytes) : bytes := encode_msg (opt_bytes_field 1 h).

(* AccessTuple: address (implicit presence) + repeated storage keys *)
Definition access_tuple := (bytes * list bytes)%type.
Definition enc_tuple (t : access_tuple) : bytes :=
  encode_msg (opt_bytes_field 1 (fst t) ++ map (fun k => (2, VBytes (enc_hash k))) (snd t)).
Definition enc_al (al : list access_tuple) : bytes :=
  encode_msg (map (fun t => (1, VBytes (enc_tuple t))) al).

(* the signed fields of a Quai transaction (type is the constant QuaiTxType) *)
Record sfields := mkS {
  s_chain : N; s_nonce : N; s_gasprice : N; s_gas : N;
  s_to : option bytes; s_value : N; s_data : bytes; s_al : list access_tuple
}.

(* ProtoEncodeTxSigningData, case QuaiTxType, in field-number order (proto.Marshal) *)
Definition signing_msg (f : sfields) : list field :=
  (1, VInt C03Params.quai_tx_type)
  :: opt_field 2 (option_map VBytes (s_to f))
  ++ [ (3, VInt (s_nonce f)); (4, VBytes (be_bytes (s_value f))); (5, VInt (s_gas f));
       (6, VBytes (s_data f)); (7, VBytes (be_bytes (s_chain f)));
       (8, VBytes (be_bytes (s_gasprice f))); (9, VBytes (enc_al (s_al f))) ].
Definition signing_bytes (f : sfields) : bytes := encode_msg (signing_msg f).

(* a Quai transaction: signed fields, signature values (big.Int, any sign), work fields *)
Record qtx := mkQ {
  q_f : sfields;
  q_v : Z; q_r : Z; q_s : Z;
  q_parent : option bytes; q_mix : option bytes; q_wnonce : option N
}.
Definition q_chain (t : qtx) : N := s_chain (q_f t).

(* Transaction.ProtoEncode, case QuaiTxType: what tx.Hash() hashes (big.Int.Bytes drops the sign) *)
Definition full_msg (t : qtx) : list field :=
  signing_msg (q_f t)
  ++ [ (10, VBytes (be_bytes (Z.abs_N (q_v t)))); (11, VBytes (be_bytes (Z.abs_N (q_r t))));
       (12, VBytes (be_bytes (Z.abs_N (q_s t)))) ]
  ++ opt_field 19 (option_map (fun h => VBytes (enc_hash h)) (q_parent t))
  ++ opt_field 20 (option_map (fun h => VBytes (enc_hash h)) (q_mix t))
  ++ opt_field 21 (option_map VInt (q_wnonce t)).
Definition full_bytes (t : qtx) : bytes := encode_msg (full_msg t).

(* Qi: inputs (outpoint hash, index, compressed public key), outputs (denomination, address, lock) *)
Definition qi_in := (bytes * N * bytes)%type.
Definition qi_out := (N * option bytes * N)%type.
Record qfields := mkQi { qi_chain : N; qi_ins : list qi_in; qi_outs : list qi_out; qi_data : bytes }.

Definition enc_outpoint (h : bytes) (idx : N) : bytes :=
  encode_msg [ (1, VBytes (enc_hash h)); (2, VInt idx) ].
Definition enc_in (i : qi_in) : bytes :=
  let '(h, idx, pk) := i in encode_msg [ (1, VBytes (enc_outpoint h idx)); (2, VBytes pk) ].
Definition enc_ins (l : list qi_in) : bytes := encode_msg (map (fun i => (1, VBytes (enc_in i))) l).
Definition enc_out (o : qi_out) : bytes :=
  let '(den, a, lock) := o in
  encode_msg ((1, VInt den) :: opt_field 2 (option_map VBytes a) ++ [ (3, VBytes (be_bytes lock)) ]).
Definition enc_outs (l : list qi_out) : bytes := encode_msg (map (fun o => (1, VBytes (enc_out o))) l).

(* ProtoEncodeTxSigningData, case QiTxType *)
Definition qi_signing_msg (f : qfields) : list field :=
  [ (1, VInt C03Params.qi_tx_type); (6, VBytes (qi_data f)); (7, VBytes (be_bytes (qi_chain f)));
    (15, VBytes (enc_ins (qi_ins f))); (16, VBytes (enc_outs (qi_outs f))) ].
Definition qi_signing_bytes (f : qfields) : bytes := encode_msg (qi_signing_msg f).

(* the reviewed list: which ProtoTransaction fields the model signs / encodes, and the schema
   entries the encodings above rely on (message id, number, wire type, presence) *)
Definition model_signed_quai : list N := [1; 3; 4; 5; 6; 7; 8; 9].
Definition model_signed_quai_conditional : list N := [2].
Definition model_signed_qi : list N := [1; 6; 7; 15; 16].
Definition model_unsigned_quai : list N := [10; 11; 12; 19; 20; 21].   (* V R S, work fields *)
Definition model_unsigned_qi : list N := [17; 19; 20; 21].            (* Schnorr signature, work fields *)
Definition model_schema : list (N * N * N * N) := [
  (0,1,0,1); (0,2,2,1); (0,3,0,1); (0,4,2,1); (0,5,0,1); (0,6,2,1); (0,7,2,1); (0,8,2,1); (0,9,2,1);
  (0,10,2,1); (0,11,2,1); (0,12,2,1); (0,15,2,1); (0,16,2,1); (0,19,2,1); (0,20,2,1); (0,21,0,1);
  (1,1,2,2); (2,1,2,0); (2,2,2,2); (3,1,2,0);
  (4,1,2,2); (5,1,2,1); (5,2,2,1); (6,1,2,1); (6,2,0,1); (7,1,2,2); (8,1,0,1); (8,2,2,1); (8,3,2,1) ].

Definition list_eqb (a b : list N) : bool := bytes_eqb a b.
Definition quad_eqb (a b : N * N * N * N) : bool :=
  let '(a1, a2, a3, a4) := a in let '(b1, b2, b3, b4) := b in
  (a1 =? b1) && (a2 =? b2) && (a3 =? b3) && (a4 =? b4).
Definition mem_N (x : N) (l : list N) : bool := existsb (N.eqb x) l.
Definition subset_N (a b : list N) : bool := forallb (fun x => mem_N x b) a.

(* obligations on the generated data (discharged by vm_compute in Props) *)
Definition half_n_is_half : bool :=
  (C03Params.secp_half_n =? C03Params.secp_n / 2) && (2 <? C03Params.secp_n)
  && (C03Params.secp_n <? 2 ^ 256) && (2 ^ 255 <? C03Params.secp_n).
Definition schema_matches : bool :=
  forallb (fun e => existsb (quad_eqb e) C03Params.schema) model_schema
  && (C03Params.quai_tx_type =? 0) && (C03Params.qi_tx_type =? 2).
(* every field ProtoEncode puts on the wire for a type is either signed or one of the
   reviewed exclusions (signature values and work fields); the signed sets are exactly the
   ones the model encodes; an external transaction signs nothing *)
Definition signing_covers_all_fields : bool :=
  list_eqb C03Params.signed_quai model_signed_quai
  && list_eqb C03Params.signed_quai_conditional model_signed_quai_conditional
  && list_eqb C03Params.signed_qi model_signed_qi
  && list_eqb C03Params.signed_qi_conditional []
  && list_eqb C03Params.signed_external [] && list_eqb C03Params.signed_external_conditional []
  && subset_N (C03Params.encoded_quai ++ C03Params.encoded_quai_conditional)
              (model_signed_quai ++ model_signed_quai_conditional ++ model_unsigned_quai)
  && subset_N (C03Params.encoded_qi ++ C03Params.encoded_qi_conditional)
              (model_signed_qi ++ model_unsigned_qi)
  && subset_N model_unsigned_quai (C03Params.encoded_quai ++ C03Params.encoded_quai_conditional)
  && subset_N [17] C03Params.encoded_qi.

(* ================= (b) sender and its cache ================= *)

Section Sender.
  Variables hash pub addr : Type.
  Variable H : bytes -> hash.                              (* keccak256 *)
  Variable ecrecover : hash -> Z -> Z -> N -> option pub.  (* hash r s v; None = error or not an uncompressed key *)
  Variable addr_of_pub : pub -> addr.                      (* keccak256(pub[1:])[12:] *)

  (* transaction_signing.go:recoverPlain(sighash, R, S, Vb) *)
  Definition recover_plain (h : hash) (r s vb : Z) : res addr :=
    if bitlen_gt8 vb then RErrSig
    else
      let v := v_byte vb in
      if negb (validate_sig_values v r s) then RErrSig
      else match ecrecover h r s v with
           | None => RErrRecover
           | Some p => ROk (addr_of_pub p)
           end.

  (* SignerV1.Sender for a signer with chain ID sg: V+27, chain-ID check, recoverPlain(s.Hash(tx)) *)
  Definition signer_sender (sg : N) (t : qtx) : res addr :=
    if negb (q_chain t =? sg) then RErrChain
    else recover_plain (H (signing_bytes (q_f t))) (q_r t) (q_s t) (q_v t + 27)%Z.

  (* types.Sender: sigCache{signer, from}; Signer.Equal compares chain IDs only *)
  Definition cache := option (N * addr).
  Definition sender_cached (c : cache) (sg : N) (t : qtx) : cache * res addr :=
    let fresh := match signer_sender sg t with
                 | ROk a => (Some (sg, a), ROk a)
                 | e => (c, e)
                 end in
    match c with
    | Some (cc, a) => if cc =? sg then (c, ROk a) else fresh
    | None => fresh
    end.

  (* operations on one *Transaction object: Sender(signer{chain, location}, tx), and tx.Hash()
     which on its first call runs Sender(NewSigner(tx.ChainId(), {0,0}), tx) and memoises *)
  Inductive cop := OSender (chain loc : N) | OHash.
  Inductive cout := CRes (r : res addr) | CNone.
  Definition cstate := (cache * bool)%type.    (* sigCache, hash memoised *)

  Definition cstep (t : qtx) (st : cstate) (o : cop) : cstate * cout :=
    match o with
    | OSender chain _ => let '(c', r) := sender_cached (fst st) chain t in ((c', snd st), CRes r)
    | OHash => if snd st then (st, CNone)
               else let '(c', _) := sender_cached (fst st) (q_chain t) t in ((c', true), CNone)
    end.

  Fixpoint crun (t : qtx) (st : cstate) (ops : list cop) : list cout :=
    match ops with
    | [] => []
    | o :: ops' => let '(st', r) := cstep t st o in r :: crun t st' ops'
    end.
  Definition crun_state (t : qtx) (st : cstate) (ops : list cop) : cstate :=
    fold_left (fun s o => fst (cstep t s o)) ops st.

  (* the same operations without any cache *)
  Definition uncached (t : qtx) (o : cop) : cout :=
    match o with OSender chain _ => CRes (signer_sender chain t) | OHash => CNone end.
End Sender.
Arguments CRes {addr} r.
Arguments CNone {addr}.

(* ================= (d) Qi authorisation ================= *)

Section Qi.
  Variables hash pub addr sig : Type.
  Variable H : bytes -> hash.
  Variable addr_of_pub : pub -> addr.             (* crypto.PubkeyBytesToAddress *)
  Variable addr_eqb : addr -> addr -> bool.
  Variable in_qi_scope : addr -> bool.            (* Address.IsInQiLedgerScope *)
  Variable parse_ok : pub -> bool.                (* btcec.ParsePubKey succeeds *)
  Variable agg : list pub -> option pub.          (* musig2.AggregateKeys(...).FinalKey *)
  Variable verify : pub -> hash -> sig -> bool.   (* schnorr.Signature.Verify *)

  Inductive qverdict := QOk | QNoInputs | QChain | QMissing | QScope | QOwner | QParse | QSig.

  (* ProcessQiTx input loop: one (public key, consumed entry's address or None) per input *)
  Fixpoint own_loop (check_sig : bool) (ins : list (pub * option addr)) : qverdict :=
    match ins with
    | [] => QOk
    | (pk, e) :: rest =>
        match e with
        | None => QMissing
        | Some ea =>
            let a := addr_of_pub pk in
            if negb (in_qi_scope a) then QScope
            else if negb (addr_eqb a ea) then QOwner
            else if check_sig && negb (parse_ok pk) then QParse
            else own_loop check_sig rest
        end
    end.

  Definition final_key (keys : list pub) : option pub :=
    match keys with
    | [k] => Some k
    | _ => agg keys
    end.

  (* authorisation part of ProcessQiTx: sanity checks, input loop, signature *)
  Definition qi_authorised (chain : N) (check_sig : bool) (f : qfields)
             (ins : list (pub * option addr)) (sg : sig) : qverdict :=
    match ins with
    | [] => QNoInputs
    | _ =>
      if negb (qi_chain f =? chain) then QChain
      else match own_loop check_sig ins with
           | QOk =>
               if check_sig then
                 match final_key (map fst ins) with
                 | None => QSig
                 | Some k => if verify k (H (qi_signing_bytes f)) sg then QOk else QSig
                 end
               else QOk
           | e => e
           end
    end.

  (* the part of the verdict that checkSig = false skips: every carried key parses and the final key of
     exactly the carried keys verifies the signature over this payload.  It depends on the transaction
     alone (not on the UTXO set): this is what an entry of the pool's senders cache stands for *)
  Definition qi_sig_ok (f : qfields) (keys : list pub) (sg : sig) : bool :=
    forallb parse_ok keys &&
    match final_key keys with
    | None => false
    | Some k => verify k (H (qi_signing_bytes f)) sg
    end.

  (* the same with the lookup made explicit: input i names an outpoint and carries a key; the
     entry it is compared with is the one found under ITS OWN outpoint
     (rawdb.GetUTXOWithBatch(db, batch, txIn.PreviousOutPoint...) inside the loop body), for every
     input, whether or not an earlier input carried the same key / consumed an entry of the same
     owner / of the same previous transaction *)
  Variable outpoint : Type.
  Definition qi_lookup (utxo : outpoint -> option addr) (oins : list (outpoint * pub))
    : list (pub * option addr) :=
    map (fun i => (snd i, utxo (fst i))) oins.
  Definition qi_process (utxo : outpoint -> option addr) (chain : N) (check_sig : bool) (f : qfields)
             (oins : list (outpoint * pub)) (sg : sig) : qverdict :=
    qi_authorised chain check_sig f (qi_lookup utxo oins) sg.
End Qi.

(* ================= (e) the pool's senders cache and block processing ================= *)

(* core/tx_pool.go: the Qi side of TxPool.  A transaction is named by its index in the case's universe:
   every table below is keyed by tx.Hash() (qiTxFees by its first 16 bytes), which covers all signed
   fields and the signature (Props: pool_cache_key_binds_signature, signing_covers_all_payload_fields).
   senders is written only by sendersGoroutine from sendersCh, qiTxFees only by feesGoroutine from
   feesCh; the model is taken at rest (both channels drained), which is what the harness observes. *)
Section QiPool.
  Variable pool_valid : N -> bool.          (* addQiTxs: outputs to active chains, ValidateQiTxInputs, ValidateQiTxOutputsAndSignature *)
  Variable reinject_valid : N -> bool.      (* addQiTxsWithoutValidationLocked on a fee-cache miss: the two Validate functions only *)
  Variable proc_ok : N -> bool -> bool.     (* ProcessQiTx tx checkSig *)

  Record pstate := mkP { p_qp : list N;      (* qiPool *)
                         p_fees : list N;    (* qiTxFees *)
                         p_cache : list N }. (* senders: for a Qi tx "signature already verified" *)
  Definition p_empty : pstate := mkP [] [] [].
  Definition pmem (i : N) (l : list N) : bool := existsb (N.eqb i) l.
  Definition prem (i : N) (l : list N) : list N := filter (fun j => negb (N.eqb i j)) l.

  Inductive pop :=
  | PAdd (l : list N)      (* AddRemotes / AddLocals -> addTxs -> addQiTxs *)
  | PProc (l : list N)     (* StateProcessor.Process on a block holding the transaction *)
  | PRemove (l : list N)   (* RemoveQiTxs *)
  | PReorg (l : list N).   (* a block with l becomes the head, then a sibling without l: reset re-injects l *)

  (* addTxs: a transaction already in qiPool (as of before the batch) is ErrAlreadyKnown; addQiTxs:
     a transaction that fails validation is answered with its error and NOTHING is recorded; a valid one
     enters qiPool and its hash is sent to sendersCh and feesCh.  Verdicts: 0 taken, 1 known, 2 refused *)
  Definition padd_one (qp0 : list N) (acc : pstate * list N) (i : N) : pstate * list N :=
    let '(st, res) := acc in
    if pmem i qp0 then (st, res ++ [1])
    else if pool_valid i then (mkP (i :: p_qp st) (i :: p_fees st) (i :: p_cache st), res ++ [0])
    else (st, res ++ [2]).

  (* reset -> addQiTxsWithoutValidationLocked: in qiPool: skipped; fee cached (it was validated before):
     re-entered WITHOUT validation and its hash sent to sendersCh; otherwise validated (inputs, outputs,
     signature - but not the active-chain test of addQiTxs) *)
  Definition preinject_one (st : pstate) (i : N) : pstate :=
    if pmem i (p_qp st) then st
    else if pmem i (p_fees st) then mkP (i :: p_qp st) (p_fees st) (i :: p_cache st)
    else if reinject_valid i then mkP (i :: p_qp st) (i :: p_fees st) (i :: p_cache st)
    else st.

  Definition b2n (b : bool) : N := if b then 1 else 0.

  Definition premove_all (l : list N) (st : pstate) : pstate :=
    mkP (fold_left (fun q i => prem i q) l (p_qp st)) (p_fees st) (p_cache st).

  (* Process: senders[tx.Hash()] present (PeekSenderNoLock under SendersMu) => checkSig = false *)
  Definition pstep (st : pstate) (op : pop) : pstate * list N :=
    match op with
    | PAdd l => fold_left (padd_one (p_qp st)) l (st, [])
    | PProc l => (st, flat_map (fun i => let c := pmem i (p_cache st) in [b2n c; b2n (proc_ok i (negb c))]) l)
    | PRemove l => (premove_all l st, [])
    | PReorg l => (fold_left preinject_one l (premove_all l st), [])
    end.

  Fixpoint prun (st : pstate) (ops : list pop) : list (list N * pstate) :=
    match ops with
    | [] => []
    | op :: r => let '(st', res) := pstep st op in (res, st') :: prun st' r
    end.

  Definition pfinal (st : pstate) (ops : list pop) : pstate :=
    fold_left (fun s op => fst (pstep s op)) ops st.
End QiPool.

(* ================= correspondence cases ================= *)

(* observed classes of a Sender call on the real code *)
Inductive oclass := OOk (a : bytes) | OErrChain | OErrSig | OErrOther.

Definition class_eqb (m : res bytes) (o : oclass) : bool :=
  match m, o with
  | ROk a, OOk b => bytes_eqb a b
  | RErrChain, OErrChain => true
  | RErrSig, OErrSig => true
  | RErrRecover, OErrOther => true
  | _, _ => false
  end.

(* executable instance: the abstract primitives return what the harness observed on a
   fresh object with the right chain (rec = Some address / None = recovery failed) *)
Definition x_sender (rec : option bytes) :=
  signer_sender bytes bytes bytes (fun b => b) (fun _ _ _ _ => rec) (fun p => p).
Definition x_crun (rec : option bytes) :=
  crun bytes bytes bytes (fun b => b) (fun _ _ _ _ => rec) (fun p => p).

Definition cobs := option oclass.      (* None for OHash *)
Definition cout_eqb (m : cout bytes) (o : cobs) : bool :=
  match m, o with
  | CRes r, Some c => class_eqb r c
  | CNone, None => true
  | _, _ => false
  end.
Fixpoint couts_eqb (m : list (cout bytes)) (o : list cobs) : bool :=
  match m, o with
  | [], [] => true
  | x :: m', y :: o' => cout_eqb x y && couts_eqb m' o'
  | _, _ => false
  end.

(* Qi instance: a "public key" is (derived address, in Qi scope, parses); an address carries its
   scope flag (read only on derived addresses); the aggregate key and the verification verdict
   are the harness's independent computation (agg_ok, sigbit) *)
Definition xpub := (bytes * bool * bool)%type.
Definition xaddr := (bytes * bool)%type.
Definition x_qi (chain : N) (check_sig : bool) (f : qfields) (ins : list (xpub * option xaddr))
           (agg_ok sigbit : bool) : qverdict :=
  qi_authorised bytes xpub xaddr unit (fun b => b)
    (fun p => fst p) (fun a b => bytes_eqb (fst a) (fst b)) (fun a => snd a)
    (fun p => snd p) (fun _ => if agg_ok then Some ([], true, true) else None)
    (fun _ _ _ => sigbit) chain check_sig f ins tt.

Inductive case :=
| CValidate (id : N) (v : N) (r s : Z) (obs : bool)                         (* crypto.ValidateSignatureValues *)
| CRecover (id : N) (t : qtx) (sg : N) (rec : option bytes) (obs : oclass)  (* SignerV1.Sender on a fresh object *)
| CSignBytes (id : N) (f : sfields) (obs : bytes)                           (* proto.Marshal(ProtoEncodeTxSigningData) *)
| CFullBytes (id : N) (t : qtx) (obs : bytes)                               (* proto.Marshal(ProtoEncode) *)
| CQiSignBytes (id : N) (f : qfields) (obs : bytes)
| CCache (id : N) (t : qtx) (rec : option bytes) (h : list (cop * cobs))    (* history on one object *)
| CQi (id : N) (chain : N) (check_sig : bool) (f : qfields)
      (ins : list (bytes * bool * bool * option bytes)) (agg_ok sigbit rest_ok : bool) (obs_accept : bool)
(* a history on one real TxPool: universe (per tx: fields, inputs, agg_ok, sigbit, rest_ok, active_ok), then per
   operation the observed verdicts and the membership of every universe tx in senders / qiPool / qiTxFees *)
| CPool (id : N) (chain : N) (txs : list (qfields * list (bytes * bool * bool * option bytes) * bool * bool * bool * bool))
        (h : list (pop * (list N * list bool * list bool * list bool))).

Definition qi_ins_of (l : list (bytes * bool * bool * option bytes)) : list (xpub * option xaddr) :=
  map (fun x => let '(a, scope, parses, e) := x in
                ((a, scope, parses), option_map (fun b => (b, true)) e)) l.

(* verdict of the Qi checks on universe transaction i with the given checkSig *)
Definition x_pool_ok (chain : N) (txs : list (qfields * list (bytes * bool * bool * option bytes) * bool * bool * bool * bool))
           (cs : bool) (i : N) : bool :=
  match nth_error txs (N.to_nat i) with
  | Some (f, ins, agg_ok, sigbit, rest_ok, _) =>
      match x_qi chain cs f (qi_ins_of ins) agg_ok sigbit with QOk => rest_ok | _ => false end
  | None => false
  end.
(* addQiTxs refuses a transaction with an output to an inactive chain before anything else *)
Definition x_pool_active (txs : list (qfields * list (bytes * bool * bool * option bytes) * bool * bool * bool * bool)) (i : N) : bool :=
  match nth_error txs (N.to_nat i) with
  | Some (_, _, _, _, _, active_ok) => active_ok
  | None => false
  end.
Definition pvec (n : nat) (l : list N) : list bool := map (fun k => pmem (N.of_nat k) l) (seq 0 n).
Fixpoint bools_eqb (a b : list bool) : bool :=
  match a, b with
  | [], [] => true
  | x :: a', y :: b' => Bool.eqb x y && bools_eqb a' b'
  | _, _ => false
  end.
Fixpoint pobs_eqb (n : nat) (m : list (list N * pstate)) (o : list (list N * list bool * list bool * list bool)) : bool :=
  match m, o with
  | [], [] => true
  | (res, st) :: m', (ores, oc, oq, ofe) :: o' =>
      bytes_eqb res ores && bools_eqb (pvec n (p_cache st)) oc && bools_eqb (pvec n (p_qp st)) oq
      && bools_eqb (pvec n (p_fees st)) ofe && pobs_eqb n m' o'
  | _, _ => false
  end.

Definition case_id (c : case) : N :=
  match c with
  | CValidate id _ _ _ _ | CRecover id _ _ _ _ | CSignBytes id _ _ | CFullBytes id _ _
  | CQiSignBytes id _ _ | CCache id _ _ _ | CQi id _ _ _ _ _ _ _ _ | CPool id _ _ _ => id
  end.

Definition case_ok (c : case) : bool :=
  match c with
  | CValidate _ v r s obs => Bool.eqb (validate_sig_values v r s) obs
  | CRecover _ t sg rec obs => class_eqb (x_sender rec sg t) obs
  | CSignBytes _ f obs => bytes_eqb (signing_bytes f) obs
  | CFullBytes _ t obs => bytes_eqb (full_bytes t) obs
  | CQiSignBytes _ f obs => bytes_eqb (qi_signing_bytes f) obs
  | CCache _ t rec h => couts_eqb (x_crun rec t (None, false) (map fst h)) (map snd h)
  | CQi _ chain cs f ins agg_ok sigbit rest_ok obs =>
      Bool.eqb (match x_qi chain cs f (qi_ins_of ins) agg_ok sigbit with QOk => rest_ok | _ => false end) obs
  | CPool _ chain txs h =>
      pobs_eqb (length txs)
        (prun (fun i => x_pool_active txs i && x_pool_ok chain txs true i) (x_pool_ok chain txs true)
              (fun i cs => x_pool_ok chain txs cs i) p_empty (map fst h)) (map snd h)
  end.

Definition mismatches (cs : list case) : list N :=
  map case_id (filter (fun c => negb (case_ok c)) cs).

(* C15 (B) — interpreter memory is metered.
   Executable model of the gas/memory accounting of ONE interpreter step
   (core/vm/interpreter.go Run, the part between fetching the opcode and calling
   operation.execute), of core/vm/gas_table.go memoryGasCost and of
   core/vm/memory.go Resize.  The only facts known about an opcode are its generated
   jump-table row (Generated/C15JumpTable.v, Lib/C15_Row.v); everything an opcode
   computes besides the memory fee (copy/hash/log/call gas ...) is an INPUT of the
   step ([a_other]) and therefore universally quantified in the theorems.
   Definitions only; lemmas in Proofs/C15.v. *)
From Coq Require Import List NArith Bool String.
From GQ Require Import Lib.C15_Row Lib.C15_Wire Lib.C15_Window Generated.C15JumpTable Generated.C15Decoders.
Import ListNotations.
Local Open Scope N_scope.

Definition U64 : N := 18446744073709551616.          (* 2^64 *)
Definition MAXMEM : N := 137438953440.                (* 0x1FFFFFFFE0, gas_table.go memoryGasCost *)

(* total fee for w words: params.MemoryGas*w + w*w/params.QuadCoeffDiv  (= 3w + w^2/512) *)
Definition mem_gas (w : N) : N := 3 * w + (w * w) / 512.

(* common.go toWordSize, for size < 2^64: (size+31)/32; the special case size > MaxUint64-31
   returns MaxUint64/32+1 = 2^59, which is what (size+31)/32 gives over unbounded N *)
Definition to_words (b : N) : N := (b + 31) / 32.

(* frame state: contract.Gas, len(Memory.store) in bytes, Memory.lastGasCost *)
Record mstate := mkM { m_gas : N; m_mem : N; m_last : N }.

Inductive verdict :=
| VOk            (* charge phase passed; memory resized; operation.execute is called next *)
| VInvalid       (* ErrInvalidOpCode: nil row, or gated opcode before the fork *)
| VUnderflow     (* ErrStackUnderflow *)
| VStackOverflow (* ErrStackOverflow *)
| VOutOfGas      (* ErrOutOfGas: constant gas, dynamic gas, or ANY error of the dynamicGas function *)
| VGasOverflow.  (* ErrGasUintOverflow: memorySize overflowed, or rounded size >= 2^64 *)

Definition verdict_eqb (a b : verdict) : bool :=
  match a, b with
  | VOk, VOk | VInvalid, VInvalid | VUnderflow, VUnderflow | VStackOverflow, VStackOverflow
  | VOutOfGas, VOutOfGas | VGasOverflow, VGasOverflow => true
  | _, _ => false
  end.

(* what the rest of the machine contributes to one step *)
Record args := mkA {
  a_stack : N;          (* stack.len() *)
  a_cgas  : N;          (* operation.constantGas(evm, contract) *)
  a_req   : option N;   (* operation.memorySize(stack): Some size | None = overflow flag set; ignored when the row has no memorySize *)
  a_other : option N    (* the part of operation.dynamicGas that is not the memory fee: Some gas | None = it fails; ignored when the row has no dynamicGas *)
}.

(* interpreter.go Run: "if operation.memorySize != nil { memSize, overflow := ...; memorySize, overflow = SafeMul(toWordSize(memSize), 32) }" *)
Definition mem_size_of (r : row) (req : option N) : option N :=
  if r_has_mem r then
    match req with
    | None => None
    | Some m => let ms := to_words m * 32 in if U64 <=? ms then None else Some ms
    end
  else Some 0.

(* gas_table.go memoryGasCost(mem, newMemSize): (fee, new lastGasCost) or None = ErrGasUintOverflow.
   The subtraction is the Go uint64 one (wraps). *)
Definition memory_gas_cost (s : mstate) (ms : N) : option (N * N) :=
  if ms =? 0 then Some (0, m_last s)
  else if MAXMEM <? ms then None
  else
    let w := to_words ms in
    if m_mem s <? w * 32 then
      let total := mem_gas w in
      Some ((total + U64 - m_last s) mod U64, total)
    else Some (0, m_last s).

(* the row's dynamicGas as a whole: memory fee (iff the row charges it) + the rest, SafeAdd *)
Definition dyn_gas (r : row) (a : args) (s : mstate) (ms : N) : option (N * N) :=
  match a_other a with
  | None => None
  | Some o =>
    if r_charges r then
      match memory_gas_cost s ms with
      | None => None
      | Some (fee, l') => if U64 <=? fee + o then None else Some (fee + o, l')
      end
    else Some (o, m_last s)
  end.

(* memory.go Resize: grows only *)
Definition resize (mem ms : N) : N := if 0 <? ms then N.max mem ms else mem.

(* One step of interpreter.go Run up to (not including) operation.execute, in source order. *)
Definition step (T : table) (op : N) (a : args) (s : mstate) : verdict * mstate :=
  match lookup T op with
  | None => (VInvalid, s)
  | Some r =>
    if a_stack a <? r_min r then (VUnderflow, s)
    else if r_max r <? a_stack a then (VStackOverflow, s)
    else if m_gas s <? a_cgas a then (VOutOfGas, s)                          (* !contract.UseGas(staticCost) *)
    else
      let s1 := mkM (m_gas s - a_cgas a) (m_mem s) (m_last s) in
      match mem_size_of r (a_req a) with
      | None => (VGasOverflow, s1)
      | Some ms =>
        match (if r_has_dyn r then dyn_gas r a s1 ms else Some (0, m_last s1)) with
        | None => (VOutOfGas, s1)                                            (* err != nil *)
        | Some (d, l') =>
          if m_gas s1 <? d then (VOutOfGas, mkM (m_gas s1) (m_mem s1) l')   (* !contract.UseGas(dynamicCost) *)
          else (VOk, mkM (m_gas s1 - d) (resize (m_mem s1) ms) l')           (* mem.Resize(memorySize) *)
        end
      end
  end.

Definition init (G : N) : mstate := mkM G 0 0.

(* A program, as far as accounting is concerned: the sequence of (opcode, contributions of
   the rest of the machine).  Execution stops at the first step that is not VOk. *)
Definition prog := list (N * args).
Fixpoint run (T : table) (p : prog) (s : mstate) : verdict * mstate :=
  match p with
  | [] => (VOk, s)
  | (op, a) :: p' =>
    match step T op a s with
    | (VOk, s') => run T p' s'
    | vs => vs
    end
  end.

Definition words_of (s : mstate) : N := m_mem s / 32.

(* ---- a table is metered when every row that can grow memory charges for it ---- *)
Definition row_metered (r : row) : bool := implb (r_has_mem r) (r_has_dyn r && r_charges r).
Definition jumptable_metered (T : table) : bool := forallb row_metered T.
(* ... up to a list of excepted opcodes (recorded findings) *)
Definition jumptable_metered_except (ex : list N) (T : table) : bool :=
  forallb (fun r => row_metered r || existsb (N.eqb (r_op r)) ex) T.
Definition unmetered_ops (T : table) : list N := map r_op (filter (fun r => negb (row_metered r)) T).
Definition jumptable_safe (T : table) : bool := forallb r_safe T.
(* every row that charges has a dynamicGas function and a memorySize function (sanity of the probe data) *)
Definition jumptable_wf (T : table) : bool :=
  forallb (fun r => implb (r_charges r) (r_has_dyn r && r_has_mem r)) T.

(* ---- call frames: every frame has its own memory; a call hands gas to a fresh frame ---- *)
Inductive fop :=
| FStep (op : N) (a : args)                  (* a step of the top frame *)
| FCall (op : N) (a : args) (g1 g2 : N)      (* a step of the top frame that opens a child frame with gas g1+g2:
                                                g1 taken from the step's dynamic gas (CALL family: callGasTemp, stipend),
                                                g2 deducted from the caller's remaining gas by execute (CREATE family) *)
| FRet (refund : N).                         (* the top frame ends; refund <= its remaining gas goes back to the caller *)

Definition fstep (T : table) (f : fop) (fs : list mstate) : option (list mstate) :=
  match f, fs with
  | FStep op a, s :: rest =>
      match step T op a s with (VOk, s') => Some (s' :: rest) | _ => None end
  | FCall op a g1 g2, s :: rest =>
      match lookup T op with
      | None => None
      | Some r =>
        match step T op a s with
        | (VOk, s') =>
          match a_other a with
          | Some o =>
            (* g1 comes out of gas the row's dynamicGas really charged *)
            if r_has_dyn r && (g1 <=? o) && (g2 <=? m_gas s')
            then Some (mkM (g1 + g2) 0 0 :: mkM (m_gas s' - g2) (m_mem s') (m_last s') :: rest)
            else None
          | None => None
          end
        | _ => None
        end
      end
  | FRet refund, c :: p :: rest =>
      if refund <=? m_gas c then Some (mkM (m_gas p + refund) (m_mem p) (m_last p) :: rest) else None
  | _, _ => None
  end.

Fixpoint frun (T : table) (fp : list fop) (fs : list mstate) : option (list mstate) :=
  match fp with
  | [] => Some fs
  | f :: fp' => match fstep T f fs with Some fs' => frun T fp' fs' | None => None end
  end.

Definition sumN (l : list N) : N := fold_right N.add 0 l.
Definition total_gas (fs : list mstate) : N := sumN (map m_gas fs).
Definition total_mem_gas (fs : list mstate) : N := sumN (map (fun s => mem_gas (words_of s)) fs).
Definition total_words (fs : list mstate) : N := sumN (map words_of fs).

(* ---- correspondence check ----
   one observed charge phase of the real interpreter (harness/cmd/c15, through a vm.Tracer):
   fork (0 = before MaxCodeSizeForkHeight, 1 = after), opcode, the step's inputs and the frame
   state before; observed: verdict class, gas / memory length / lastGasCost after. *)
Inductive case :=
| mkCase (c_id c_fork c_op : N) (c_args : args) (c_pre : mstate)
         (c_verdict : N)       (* 0 ok 1 invalid 2 underflow 3 stack overflow 4 out of gas 5 gas uint overflow *)
         (c_post : mstate)
(* (A) one call of the real coinbase parsers: input bytes; observed
   ExtractScriptSigFromCoinbaseTx (None = nil) and ExtractSealHashFromCoinbase of it (None = error) *)
| mkWire (w_id : N) (w_tx : list N) (w_sig w_seal : option (list N))
(* one RETURNDATACOPY of the interpreter totality sweep (Lib/C15_Window.v win_ok): memOffset, dataOffset, length,
   len(returnData); observed 0 = copied, 1 = ErrReturnDataOutOfBounds, 2 = refused by the charge phase *)
| mkWin (n_id n_mem n_off n_len n_ret n_obs : N)
(* (A) the decoder inventory of one run: the decode entry points ("<package dir>.<Type>.<Method>") exercised by an
   entry of the sweep whose valid fixture decoded to the end, and the harness' list of deliberately unswept ones *)
| mkInv (v_id : N) (v_swept v_exempt : list string).

Definition case_id (c : case) : N :=
  match c with mkCase i _ _ _ _ _ _ => i | mkWire i _ _ _ => i | mkWin i _ _ _ _ _ => i | mkInv i _ _ => i end.

Definition verdict_code (v : verdict) : N :=
  match v with VOk => 0 | VInvalid => 1 | VUnderflow => 2 | VStackOverflow => 3 | VOutOfGas => 4 | VGasOverflow => 5 end.

Definition table_of_fork (f : N) : table := if f =? 0 then table_prefork else table_postfork.

Definition mstate_eqb (a b : mstate) : bool :=
  (m_gas a =? m_gas b) && (m_mem a =? m_mem b) && (m_last a =? m_last b).

Definition wire_seal (tx : list N) : option (list N) :=
  match extract_script_sig tx with Some s => extract_seal_hash s | None => None end.

(* ---- (A) decoder inventory ----
   Generated/C15Decoders.v `decoders` = every method ProtoDecode / UnmarshalJSON / UnmarshalText / DecodeRLP /
   UnmarshalBinary / Deserialize defined in the source tree (syntactic scan on every run).  Out of scope, with the
   reason (same list as harness/cmd/c15/dec/covers.go Exempt; the mkInv case compares them): *)
Definition decoders_exempt : list string :=
  [ "core.Genesis.UnmarshalJSON"                          (* operator-supplied genesis file, configuration *)
  ; "core.storageJSON.UnmarshalText"                      (* part of the genesis file decoder *)
  ; "core/rawdb.LegacyTxLookupEntry.ProtoDecode"          (* no caller in the tree *)
  ; "core/types.AuxPowTx.Deserialize"                     (* no AuxPowTxData implementation, no caller *)
  ; "core/vm.StructLog.UnmarshalJSON"                     (* tracer output type *)
  ; "crypto/blake2b.digest.UnmarshalBinary"               (* hash state of the vendored blake2b, no caller *)
  ; "p2p/node/peerManager/peerdb.AddrInfo.ProtoDecode"    (* peer database records: package not linkable from the harness module *)
  ; "p2p/node/peerManager/peerdb.PeerInfo.ProtoDecode"
  ; "quai/abi.ABI.UnmarshalJSON"                          (* contract ABI of local tools *)
  ; "quai/abi.Argument.UnmarshalJSON"
  ; "quaiclient/ethclient.rpcTransaction.UnmarshalJSON"   (* client library *)
  ; "trie.StackTrie.UnmarshalBinary" ]%string.            (* no caller outside tests *)

(* package directories whose decoders are node inputs (what the sweep links and feeds) *)
Definition decoder_scope : list string :=
  [ "common."; "common/hexutil."; "common/math."; "core/types."; "quai/filters."; "rpc." ]%string.

Definition str_mem (x : string) (l : list string) : bool := existsb (String.eqb x) l.
Definition str_incl (a b : list string) : bool := forallb (fun x => str_mem x b) a.

(* a decoder is accounted for when the run swept it or the model exempts it *)
Definition inv_covered (swept : list string) (d : string) : bool := str_mem d swept || str_mem d decoders_exempt.
Definition inv_ok (swept exempt : list string) : bool :=
  forallb (inv_covered swept) decoders && str_incl exempt decoders_exempt && str_incl decoders_exempt exempt.

Definition in_scope (d : string) : bool := existsb (fun p => String.prefix p d) decoder_scope.

Definition case_ok (c : case) : bool :=
  match c with
  | mkCase _ fork op a pre vcode post =>
    let '(v, s') := step (table_of_fork fork) op a pre in
    (verdict_code v =? vcode) &&
    match v with
    | VOk => mstate_eqb s' post
    | _ => m_mem post =? m_mem pre      (* a failed step never grows memory *)
    end
  | mkWire _ tx osig oseal =>
    opt_bytes_eqb (extract_script_sig tx) osig && opt_bytes_eqb (wire_seal tx) oseal
  | mkWin _ m o l rl obs => win_ok m o l rl obs
  | mkInv _ swept exempt => inv_ok swept exempt
  end.

Definition mismatches (cs : list case) : list N :=
  map case_id (filter (fun c => negb (case_ok c)) cs).

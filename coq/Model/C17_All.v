(* C17 — case type of the correspondence check: a history on a backend seen as a
   store (Model/C17.v), or a history through the rawdb table wrapper over a
   pre-loaded backend, the inner database scanned at the end (Model/C17_Table.v). *)
From Coq Require Import List NArith Bool.
From GQ Require Import Lib.Key Lib.SMap Model.C17 Model.C17_Table.
Import ListNotations.
Local Open Scope N_scope.

Inductive case := CStore (c : C17.case) | CTable (c : tcase).

Definition case_id (c : case) : N := match c with CStore c => fst c | CTable c => fst c end.
Definition case_ok (c : case) : bool :=
  match c with CStore c => C17.case_ok c | CTable c => tcase_ok c end.
Definition mismatches (cs : list case) : list N :=
  map case_id (filter (fun c => negb (case_ok c)) cs).

(* C10 — Reorganisation leaves exactly the state of the winning branch.
   Executable model of
     - the undo log written per block by core/state_processor.go:Process
       (rawdb.WriteSpentUTXOs, WriteCreatedUTXOKeys, WriteCreatedCoinbaseLockupKeys,
        WriteDeletedCoinbaseLockups) and core/headerchain_validation.go:Finalize
       (rawdb.WriteTrimmedUTXOs),
     - the per-block rollback batch of core/headerchain.go:SetCurrentHeader,
     - the roll-forward (WriteCanonicalHash, AppendBlock, WriteHeadBlockHash),
     - core/vm/contracts.go:AddNewLock / ClaimCoinbaseLockup as far as they write
       lockup records and their undo records.
   Definitions only; proofs are in Proofs/C10.v. *)
From Coq Require Import List NArith ZArith Bool String Uint63.
From GQ Require Import Lib.Key Lib.SMap Generated.C10Params.
Import ListNotations.
Local Open Scope N_scope.

Definition val := list N.

(* ---------- generic helpers on sorted maps ---------- *)
Definition put_all {V : Type} (l : list (key * V)) (m : smap V) : smap V :=
  fold_left (fun m kv => put (fst kv) (snd kv) m) l m.
Definition del_all {V : Type} (l : list key) (m : smap V) : smap V :=
  fold_left (fun m k => del k m) l m.

(* core/headerchain.go:SetCurrentHeader — "The last byte of the key is the denomination (but only
   in CreatedUTXOKeys)": a 37-byte key is cut to 36 bytes, any other length is used as is. *)
Definition strip_den (k : key) : key :=
  if Nat.eqb (List.length k) 37 then firstn 36 k else k.

(* canonical index: number -> hash; the number itself is the (one element) key *)
Definition nkey (n : N) : key := [n].

Section Generic.
Context {L : Type}.   (* representation of a lockup record (bytes in the cases, decoded in the lockup theorems) *)

(* The part of the database a reorganisation must leave exact. *)
Record db := mkDb {
  utxo : smap val;      (* 'ut' + txhash + index  ->  proto(TxOut) *)
  lockups : smap L;     (* 'cl' + owner + miner + lockupByte + epoch -> record *)
  canon : smap val;     (* number -> canonical hash *)
  head : val            (* head block hash *)
}.

(* What one block does (forward) and what it leaves in the undo log. *)
Record effect := mkEff {
  e_num : N;
  e_hash : val;
  e_parent : val;
  e_created : list (key * val);        (* forward: CreateUTXO(batch, ..) — 36-byte keys *)
  e_created_keys : list key;           (* undo: WriteCreatedUTXOKeys — 37-byte keys (denomination appended) *)
  e_spent : list (key * val);          (* forward: DeleteUTXO ; undo: WriteSpentUTXOs *)
  e_trimmed : list (key * val);        (* forward: TrimBlock batch.Delete ; undo: WriteTrimmedUTXOs *)
  e_lk_writes : list (key * option L); (* forward, in order: Some v = WriteCoinbaseLockup, None = DeleteCoinbaseLockup *)
  e_lk_created : list key;             (* undo: WriteCreatedCoinbaseLockupKeys *)
  e_lk_deleted : list (key * L)        (* undo: WriteDeletedCoinbaseLockups, in record order *)
}.

Definition lk_write (m : smap L) (w : key * option L) : smap L :=
  match snd w with
  | Some v => put (fst w) v m
  | None => del (fst w) m
  end.

(* Roll-forward of one block: SetCurrentHeader writes the canonical hash, AppendBlock commits
   the batch filled by Process (outputs created by the transactions, inputs deleted, trimmed
   outputs deleted, lockup records written/deleted), then the head hash is written.
   A key is never re-created after its deletion inside one block (outpoints are unique), so
   "all puts, then all deletes" is the net content of the batch. *)
Definition apply (d : db) (e : effect) : db :=
  mkDb (del_all (map fst (e_trimmed e)) (del_all (map fst (e_spent e)) (put_all (e_created e) (utxo d))))
       (fold_left lk_write (e_lk_writes e) (lockups d))
       (put (nkey (e_num e)) (e_hash e) (canon d))
       (e_hash e).

(* One iteration of the rollback loop of SetCurrentHeader, in the order of the source:
   DeleteCanonicalHash(number); CreateUTXO for spent++trimmed; batch.Delete for each created key
   (denomination byte stripped); batch.Put of the deleted lockups in REVERSE record order;
   batch.Delete of the created lockup keys; WriteHeadBlockHash(parent);
   WriteCanonicalHash(parent, number-1); batch.Write. *)
Definition rollback (d : db) (e : effect) : db :=
  mkDb (del_all (map strip_den (e_created_keys e)) (put_all (e_spent e ++ e_trimmed e) (utxo d)))
       (del_all (e_lk_created e) (put_all (rev (e_lk_deleted e)) (lockups d)))
       (put (nkey (e_num e - 1)) (e_parent e) (del (nkey (e_num e)) (canon d)))
       (e_parent e).

(* Two rollbacks the source must NOT be (Proofs: both resurrect an output that the rolled-back
   block created AND spent — tx2 spends an output of tx1 of the same block — and both are exact for
   every block without such an output, which is why only intra-block chains tell them apart):
   - [rollback_delete_first]: the created keys are deleted BEFORE spent++trimmed are re-created
     (the two loops write into one batch: the last write of a key wins);
   - [rollback_skip_absent]: the delete of a created key is skipped when the key is not in the
     DATABASE (the batch holding the re-creating Put is not consulted). *)
Definition rollback_delete_first (d : db) (e : effect) : db :=
  mkDb (put_all (e_spent e ++ e_trimmed e) (del_all (map strip_den (e_created_keys e)) (utxo d)))
       (lockups (rollback d e)) (canon (rollback d e)) (head (rollback d e)).
Definition presentb {V} (k : key) (m : smap V) : bool :=
  match get k m with Some _ => true | None => false end.
Definition rollback_skip_absent (d : db) (e : effect) : db :=
  mkDb (del_all (filter (fun k => presentb k (utxo d)) (map strip_den (e_created_keys e)))
                (put_all (e_spent e ++ e_trimmed e) (utxo d)))
       (lockups (rollback d e)) (canon (rollback d e)) (head (rollback d e)).

Definition apply_all (d : db) (es : list effect) : db := fold_left apply es d.
Definition rollback_all (d : db) (es : list effect) : db := fold_left rollback es d.

(* SetCurrentHeader(head of the other branch): roll back the old branch tip-first down to the
   common ancestor, then re-append the new branch in order. [olds] is in rollback order. *)
Definition reorg (d : db) (olds news : list effect) : db :=
  apply_all (rollback_all d olds) news.

(* ---------- well-formedness of an effect w.r.t. the state before the block (decidable) ---------- *)
Variable leqb : L -> L -> bool.

Definition oeqb {A} (f : A -> A -> bool) (a b : option A) : bool :=
  match a, b with
  | None, None => true
  | Some x, Some y => f x y
  | _, _ => false
  end.

Definition kmem (k : key) (l : list key) : bool := existsb (keqb k) l.

Fixpoint first_rec {V} (k : key) (l : list (key * V)) : option V :=
  match l with
  | [] => None
  | (k', v) :: l' => if keqb k k' then Some v else first_rec k l'
  end.

Definition wf_utxob (d : db) (e : effect) : bool :=
  let ck := map strip_den (e_created_keys e) in
  forallb (fun k => match get k (utxo d) with None => true | Some _ => false end) ck
  && forallb (fun kv => kmem (fst kv) ck || oeqb keqb (get (fst kv) (utxo d)) (Some (snd kv)))
             (e_spent e ++ e_trimmed e)
  && forallb (fun kv => kmem (fst kv) ck) (e_created e).

Definition wf_lkb (d : db) (e : effect) : bool :=
  forallb (fun k => match get k (lockups d) with None => true | Some _ => false end) (e_lk_created e)
  && forallb (fun kv => kmem (fst kv) (e_lk_created e)
                        || oeqb leqb (first_rec (fst kv) (e_lk_deleted e)) (get (fst kv) (lockups d)))
             (e_lk_deleted e)
  && forallb (fun w => kmem (fst w) (e_lk_created e) || kmem (fst w) (map fst (e_lk_deleted e)))
             (e_lk_writes e).

Definition wf_chainb (d : db) (e : effect) : bool :=
  (0 <? e_num e)
  && keqb (head d) (e_parent e)
  && oeqb keqb (get (nkey (e_num e - 1)) (canon d)) (Some (e_parent e))
  && match get (nkey (e_num e)) (canon d) with None => true | Some _ => false end.

Definition wf_effectb (d : db) (e : effect) : bool :=
  wf_utxob d e && wf_lkb d e && wf_chainb d e.

Fixpoint wf_branchb (d : db) (es : list effect) : bool :=
  match es with
  | [] => true
  | e :: es' => wf_effectb d e && wf_branchb (apply d e) es'
  end.

(* ---------- equality of images ---------- *)
Fixpoint smap_eqb {V} (f : V -> V -> bool) (a b : smap V) : bool :=
  match a, b with
  | [], [] => true
  | (k, v) :: a', (k', v') :: b' => keqb k k' && f v v' && smap_eqb f a' b'
  | _, _ => false
  end.

Definition db_eqb (a b : db) : bool :=
  smap_eqb keqb (utxo a) (utxo b) && smap_eqb leqb (lockups a) (lockups b)
  && smap_eqb keqb (canon a) (canon b) && keqb (head a) (head b).

Definition db_sortedb (d : db) : bool :=
  sortedb (utxo d) && sortedb (lockups d) && sortedb (canon d).

End Generic.
Arguments db : clear implicits.
Arguments effect : clear implicits.

(* ================= lockup records: AddNewLock / ClaimCoinbaseLockup ================= *)

(* big-endian fixed width *)
Fixpoint be (n : nat) (x : N) : list N :=
  match n with
  | O => []
  | S n' => be n' (x / 256) ++ [x mod 256]
  end.
Definition of_be (l : list N) : N := fold_left (fun a b => a * 256 + b) l 0.

(* decoded record: rawdb.ReadCoinbaseLockup *)
Record lkrec := mkLk { lk_bal : N; lk_height : N; lk_elems : N; lk_deleg : list N (* [] = common.Zero *) }.

(* rawdb.WriteCoinbaseLockup / WriteCoinbaseLockupToSlice / ToMap: 32+4+2 bytes, delegate appended
   unless it is the zero address *)
Definition enc_lk (r : lkrec) : val :=
  be 32 (lk_bal r) ++ be 4 (lk_height r) ++ be 2 (lk_elems r) ++ lk_deleg r.
(* rawdb.ReadCoinbaseLockup: delegate only when len(data) == 58 *)
Definition dec_lk (v : val) : lkrec :=
  mkLk (of_be (firstn 32 v)) (of_be (firstn 4 (skipn 32 v))) (of_be (firstn 2 (skipn 36 v)))
       (if Nat.eqb (List.length v) 58 then skipn 38 v else []).

Definition norm_deleg (d : list N) : list N := if forallb (N.eqb 0) d then [] else d.

Definition lkrec_eqb (a b : lkrec) : bool :=
  N.eqb (lk_bal a) (lk_bal b) && N.eqb (lk_height a) (lk_height b)
  && N.eqb (lk_elems a) (lk_elems b) && keqb (lk_deleg a) (lk_deleg b).

Inductive addres :=
| AErr                                  (* "new unlock height is less than the current tranche unlock height" *)
| ACreated (new : lkrec)                (* deleted = false *)
| AUpdated (undo : lkrec) (new : lkrec). (* deleted = true, oldLockupData, record written *)

(* core/vm/contracts.go:AddNewLock on decoded records.
   [use_old]: which delegate goes into oldLockupData — the source text decides
   (Generated.C10Params.undo_uses_old_delegate); the pinned tree uses the NEW delegate. *)
Definition add_new_lock_s (use_old : bool) (old : option lkrec) (value unlockHeight epochBlocks : N)
           (delegate : list N) : addres :=
  let r := match old with Some r => r | None => mkLk 0 0 0 [] end in
  let d := norm_deleg delegate in
  if (negb (lk_height r =? 0)) && (unlockHeight <? lk_height r) then AErr
  else if lk_height r =? 0 then
    ACreated (mkLk value ((unlockHeight - unlockHeight mod epochBlocks) mod 4294967296) 1 d)
  else
    AUpdated (mkLk (lk_bal r) (lk_height r) (lk_elems r) (if use_old then lk_deleg r else d))
             (mkLk (lk_bal r + value) (lk_height r) ((lk_elems r + 1) mod 65536) d).

(* the same on the stored bytes (what the correspondence check compares) *)
Inductive addres_b := BErr | BCreated (new : val) | BUpdated (undo new : val).
Definition add_new_lock_b (use_old : bool) (old : option val) (value unlockHeight epochBlocks : N)
           (delegate : list N) : addres_b :=
  match add_new_lock_s use_old (option_map dec_lk old) value unlockHeight epochBlocks delegate with
  | AErr => BErr
  | ACreated n => BCreated (enc_lk n)
  | AUpdated u n => BUpdated (enc_lk u) (enc_lk n)
  end.

(* Lockup part of Process for one block: coinbase ETXs with a lockup-contract layout call
   AddNewLock; a successful EVM transaction may have claimed (deleted) records. *)
Inductive lkreq :=
| RAdd (k : key) (value unlockHeight : N) (delegate : list N)
| RClaim (k : key).

Record lkacc := mkAcc {
  a_map : smap lkrec;                     (* database as seen through the batch *)
  a_writes : list (key * option lkrec);
  a_created : list key;
  a_deleted : list (key * lkrec)
}.

Definition lk_step (use_old : bool) (eb : N) (a : lkacc) (r : lkreq) : lkacc :=
  match r with
  | RAdd k v uh dg =>
      match add_new_lock_s use_old (get k (a_map a)) v uh eb dg with
      | AErr => a      (* Process aborts the block; nothing of it is committed *)
      | ACreated n => mkAcc (put k n (a_map a)) (a_writes a ++ [(k, Some n)]) (a_created a ++ [k]) (a_deleted a)
      | AUpdated u n => mkAcc (put k n (a_map a)) (a_writes a ++ [(k, Some n)]) (a_created a) (a_deleted a ++ [(k, u)])
      end
  | RClaim k =>
      match get k (a_map a) with
      | Some old => mkAcc (del k (a_map a)) (a_writes a ++ [(k, None)]) (a_created a) (a_deleted a ++ [(k, old)])
      | None => a      (* "no lockup to claim": the call reverts, nothing recorded *)
      end
  end.

Definition lk_process (use_old : bool) (eb : N) (m : smap lkrec) (rs : list lkreq) : lkacc :=
  fold_left (lk_step use_old eb) rs (mkAcc m [] [] []).

(* the block effect restricted to lockups *)
Definition lk_effect (use_old : bool) (eb : N) (num : N) (hash parent : val) (m : smap lkrec) (rs : list lkreq)
  : effect lkrec :=
  let a := lk_process use_old eb m rs in
  mkEff num hash parent [] [] [] [] (a_writes a) (a_created a) (a_deleted a).

(* every update keeps the delegate that is stored (the condition under which the pinned
   AddNewLock writes a correct undo record) *)
Fixpoint delegate_stable (eb : N) (m : smap lkrec) (rs : list lkreq) : bool :=
  match rs with
  | [] => true
  | r :: rs' =>
      (match r with
       | RAdd k v uh dg =>
           match get k m with
           | Some old => (lk_height old =? 0) || keqb (lk_deleg old) (norm_deleg dg)
           | None => true
           end
       | RClaim _ => true
       end) && delegate_stable eb (a_map (lk_step true eb (mkAcc m [] [] []) r)) rs'
  end.

(* ================= side conditions on the source (Generated/C10Params.v) ================= *)
Fixpoint index_of (s : string) (l : list string) (i : nat) : option nat :=
  match l with
  | [] => None
  | x :: l' => if String.eqb s x then Some i else index_of s l' (S i)
  end.
Definition index_of_last (s : string) (l : list string) : option nat :=
  match index_of s (rev l) 0 with
  | Some i => Some (List.length l - 1 - i)%nat
  | None => None
  end.
Definition before_last (a b : string) (l : list string) : bool :=
  match index_of a l 0, index_of_last b l with
  | Some i, Some j => Nat.ltb i j
  | _, _ => false
  end.
Definition before (a b : string) (l : list string) : bool :=
  match index_of a l 0, index_of b l 0 with
  | Some i, Some j => Nat.ltb i j
  | _, _ => false
  end.

(* the order of the rollback loop of SetCurrentHeader that [rollback] relies on *)
Definition rollback_order_ok : bool :=
  before "DeleteCanonicalHash" "ReadSpentUTXOs" rollback_calls
  && before "ReadSpentUTXOs" "ReadTrimmedUTXOs" rollback_calls
  && before "ReadTrimmedUTXOs" "CreateUTXO" rollback_calls
  && before "CreateUTXO" "ReadCreatedUTXOKeys" rollback_calls
  && before "ReadCreatedUTXOKeys" "batch.Delete" rollback_calls
  && before "batch.Delete" "ReadDeletedCoinbaseLockups" rollback_calls
  && before "ReadDeletedCoinbaseLockups" "batch.Put" rollback_calls
  && before "batch.Put" "ReadCreatedCoinbaseLockupKeys" rollback_calls
  && before_last "ReadCreatedCoinbaseLockupKeys" "batch.Delete" rollback_calls
  && Nat.eqb (List.length (filter (String.eqb "batch.Delete") rollback_calls)) 2
  && before "ReadCreatedCoinbaseLockupKeys" "WriteHeadBlockHash" rollback_calls
  && before "WriteHeadBlockHash" "WriteCanonicalHash" rollback_calls
  && before "WriteCanonicalHash" "batch.Write" rollback_calls
  && deleted_lockups_restored_in_reverse
  && Nat.eqb (List.length (filter (String.eqb "batch.Write") rollback_calls)) 1
  (* outputs are re-created once (before the deletes: line 4 above), lockups restored once *)
  && Nat.eqb (List.length (filter (String.eqb "CreateUTXO") rollback_calls)) 1
  && Nat.eqb (List.length (filter (String.eqb "batch.Put") rollback_calls)) 1.

(* the four write loops of the rollback are the ones of [rollback], in its order, and each write is
   reached on every iteration (no guard, no continue/break): [del_all]/[put_all] over the whole
   undo record, not over a filtered part of it *)
Definition rollback_writes_ok : bool :=
  match rollback_write_loops with
  | [(a, ua); (b, ub); (c, uc); (d, ud)] =>
      String.eqb a "CreateUTXO" && String.eqb b "batch.Delete" && String.eqb c "batch.Put"
      && String.eqb d "batch.Delete" && ua && ub && uc && ud
  | _ => false
  end.

Definition key_lengths_ok : bool :=
  N.eqb utxo_key_length 36 && N.eqb utxo_key_with_denomination_length 37 && N.eqb coinbase_lockup_key_length 47.

(* Process writes all four undo records, Finalize the fifth *)
Definition undo_records_written : bool :=
  forallb (fun s => match index_of s process_undo_writes 0 with Some _ => true | None => false end)
          ["WriteSpentUTXOs"; "WriteCreatedUTXOKeys"; "WriteCreatedCoinbaseLockupKeys"; "WriteDeletedCoinbaseLockups"]%string
  && finalize_writes_trimmed.

(* ================= correspondence cases ================= *)
(* compact byte strings in case files: chunks of up to 7 bytes as primitive 63-bit integers
   (one node each instead of one constructor per bit), decoded big-endian inside Coq *)
Definition W (n : N) (i : int) : list N := be (N.to_nat n) (Z.to_N (Uint63.to_Z i)).
Arguments W n%N i%uint63.
Definition B (chunks : list (list N)) : list N := List.concat chunks.

Definition bdb := db val.
Definition beff := effect val.

Inductive case :=
(* a real SetCurrentHeader from the tip of [olds] (forward order, from the common ancestor image
   [anc]) to the tip of [news]: [pre]/[post] = real scans before/after; [wf_old]/[wf_new] =
   well-formedness of the real undo records as computed by the harness *)
| CReorg (id : N) (anc : bdb) (olds news : list beff) (pre post : bdb) (wf_old wf_new : bool)
(* one real call of vm.AddNewLock: old record, value, unlock height, epoch blocks, delegate;
   observed: error / created / updated + bytes *)
| CAddLock (id : N) (old : option val) (value unlockHeight epochBlocks : N) (delegate : list N) (obs : addres_b).

Definition case_id (c : case) : N :=
  match c with CReorg i _ _ _ _ _ _ _ => i | CAddLock i _ _ _ _ _ _ => i end.

Definition addres_b_eqb (a b : addres_b) : bool :=
  match a, b with
  | BErr, BErr => true
  | BCreated x, BCreated y => keqb x y
  | BUpdated u x, BUpdated v y => keqb u v && keqb x y
  | _, _ => false
  end.

Definition case_ok (c : case) : bool :=
  match c with
  | CReorg _ anc olds news pre post wo wn =>
      db_sortedb anc
      && db_eqb keqb (apply_all anc olds) pre
      && db_eqb keqb (reorg pre (rev olds) news) post
      && Bool.eqb (wf_branchb keqb anc olds) wo
      && Bool.eqb (wf_branchb keqb anc news) wn
  | CAddLock _ old v uh eb dg obs =>
      addres_b_eqb (add_new_lock_b undo_uses_old_delegate old v uh eb dg) obs
  end.

Definition mismatches (cs : list case) : list N :=
  map case_id (filter (fun c => negb (case_ok c)) cs).

(* C08 -- executable model of "a block is sealed only by work on exactly its contents".
   Definitions only; proofs are in Proofs/C08.v.  Mirrors, branch by branch:
     core/headerchain_validation.go  verifySeal, verifyHeader (header-hash binding, CheckPowIdValidity,
                                     AuxPoW section), VerifyUncles (classification + AuxPoW section)
     consensus/consensus.go          CalcWorkShareThreshold
     core/poem.go                    CheckWorkThreshold, CheckIfValidWorkShare
     core/headerchain.go             GetEngineForHeader, CalculateKawpowShareDiff, UncleWorkShareClassification,
                                     CheckPowIdValidity, CheckPowIdValidityForWorkshare
     core/types/auxpow_coinbase_utils.go  parseScriptPush, Extract*FromCoinbase, readVarInt,
                                     ExtractScriptSigFromCoinbaseTx, ValidatePrevOutPointIndexAndSequenceOfCoinbase,
                                     CalculateMerkleRoot, CreateAuxMerkleRoot, CalculateMerkleSlot
   Trusted primitives (not modelled): the PoW engines (inputs e_h0/e_h1 = what the selected engine returned),
   double-SHA256 (Section variable H; in the correspondence check an oracle table recorded from crypto/sha256),
   blake3 / SealHash() / Header.Hash() (observed 32-byte inputs), the MuSig2 template signature (observed bit). *)
From Coq Require Import List ZArith Bool.
From GQ Require Import Generated.C08Fields.
Import ListNotations.
Local Open Scope Z_scope.

Definition bytes := list Z.

Fixpoint bytes_eqb (a b : bytes) : bool :=
  match a, b with
  | [], [] => true
  | x :: a', y :: b' => (x =? y) && bytes_eqb a' b'
  | _, _ => false
  end.

Definition len (b : bytes) : Z := Z.of_nat (length b).
(* big.Int.SetBytes: big-endian *)
Definition of_be (b : bytes) : Z := fold_left (fun acc x => acc * 256 + x) b 0.
(* binary.LittleEndian *)
Definition le_val (b : bytes) : Z := fold_right (fun x acc => x + 256 * acc) 0 b.
Definition zeros (n : nat) : bytes := repeat 0 n.
Definition all_zero (b : bytes) : bool := forallb (Z.eqb 0) b.

(* big.Int.Div is Euclidean division (remainder >= 0); Z.div is floor division: they agree for a positive divisor. *)
Definition go_div (x y : Z) : Z := if y <? 0 then - (x / - y) else x / y.
(* big.Int.Uint64: the low 64 bits of |x| *)
Definition u64 (x : Z) : Z := Z.abs x mod 2 ^ 64.
Definition two256 : Z := big2e256.

(* ------------------------------------------------------------------ seal and workshare arithmetic *)

(* what the harness fixes about the chain object: PowMode fake?, powConfig.WorkShareThreshold,
   and what engine[0] (progpow) / engine[1] (kawpow) answer for this header *)
Record env := mkEnv { e_fake : bool; e_wsthr : Z; e_h0 : bytes; e_err0 : bool; e_h1 : bytes; e_err1 : bool }.

(* the header fields these functions read; None = nil pointer *)
Record hdr := mkHdr {
  h_ptn : Z;                 (* primeTerminusNumber *)
  h_diff : Z;                (* difficulty *)
  h_aux : option Z;          (* AuxPow().PowID() if AuxPow() != nil *)
  h_shaD : option Z; h_shaC : Z; h_shaT : Z;     (* ShaDiffAndCount().Difficulty()/Count(), ShaShareTarget() *)
  h_scrD : option Z; h_scrC : Z; h_scrT : Z;
  h_kawD : option Z;         (* KawpowDifficulty() *)
  h_donor_pow : bytes        (* AuxPow().Header().PowHash() (sha256d / scrypt of the donor header: trusted primitive) *)
}.

(* wo.go KawpowActivationHappened / IsTransitionProgPowBlock *)
Definition activated (h : hdr) : bool := kawpow_fork_block <=? u64 (h_ptn h).
Definition transition_progpow (h : hdr) : bool :=
  activated h && (u64 (h_ptn h) <? kawpow_fork_block + kawpow_transition_period)
  && match h_aux h with None => true | Some _ => false end.

(* headerchain.go GetEngineForHeader: kawpow engine iff AuxPow != nil and ptn >= fork *)
Definition engine_is_kawpow (h : hdr) : bool :=
  match h_aux h with Some _ => activated h | None => false end.
Definition eng_hash (e : env) (h : hdr) : bytes := if engine_is_kawpow h then e_h1 e else e_h0 e.
Definition eng_err (e : env) (h : hdr) : bool := if engine_is_kawpow h then e_err1 e else e_err0 e.

Definition target (d : Z) : Z := go_div two256 d.

Inductive seal_verdict := SealOk | SealFake | SealBadDiff | SealEngineErr | SealBadPow.

(* headerchain_validation.go verifySeal *)
Definition verify_seal (e : env) (h : hdr) : seal_verdict :=
  if e_fake e then SealFake
  else if h_diff h <=? 0 then SealBadDiff
  else if eng_err e h then SealEngineErr
  else if of_be (eng_hash e h) >? target (h_diff h) then SealBadPow
  else SealOk.

Inductive thr_res := ThrErr | ThrPanic | ThrOk (t : Z).

(* consensus.go CalcWorkShareThreshold: big.Int.Div panics on a zero divisor *)
Definition calc_ws_threshold (d k : Z) : thr_res :=
  if k <=? 0 then ThrErr
  else if d =? 0 then ThrPanic
  else ThrOk (go_div two256 d * 2 ^ k).

Inductive thr_out := WPanic | WBool (b : bool).

(* poem.go CheckWorkThreshold *)
Definition check_work_threshold (e : env) (h : hdr) (k : Z) : thr_out :=
  match calc_ws_threshold (h_diff h) k with
  | ThrErr => WBool false
  | ThrPanic => WPanic
  | ThrOk t => if eng_err e h then WBool false else WBool (of_be (eng_hash e h) <=? t)
  end.

(* headerchain.go CalculateKawpowShareDiff (math.BigMin(x,y) = if x > y then y else x) *)
Definition kawpow_share_diff (h : hdr) : Z :=
  if u64 (h_ptn h) <? kawpow_fork_block then 0 else
  let sha := Z.min (h_shaC h) (h_shaT h) in
  let scr := Z.min (h_scrC h) (h_scrT h) in
  let nonk := sha + scr in
  let maxt := expected_workshares_per_block * big2e32 in
  if maxt <=? nonk then h_diff h else
  let kst := maxt + big2e32 - nonk in
  match h_kawD h with
  | None => h_diff h
  | Some kd =>
    if kd <=? 0 then h_diff h else
    let pct := go_div (h_diff h * ravencoin_diff_percentage) kd in
    let kst' :=
      if ravencoin_diff_cutoff_start <=? pct then
        let disc := if ravencoin_diff_cutoff_end <=? pct then big2e32
                    else go_div ((maxt + big2e32) * (ravencoin_diff_cutoff_end - pct)) ravencoin_diff_cutoff_range in
        Z.min kst disc
      else kst in
    if kst' <? big2e32 then h_diff h else go_div (h_diff h * big2e32) kst'
  end.

Inductive ws_class := WsValid | WsSub | WsInvalid | WsBlock | WsPanic.

Definition sub_or_invalid (e : env) (h : hdr) : ws_class :=
  match check_work_threshold e h (e_wsthr e) with
  | WPanic => WsPanic
  | WBool true => WsSub
  | WBool false => WsInvalid
  end.

(* poem.go CheckIfValidWorkShare *)
Definition check_valid_ws (e : env) (h : hdr) : ws_class :=
  if u64 (h_ptn h) <? kawpow_fork_block then
    match check_work_threshold e h workshares_threshold_diff with
    | WPanic => WsPanic
    | WBool true => WsValid
    | WBool false => sub_or_invalid e h
    end
  else
    let sd := kawpow_share_diff h in
    if sd =? 0 then WsPanic                       (* big.Int.Div(2^256, 0) *)
    else if eng_err e h then WsInvalid
    else if of_be (eng_hash e h) <=? go_div two256 sd then WsValid
    else sub_or_invalid e h.

Definition seal_err (v : seal_verdict) : bool :=
  match v with SealOk | SealFake => false | _ => true end.

Definition donor_share (h : hdr) (d : option Z) : ws_class :=
  match d with
  | None => WsInvalid
  | Some sd => if sd =? 0 then WsInvalid
               else if of_be (h_donor_pow h) <? go_div two256 sd then WsValid else WsInvalid
  end.

(* headerchain.go UncleWorkShareClassification *)
Definition classify (e : env) (h : hdr) : ws_class :=
  if negb (activated h) || transition_progpow h then
    if seal_err (verify_seal e h) then check_valid_ws e h else WsBlock
  else match h_aux h with
  | None => WsInvalid
  | Some id =>
    if id =? powid_kawpow then
      if seal_err (verify_seal e h) then check_valid_ws e h else WsBlock
    else if (id =? powid_sha_bch) || (id =? powid_sha_btc) then donor_share h (h_shaD h)
    else if id =? powid_scrypt then donor_share h (h_scrD h)
    else WsInvalid
  end.

(* headerchain.go CheckPowIdValidity (blocks) / CheckPowIdValidityForWorkshare *)
Definition is_some {A} (o : option A) : bool := match o with Some _ => true | None => false end.
Definition pow_id_valid (ptn : Z) (aux : option Z) : bool :=
  let p := u64 ptn in
  if (p <? kawpow_fork_block) && is_some aux then false
  else if (kawpow_fork_block <=? p) && match aux with Some id => negb (id =? powid_kawpow) | None => false end then false
  else if (kawpow_fork_block + kawpow_transition_period <? p) && negb (is_some aux) then false
  else true.
Definition pow_id_valid_ws (ptn : Z) (aux : option Z) : bool :=
  let p := u64 ptn in
  if (p <? kawpow_fork_block) && is_some aux then false
  else if (kawpow_fork_block <=? p) && (p <=? kawpow_fork_block + kawpow_transition_period)
          && match aux with Some id => powid_scrypt <? id | None => false end then false
  else if kawpow_fork_block + kawpow_transition_period <? p then
    match aux with
    | None => false
    | Some id => negb ((id =? powid_progpow) || (powid_scrypt <? id))
    end
  else true.

(* ------------------------------------------------------------------ donor coinbase parsing (byte level) *)

(* auxpow_coinbase_utils.go parseScriptPush: (data, rest) *)
Definition parse_push (s : bytes) : option (bytes * bytes) :=
  match s with
  | [] => None
  | op :: r =>
    if op <=? 75 then
      let n := Z.to_nat op in
      if (length r <? n)%nat then None else Some (firstn n r, skipn n r)
    else None
  end.

Definition magic : bytes := [250; 190; 109; 109].

(* common prefix of the three Extract* functions: height push (0..5 bytes), 44-byte commitment push with magic.
   Result: (height data, payload, rest after the commitment push) *)
Definition parse_commit (ss : bytes) : option (bytes * bytes * bytes) :=
  match ss with
  | [] => None
  | _ =>
    match parse_push ss with
    | None => None
    | Some (hd, r1) =>
      if (5 <? length hd)%nat then None else
      match parse_push r1 with
      | None => None
      | Some (pl, r2) =>
        if negb (length pl =? 44)%nat then None
        else if negb (bytes_eqb (firstn 4 pl) magic) then None
        else Some (hd, pl, r2)
      end
    end
  end.

(* ExtractSealHashFromCoinbase *)
Definition extract_seal_hash (ss : bytes) : option bytes :=
  match parse_commit ss with
  | None => None
  | Some (_, pl, _) => Some (firstn 32 (skipn 4 pl))
  end.

(* ExtractMerkleSizeAndNonceFromCoinbase *)
Definition extract_size_nonce (ss : bytes) : option (Z * Z) :=
  match parse_commit ss with
  | None => None
  | Some (_, pl, _) => Some (le_val (firstn 4 (skipn 36 pl)), le_val (firstn 4 (skipn 40 pl)))
  end.

(* ExtractSignatureTimeFromCoinbase *)
Definition extract_sig_time (ss : bytes) : option Z :=
  match parse_commit ss with
  | None => None
  | Some (_, _, r2) =>
    match parse_push r2 with
    | None => None
    | Some (_, r3) =>
      match r3 with
      | [] => None
      | _ =>
        match parse_push r3 with
        | None => None
        | Some (st, _) => if negb (length st =? 4)%nat then None else Some (le_val st)
        end
      end
    end
  end.

(* ExtractHeightFromCoinbase: uint32 accumulation, byte 4 is shifted out *)
Definition extract_height (ss : bytes) : option Z :=
  match ss with
  | [] => None
  | _ =>
    match parse_push ss with
    | None => None
    | Some (hd, _) => if (5 <? length hd)%nat then None else Some (le_val (firstn 4 hd))
    end
  end.

Definition take_le (n : nat) (bs : bytes) : option (Z * bytes) :=
  if (length bs <? n)%nat then None else Some (le_val (firstn n bs), skipn n bs).

(* readVarInt on a bytes.Reader: (value, rest) *)
Definition read_varint (bs : bytes) : option (Z * bytes) :=
  match bs with
  | [] => None
  | b :: r =>
    if b =? 253 then take_le 2 r
    else if b =? 254 then take_le 4 r
    else if b =? 255 then take_le 8 r
    else Some (b, r)
  end.

(* ExtractScriptSigFromCoinbaseTx: None = nil.  bytes.Reader.Seek beyond the end succeeds and the next read hits EOF,
   which is what skipn on a short list followed by a read gives. *)
Definition extract_script_sig (tx : bytes) : option bytes :=
  match read_varint (skipn 4 tx) with
  | None => None
  | Some (_, r1) =>
    match read_varint (skipn 36 r1) with
    | None => None
    | Some (n, r2) =>
      if n =? 0 then Some []
      else if len r2 <? n then None
      else Some (firstn (Z.to_nat n) r2)
    end
  end.

(* ValidatePrevOutPointIndexAndSequenceOfCoinbase *)
Definition validate_prevout (tx : bytes) : bool :=
  match read_varint (skipn 4 tx) with
  | None => false
  | Some (cnt, r1) =>
    if negb (cnt =? 1) then false
    else if (length r1 <? 32)%nat then false
    else if negb (all_zero (firstn 32 r1)) then false
    else match take_le 4 (skipn 32 r1) with
    | None => false
    | Some (vout, r2) =>
      if negb (vout =? 4294967295) then false
      else match read_varint r2 with
      | None => false
      | Some (n, r3) =>
        if len r3 <? n then false
        else match take_le 4 (skipn (Z.to_nat n) r3) with
        | None => false
        | Some (sq, _) => sq =? 4294967295
        end
      end
    end
  end.

(* ExtractCoinbaseOutFromCoinbaseTx: everything after the first input's sequence (outputs + locktime); None = nil.
   Seeking past the end succeeds, so a transaction that ends inside the sequence yields the empty slice. *)
Definition extract_coinbase_out (tx : bytes) : option bytes :=
  match read_varint (skipn 4 tx) with
  | None => None
  | Some (_, r1) =>
    match read_varint (skipn 36 r1) with
    | None => None
    | Some (n, r2) =>
      if len r2 <? n then None
      else Some (skipn 4 (skipn (Z.to_nat n) r2))
    end
  end.

(* ------------------------------------------------------------------ the signed template of an AuxPoW *)

(* core/types/auxpow.go type AuxPow as received: every field that AuxPow.ProtoEncode writes, i.e. everything that is
   hashed into the post-fork identity WorkObjectHeader.Hash() = blake3(proto(AuxPow)).  af_donor = the serialised donor
   header (what the proof of work is computed on); prev / version / bits / height are read from it (trusted accessors,
   observed).  af_aux2 = None: nil slice (field absent on the wire); Some []: present and empty. *)
Record auxfull := mkAuxFull {
  af_powid : Z; af_donor : bytes; af_prev : bytes; af_version : Z; af_bits : Z; af_height : Z;
  af_aux2 : option bytes; af_tx : bytes; af_branch : list bytes; af_sig : bytes }.

(* type AuxTemplate: what the MuSig2 signature is verified over (Hash() clears only t_sigs) *)
Record template := mkTmpl {
  t_powid : Z; t_prev : bytes; t_version : Z; t_bits : Z; t_aux2 : option bytes; t_sigtime : Z; t_height : Z;
  t_out : option bytes; t_branch : list bytes; t_sigs : bytes }.

Definition aux2_norm (a : option bytes) : bytes := match a with None => [] | Some x => x end.

(* auxpow.go AuxPow.ConvertToTemplate, statement by statement *)
Definition template_of (a : auxfull) : template :=
  let ss := match extract_script_sig (af_tx a) with Some s => s | None => [] end in
  mkTmpl (af_powid a) (af_prev a) (af_version a) (af_bits a)
    (Some (aux2_norm (af_aux2 a)))                                   (* nil -> empty, for EVERY pow id *)
    (match extract_sig_time ss with Some t => t | None => 0 end)
    (if af_powid a =? powid_kawpow then af_height a
     else match extract_height ss with Some h => h | None => 0 end)
    (extract_coinbase_out (af_tx a)) (af_branch a) (af_sig a).

(* the signed message: the template without its signature *)
Definition template_msg (t : template) : template :=
  mkTmpl (t_powid t) (t_prev t) (t_version t) (t_bits t) (t_aux2 t) (t_sigtime t) (t_height t) (t_out t) (t_branch t) [].

(* CalculateMerkleSlot: uint32 arithmetic *)
Definition u32 (x : Z) : Z := x mod 2 ^ 32.
Definition merkle_slot (chain nonce size : Z) : Z :=
  let r := u32 (u32 (nonce * 1103515245) + 12345) in
  let r := u32 (r + chain) in
  let r := u32 (u32 (r * 1103515245) + 12345) in
  r mod size.

(* copy(sibling[:], siblingBytes): truncate / zero-pad to 32 bytes *)
Definition norm32 (b : bytes) : bytes := firstn 32 (b ++ zeros 32).

Section WithH.
  (* double-SHA256 over a byte string (chainhash.DoubleHashH of btcd / ltcd / bchd) *)
  Variable H : bytes -> bytes.

  (* HashMerkleBranches(cur, sibling), coinbase at index 0: always the left child *)
  Definition merkle_step (cur : bytes) (sib : bytes) : bytes := H (cur ++ norm32 sib).
  Definition merkle_from (c : bytes) (br : list bytes) : bytes := fold_left merkle_step br c.

  (* CalculateMerkleRoot *)
  Definition merkle_root (powid : Z) (tx : bytes) (br : list bytes) : bytes :=
    if (powid_kawpow <=? powid) && (powid <=? powid_scrypt) then merkle_from (H tx) br else zeros 32.

  (* CreateAuxMerkleRoot: two leaves, Dogecoin chain id 98, Quai chain id 9, nonce 0, size 2; the Quai leaf is
     written after the Dogecoin one *)
  Definition aux_merkle_root (doge seal : bytes) : bytes :=
    let ds := merkle_slot 98 0 2 in
    let qs := merkle_slot 9 0 2 in
    let l0 := if qs =? 0 then rev seal else if ds =? 0 then rev doge else zeros 32 in
    let l1 := if qs =? 1 then rev seal else if ds =? 1 then rev doge else zeros 32 in
    rev (H (l0 ++ l1)).

  Record auxpow := mkAux {
    a_powid : Z; a_tx : bytes; a_donor_time : Z; a_donor_root : bytes; a_aux2 : bytes;
    a_branch : list bytes;
    a_sig_ok : bool       (* ConvertToTemplate().VerifySignature(): trusted primitive, observed *)
  }.

  Inductive verdict := Accept | Reject | Panic.

  Definition is_sha_or_scrypt (id : Z) : bool :=
    (id =? powid_sha_btc) || (id =? powid_sha_bch) || (id =? powid_scrypt).

  (* the AuxPoW section shared (textually triplicated) by verifyHeader, VerifyUncles and the gossip validator.
     sig_exception: VerifyUncles/gossip accept an unsigned SHA/Scrypt share whose primary coinbase is out of scope. *)
  Definition auxpow_section (sig_exception invalid_addr : bool) (time : Z) (seal : bytes) (a : auxpow) : verdict :=
    let ss := match extract_script_sig (a_tx a) with Some s => s | None => [] end in
    match extract_sig_time ss with
    | None => Reject
    | Some st =>
      if a_donor_time a <? st then Reject
      else if time <? st then Reject
      else match extract_seal_hash ss with
      | None => Reject
      | Some cs =>
        let id := a_powid a in
        let after_commit :=
          if negb (bytes_eqb (merkle_root id (a_tx a) (a_branch a)) (a_donor_root a)) then Reject
          else if negb (validate_prevout (a_tx a)) then Reject
          else if negb (a_sig_ok a) && negb (sig_exception && is_sha_or_scrypt id && invalid_addr) then Reject
          else Accept in
        if (id =? powid_kawpow) || (id =? powid_sha_btc) || (id =? powid_sha_bch) then
          if negb (bytes_eqb seal cs) then Reject else after_commit
        else if id =? powid_scrypt then
          (* len(AuxPow2()) < 32 is rejected with an error (fix commit f0c87e08; before it the slice-to-array
             conversion common.Hash(AuxPow2()) panicked here: finding panic:auxpow-section:scrypt-auxpow2-shorter-than-32) *)
          if (length (a_aux2 a) <? 32)%nat then Reject
          else let doge := firstn 32 (a_aux2 a) in
          if all_zero doge then Reject
          else if negb (bytes_eqb (aux_merkle_root doge seal) cs) then Reject
          else match extract_size_nonce ss with
          | None => Reject
          | Some (sz, nn) =>
            if negb (sz =? merkle_size) then Reject
            else if negb (nn =? merkle_nonce) then Reject
            else after_commit
          end
        else after_commit
      end
    end.

  (* the part of verifyHeader that C08 is about, in source order: header-hash binding, (other rules: C09),
     CheckPowIdValidity, AuxPoW section *)
  Record vh_in := mkVh {
    v_hh : bytes;            (* WorkObjectHeader.headerHash *)
    v_bh : bytes;            (* Body().Header().Hash() *)
    v_ptn : Z; v_time : Z;
    v_seal : bytes;          (* WorkObjectHeader.SealHash() *)
    v_aux : option auxpow
  }.

  Definition verify_header_c08 (i : vh_in) : verdict :=
    if negb (bytes_eqb (v_hh i) (v_bh i)) then Reject
    else if negb (pow_id_valid (v_ptn i) (option_map a_powid (v_aux i))) then Reject
    else match v_aux i with
    | Some a => if kawpow_fork_block <=? u64 (v_ptn i) then auxpow_section false false (v_time i) (v_seal i) a else Accept
    | None => Accept
    end.

  (* VerifyUncles for one uncle of a block whose own prime terminus is past the fork: classification, pow-id rule,
     sibling rule, AuxPoW section (every other rule held true by the harness) *)
  Definition verify_uncle_c08 (e : env) (h : hdr) (sibling invalid_addr : bool) (time : Z) (seal : bytes)
             (aux : option auxpow) : verdict :=
    match classify e h with
    | WsPanic => Panic
    | WsSub | WsInvalid => Reject
    | c =>
      let ws := match c with WsValid => true | _ => false end in
      if negb (if ws then pow_id_valid_ws (h_ptn h) (h_aux h) else pow_id_valid (h_ptn h) (h_aux h)) then Reject
      else if negb ws && sibling then Reject
      else match aux with
      | Some a => if activated h then auxpow_section true invalid_addr time seal a else Accept
      | None => Accept
      end
    end.
End WithH.

(* ------------------------------------------------------------------ the PoW engines' result caches *)

(* consensus/kawpow/kawpow.go and consensus/progpow/progpow.go  ComputePowLight / ComputePowHash.
   The kernel (kawpowLight / progpowLight; trusted primitive K below) is memoised in an LRU (hashCache,
   Peek / Add, 10000 entries) that lives as long as the engine, i.e. across the verification of different
   blocks and shares.  A query is what the engine reads from the header it is asked about. *)
Record pquery := mkPq {
  q_hash : bytes;    (* kawpow: AuxPow().Header().SealHash() (sha256d of the donor header without nonce64 / mix);
                        progpow: the work object header's SealHash() *)
  q_nonce : Z;       (* kawpow: donor Nonce64(); progpow: NonceU64() *)
  q_num : Z;         (* kawpow: donor Height(); progpow: PrimeTerminusNumber().Uint64() (epoch / dataset size) *)
  q_mix : bytes      (* the mix hash the header carries: donor MixHash() resp. MixHash() *)
}.

Fixpoint le_bytes (n : nat) (x : Z) : bytes :=
  match n with O => [] | S n' => (x mod 256) :: le_bytes n' (x / 256) end.

Inductive engine_kind := EKawpow | EProgpow.

(* the bytes that are hashed into the cache key *)
Definition key_material (k : engine_kind) (q : pquery) : bytes :=
  match k with
  | EKawpow => q_hash q ++ le_bytes 8 (q_nonce q)                   (* Keccak256(kawpowHeaderHash, LittleEndian(nonce64)) *)
  | EProgpow => q_mix q ++ q_hash q ++ rev (le_bytes 8 (q_nonce q))  (* header.Hash() = blake3(mixHash | sealHash | nonce), no AuxPow *)
  end.

Definition ecache := list (bytes * (bytes * bytes)).   (* key -> (mixHash, workHash) *)

Fixpoint ec_find (k : bytes) (c : ecache) : option (bytes * bytes) :=
  match c with
  | [] => None
  | (k', r) :: t => if bytes_eqb k' k then Some r else ec_find k t
  end.

(* eviction: the entries under the given keys disappear (whatever the LRU policy picks) *)
Definition ec_evict (ks : list bytes) (c : ecache) : ecache :=
  filter (fun e => negb (existsb (bytes_eqb (fst e)) ks)) c.

Section Engine.
  Variable KH : bytes -> bytes.                   (* Keccak256 resp. blake3 *)
  Variable K : bytes -> Z -> Z -> bytes * bytes.   (* kernel: (hash, nonce, number) -> (mix, pow) *)
  Variable keyf : pquery -> bytes.                (* key material; the engines use [key_material kind] *)

  Definition kernel_of (q : pquery) : bytes * bytes := K (q_hash q) (q_nonce q) (q_num q).

  (* ComputePowLight: Peek, on a miss run the kernel and Add *)
  Definition pow_light (c : ecache) (q : pquery) : (bytes * bytes) * ecache :=
    let key := KH (keyf q) in
    match ec_find key c with
    | Some r => (r, c)
    | None => let r := kernel_of q in (r, (key, r) :: c)
    end.

  (* ComputePowHash: the header's mix must equal the computed one; None = ErrInvalidMixHash *)
  Definition mix_check (q : pquery) (r : bytes * bytes) : option bytes :=
    if bytes_eqb (q_mix q) (fst r) then Some (snd r) else None.

  Definition pow_hash (c : ecache) (q : pquery) : option bytes * ecache :=
    let '(r, c') := pow_light c q in (mix_check q r, c').

  (* the same without any cache: what a node that has never seen anything answers *)
  Definition pow_hash_pure (q : pquery) : option bytes := mix_check q (kernel_of q).

  (* a history of verifications, each preceded by an arbitrary eviction *)
  Fixpoint engine_run_ev (c : ecache) (qs : list (list bytes * pquery)) : list (option bytes) :=
    match qs with
    | [] => []
    | (ev, q) :: t => let '(o, c') := pow_hash (ec_evict ev c) q in o :: engine_run_ev c' t
    end.

  Definition engine_run (qs : list pquery) : list (option bytes) :=
    engine_run_ev [] (map (fun q => ([], q)) qs).
End Engine.

(* kernel answers recorded by the harness from an engine that has no result cache in the path
   (kawpow: VerifyKawpowShare; progpow: a fresh engine instance per input) *)
Definition ktable := list ((bytes * Z * Z) * (bytes * bytes)).
Fixpoint klookup (t : ktable) (h : bytes) (n num : Z) : bytes * bytes :=
  match t with
  | [] => ([], [])
  | ((h', n', num'), r) :: t' => if bytes_eqb h' h && (n' =? n) && (num' =? num) then r else klookup t' h n num
  end.

Definition obytes_list_eqb_step (a b : option bytes) : bool :=
  match a, b with
  | None, None => true
  | Some x, Some y => bytes_eqb x y
  | _, _ => false
  end.
Fixpoint oblist_eqb (a b : list (option bytes)) : bool :=
  match a, b with
  | [], [] => true
  | x :: a', y :: b' => obytes_list_eqb_step x y && oblist_eqb a' b'
  | _, _ => false
  end.

(* ------------------------------------------------------------------ correspondence cases *)

(* double-SHA256 as a finite table recorded by the harness from crypto/sha256 *)
Fixpoint lookup (tbl : list (bytes * bytes)) (x : bytes) : bytes :=
  match tbl with
  | [] => []
  | (k, v) :: t => if bytes_eqb k x then v else lookup t x
  end.

Definition table := list (bytes * bytes).

Inductive case_body :=
| CSeal (e : env) (h : hdr) (o : seal_verdict)
| CThr (e : env) (h : hdr) (k : Z) (o : thr_out)
| CWs (e : env) (h : hdr) (o : ws_class)
| CClass (e : env) (h : hdr) (o : ws_class)
| CKsd (h : hdr) (o : Z)
| CSealHash (ss : bytes) (o : option bytes)
| CSizeNonce (ss : bytes) (o : option (Z * Z))
| CSigTime (ss : bytes) (o : option Z)
| CHeight (ss : bytes) (o : option Z)
| CScriptSig (tx : bytes) (o : option bytes)
| CPrevOut (tx : bytes) (o : bool)
| CSlot (chain nonce size : Z) (o : Z)
| CMerkle (tbl : table) (powid : Z) (tx : bytes) (br : list bytes) (o : bytes)
| CAuxRoot (tbl : table) (doge seal : bytes) (o : bytes)
| CVH (tbl : table) (i : vh_in) (o : verdict)
| CUncle (tbl : table) (e : env) (h : hdr) (sibling invalid_addr : bool) (time : Z) (seal : bytes)
         (aux : option auxpow) (o : verdict)
(* a history of ComputePowHash calls on ONE real engine instance (kind 1 = kawpow, otherwise progpow), oldest first:
   o = what the engine answered (None = error) *)
| CEngine (kind : Z) (kt : ktable) (qs : list pquery) (o : list (option bytes))
(* AuxPow.ConvertToTemplate on a received AuxPoW: o = the template's getters *)
| CTmpl (a : auxfull) (o : template).

Definition case := (N * case_body)%type.

Definition seal_verdict_eqb (a b : seal_verdict) : bool :=
  match a, b with
  | SealOk, SealOk | SealFake, SealFake | SealBadDiff, SealBadDiff
  | SealEngineErr, SealEngineErr | SealBadPow, SealBadPow => true
  | _, _ => false
  end.
Definition thr_out_eqb (a b : thr_out) : bool :=
  match a, b with
  | WPanic, WPanic => true
  | WBool x, WBool y => Bool.eqb x y
  | _, _ => false
  end.
Definition ws_class_eqb (a b : ws_class) : bool :=
  match a, b with
  | WsValid, WsValid | WsSub, WsSub | WsInvalid, WsInvalid | WsBlock, WsBlock | WsPanic, WsPanic => true
  | _, _ => false
  end.
Definition verdict_eqb (a b : verdict) : bool :=
  match a, b with
  | Accept, Accept | Reject, Reject | Panic, Panic => true
  | _, _ => false
  end.
Definition obytes_eqb (a b : option bytes) : bool :=
  match a, b with
  | None, None => true
  | Some x, Some y => bytes_eqb x y
  | _, _ => false
  end.
Definition oz_eqb (a b : option Z) : bool :=
  match a, b with
  | None, None => true
  | Some x, Some y => x =? y
  | _, _ => false
  end.
Definition ozz_eqb (a b : option (Z * Z)) : bool :=
  match a, b with
  | None, None => true
  | Some (x, y), Some (x', y') => (x =? x') && (y =? y')
  | _, _ => false
  end.

Fixpoint blist_eqb (a b : list bytes) : bool :=
  match a, b with
  | [], [] => true
  | x :: a', y :: b' => bytes_eqb x y && blist_eqb a' b'
  | _, _ => false
  end.
Definition template_eqb (a b : template) : bool :=
  (t_powid a =? t_powid b) && bytes_eqb (t_prev a) (t_prev b) && (t_version a =? t_version b) && (t_bits a =? t_bits b)
  && obytes_eqb (t_aux2 a) (t_aux2 b) && (t_sigtime a =? t_sigtime b) && (t_height a =? t_height b)
  && obytes_eqb (t_out a) (t_out b) && blist_eqb (t_branch a) (t_branch b) && bytes_eqb (t_sigs a) (t_sigs b).

Definition body_ok (c : case_body) : bool :=
  match c with
  | CSeal e h o => seal_verdict_eqb (verify_seal e h) o
  | CThr e h k o => thr_out_eqb (check_work_threshold e h k) o
  | CWs e h o => ws_class_eqb (check_valid_ws e h) o
  | CClass e h o => ws_class_eqb (classify e h) o
  | CKsd h o => kawpow_share_diff h =? o
  | CSealHash ss o => obytes_eqb (extract_seal_hash ss) o
  | CSizeNonce ss o => ozz_eqb (extract_size_nonce ss) o
  | CSigTime ss o => oz_eqb (extract_sig_time ss) o
  | CHeight ss o => oz_eqb (extract_height ss) o
  | CScriptSig tx o => obytes_eqb (extract_script_sig tx) o
  | CPrevOut tx o => Bool.eqb (validate_prevout tx) o
  | CSlot c n s o => merkle_slot c n s =? o
  | CMerkle tbl id tx br o => bytes_eqb (merkle_root (lookup tbl) id tx br) o
  | CAuxRoot tbl d s o => bytes_eqb (aux_merkle_root (lookup tbl) d s) o
  | CVH tbl i o => verdict_eqb (verify_header_c08 (lookup tbl) i) o
  | CUncle tbl e h sb ia t s a o => verdict_eqb (verify_uncle_c08 (lookup tbl) e h sb ia t s a) o
  | CEngine kind kt qs o =>
      let k := if kind =? 1 then EKawpow else EProgpow in
      oblist_eqb (engine_run (fun x => x) (klookup kt) (key_material k) qs) o
  | CTmpl a o => template_eqb (template_of a) o
  end.

Definition case_ok (c : case) : bool := body_ok (snd c).
Definition mismatches (cs : list case) : list N :=
  map fst (filter (fun c => negb (case_ok c)) cs).

(* C04 (b): the acceptance discipline of Process over the queue refines a comparison of
   two lists; an accepted block consumed exactly the next items of (queue ++ parent inbound). *)
From Coq Require Import List NArith Lia ZifyBool ZifyNat ZifyN Bool.
From GQ Require Import Lib.Key Lib.SMap Lib.C04_BigEndian Lib.C04_Expr Model.C04 Proofs.C04_Queue.
Import ListNotations.
Local Open Scope N_scope.

Lemma nodup_app_l (A : Type) (l1 l2 : list A) : NoDup (l1 ++ l2) -> NoDup l1.
Proof.
  induction l1 as [|a l1 IH]; cbn; intros Hn; [constructor|].
  inversion Hn as [|? ? Hnot Hrest]; subst. constructor; [|apply IH; exact Hrest].
  intros Hin. apply Hnot. apply in_or_app. left. exact Hin.
Qed.

Definition gas_sum (blk : list (etx * N)) : N := fold_right (fun x a => snd x + a) 0 blk.

(* the guards as the generator sees them mean what the model's boolean functions say *)
Lemma count_rule_expr_sem num avail count gas gl :
  beval (rule_env num count gas gl) (rule_benv avail) count_rule_expr = count_rule_viol num avail count.
Proof. reflexivity. Qed.

Lemma gas_rule_expr_sem num avail count gas gl :
  beval (rule_env num count gas gl) (rule_benv avail) gas_rule_expr = gas_rule_viol num avail gas gl.
Proof. reflexivity. Qed.

Section Accept.
  Variable H : Type.
  Variable hash : etx -> H.
  Variable heqb : H -> H -> bool.
  (* the comparison used by Process is equality of hashes *)
  Hypothesis heqb_spec : forall a b, heqb a b = true <-> a = b.

  Definition collision : Prop := exists a b : etx, a <> b /\ hash a = hash b.

  (* list-level reading of the loop: verdict and number of items taken off the queue *)
  Fixpoint cmp_spec (q : list etx) (blk : list (etx * N)) {struct blk} : verdict * nat :=
    match blk with
    | [] => (VAccept, O)
    | (x, _) :: blk' =>
        match q with
        | [] => (VPopNil, O)
        | e :: q' =>
            if heqb (hash e) (hash x)
            then let '(v, k) := cmp_spec q' blk' in (v, S k)
            else (VHashMismatch, 1%nat)
        end
    end.

  Definition list_accept (q : list etx) (blk : list (etx * N)) (num gaslimit : N) : verdict :=
    match fst (cmp_spec q blk) with
    | VAccept =>
        let avail := match skipn (length blk) q with [] => false | _ => true end in
        if count_rule_viol num avail (N.of_nat (length blk)) then VCountRule
        else if gas_rule_viol num avail (gas_sum blk) gaslimit then VGasRule
        else VAccept
    | v => v
    end.

  Lemma pop_compare_refines blk : forall t c g, Inv t ->
    let r := pop_compare H hash heqb t blk c g in
    let v := fst (fst (fst r)) in let t1 := snd (fst (fst r)) in
    v = fst (cmp_spec (abs t) blk) /\ Inv t1 /\ abs t1 = skipn (snd (cmp_spec (abs t) blk)) (abs t) /\
    (v = VAccept -> snd (fst r) = c + N.of_nat (length blk) /\ snd r = g + gas_sum blk).
  Proof.
    induction blk as [|[x gx] blk IH]; intros t c g I; cbn zeta.
    - cbn. split; [reflexivity|split; [exact I|split; [reflexivity|]]]. intros _. split; lia.
    - cbn [pop_compare cmp_spec]. pose proof (pop_etx_spec t I) as P.
      destruct (abs t) as [|e rest] eqn:EA.
      + rewrite P. cbn. split; [reflexivity|split; [exact I|split; [auto|discriminate]]].
      + destruct P as (t' & -> & I' & A & _).
        destruct (heqb (hash e) (hash x)) eqn:Eh.
        * specialize (IH t' (c + 1) (g + gx) I'). cbn zeta in IH. rewrite A in IH.
          destruct IH as (V & I1 & A1 & G).
          destruct (cmp_spec rest blk) as [v k] eqn:Ec. cbn [fst snd] in *.
          split; [exact V|split; [exact I1|split; [exact A1|]]]. intros H0. split.
          -- apply G in H0. destruct H0 as [H1 _]. rewrite H1. cbn [length]. lia.
          -- apply G in H0. destruct H0 as [_ H2]. rewrite H2. cbn [gas_sum fold_right snd]. fold (gas_sum blk). lia.
        * cbn [fst snd skipn]. split; [reflexivity|split; [exact I'|split; [exact A|discriminate]]].
  Qed.

  Lemma cmp_spec_accept blk : forall q, fst (cmp_spec q blk) = VAccept ->
    (length blk <= length q)%nat /\ snd (cmp_spec q blk) = length blk /\
    map hash (map fst blk) = map hash (firstn (length blk) q).
  Proof.
    induction blk as [|[x gx] blk IH]; intros q Hv.
    - cbn. repeat split; lia.
    - destruct q as [|e q]; cbn [cmp_spec] in *; [discriminate|].
      destruct (heqb (hash e) (hash x)) eqn:Eh; [|discriminate].
      specialize (IH q).
      destruct (cmp_spec q blk) as [v k] eqn:Ec. cbn [fst snd] in *.
      destruct (IH Hv) as (L & K & M).
      apply heqb_spec in Eh. cbn [length map firstn fst]. repeat split; [lia|lia|].
      rewrite Eh, M. reflexivity.
  Qed.

  Lemma cmp_spec_complete blk : forall q, (length blk <= length q)%nat ->
    map hash (map fst blk) = map hash (firstn (length blk) q) -> fst (cmp_spec q blk) = VAccept.
  Proof.
    induction blk as [|[x gx] blk IH]; intros q L M; [reflexivity|].
    destruct q as [|e q]; cbn [length] in L; [lia|].
    cbn [length map firstn fst] in M. inversion M as [[M1 M2]].
    assert (Eh : heqb (hash e) (hash x) = true) by (apply heqb_spec; auto).
    cbn [cmp_spec]. rewrite Eh. specialize (IH q ltac:(lia) M2).
    destruct (cmp_spec q blk) as [v k]. exact IH.
  Qed.

  (* the verdict of the loop alone never is one of the rule verdicts *)
  Lemma cmp_spec_verdicts blk : forall q,
    fst (cmp_spec q blk) = VAccept \/ fst (cmp_spec q blk) = VPopNil \/ fst (cmp_spec q blk) = VHashMismatch.
  Proof.
    induction blk as [|[x gx] blk IH]; intros q; cbn [cmp_spec]; auto.
    destruct q as [|e q]; cbn; auto.
    destruct (heqb (hash e) (hash x)); cbn; auto.
    specialize (IH q). destruct (cmp_spec q blk) as [v k]. exact IH.
  Qed.

  (* a block longer than what is queued is refused (nil pop or an earlier mismatch) *)
  Lemma cmp_spec_too_long q blk : (length q < length blk)%nat -> fst (cmp_spec q blk) <> VAccept.
  Proof. intros L Hv. apply cmp_spec_accept in Hv. lia. Qed.

  Lemma map_hash_eq_or_collision (l1 l2 : list etx) :
    map hash l1 = map hash l2 -> l1 = l2 \/ collision.
  Proof.
    revert l2; induction l1 as [|a l1 IH]; intros [|b l2] M; cbn in M; try discriminate; auto.
    inversion M as [[M1 M2]]. destruct (IH l2 M2) as [->|C]; auto.
    destruct (list_eq_dec N.eq_dec a b) as [->|Nab]; auto.
    right. exists a, b. auto.
  Qed.

  Lemma accept_block_refines t inbound blk num gl : Inv t -> wf_etxs inbound ->
    let r := accept_block H hash heqb t inbound blk num gl in
    let Q := abs t ++ inbound in
    fst r = list_accept Q blk num gl /\ Inv (snd r) /\ abs (snd r) = skipn (snd (cmp_spec Q blk)) Q.
  Proof.
    intros I W. cbn zeta. unfold accept_block.
    set (t0 := match inbound with [] => t | _ => push_etxs t inbound end).
    assert (I0 : Inv t0 /\ abs t0 = abs t ++ inbound).
    { unfold t0. destruct inbound as [|e l]; [rewrite app_nil_r; auto|].
      destruct (push_etxs_spec t (e :: l) I W) as (I' & _ & _ & A & _). auto. }
    destruct I0 as [I0 A0].
    pose proof (pop_compare_refines blk t0 0 0 I0) as P. cbn zeta in P. rewrite A0 in P.
    destruct (pop_compare H hash heqb t0 blk 0 0) as [[[v t1] c'] g']. cbn [fst snd] in P.
    destruct P as (V & I1 & A1 & G). unfold list_accept. rewrite <- V.
    destruct v; cbn [fst snd]; try (split; [reflexivity|split; assumption]).
    destruct (G eq_refl) as [-> ->]. rewrite !N.add_0_l.
    rewrite (read_oldest_spec t1 I1), A1.
    assert (K : snd (cmp_spec (abs t ++ inbound) blk) = length blk).
    { symmetry in V. apply cmp_spec_accept in V. tauto. }
    rewrite K.
    set (rest := skipn (length blk) (abs t ++ inbound)).
    replace (match hd_error rest with Some _ => true | None => false end)
      with (match rest with [] => false | _ => true end) by (destruct rest; reflexivity).
    generalize (match rest with [] => false | _ => true end). intros avail.
    assert (A2 : abs t1 = rest) by (unfold rest; rewrite A1, K; reflexivity).
    destruct (count_rule_viol num avail (N.of_nat (length blk)));
      [cbn [fst snd]; split; [reflexivity|split; assumption]|].
    destruct (gas_rule_viol num avail (gas_sum blk) gl);
      cbn [fst snd]; (split; [reflexivity|split; assumption]).
  Qed.

  Lemma list_accept_inv q blk num gl : list_accept q blk num gl = VAccept ->
    fst (cmp_spec q blk) = VAccept /\
    let avail := match skipn (length blk) q with [] => false | _ => true end in
    count_rule_viol num avail (N.of_nat (length blk)) = false /\
    gas_rule_viol num avail (gas_sum blk) gl = false.
  Proof.
    unfold list_accept. destruct (fst (cmp_spec q blk)); try discriminate.
    cbn zeta. destruct (count_rule_viol _ _ _); [discriminate|].
    destruct (gas_rule_viol _ _ _ _); [discriminate|]. auto.
  Qed.

  Lemma list_accept_complete q blk num gl :
    fst (cmp_spec q blk) = VAccept ->
    (let avail := match skipn (length blk) q with [] => false | _ => true end in
     count_rule_viol num avail (N.of_nat (length blk)) = false /\
     gas_rule_viol num avail (gas_sum blk) gl = false) ->
    list_accept q blk num gl = VAccept.
  Proof.
    unfold list_accept. intros -> [-> ->]. reflexivity.
  Qed.

  Lemma skipn_nonempty_iff (A : Type) (l : list A) n :
    (match skipn n l with [] => false | _ => true end) = Nat.ltb n (length l).
  Proof.
    revert n; induction l as [|a l IH]; intros [|n]; cbn [skipn length]; try reflexivity.
    rewrite IH. reflexivity.
  Qed.

  (* ---------- the theorems about block acceptance ---------- *)

  Lemma accept_next_items t inbound blk num gl t' : Inv t -> wf_etxs inbound ->
    accept_block H hash heqb t inbound blk num gl = (VAccept, t') ->
    let Q := abs t ++ inbound in
    (length blk <= length Q)%nat /\
    (map fst blk = firstn (length blk) Q \/ collision) /\
    abs t' = skipn (length blk) Q /\ Inv t'.
  Proof.
    intros I W E. cbn zeta.
    destruct (accept_block_refines t inbound blk num gl I W) as (V & I' & A).
    rewrite E in V, I', A. cbn [fst snd] in *. symmetry in V.
    apply list_accept_inv in V as [V _]. apply cmp_spec_accept in V as (L & K & M).
    rewrite K in A. split; [exact L|split; [apply map_hash_eq_or_collision; exact M|split; assumption]].
  Qed.

  Lemma reject_not_next_items t inbound blk num gl : Inv t -> wf_etxs inbound ->
    let Q := abs t ++ inbound in
    ~ ((length blk <= length Q)%nat /\ map hash (map fst blk) = map hash (firstn (length blk) Q)) ->
    fst (accept_block H hash heqb t inbound blk num gl) <> VAccept.
  Proof.
    intros I W Q Hn Hv.
    destruct (accept_block_refines t inbound blk num gl I W) as (V & _ & _).
    rewrite Hv in V. symmetry in V. apply list_accept_inv in V as [V _].
    apply cmp_spec_accept in V as (L & _ & M). apply Hn. split; assumption.
  Qed.

  Lemma accept_iff t inbound blk num gl : Inv t -> wf_etxs inbound ->
    let Q := abs t ++ inbound in
    let avail := Nat.ltb (length blk) (length Q) in
    fst (accept_block H hash heqb t inbound blk num gl) = VAccept <->
    ((length blk <= length Q)%nat /\ map hash (map fst blk) = map hash (firstn (length blk) Q) /\
     count_rule_viol num avail (N.of_nat (length blk)) = false /\
     gas_rule_viol num avail (gas_sum blk) gl = false).
  Proof.
    intros I W. cbn zeta.
    destruct (accept_block_refines t inbound blk num gl I W) as (V & _ & _). rewrite V.
    rewrite <- (skipn_nonempty_iff _ (abs t ++ inbound) (length blk)). split.
    - intros Hv. apply list_accept_inv in Hv as (Hc & R1 & R2).
      apply cmp_spec_accept in Hc as (L & _ & M). auto.
    - intros (L & M & R1 & R2). apply list_accept_complete; [apply cmp_spec_complete; assumption|].
      cbn zeta. auto.
  Qed.

  (* a block may not ignore a non-empty queue beyond the minimum-inclusion rule, nor
     exceed the maximum *)
  Lemma min_inclusion t inbound blk num gl : Inv t -> wf_etxs inbound ->
    fst (accept_block H hash heqb t inbound blk num gl) = VAccept ->
    let Q := abs t ++ inbound in
    let n := N.of_nat (length blk) in
    (num <= P_TIME_TO_START_TX -> n <= P_MAX_COUNT /\ ((length blk < length Q)%nat -> P_MIN_COUNT <= n)) /\
    (P_TIME_TO_START_TX < num -> gas_sum blk <= max_etx_gas gl /\
                                  ((length blk < length Q)%nat -> min_etx_gas gl <= gas_sum blk)).
  Proof.
    intros I W Hv. cbn zeta. apply (accept_iff t inbound blk num gl I W) in Hv.
    destruct Hv as (_ & _ & R1 & R2). unfold count_rule_viol in R1. unfold gas_rule_viol in R2.
    split; intros Hn.
    - split; [lia|]. intros Hl. lia.
    - split; [lia|]. intros Hl. lia.
  Qed.

  (* duplicates: if the pending items have pairwise distinct hashes, an accepted block
     contains no ETX twice *)
  Lemma accept_no_duplicates t inbound blk num gl : Inv t -> wf_etxs inbound ->
    NoDup (map hash (abs t ++ inbound)) ->
    fst (accept_block H hash heqb t inbound blk num gl) = VAccept ->
    NoDup (map hash (map fst blk)).
  Proof.
    intros I W ND Hv. apply (accept_iff t inbound blk num gl I W) in Hv.
    destruct Hv as (_ & M & _). rewrite M.
    set (Q := abs t ++ inbound) in *. rewrite <- (firstn_skipn (length blk) Q), map_app in ND.
    apply nodup_app_l in ND. exact ND.
  Qed.

  (* ---------- chains of blocks ---------- *)

  Lemma accept_hash_split t inbound blk num gl t' : Inv t -> wf_etxs inbound ->
    accept_block H hash heqb t inbound blk num gl = (VAccept, t') ->
    map hash (abs t ++ inbound) = map hash (map fst blk) ++ map hash (abs t') /\ Inv t'.
  Proof.
    intros I W E.
    destruct (accept_block_refines t inbound blk num gl I W) as (V & I' & A).
    rewrite E in V, I', A. cbn [fst snd] in *. symmetry in V.
    apply list_accept_inv in V as [V _]. apply cmp_spec_accept in V as (L & K & M).
    rewrite K in A. split; [|exact I'].
    rewrite M, A, <- map_app, firstn_skipn. reflexivity.
  Qed.

  (* ETXs executed by the accepted candidates, in chain order *)
  Fixpoint chain_executed (t : trie) (inb : list etx) (cs : list cand) : list etx :=
    match cs with
    | [] => []
    | (blk, num, gl, next) :: cs' =>
        let '(v, t') := accept_block H hash heqb t inb blk num gl in
        match v with
        | VAccept => map fst blk ++ chain_executed t' next cs'
        | _ => chain_executed t inb cs'
        end
    end.

  (* inbound sets attached to the accepted candidates (what the dominant chain delivered) *)
  Fixpoint chain_delivered (t : trie) (inb : list etx) (cs : list cand) : list etx :=
    match cs with
    | [] => []
    | (blk, num, gl, next) :: cs' =>
        let '(v, t') := accept_block H hash heqb t inb blk num gl in
        match v with
        | VAccept => next ++ chain_delivered t' next cs'
        | _ => chain_delivered t inb cs'
        end
    end.

  Definition wf_cands (cs : list cand) : Prop := Forall (fun c : cand => wf_etxs (snd c)) cs.

  Lemma wf_etxs_app l1 l2 : wf_etxs l1 -> wf_etxs l2 -> wf_etxs (l1 ++ l2).
  Proof. unfold wf_etxs. intros. apply Forall_app. auto. Qed.

  (* over any sequence of candidate blocks (accepted or refused): everything pending at the
     start or delivered on the way is either executed by an accepted block -- once, in queue
     order -- or still pending at the end *)
  Lemma chain_conservation cs : forall t inb, Inv t -> wf_etxs inb -> wf_cands cs ->
    let r := run_chain H hash heqb t inb cs in
    Inv (snd (fst r)) /\ wf_etxs (snd r) /\
    map hash (abs t ++ inb) ++ map hash (chain_delivered t inb cs) =
    map hash (chain_executed t inb cs) ++ map hash (abs (snd (fst r)) ++ snd r).
  Proof.
    induction cs as [|[[[blk num] gl] next] cs IH]; intros t inb I W Wc; cbn zeta.
    - cbn. rewrite app_nil_r. auto.
    - inversion Wc as [|? ? Wn Wcs]; subst. cbn [snd] in Wn.
      cbn [run_chain chain_executed chain_delivered].
      destruct (accept_block H hash heqb t inb blk num gl) as [v t'] eqn:E.
      destruct v.
      + destruct (accept_hash_split t inb blk num gl t' I W E) as [Sp I'].
        specialize (IH t' next I' Wn Wcs). cbn zeta in IH.
        destruct (run_chain H hash heqb t' next cs) as [[vs tf] inbf]. cbn [fst snd] in *.
        destruct IH as (If & Wf & C). split; [exact If|split; [exact Wf|]].
        rewrite Sp, !map_app, <- !app_assoc. f_equal.
        rewrite !map_app in C. rewrite app_assoc. exact C.
      + specialize (IH t inb I W Wcs). cbn zeta in IH.
        destruct (run_chain H hash heqb t inb cs) as [[vs tf] inbf]. cbn [fst snd] in *.
        destruct IH as (If & Wf & C). split; [exact If|split; [exact Wf|exact C]].
      + specialize (IH t inb I W Wcs). cbn zeta in IH.
        destruct (run_chain H hash heqb t inb cs) as [[vs tf] inbf]. cbn [fst snd] in *.
        destruct IH as (If & Wf & C). split; [exact If|split; [exact Wf|exact C]].
      + specialize (IH t inb I W Wcs). cbn zeta in IH.
        destruct (run_chain H hash heqb t inb cs) as [[vs tf] inbf]. cbn [fst snd] in *.
        destruct IH as (If & Wf & C). split; [exact If|split; [exact Wf|exact C]].
      + specialize (IH t inb I W Wcs). cbn zeta in IH.
        destruct (run_chain H hash heqb t inb cs) as [[vs tf] inbf]. cbn [fst snd] in *.
        destruct IH as (If & Wf & C). split; [exact If|split; [exact Wf|exact C]].
  Qed.

  Lemma chain_no_double_execution cs t inb : Inv t -> wf_etxs inb -> wf_cands cs ->
    NoDup (map hash (abs t ++ inb) ++ map hash (chain_delivered t inb cs)) ->
    NoDup (map hash (chain_executed t inb cs)).
  Proof.
    intros I W Wc ND. destruct (chain_conservation cs t inb I W Wc) as (_ & _ & C).
    rewrite C in ND. apply nodup_app_l in ND. exact ND.
  Qed.
End Accept.

(* non-vacuity material: a concrete queue and blocks *)
Definition ex_t : trie := push_etxs (init_at 254) [[1]; [2]; [3]].
Lemma ex_t_inv : Inv ex_t.
Proof. apply push_etxs_spec; [apply init_at_inv|]. repeat constructor; discriminate. Qed.

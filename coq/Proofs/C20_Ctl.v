(* C20 -- extension round: the exchange-rate controller (CalculateKQuai,
   CalculateBetaFromMiningChoiceAndConversions), the prime block with the controller's rate, and
   the pipeline after Prime composed into one function per repriced ETX.  Lemmas only. *)
From Coq Require Import List ZArith NArith Bool Lia Permutation.
From Coq Require String.
From GQ Require Import Generated.C20Params Model.C20 Proofs.C20.
Import ListNotations.
Local Open Scope Z_scope.

(* ---------- generated data ---------- *)

(* obligations on the controller constants regenerated from params on every run *)
Definition ctl_params_ok : bool :=
  (1 <=? one_over_alpha) && (1 <=? token_choice_set_size) && (0 <=? exchange_rate0)
  && (0 <=? exchange_rate_reset_after_kawpow) && (0 <=? exchange_rate_after_sha_fork)
  && forallb (fun p => (0 <=? snd p) && (snd p <=? 100)) kquai_change_table
  && (controller_kick_in_block + token_choice_set_size <=? kquai_change_block)
  && (kquai_change_block <? kawpow_fork_block) && (kawpow_fork_block <? sha_equivalent_fork_block)
  && (kquai_reset_after_kawpow_fork_block =? kawpow_fork_block)
  && (0 <? exchange_rate_hold_interval) && (0 <? exchange_rate_hold_interval_after_sha)
  && (0 <? kquai_change_hold_interval).
Lemma ctl_params_ok_true : ctl_params_ok = true.
Proof. vm_compute. reflexivity. Qed.

Module CtlDigest.
  Import String.
  (* CalculateKQuai / CalculateBetaFromMiningChoiceAndConversions as reviewed when the model was
     written (statement shapes, see Generated/C20Params.v) *)
  Definition reviewed_kquai_shape_sha256 : string :=
    "25eabcbd7ba97433abc06c92dcde9fd48ae79a98be8b866640f879187d0ad986"%string.
  Definition reviewed_beta_shape_sha256 : string :=
    "f1c76e3b7a23dc98fb485febc27513577adfdd8dfd1b1217698fd546830f6cad"%string.
End CtlDigest.
Lemma ctl_shapes_reviewed :
  kquai_shape_sha256 = CtlDigest.reviewed_kquai_shape_sha256 /\ kquai_shape_len = 16 /\
  beta_shape_sha256 = CtlDigest.reviewed_beta_shape_sha256 /\ beta_shape_len = 38.
Proof. vm_compute. repeat split; reflexivity. Qed.

Lemma alpha_pos : 1 <= one_over_alpha.
Proof. vm_compute. discriminate. Qed.
Lemma set_size_pos : 1 <= token_choice_set_size.
Proof. vm_compute. discriminate. Qed.
Lemma two64_pos' : 0 < two64.
Proof. reflexivity. Qed.

(* ---------- CalculateKQuai ---------- *)

(* everything the theorems say about one controller step, for an arbitrary alpha >= 1 *)
Lemma kquai_core : forall A k d1 num1 q,
  1 <= A -> 0 <= k -> 0 < d1 -> - d1 <= num1 ->
  q = (num1 * k + k * (d1 * A)) / (d1 * A) ->
  0 <= q /\ k * (A - 1) - A < q * A /\ (0 <= num1 -> k <= q) /\ (num1 <= 0 -> q <= k).
Proof.
  intros A k d1 num1 q HA Hk Hd Hn Hq.
  assert (Hden : 0 < d1 * A) by nia.
  set (den := d1 * A) in *.
  set (N := num1 * k + k * den) in *.
  assert (HN : N = k * (num1 + den)) by (unfold N; ring).
  assert (Hlow : k * (d1 * (A - 1)) <= N).
  { rewrite HN. apply Z.mul_le_mono_nonneg_l; [assumption|]. unfold den. nia. }
  assert (HN0 : 0 <= N) by nia.
  pose proof (Z.div_mod N den ltac:(lia)) as Hdm.
  pose proof (Z.mod_pos_bound N den Hden) as Hr.
  rewrite <- Hq in Hdm.
  split; [subst q; apply Z.div_pos; assumption|].
  split.
  - (* d1 * (q*A) = den*q = N - r > N - den >= k*d1*(A-1) - d1*A *)
    assert (H1 : d1 * (k * (A - 1) - A) < d1 * (q * A)).
    { replace (d1 * (q * A)) with (den * q) by (unfold den; ring).
      replace (d1 * (k * (A - 1) - A)) with (k * (d1 * (A - 1)) - den) by (unfold den; ring). lia. }
    apply Z.mul_lt_mono_pos_l in H1; assumption.
  - split; intro Hs.
    + subst q. apply Z.div_le_lower_bound; [assumption|]. rewrite HN. nia.
    + subst q. apply Z.div_le_upper_bound; [assumption|]. rewrite HN. nia.
Qed.

Lemma calc_kquai_spec : forall k d d2 bn xb r,
  0 <= k -> 0 <= d -> 0 <= d2 -> 0 <= xb ->
  calc_kquai k d d2 bn xb = Some r ->
  1 <= d /\ 0 <= r /\ k * (one_over_alpha - 1) - one_over_alpha < r * one_over_alpha /\
  (0 < xb * d2 - two64 * d -> k <= r) /\ (xb * d2 - two64 * d <= 0 -> r <= k) /\
  (xb * d2 = two64 * d -> r = k).
Proof.
  intros k d d2 bn xb r Hk Hd Hd2 Hxb H.
  pose proof alpha_pos as HA. pose proof two64_pos' as H64.
  unfold calc_kquai in H.
  set (d1 := two64 * d) in *.
  set (num0 := xb * d2 - d1) in *.
  destruct (Z.eqb_spec (d1 * one_over_alpha) 0) as [E|E]; [discriminate|].
  assert (Hd1 : 0 < d1).
  { assert (0 <= d1) by (unfold d1; nia). assert (d1 <> 0) by (intro Z0; apply E; rewrite Z0; ring). lia. }
  assert (Hdge : 1 <= d) by (unfold d1 in Hd1; nia).
  assert (Hn0 : - d1 <= num0) by (unfold num0; nia).
  set (num1 := if (kquai_change_block <? bn) && (0 <? num0)
               then (if bn <? kawpow_fork_block then num0 / 3 else num0) else num0) in *.
  assert (Hn1 : - d1 <= num1 /\ (0 < num0 -> 0 <= num1) /\ (num0 <= 0 -> num1 = num0)).
  { unfold num1. destruct (kquai_change_block <? bn); cbn [andb].
    - destruct (Z.ltb_spec 0 num0).
      + destruct (bn <? kawpow_fork_block).
        * assert (0 <= num0 / 3) by (apply Z.div_pos; lia). repeat split; lia.
        * repeat split; lia.
      + repeat split; lia.
    - repeat split; lia. }
  destruct Hn1 as (Ha & Hb & Hc).
  assert (HN0 : 0 <= num1 * k + k * (d1 * one_over_alpha)).
  { replace (num1 * k + k * (d1 * one_over_alpha)) with (k * (num1 + d1 * one_over_alpha)) by ring.
    apply Z.mul_nonneg_nonneg; [assumption|]. nia. }
  rewrite Z.quot_div_nonneg in H by nia.
  injection H as H. symmetry in H.
  destruct (kquai_core one_over_alpha k d1 num1 r HA Hk Hd1 Ha H) as (R0 & R1 & R2 & R3).
  split; [assumption|]. split; [assumption|]. split; [assumption|].
  fold d1. fold num0.
  split; [intro; apply R2; apply Hb; assumption|].
  split; [intro Hle; apply R3; rewrite (Hc Hle); assumption|].
  intro Heq. assert (Hz : num0 = 0) by (unfold num0; lia).
  assert (num1 = 0) by (rewrite Hc; lia).
  assert (k <= r) by (apply R2; lia). assert (r <= k) by (apply R3; lia). lia.
Qed.

(* ---------- CalculateBetaFromMiningChoiceAndConversions ---------- *)

Definition ctl_ok (c : ctl_in) : Prop :=
  0 <= c_md c /\ 0 <= c_logmd c /\ 0 <= c_logbest c /\
  Forall (fun p => 0 <= fst p /\ 0 <= snd p) (c_runs c).

Lemma total_diff_nonneg : forall runs,
  Forall (fun p => 0 <= fst p /\ 0 <= snd p) runs -> 0 <= total_diff runs.
Proof.
  induction 1 as [|p l (A & B) _ IH]; cbn [total_diff fold_right]; [lia|].
  unfold total_diff in IH. nia.
Qed.

Lemma change_table_scan_nonneg : forall tab bn parent r,
  Forall (fun p => 0 <= snd p) tab -> 0 <= exchange_rate0 -> 0 <= parent ->
  change_table_scan tab bn parent = Some r -> 0 <= r.
Proof.
  induction tab as [|[b pct] tab IH]; intros bn parent r Hf H0 Hp H; cbn [change_table_scan] in H.
  - discriminate.
  - inversion Hf as [|x l Hpct Hrest]; subst. cbn [snd] in Hpct.
    destruct (bn =? b).
    + destruct (bn =? kquai_change_block); injection H as H; subst r; [assumption|].
      apply Z.div_pos; nia.
    + destruct ((b <? bn) && (bn <? b + kquai_change_hold_interval)).
      * injection H as H; subst r; assumption.
      * exact (IH bn parent r Hrest H0 Hp H).
Qed.

Lemma table_pcts_nonneg : Forall (fun p : Z * Z => 0 <= snd p) kquai_change_table.
Proof. unfold kquai_change_table. repeat constructor; cbn [snd]; lia. Qed.
Lemma rate_constants_nonneg :
  0 <= exchange_rate0 /\ 0 <= exchange_rate_reset_after_kawpow /\ 0 <= exchange_rate_after_sha_fork.
Proof. unfold exchange_rate0, exchange_rate_reset_after_kawpow, exchange_rate_after_sha_fork. lia. Qed.

Lemma fork_override_nonneg : forall bn parent r,
  0 <= parent -> fork_override bn parent = Some r -> 0 <= r.
Proof.
  intros bn parent r Hp H. destruct rate_constants_nonneg as (C0 & C1 & C2).
  unfold fork_override in H.
  destruct (bn <? kawpow_fork_block).
  - exact (change_table_scan_nonneg _ _ _ _ table_pcts_nonneg C0 Hp H).
  - destruct ((kawpow_fork_block <=? bn) && (bn <? sha_equivalent_fork_block)).
    + destruct (bn =? kquai_reset_after_kawpow_fork_block); [injection H as H; subst; assumption|].
      destruct ((kquai_reset_after_kawpow_fork_block <? bn) && _); [injection H as H; subst; assumption|discriminate].
    + destruct (bn =? sha_equivalent_fork_block); [injection H as H; subst; assumption|].
      destruct ((sha_equivalent_fork_block <? bn) && _); [injection H as H; subst; assumption|discriminate].
Qed.

Lemma beta_rate_nonneg : forall parent c r,
  0 <= parent -> ctl_ok c -> beta_rate parent c = Some r -> 0 <= r.
Proof.
  intros parent c r Hp (Hmd & Hlmd & Hlb & Hruns) H.
  destruct rate_constants_nonneg as (C0 & _).
  unfold beta_rate in H.
  destruct (c_bn c <? controller_kick_in_block + token_choice_set_size).
  { injection H as H; subst; assumption. }
  destruct (fork_override (c_bn c) parent) as [r'|] eqn:Ef.
  { injection H as H; subst. exact (fork_override_nonneg _ _ _ Hp Ef). }
  destruct (Z.eqb_spec (c_logbest c) 0); [discriminate|].
  pose proof (total_diff_nonneg _ Hruns) as Ht. pose proof set_size_pos as Hs.
  assert (Hb : 0 <= total_diff (c_runs c) / token_choice_set_size) by (apply Z.div_pos; lia).
  assert (Hxb : 0 <= total_diff (c_runs c) / token_choice_set_size * two64 / c_logbest c).
  { apply Z.div_pos; [|lia]. pose proof two64_pos'. nia. }
  destruct (calc_kquai_spec _ _ _ _ _ _ Hp Hmd Hlmd Hxb H) as (_ & R & _). assumption.
Qed.

Lemma ctl_fork_order :
  kquai_reset_after_kawpow_fork_block = kawpow_fork_block /\ kquai_change_block < kawpow_fork_block /\
  kawpow_fork_block < sha_equivalent_fork_block /\
  controller_kick_in_block + token_choice_set_size <= kquai_change_block.
Proof.
  unfold kquai_reset_after_kawpow_fork_block, kawpow_fork_block, kquai_change_block,
    sha_equivalent_fork_block, controller_kick_in_block, token_choice_set_size. lia.
Qed.

(* the rate is frozen during the hold intervals that follow the two fork resets, and pinned to the
   protocol constants at the reset blocks, whatever the window and the difficulty say *)
Lemma beta_rate_fork_regimes : forall parent c,
  controller_kick_in_block + token_choice_set_size <= c_bn c ->
  (c_bn c = kawpow_fork_block -> beta_rate parent c = Some exchange_rate_reset_after_kawpow) /\
  (kawpow_fork_block < c_bn c -> c_bn c < sha_equivalent_fork_block ->
   c_bn c < kawpow_fork_block + exchange_rate_hold_interval -> beta_rate parent c = Some parent) /\
  (c_bn c = sha_equivalent_fork_block -> beta_rate parent c = Some exchange_rate_after_sha_fork) /\
  (sha_equivalent_fork_block < c_bn c ->
   c_bn c < sha_equivalent_fork_block + exchange_rate_hold_interval_after_sha -> beta_rate parent c = Some parent).
Proof.
  intros parent c Hk.
  destruct ctl_fork_order as (P2 & P4 & P5 & P6).
  unfold beta_rate.
  destruct (Z.ltb_spec (c_bn c) (controller_kick_in_block + token_choice_set_size)); [lia|].
  unfold fork_override. rewrite P2.
  repeat split; intros.
  - destruct (Z.ltb_spec (c_bn c) kawpow_fork_block); [lia|].
    destruct (Z.leb_spec kawpow_fork_block (c_bn c)); [|lia].
    destruct (Z.ltb_spec (c_bn c) sha_equivalent_fork_block); [|lia]. cbn [andb].
    destruct (Z.eqb_spec (c_bn c) kawpow_fork_block); [reflexivity|lia].
  - destruct (Z.ltb_spec (c_bn c) kawpow_fork_block); [lia|].
    destruct (Z.leb_spec kawpow_fork_block (c_bn c)); [|lia].
    destruct (Z.ltb_spec (c_bn c) sha_equivalent_fork_block); [|lia]. cbn [andb].
    destruct (Z.eqb_spec (c_bn c) kawpow_fork_block); [lia|].
    destruct (Z.ltb_spec kawpow_fork_block (c_bn c)); [|lia].
    destruct (Z.ltb_spec (c_bn c) (kawpow_fork_block + exchange_rate_hold_interval)); [reflexivity|lia].
  - destruct (Z.ltb_spec (c_bn c) kawpow_fork_block); [lia|].
    destruct (Z.ltb_spec (c_bn c) sha_equivalent_fork_block); [lia|].
    rewrite andb_false_r.
    destruct (Z.eqb_spec (c_bn c) sha_equivalent_fork_block); [reflexivity|lia].
  - destruct (Z.ltb_spec (c_bn c) kawpow_fork_block); [lia|].
    destruct (Z.ltb_spec (c_bn c) sha_equivalent_fork_block); [lia|].
    rewrite andb_false_r.
    destruct (Z.eqb_spec (c_bn c) sha_equivalent_fork_block); [lia|].
    destruct (Z.ltb_spec sha_equivalent_fork_block (c_bn c)); [|lia].
    destruct (Z.ltb_spec (c_bn c) (sha_equivalent_fork_block + exchange_rate_hold_interval_after_sha)); [reflexivity|lia].
Qed.

(* outside every fork regime the step is CalculateKQuai on the window average: direction and size *)
Lemma beta_rate_controller_step : forall parent c r,
  0 <= parent -> ctl_ok c ->
  controller_kick_in_block + token_choice_set_size <= c_bn c ->
  fork_override (c_bn c) parent = None ->
  beta_rate parent c = Some r ->
  let xb := total_diff (c_runs c) / token_choice_set_size * two64 / c_logbest c in
  0 <= r /\ parent * (one_over_alpha - 1) - one_over_alpha < r * one_over_alpha /\
  (0 < xb * c_logmd c - two64 * c_md c -> parent <= r) /\
  (xb * c_logmd c - two64 * c_md c <= 0 -> r <= parent) /\
  (xb * c_logmd c = two64 * c_md c -> r = parent).
Proof.
  intros parent c r Hp (Hmd & Hlmd & Hlb & Hruns) Hk Hf H. cbv zeta.
  unfold beta_rate in H. rewrite Hf in H.
  destruct (Z.ltb_spec (c_bn c) (controller_kick_in_block + token_choice_set_size)); [lia|].
  destruct (Z.eqb_spec (c_logbest c) 0); [discriminate|].
  pose proof (total_diff_nonneg _ Hruns) as Ht. pose proof set_size_pos as Hs.
  assert (Hb : 0 <= total_diff (c_runs c) / token_choice_set_size) by (apply Z.div_pos; lia).
  assert (Hxb : 0 <= total_diff (c_runs c) / token_choice_set_size * two64 / c_logbest c).
  { apply Z.div_pos; [|lia]. pose proof two64_pos'. nia. }
  destruct (calc_kquai_spec _ _ _ _ _ _ Hp Hmd Hlmd Hxb H) as (_ & R0 & R1 & R2 & R3 & R4).
  repeat split; assumption.
Qed.

(* ---------- trajectories ---------- *)

Lemma ctl_fold_none : forall cs, fold_left ctl_step cs None = None.
Proof. induction cs; [reflexivity|assumption]. Qed.

Lemma rate_trajectory_nonneg : forall cs k0 k,
  0 <= k0 -> Forall ctl_ok cs -> rate_trajectory k0 cs = Some k -> 0 <= k.
Proof.
  unfold rate_trajectory.
  induction cs as [|c cs IH]; intros k0 k H0 Hf H; cbn [fold_left] in H.
  - injection H as H; subst; assumption.
  - inversion Hf as [|x l Hc Hrest]; subst.
    cbn [ctl_step] in H. destruct (beta_rate k0 c) as [k1|] eqn:E.
    + exact (IH k1 k (beta_rate_nonneg k0 c k1 H0 Hc E) Hrest H).
    + rewrite ctl_fold_none in H. discriminate.
Qed.

(* every intermediate rate of a trajectory is non-negative too *)
Lemma rate_trajectory_prefix_nonneg : forall cs1 cs2 k0 k,
  0 <= k0 -> Forall ctl_ok (cs1 ++ cs2) -> rate_trajectory k0 (cs1 ++ cs2) = Some k ->
  exists k1, rate_trajectory k0 cs1 = Some k1 /\ 0 <= k1 /\ rate_trajectory k1 cs2 = Some k.
Proof.
  intros cs1 cs2 k0 k H0 Hf H. unfold rate_trajectory in *. rewrite fold_left_app in H.
  destruct (fold_left ctl_step cs1 (Some k0)) as [k1|] eqn:E.
  - exists k1. split; [reflexivity|]. split; [|assumption].
    apply Forall_app in Hf. destruct Hf as (Hf1 & _).
    eapply rate_trajectory_nonneg; [exact H0|exact Hf1|exact E].
  - rewrite ctl_fold_none in H. discriminate.
Qed.

(* ---------- the prime block with the controller's rate ---------- *)

Lemma prime_block_inputs_ok : forall disc h stored c etxs knew r,
  rates_ok h -> ctl_ok c -> (forall k, stored = Some k -> 0 <= k) ->
  Forall (fun e => 0 <= e_value e) etxs ->
  prime_block disc h stored c etxs = Some (knew, r) ->
  inputs_ok h knew etxs /\ reprice disc h knew etxs = Some r.
Proof.
  intros disc h stored c etxs knew r Hr Hc Hs Hv H. unfold prime_block in H.
  destruct (match stored with Some k => Some k | None => beta_rate (h_k h) c end) as [k|] eqn:E; [|discriminate].
  destruct (reprice disc h k etxs) as [r'|] eqn:Er; [|discriminate].
  injection H as H1 H2; subst k r'.
  assert (Hk : 0 <= knew).
  { destruct stored as [k|].
    - injection E as E; subst. apply Hs; reflexivity.
    - destruct Hr as (Hk0 & _). exact (beta_rate_nonneg _ _ _ Hk0 Hc E). }
  split; [|assumption]. split; [assumption|]. split; assumption.
Qed.

Lemma prime_block_credit_le_rate : forall disc,
  (forall v m, 0 <= v -> 0 <= disc v m <= v) ->
  forall h stored c etxs knew r o,
  rates_ok h -> ctl_ok c -> (forall k, stored = Some k -> 0 <= k) ->
  Forall (fun e => 0 <= e_value e) etxs -> postfork h = true -> 0 <= h_kqd h ->
  prime_block disc h stored c etxs = Some (knew, r) -> In o (r_out r) -> o_kind o = KConverted ->
  0 <= knew /\ o_value o <= rate_amount h knew (o_e o) (e_value (o_e o)).
Proof.
  intros disc Hd h stored c etxs knew r o Hr Hc Hs Hv Hpf Hkqd H Ho Hk.
  destruct (prime_block_inputs_ok disc h stored c etxs knew r Hr Hc Hs Hv H) as (Hin & Hrep).
  split; [destruct Hin as (_ & A & _); assumption|].
  eapply reprice_credit_le_rate; eassumption.
Qed.

(* ---------- the pipeline after Prime ---------- *)

Lemma settle_qi_le : forall ptn gas v,
  0 <= v -> v < two64 * top_den -> 0 <= settle_qi ptn gas v <= v.
Proof.
  intros ptn gas v Hv Hg. unfold settle_qi.
  destruct (ptn <? controller_kick_in_block); [lia|].
  destruct (Z.ltb_spec gas tx_gas); [lia|].
  pose proof (mint_spec v (gas - tx_gas) Hv Hg ltac:(lia)) as M.
  unfold minted_total. destruct (mint v (gas - tx_gas)) as [[[t i] g] ok]. cbn [fst]. lia.
Qed.

Lemma denoms_count_nonneg : forall l, counts_ok l -> 0 <= denoms_count l.
Proof.
  intros l Hl. induction Hl as [|p l Hp _ IHl]; [cbn; lia|].
  unfold denoms_count in *. cbn [fold_right]. lia.
Qed.

Lemma settle_qi_exact : forall ptn gas v,
  0 <= v -> v < two64 * top_den -> controller_kick_in_block <= ptn ->
  tx_gas + denoms_count (find_min_denominations v) * call_value_transfer_gas <= gas ->
  denoms_count (find_min_denominations v) <= max_output_index ->
  settle_qi ptn gas v = v.
Proof.
  intros ptn gas v Hv Hg Hp Hgas Hidx. unfold settle_qi.
  destruct (Z.ltb_spec ptn controller_kick_in_block); [lia|].
  pose proof (mint_spec v (gas - tx_gas) Hv Hg) as M.
  assert (Hc : 0 <= denoms_count (find_min_denominations v) * call_value_transfer_gas).
  { pose proof (fmd_counts_ok v) as Hok. pose proof (denoms_count_nonneg _ Hok).
    assert (0 < call_value_transfer_gas) by (vm_compute; reflexivity). nia. }
  destruct (Z.ltb_spec gas tx_gas); [lia|].
  specialize (M ltac:(lia)).
  unfold minted_total. destruct (mint v (gas - tx_gas)) as [[[t i] g] ok]. cbn [fst].
  destruct M as (_ & _ & _ & _ & E & F).
  assert (Hok' : ok = true) by (apply F; lia). destruct (E Hok'). assumption.
Qed.

Lemma settle_quai_le : forall fee ex v, 0 <= fee -> 0 <= v ->
  0 <= settle_quai fee ex v <= v /\ (ex = true -> settle_quai fee ex v = v).
Proof.
  intros fee ex v Hf Hv. unfold settle_quai. destruct ex; [split; [lia|reflexivity]|].
  destruct (Z.ltb_spec v fee); split; try lia; discriminate.
Qed.

(* settle_quai is what RedeemLockedQuai's credit step [pay_one] pays for this ETX *)
Lemma settle_quai_is_pay_one : forall fee exs out e,
  snd (pay_one fee (exs, out) e) =
  out ++ (if negb (n_mem (q_to e) exs) && (q_value e <? fee) then []
          else [(q_id e, q_to e, settle_quai fee (n_mem (q_to e) exs) (q_value e))]).
Proof.
  intros fee exs out e. unfold pay_one, settle_quai.
  destruct (n_mem (q_to e) exs); cbn [negb andb snd]; [reflexivity|].
  destruct (q_value e <? fee); cbn [snd]; [rewrite app_nil_r|]; reflexivity.
Qed.

Definition qi_amounts_in_range (h : hdr) (knew : Z) (e : etx) : Prop :=
  if e_toqi e then rate_amount h knew e (e_value e) < two64 * top_den
  else e_value e < two64 * top_den.

(* END TO END, per conversion of a prime block (any mix, any order, any gas): exactly one of the
   four outcomes, the credit never above the rate-implied amount of the ORIGINAL value, the Quai
   refund exactly the original, the Qi refund at most original - dust (exact with gas) *)
Lemma pipeline_end_to_end : forall disc,
  (forall v m, 0 <= v -> 0 <= disc v m <= v) ->
  forall h knew etxs r o ptn gas fee ex,
  inputs_ok h knew etxs -> postfork h = true -> 0 <= h_kqd h ->
  reprice disc h knew etxs = Some r -> In o (r_out r) ->
  e_conv (o_e o) = true -> 0 < e_value (o_e o) ->
  qi_amounts_in_range h knew (o_e o) -> 0 <= gas -> 0 <= fee ->
  match settle ptn gas fee ex o with
  | ONone => False
  | OCreditQi a =>
      o_kind o = KConverted /\ e_toqi (o_e o) = true /\
      0 <= a <= o_value o /\ o_value o <= rate_amount h knew (o_e o) (e_value (o_e o))
  | OCreditQuai a =>
      o_kind o = KConverted /\ e_toqi (o_e o) = false /\
      0 <= a <= o_value o /\ (ex = true -> a = o_value o) /\
      o_value o <= rate_amount h knew (o_e o) (e_value (o_e o))
  | ORefundQuai a => o_kind o = KReverted /\ e_toqi (o_e o) = true /\ a = e_value (o_e o)
  | ORefundQi a =>
      o_kind o = KReverted /\ e_toqi (o_e o) = false /\
      0 <= a <= e_value (o_e o) - dust (e_value (o_e o)) /\
      dust (e_value (o_e o)) < smallest_refundable /\
      (denoms_count (filter above_trim (find_min_denominations (e_value (o_e o)))) * call_value_transfer_gas <= gas ->
       denoms_count (filter above_trim (find_min_denominations (e_value (o_e o)))) <= max_output_index ->
       a = e_value (o_e o) - dust (e_value (o_e o)))
  end.
Proof.
  intros disc Hd h knew etxs r o ptn gas fee ex Hin Hpf Hkqd H Ho Hconv Hpos Hrange Hgas Hfee.
  pose proof (reprice_values_nonneg disc h knew etxs r o Hin H Ho) as Hnn.
  destruct (reprice_outcome disc h knew etxs r o Hin H Ho)
    as (Hie & [(A & _)|[(_ & _ & Kd & Vd)|(_ & _ & Kd & _)]]); [congruence| |].
  - (* reverted *)
    unfold settle. rewrite Kd. unfold qi_amounts_in_range in Hrange.
    destruct (e_toqi (o_e o)) eqn:Et.
    + repeat split; try reflexivity; assumption.
    + rewrite Vd.
      pose proof (refund_qi_spec (e_value (o_e o)) gas ltac:(lia) Hrange Hgas) as R.
      pose proof (dust_lt_smallest_refundable (e_value (o_e o)) ltac:(lia) Hrange) as Dd.
      unfold minted_total. destruct (refund_qi (e_value (o_e o)) gas) as [[[t i] g] ok]. cbn [fst].
      destruct R as (R0 & R1 & _ & _ & _ & _ & R6).
      repeat split; try reflexivity; try lia; try exact R6.
  - (* converted *)
    pose proof (reprice_credit_le_rate disc Hd h knew etxs r o Hin Hpf Hkqd H Ho Kd) as Hle.
    unfold settle. rewrite Kd. unfold qi_amounts_in_range in Hrange.
    destruct (e_toqi (o_e o)) eqn:Et.
    + pose proof (settle_qi_le ptn gas (o_value o) Hnn ltac:(lia)) as S.
      repeat split; try reflexivity; try lia.
    + destruct (settle_quai_le fee ex (o_value o) Hfee Hnn) as (S1 & S2).
      repeat split; try reflexivity; try lia; try exact S2.
Qed.

(* ---------- witnesses ---------- *)

(* "the rate stays positive" is FALSE of the code: from 1 a falling step reaches 0, and 0 is
   absorbing for the controller proper (only a fork reset leaves it).  Replayed on the real
   CalculateKQuai by the harness corpus (k = 1 / k = 0). *)
Lemma rate_positive_refuted :
  calc_kquai 1 5000000000000 778177102095775710118 2000000 0 = Some 0 /\
  (forall d d2 bn xb, 1 <= d -> 0 <= d2 -> 0 <= xb -> calc_kquai 0 d d2 bn xb = Some 0).
Proof.
  split; [vm_compute; reflexivity|].
  intros d d2 bn xb Hd Hd2 Hxb. unfold calc_kquai.
  destruct (Z.eqb_spec (two64 * d * one_over_alpha) 0) as [E|E].
  - pose proof alpha_pos. pose proof two64_pos'. nia.
  - f_equal. rewrite Z.mul_0_r, Z.mul_0_l, Z.add_0_l. apply Z.quot_0_l. assumption.
Qed.

(* rising (slowed to a third inside the KQuaiChangeBlock..KawPow window), falling and balanced steps
   at real magnitudes; the controller behind its fork schedule *)
Lemma controller_witness :
  let d := 5000000000000 in let ld := 778177102095775710118 in let k := 221077819000000000 in
  let bal := two64 * d / ld in
  calc_kquai k d ld 2000000 (2 * bal) = Some 221298896818998026 /\
  calc_kquai k d ld 800000 (2 * bal) = Some 221151511606332675 /\
  calc_kquai k d ld 2000000 (bal / 2) = Some 220967280090499506 /\
  beta_rate k (mkCtl 1011200 [(3 * d, 4000)] 807414499713005568838 d ld) = Some (k * 75 / 100) /\
  beta_rate k (mkCtl 1171500 [(3 * d, 4000)] 807414499713005568838 d ld) = Some exchange_rate_reset_after_kawpow /\
  beta_rate k (mkCtl 1171501 [(3 * d, 4000)] 807414499713005568838 d ld) = Some k.
Proof. vm_compute. repeat split; reflexivity. Qed.

(* C15 (A) — lemmas about the length-prefixed parsers of Lib/C15_Wire.v *)
From Coq Require Import List NArith Bool Lia ZifyBool ZifyNat ZifyN.
From GQ Require Import Lib.C15_Wire.
Import ListNotations.
Local Open Scope N_scope.

Lemma len_app : forall a b : list N, len (a ++ b) = len a + len b.
Proof. intros a b. unfold len. rewrite app_length. lia. Qed.

Lemma take_drop : forall n (b : list N), b = take n b ++ drop n b.
Proof. intros n b. unfold take, drop. symmetry. apply firstn_skipn. Qed.

Lemma len_take : forall n (b : list N), n <= len b -> len (take n b) = n.
Proof. intros n b H. unfold len, take in *. rewrite firstn_length. lia. Qed.

Lemma len_take_le : forall n (b : list N), len (take n b) <= len b.
Proof. intros n b. unfold len, take. rewrite firstn_length. lia. Qed.

Lemma len_drop : forall n (b : list N), len (drop n b) = len b - n.
Proof. intros n b. unfold len, drop. rewrite skipn_length. lia. Qed.

(* [r] is a suffix of [b] *)
Definition suffix (r b : list N) : Prop := exists pre, b = pre ++ r.

Lemma suffix_refl : forall b, suffix b b.
Proof. intros b. exists []. reflexivity. Qed.

Lemma suffix_drop : forall n b, suffix (drop n b) b.
Proof. intros n b. exists (take n b). apply take_drop. Qed.

Lemma suffix_trans : forall a b c, suffix a b -> suffix b c -> suffix a c.
Proof. intros a b c (p & Hp) (q & Hq). exists (q ++ p). subst. rewrite app_assoc. reflexivity. Qed.

Lemma suffix_cons : forall x b, suffix b (x :: b).
Proof. intros x b. exists [x]. reflexivity. Qed.

Lemma suffix_len : forall r b, suffix r b -> len r <= len b.
Proof. intros r b (p & Hp). subst. rewrite len_app. lia. Qed.

(* a contiguous piece of [b] *)
Definition infix (s b : list N) : Prop := exists pre post, b = pre ++ s ++ post.

Lemma infix_take_suffix : forall n r b, suffix r b -> infix (take n r) b.
Proof.
  intros n r b (p & Hp). exists p, (drop n r). subst. f_equal. apply take_drop.
Qed.

Lemma infix_len : forall s b, infix s b -> len s <= len b.
Proof. intros s b (p & q & H). subst. rewrite !len_app. lia. Qed.

Lemma infix_nil : forall b, infix [] b.
Proof. intros b. exists [], b. reflexivity. Qed.

Lemma infix_trans : forall a b c, infix a b -> infix b c -> infix a c.
Proof.
  intros a b c (p & q & H1) (p' & q' & H2). exists (p' ++ p), (q ++ q'). subst.
  rewrite <- !app_assoc. reflexivity.
Qed.

(* ---------- CompactSize ---------- *)

Lemma read_fixed_suffix : forall k b v r, read_fixed k b = Some (v, r) -> suffix r b /\ len r + k = len b.
Proof.
  intros k b v r H. unfold read_fixed in H.
  destruct (len b <? k) eqn:E; [discriminate|]. apply N.ltb_ge in E.
  inversion H; subst. split; [apply suffix_drop|]. rewrite len_drop. lia.
Qed.

(* the length prefix itself is consumed: at least one byte, and what is left is a suffix of the input *)
Lemma read_varint_consumes_lemma : forall b v r,
  read_varint b = Some (v, r) -> suffix r b /\ len r < len b.
Proof.
  intros b v r H. destruct b as [|x b']; [discriminate|]. cbn [read_varint] in H.
  assert (Hl : len (x :: b') = len b' + 1) by (unfold len; cbn [length]; lia).
  destruct (x =? 253).
  { destruct (read_fixed_suffix _ _ _ _ H) as (Hs & Hn). split; [eapply suffix_trans; [exact Hs|apply suffix_cons]|lia]. }
  destruct (x =? 254).
  { destruct (read_fixed_suffix _ _ _ _ H) as (Hs & Hn). split; [eapply suffix_trans; [exact Hs|apply suffix_cons]|lia]. }
  destruct (x =? 255).
  { destruct (read_fixed_suffix _ _ _ _ H) as (Hs & Hn). split; [eapply suffix_trans; [exact Hs|apply suffix_cons]|lia]. }
  inversion H; subst. split; [apply suffix_cons|lia].
Qed.

(* ---------- scriptSig extraction ---------- *)

(* the result is a contiguous piece of the input that starts after the 4+1+36+1 bytes of fixed
   framing: the declared length is never trusted beyond what remains *)
Lemma script_sig_within_input_lemma : forall tx s,
  extract_script_sig tx = Some s -> infix s tx /\ len s + 42 <= len tx \/ s = [].
Proof.
  intros tx s H. unfold extract_script_sig in H.
  destruct (read_varint (drop 4 tx)) as [[c r1]|] eqn:E1; [|discriminate].
  destruct (read_varint (drop 36 r1)) as [[n r3]|] eqn:E2; [|discriminate].
  destruct (n =? 0) eqn:En; [inversion H; subst; right; reflexivity|].
  destruct (len r3 <? n) eqn:El; [discriminate|]. apply N.ltb_ge in El.
  inversion H; subst; clear H. left.
  destruct (read_varint_consumes_lemma _ _ _ E1) as (S1 & L1).
  destruct (read_varint_consumes_lemma _ _ _ E2) as (S2 & L2).
  pose proof (suffix_drop 4 tx) as S0. pose proof (suffix_drop 36 r1) as S1'.
  assert (S3 : suffix r3 tx).
  { eapply suffix_trans; [exact S2|]. eapply suffix_trans; [exact S1'|]. eapply suffix_trans; [exact S1|exact S0]. }
  split; [apply infix_take_suffix; exact S3|].
  rewrite (len_take n r3 El).
  (* a read succeeded after each skip, so each skip stayed inside the input *)
  rewrite len_drop in L1, L2. lia.
Qed.

Lemma script_sig_alloc_linear_lemma : forall tx, script_sig_alloc tx <= len tx.
Proof.
  intros tx. unfold script_sig_alloc.
  destruct (extract_script_sig tx) as [s|] eqn:E; [|lia].
  destruct (script_sig_within_input_lemma tx s E) as [(Hi & Hl)|Hs]; [lia|]. subst. unfold len; cbn; lia.
Qed.

(* a declared length larger than what remains is refused: whatever follows the framing, if the
   length prefix says n and fewer than n bytes remain, the result is nil (and nothing is allocated) *)
Lemma script_sig_refuses_overlong_lemma : forall tx c r1 n r3,
  read_varint (drop 4 tx) = Some (c, r1) ->
  read_varint (drop 36 r1) = Some (n, r3) ->
  len r3 < n -> extract_script_sig tx = None.
Proof.
  intros tx c r1 n r3 E1 E2 Hlt. unfold extract_script_sig. rewrite E1, E2.
  destruct (n =? 0) eqn:En; [apply N.eqb_eq in En; lia|].
  destruct (len r3 <? n) eqn:El; [reflexivity|]. apply N.ltb_ge in El. lia.
Qed.

(* ---------- script pushes and the seal-hash commitment ---------- *)

Lemma parse_push_spec : forall s d r,
  parse_push s = Some (d, r) -> exists op, s = op :: d ++ r /\ len d = op /\ op <= 75.
Proof.
  intros s d r H. destruct s as [|op s']; [discriminate|]. cbn [parse_push] in H.
  destruct (75 <? op) eqn:E1; [discriminate|]. apply N.ltb_ge in E1.
  destruct (len s' <? op) eqn:E2; [discriminate|]. apply N.ltb_ge in E2.
  inversion H; subst. exists op. split; [f_equal; apply take_drop|]. split; [apply len_take; exact E2|exact E1].
Qed.

Lemma seal_hash_within_input_lemma : forall ss hsh,
  extract_seal_hash ss = Some hsh -> len hsh = 32 /\ infix hsh ss.
Proof.
  intros ss hsh H. unfold extract_seal_hash in H.
  destruct (len ss =? 0); [discriminate|].
  destruct (parse_push ss) as [[height r1]|] eqn:E1; [|discriminate].
  destruct (5 <? len height); [discriminate|].
  destruct (parse_push r1) as [[payload r2]|] eqn:E2; [|discriminate].
  destruct (negb (len payload =? 44)) eqn:E3; [discriminate|].
  destruct (negb (bytes_eqb (take 4 payload) magic)); [discriminate|].
  inversion H; subst; clear H.
  apply negb_false_iff in E3. apply N.eqb_eq in E3.
  destruct (parse_push_spec _ _ _ E1) as (op1 & Hs1 & _ & _).
  destruct (parse_push_spec _ _ _ E2) as (op2 & Hs2 & _ & _).
  split.
  - rewrite len_take; [reflexivity|]. rewrite len_drop. lia.
  - apply infix_trans with (b := payload).
    + apply infix_take_suffix. apply suffix_drop.
    + exists (op1 :: height ++ [op2]), r2. subst ss r1. cbn. f_equal.
      rewrite <- !app_assoc. reflexivity.
Qed.

(* the whole pipeline (coinbase transaction -> scriptSig -> seal hash) allocates at most |tx| + 32 bytes *)
Lemma coinbase_pipeline_alloc_linear_lemma : forall tx s hsh,
  extract_script_sig tx = Some s -> extract_seal_hash s = Some hsh ->
  len s + len hsh <= len tx + 32 /\ infix hsh tx.
Proof.
  intros tx s hsh Hs Hh.
  destruct (seal_hash_within_input_lemma s hsh Hh) as (Hl & Hi).
  destruct (script_sig_within_input_lemma tx s Hs) as [(Hi2 & Hl2)|Hnil].
  - split; [lia|]. eapply infix_trans; eassumption.
  - subst s. discriminate.
Qed.

(* C02 — the outbound ETX set: whatever bytecode runs, the ETX cache only grows by sends that
   operations outside every failed (rolled-back) frame recorded, in order; a frame of ANY kind
   (CALL, CALLCODE, DELEGATECALL, STATICCALL, CREATE/CREATE2, the out-of-zone CALL) that fails
   contributes nothing, however deep the sends inside it were.  Together with the ledger
   theorems (every cache entry was debited) this is the clause "value carried away by emitted
   cross-chain transactions" read from the side of the ETXs: no ETX leaves that nobody paid. *)
From Coq Require Import List ZArith NArith Bool Lia.
From GQ Require Import Lib.C02_BMap Generated.C02Sites Model.C02 Proofs.C02_Exec Proofs.C02_Trans.
Import ListNotations.
Local Open Scope Z_scope.

(* subsequence (order kept) *)
Inductive sublist {A : Type} : list A -> list A -> Prop :=
| sl_nil : sublist [] []
| sl_skip x l1 l2 : sublist l1 l2 -> sublist l1 (x :: l2)
| sl_keep x l1 l2 : sublist l1 l2 -> sublist (x :: l1) (x :: l2).

Lemma sublist_nil_l {A} (l : list A) : sublist [] l.
Proof. induction l; constructor; assumption. Qed.

Lemma sublist_refl {A} (l : list A) : sublist l l.
Proof. induction l; constructor; assumption. Qed.

Lemma sublist_app {A} (a b c d : list A) : sublist a b -> sublist c d -> sublist (a ++ c) (b ++ d).
Proof. intros H1 H2. induction H1; cbn; [exact H2|constructor; assumption|constructor; assumption]. Qed.

Lemma sublist_length {A} (a b : list A) : sublist a b -> (length a <= length b)%nat.
Proof. induction 1; cbn; lia. Qed.

Lemma sublist_nil_r {A} (a : list A) : sublist a [] -> a = [].
Proof. intros H. inversion H. reflexivity. Qed.

Lemma sublist_in {A} (a b : list A) x : sublist a b -> In x a -> In x b.
Proof. induction 1; cbn; intros HI; [contradiction|right; auto|destruct HI; [left; assumption|right; auto]]. Qed.

(* the ETX cache grew from s to s' by a subsequence of l *)
Definition out_by (l : list (Z * Z)) (s s' : st) : Prop :=
  exists d, etx s' = etx s ++ d /\ sublist d l.

Lemma out_same l s s' : etx s' = etx s -> out_by l s s'.
Proof. intros H. exists []. rewrite app_nil_r. split; [exact H|apply sublist_nil_l]. Qed.

Lemma out_trans l1 l2 a b c : out_by l1 a b -> out_by l2 b c -> out_by (l1 ++ l2) a c.
Proof.
  intros (d1 & E1 & S1) (d2 & E2 & S2). exists (d1 ++ d2). split.
  - rewrite E2, E1. now rewrite app_assoc.
  - now apply sublist_app.
Qed.

Lemma out_etx_eq l a b b' : etx b' = etx b -> out_by l a b -> out_by l a b'.
Proof. intros H (d & E & S). exists d. split; [congruence|exact S]. Qed.

Lemma out_from_eq l a a' b : etx a' = etx a -> out_by l a' b -> out_by l a b.
Proof. intros H (d & E & S). exists d. split; [congruence|exact S]. Qed.

Lemma etx_selfdestruct e a ben s : etx (do_selfdestruct e a ben s) = etx s.
Proof.
  unfold do_selfdestruct.
  destruct (e_prefork e || negb (mem a (sui (p_add ben (bget a (bal s)) s)))); reflexivity.
Qed.

Lemma fold_out e body :
  Forall (fun a => forall s, out_by (live_sends a) s (exec e a s)) body ->
  forall s, out_by (flat_map live_sends body) s (fold_left (fun x b => exec e b x) body s).
Proof.
  induction body as [|a body IH]; cbn [fold_left flat_map]; intros HF s.
  - apply out_same. reflexivity.
  - inversion HF as [|? ? Ha Hb]; subst.
    eapply out_trans; [apply Ha|apply IH; exact Hb].
Qed.

(* Every action, from every state: the cache grows by a subsequence of the live sends of its tree. *)
Theorem exec_outbound e : forall a s, out_by (live_sends a) s (exec e a s).
Proof.
  induction a as [f t v r mk body rv IH|f v r rv|self v c r body rv IH|f n v r body out IH|a b|a v f p em|]
    using action_ind'; intros s; cbn [exec live_sends].
  - (* ACall *)
    destruct (negb (v =? 0) && negb (can_transfer f v s)); [apply out_same; reflexivity|].
    destruct (r =? 0)%N; [apply out_same; reflexivity|].
    unfold frame_end. destruct rv; [apply out_same; reflexivity|].
    destruct (r =? 1)%N; [apply out_same; reflexivity|].
    eapply out_from_eq; [|apply fold_out; exact IH]. destruct mk; reflexivity.
  - (* ACallEtx *)
    destruct (negb (v =? 0) && negb (can_transfer f v s)); [apply out_same; reflexivity|].
    destruct (r =? 0)%N; [apply out_same; reflexivity|].
    destruct (r =? 1)%N; [unfold frame_end; destruct rv; apply out_same; reflexivity|].
    destruct (negb (can_transfer f v (p_snap s))); [unfold frame_end; destruct rv; apply out_same; reflexivity|].
    destruct rv; [apply out_same; reflexivity|].
    exists [(v, 0)]. split; [reflexivity|apply sublist_refl].
  - (* AFrame: CALLCODE / DELEGATECALL / STATICCALL *)
    destruct (c && negb (can_transfer self v s)); [apply out_same; reflexivity|].
    destruct (r =? 0)%N; [apply out_same; reflexivity|].
    unfold frame_end. destruct rv; [apply out_same; reflexivity|].
    destruct (r =? 1)%N; [apply out_same; reflexivity|].
    eapply out_from_eq; [|apply fold_out; exact IH]. reflexivity.
  - (* ACreate *)
    destruct (negb (can_transfer f v s)); [apply out_same; reflexivity|].
    destruct (r <? 2)%N; [apply out_same; reflexivity|].
    unfold frame_end. destruct (out =? 1)%N; [apply out_same; reflexivity|].
    eapply out_from_eq; [|apply fold_out; exact IH]. reflexivity.
  - apply out_same. apply etx_selfdestruct.
  - (* AEtx *)
    destruct p; cbn [negb andb]; [|apply out_same; reflexivity].
    destruct ((v + f =? 0) || negb (can_transfer a (v + f) s)); [apply out_same; reflexivity|].
    destruct em; [|apply out_same; reflexivity].
    exists [(v, f)]. split; [reflexivity|apply sublist_refl].
  - apply out_same. reflexivity.
Qed.

(* A frame of any kind that fails and is rolled back emits nothing, whatever ran inside it. *)
Corollary failed_frame_emits_nothing e a s : reverted_frame a = true -> etx (exec e a s) = etx s.
Proof.
  intros H. destruct (exec_outbound e a s) as (d & E & S).
  assert (L : live_sends a = []).
  { destruct a; cbn [reverted_frame] in H; try discriminate; cbn [live_sends]; now rewrite H. }
  rewrite L in S. apply sublist_nil_r in S. subst d. now rewrite app_nil_r in E.
Qed.

(* TransitionDb as a whole (any message kind, any outcome): ExecutionResult.Etxs is a subsequence of
   the live sends of the top-level action. *)
Lemma after_buy_outbound e m o top s1 s' r :
  after_buy e m o top s1 = (s', r) -> out_by (live_sends top) s1 s'.
Proof.
  unfold after_buy.
  destruct (m_gas m <? intrinsic m); [intros H; inversion H; subst; apply out_same; reflexivity|].
  destruct ((0 <? m_value m) && negb (can_transfer (m_from m) (m_value m) s1));
    [intros H; inversion H; subst; apply out_same; reflexivity|].
  destruct (m_kind m) as [|err|[ben|]].
  - intros H. inversion H; subst. eapply out_etx_eq; [|apply exec_outbound]. reflexivity.
  - intros H. inversion H; subst. apply out_same. reflexivity.
  - destruct (e_prefork e || negb (mem (m_from m) (sui s1))); intros H; inversion H; subst; apply out_same; reflexivity.
  - intros H. inversion H; subst. apply out_same. reflexivity.
Qed.

Theorem transition_outbound e m o top s s' r :
  transition e m o top s = (s', r) -> out_by (live_sends top) s s'.
Proof.
  unfold transition. destruct (m_isETX m).
  - destruct (e_maxetxgas e <? m_gas m).
    + destruct (e_gp e <? C02Sites.tx_gas); intros H; inversion H; subst; apply out_same; reflexivity.
    + destruct (e_gp e <? m_gas m); [intros H; inversion H; subst; apply out_same; reflexivity|].
      apply after_buy_outbound.
  - destruct (negb (o_pre_ok o)); [intros H; inversion H; subst; apply out_same; reflexivity|].
    destruct (m_price m <? e_basefee e); [intros H; inversion H; subst; apply out_same; reflexivity|].
    destruct (bget (m_from m) (bal s) <? m_gas m * m_price m + m_value m);
      [intros H; inversion H; subst; apply out_same; reflexivity|].
    destruct (e_gp e <? m_gas m); [intros H; inversion H; subst; apply out_same; reflexivity|].
    intros H. apply after_buy_outbound in H. eapply out_from_eq; [|exact H]. reflexivity.
Qed.

(* ... for a whole transaction from a fresh per-transaction state, with the conservation equation on
   the same list: every ETX of the result stems from a surviving send, and the balances dropped by
   the debit of exactly those ETXs (beyond gas, destroyed value and rent refunds). *)
Theorem tx_outbound e m o top b s' r :
  apply_tx e m o top (init b) = (s', r) ->
  sublist (etx s') (live_sends top)
  /\ (forall x, In x (etx s') -> In x (live_sends top))
  /\ (length (etx s') <= length (live_sends top))%nat.
Proof.
  unfold apply_tx. destruct (transition e m o top (init b)) as [s1 r1] eqn:T. intros H. inversion H; subst.
  apply transition_outbound in T. destruct T as (d & E & S). cbn [etx init app] in E.
  assert (E' : etx (if is_invalid r then s1 else finalise s1) = d).
  { destruct (is_invalid r); [exact E|]. destruct (finalise_fields s1) as (_ & F & _). congruence. }
  rewrite E'. split; [exact S|]. split; [intros x; now apply sublist_in|now apply sublist_length].
Qed.

(* C13 — workshare inclusion (HeaderChain.VerifyUncles) and the reward-at-depth rule:
   a share is included, and so paid, at most once along any chain. *)
From Coq Require Import List NArith ZArith Bool Lia ZifyBool ZifyNat ZifyN Arith.
From GQ Require Import Lib.Key Lib.SMap Generated.C13Params Model.C13.
Import ListNotations.
Import C13Params.
Local Open Scope N_scope.

(* ------------------------------------------------------------------ list helpers *)

Lemma hmem_In : forall h l, hmem h l = true <-> In h l.
Proof.
  intros h l. unfold hmem. rewrite existsb_exists. split.
  - intros [x [Hin Hx]]. apply N.eqb_eq in Hx. subst. exact Hin.
  - intros Hin. exists h. split; [exact Hin | apply N.eqb_refl].
Qed.

Lemma hmem_false : forall h l, hmem h l = false <-> ~ In h l.
Proof.
  intros h l. split.
  - intros H Hin. apply hmem_In in Hin. congruence.
  - intros H. destruct (hmem h l) eqn:E; [|reflexivity]. exfalso. apply H. apply hmem_In. exact E.
Qed.

Lemma nodup_app_iff : forall (A : Type) (l1 l2 : list A),
  NoDup (l1 ++ l2) <-> NoDup l1 /\ NoDup l2 /\ (forall x, In x l1 -> In x l2 -> False).
Proof.
  intros A l1 l2. induction l1 as [|a l1 IH]; simpl.
  - split.
    + intros H. repeat split; [constructor | exact H | intros x []].
    + intros [_ [H _]]. exact H.
  - split.
    + intros H. inversion H as [|x l Hn Hd]; subst. apply IH in Hd. destruct Hd as [H1 [H2 H3]].
      repeat split.
      * constructor; [|exact H1]. intro Hi. apply Hn. apply in_or_app. left. exact Hi.
      * exact H2.
      * intros x [Hx|Hx] Hx2.
        -- subst. apply Hn. apply in_or_app. right. exact Hx2.
        -- exact (H3 x Hx Hx2).
    + intros [H1 [H2 H3]]. inversion H1 as [|x l Hn Hd]; subst. constructor.
      * intro Hi. apply in_app_or in Hi. destruct Hi as [Hi|Hi]; [exact (Hn Hi)|].
        apply (H3 a); [left; reflexivity | exact Hi].
      * apply IH. repeat split; [exact Hd | exact H2 |].
        intros x Hx Hx2. apply (H3 x); [right; exact Hx | exact Hx2].
Qed.

Lemma nodup_map_inj : forall (A B : Type) (f : A -> B) (l : list A) x y,
  NoDup (map f l) -> In x l -> In y l -> f x = f y -> x = y.
Proof.
  intros A B f l. induction l as [|a l IH]; intros x y Hn Hx Hy Hf; [destruct Hx|].
  simpl in Hn. inversion Hn as [|z zl Hna Hnd]; subst.
  destruct Hx as [Hx|Hx]; destruct Hy as [Hy|Hy]; subst.
  - reflexivity.
  - exfalso. apply Hna. rewrite Hf. apply in_map. exact Hy.
  - exfalso. apply Hna. rewrite <- Hf. apply in_map. exact Hx.
  - apply IH; assumption.
Qed.

Lemma nodup_map_sub_firstn : forall (A B : Type) (f : A -> list B) (l : list A) n,
  NoDup (flat_map f l) -> NoDup (flat_map f (firstn n l)).
Proof.
  intros A B f l n H. rewrite <- (firstn_skipn n l) in H. rewrite flat_map_app in H.
  apply nodup_app_iff in H. tauto.
Qed.

Lemma in_firstn_in : forall (A : Type) (l : list A) n x, In x (firstn n l) -> In x l.
Proof. intros A l n x H. rewrite <- (firstn_skipn n l). apply in_or_app. left. exact H. Qed.

(* an element found in the first d entries of A ++ B but not in A forces all of A into that prefix *)
Lemma firstn_reach : forall (A : Type) (l1 l2 : list A) d x y,
  In x (firstn d (l1 ++ l2)) -> ~ In x l1 -> In y l1 -> In y (firstn d (l1 ++ l2)).
Proof.
  intros A l1 l2 d x y Hx Hn Hy. rewrite firstn_app in *.
  apply in_app_or in Hx. destruct Hx as [Hx|Hx].
  - exfalso. apply Hn. eapply in_firstn_in. exact Hx.
  - assert (Hlt : (length l1 < d)%nat).
    { destruct (Nat.ltb_spec (length l1) d) as [H|H]; [exact H|].
      replace (d - length l1)%nat with 0%nat in Hx by lia. simpl in Hx. destruct Hx. }
    apply in_or_app. left. rewrite firstn_all2 by lia. exact Hy.
Qed.

(* ------------------------------------------------------------------ database lookups, the walk *)

Lemma find_blk_some : forall db h b, find_blk db h = Some b -> In b db /\ b_id b = h.
Proof.
  induction db as [|a db IH]; simpl; intros h b H; [discriminate|].
  destruct (b_id a =? h) eqn:E.
  - inversion H; subst. apply N.eqb_eq in E. split; [left; reflexivity | exact E].
  - apply IH in H. destruct H as [H1 H2]. split; [right; exact H1 | exact H2].
Qed.

Lemma find_blk_none : forall db h, find_blk db h = None -> ~ In h (map b_id db).
Proof.
  induction db as [|a db IH]; simpl; intros h H; [tauto|].
  destruct (b_id a =? h) eqn:E; [discriminate|]. apply N.eqb_neq in E.
  intros [Hx|Hx]; [exact (E Hx) | exact (IH h H Hx)].
Qed.

Lemma find_blk_in : forall db b, NoDup (map b_id db) -> In b db -> find_blk db (b_id b) = Some b.
Proof.
  induction db as [|a db IH]; simpl; intros b Hn Hin; [destruct Hin|].
  inversion Hn as [|x l Hna Hnd]; subst.
  destruct Hin as [Hin|Hin].
  - subst. rewrite N.eqb_refl. reflexivity.
  - destruct (b_id a =? b_id b) eqn:E.
    + apply N.eqb_eq in E. exfalso. apply Hna. rewrite E. apply in_map. exact Hin.
    + apply IH; assumption.
Qed.

Lemma find_blk_not_in : forall db h, ~ In h (map b_id db) -> find_blk db h = None.
Proof.
  induction db as [|a db IH]; simpl; intros h H; [reflexivity|].
  destruct (b_id a =? h) eqn:E.
  - apply N.eqb_eq in E. exfalso. apply H. left. exact E.
  - apply IH. intro Hx. apply H. right. exact Hx.
Qed.

Lemma uwf_nodup : forall c, uwf c -> NoDup (map b_id c).
Proof.
  induction c as [|b rest IH]; simpl; intros H; [constructor|].
  destruct H as [H1 [_ H3]]. constructor; [exact H1 | exact (IH H3)].
Qed.

Lemma uwf_app_r : forall l1 l2, uwf (l1 ++ l2) -> uwf l2.
Proof.
  induction l1 as [|a l1 IH]; simpl; intros l2 H; [exact H|].
  destruct H as [_ [_ H]]. exact (IH l2 H).
Qed.

(* every ancestor the walk collects comes from the database *)
Lemma uwalk_in_db : forall fuel db p anc ban anc' ban',
  uwalk db fuel p anc ban = (anc', ban') -> forall x, In x anc' -> In x anc \/ In x db.
Proof.
  induction fuel as [|f IH]; simpl; intros db p anc ban anc' ban' H x Hx.
  - inversion H; subst. left. exact Hx.
  - destruct (find_blk db p) as [a|] eqn:E.
    + destruct (IH _ _ _ _ _ _ H x Hx) as [H1|H1]; [|right; exact H1].
      apply in_app_or in H1. destruct H1 as [H1|[H1|[]]]; [left; exact H1|].
      subst. right. apply find_blk_some in E. tauto.
    + inversion H; subst. left. exact Hx.
Qed.

(* on a well-formed chain the walk from block b collects exactly the first `fuel` blocks below b *)
Lemma uwalk_exact : forall fuel db pre suf b anc ban,
  NoDup (map b_id db) -> db = pre ++ suf -> uwf (b :: suf) ->
  ~ In (b_parent (last (b :: suf) (mkBlk 0 0 0 0 []))) (map b_id db) ->
  uwalk db fuel (b_parent b) anc ban = (anc ++ firstn fuel suf, ban ++ flat_map uids (firstn fuel suf)).
Proof.
  induction fuel as [|f IH]; intros db pre suf b anc ban Hn Hdb Hwf Hroot.
  - simpl. rewrite !app_nil_r. reflexivity.
  - destruct suf as [|p suf'].
    + simpl in Hroot. simpl. rewrite (find_blk_not_in _ _ Hroot). rewrite !app_nil_r. reflexivity.
    + assert (Hp : b_parent b = b_id p) by (simpl in Hwf; tauto).
      assert (Hin : In p db) by (subst db; apply in_or_app; right; left; reflexivity).
      cbn [uwalk]. rewrite Hp, (find_blk_in _ _ Hn Hin).
      rewrite (IH db (pre ++ [p]) suf' p (anc ++ [p]) (ban ++ uids p) Hn).
      * cbn [firstn flat_map]. rewrite <- !app_assoc. reflexivity.
      * subst db. rewrite <- app_assoc. reflexivity.
      * simpl in Hwf. simpl. tauto.
      * exact Hroot.
Qed.

Lemma flat_map_uids : forall l, flat_map uids l = map s_id (flat_map b_uncles l).
Proof.
  induction l as [|a l IH]; simpl; [reflexivity|]. rewrite map_app, IH. reflexivity.
Qed.

(* ------------------------------------------------------------------ one block *)

Lemma ucheck_ok : forall b anc s, ucheck b anc s = VOk ->
  ~ In (s_id s) (map b_id anc ++ [b_id b])
  /\ (length anc = u_depth (b_ptn b))
  /\ exists p, In p anc /\ b_id p = s_parent s /\ s_num s = b_num p + 1.
Proof.
  intros b anc s H. unfold ucheck in H.
  destruct (s_qi s && (b_ptn b <? controller_kick_in_block)); [discriminate|].
  destruct (udata_bad (s_data s)); [discriminate|].
  destruct (hmem (s_id s) (map b_id anc ++ [b_id b])) eqn:Ea; [discriminate|].
  apply hmem_false in Ea.
  match type of H with (match ?o with Some _ => _ | None => _ end) = _ => destruct o as [ws|]; [|discriminate] end.
  destruct (upowid_bad s); [discriminate|].
  match type of H with (if ?c then _ else _) = _ => destruct c; [discriminate|] end.
  destruct (length anc =? u_depth (b_ptn b))%nat eqn:El; [|discriminate]. apply Nat.eqb_eq in El.
  simpl in H.
  match type of H with (if ?c then _ else _) = _ => destruct c; [discriminate|] end.
  destruct (find_blk anc (s_parent s)) as [p|] eqn:Ef; [|discriminate].
  destruct (negb (s_diff_ok s)); [discriminate|].
  match type of H with (if ?c then _ else _) = _ => destruct c; [discriminate|] end.
  destruct (s_num s =? b_num p + 1) eqn:En; [|discriminate]. apply N.eqb_eq in En.
  apply find_blk_some in Ef. destruct Ef as [Ef1 Ef2].
  split; [exact Ea|]. split; [exact El|]. exists p. tauto.
Qed.

Lemma uloop_ok : forall b anc us ban, uloop b anc ban us = VOk ->
  NoDup (map s_id us)
  /\ forall s, In s us -> ~ In (s_id s) ban /\ ucheck b anc s = VOk.
Proof.
  intros b anc. induction us as [|s t IH]; intros ban H.
  - split; [constructor | intros s []].
  - cbn [uloop] in H. destruct (hmem (s_id s) ban) eqn:Eb; [discriminate|].
    apply hmem_false in Eb.
    destruct (ucheck b anc s) eqn:Ec; try discriminate.
    apply IH in H. destruct H as [H1 H2]. split.
    + simpl. constructor; [|exact H1]. intro Hin. apply in_map_iff in Hin.
      destruct Hin as [s' [Hs' Hin]]. destruct (H2 s' Hin) as [Hnb _]. apply Hnb. left. symmetry. exact Hs'.
    + intros s' [Hs'|Hs'].
      * subst. split; [exact Eb | exact Ec].
      * destruct (H2 s' Hs') as [Hnb Hc]. split; [|exact Hc]. intro Hx. apply Hnb. right. exact Hx.
Qed.

(* what an accepted block with uncles guarantees, in terms of the chain below it *)
Lemma verify_ok_facts : forall b rest, uwf (b :: rest) -> uroot (b :: rest) ->
  verify_uncles rest b = VOk ->
  let anc := firstn (u_depth (b_ptn b)) rest in
  NoDup (map s_id (b_uncles b))
  /\ forall s, In s (b_uncles b) ->
       ~ In (s_id s) (map s_id (flat_map b_uncles anc))
       /\ ~ In (s_id s) (map b_id anc ++ [b_id b])
       /\ length anc = u_depth (b_ptn b)
       /\ exists p, In p anc /\ b_id p = s_parent s /\ s_num s = b_num p + 1.
Proof.
  intros b rest Hwf Hroot H anc. unfold verify_uncles in H.
  destruct (u_maxcount (b_ptn b) <? N.of_nat (length (b_uncles b))); [discriminate|].
  destruct (b_uncles b) as [|u0 us] eqn:Eu.
  - split; [constructor | intros s []].
  - rewrite <- Eu in *. clear Eu u0 us.
    assert (Hn : NoDup (map b_id rest)) by (apply uwf_nodup; simpl in Hwf; tauto).
    assert (Hr : ~ In (b_parent (last (b :: rest) (mkBlk 0 0 0 0 []))) (map b_id rest)).
    { intro Hx. apply Hroot. simpl. right. exact Hx. }
    rewrite (uwalk_exact (u_depth (b_ptn b)) rest [] rest b [] [] Hn eq_refl Hwf Hr) in H.
    cbn [app] in H. apply uloop_ok in H. destruct H as [H1 H2]. split; [exact H1|].
    intros s Hs. destruct (H2 s Hs) as [Hb Hc]. apply ucheck_ok in Hc.
    destruct Hc as [Hc1 [Hc2 Hc3]]. fold anc in Hb, Hc1, Hc2, Hc3.
    split; [|tauto]. intro Hx. apply Hb. apply in_or_app. left. rewrite flat_map_uids. exact Hx.
Qed.

(* weaker facts that need no well-formedness: the parent of an accepted share is a stored block *)
Lemma verify_ok_parent_in_db : forall b db, verify_uncles db b = VOk ->
  forall s, In s (b_uncles b) -> exists p, In p db /\ b_id p = s_parent s.
Proof.
  intros b db H s Hs. unfold verify_uncles in H.
  destruct (u_maxcount (b_ptn b) <? N.of_nat (length (b_uncles b))); [discriminate|].
  destruct (b_uncles b) as [|u0 us] eqn:Eu; [destruct Hs|].
  rewrite <- Eu in *. clear Eu u0 us.
  destruct (uwalk db (u_depth (b_ptn b)) (b_parent b) [] []) as [anc ban] eqn:Ew.
  apply uloop_ok in H. destruct H as [_ H2]. destruct (H2 s Hs) as [_ Hc].
  apply ucheck_ok in Hc. destruct Hc as [_ [_ [p [Hp1 [Hp2 _]]]]].
  exists p. split; [|exact Hp2].
  destruct (uwalk_in_db _ _ _ _ _ _ _ Ew p Hp1) as [[]|Hd]. exact Hd.
Qed.

(* ------------------------------------------------------------------ chains *)

Lemma uroot_tail : forall b rest, uroot (b :: rest) -> rest <> [] -> uroot rest.
Proof.
  intros b rest H Hne. unfold uroot in *. destruct rest as [|p r]; [congruence|].
  intro Hx. apply H. simpl. right. exact Hx.
Qed.

Lemma same_id_same_blk : forall l x y, NoDup (map b_id l) -> In x l -> In y l -> b_id x = b_id y -> x = y.
Proof. intros l x y. apply nodup_map_inj. Qed.

(* the key step: a share of an older block of the chain cannot be listed again by the newest block *)
Lemma no_reinclusion : forall b rest, uwf (b :: rest) -> uroot (b :: rest) ->
  verify_uncles rest b = VOk -> uaccepted rest ->
  forall s s', In s (b_uncles b) -> In s' (ushares rest) ->
    s_id s = s_id s' -> s_parent s = s_parent s' -> False.
Proof.
  intros b rest Hwf Hroot Hv Hacc s s' Hs Hs' Hid Hpar.
  destruct (verify_ok_facts b rest Hwf Hroot Hv) as [_ Hf].
  destruct (Hf s Hs) as [Hban [_ [_ [p [Hp1 [Hp2 _]]]]]].
  unfold ushares in Hs'. apply in_flat_map in Hs'. destruct Hs' as [bi [Hbi Hs'i]].
  destruct (in_split _ _ Hbi) as [l1 [l2 Hsplit]].
  assert (Hn : NoDup (map b_id rest)) by (apply uwf_nodup; simpl in Hwf; tauto).
  (* bi was accepted against l2 *)
  assert (Hacc_i : verify_uncles l2 bi = VOk).
  { clear - Hacc Hsplit. subst rest. induction l1 as [|a l1 IH]; simpl in Hacc; [tauto|]. apply IH. tauto. }
  destruct (verify_ok_parent_in_db bi l2 Hacc_i s' Hs'i) as [p' [Hp'1 Hp'2]].
  assert (Hpp : p = p').
  { apply (same_id_same_blk rest); [exact Hn | eapply in_firstn_in; exact Hp1 | | congruence].
    subst rest. apply in_or_app. right. right. exact Hp'1. }
  subst p'.
  assert (Hnot : ~ In p (l1 ++ [bi])).
  { intro Hx. subst rest. rewrite map_app in Hn. simpl in Hn.
    replace (map b_id l1 ++ b_id bi :: map b_id l2) with (map b_id (l1 ++ [bi]) ++ map b_id l2) in Hn
      by (rewrite map_app; simpl; rewrite <- app_assoc; reflexivity).
    apply nodup_app_iff in Hn. destruct Hn as [_ [_ Hd]].
    apply (Hd (b_id p)); apply in_map; assumption. }
  assert (Hbi_in : In bi (firstn (u_depth (b_ptn b)) rest)).
  { subst rest. replace (l1 ++ bi :: l2) with ((l1 ++ [bi]) ++ l2) in * by (rewrite <- app_assoc; reflexivity).
    apply (firstn_reach _ _ _ _ p bi Hp1 Hnot). apply in_or_app. right. left. reflexivity. }
  apply Hban. rewrite Hid. apply in_map. apply in_flat_map. exists bi. split; assumption.
Qed.

Lemma share_included_once_lemma : forall c, uwf c -> uroot c -> uaccepted c -> ubinds c ->
  NoDup (map s_id (ushares c)).
Proof.
  induction c as [|b rest IH]; intros Hwf Hroot Hacc Hb; [constructor|].
  unfold ushares. cbn [flat_map]. rewrite map_app. apply nodup_app_iff.
  assert (Hacc' : verify_uncles rest b = VOk /\ uaccepted rest) by exact Hacc.
  destruct Hacc' as [Hv Har].
  split; [|split].
  - destruct (verify_ok_facts b rest Hwf Hroot Hv) as [H _]. exact H.
  - destruct rest as [|p r]; [constructor|].
    apply IH.
    + simpl in Hwf. simpl. tauto.
    + apply (uroot_tail b); [exact Hroot | discriminate].
    + exact Har.
    + intros s s' Hs Hs'. apply Hb; unfold ushares; cbn [flat_map]; apply in_or_app; right; assumption.
  - intros h Hh1 Hh2. apply in_map_iff in Hh1. destruct Hh1 as [s [Hs1 Hs2]].
    apply in_map_iff in Hh2. destruct Hh2 as [s' [Hs'1 Hs'2]].
    apply (no_reinclusion b rest Hwf Hroot Hv Har s s' Hs2 Hs'2); [congruence|].
    apply Hb; [unfold ushares; cbn [flat_map]; apply in_or_app; left; exact Hs2
              | unfold ushares; cbn [flat_map]; apply in_or_app; right; exact Hs'2 | congruence].
Qed.

(* an accepted share is not (the header of) a block of its own chain *)
Lemma share_no_chain_block_lemma : forall c, uwf c -> uroot c -> uaccepted c -> ubinds_blocks c ->
  forall s bk, In s (ushares c) -> In bk c -> s_id s <> b_id bk.
Proof.
  induction c as [|b rest IH]; intros Hwf Hroot Hacc Hb s bk Hs Hbk Heq; [destruct Hbk|].
  assert (Hacc' : verify_uncles rest b = VOk /\ uaccepted rest) by exact Hacc.
  destruct Hacc' as [Hv Har].
  assert (Hpar : s_parent s = b_parent bk) by (apply (Hb s bk Hs Hbk Heq)).
  unfold ushares in Hs. cbn [flat_map] in Hs. apply in_app_or in Hs. destruct Hs as [Hs|Hs].
  - (* s is listed by the newest block b *)
    destruct (verify_ok_facts b rest Hwf Hroot Hv) as [_ Hf].
    destruct (Hf s Hs) as [_ [Hfam [_ [p [Hp1 [Hp2 _]]]]]].
    destruct Hbk as [Hbk|Hbk].
    + subst bk. apply Hfam. apply in_or_app. right. left. symmetry. exact Heq.
    + destruct (in_split _ _ Hbk) as [l1 [l2 Hsplit]].
      assert (Hn : NoDup (map b_id rest)) by (apply uwf_nodup; simpl in Hwf; tauto).
      assert (Hwfk : uwf (bk :: l2)).
      { assert (Hwr : uwf rest) by (simpl in Hwf; tauto). rewrite Hsplit in Hwr. exact (uwf_app_r _ _ Hwr). }
      destruct l2 as [|q l2'].
      * (* bk is the oldest block: its parent is unknown, but p carries that hash *)
        exfalso. apply Hroot. subst rest.
        replace (last (b :: l1 ++ [bk]) (mkBlk 0 0 0 0 [])) with bk.
        -- rewrite <- Hpar, <- Hp2. right. apply in_map. eapply in_firstn_in. exact Hp1.
        -- change (b :: l1 ++ [bk]) with ((b :: l1) ++ [bk]). rewrite last_last. reflexivity.
      * assert (Hq : b_parent bk = b_id q) by (simpl in Hwfk; tauto).
        assert (Hpq : p = q).
        { apply (same_id_same_blk rest); [exact Hn | eapply in_firstn_in; exact Hp1 | | congruence].
          subst rest. apply in_or_app. right. right. left. reflexivity. }
        subst q.
        assert (Hnot : ~ In p (l1 ++ [bk])).
        { intro Hx. subst rest.
          replace (l1 ++ bk :: p :: l2') with ((l1 ++ [bk]) ++ p :: l2') in Hn by (rewrite <- app_assoc; reflexivity).
          rewrite map_app in Hn. apply nodup_app_iff in Hn. destruct Hn as [_ [_ Hd]].
          apply (Hd (b_id p)); [apply in_map; exact Hx | simpl; left; reflexivity]. }
        assert (Hbk_in : In bk (firstn (u_depth (b_ptn b)) rest)).
        { subst rest. replace (l1 ++ bk :: p :: l2') with ((l1 ++ [bk]) ++ p :: l2') in * by (rewrite <- app_assoc; reflexivity).
          apply (firstn_reach _ _ _ _ p bk Hp1 Hnot). apply in_or_app. right. left. reflexivity. }
        apply Hfam. apply in_or_app. left. rewrite Heq. apply in_map. exact Hbk_in.
  - (* s is listed by an older block: bk cannot be newer than the block that lists s ... *)
    destruct Hbk as [Hbk|Hbk].
    + (* ... bk = b, the newest block: the parent of s is a stored block below, and so is b's parent;
         b's hash equals the hash of a share whose lister is below b, so b_parent b = s_parent s is a
         block strictly below the lister; but b_parent b is the head of rest *)
      subst bk.
      apply in_flat_map in Hs. destruct Hs as [bi [Hbi Hsi]].
      destruct (in_split _ _ Hbi) as [l1 [l2 Hsplit]].
      assert (Hacc_i : verify_uncles l2 bi = VOk).
      { clear - Har Hsplit. subst rest. induction l1 as [|a l1 IHl]; simpl in Har; [tauto|]. apply IHl. tauto. }
      destruct (verify_ok_parent_in_db bi l2 Hacc_i s Hsi) as [p [Hp1 Hp2]].
      assert (Hn : NoDup (map b_id rest)) by (apply uwf_nodup; simpl in Hwf; tauto).
      destruct rest as [|r0 rr]; [destruct Hbi|].
      assert (Hr0 : b_parent b = b_id r0) by (simpl in Hwf; tauto).
      assert (Hp0 : p = r0).
      { apply (same_id_same_blk (r0 :: rr)); [exact Hn | | left; reflexivity | congruence].
        rewrite Hsplit. apply in_or_app. right. right. exact Hp1. }
      subst p.
      (* r0 is the head of r0 :: rr = l1 ++ bi :: l2 and also a member of l2: duplicate hash *)
      destruct l1 as [|a l1'].
      * simpl in Hsplit. inversion Hsplit; subst. simpl in Hn. inversion Hn as [|x l Hna _]; subst.
        apply Hna. apply in_map. exact Hp1.
      * simpl in Hsplit. inversion Hsplit; subst. simpl in Hn. inversion Hn as [|x l Hna _]; subst.
        apply Hna. apply in_map. apply in_or_app. right. right. exact Hp1.
    + destruct rest as [|r0 rr]; [destruct Hbk|].
      refine (IH _ _ Har _ s bk Hs Hbk Heq).
      * simpl in Hwf. simpl. tauto.
      * apply (uroot_tail b); [exact Hroot | discriminate].
      * intros s0 b0 Hs0 Hb0. apply Hb; [unfold ushares; cbn [flat_map]; apply in_or_app; right; exact Hs0 | right; exact Hb0].
Qed.

(* ------------------------------------------------------------------ rewards *)

Lemma u_depth_le : forall ptn, (N.of_nat (u_depth ptn) <= 4)%N /\ (3 <= N.of_nat (u_depth ptn))%N.
Proof.
  intros ptn. unfold u_depth. destruct (inclusion_depth_change_block <=? ptn); vm_compute; split; discriminate.
Qed.

Lemma unumbered_lt : forall c b rest, c = b :: rest -> unumbered c -> forall b', In b' rest -> b_num b' < b_num b.
Proof.
  induction c as [|a c IH]; intros b rest Hc Hn b' Hb'; [discriminate|].
  inversion Hc; subst a c. clear Hc.
  destruct rest as [|p r]; [destruct Hb'|].
  simpl in Hn. destruct Hn as [Hn1 Hn2].
  destruct Hb' as [Hb'|Hb'].
  - subst. lia.
  - assert (b_num b' < b_num p) by (apply (IH p r eq_refl Hn2 b' Hb')). lia.
Qed.

Lemma upaid_in : forall b rest s, In s (upaid b rest) ->
  In s (ushares (b :: rest)) /\ s_num s = b_num b - N.of_nat (u_depth (b_ptn b)) /\ workshares_inclusion_depth < b_num b.
Proof.
  intros b rest s H. unfold upaid in H.
  destruct (b_num b <=? workshares_inclusion_depth) eqn:E1; [destruct H|]. apply N.leb_gt in E1.
  destruct (length rest <? u_depth (b_ptn b))%nat; [destruct H|].
  apply filter_In in H. destruct H as [H1 H2]. apply N.eqb_eq in H2.
  split; [|split; [exact H2 | exact E1]].
  unfold ushares. cbn [flat_map]. apply in_or_app. apply in_app_or in H1. destruct H1 as [H1|H1].
  - right. apply in_flat_map in H1. destruct H1 as [x [Hx1 Hx2]]. apply in_flat_map. exists x.
    split; [eapply in_firstn_in; exact Hx1 | exact Hx2].
  - left. exact H1.
Qed.

Lemma upaid_nodup : forall b rest, NoDup (map s_id (ushares (b :: rest))) -> NoDup (map s_id (upaid b rest)).
Proof.
  intros b rest H. unfold upaid.
  destruct (b_num b <=? workshares_inclusion_depth); [constructor|].
  destruct (length rest <? u_depth (b_ptn b))%nat; [constructor|].
  unfold ushares in H. cbn [flat_map] in H. rewrite map_app in H. apply nodup_app_iff in H.
  destruct H as [H1 [H2 H3]].
  assert (Hall : NoDup (map s_id (flat_map b_uncles (firstn (u_depth (b_ptn b)) rest) ++ b_uncles b))).
  { rewrite map_app. apply nodup_app_iff. split; [|split; [exact H1|]].
    - rewrite <- flat_map_uids. rewrite <- flat_map_uids in H2.
      exact (nodup_map_sub_firstn _ _ uids rest _ H2).
    - intros x Hx1 Hx2. apply (H3 x Hx2). apply in_map_iff in Hx1. destruct Hx1 as [s [Hs1 Hs2]].
      apply in_map_iff. exists s. split; [exact Hs1|]. apply in_flat_map in Hs2. destruct Hs2 as [y [Hy1 Hy2]].
      apply in_flat_map. exists y. split; [eapply in_firstn_in; exact Hy1 | exact Hy2]. }
  generalize Hall. generalize (flat_map b_uncles (firstn (u_depth (b_ptn b)) rest) ++ b_uncles b).
  intros l. induction l as [|a l IHl]; simpl; intros Hl; [constructor|].
  inversion Hl as [|x xl Hna Hnd]; subst.
  destruct (s_num a =? b_num b - N.of_nat (u_depth (b_ptn b))).
  - simpl. constructor; [|exact (IHl Hnd)]. intro Hx. apply Hna. apply in_map_iff in Hx.
    destruct Hx as [s [Hs1 Hs2]]. apply filter_In in Hs2. rewrite <- Hs1. apply in_map. tauto.
  - exact (IHl Hnd).
Qed.

Lemma upaid_all_in : forall c s, In s (upaid_all c) ->
  exists pre b rest, c = pre ++ b :: rest /\ In s (upaid b rest).
Proof.
  induction c as [|a c IH]; simpl; intros s H; [destruct H|].
  apply in_app_or in H. destruct H as [H|H].
  - exists [], a, c. split; [reflexivity | exact H].
  - destruct (IH s H) as [pre [b [rest [H1 H2]]]]. exists (a :: pre), b, rest. subst c. split; [reflexivity | exact H2].
Qed.

Lemma share_rewarded_once_lemma : forall c d, uwf c -> uroot c -> uaccepted c -> ubinds c -> unumbered c ->
  (forall b, In b c -> u_depth (b_ptn b) = d) ->
  NoDup (map s_id (upaid_all c)).
Proof.
  induction c as [|b rest IH]; intros d Hwf Hroot Hacc Hb Hnum Hd; [constructor|].
  assert (Hall : NoDup (map s_id (ushares (b :: rest)))) by (apply share_included_once_lemma; assumption).
  cbn [upaid_all]. rewrite map_app. apply nodup_app_iff. split; [|split].
  - apply upaid_nodup. exact Hall.
  - destruct rest as [|p r]; [constructor|].
    apply (IH d).
    + simpl in Hwf. simpl. tauto.
    + apply (uroot_tail b); [exact Hroot | discriminate].
    + simpl in Hacc. simpl. tauto.
    + intros s s' Hs Hs'. apply Hb; unfold ushares; cbn [flat_map]; apply in_or_app; right; assumption.
    + simpl in Hnum. simpl. tauto.
    + intros b0 Hb0. apply Hd. right. exact Hb0.
  - intros h Hh1 Hh2. apply in_map_iff in Hh1. destruct Hh1 as [s [Hs1 Hs2]].
    apply in_map_iff in Hh2. destruct Hh2 as [s' [Hs'1 Hs'2]].
    apply upaid_in in Hs2. destruct Hs2 as [Hin [Hn1 Hg1]].
    apply upaid_all_in in Hs'2. destruct Hs'2 as [pre [b' [rest' [Hsplit Hp']]]].
    apply upaid_in in Hp'. destruct Hp' as [Hin' [Hn2 Hg2]].
    assert (Hin'' : In s' (ushares (b :: rest))).
    { unfold ushares. cbn [flat_map]. apply in_or_app. right. subst rest. unfold ushares in Hin'.
      rewrite flat_map_app. apply in_or_app. right. exact Hin'. }
    assert (Hss : s = s') by (apply (nodup_map_inj _ _ s_id _ s s' Hall Hin Hin''); congruence).
    subst s'.
    assert (Hb'in : In b' rest) by (subst rest; apply in_or_app; right; left; reflexivity).
    assert (Hlt : b_num b' < b_num b) by (apply (unumbered_lt (b :: rest) b rest eq_refl Hnum b' Hb'in)).
    rewrite (Hd b (or_introl eq_refl)) in Hn1. rewrite (Hd b' (or_intror Hb'in)) in Hn2.
    assert (Hd4 : N.of_nat d <= 4).
    { rewrite <- (Hd b (or_introl eq_refl)). apply u_depth_le. }
    assert (Hw : workshares_inclusion_depth = 3) by reflexivity.
    (* 3 < num b' < num b and d <= 4: the two target numbers differ *)
    assert (b_num b' >= 4) by lia. assert (b_num b >= 5) by lia.
    lia.
Qed.

(* across the block at which the inclusion depth grows from 3 to 4 the rule pays the same target
   height twice: the last depth-3 block at height n and the first depth-4 block at height n+1 both
   pay the shares numbered n-3 *)
Definition wit_share : share := mkShare 100 4 5 300000 false [0] 0 false PValid true.
Definition wit_chain : list blk :=
  [ mkBlk 9 8 9 inclusion_depth_change_block [];
    mkBlk 8 7 8 300000 [];
    mkBlk 7 6 7 300000 [];
    mkBlk 6 5 6 300000 [wit_share];
    mkBlk 5 4 5 300000 [];
    mkBlk 4 3 4 300000 [];
    mkBlk 3 2 3 300000 [];
    mkBlk 2 1 2 300000 [];
    mkBlk 1 0 1 300000 [] ].

Lemma wit_chain_facts :
  uwf wit_chain /\ uroot wit_chain /\ uaccepted wit_chain /\ unumbered wit_chain
  /\ map s_id (upaid_all wit_chain) = [100; 100].
Proof.
  split; [|split; [|split; [|split]]].
  - simpl. repeat split; try reflexivity; intro H; repeat (destruct H as [H|H]; [discriminate H|]); exact H.
  - unfold uroot. simpl. intro H; repeat (destruct H as [H|H]; [discriminate H|]); exact H.
  - simpl. repeat split; vm_compute; reflexivity.
  - simpl. repeat split; reflexivity.
  - vm_compute. reflexivity.
Qed.

Lemma wit_binds : ubinds wit_chain.
Proof.
  intros s s' Hs Hs' _. vm_compute in Hs, Hs'.
  destruct Hs as [Hs|[]]. destruct Hs' as [Hs'|[]]. subst. reflexivity.
Qed.

Lemma share_rewarded_once_refuted_lemma :
  exists c, uwf c /\ uroot c /\ uaccepted c /\ ubinds c /\ unumbered c /\ ~ NoDup (map s_id (upaid_all c)).
Proof.
  exists wit_chain. destruct wit_chain_facts as [H1 [H2 [H3 [H4 H5]]]].
  split; [exact H1|]. split; [exact H2|]. split; [exact H3|]. split; [exact wit_binds|]. split; [exact H4|].
  rewrite H5. intro Hn. inversion Hn as [|x l Hna _]; subst. apply Hna. left. reflexivity.
Qed.

(* ------------------------------------------------------------------ the recency bound *)

(* an accepted share was mined on one of the last `depth` ancestors, so its number lies within
   `depth` of the including block: this is what makes the finite window of the duplicate check
   sufficient *)
Lemma share_recent_lemma : forall b rest, uwf (b :: rest) -> uroot (b :: rest) -> unumbered (b :: rest) ->
  verify_uncles rest b = VOk ->
  forall s, In s (b_uncles b) -> s_num s <= b_num b /\ b_num b < s_num s + N.of_nat (u_depth (b_ptn b)).
Proof.
  intros b rest Hwf Hroot Hnum Hv s Hs.
  destruct (verify_ok_facts b rest Hwf Hroot Hv) as [_ Hf].
  destruct (Hf s Hs) as [_ [_ [Hlen [p [Hp1 [_ Hp3]]]]]].
  (* position of p in rest bounds its number from below *)
  assert (Hgen : forall l top, unumbered (top :: l) -> forall n q, In q (firstn n l) ->
            b_num q < b_num top /\ b_num top <= b_num q + N.of_nat n).
  { induction l as [|a l IHl]; intros top Hn n q Hq; [destruct n; destruct Hq|].
    destruct n as [|n]; [destruct Hq|]. simpl in Hq. simpl in Hn. destruct Hn as [Hn1 Hn2].
    destruct Hq as [Hq|Hq].
    - subst. lia.
    - destruct (IHl a Hn2 n q Hq). lia. }
  destruct (Hgen rest b Hnum _ p Hp1). lia.
Qed.

(* ------------------------------------------------------------------ non-vacuity material *)

Definition ex_share (id parent num : N) : share := mkShare id parent num 300000 false [0] 0 false PValid true.
Definition ex_base : list blk :=
  [ mkBlk 5 4 5 300000 []; mkBlk 4 3 4 300000 []; mkBlk 3 2 3 300000 []; mkBlk 2 1 2 300000 []; mkBlk 1 0 1 300000 [] ].
Definition ex_b6 : blk := mkBlk 6 5 6 300000 [ex_share 100 5 6].
Definition ex_b7_dup : blk := mkBlk 7 6 7 300000 [ex_share 100 5 6].
Definition ex_b7_fresh : blk := mkBlk 7 6 7 300000 [ex_share 101 5 6; ex_share 102 6 7].

(* ------------------------------------------------------------------ one block, no chain hypotheses *)

Lemma share_unique_in_block_lemma : forall db b, verify_uncles db b = VOk -> NoDup (map s_id (b_uncles b)).
Proof.
  intros db b H. unfold verify_uncles in H.
  destruct (u_maxcount (b_ptn b) <? N.of_nat (length (b_uncles b))); [discriminate|].
  destruct (b_uncles b) as [|u0 us] eqn:Eu; [constructor|].
  rewrite <- Eu in *. clear Eu u0 us.
  destruct (uwalk db (u_depth (b_ptn b)) (b_parent b) [] []) as [anc ban].
  apply uloop_ok in H. tauto.
Qed.

Lemma share_count_bounded_lemma : forall db b, verify_uncles db b = VOk ->
  N.of_nat (length (b_uncles b)) <= u_maxcount (b_ptn b).
Proof.
  intros db b H. unfold verify_uncles in H.
  destruct (u_maxcount (b_ptn b) <? N.of_nat (length (b_uncles b))) eqn:E; [discriminate|].
  apply N.ltb_ge in E. exact E.
Qed.

(* ------------------------------------------------------------------ suffixes of a chain *)

Lemma uaccepted_app_r : forall l1 l2, uaccepted (l1 ++ l2) -> uaccepted l2.
Proof. induction l1 as [|a l1 IH]; simpl; intros l2 H; [exact H|]. apply IH. tauto. Qed.

Lemma unumbered_app_r : forall l1 l2, unumbered (l1 ++ l2) -> unumbered l2.
Proof. induction l1 as [|a l1 IH]; simpl; intros l2 H; [exact H|]. apply IH. tauto. Qed.

Lemma uroot_app_r : forall l1 x l2, uroot (l1 ++ x :: l2) -> uroot (x :: l2).
Proof.
  intros l1 x l2 H. unfold uroot in *. intro Hx. apply H.
  replace (last (l1 ++ x :: l2) (mkBlk 0 0 0 0 [])) with (last (x :: l2) (mkBlk 0 0 0 0 [])).
  - rewrite map_app. apply in_or_app. right. exact Hx.
  - clear. induction l1 as [|a l1 IH]; [reflexivity|]. rewrite IH. simpl. destruct (l1 ++ x :: l2) eqn:E; [|reflexivity].
    destruct l1; discriminate.
Qed.

Lemma unumbered_pos : forall l1 b bi l2, unumbered (b :: l1 ++ bi :: l2) ->
  b_num b = b_num bi + N.of_nat (length l1) + 1.
Proof.
  induction l1 as [|a l1 IH]; intros b bi l2 H.
  - simpl in H. simpl. lia.
  - simpl in H. destruct H as [H1 H2]. specialize (IH a bi l2 H2). simpl length. lia.
Qed.

(* a share listed on the chain is paid by the block `depth` above its number, if the chain gets there *)
Lemma share_paid_when_due_lemma : forall pre b rest d, let c := pre ++ b :: rest in
  uwf c -> uroot c -> uaccepted c -> unumbered c ->
  (forall x, In x c -> u_depth (b_ptn x) = d) ->
  forall s, In s (ushares (b :: rest)) -> b_num b = s_num s + N.of_nat d -> In s (upaid b rest).
Proof.
  intros pre b rest d c Hwf Hroot Hacc Hnum Hd s Hs Hdue.
  assert (Hwf' : uwf (b :: rest)) by (apply (uwf_app_r pre); exact Hwf).
  assert (Hroot' : uroot (b :: rest)) by (apply (uroot_app_r pre); exact Hroot).
  assert (Hacc' : uaccepted (b :: rest)) by (apply (uaccepted_app_r pre); exact Hacc).
  assert (Hnum' : unumbered (b :: rest)) by (apply (unumbered_app_r pre); exact Hnum).
  assert (Hdb : u_depth (b_ptn b) = d) by (apply Hd; apply in_or_app; right; left; reflexivity).
  unfold ushares in Hs. cbn [flat_map] in Hs. apply in_app_or in Hs. destruct Hs as [Hs|Hs].
  - exfalso. simpl in Hacc'. destruct Hacc' as [Hv _].
    destruct (share_recent_lemma b rest Hwf' Hroot' Hnum' Hv s Hs) as [_ Hr]. rewrite Hdb in Hr. lia.
  - apply in_flat_map in Hs. destruct Hs as [bi [Hbi Hsi]].
    destruct (in_split _ _ Hbi) as [l1 [l2 Hsplit]].
    assert (Hwfi : uwf (bi :: l2)).
    { subst rest. change (b :: l1 ++ bi :: l2) with ((b :: l1) ++ bi :: l2) in Hwf'. exact (uwf_app_r _ _ Hwf'). }
    assert (Hrooti : uroot (bi :: l2)).
    { subst rest. change (b :: l1 ++ bi :: l2) with ((b :: l1) ++ bi :: l2) in Hroot'. exact (uroot_app_r _ _ _ Hroot'). }
    assert (Hacci : uaccepted (bi :: l2)).
    { subst rest. change (b :: l1 ++ bi :: l2) with ((b :: l1) ++ bi :: l2) in Hacc'. exact (uaccepted_app_r _ _ Hacc'). }
    assert (Hnumi : unumbered (bi :: l2)).
    { subst rest. change (b :: l1 ++ bi :: l2) with ((b :: l1) ++ bi :: l2) in Hnum'. exact (unumbered_app_r _ _ Hnum'). }
    assert (Hdi : u_depth (b_ptn bi) = d).
    { apply Hd. apply in_or_app. right. right. exact Hbi. }
    simpl in Hacci. destruct Hacci as [Hvi _].
    destruct (share_recent_lemma bi l2 Hwfi Hrooti Hnumi Hvi s Hsi) as [Hr1 Hr2]. rewrite Hdi in Hr2.
    destruct (verify_ok_facts bi l2 Hwfi Hrooti Hvi) as [_ Hf].
    destruct (Hf s Hsi) as [_ [_ [Hlen [p [_ [_ Hp3]]]]]]. rewrite Hdi in Hlen.
    assert (Hpos : b_num b = b_num bi + N.of_nat (length l1) + 1).
    { subst rest. exact (unumbered_pos l1 b bi l2 Hnum'). }
    assert (Hl1 : (length l1 < d)%nat) by lia.
    assert (Hl2 : (d <= length l2)%nat).
    { rewrite <- Hlen. rewrite firstn_length. lia. }
    unfold upaid. rewrite Hdb.
    destruct (b_num b <=? workshares_inclusion_depth) eqn:E1.
    { exfalso. apply N.leb_le in E1. assert (Hw : workshares_inclusion_depth = 3) by reflexivity.
      destruct (u_depth_le (b_ptn b)) as [_ H3]. rewrite Hdb in H3. lia. }
    destruct (length rest <? d)%nat eqn:E2.
    { exfalso. apply Nat.ltb_lt in E2. subst rest. rewrite app_length in E2. simpl in E2. lia. }
    apply filter_In. split.
    + apply in_or_app. left. apply in_flat_map. exists bi. split; [|exact Hsi].
      subst rest. rewrite firstn_app. apply in_or_app. right.
      replace (d - length l1)%nat with (S (d - length l1 - 1)) by lia. simpl. left. reflexivity.
    + apply N.eqb_eq. lia.
Qed.

(* C03 — the pool's senders cache (tx hash -> "signature already verified") and block processing
   with the cache-derived checkSig: lemmas behind Props/C03.v (theorems 30..). *)
From Coq Require Import List NArith Bool Lia.
From GQ Require Import Lib.C03_TLV Model.C03.
Import ListNotations.
Local Open Scope N_scope.

(* ================= the verdict splits into a UTXO part and a signature part ================= *)

Section QiSplit.
  Variables hash pub addr sig : Type.
  Variable H : bytes -> hash.
  Variable addr_of_pub : pub -> addr.
  Variable addr_eqb : addr -> addr -> bool.
  Variable in_qi_scope : addr -> bool.
  Variable parse_ok : pub -> bool.
  Variable agg : list pub -> option pub.
  Variable verify : pub -> hash -> sig -> bool.

  Notation own_loop := (own_loop pub addr addr_of_pub addr_eqb in_qi_scope parse_ok).
  Notation qi_authorised := (qi_authorised hash pub addr sig H addr_of_pub addr_eqb in_qi_scope parse_ok agg verify).
  Notation qi_sig_ok := (qi_sig_ok hash pub sig H parse_ok agg verify).
  Notation final_key := (final_key pub agg).

  Lemma own_loop_split : forall ins,
    own_loop true ins = QOk <-> (own_loop false ins = QOk /\ forallb parse_ok (map fst ins) = true).
  Proof.
    induction ins as [|[pk e] rest IH]; cbn [C03.own_loop map forallb fst].
    - split; [intros _; split; reflexivity|intros _; reflexivity].
    - destruct e as [ea|]; [|split; [discriminate|intros [Hx _]; discriminate Hx]].
      destruct (in_qi_scope (addr_of_pub pk)); cbn [negb];
        [|split; [discriminate|intros [Hx _]; discriminate Hx]].
      destruct (addr_eqb (addr_of_pub pk) ea); cbn [negb];
        [|split; [discriminate|intros [Hx _]; discriminate Hx]].
      cbn [andb]. destruct (parse_ok pk); cbn [negb andb].
      + exact IH.
      + split; [discriminate|intros [_ Hx]; discriminate Hx].
  Qed.

  Lemma authorised_split : forall chain f ins sg,
    qi_authorised chain true f ins sg = QOk <->
    (qi_authorised chain false f ins sg = QOk /\ qi_sig_ok f (map fst ins) sg = true).
  Proof.
    intros chain f ins sg. unfold C03.qi_authorised, C03.qi_sig_ok.
    destruct ins as [|i0 rest]; [split; [discriminate|intros [Hx _]; discriminate Hx]|].
    destruct (negb (qi_chain f =? chain)); [split; [discriminate|intros [Hx _]; discriminate Hx]|].
    pose proof (own_loop_split (i0 :: rest)) as Hs.
    destruct (own_loop true (i0 :: rest)) eqn:Ht.
    - destruct Hs as [Hs _]. destruct (Hs eq_refl) as [Hf Hp]. rewrite Hf, Hp. cbn [andb].
      destruct (final_key (map fst (i0 :: rest))) as [k|].
      + destruct (verify k (H (qi_signing_bytes f)) sg).
        * split; [intros _; split; reflexivity|intros _; reflexivity].
        * split; [discriminate|intros [_ Hx]; discriminate Hx].
      + split; [discriminate|intros [_ Hx]; discriminate Hx].
    - split; [discriminate|]. intros [Hf Hp].
      destruct (own_loop false (i0 :: rest)) eqn:Hff; try discriminate Hf.
      apply andb_true_iff in Hp. destruct Hp as [Hp _].
      destruct Hs as [_ Hs]. specialize (Hs (conj eq_refl Hp)). discriminate Hs.
    - split; [discriminate|]. intros [Hf Hp].
      destruct (own_loop false (i0 :: rest)) eqn:Hff; try discriminate Hf.
      apply andb_true_iff in Hp. destruct Hp as [Hp _].
      destruct Hs as [_ Hs]. specialize (Hs (conj eq_refl Hp)). discriminate Hs.
    - split; [discriminate|]. intros [Hf Hp].
      destruct (own_loop false (i0 :: rest)) eqn:Hff; try discriminate Hf.
      apply andb_true_iff in Hp. destruct Hp as [Hp _].
      destruct Hs as [_ Hs]. specialize (Hs (conj eq_refl Hp)). discriminate Hs.
    - split; [discriminate|]. intros [Hf Hp].
      destruct (own_loop false (i0 :: rest)) eqn:Hff; try discriminate Hf.
      apply andb_true_iff in Hp. destruct Hp as [Hp _].
      destruct Hs as [_ Hs]. specialize (Hs (conj eq_refl Hp)). discriminate Hs.
    - split; [discriminate|]. intros [Hf Hp].
      destruct (own_loop false (i0 :: rest)) eqn:Hff; try discriminate Hf.
      apply andb_true_iff in Hp. destruct Hp as [Hp _].
      destruct Hs as [_ Hs]. specialize (Hs (conj eq_refl Hp)). discriminate Hs.
    - split; [discriminate|]. intros [Hf Hp].
      destruct (own_loop false (i0 :: rest)) eqn:Hff; try discriminate Hf.
      apply andb_true_iff in Hp. destruct Hp as [Hp _].
      destruct Hs as [_ Hs]. specialize (Hs (conj eq_refl Hp)). discriminate Hs.
    - split; [discriminate|]. intros [Hf Hp].
      destruct (own_loop false (i0 :: rest)) eqn:Hff; try discriminate Hf.
      apply andb_true_iff in Hp. destruct Hp as [Hp _].
      destruct Hs as [_ Hs]. specialize (Hs (conj eq_refl Hp)). discriminate Hs.
  Qed.

  Variable outpoint : Type.
  Notation qi_process := (qi_process hash pub addr sig H addr_of_pub addr_eqb in_qi_scope parse_ok agg verify outpoint).

  Lemma lookup_keys : forall utxo (oins : list (outpoint * pub)),
    map fst (qi_lookup pub addr outpoint utxo oins) = map snd oins.
  Proof. intros. unfold C03.qi_lookup. rewrite map_map. reflexivity. Qed.

  (* the signature part does not depend on the UTXO set *)
  Lemma process_split : forall utxo chain f oins sg,
    qi_process utxo chain true f oins sg = QOk <->
    (qi_process utxo chain false f oins sg = QOk /\ qi_sig_ok f (map snd oins) sg = true).
  Proof.
    intros. unfold C03.qi_process. rewrite authorised_split, lookup_keys. reflexivity.
  Qed.
End QiSplit.

(* ================= the pool state machine keeps "cached => signature verified" ================= *)

Section PoolFacts.
  Variable pool_valid : N -> bool.
  Variable reinject_valid : N -> bool.
  Variable proc_ok : N -> bool -> bool.
  Variable sigok : N -> bool.

  Notation padd_one := (padd_one pool_valid).
  Notation preinject_one := (preinject_one reinject_valid).
  Notation pstep := (pstep pool_valid reinject_valid proc_ok).
  Notation pfinal := (pfinal pool_valid reinject_valid proc_ok).

  (* every hash in senders and every hash with a cached fee belongs to a transaction whose signature
     verifies under the keys it carries *)
  Definition pinv (st : pstate) : Prop :=
    (forall i, pmem i (p_cache st) = true -> sigok i = true)
    /\ (forall i, pmem i (p_fees st) = true -> sigok i = true).

  Lemma pmem_cons : forall i j l, pmem i (j :: l) = (N.eqb i j || pmem i l)%bool.
  Proof. reflexivity. Qed.

  Lemma pmem_cons_sig : forall i j l,
    sigok j = true -> (forall k, pmem k l = true -> sigok k = true) ->
    pmem i (j :: l) = true -> sigok i = true.
  Proof.
    intros i j l Hj Hl Hm. rewrite pmem_cons in Hm. apply orb_true_iff in Hm.
    destruct Hm as [He|Hm]; [apply N.eqb_eq in He; subst i; exact Hj|apply Hl; exact Hm].
  Qed.

  Lemma pinv_empty : pinv p_empty.
  Proof. split; intros i Hm; discriminate Hm. Qed.

  Lemma padd_one_inv : (forall i, pool_valid i = true -> sigok i = true) ->
    forall qp0 acc i, pinv (fst acc) -> pinv (fst (padd_one qp0 acc i)).
  Proof.
    intros Hpv qp0 [st res] i Hinv. unfold C03.padd_one.
    destruct (pmem i qp0); [exact Hinv|].
    destruct (pool_valid i) eqn:Hv; [|exact Hinv].
    destruct Hinv as [Hc Hf]. cbn [fst] in *. split; cbn [p_cache p_fees]; intros k Hk.
    - eapply pmem_cons_sig; [apply Hpv; exact Hv|exact Hc|exact Hk].
    - eapply pmem_cons_sig; [apply Hpv; exact Hv|exact Hf|exact Hk].
  Qed.

  Lemma padd_all_inv : (forall i, pool_valid i = true -> sigok i = true) ->
    forall qp0 l acc, pinv (fst acc) -> pinv (fst (fold_left (padd_one qp0) l acc)).
  Proof.
    intros Hpv qp0. induction l as [|i l IH]; intros acc Hinv; cbn [fold_left]; [exact Hinv|].
    apply IH. apply padd_one_inv; assumption.
  Qed.

  Lemma preinject_one_inv : (forall i, reinject_valid i = true -> sigok i = true) ->
    forall st i, pinv st -> pinv (preinject_one st i).
  Proof.
    intros Hpv st i [Hc Hf]. unfold C03.preinject_one.
    destruct (pmem i (p_qp st)); [split; assumption|].
    destruct (pmem i (p_fees st)) eqn:Hfee.
    - (* fee cached: re-entered without validation; justified by the fee-cache half of the invariant *)
      split; cbn [p_cache p_fees]; [|exact Hf].
      intros k Hk. eapply pmem_cons_sig; [apply Hf; exact Hfee|exact Hc|exact Hk].
    - destruct (reinject_valid i) eqn:Hv; [|split; assumption].
      split; cbn [p_cache p_fees]; intros k Hk.
      + eapply pmem_cons_sig; [apply Hpv; exact Hv|exact Hc|exact Hk].
      + eapply pmem_cons_sig; [apply Hpv; exact Hv|exact Hf|exact Hk].
  Qed.

  Lemma preinject_all_inv : (forall i, reinject_valid i = true -> sigok i = true) ->
    forall l st, pinv st -> pinv (fold_left preinject_one l st).
  Proof.
    intros Hpv. induction l as [|i l IH]; intros st Hinv; cbn [fold_left]; [exact Hinv|].
    apply IH. apply preinject_one_inv; assumption.
  Qed.

  Lemma premove_all_inv : forall l st, pinv st -> pinv (premove_all l st).
  Proof. intros l st [Hc Hf]. split; cbn [premove_all p_cache p_fees]; assumption. Qed.

  Lemma pstep_inv : (forall i, pool_valid i = true -> sigok i = true) ->
    (forall i, reinject_valid i = true -> sigok i = true) ->
    forall st op, pinv st -> pinv (fst (pstep st op)).
  Proof.
    intros Hpv Hrv st op Hinv. destruct op as [l|l|l|l]; cbn [C03.pstep fst].
    - apply padd_all_inv; [exact Hpv|exact Hinv].
    - exact Hinv.
    - apply premove_all_inv. exact Hinv.
    - apply preinject_all_inv; [exact Hrv|]. apply premove_all_inv. exact Hinv.
  Qed.

  Lemma pfinal_inv : (forall i, pool_valid i = true -> sigok i = true) ->
    (forall i, reinject_valid i = true -> sigok i = true) ->
    forall ops st, pinv st -> pinv (pfinal st ops).
  Proof.
    intros Hpv Hrv. unfold C03.pfinal. induction ops as [|op ops IH]; intros st Hinv; cbn [fold_left]; [exact Hinv|].
    apply IH. apply pstep_inv; assumption.
  Qed.

  (* a refused add leaves every table as it was *)
  Lemma refused_add_changes_nothing : forall st i,
    pool_valid i = false -> pmem i (p_qp st) = false ->
    pstep st (PAdd [i]) = (st, [2]).
  Proof.
    intros st i Hv Hq. cbn [C03.pstep fold_left]. unfold C03.padd_one. rewrite Hq, Hv. reflexivity.
  Qed.

  (* block processing with the cache-derived checkSig, after any history *)
  Lemma cached_checksig_sound :
    (forall i, pool_valid i = true -> sigok i = true) ->
    (forall i, reinject_valid i = true -> sigok i = true) ->
    (forall i, proc_ok i false = true -> sigok i = true -> proc_ok i true = true) ->
    forall ops i,
      proc_ok i (negb (pmem i (p_cache (pfinal p_empty ops)))) = true -> proc_ok i true = true.
  Proof.
    intros Hpv Hrv Hsplit ops i Ha.
    destruct (pfinal_inv Hpv Hrv ops p_empty pinv_empty) as [Hc _].
    destruct (pmem i (p_cache (pfinal p_empty ops))) eqn:Hm; cbn [negb] in Ha; [|exact Ha].
    apply Hsplit; [exact Ha|apply Hc; exact Hm].
  Qed.

  (* the same read off the observation the harness compares: the verdict pair of a PProc step *)
  Lemma proc_step_sound :
    (forall i, pool_valid i = true -> sigok i = true) ->
    (forall i, reinject_valid i = true -> sigok i = true) ->
    (forall i, proc_ok i false = true -> sigok i = true -> proc_ok i true = true) ->
    forall ops i c,
      snd (pstep (pfinal p_empty ops) (PProc [i])) = [c; 1] -> proc_ok i true = true.
  Proof.
    intros Hpv Hrv Hsplit ops i c Hs. cbn [C03.pstep snd flat_map app] in Hs.
    injection Hs as _ Ha. apply (cached_checksig_sound Hpv Hrv Hsplit ops i).
    destruct (proc_ok i (negb (pmem i (p_cache (pfinal p_empty ops))))); [reflexivity|discriminate Ha].
  Qed.
End PoolFacts.

(* ================= instantiated with the Qi verdicts ================= *)

Section QiPoolSound.
  Variables hash pub addr sig outpoint : Type.
  Variable H : bytes -> hash.
  Variable addr_of_pub : pub -> addr.
  Variable addr_eqb : addr -> addr -> bool.
  Variable in_qi_scope : addr -> bool.
  Variable parse_ok : pub -> bool.
  Variable agg : list pub -> option pub.
  Variable verify : pub -> hash -> sig -> bool.
  Notation qi_process := (qi_process hash pub addr sig H addr_of_pub addr_eqb in_qi_scope parse_ok agg verify outpoint).
  Notation qi_sig_ok := (qi_sig_ok hash pub sig H parse_ok agg verify).

  Lemma qi_cached_checksig_sound :
    forall chain (tf : N -> qfields) (tins : N -> list (outpoint * pub)) (tsg : N -> sig)
           (pool_valid reinject_valid : N -> bool) (proc0 : N -> bool -> bool),
    (* whatever the pool's view of the UTXO set was when it validated transaction i *)
    (forall i, pool_valid i = true -> exists utxo, qi_process utxo chain true (tf i) (tins i) (tsg i) = QOk) ->
    (forall i, reinject_valid i = true -> exists utxo, qi_process utxo chain true (tf i) (tins i) (tsg i) = QOk) ->
    forall ops utxo' i,
      qi_process utxo' chain (negb (pmem i (p_cache (pfinal pool_valid reinject_valid proc0 p_empty ops)))) (tf i) (tins i) (tsg i) = QOk ->
      qi_process utxo' chain true (tf i) (tins i) (tsg i) = QOk.
  Proof.
    intros chain tf tins tsg pool_valid reinject_valid proc0 Hpv Hrv ops utxo' i Ha.
    set (sigok := fun i => qi_sig_ok (tf i) (map snd (tins i)) (tsg i)).
    assert (Hpv' : forall i, pool_valid i = true -> sigok i = true).
    { intros j Hj. destruct (Hpv j Hj) as (utxo & Hu). apply process_split in Hu. exact (proj2 Hu). }
    assert (Hrv' : forall i, reinject_valid i = true -> sigok i = true).
    { intros j Hj. destruct (Hrv j Hj) as (utxo & Hu). apply process_split in Hu. exact (proj2 Hu). }
    destruct (pfinal_inv pool_valid reinject_valid proc0 sigok Hpv' Hrv' ops p_empty (pinv_empty sigok)) as [Hc _].
    destruct (pmem i (p_cache (pfinal pool_valid reinject_valid proc0 p_empty ops))) eqn:Hm; cbn [negb] in Ha; [|exact Ha].
    apply process_split. split; [exact Ha|apply Hc; exact Hm].
  Qed.
End QiPoolSound.

(* ---- NOT the code: the "negative cache" variant of addQiTxs that remembers the hash of a refused
   transaction in the senders cache ("so that copies are dropped").  Kept only to state that it breaks
   the invariant: a transaction with an invalid signature is accepted by block processing. ---- *)
Section NegCache.
  Variable pool_valid : N -> bool.
  Variable proc_ok : N -> bool -> bool.
  Definition padd_one_neg (qp0 : list N) (acc : pstate * list N) (i : N) : pstate * list N :=
    let '(st, res) := acc in
    if pmem i (p_cache st) then (st, res ++ [1])
    else if pmem i qp0 then (st, res ++ [1])
    else if pool_valid i then (mkP (i :: p_qp st) (i :: p_fees st) (i :: p_cache st), res ++ [0])
    else (mkP (p_qp st) (p_fees st) (i :: p_cache st), res ++ [2]).
  Definition pstep_neg (st : pstate) (op : pop) : pstate * list N :=
    match op with
    | PAdd l => fold_left (padd_one_neg (p_qp st)) l (st, [])
    | _ => pstep pool_valid pool_valid proc_ok st op
    end.
End NegCache.

(* universe: transaction 0 passes every UTXO check but its signature is invalid *)
Lemma neg_cache_accepts_forged :
  let pool_valid := fun _ : N => false in
  let proc_ok := fun (_ : N) (cs : bool) => negb cs in
  let st1 := fst (pstep_neg pool_valid proc_ok p_empty (PAdd [0])) in
  proc_ok 0 true = false
  /\ snd (pstep pool_valid pool_valid proc_ok p_empty (PProc [0])) = [0; 0]             (* not seen before: refused *)
  /\ snd (pstep_neg pool_valid proc_ok p_empty (PAdd [0])) = [2]                         (* the pool refuses it *)
  /\ snd (pstep_neg pool_valid proc_ok st1 (PProc [0])) = [1; 1]                         (* then a block is accepted *)
  /\ snd (pstep pool_valid pool_valid proc_ok (fst (pstep pool_valid pool_valid proc_ok p_empty (PAdd [0]))) (PProc [0])) = [0; 0].
Proof. vm_compute. repeat split. Qed.

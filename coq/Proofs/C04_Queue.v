(* C04 (a): the ETX queue inside the ETX trie refines a FIFO list. *)
From Coq Require Import List NArith Lia ZifyBool ZifyNat ZifyN Bool.
From GQ Require Import Lib.Key Lib.SMap Lib.C04_BigEndian Lib.C04_Expr Model.C04.
Import ListNotations.
Local Open Scope N_scope.

(* ---------- keys ---------- *)

Lemma ctl_key_zero_led c : exists k, ctl_key c = 0 :: k.
Proof. eexists. reflexivity. Qed.

Lemma index_key_ne_ctl i c : be_min i <> ctl_key c.
Proof. destruct (ctl_key_zero_led c) as [k ->]. apply be_min_not_zero_led. Qed.

Lemma ctl_key_inj a b : ctl_key a = ctl_key b -> a = b.
Proof.
  unfold ctl_key. intros H. apply app_inv_head in H. apply app_inv_head in H. congruence.
Qed.

Lemma oldest_ne_newest : oldest_key <> newest_key.
Proof. intros H. apply ctl_key_inj in H. discriminate. Qed.
Lemma newest_ne_oldest : newest_key <> oldest_key.
Proof. intros H. apply ctl_key_inj in H. discriminate. Qed.
Lemma newest_ne_index i : newest_key <> be_min i.
Proof. apply not_eq_sym, index_key_ne_ctl. Qed.
Lemma oldest_ne_index i : oldest_key <> be_min i.
Proof. apply not_eq_sym, index_key_ne_ctl. Qed.
Lemma newest_ne_kquai : newest_key <> kquai_key.
Proof. intros H. apply ctl_key_inj in H. discriminate. Qed.
Lemma oldest_ne_kquai : oldest_key <> kquai_key.
Proof. intros H. apply ctl_key_inj in H. discriminate. Qed.
Lemma kquai_ne_newest : kquai_key <> newest_key.
Proof. intros H. apply ctl_key_inj in H. discriminate. Qed.
Lemma kquai_ne_oldest : kquai_key <> oldest_key.
Proof. intros H. apply ctl_key_inj in H. discriminate. Qed.

(* ---------- the trie as a total function key -> bytes ---------- *)

Definition novoid (t : trie) : Prop := forall k, get k t <> Some [].

Lemma tget_tupdate_same k v t : sorted t -> tget k (tupdate k v t) = v.
Proof.
  intros S. unfold tget, tupdate. destruct v as [|b v].
  - rewrite get_del_same by exact S. reflexivity.
  - rewrite get_put_same. reflexivity.
Qed.

Lemma tget_tupdate_other k k0 v t : sorted t -> k0 <> k -> tget k0 (tupdate k v t) = tget k0 t.
Proof.
  intros S N. unfold tget, tupdate. destruct v as [|b v].
  - rewrite get_del_other by assumption. reflexivity.
  - rewrite get_put_other by assumption. reflexivity.
Qed.

Lemma tupdate_sorted k v t : sorted t -> sorted (tupdate k v t).
Proof. intros S. unfold tupdate. destruct v; [apply del_sorted|apply put_sorted]; exact S. Qed.

Lemma get_del_cases k k0 (t : trie) : sorted t ->
  get k0 (del k t) = if keqb k0 k then None else get k0 t.
Proof.
  intros S. destruct (keqb k0 k) eqn:E.
  - apply keqb_eq in E. subst. apply get_del_same. exact S.
  - apply keqb_neq in E. apply get_del_other; assumption.
Qed.

Lemma del_novoid k t : sorted t -> novoid t -> novoid (del k t).
Proof.
  intros S NV k0. rewrite get_del_cases by exact S. destruct (keqb k0 k); [discriminate|apply NV].
Qed.

Lemma tupdate_novoid k v t : sorted t -> novoid t -> novoid (tupdate k v t).
Proof.
  intros S NV. unfold tupdate. destruct v as [|b v]; [apply del_novoid; assumption|].
  intros k0. destruct (keqb k0 k) eqn:E.
  - apply keqb_eq in E. subst. rewrite get_put_same. discriminate.
  - apply keqb_neq in E. rewrite get_put_other by exact E. apply NV.
Qed.

Lemma tget_del_same k t : sorted t -> tget k (del k t) = [].
Proof. intros S. unfold tget. rewrite get_del_same by exact S. reflexivity. Qed.

Lemma tget_del_other k k0 t : sorted t -> k0 <> k -> tget k0 (del k t) = tget k0 t.
Proof. intros S N. unfold tget. rewrite get_del_other by assumption. reflexivity. Qed.

(* sorted tries without empty values are determined by tget *)
Lemma trie_ext t1 t2 : sorted t1 -> sorted t2 -> novoid t1 -> novoid t2 ->
  (forall k, tget k t1 = tget k t2) -> t1 = t2.
Proof.
  intros S1 S2 N1 N2 H. apply sorted_ext; auto. intros k. specialize (H k). unfold tget in H.
  specialize (N1 k). specialize (N2 k).
  destruct (get k t1) as [v1|], (get k t2) as [v2|]; subst; try congruence.
Qed.

(* ---------- index sequences ---------- *)

Fixpoint nseq (s : N) (len : nat) : list N :=
  match len with
  | O => []
  | S l => s :: nseq (s + 1) l
  end.

Lemma nseq_length s len : length (nseq s len) = len.
Proof. revert s; induction len; intros; cbn; auto. Qed.

Lemma nseq_app s a b : nseq s (a + b) = nseq s a ++ nseq (s + N.of_nat a) b.
Proof.
  revert s; induction a as [|a IH]; intros s; cbn [nseq Nat.add app].
  - f_equal. lia.
  - rewrite IH. do 3 f_equal. lia.
Qed.

Lemma nseq_in s len x : In x (nseq s len) <-> s <= x < s + N.of_nat len.
Proof.
  revert s; induction len as [|len IH]; intros s; cbn [nseq In].
  - lia.
  - rewrite IH. lia.
Qed.

Lemma map_nseq_ext (A : Type) (f g : N -> A) s len :
  (forall i, s <= i < s + N.of_nat len -> f i = g i) -> map f (nseq s len) = map g (nseq s len).
Proof. intros H. apply map_ext_in. intros i Hi. apply H. apply nseq_in. exact Hi. Qed.

Lemma map_nseq_list (A : Type) (f : N -> A) (l : list A) s :
  (forall j e, nth_error l j = Some e -> f (s + N.of_nat j) = e) -> map f (nseq s (length l)) = l.
Proof.
  revert s; induction l as [|x l IH]; intros s H; cbn [length nseq map]; [reflexivity|].
  f_equal.
  - specialize (H 0%nat x eq_refl). rewrite N.add_0_r in H. exact H.
  - apply IH. intros j e Hj. specialize (H (S j) e Hj).
    replace (s + 1 + N.of_nat j) with (s + N.of_nat (S j)) by lia. exact H.
Qed.

(* ---------- abstraction and invariant ---------- *)

Definition cell (t : trie) (i : N) : etx := tget (be_min i) t.

Definition abs (t : trie) : list etx :=
  map (cell t) (nseq (get_oldest t) (N.to_nat (get_newest t - get_oldest t))).

Record Inv (t : trie) : Prop := mkInv {
  inv_sorted : sorted t;
  inv_novoid : novoid t;
  inv_le : get_oldest t <= get_newest t;
  inv_old_canon : tget oldest_key t = be_min (get_oldest t);
  inv_new_canon : tget newest_key t = be_min (get_newest t);
  inv_live : forall i, get_oldest t <= i < get_newest t -> cell t i <> [];
  inv_dead : forall i, i < get_oldest t \/ get_newest t <= i -> cell t i = []
}.

Definition wf_etxs (l : list etx) : Prop := Forall (fun e => e <> []) l.

Lemma abs_length t : Inv t -> N.of_nat (length (abs t)) = get_newest t - get_oldest t.
Proof. intros I. unfold abs. rewrite map_length, nseq_length. apply N2Nat.id. Qed.

Lemma map_nseq_nth (A : Type) (f : N -> A) len : forall j s, (j < len)%nat ->
  nth_error (map f (nseq s len)) j = Some (f (s + N.of_nat j)).
Proof.
  induction len as [|len IH]; intros j s H; [lia|].
  destruct j as [|j]; cbn [nseq map nth_error].
  - rewrite N.add_0_r. reflexivity.
  - rewrite IH by lia. do 2 f_equal. lia.
Qed.

Lemma abs_nth t j : Inv t -> (j < length (abs t))%nat ->
  nth_error (abs t) j = Some (cell t (get_oldest t + N.of_nat j)).
Proof.
  intros I. unfold abs. rewrite map_length, nseq_length. apply map_nseq_nth.
Qed.

Lemma abs_wf t : Inv t -> wf_etxs (abs t).
Proof.
  intros I. unfold wf_etxs, abs. apply Forall_forall. intros e He.
  apply in_map_iff in He as (i & <- & Hi). apply nseq_in in Hi.
  apply (inv_live t I). pose proof (inv_le t I). lia.
Qed.

(* ---------- the initial states ---------- *)

Lemma empty_inv : Inv [].
Proof.
  constructor; [exact I| | | reflexivity | reflexivity | | ].
  - intros k. cbn. discriminate.
  - cbn. lia.
  - cbn. lia.
  - intros i _. reflexivity.
Qed.

Lemma init_at_facts o0 :
  let t := init_at o0 in
  sorted t /\ novoid t /\ get_oldest t = o0 /\ get_newest t = o0 /\
  (forall k, k <> oldest_key -> k <> newest_key -> tget k t = []).
Proof.
  cbn zeta. unfold init_at.
  assert (S0 : sorted ([] : trie)) by exact I.
  assert (N0 : novoid ([] : trie)) by (intros k; cbn; discriminate).
  assert (S1 : sorted (tupdate oldest_key (be_min o0) [])) by (apply tupdate_sorted; exact S0).
  repeat split.
  - apply tupdate_sorted; exact S1.
  - apply tupdate_novoid; [exact S1|apply tupdate_novoid; assumption].
  - unfold get_oldest. rewrite tget_tupdate_other by (auto using oldest_ne_newest).
    rewrite tget_tupdate_same by exact S0. apply of_be_be_min.
  - unfold get_newest. rewrite tget_tupdate_same by exact S1. apply of_be_be_min.
  - intros k H1 H2. rewrite tget_tupdate_other by auto. rewrite tget_tupdate_other by auto. reflexivity.
Qed.

Lemma init_at_inv o0 : Inv (init_at o0).
Proof.
  destruct (init_at_facts o0) as (S & NV & Ho & Hn & F).
  constructor; auto.
  - lia.
  - rewrite Ho. unfold init_at.
    rewrite tget_tupdate_other; [|apply tupdate_sorted; exact I|apply oldest_ne_newest].
    apply tget_tupdate_same. exact I.
  - rewrite Hn. unfold init_at. apply tget_tupdate_same. apply tupdate_sorted. exact I.
  - intros i Hi. lia.
  - intros i _. unfold cell. apply F; apply index_key_ne_ctl.
Qed.

Lemma init_at_abs o0 : abs (init_at o0) = [].
Proof.
  destruct (init_at_facts o0) as (_ & _ & Ho & Hn & _).
  unfold abs. rewrite Ho, Hn, N.sub_diag. reflexivity.
Qed.

(* ---------- push ---------- *)

Lemma push_loop_spec l : forall t idx, sorted t -> novoid t -> wf_etxs l ->
  let r := push_loop t idx l in
  snd r = idx + N.of_nat (length l) /\ sorted (fst r) /\ novoid (fst r) /\
  (forall k, (forall j, (j < length l)%nat -> k <> be_min (idx + N.of_nat j)) -> tget k (fst r) = tget k t) /\
  (forall j e, nth_error l j = Some e -> tget (be_min (idx + N.of_nat j)) (fst r) = e).
Proof.
  induction l as [|x l IH]; intros t idx St NV W; cbn [push_loop length].
  - cbn. repeat split; auto; try lia. intros [|j] e H; discriminate.
  - inversion W as [|? ? Hx Wl]; subst.
    pose proof (tupdate_sorted (be_min idx) x t St) as S1.
    pose proof (tupdate_novoid (be_min idx) x t St NV) as N1.
    specialize (IH (tupdate (be_min idx) x t) (idx + 1) S1 N1 Wl). cbn zeta in IH.
    destruct IH as (E & S2 & N2 & F & G). cbn zeta.
    split; [rewrite E; lia|]. split; [exact S2|]. split; [exact N2|]. split.
    + intros k Hk. rewrite F.
      * apply tget_tupdate_other; [exact St|]. specialize (Hk 0%nat ltac:(lia)).
        rewrite N.add_0_r in Hk. exact Hk.
      * intros j Hj. specialize (Hk (S j) ltac:(lia)).
        replace (idx + 1 + N.of_nat j) with (idx + N.of_nat (S j)) by lia. exact Hk.
    + intros [|j] e Hj; cbn [nth_error] in Hj.
      * inversion Hj; subst e. rewrite N.add_0_r. rewrite F.
        -- apply tget_tupdate_same. exact St.
        -- intros j _ Heq. apply be_min_inj in Heq. lia.
      * replace (idx + N.of_nat (S j)) with (idx + 1 + N.of_nat j) by lia. apply G. exact Hj.
Qed.

Lemma push_etxs_spec t l : Inv t -> wf_etxs l ->
  let t' := push_etxs t l in
  Inv t' /\ get_oldest t' = get_oldest t /\ get_newest t' = get_newest t + N.of_nat (length l) /\
  abs t' = abs t ++ l /\
  (forall k, k <> newest_key -> (forall i, k <> be_min i) -> tget k t' = tget k t).
Proof.
  intros I W. cbn zeta. unfold push_etxs.
  pose proof (push_loop_spec l t (get_newest t) (inv_sorted t I) (inv_novoid t I) W) as P.
  cbn zeta in P. destruct (push_loop t (get_newest t) l) as [t1 n1]. cbn [fst snd] in P.
  destruct P as (E & S1 & N1 & F & G). subst n1.
  set (n' := get_newest t + N.of_nat (length l)).
  set (t' := tupdate newest_key (be_min n') t1).
  assert (S' : sorted t') by (apply tupdate_sorted; exact S1).
  assert (Hcell : forall k, k <> newest_key -> tget k t' = tget k t1).
  { intros k Hk. apply tget_tupdate_other; assumption. }
  assert (Hn : get_newest t' = n').
  { unfold get_newest, t'. rewrite tget_tupdate_same by exact S1. apply of_be_be_min. }
  assert (Hold : tget oldest_key t' = tget oldest_key t).
  { rewrite Hcell by apply oldest_ne_newest. apply F. intros j _. apply oldest_ne_index. }
  assert (Ho : get_oldest t' = get_oldest t) by (unfold get_oldest; rewrite Hold; reflexivity).
  assert (Hlow : forall i, i < get_newest t -> cell t' i = cell t i).
  { intros i Hi. unfold cell. rewrite Hcell by apply index_key_ne_ctl. apply F.
    intros j _ Heq. apply be_min_inj in Heq. lia. }
  assert (Hhigh : forall i, n' <= i -> cell t' i = cell t i).
  { intros i Hi. unfold cell. rewrite Hcell by apply index_key_ne_ctl. apply F.
    intros j Hj Heq. apply be_min_inj in Heq. unfold n' in Hi. lia. }
  assert (Hnew : forall j e, nth_error l j = Some e -> cell t' (get_newest t + N.of_nat j) = e).
  { intros j e Hj. unfold cell. rewrite Hcell by apply index_key_ne_ctl. apply G. exact Hj. }
  pose proof (inv_le t I) as Le.
  split; [|split; [exact Ho|split; [exact Hn|split]]].
  - constructor.
    + exact S'.
    + apply tupdate_novoid; assumption.
    + rewrite Ho, Hn. unfold n'. lia.
    + rewrite Hold, Ho. apply (inv_old_canon t I).
    + rewrite Hn. unfold t'. apply tget_tupdate_same. exact S1.
    + rewrite Ho, Hn. intros i Hi. destruct (N.ltb_spec i (get_newest t)) as [Hlt|Hge].
      * rewrite Hlow by exact Hlt. apply (inv_live t I). lia.
      * pose (j := N.to_nat (i - get_newest t)).
        assert (Hj : (j < length l)%nat) by (unfold j, n' in *; lia).
        destruct (nth_error l j) as [e|] eqn:En; [|apply nth_error_None in En; lia].
        replace i with (get_newest t + N.of_nat j) by (unfold j; lia).
        rewrite (Hnew j e En). unfold wf_etxs in W. rewrite Forall_forall in W. apply W.
        eapply nth_error_In; eauto.
    + rewrite Ho, Hn. intros i [Hi|Hi].
      * rewrite Hlow by lia. apply (inv_dead t I). left. exact Hi.
      * rewrite Hhigh by exact Hi. apply (inv_dead t I). right. unfold n' in Hi. lia.
  - unfold abs at 1. rewrite Ho, Hn. unfold n'.
    replace (N.to_nat (get_newest t + N.of_nat (length l) - get_oldest t))
      with (N.to_nat (get_newest t - get_oldest t) + length l)%nat by lia.
    rewrite nseq_app, map_app. f_equal.
    + unfold abs. apply map_nseq_ext. intros i Hi. apply Hlow. lia.
    + replace (get_oldest t + N.of_nat (N.to_nat (get_newest t - get_oldest t))) with (get_newest t) by lia.
      apply map_nseq_list. exact Hnew.
  - intros k Hk Hi. rewrite Hcell by exact Hk. apply F. intros j _. apply Hi.
Qed.

(* the one-item entry point agrees with the list one *)
Lemma push_etx_as_list t e : Inv t -> push_etx t e = push_etxs t [e].
Proof. intros I. unfold push_etx, push_etxs. cbn [push_loop]. reflexivity. Qed.

(* ---------- pop / read ---------- *)

Lemma pop_etx_spec t : Inv t ->
  match abs t with
  | [] => pop_etx t = (None, t)
  | e :: rest =>
      exists t', pop_etx t = (Some e, t') /\ Inv t' /\ abs t' = rest /\
        get_oldest t' = get_oldest t + 1 /\ get_newest t' = get_newest t /\
        cell t' (get_oldest t) = [] /\
        (forall k, k <> oldest_key -> k <> be_min (get_oldest t) -> tget k t' = tget k t)
  end.
Proof.
  intros I. pose proof (inv_le t I) as Le. pose proof (abs_length t I) as Len.
  destruct (abs t) as [|e rest] eqn:EA.
  - cbn in Len. unfold pop_etx.
    assert (Hc : cell t (get_oldest t) = []) by (apply (inv_dead t I); right; lia).
    unfold cell in Hc. rewrite Hc. reflexivity.
  - cbn [length] in Len.
    assert (Hlt : get_oldest t < get_newest t) by lia.
    assert (He : cell t (get_oldest t) = e).
    { pose proof (abs_nth t 0 I) as Hn. rewrite EA in Hn. cbn [length nth_error] in Hn.
      specialize (Hn ltac:(lia)). rewrite N.add_0_r in Hn. congruence. }
    assert (Hne : e <> []) by (rewrite <- He; apply (inv_live t I); lia).
    set (o := get_oldest t) in *.
    set (t1 := del (be_min o) t).
    set (t' := tupdate oldest_key (be_min (o + 1)) t1).
    assert (St := inv_sorted t I).
    assert (S1 : sorted t1) by (apply del_sorted; exact St).
    assert (S' : sorted t') by (apply tupdate_sorted; exact S1).
    exists t'. unfold pop_etx. fold o. unfold cell in He. rewrite He.
    destruct e as [|b e]; [congruence|]. fold t1. fold t'.
    assert (Hframe : forall k, k <> oldest_key -> k <> be_min o -> tget k t' = tget k t).
    { intros k H1 H2. unfold t'. rewrite tget_tupdate_other by assumption.
      apply tget_del_other; assumption. }
    assert (Ho' : get_oldest t' = o + 1).
    { unfold get_oldest at 1, t'. rewrite tget_tupdate_same by exact S1. apply of_be_be_min. }
    assert (Hn' : get_newest t' = get_newest t).
    { unfold get_newest. rewrite Hframe; [reflexivity|apply newest_ne_oldest|apply newest_ne_index]. }
    assert (Hco : cell t' o = []).
    { unfold cell, t'. rewrite tget_tupdate_other; [|exact S1|apply index_key_ne_ctl].
      apply tget_del_same. exact St. }
    assert (Hcell : forall i, i <> o -> cell t' i = cell t i).
    { intros i Hi. unfold cell. apply Hframe; [apply index_key_ne_ctl|].
      intros Heq. apply be_min_inj in Heq. contradiction. }
    split; [reflexivity|]. split; [|split; [|repeat split; auto]].
    + constructor.
      * exact S'.
      * apply tupdate_novoid; [exact S1|]. apply del_novoid; [exact St|apply (inv_novoid t I)].
      * rewrite Ho', Hn'. lia.
      * rewrite Ho'. unfold t'. apply tget_tupdate_same. exact S1.
      * rewrite Hn'. rewrite Hframe; [|apply newest_ne_oldest|apply newest_ne_index].
        apply (inv_new_canon t I).
      * rewrite Ho', Hn'. intros i Hi. rewrite Hcell by lia. apply (inv_live t I). fold o. lia.
      * rewrite Ho', Hn'. intros i [Hi|Hi].
        -- destruct (N.eq_dec i o) as [->|Hio]; [exact Hco|].
           rewrite Hcell by exact Hio. apply (inv_dead t I). left. fold o. lia.
        -- rewrite Hcell by lia. apply (inv_dead t I). right. exact Hi.
    + unfold abs at 1. rewrite Ho', Hn'.
      unfold abs in EA. fold o in EA.
      replace (N.to_nat (get_newest t - o)) with (S (N.to_nat (get_newest t - (o + 1)))) in EA by lia.
      cbn [nseq map] in EA. inversion EA as [[E1 E2]].
      apply map_nseq_ext. intros i Hi. apply Hcell. lia.
Qed.

Lemma read_etx_spec t i : Inv t ->
  read_etx t i =
  if (get_oldest t <=? i) && (i <? get_newest t)
  then nth_error (abs t) (N.to_nat (i - get_oldest t)) else None.
Proof.
  intros I. unfold read_etx. fold (cell t i).
  destruct ((get_oldest t <=? i) && (i <? get_newest t)) eqn:E.
  - pose proof (abs_length t I) as Len.
    rewrite abs_nth by (try exact I; lia).
    replace (get_oldest t + N.of_nat (N.to_nat (i - get_oldest t))) with i by lia.
    pose proof (inv_live t I i ltac:(lia)) as L. destruct (cell t i); [congruence|reflexivity].
  - rewrite (inv_dead t I i) by lia. reflexivity.
Qed.

(* the availability probe of Process: ReadETX(GetOldestIndex()) *)
Lemma read_oldest_spec t : Inv t -> read_etx t (get_oldest t) = hd_error (abs t).
Proof.
  intros I. rewrite read_etx_spec by exact I. pose proof (abs_length t I) as Len.
  pose proof (inv_le t I) as Le.
  destruct ((get_oldest t <=? get_oldest t) && (get_oldest t <? get_newest t)) eqn:E.
  - rewrite N.sub_diag. cbn. destruct (abs t); reflexivity.
  - destruct (abs t); [reflexivity|]. cbn [length] in Len. lia.
Qed.

(* ---------- the other tenant of the trie ---------- *)

Lemma set_kquai_spec t v : Inv t ->
  let t' := set_kquai t v in
  Inv t' /\ abs t' = abs t /\ get_oldest t' = get_oldest t /\ get_newest t' = get_newest t /\
  get_kquai t' = v.
Proof.
  intros I. cbn zeta. unfold set_kquai. set (t' := tupdate kquai_key (be_min v) t).
  assert (S := inv_sorted t I).
  assert (F : forall k, k <> kquai_key -> tget k t' = tget k t).
  { intros k Hk. apply tget_tupdate_other; assumption. }
  assert (Ho : get_oldest t' = get_oldest t).
  { unfold get_oldest. rewrite F; [reflexivity|apply oldest_ne_kquai]. }
  assert (Hn : get_newest t' = get_newest t).
  { unfold get_newest. rewrite F; [reflexivity|apply newest_ne_kquai]. }
  assert (Hc : forall i, cell t' i = cell t i).
  { intros i. unfold cell. apply F. apply index_key_ne_ctl. }
  split; [|split; [|split; [exact Ho|split; [exact Hn|]]]].
  - constructor.
    + apply tupdate_sorted; exact S.
    + apply tupdate_novoid; [exact S|apply (inv_novoid t I)].
    + rewrite Ho, Hn. apply (inv_le t I).
    + rewrite Ho, F by apply oldest_ne_kquai. apply (inv_old_canon t I).
    + rewrite Hn, F by apply newest_ne_kquai. apply (inv_new_canon t I).
    + rewrite Ho, Hn. intros i Hi. rewrite Hc. apply (inv_live t I). exact Hi.
    + rewrite Ho, Hn. intros i Hi. rewrite Hc. apply (inv_dead t I). exact Hi.
  - unfold abs. rewrite Ho, Hn. apply map_ext. exact Hc.
  - unfold get_kquai, t'. rewrite tget_tupdate_same by exact S. apply of_be_be_min.
Qed.

(* ---------- histories ---------- *)

Definition wf_op (o : qop) : Prop :=
  match o with
  | QPush l => wf_etxs l
  | QPush1 e => e <> []
  | _ => True
  end.
Definition wf_ops (ops : list qop) : Prop := Forall wf_op ops.

Definition pushed_by (o : qop) : list etx :=
  match o with QPush l => l | QPush1 e => [e] | _ => [] end.
Definition pushed (ops : list qop) : list etx := flat_map pushed_by ops.

(* the items handed out by the Pop operations of a history, in order *)
Fixpoint popped (t : trie) (ops : list qop) : list etx :=
  match ops with
  | [] => []
  | o :: ops' =>
      let '(t', r) := qstep t o in
      match o, r with
      | QPop, OEtx (Some e) => e :: popped t' ops'
      | _, _ => popped t' ops'
      end
  end.

Lemma qstep_inv t o : Inv t -> wf_op o ->
  Inv (fst (qstep t o)) /\
  abs t ++ pushed_by o =
    match o, snd (qstep t o) with
    | QPop, OEtx (Some e) => e :: abs (fst (qstep t o))
    | _, _ => abs (fst (qstep t o))
    end.
Proof.
  intros I W. destruct o; cbn [qstep fst snd pushed_by].
  - destruct (push_etxs_spec t l I W) as (I' & _ & _ & A & _). split; [exact I'|]. rewrite A. reflexivity.
  - rewrite push_etx_as_list by exact I.
    assert (W1 : wf_etxs [e]) by (constructor; [exact W|constructor]).
    destruct (push_etxs_spec t [e] I W1) as (I' & _ & _ & A & _). split; [exact I'|]. rewrite A. reflexivity.
  - pose proof (pop_etx_spec t I) as P. destruct (abs t) as [|e rest] eqn:EA.
    + rewrite P. cbn. split; [exact I|]. rewrite EA. reflexivity.
    + destruct P as (t' & -> & I' & A & _). cbn. split; [exact I'|]. rewrite A, app_nil_r. reflexivity.
  - split; [exact I|]. rewrite app_nil_r. destruct (read_etx t i); reflexivity.
  - split; [exact I|]. apply app_nil_r.
  - split; [exact I|]. apply app_nil_r.
  - split; [exact I|]. apply app_nil_r.
  - destruct (set_kquai_spec t v I) as (I' & A & _). split; [exact I'|]. rewrite A. apply app_nil_r.
  - split; [exact I|]. apply app_nil_r.
Qed.

Lemma qrun_state_inv ops : forall t, Inv t -> wf_ops ops -> Inv (qrun_state t ops).
Proof.
  induction ops as [|o ops IH]; intros t I W; cbn; [exact I|].
  inversion W; subst. apply IH; [|assumption]. apply qstep_inv; assumption.
Qed.

(* conservation: everything initially queued or pushed is either handed out by a Pop, in
   order, exactly once, or still queued *)
Lemma history_conservation ops : forall t, Inv t -> wf_ops ops ->
  abs t ++ pushed ops = popped t ops ++ abs (qrun_state t ops).
Proof.
  induction ops as [|o ops IH]; intros t I W.
  - cbn. apply app_nil_r.
  - inversion W as [|? ? Wo Wops]; subst.
    destruct (qstep_inv t o I Wo) as (I' & A).
    specialize (IH (fst (qstep t o)) I' Wops).
    change (pushed (o :: ops)) with (pushed_by o ++ pushed ops).
    change (qrun_state t (o :: ops)) with (qrun_state (fst (qstep t o)) ops).
    rewrite app_assoc, A. cbn [popped].
    destruct (qstep t o) as [t' r] eqn:E. cbn [fst snd] in *.
    destruct o; rewrite ?E; cbn [snd]; try exact IH.
    destruct r as [|[e|]|]; try exact IH.
    cbn [app]. rewrite IH. reflexivity.
Qed.

(* a pop on an empty queue yields nothing and changes nothing *)
Lemma pop_empty t : Inv t -> abs t = [] -> pop_etx t = (None, t).
Proof. intros I E. pose proof (pop_etx_spec t I) as P. rewrite E in P. exact P. Qed.

(* canonical representation: the trie content is a function of (oldest, items, other cells) *)
Lemma queue_canonical t1 t2 : Inv t1 -> Inv t2 ->
  get_oldest t1 = get_oldest t2 -> abs t1 = abs t2 ->
  (forall k, k <> oldest_key -> k <> newest_key -> (forall i, k <> be_min i) -> tget k t1 = tget k t2) ->
  t1 = t2.
Proof.
  intros I1 I2 Ho Ha Hk.
  assert (Hn : get_newest t1 = get_newest t2).
  { pose proof (abs_length t1 I1). pose proof (abs_length t2 I2). rewrite Ha in *.
    pose proof (inv_le t1 I1). pose proof (inv_le t2 I2). lia. }
  apply trie_ext; try apply inv_sorted; try apply inv_novoid; auto.
  intros k.
  destruct (keqb k oldest_key) eqn:E1.
  { apply keqb_eq in E1; subst. rewrite (inv_old_canon t1 I1), (inv_old_canon t2 I2), Ho. reflexivity. }
  destruct (keqb k newest_key) eqn:E2.
  { apply keqb_eq in E2; subst. rewrite (inv_new_canon t1 I1), (inv_new_canon t2 I2), Hn. reflexivity. }
  apply keqb_neq in E1, E2.
  destruct (keqb k (be_min (of_be k))) eqn:E3.
  - apply keqb_eq in E3. set (i := of_be k) in *. rewrite E3. fold (cell t1 i). fold (cell t2 i).
    destruct ((get_oldest t1 <=? i) && (i <? get_newest t1)) eqn:R.
    + pose proof (abs_length t1 I1) as L1.
      pose proof (abs_nth t1 (N.to_nat (i - get_oldest t1)) I1 ltac:(lia)) as A1.
      pose proof (abs_nth t2 (N.to_nat (i - get_oldest t1)) I2 ltac:(rewrite <- Ha; lia)) as A2.
      rewrite Ha in A1. rewrite A1 in A2. inversion A2 as [A3]. rewrite <- Ho in A3.
      replace (get_oldest t1 + N.of_nat (N.to_nat (i - get_oldest t1))) with i in A3 by lia. exact A3.
    + rewrite (inv_dead t1 I1 i) by lia. rewrite (inv_dead t2 I2 i) by lia. reflexivity.
  - apply keqb_neq in E3. apply Hk; auto. intros i Hi. apply E3. rewrite Hi, of_be_be_min. reflexivity.
Qed.

(* C19 -- nonce contiguity of the pending lists.  It is preserved by every operation
   except a chain-head event that moves an account's state nonce backwards (a
   reorganisation) -- see contiguity_refuted in Proofs/C19.v for what happens then. *)
From Coq Require Import List NArith PeanoNat Bool Lia ZifyBool ZifyNat ZifyN.
From GQ Require Import Model.C19 Proofs.C19_Lists Proofs.C19_Struct Proofs.C19_Ops Proofs.C19_State.
Import ListNotations.
Local Open Scope N_scope.

(* ---------- list facts ---------- *)
Lemma contig_put_same s l t : contig s l -> hasn l (t_nonce t) -> contig s (l_put t l) /\ len (l_put t l) = len l.
Proof.
  revert s. induction l as [|y r IH]; intros s; cbn.
  - intros _ [x [[] _]].
  - intros [E H] Hh. destruct (t_nonce t <? t_nonce y) eqn:E1.
    + exfalso. destruct Hh as [x [[<-|Hx] En]]; [lia|]. pose proof (contig_nonces _ _ _ H Hx). lia.
    + destruct (t_nonce t =? t_nonce y) eqn:E2.
      * cbn. split; [split; [lia|exact H]|reflexivity].
      * assert (Hh' : hasn r (t_nonce t)). { destruct Hh as [x [[<-|Hx] En]]; [lia|exists x; auto]. }
        destruct (IH _ H Hh') as [A B]. cbn. split; [split; assumption|]. unfold len in *. cbn [length]. lia.
Qed.

Lemma contig_put_end s l t : contig s l -> t_nonce t = s + len l -> l_put t l = l ++ [t].
Proof.
  revert s. induction l as [|y r IH]; intros s; cbn; [reflexivity|].
  intros [E H] En. unfold len in En. cbn [length] in En.
  assert (E1 : t_nonce t <? t_nonce y = false) by lia. assert (E2 : t_nonce t =? t_nonce y = false) by lia.
  rewrite E1, E2. f_equal. apply (IH (s + 1)); auto. unfold len. lia.
Qed.

Lemma contig_snoc s l t : contig s l -> t_nonce t = s + len l -> contig s (l ++ [t]).
Proof. intros H E. apply contig_app. split; [exact H|]. cbn. auto. Qed.

Lemma len_app (l1 l2 : txl) : len (l1 ++ l2) = len l1 + len l2.
Proof. unfold len. rewrite app_length. lia. Qed.

Lemma filter_none {A} (f : A -> bool) (l : list A) : (forall x, In x l -> f x = false) -> filter f l = [].
Proof.
  induction l as [|y r IH]; cbn; [reflexivity|]. intros G. rewrite (G y (or_introl eq_refl)). apply IH.
  intros x Hx. apply G. right; exact Hx.
Qed.

Lemma contig_below s l n : contig s l -> contig s (filter (fun x => t_nonce x <? n) l) /\
  len (filter (fun x => t_nonce x <? n) l) = N.min (len l) (n - s).
Proof.
  revert s. induction l as [|y r IH]; intros s; cbn; [intros _; split; [exact I|unfold len; cbn; lia]|].
  intros [E H]. destruct (IH _ H) as [A B]. destruct (t_nonce y <? n) eqn:E1.
  - cbn. split; [split; assumption|]. unfold len in *. cbn [length]. lia.
  - assert (Enil : filter (fun x => t_nonce x <? n) r = []).
    { apply filter_none. intros x Hx. pose proof (contig_nonces _ _ _ H Hx). lia. }
    rewrite Enil. split; [exact I|]. unfold len in *. cbn [length]. lia.
Qed.

Lemma contig_last_next s l : contig s l -> last_next s l = s + len l.
Proof.
  intros H. unfold last_next. destruct (rev l) as [|x r] eqn:Er.
  - apply (f_equal (@rev tx)) in Er. rewrite rev_involutive in Er. cbn in Er. subst. unfold len; cbn; lia.
  - assert (El : l = rev r ++ [x]) by (rewrite <- (rev_involutive l), Er; reflexivity).
    rewrite El in H |- *. apply contig_app in H as [_ H]. cbn in H. rewrite len_app. unfold len at 2. cbn. lia.
Qed.

Lemma filter_filter {A} (f g : A -> bool) (l : list A) : filter f (filter g l) = filter (fun x => g x && f x) l.
Proof. induction l as [|x r IH]; cbn; [reflexivity|]. destruct (g x); cbn; [destruct (f x)|]; rewrite IH; reflexivity. Qed.

Lemma filter_all {A} (f : A -> bool) (l : list A) : (forall x, In x l -> f x = true) -> filter f l = l.
Proof.
  induction l as [|y r IH]; cbn; [reflexivity|]. intros G. rewrite (G y (or_introl eq_refl)). f_equal. apply IH.
  intros x Hx. apply G. right; exact Hx.
Qed.

(* nonce view *)
Lemma map_nonce_put_same t l : sorted l -> hasn l (t_nonce t) -> map t_nonce (l_put t l) = map t_nonce l.
Proof.
  induction l as [|y r IH]; cbn; [intros _ [x [[] _]]|]. intros [Hlt Hs] Hh.
  destruct (t_nonce t <? t_nonce y) eqn:E1.
  - exfalso. destruct Hh as [x [[<-|Hx] En]]; [lia|]. specialize (Hlt _ Hx). lia.
  - destruct (t_nonce t =? t_nonce y) eqn:E2; cbn; [f_equal; lia|]. f_equal. apply IH; auto.
    destruct Hh as [x [[<-|Hx] En]]; [lia|exists x; auto].
Qed.
Lemma map_nonce_filter (g : N -> bool) (l : txl) : map t_nonce (filter (fun x => g (t_nonce x)) l) = filter g (map t_nonce l).
Proof. induction l as [|y r IH]; cbn; [reflexivity|]. destruct (g (t_nonce y)); cbn; rewrite IH; reflexivity. Qed.
Lemma contig_map s l l' : map t_nonce l = map t_nonce l' -> contig s l -> contig s l'.
Proof.
  revert s l'. induction l as [|y r IH]; intros s [|y' r']; cbn; try discriminate; [auto|].
  intros [= E1 E2] [E H]. split; [congruence|]. eapply IH; eauto.
Qed.
Lemma len_map (l l' : txl) : map t_nonce l = map t_nonce l' -> len l = len l'.
Proof. intros E. unfold len. rewrite <- (map_length t_nonce l), E, map_length. reflexivity. Qed.

Lemma contig_above s l n : contig s l -> s <= n -> contig n (filter (fun x => negb (t_nonce x <? n)) l).
Proof.
  revert s. induction l as [|y r IH]; intros s; cbn; [auto|]. intros [E H] Hle.
  destruct (t_nonce y <? n) eqn:E1; cbn.
  - apply (IH (s + 1)); [exact H|lia].
  - assert (s = n) by lia. subst n. rewrite filter_all; [split; assumption|].
    intros x Hx. pose proof (contig_nonces _ _ _ H Hx). lia.
Qed.

Lemma l_put_end l t : sorted l -> (forall y, In y l -> t_nonce y < t_nonce t) -> l_put t l = l ++ [t].
Proof.
  induction l as [|y r IH]; cbn; [reflexivity|]. intros [Hlt Hs] G.
  assert (t_nonce y < t_nonce t) by (apply G; left; reflexivity).
  assert (E1 : t_nonce t <? t_nonce y = false) by lia. assert (E2 : t_nonce t =? t_nonce y = false) by lia.
  rewrite E1, E2. f_equal. apply IH; auto.
Qed.

(* ---------- the invariant ---------- *)
Record Ka (p : pool) (a : N) : Prop := {
  k_contig : contig (st_nonce p a) (aget a (p_pend p));
  k_pn : pn_get p a = st_nonce p a + len (aget a (p_pend p))
}.
Definition K (p : pool) : Prop := forall a, Ka p a.
Definition Kc (p : pool) : Prop := forall a, contig (st_nonce p a) (aget a (p_pend p)).

Lemma Ka_ext p q a : p_st q = p_st p -> aget a (p_pend q) = aget a (p_pend p) -> pn_get q a = pn_get p a -> Ka p a -> Ka q a.
Proof. intros E1 E2 E3 [H1 H2]. constructor; unfold st_nonce in *; rewrite ?E1, ?E2, ?E3; auto. Qed.
Lemma sv_Ka p q a : same_view p q -> Ka p a -> Ka q a.
Proof. intros S. pose proof (sv_pn_get p q a S) as E. destruct S as [E1 [E2 E3]]. apply Ka_ext; auto. rewrite E2; reflexivity. Qed.
Lemma sv_K p q : same_view p q -> K p -> K q.
Proof. intros S H a. eapply sv_Ka; eauto. Qed.
Lemma K_Kc p : K p -> Kc p.
Proof. intros H a. apply (k_contig _ _ (H a)). Qed.
Lemma Kc_T4_K p : Kc p -> T4 p -> K p.
Proof. intros H HT a. constructor; [apply H|]. rewrite HT. apply contig_last_next. apply H. Qed.
Lemma sv_Kc p q : same_view p q -> Kc p -> Kc q.
Proof. intros [E1 [E2 E3]] H a. unfold st_nonce. rewrite E1, E2. apply H. Qed.

(* ---------- add ---------- *)
Lemma add_K c t loc p : Inv0 p -> K p -> K (fst (fst (add c t loc p))).
Proof.
  intros H0 HK. destruct (add c t loc p) as [[p' v] r] eqn:Ea. cbn [fst].
  destruct (add_view _ _ _ _ _ _ _ Ea) as [E1 [E2 [E3|[Ev [E3 [o Eo]]]]]].
  - apply (sv_K p); [repeat split; assumption|exact HK].
  - intros b. assert (Epn : pn_get p' b = pn_get p b) by (unfold pn_get, st_nonce; rewrite E1, E2; reflexivity).
    destruct (N.eq_dec b (t_from t)) as [->|Hb].
    + destruct (HK (t_from t)) as [G1 G2].
      assert (Hh : hasn (aget (t_from t) (p_pend p)) (t_nonce t)) by (apply l_get_hasn; eauto).
      destruct (contig_put_same _ _ t G1 Hh) as [A B].
      constructor; unfold st_nonce in *; rewrite ?E1, ?E3, ?aget_aset_same, ?Epn, ?B; auto.
    + eapply Ka_ext; [exact E1| |exact Epn|apply HK]. rewrite E3. apply aget_aset_other. auto.
Qed.

(* ---------- promote ---------- *)
Lemma promote_list_Ka c a D R p :
  InvR a (D ++ R) p -> Ka p a -> contig (pn_get p a) D ->
  Ka (fold_left (fun s t => promote_tx c a t s) D p) a.
Proof.
  revert p. induction D as [|x D IH]; intros p HI HK HD; cbn [fold_left]; [exact HK|].
  cbn [app] in HI. pose proof (promote_tx_eq c a x _ p HI) as Eq. destruct HD as [Ex HD]. destruct HK as [G1 G2].
  assert (Eend : l_put x (aget a (p_pend p)) = aget a (p_pend p) ++ [x]) by (apply (contig_put_end _ _ _ G1); lia).
  assert (HK1 : Ka (promote_tx c a x p) a).
  { rewrite Eq. constructor; unfold st_nonce in *; psimpl; rewrite ?aget_aset_same, ?pn_get_pn_set, ?N.eqb_refl, Eend.
    - apply contig_snoc; [exact G1|lia].
    - rewrite len_app. unfold len at 2. cbn. lia. }
  apply IH; [apply invr_promote; exact HI|exact HK1|].
  rewrite Eq, pn_get_pn_set, N.eqb_refl, Ex. exact HD.
Qed.

Lemma promote_one_K c a p : Inv0 p -> K p -> K (promote_one c a p).
Proof.
  intros H0 HK. unfold promote_one. destruct (aget a (p_queue p)) as [|q0 qr] eqn:Eq; [exact HK|].
  rewrite <- Eq. set (q := aget a (p_queue p)).
  pose proof (inv0_any a _ H0) as H.
  assert (Sq : sorted q) by apply (ir_queue _ _ _ H a).
  pose proof (l_forward_splits (st_nonce p a) q Sq) as Sf.
  pose proof (l_forward_snd (st_nonce p a) q) as Ffw.
  destruct (l_forward (st_nonce p a) q) as [fw q1] eqn:Ef. cbn [fst snd] in Sf, Ffw.
  pose proof (invr_queue_drop a p q1 fw H Sf) as H1.
  set (p1 := all_remove_list fw (set_queue a q1 p)) in *.
  assert (V1 : same_view p p1) by (eapply sv_trans; [apply sv_set_queue|apply sv_all_remove_list]).
  assert (Eq1 : aget a (p_queue p1) = q1) by apply aget_queue_after_drop.
  assert (Sq1 : sorted q1) by (destruct Sf as [_ [_ [S _]]]; exact S).
  destruct (l_filter false (st_bal p a) (s_maxgas (p_st p)) q1) as [[drops inv] q2] eqn:EF.
  destruct (l_filter_nonstrict_splits _ _ _ _ _ _ Sq1 EF) as [SF Einv].
  pose proof (l_filter_keep _ _ _ _ _ _ _ EF) as Fkeep.
  rewrite <- Eq1 in SF.
  pose proof (invr_queue_drop a p1 q2 drops H1 SF) as H2.
  set (p2 := all_remove_list drops (set_queue a q2 p1)) in *.
  assert (V2 : same_view p p2) by (eapply sv_trans; [exact V1|]; eapply sv_trans; [apply sv_set_queue|apply sv_all_remove_list]).
  assert (Eq2 : aget a (p_queue p2) = q2) by apply aget_queue_after_drop.
  assert (Sq2 : sorted q2) by (destruct SF as [_ [_ [S _]]]; exact S).
  destruct (l_ready (pn_get p2 a) q2) as [readies q3] eqn:ER.
  destruct (l_ready_split _ _ _ _ ER) as [Eapp Hready].
  assert (SR : splits (aget a (p_queue p2)) q3 readies).
  { rewrite Eq2, Eapp. apply splits_app. rewrite <- Eapp. exact Sq2. }
  pose proof (invr_queue_to_limbo a [] p2 q3 readies H2 SR) as H3.
  set (p2' := set_queue a q3 p2) in *.
  assert (V2' : same_view p p2') by (eapply sv_trans; [exact V2|apply sv_set_queue]).
  assert (HD : contig (pn_get p2' a) readies).
  { destruct Hready as [->|[x [r [El [Hle [Hc Hne]]]]]]; [exact I|].
    assert (Epn : pn_get p2' a = pn_get p a) by (apply sv_pn_get; exact V2').
    assert (Epn2 : pn_get p2 a = pn_get p a) by (apply sv_pn_get; exact V2).
    assert (Hx2 : In x q2) by (rewrite El; left; reflexivity).
    assert (Hk : In x inv \/ In x q2) by auto. apply Fkeep in Hk as [Hq1 _]. apply Ffw in Hq1 as [Hxq Hge].
    destruct (HK a) as [G1 G2].
    (* x is queued, so its nonce is not a pending one: it is at least st + len = pendingNonces *)
    assert (~ hasn (aget a (p_pend p)) (t_nonce x)).
    { intros [y [Hy Ey]]. apply (ir_disj _ _ _ H a y x Hy Hxq). exact Ey. }
    rewrite (contig_hasn _ _ (t_nonce x) G1) in H4.
    assert (t_nonce x = pn_get p2' a) by lia. rewrite <- H5. exact Hc. }
  pose proof (promote_list_Ka c a readies [] p2' H3 (sv_Ka _ _ a V2' (HK a)) HD) as HKa.
  set (p3 := fold_left (fun s t => promote_tx c a t s) readies p2') in *.
  destruct (l_cap (c_aqueue c) q3) as [caps q4] eqn:EC.
  assert (V4 : same_view p3 (removed (len fw + len drops + len caps) (all_remove_list caps (set_queue a q4 p3)))).
  { eapply sv_trans; [|apply sv_removed]. eapply sv_trans; [apply sv_set_queue|apply sv_all_remove_list]. }
  apply (sv_K _ _ V4). intros b. destruct (N.eq_dec b a) as [->|Hb]; [exact HKa|].
  destruct (promote_list_other c a readies p2' b Hb) as [A [B C]]. fold p3 in A, B, C.
  eapply Ka_ext; [exact C|exact A|exact B|]. apply (sv_Ka _ _ b V2'). apply HK.
Qed.

(* ---------- removals keep a contiguous prefix ---------- *)
Lemma l_remove_strict_below n l : snd (l_remove_strict n l) = filter (fun x => t_nonce x <? n) l.
Proof.
  unfold l_remove_strict, l_remove. cbn [snd]. rewrite filter_filter. apply filter_ext. intros x.
  destruct (t_nonce x =? n) eqn:E1; destruct (n <? t_nonce x) eqn:E2; destruct (t_nonce x <? n) eqn:E3; cbn; try reflexivity; lia.
Qed.

Lemma remove_tx_view c t ob p :
  p_st (remove_tx c t ob p) = p_st p /\
  forall b, aget b (p_pend (remove_tx c t ob p)) = aget b (p_pend p) \/
            (b = t_from t /\ aget b (p_pend (remove_tx c t ob p)) = filter (fun x => t_nonce x <? t_nonce t) (aget b (p_pend p))).
Proof.
  unfold remove_tx. destruct (all_has t p); cbn [negb]; [|auto].
  set (p2 := if ob then removed 1 (all_remove t p) else all_remove t p).
  assert (V2 : same_view p p2) by (unfold p2; destruct ob; [eapply sv_trans; [|apply sv_removed]|]; repeat split).
  destruct V2 as [E1 [E2 E3]]. rewrite E2.
  destruct (l_get _ _).
  - pose proof (l_remove_strict_below (t_nonce t) (aget (t_from t) (p_pend p))) as Eb.
    destruct (l_remove_strict _ _) as [invalids pl']. cbn [snd] in Eb.
    set (p4 := fold_left (fun s x => requeue c x s) invalids (set_pend (t_from t) pl' p2)).
    destruct (sv_requeue_list c invalids (set_pend (t_from t) pl' p2)) as [A [B C]]. fold p4 in A, B, C.
    assert (F : p_st (pn_set_if_lower (t_from t) (t_nonce t) p4) = p_st p4 /\ p_pend (pn_set_if_lower (t_from t) (t_nonce t) p4) = p_pend p4).
    { unfold pn_set_if_lower. destruct (_ <=? _); auto. }
    destruct F as [F1 F2]. rewrite F1, F2, A, B. psimpl. rewrite E1, E2. split; [reflexivity|].
    intros b. rewrite aget_aset. destruct (t_from t =? b) eqn:E; [|auto]. right. split; [lia|]. assert (b = t_from t) by lia. subst b. exact Eb.
  - psimpl. rewrite E1, E2. auto.
Qed.

Lemma remove_tx_Kc c t ob p : Kc p -> Kc (remove_tx c t ob p).
Proof.
  intros H b. destruct (remove_tx_view c t ob p) as [E1 E2]. unfold st_nonce. rewrite E1.
  destruct (E2 b) as [E|[_ E]]; rewrite E; [apply H|]. apply contig_below. apply H.
Qed.

Lemma drop_last_view a p :
  p_st (drop_last a p) = p_st p /\
  forall b, aget b (p_pend (drop_last a p)) = aget b (p_pend p) \/ (b = a /\ aget b (p_pend (drop_last a p)) = removelast (aget b (p_pend p))).
Proof.
  unfold drop_last. destruct (rev _) as [|x r]; [auto|].
  destruct (sv_removed 1 (pn_set_if_lower a (t_nonce x) (all_remove x (set_pend a (removelast (aget a (p_pend p))) p)))) as [A [B C]].
  rewrite A, B.
  assert (F : forall q, p_st (pn_set_if_lower a (t_nonce x) q) = p_st q /\ p_pend (pn_set_if_lower a (t_nonce x) q) = p_pend q).
  { intros q. unfold pn_set_if_lower. destruct (_ <=? _); auto. }
  destruct (F (all_remove x (set_pend a (removelast (aget a (p_pend p))) p))) as [F1 F2]. rewrite F1, F2. psimpl. split; [reflexivity|].
  intros b. rewrite aget_aset. destruct (a =? b) eqn:E; [|auto]. right. assert (b = a) by lia. subst b. auto.
Qed.

Lemma contig_removelast s l : contig s l -> contig s (removelast l).
Proof.
  intros H. destruct (rev l) as [|x r] eqn:Er.
  - apply (f_equal (@rev tx)) in Er. rewrite rev_involutive in Er. cbn in Er. subst. exact I.
  - assert (El : l = rev r ++ [x]) by (rewrite <- (rev_involutive l), Er; reflexivity).
    rewrite El in H |- *. rewrite removelast_last. apply contig_app in H. tauto.
Qed.

Lemma drop_last_Kc a p : Kc p -> Kc (drop_last a p).
Proof.
  intros H b. destruct (drop_last_view a p) as [E1 E2]. unfold st_nonce. rewrite E1.
  destruct (E2 b) as [E|[_ E]]; rewrite E; [apply H|]. apply contig_removelast. apply H.
Qed.

Lemma set_gas_price_Kc c g p : Kc p -> Kc (set_gas_price c g p).
Proof.
  intros H. unfold set_gas_price.
  assert (H1 : Kc (set_gasprice g p)) by (apply (sv_Kc p); [repeat split|exact H]).
  destruct (_ <? _); [|exact H1]. apply (sv_Kc _ _ (sv_removed _ _)).
  apply (fold_pres Kc (fun s t => remove_tx c t false s)); [intros t q Hq; apply remove_tx_Kc; exact Hq|exact H1].
Qed.

Lemma fix_nonces_Kc p : Kc p -> Kc (fix_nonces p).
Proof.
  intros H a. destruct (fix_nonces_view p) as [A [B _]]. unfold st_nonce. rewrite A, B. apply H.
Qed.

Lemma tail_Kc c qo p : Kc p -> Kc (fix_nonces (truncate_queue c qo (truncate_pending c p))).
Proof.
  intros H. apply fix_nonces_Kc.
  apply (truncate_queue_pres Kc); [intros t q Hq; apply remove_tx_Kc; exact Hq|].
  apply (truncate_pending_pres Kc); [intros a q Hq; apply drop_last_Kc; exact Hq|exact H].
Qed.

(* ---------- the reset phase ---------- *)
Definition above (s : N) (l : txl) : txl := filter (fun x => negb (t_nonce x <? s)) l.
Definition CRc (p : pool) (a : N) : Prop := contig (st_nonce p a) (above (st_nonce p a) (aget a (p_pend p))).
Definition CRa (p : pool) (a : N) : Prop :=
  CRc p a /\
  (pn_get p a = st_nonce p a + len (above (st_nonce p a) (aget a (p_pend p))) \/
   (pn_get p a = st_nonce p a /\ above (st_nonce p a) (aget a (p_pend p)) <> [])).
Definition CR (p : pool) : Prop := forall a, CRa p a.

Lemma CRa_ext p q a : p_st q = p_st p -> aget a (p_pend q) = aget a (p_pend p) -> pn_get q a = pn_get p a -> CRa p a -> CRa q a.
Proof. intros E1 E2 E3. unfold CRa, CRc, st_nonce. rewrite E1, E2, E3. auto. Qed.
Lemma sv_CRa p q a : same_view p q -> CRa p a -> CRa q a.
Proof. intros S. pose proof (sv_pn_get p q a S) as E. destruct S as [E1 [E2 E3]]. apply CRa_ext; auto. rewrite E2; reflexivity. Qed.
Lemma sv_CR p q : same_view p q -> CR p -> CR q.
Proof. intros S H a. eapply sv_CRa; eauto. Qed.

Lemma CR_after_swap st p : K p -> (forall a, st_nonce p a <= nget a (s_nonce st)) -> CR (set_pn [] (set_st st p)).
Proof.
  intros HK Hmono a. destruct (HK a) as [G1 _]. unfold CRa, CRc, pn_get, st_nonce. psimpl. cbn [nfind].
  pose proof (contig_above _ _ (nget a (s_nonce st)) G1 (Hmono a)) as C. fold (above (nget a (s_nonce st)) (aget a (p_pend p))) in C.
  split; [exact C|]. destruct (above (nget a (s_nonce st)) (aget a (p_pend p))) eqn:E; [left; unfold len; cbn; lia|right; split; [reflexivity|discriminate]].
Qed.

Lemma above_put_same s t l : sorted l -> hasn l (t_nonce t) ->
  map t_nonce (above s (l_put t l)) = map t_nonce (above s l).
Proof.
  intros Hs Hh. unfold above.
  rewrite (map_nonce_filter (fun n => negb (n <? s)) (l_put t l)), (map_nonce_filter (fun n => negb (n <? s)) l).
  rewrite map_nonce_put_same; auto.
Qed.

Lemma add_CR c t loc p : Inv0 p -> CR p -> CR (fst (fst (add c t loc p))).
Proof.
  intros H0 HC. destruct (add c t loc p) as [[p' v] r] eqn:Ea. cbn [fst].
  destruct (add_view _ _ _ _ _ _ _ Ea) as [E1 [E2 [E3|[Ev [E3 [o Eo]]]]]].
  - apply (sv_CR p); [repeat split; assumption|exact HC].
  - intros b. assert (Epn : pn_get p' b = pn_get p b) by (unfold pn_get, st_nonce; rewrite E1, E2; reflexivity).
    destruct (N.eq_dec b (t_from t)) as [->|Hb].
    + destruct (HC (t_from t)) as [G1 G2].
      assert (Hh : hasn (aget (t_from t) (p_pend p)) (t_nonce t)) by (apply l_get_hasn; eauto).
      pose proof (above_put_same (st_nonce p (t_from t)) t _ (proj1 (ir_pend _ _ _ H0 _)) Hh) as Em.
      unfold CRa, CRc, st_nonce in *. rewrite E1, E3, aget_aset_same, Epn. split.
      * eapply contig_map; [symmetry; exact Em|exact G1].
      * rewrite (len_map _ _ Em). destruct G2 as [G2|[G2 G3]]; [left; exact G2|right; split; [exact G2|]].
        intros En. apply G3. apply (f_equal (map t_nonce)) in En. rewrite Em in En. destruct (above _ (aget _ (p_pend p))); [reflexivity|discriminate].
    + eapply CRa_ext; [exact E1| |exact Epn|apply HC]. rewrite E3. apply aget_aset_other. auto.
Qed.

Lemma promote_list_CRa c a D R p :
  InvR a (D ++ R) p -> CRa p a ->
  (D = [] \/ (pn_get p a = st_nonce p a + len (above (st_nonce p a) (aget a (p_pend p))) /\ contig (pn_get p a) D)) ->
  CRa (fold_left (fun s t => promote_tx c a t s) D p) a.
Proof.
  revert p. induction D as [|x D IH]; intros p HI HC HD; cbn [fold_left]; [exact HC|].
  destruct HD as [HD|[Hpn [Ex HD]]]; [discriminate|].
  cbn [app] in HI. pose proof (promote_tx_eq c a x _ p HI) as Eq. destruct HC as [G1 _]. unfold CRc in G1.
  assert (Est : forall q, p_st q = p_st p -> st_nonce q a = st_nonce p a) by (intros q E; unfold st_nonce; rewrite E; reflexivity).
  remember (st_nonce p a) as s eqn:Es. remember (aget a (p_pend p)) as pl eqn:Epl. remember (above s pl) as F eqn:EF0.
  assert (Hall : forall y, In y pl -> t_nonce y < t_nonce x).
  { intros y Hy. destruct (t_nonce y <? s) eqn:E; [lia|].
    assert (In y F) by (rewrite EF0; apply filter_In; split; [exact Hy|rewrite E; reflexivity]).
    pose proof (contig_nonces _ _ _ G1 H). lia. }
  assert (Spl : sorted pl) by (rewrite Epl; apply (ir_pend _ _ _ HI a)).
  assert (Eend : l_put x pl = pl ++ [x]) by (apply l_put_end; assumption).
  assert (EF : above s (pl ++ [x]) = F ++ [x]).
  { rewrite EF0. unfold above. rewrite filter_app. cbn [filter]. assert (E : t_nonce x <? s = false) by lia. rewrite E. reflexivity. }
  assert (Est1 : st_nonce (promote_tx c a x p) a = s) by (apply Est; rewrite Eq; reflexivity).
  assert (Epd1 : aget a (p_pend (promote_tx c a x p)) = pl ++ [x]) by (rewrite Eq; psimpl; rewrite aget_aset_same; exact Eend).
  assert (Epn1 : pn_get (promote_tx c a x p) a = t_nonce x + 1) by (rewrite Eq, pn_get_pn_set, N.eqb_refl; reflexivity).
  assert (HC1 : CRa (promote_tx c a x p) a).
  { unfold CRa, CRc. rewrite Est1, Epd1, Epn1, EF. split.
    - apply contig_snoc; [exact G1|lia].
    - left. rewrite len_app. unfold len at 2. cbn. lia. }
  apply IH; [apply invr_promote; exact HI|exact HC1|].
  destruct D as [|x2 D']; [left; reflexivity|right]. split.
  - rewrite Est1, Epd1, Epn1, EF, len_app. unfold len at 2. cbn. lia.
  - rewrite Epn1, Ex. exact HD.
Qed.

Lemma promote_one_CR c a p : Inv0 p -> CR p -> CR (promote_one c a p).
Proof.
  intros H0 HC. unfold promote_one. destruct (aget a (p_queue p)) as [|q0 qr] eqn:Eq; [exact HC|].
  rewrite <- Eq. set (q := aget a (p_queue p)).
  pose proof (inv0_any a _ H0) as H.
  assert (Sq : sorted q) by apply (ir_queue _ _ _ H a).
  pose proof (l_forward_splits (st_nonce p a) q Sq) as Sf.
  pose proof (l_forward_snd (st_nonce p a) q) as Ffw.
  destruct (l_forward (st_nonce p a) q) as [fw q1] eqn:Ef. cbn [fst snd] in Sf, Ffw.
  pose proof (invr_queue_drop a p q1 fw H Sf) as H1.
  set (p1 := all_remove_list fw (set_queue a q1 p)) in *.
  assert (V1 : same_view p p1) by (eapply sv_trans; [apply sv_set_queue|apply sv_all_remove_list]).
  assert (Eq1 : aget a (p_queue p1) = q1) by apply aget_queue_after_drop.
  assert (Sq1 : sorted q1) by (destruct Sf as [_ [_ [S _]]]; exact S).
  destruct (l_filter false (st_bal p a) (s_maxgas (p_st p)) q1) as [[drops inv] q2] eqn:EF.
  destruct (l_filter_nonstrict_splits _ _ _ _ _ _ Sq1 EF) as [SF Einv].
  pose proof (l_filter_keep _ _ _ _ _ _ _ EF) as Fkeep.
  rewrite <- Eq1 in SF.
  pose proof (invr_queue_drop a p1 q2 drops H1 SF) as H2.
  set (p2 := all_remove_list drops (set_queue a q2 p1)) in *.
  assert (V2 : same_view p p2) by (eapply sv_trans; [exact V1|]; eapply sv_trans; [apply sv_set_queue|apply sv_all_remove_list]).
  assert (Eq2 : aget a (p_queue p2) = q2) by apply aget_queue_after_drop.
  assert (Sq2 : sorted q2) by (destruct SF as [_ [_ [S _]]]; exact S).
  destruct (l_ready (pn_get p2 a) q2) as [readies q3] eqn:ER.
  destruct (l_ready_split _ _ _ _ ER) as [Eapp Hready].
  assert (SR : splits (aget a (p_queue p2)) q3 readies).
  { rewrite Eq2, Eapp. apply splits_app. rewrite <- Eapp. exact Sq2. }
  pose proof (invr_queue_to_limbo a [] p2 q3 readies H2 SR) as H3.
  set (p2' := set_queue a q3 p2) in *.
  assert (V2' : same_view p p2') by (eapply sv_trans; [exact V2|apply sv_set_queue]).
  assert (Epn : pn_get p2' a = pn_get p a) by (apply sv_pn_get; exact V2').
  assert (Epn2 : pn_get p2 a = pn_get p a) by (apply sv_pn_get; exact V2).
  assert (Est : st_nonce p2' a = st_nonce p a) by (unfold st_nonce; destruct V2' as [E _]; rewrite E; reflexivity).
  assert (Epd : aget a (p_pend p2') = aget a (p_pend p)) by (destruct V2' as [_ [E _]]; rewrite E; reflexivity).
  assert (HD : readies = [] \/ (pn_get p2' a = st_nonce p2' a + len (above (st_nonce p2' a) (aget a (p_pend p2'))) /\ contig (pn_get p2' a) readies)).
  { destruct Hready as [->|[x [r [El [Hle [Hc Hne]]]]]]; [left; reflexivity|].
    assert (Hx2 : In x q2) by (rewrite El; left; reflexivity).
    assert (Hk : In x inv \/ In x q2) by auto. apply Fkeep in Hk as [Hq1 _]. apply Ffw in Hq1 as [Hxq Hge].
    destruct (HC a) as [G1 G2]. unfold CRc in G1.
    assert (Hnot : ~ hasn (above (st_nonce p a) (aget a (p_pend p))) (t_nonce x)).
    { intros [y [Hy Ey]]. apply filter_In in Hy as [Hy _]. apply (ir_disj _ _ _ H a y x Hy Hxq). exact Ey. }
    rewrite (contig_hasn _ _ (t_nonce x) G1) in Hnot.
    destruct G2 as [G2|[G2 G3]].
    - right. rewrite Est, Epd, Epn. split; [exact G2|]. assert (t_nonce x = pn_get p a) by lia. rewrite <- H4. exact Hc.
    - exfalso. assert (0 < len (above (st_nonce p a) (aget a (p_pend p)))).
      { destruct (above _ _); [congruence|unfold len; cbn; lia]. }
      lia. }
  pose proof (promote_list_CRa c a readies [] p2' H3 (sv_CRa _ _ a V2' (HC a)) HD) as HCa.
  set (p3 := fold_left (fun s t => promote_tx c a t s) readies p2') in *.
  destruct (l_cap (c_aqueue c) q3) as [caps q4] eqn:EC.
  assert (V4 : same_view p3 (removed (len fw + len drops + len caps) (all_remove_list caps (set_queue a q4 p3)))).
  { eapply sv_trans; [|apply sv_removed]. eapply sv_trans; [apply sv_set_queue|apply sv_all_remove_list]. }
  apply (sv_CR _ _ V4). intros b. destruct (N.eq_dec b a) as [->|Hb]; [exact HCa|].
  destruct (promote_list_other c a readies p2' b Hb) as [A [B C]]. fold p3 in A, B, C.
  eapply CRa_ext; [exact C|exact A|exact B|]. apply (sv_CRa _ _ b V2'). apply HC.
Qed.

Lemma promote_list_ICR c l p : Inv0 p /\ CR p -> Inv0 (promote_list c l p) /\ CR (promote_list c l p).
Proof.
  revert p. induction l as [|a l IH]; intros p [H HC]; cbn; [auto|]. apply IH. split; [apply promote_one_inv0|apply promote_one_CR]; auto.
Qed.
Lemma add_locked_ICR c txs loc p : Inv0 p /\ CR p -> Inv0 (fst (fst (add_locked c txs loc p))) /\ CR (fst (fst (add_locked c txs loc p))).
Proof.
  revert p. induction txs as [|t r IH]; intros p [H HC]; cbn; [auto|].
  pose proof (add_inv0 c t loc p H) as X1. pose proof (add_CR c t loc p H HC) as X2.
  destruct (add c t loc p) as [[p1 v] rep]. cbn [fst] in *.
  specialize (IH p1 (conj X1 X2)). destruct (add_locked c r loc p1) as [[p2 vs] d]. exact IH.
Qed.

(* demoteUnexecutables leaves a contiguous list *)
Lemma strict_kept_prefix bal mg l rem inv kept :
  sorted l -> l_filter true bal mg l = (rem, inv, kept) ->
  kept = l \/ exists n, kept = filter (fun x => t_nonce x <? n) l.
Proof.
  intros Hs. unfold l_filter. destruct (filter (unpayable bal mg) l) as [|x0 r0] eqn:Er; [intros [= <- <- <-]; left; reflexivity|].
  intros [= <- <- <-]. right. exists (min_nonce x0 r0). rewrite filter_filter. apply filter_ext_in. intros x Hx.
  destruct (min_nonce_le x0 r0) as [M1 M2].
  assert (Hrem : forall y, In y (x0 :: r0) <-> In y l /\ unpayable bal mg y = true) by (intros y; rewrite <- Er; apply filter_In).
  destruct (unpayable bal mg x) eqn:Eu; cbn.
  - assert (In x (x0 :: r0)) by (apply Hrem; auto). destruct H as [<-|H]; [lia|]. specialize (M2 _ H). lia.
  - destruct (min_nonce x0 r0 <? t_nonce x) eqn:E1; destruct (t_nonce x <? min_nonce x0 r0) eqn:E2; cbn; try reflexivity; try lia.
    (* equal nonce: x would be the unpayable transaction that realises the minimum *)
    exfalso. destruct (min_nonce_in x0 r0) as [M|[y [Hy M]]].
    + assert (In x0 l /\ unpayable bal mg x0 = true) by (apply Hrem; left; reflexivity).
      assert (x = x0) by (eapply sorted_nonce_inj; eauto; [tauto|lia]). subst. destruct H; congruence.
    + assert (In y l /\ unpayable bal mg y = true) by (apply Hrem; right; exact Hy).
      assert (x = y) by (eapply sorted_nonce_inj; eauto; [tauto|lia]). subst. destruct H; congruence.
Qed.

Lemma demote_one_contig c a p : Inv0 p -> CRc p a -> contig (st_nonce p a) (aget a (p_pend (demote_one c a p))).
Proof.
  intros H0 HC. unfold demote_one. unfold CRc, above in HC.
  pose proof (inv0_any a _ H0) as H. set (pl := aget a (p_pend p)) in *.
  assert (Spl : sorted pl) by apply (ir_pend _ _ _ H a).
  pose proof (l_forward_splits (st_nonce p a) pl Spl) as Sf.
  destruct (l_forward (st_nonce p a) pl) as [olds l1] eqn:Ef.
  assert (El1 : l1 = filter (fun x => negb (t_nonce x <? st_nonce p a)) pl) by (unfold l_forward in Ef; inversion Ef; reflexivity).
  cbn [fst snd] in Sf. assert (Sl1 : sorted l1) by (destruct Sf as [_ [_ [S _]]]; exact S).
  rewrite <- El1 in HC.
  destruct (l_filter true (st_bal p a) (s_maxgas (p_st p)) l1) as [[drops invalids] l2] eqn:EF.
  assert (C2 : contig (st_nonce p a) l2).
  { destruct (strict_kept_prefix _ _ _ _ _ _ Sl1 EF) as [->|[n ->]]; [exact HC|apply contig_below; exact HC]. }
  set (p1 := all_remove_list olds (set_pend a l1 p)).
  set (p2 := all_remove_list drops (set_pend a l2 p1)).
  set (p4 := fold_left (fun s t => requeue c t s) invalids p2).
  assert (E4 : aget a (p_pend p4) = l2).
  { unfold p4. destruct (requeue_list_fields c invalids p2) as [E _]. cbn in E. rewrite E. apply aget_pend_after_drop. }
  destruct l2 as [|y l2'] eqn:El2; [rewrite E4; exact I|].
  destruct (l_get (st_nonce p a) (y :: l2')) eqn:Eg; [rewrite E4; exact C2|].
  destruct (requeue_list_fields c (y :: l2') (set_pend a [] p4)) as [E _]. cbn zeta in E. rewrite E. psimpl. rewrite aget_aset_same. exact I.
Qed.

Lemma demote_all_Kc c p : Inv0 p -> (forall a, CRc p a) -> Kc (demote_all c p).
Proof.
  intros H0 HC. unfold demote_all.
  assert (G : forall l q, Inv0 q -> (forall a, CRc q a) ->
     let q' := fold_left (fun s a => demote_one c a s) l q in
     Inv0 q' /\ (forall a, CRc q' a) /\ p_st q' = p_st q /\ (forall b, In b l -> contig (st_nonce q b) (aget b (p_pend q'))) /\
     (forall b, ~ In b l -> aget b (p_pend q') = aget b (p_pend q))).
  { induction l as [|a l IH]; intros q Hq HCq; cbn [fold_left]; cbn zeta.
    - split; [exact Hq|]. split; [exact HCq|]. split; [reflexivity|]. split; [intros ? []|reflexivity].
    - destruct (demote_one_view c a q) as [Vst [Vpn Vb]].
      pose proof (demote_one_contig c a q Hq (HCq a)) as Ca.
      assert (HC' : forall b, CRc (demote_one c a q) b).
      { intros b. unfold CRc, st_nonce. rewrite Vst. destruct (N.eq_dec b a) as [->|Hb].
        - unfold above. rewrite filter_all; [exact Ca|]. intros x Hx. pose proof (contig_nonces _ _ _ Ca Hx). unfold st_nonce in *. lia.
        - rewrite (Vb b Hb). apply HCq. }
      destruct (IH (demote_one c a q) (demote_one_inv0 c a q Hq) HC') as [A [B [C [D E]]]]. cbn zeta in *.
      split; [exact A|]. split; [exact B|]. split; [congruence|]. split.
      + intros b [<-|Hb].
        * destruct (in_dec N.eq_dec a l) as [Hin|Hnin].
          -- specialize (D a Hin). unfold st_nonce in *. rewrite Vst in D. exact D.
          -- rewrite (E a Hnin). exact Ca.
        * specialize (D b Hb). unfold st_nonce in *. rewrite Vst in D. exact D.
      + intros b Hb. rewrite E; [|intros Hl; apply Hb; right; exact Hl]. apply Vb. intros ->. apply Hb. left; reflexivity. }
  destruct (G (akeys (p_pend p)) p H0 HC) as [A [B [C [D E]]]]. cbn zeta in *.
  intros b. unfold st_nonce. rewrite C.
  destruct (in_dec N.eq_dec b (akeys (p_pend p))) as [Hin|Hnin]; [apply D; exact Hin|].
  rewrite (E b Hnin), (aget_notin b _ Hnin). exact I.
Qed.

(* ---------- the chain state is only changed by head events ---------- *)
Definition st_is (S : chainst) (p : pool) : Prop := p_st p = S.
Lemma promote_one_st c a p : p_st (promote_one c a p) = p_st p.
Proof.
  unfold promote_one. destruct (aget a (p_queue p)); [reflexivity|].
  destruct (l_forward _ _) as [fw q1]. destruct (l_filter _ _ _ _) as [[drops inv] q2].
  destruct (l_ready _ _) as [readies q3]. destruct (l_cap _ _) as [caps q4].
  destruct (sv_removed (len fw + len drops + len caps) (all_remove_list caps (set_queue a q4 (fold_left (fun s t => promote_tx c a t s) readies (set_queue a q3 (all_remove_list drops (set_queue a q2 (all_remove_list fw (set_queue a q1 p))))))))) as [A _].
  rewrite A. destruct (all_remove_list_fields caps (set_queue a q4 (fold_left (fun s t => promote_tx c a t s) readies (set_queue a q3 (all_remove_list drops (set_queue a q2 (all_remove_list fw (set_queue a q1 p)))))))) as [_ [_ [_ [E _]]]].
  rewrite E. psimpl. destruct (promote_list_fields c a readies (set_queue a q3 (all_remove_list drops (set_queue a q2 (all_remove_list fw (set_queue a q1 p)))))) as [_ [E2 _]].
  cbn zeta in E2. rewrite E2. psimpl.
  destruct (all_remove_list_fields drops (set_queue a q2 (all_remove_list fw (set_queue a q1 p)))) as [_ [_ [_ [E3 _]]]]. rewrite E3. psimpl.
  destruct (all_remove_list_fields fw (set_queue a q1 p)) as [_ [_ [_ [E4 _]]]]. rewrite E4. reflexivity.
Qed.
Lemma add_locked_st c txs loc p : p_st (fst (fst (add_locked c txs loc p))) = p_st p.
Proof.
  revert p. induction txs as [|t r IH]; intros p; cbn; [reflexivity|].
  destruct (add c t loc p) as [[p1 v] rep] eqn:Ea. destruct (add_view _ _ _ _ _ _ _ Ea) as [E _].
  specialize (IH p1). destruct (add_locked c r loc p1) as [[p2 vs] d]. cbn [fst] in *. congruence.
Qed.
Lemma tail_st c qo p : p_st (fix_nonces (truncate_queue c qo (truncate_pending c p))) = p_st p.
Proof.
  destruct (fix_nonces_view (truncate_queue c qo (truncate_pending c p))) as [A _]. rewrite A.
  apply (truncate_queue_pres (st_is (p_st p))); [intros t q Hq; unfold st_is in *; destruct (remove_tx_view c t true q) as [E _]; congruence|].
  apply (truncate_pending_pres (st_is (p_st p))); [intros a q Hq; unfold st_is in *; destruct (drop_last_view a q) as [E _]; congruence|reflexivity].
Qed.
Lemma run_st c rs dirty qo p : p_st (run c rs dirty qo p) = match rs with Some r => r_st r | None => p_st p end.
Proof.
  unfold run. rewrite tail_st. destruct rs as [r|].
  - psimpl. unfold demote_all.
    assert (G : forall l q, p_st (fold_left (fun s a => demote_one c a s) l q) = p_st q).
    { induction l as [|a l IH]; intros q; cbn; [reflexivity|]. rewrite IH. apply demote_one_view. }
    rewrite G. assert (G2 : forall l q, p_st (fold_left (fun s a => promote_one c a s) l q) = p_st q).
    { induction l as [|a l IH]; intros q; cbn; [reflexivity|]. rewrite IH. apply promote_one_st. }
    unfold promote_list. rewrite G2. unfold do_reset. pose proof (add_locked_st c (reinject r) false (set_pn [] (set_st (r_st r) p))) as X.
    destruct (add_locked c (reinject r) false _) as [[p2 vs] d]. exact X.
  - assert (G2 : forall l q, p_st (fold_left (fun s a => promote_one c a s) l q) = p_st q).
    { induction l as [|a l IH]; intros q; cbn; [reflexivity|]. rewrite IH. apply promote_one_st. }
    apply G2.
Qed.
Lemma step_st c p o qo : p_st (fst (step c p o qo)) = match o with OHead r => r_st r | _ => p_st p end.
Proof.
  destruct o as [loc txs|g|r|]; cbn.
  - unfold add_txs. pose proof (add_locked_st c (filter (fun t => negb (all_has t p)) txs) loc p) as X.
    destruct (add_locked c _ loc p) as [[p1 vs] d]. cbn [fst] in *. rewrite run_st. exact X.
  - rewrite run_st. unfold set_gas_price. destruct (_ <? _); [|reflexivity].
    destruct (sv_removed (len (filter (fun t => t_price t <? g) (remotes (set_gasprice g p)))) (fold_left (fun s t => remove_tx c t false s) (filter (fun t => t_price t <? g) (remotes (set_gasprice g p))) (set_gasprice g p))) as [A _].
    rewrite A. apply (fold_pres (st_is (p_st p)) (fun s t => remove_tx c t false s)); [|reflexivity].
    intros t q Hq. unfold st_is in *. destruct (remove_tx_view c t false q) as [E _]. congruence.
  - apply run_st.
  - apply run_st.
Qed.

(* ---------- contiguity along histories whose head events never lower a state nonce ---------- *)
Fixpoint monotone (S : chainst) (h : list (op * list N)) : Prop :=
  match h with
  | [] => True
  | (OHead r, _) :: h' => (forall a, nget a (s_nonce S) <= nget a (s_nonce (r_st r))) /\ monotone (r_st r) h'
  | _ :: h' => monotone S h'
  end.

Lemma step_K c p o qo :
  IWT p -> K p -> (match o with OHead r => forall a, st_nonce p a <= nget a (s_nonce (r_st r)) | _ => True end) ->
  K (fst (step c p o qo)).
Proof.
  intros HI HK Hm. apply Kc_T4_K; [|apply (step_IWT c p o qo HI)].
  destruct HI as [H0 [HW HT]]. destruct o as [loc txs|g|r|]; cbn.
  - assert (I1 : Inv0 (fst (fst (add_txs c txs loc p))) /\ K (fst (fst (add_txs c txs loc p)))).
    { unfold add_txs. set (news := filter (fun t => negb (all_has t p)) txs).
      assert (G : forall l q, Inv0 q /\ K q -> Inv0 (fst (fst (add_locked c l loc q))) /\ K (fst (fst (add_locked c l loc q)))).
      { induction l as [|t l IH]; intros q [A B]; cbn; [split; assumption|].
        pose proof (add_inv0 c t loc q A) as X1. pose proof (add_K c t loc q A B) as X2.
        destruct (add c t loc q) as [[q1 v] rep]. cbn [fst] in *.
        specialize (IH q1 (conj X1 X2)). destruct (add_locked c l loc q1) as [[q2 vs] d]. exact IH. }
      specialize (G news p (conj H0 HK)). destruct (add_locked c news loc p) as [[p1 vs] d]. exact G. }
    destruct (add_txs c txs loc p) as [[p1 vs] d]. cbn [fst] in *. unfold run. apply tail_Kc. apply K_Kc.
    assert (G : forall l q, Inv0 q /\ K q -> Inv0 (promote_list c l q) /\ K (promote_list c l q)).
    { induction l as [|a l IH]; intros q [A B]; cbn; [auto|]. apply IH. split; [apply promote_one_inv0|apply promote_one_K]; auto. }
    apply G. exact I1.
  - unfold run. apply tail_Kc. cbn. apply set_gas_price_Kc. apply K_Kc. exact HK.
  - unfold run. apply tail_Kc. apply (sv_Kc (demote_all c (promote_list c (akeys (p_queue (do_reset c r p))) (do_reset c r p)))); [repeat split|].
    assert (I1 : Inv0 (do_reset c r p) /\ CR (do_reset c r p)).
    { unfold do_reset. pose proof (add_locked_ICR c (reinject r) false (set_pn [] (set_st (r_st r) p))) as X.
      destruct (add_locked c (reinject r) false _) as [[p2 vs] d]. apply X. split; [eapply invr_same; [|exact H0]; repeat split|].
      apply CR_after_swap; assumption. }
    apply promote_list_ICR with (c := c) (l := akeys (p_queue (do_reset c r p))) in I1. destruct I1 as [A B].
    apply demote_all_Kc; [exact A|]. intros a. apply (B a).
  - unfold run. apply tail_Kc. cbn. apply K_Kc. exact HK.
Qed.

Lemma init_K pl st : K (init pl st).
Proof. intros a. constructor; cbn; [exact I|]. unfold pn_get, len; cbn. lia. Qed.

Lemma run_hist_K c h p : IWT p -> K p -> monotone (p_st p) h -> K (run_hist c p h).
Proof.
  revert p. induction h as [|[o qo] h IH]; intros p HI HK Hm; cbn [run_hist fold_left]; [exact HK|].
  change (K (run_hist c (fst (step c p o qo)) h)). apply IH.
  - apply step_IWT. exact HI.
  - apply step_K; auto. destruct o as [| |r|]; auto. destruct Hm as [Hm _]. exact Hm.
  - rewrite step_st. destruct o as [| |r|]; cbn in Hm; try exact Hm. destruct Hm as [_ Hm]. exact Hm.
Qed.

(* C19 -- nonce contiguity of the pending lists.  It is preserved by every operation
   except a chain-head event that moves an account's state nonce backwards (a
   reorganisation) -- see contiguity_refuted in Proofs/C19.v for what happens then. *)
From Coq Require Import List NArith PeanoNat Bool Lia ZifyBool ZifyNat ZifyN.
From GQ Require Import Model.C19 Proofs.C19_Lists Proofs.C19_Struct Proofs.C19_Ops Proofs.C19_State.
Import ListNotations.
Local Open Scope N_scope.

(* ---------- list facts ---------- *)
Lemma contig_put_same s l t : contig s l -> hasn l (t_nonce t) -> contig s (l_put t l) /\ len (l_put t l) = len l.
Proof.
  revert s. induction l as [|y r IH]; intros s; cbn.
  - intros _ [x [[] _]].
  - intros [E H] Hh. destruct (t_nonce t <? t_nonce y) eqn:E1.
    + exfalso. destruct Hh as [x [[<-|Hx] En]]; [lia|]. pose proof (contig_nonces _ _ _ H Hx). lia.
    + destruct (t_nonce t =? t_nonce y) eqn:E2.
      * cbn. split; [split; [lia|exact H]|reflexivity].
      * assert (Hh' : hasn r (t_nonce t)). { destruct Hh as [x [[<-|Hx] En]]; [lia|exists x; auto]. }
        destruct (IH _ H Hh') as [A B]. cbn. split; [split; assumption|]. unfold len in *. cbn [length]. lia.
Qed.

Lemma contig_put_end s l t : contig s l -> t_nonce t = s + len l -> l_put t l = l ++ [t].
Proof.
  revert s. induction l as [|y r IH]; intros s; cbn; [reflexivity|].
  intros [E H] En. unfold len in En. cbn [length] in En.
  assert (E1 : t_nonce t <? t_nonce y = false) by lia. assert (E2 : t_nonce t =? t_nonce y = false) by lia.
  rewrite E1, E2. f_equal. apply (IH (s + 1)); auto. unfold len. lia.
Qed.

Lemma contig_snoc s l t : contig s l -> t_nonce t = s + len l -> contig s (l ++ [t]).
Proof. intros H E. apply contig_app. split; [exact H|]. cbn. auto. Qed.

Lemma len_app (l1 l2 : txl) : len (l1 ++ l2) = len l1 + len l2.
Proof. unfold len. rewrite app_length. lia. Qed.

Lemma filter_none {A} (f : A -> bool) (l : list A) : (forall x, In x l -> f x = false) -> filter f l = [].
Proof.
  induction l as [|y r IH]; cbn; [reflexivity|]. intros G. rewrite (G y (or_introl eq_refl)). apply IH.
  intros x Hx. apply G. right; exact Hx.
Qed.

Lemma contig_below s l n : contig s l -> contig s (filter (fun x => t_nonce x <? n) l) /\
  len (filter (fun x => t_nonce x <? n) l) = N.min (len l) (n - s).
Proof.
  revert s. induction l as [|y r IH]; intros s; cbn; [intros _; split; [exact I|unfold len; cbn; lia]|].
  intros [E H]. destruct (IH _ H) as [A B]. destruct (t_nonce y <? n) eqn:E1.
  - cbn. split; [split; assumption|]. unfold len in *. cbn [length]. lia.
  - assert (Enil : filter (fun x => t_nonce x <? n) r = []).
    { apply filter_none. intros x Hx. pose proof (contig_nonces _ _ _ H Hx). lia. }
    rewrite Enil. split; [exact I|]. unfold len in *. cbn [length]. lia.
Qed.

Lemma contig_last_next s l : contig s l -> last_next s l = s + len l.
Proof.
  intros H. unfold last_next. destruct (rev l) as [|x r] eqn:Er.
  - apply (f_equal (@rev tx)) in Er. rewrite rev_involutive in Er. cbn in Er. subst. unfold len; cbn; lia.
  - assert (El : l = rev r ++ [x]) by (rewrite <- (rev_involutive l), Er; reflexivity).
    rewrite El in H |- *. apply contig_app in H as [_ H]. cbn in H. rewrite len_app. unfold len at 2. cbn. lia.
Qed.

Lemma filter_filter {A} (f g : A -> bool) (l : list A) : filter f (filter g l) = filter (fun x => g x && f x) l.
Proof. induction l as [|x r IH]; cbn; [reflexivity|]. destruct (g x); cbn; [destruct (f x)|]; rewrite IH; reflexivity. Qed.

Lemma filter_all {A} (f : A -> bool) (l : list A) : (forall x, In x l -> f x = true) -> filter f l = l.
Proof.
  induction l as [|y r IH]; cbn; [reflexivity|]. intros G. rewrite (G y (or_introl eq_refl)). f_equal. apply IH.
  intros x Hx. apply G. right; exact Hx.
Qed.

(* nonce view *)
Lemma map_nonce_put_same t l : sorted l -> hasn l (t_nonce t) -> map t_nonce (l_put t l) = map t_nonce l.
Proof.
  induction l as [|y r IH]; cbn; [intros _ [x [[] _]]|]. intros [Hlt Hs] Hh.
  destruct (t_nonce t <? t_nonce y) eqn:E1.
  - exfalso. destruct Hh as [x [[<-|Hx] En]]; [lia|]. specialize (Hlt _ Hx). lia.
  - destruct (t_nonce t =? t_nonce y) eqn:E2; cbn; [f_equal; lia|]. f_equal. apply IH; auto.
    destruct Hh as [x [[<-|Hx] En]]; [lia|exists x; auto].
Qed.
Lemma map_nonce_filter (g : N -> bool) (l : txl) : map t_nonce (filter (fun x => g (t_nonce x)) l) = filter g (map t_nonce l).
Proof. induction l as [|y r IH]; cbn; [reflexivity|]. destruct (g (t_nonce y)); cbn; rewrite IH; reflexivity. Qed.
Lemma contig_map s l l' : map t_nonce l = map t_nonce l' -> contig s l -> contig s l'.
Proof.
  revert s l'. induction l as [|y r IH]; intros s [|y' r']; cbn; try discriminate; [auto|].
  intros [= E1 E2] [E H]. split; [congruence|]. eapply IH; eauto.
Qed.
Lemma len_map (l l' : txl) : map t_nonce l = map t_nonce l' -> len l = len l'.
Proof. intros E. unfold len. rewrite <- (map_length t_nonce l), E, map_length. reflexivity. Qed.

Lemma contig_above s l n : contig s l -> s <= n -> contig n (filter (fun x => negb (t_nonce x <? n)) l).
Proof.
  revert s. induction l as [|y r IH]; intros s; cbn; [auto|]. intros [E H] Hle.
  destruct (t_nonce y <? n) eqn:E1; cbn.
  - apply (IH (s + 1)); [exact H|lia].
  - assert (s = n) by lia. subst n. rewrite filter_all; [split; assumption|].
    intros x Hx. pose proof (contig_nonces _ _ _ H Hx). lia.
Qed.

Lemma l_put_end l t : sorted l -> (forall y, In y l -> t_nonce y < t_nonce t) -> l_put t l = l ++ [t].
Proof.
  induction l as [|y r IH]; cbn; [reflexivity|]. intros [Hlt Hs] G.
  assert (t_nonce y < t_nonce t) by (apply G; left; reflexivity).
  assert (E1 : t_nonce t <? t_nonce y = false) by lia. assert (E2 : t_nonce t =? t_nonce y = false) by lia.
  rewrite E1, E2. f_equal. apply IH; auto.
Qed.

(* ---------- the invariant ---------- *)
Record Ka (p : pool) (a : N) : Prop := {
  k_contig : contig (st_nonce p a) (aget a (p_pend p));
  k_pn : pn_get p a = st_nonce p a + len (aget a (p_pend p))
}.
Definition K (p : pool) : Prop := forall a, Ka p a.
Definition Kc (p : pool) : Prop := forall a, contig (st_nonce p a) (aget a (p_pend p)).

Lemma Ka_ext p q a : p_st q = p_st p -> aget a (p_pend q) = aget a (p_pend p) -> pn_get q a = pn_get p a -> Ka p a -> Ka q a.
Proof. intros E1 E2 E3 [H1 H2]. constructor; unfold st_nonce in *; rewrite ?E1, ?E2, ?E3; auto. Qed.
Lemma sv_Ka p q a : same_view p q -> Ka p a -> Ka q a.
Proof. intros S. pose proof (sv_pn_get p q a S) as E. destruct S as [E1 [E2 E3]]. apply Ka_ext; auto. rewrite E2; reflexivity. Qed.
Lemma sv_K p q : same_view p q -> K p -> K q.
Proof. intros S H a. eapply sv_Ka; eauto. Qed.
Lemma K_Kc p : K p -> Kc p.
Proof. intros H a. apply (k_contig _ _ (H a)). Qed.
Lemma Kc_T4_K p : Kc p -> T4 p -> K p.
Proof. intros H HT a. constructor; [apply H|]. rewrite HT. apply contig_last_next. apply H. Qed.
Lemma sv_Kc p q : same_view p q -> Kc p -> Kc q.
Proof. intros [E1 [E2 E3]] H a. unfold st_nonce. rewrite E1, E2. apply H. Qed.

(* ---------- add ---------- *)
Lemma add_K c t loc p : Inv0 p -> K p -> K (fst (fst (add c t loc p))).
Proof.
  intros H0 HK. destruct (add c t loc p) as [[p' v] r] eqn:Ea. cbn [fst].
  destruct (add_view _ _ _ _ _ _ _ Ea) as [E1 [E2 [E3|[Ev [E3 [o Eo]]]]]].
  - apply (sv_K p); [repeat split; assumption|exact HK].
  - intros b. assert (Epn : pn_get p' b = pn_get p b) by (unfold pn_get, st_nonce; rewrite E1, E2; reflexivity).
    destruct (N.eq_dec b (t_from t)) as [->|Hb].
    + destruct (HK (t_from t)) as [G1 G2].
      assert (Hh : hasn (aget (t_from t) (p_pend p)) (t_nonce t)) by (apply l_get_hasn; eauto).
      destruct (contig_put_same _ _ t G1 Hh) as [A B].
      constructor; unfold st_nonce in *; rewrite ?E1, ?E3, ?aget_aset_same, ?Epn, ?B; auto.
    + eapply Ka_ext; [exact E1| |exact Epn|apply HK]. rewrite E3. apply aget_aset_other. auto.
Qed.

(* ---------- promote ---------- *)
Lemma promote_list_Ka c a D R p :
  InvR a (D ++ R) p -> Ka p a -> contig (pn_get p a) D ->
  Ka (fold_left (fun s t => promote_tx c a t s) D p) a.
Proof.
  revert p. induction D as [|x D IH]; intros p HI HK HD; cbn [fold_left]; [exact HK|].
  cbn [app] in HI. pose proof (promote_tx_eq c a x _ p HI) as Eq. destruct HD as [Ex HD]. destruct HK as [G1 G2].
  assert (Eend : l_put x (aget a (p_pend p)) = aget a (p_pend p) ++ [x]) by (apply (contig_put_end _ _ _ G1); lia).
  assert (HK1 : Ka (promote_tx c a x p) a).
  { rewrite Eq. constructor; unfold st_nonce in *; psimpl; rewrite ?aget_aset_same, ?pn_get_pn_set, ?N.eqb_refl, Eend.
    - apply contig_snoc; [exact G1|lia].
    - rewrite len_app. unfold len at 2. cbn. lia. }
  apply IH; [apply invr_promote; exact HI|exact HK1|].
  rewrite Eq, pn_get_pn_set, N.eqb_refl, Ex. exact HD.
Qed.

Lemma promote_one_K c a p : Inv0 p -> K p -> K (promote_one c a p).
Proof.
  intros H0 HK. unfold promote_one. destruct (aget a (p_queue p)) as [|q0 qr] eqn:Eq; [exact HK|].
  rewrite <- Eq. set (q := aget a (p_queue p)).
  pose proof (inv0_any a _ H0) as H.
  assert (Sq : sorted q) by apply (ir_queue _ _ _ H a).
  pose proof (l_forward_splits (st_nonce p a) q Sq) as Sf.
  pose proof (l_forward_snd (st_nonce p a) q) as Ffw.
  destruct (l_forward (st_nonce p a) q) as [fw q1] eqn:Ef. cbn [fst snd] in Sf, Ffw.
  pose proof (invr_queue_drop a p q1 fw H Sf) as H1.
  set (p1 := all_remove_list fw (set_queue a q1 p)) in *.
  assert (V1 : same_view p p1) by (eapply sv_trans; [apply sv_set_queue|apply sv_all_remove_list]).
  assert (Eq1 : aget a (p_queue p1) = q1) by apply aget_queue_after_drop.
  assert (Sq1 : sorted q1) by (destruct Sf as [_ [_ [S _]]]; exact S).
  destruct (l_filter false (st_bal p a) (s_maxgas (p_st p)) q1) as [[drops inv] q2] eqn:EF.
  destruct (l_filter_nonstrict_splits _ _ _ _ _ _ Sq1 EF) as [SF Einv].
  pose proof (l_filter_keep _ _ _ _ _ _ _ EF) as Fkeep.
  rewrite <- Eq1 in SF.
  pose proof (invr_queue_drop a p1 q2 drops H1 SF) as H2.
  set (p2 := all_remove_list drops (set_queue a q2 p1)) in *.
  assert (V2 : same_view p p2) by (eapply sv_trans; [exact V1|]; eapply sv_trans; [apply sv_set_queue|apply sv_all_remove_list]).
  assert (Eq2 : aget a (p_queue p2) = q2) by apply aget_queue_after_drop.
  assert (Sq2 : sorted q2) by (destruct SF as [_ [_ [S _]]]; exact S).
  destruct (l_ready (pn_get p2 a) q2) as [readies q3] eqn:ER.
  destruct (l_ready_split _ _ _ _ ER) as [Eapp Hready].
  assert (SR : splits (aget a (p_queue p2)) q3 readies).
  { rewrite Eq2, Eapp. apply splits_app. rewrite <- Eapp. exact Sq2. }
  pose proof (invr_queue_to_limbo a [] p2 q3 readies H2 SR) as H3.
  set (p2' := set_queue a q3 p2) in *.
  assert (V2' : same_view p p2') by (eapply sv_trans; [exact V2|apply sv_set_queue]).
  assert (HD : contig (pn_get p2' a) readies).
  { destruct Hready as [->|[x [r [El [Hle [Hc Hne]]]]]]; [exact I|].
    assert (Epn : pn_get p2' a = pn_get p a) by (apply sv_pn_get; exact V2').
    assert (Epn2 : pn_get p2 a = pn_get p a) by (apply sv_pn_get; exact V2).
    assert (Hx2 : In x q2) by (rewrite El; left; reflexivity).
    assert (Hk : In x inv \/ In x q2) by auto. apply Fkeep in Hk as [Hq1 _]. apply Ffw in Hq1 as [Hxq Hge].
    destruct (HK a) as [G1 G2].
    (* x is queued, so its nonce is not a pending one: it is at least st + len = pendingNonces *)
    assert (~ hasn (aget a (p_pend p)) (t_nonce x)).
    { intros [y [Hy Ey]]. apply (ir_disj _ _ _ H a y x Hy Hxq). exact Ey. }
    rewrite (contig_hasn _ _ (t_nonce x) G1) in H4.
    assert (t_nonce x = pn_get p2' a) by lia. rewrite <- H5. exact Hc. }
  pose proof (promote_list_Ka c a readies [] p2' H3 (sv_Ka _ _ a V2' (HK a)) HD) as HKa.
  set (p3 := fold_left (fun s t => promote_tx c a t s) readies p2') in *.
  destruct (l_cap (c_aqueue c) q3) as [caps q4] eqn:EC.
  assert (V4 : same_view p3 (removed (len fw + len drops + len caps) (all_remove_list caps (set_queue a q4 p3)))).
  { eapply sv_trans; [|apply sv_removed]. eapply sv_trans; [apply sv_set_queue|apply sv_all_remove_list]. }
  apply (sv_K _ _ V4). intros b. destruct (N.eq_dec b a) as [->|Hb]; [exact HKa|].
  destruct (promote_list_other c a readies p2' b Hb) as [A [B C]]. fold p3 in A, B, C.
  eapply Ka_ext; [exact C|exact A|exact B|]. apply (sv_Ka _ _ b V2'). apply HK.
Qed.

(* ---------- removals keep a contiguous prefix ---------- *)
Lemma l_remove_strict_below n l : snd (l_remove_strict n l) = filter (fun x => t_nonce x <? n) l.
Proof.
  unfold l_remove_strict, l_remove. cbn [snd]. rewrite filter_filter. apply filter_ext. intros x.
  destruct (t_nonce x =? n) eqn:E1; destruct (n <? t_nonce x) eqn:E2; destruct (t_nonce x <? n) eqn:E3; cbn; try reflexivity; lia.
Qed.

Lemma remove_tx_view c t ob p :
  p_st (remove_tx c t ob p) = p_st p /\
  forall b, aget b (p_pend (remove_tx c t ob p)) = aget b (p_pend p) \/
            (b = t_from t /\ aget b (p_pend (remove_tx c t ob p)) = filter (fun x => t_nonce x <? t_nonce t) (aget b (p_pend p))).
Proof.
  unfold remove_tx. destruct (all_has t p); cbn [negb]; [|auto].
  set (p2 := if ob then removed 1 (all_remove t p) else all_remove t p).
  assert (V2 : same_view p p2) by (unfold p2; destruct ob; [eapply sv_trans; [|apply sv_removed]|]; repeat split).
  destruct V2 as [E1 [E2 E3]]. rewrite E2.
  destruct (l_get _ _).
  - pose proof (l_remove_strict_below (t_nonce t) (aget (t_from t) (p_pend p))) as Eb.
    destruct (l_remove_strict _ _) as [invalids pl']. cbn [snd] in Eb.
    set (p4 := fold_left (fun s x => requeue c x s) invalids (set_pend (t_from t) pl' p2)).
    destruct (sv_requeue_list c invalids (set_pend (t_from t) pl' p2)) as [A [B C]]. fold p4 in A, B, C.
    assert (F : p_st (pn_set_if_lower (t_from t) (t_nonce t) p4) = p_st p4 /\ p_pend (pn_set_if_lower (t_from t) (t_nonce t) p4) = p_pend p4).
    { unfold pn_set_if_lower. destruct (_ <=? _); auto. }
    destruct F as [F1 F2]. rewrite F1, F2, A, B. psimpl. rewrite E1, E2. split; [reflexivity|].
    intros b. rewrite aget_aset. destruct (t_from t =? b) eqn:E; [|auto]. right. split; [lia|]. assert (b = t_from t) by lia. subst b. exact Eb.
  - psimpl. rewrite E1, E2. auto.
Qed.

Lemma remove_tx_Kc c t ob p : Kc p -> Kc (remove_tx c t ob p).
Proof.
  intros H b. destruct (remove_tx_view c t ob p) as [E1 E2]. unfold st_nonce. rewrite E1.
  destruct (E2 b) as [E|[_ E]]; rewrite E; [apply H|]. apply contig_below. apply H.
Qed.

Lemma drop_last_view a p :
  p_st (drop_last a p) = p_st p /\
  forall b, aget b (p_pend (drop_last a p)) = aget b (p_pend p) \/ (b = a /\ aget b (p_pend (drop_last a p)) = removelast (aget b (p_pend p))).
Proof.
  unfold drop_last. destruct (rev _) as [|x r]; [auto|].
  destruct (sv_removed 1 (pn_set_if_lower a (t_nonce x) (all_remove x (set_pend a (removelast (aget a (p_pend p))) p)))) as [A [B C]].
  rewrite A, B.
  assert (F : forall q, p_st (pn_set_if_lower a (t_nonce x) q) = p_st q /\ p_pend (pn_set_if_lower a (t_nonce x) q) = p_pend q).
  { intros q. unfold pn_set_if_lower. destruct (_ <=? _); auto. }
  destruct (F (all_remove x (set_pend a (removelast (aget a (p_pend p))) p))) as [F1 F2]. rewrite F1, F2. psimpl. split; [reflexivity|].
  intros b. rewrite aget_aset. destruct (a =? b) eqn:E; [|auto]. right. assert (b = a) by lia. subst b. auto.
Qed.

Lemma contig_removelast s l : contig s l -> contig s (removelast l).
Proof.
  intros H. destruct (rev l) as [|x r] eqn:Er.
  - apply (f_equal (@rev tx)) in Er. rewrite rev_involutive in Er. cbn in Er. subst. exact I.
  - assert (El : l = rev r ++ [x]) by (rewrite <- (rev_involutive l), Er; reflexivity).
    rewrite El in H |- *. rewrite removelast_last. apply contig_app in H. tauto.
Qed.

Lemma drop_last_Kc a p : Kc p -> Kc (drop_last a p).
Proof.
  intros H b. destruct (drop_last_view a p) as [E1 E2]. unfold st_nonce. rewrite E1.
  destruct (E2 b) as [E|[_ E]]; rewrite E; [apply H|]. apply contig_removelast. apply H.
Qed.

Lemma set_gas_price_Kc c g p : Kc p -> Kc (set_gas_price c g p).
Proof.
  intros H. unfold set_gas_price.
  assert (H1 : Kc (set_gasprice g p)) by (apply (sv_Kc p); [repeat split|exact H]).
  destruct (_ <? _); [|exact H1]. apply (sv_Kc _ _ (sv_removed _ _)).
  apply (fold_pres Kc (fun s t => remove_tx c t false s)); [intros t q Hq; apply remove_tx_Kc; exact Hq|exact H1].
Qed.

Lemma fix_nonces_Kc p : Kc p -> Kc (fix_nonces p).
Proof.
  intros H a. destruct (fix_nonces_view p) as [A [B _]]. unfold st_nonce. rewrite A, B. apply H.
Qed.

Lemma tail_Kc c qo p : Kc p -> Kc (fix_nonces (truncate_queue c qo (truncate_pending c p))).
Proof.
  intros H. apply fix_nonces_Kc.
  apply (truncate_queue_pres Kc); [intros t q Hq; apply remove_tx_Kc; exact Hq|].
  apply (truncate_pending_pres Kc); [intros a q Hq; apply drop_last_Kc; exact Hq|exact H].
Qed.

(* ---------- the reset phase ---------- *)
Definition above (s : N) (l : txl) : txl := filter (fun x => negb (t_nonce x <? s)) l.
Definition CRc (p : pool) (a : N) : Prop := contig (st_nonce p a) (above (st_nonce p a) (aget a (p_pend p))).
Definition CRa (p : pool) (a : N) : Prop :=
  CRc p a /\
  (pn_get p a = st_nonce p a + len (above (st_nonce p a) (aget a (p_pend p))) \/
   (pn_get p a = st_nonce p a /\ above (st_nonce p a) (aget a (p_pend p)) <> [])).
Definition CR (p : pool) : Prop := forall a, CRa p a.

Lemma CRa_ext p q a : p_st q = p_st p -> aget a (p_pend q) = aget a (p_pend p) -> pn_get q a = pn_get p a -> CRa p a -> CRa q a.
Proof. intros E1 E2 E3. unfold CRa, CRc, st_nonce. rewrite E1, E2, E3. auto. Qed.
Lemma sv_CRa p q a : same_view p q -> CRa p a -> CRa q a.
Proof. intros S. pose proof (sv_pn_get p q a S) as E. destruct S as [E1 [E2 E3]]. apply CRa_ext; auto. rewrite E2; reflexivity. Qed.
Lemma sv_CR p q : same_view p q -> CR p -> CR q.
Proof. intros S H a. eapply sv_CRa; eauto. Qed.

Lemma CR_after_swap st p : K p -> (forall a, st_nonce p a <= nget a (s_nonce st)) -> CR (set_pn [] (set_st st p)).
Proof.
  intros HK Hmono a. destruct (HK a) as [G1 _]. unfold CRa, CRc, pn_get, st_nonce. psimpl. cbn [nfind].
  pose proof (contig_above _ _ (nget a (s_nonce st)) G1 (Hmono a)) as C. fold (above (nget a (s_nonce st)) (aget a (p_pend p))) in C.
  split; [exact C|]. destruct (above (nget a (s_nonce st)) (aget a (p_pend p))) eqn:E; [left; unfold len; cbn; lia|right; split; [reflexivity|discriminate]].
Qed.

Lemma above_put_same s t l : sorted l -> hasn l (t_nonce t) ->
  map t_nonce (above s (l_put t l)) = map t_nonce (above s l).
Proof.
  intros Hs Hh. unfold above.
  rewrite (map_nonce_filter (fun n => negb (n <? s)) (l_put t l)), (map_nonce_filter (fun n => negb (n <? s)) l).
  rewrite map_nonce_put_same; auto.
Qed.

Lemma add_CR c t loc p : Inv0 p -> CR p -> CR (fst (fst (add c t loc p))).
Proof.
  intros H0 HC. destruct (add c t loc p) as [[p' v] r] eqn:Ea. cbn [fst].
  destruct (add_view _ _ _ _ _ _ _ Ea) as [E1 [E2 [E3|[Ev [E3 [o Eo]]]]]].
  - apply (sv_CR p); [repeat split; assumption|exact HC].
  - intros b. assert (Epn : pn_get p' b = pn_get p b) by (unfold pn_get, st_nonce; rewrite E1, E2; reflexivity).
    destruct (N.eq_dec b (t_from t)) as [->|Hb].
    + destruct (HC (t_from t)) as [G1 G2].
      assert (Hh : hasn (aget (t_from t) (p_pend p)) (t_nonce t)) by (apply l_get_hasn; eauto).
      pose proof (above_put_same (st_nonce p (t_from t)) t _ (proj1 (ir_pend _ _ _ H0 _)) Hh) as Em.
      unfold CRa, CRc, st_nonce in *. rewrite E1, E3, aget_aset_same, Epn. split.
      * eapply contig_map; [symmetry; exact Em|exact G1].
      * rewrite (len_map _ _ Em). destruct G2 as [G2|[G2 G3]]; [left; exact G2|right; split; [exact G2|]].
        intros En. apply G3. apply (f_equal (map t_nonce)) in En. rewrite Em in En. destruct (above _ (aget _ (p_pend p))); [reflexivity|discriminate].
    + eapply CRa_ext; [exact E1| |exact Epn|apply HC]. rewrite E3. apply aget_aset_other. auto.
Qed.

Lemma promote_list_CRa c a D R p :
  InvR a (D ++ R) p -> CRa p a ->
  (D = [] \/ (pn_get p a = st_nonce p a + len (above (st_nonce p a) (aget a (p_pend p))) /\ contig (pn_get p a) D)) ->
  CRa (fold_left (fun s t => promote_tx c a t s) D p) a.
Proof.
  revert p. induction D as [|x D IH]; intros p HI HC HD; cbn [fold_left]; [exact HC|].
  destruct HD as [HD|[Hpn [Ex HD]]]; [discriminate|].
  cbn [app] in HI. pose proof (promote_tx_eq c a x _ p HI) as Eq. destruct HC as [G1 _]. unfold CRc in G1.
  assert (Est : forall q, p_st q = p_st p -> st_nonce q a = st_nonce p a) by (intros q E; unfold st_nonce; rewrite E; reflexivity).
  remember (st_nonce p a) as s eqn:Es. remember (aget a (p_pend p)) as pl eqn:Epl. remember (above s pl) as F eqn:EF0.
  assert (Hall : forall y, In y pl -> t_nonce y < t_nonce x).
  { intros y Hy. destruct (t_nonce y <? s) eqn:E; [lia|].
    assert (In y F) by (rewrite EF0; apply filter_In; split; [exact Hy|rewrite E; reflexivity]).
    pose proof (contig_nonces _ _ _ G1 H). lia. }
  assert (Spl : sorted pl) by (rewrite Epl; apply (ir_pend _ _ _ HI a)).
  assert (Eend : l_put x pl = pl ++ [x]) by (apply l_put_end; assumption).
  assert (EF : above s (pl ++ [x]) = F ++ [x]).
  { rewrite EF0. unfold above. rewrite filter_app. cbn [filter]. assert (E : t_nonce x <? s = false) by lia. rewrite E. reflexivity. }
  assert (Est1 : st_nonce (promote_tx c a x p) a = s) by (rewrite Es; apply Est; rewrite Eq; reflexivity).
  assert (Epd1 : aget a (p_pend (promote_tx c a x p)) = pl ++ [x]) by (rewrite Eq; psimpl; rewrite aget_aset_same, <- Epl; exact Eend).
  assert (Epn1 : pn_get (promote_tx c a x p) a = t_nonce x + 1) by (rewrite Eq, pn_get_pn_set, N.eqb_refl; reflexivity).
  assert (HC1 : CRa (promote_tx c a x p) a).
  { unfold CRa, CRc. rewrite Est1, Epd1, Epn1, EF. split.
    - apply contig_snoc; [exact G1|lia].
    - left. rewrite len_app. unfold len at 2. cbn. lia. }
  apply IH; [apply invr_promote; exact HI|exact HC1|].
  destruct D as [|x2 D']; [left; reflexivity|right]. split.
  - rewrite Est1, Epd1, Epn1, EF, len_app. unfold len at 2. cbn. lia.
  - rewrite Epn1, Ex. exact HD.
Qed.

Lemma promote_one_CR c a p : Inv0 p -> CR p -> CR (promote_one c a p).
Proof.
  intros H0 HC. unfold promote_one. destruct (aget a (p_queue p)) as [|q0 qr] eqn:Eq; [exact HC|].
  rewrite <- Eq. set (q := aget a (p_queue p)).
  pose proof (inv0_any a _ H0) as H.
  assert (Sq : sorted q) by apply (ir_queue _ _ _ H a).
  pose proof (l_forward_splits (st_nonce p a) q Sq) as Sf.
  pose proof (l_forward_snd (st_nonce p a) q) as Ffw.
  destruct (l_forward (st_nonce p a) q) as [fw q1] eqn:Ef. cbn [fst snd] in Sf, Ffw.
  pose proof (invr_queue_drop a p q1 fw H Sf) as H1.
  set (p1 := all_remove_list fw (set_queue a q1 p)) in *.
  assert (V1 : same_view p p1) by (eapply sv_trans; [apply sv_set_queue|apply sv_all_remove_list]).
  assert (Eq1 : aget a (p_queue p1) = q1) by apply aget_queue_after_drop.
  assert (Sq1 : sorted q1) by (destruct Sf as [_ [_ [S _]]]; exact S).
  destruct (l_filter false (st_bal p a) (s_maxgas (p_st p)) q1) as [[drops inv] q2] eqn:EF.
  destruct (l_filter_nonstrict_splits _ _ _ _ _ _ Sq1 EF) as [SF Einv].
  pose proof (l_filter_keep _ _ _ _ _ _ _ EF) as Fkeep.
  rewrite <- Eq1 in SF.
  pose proof (invr_queue_drop a p1 q2 drops H1 SF) as H2.
  set (p2 := all_remove_list drops (set_queue a q2 p1)) in *.
  assert (V2 : same_view p p2) by (eapply sv_trans; [exact V1|]; eapply sv_trans; [apply sv_set_queue|apply sv_all_remove_list]).
  assert (Eq2 : aget a (p_queue p2) = q2) by apply aget_queue_after_drop.
  assert (Sq2 : sorted q2) by (destruct SF as [_ [_ [S _]]]; exact S).
  destruct (l_ready (pn_get p2 a) q2) as [readies q3] eqn:ER.
  destruct (l_ready_split _ _ _ _ ER) as [Eapp Hready].
  assert (SR : splits (aget a (p_queue p2)) q3 readies).
  { rewrite Eq2, Eapp. apply splits_app. rewrite <- Eapp. exact Sq2. }
  pose proof (invr_queue_to_limbo a [] p2 q3 readies H2 SR) as H3.
  set (p2' := set_queue a q3 p2) in *.
  assert (V2' : same_view p p2') by (eapply sv_trans; [exact V2|apply sv_set_queue]).
  assert (Epn : pn_get p2' a = pn_get p a) by (apply sv_pn_get; exact V2').
  assert (Epn2 : pn_get p2 a = pn_get p a) by (apply sv_pn_get; exact V2).
  assert (Est : st_nonce p2' a = st_nonce p a) by (unfold st_nonce; destruct V2' as [E _]; rewrite E; reflexivity).
  assert (Epd : aget a (p_pend p2') = aget a (p_pend p)) by (destruct V2' as [_ [E _]]; rewrite E; reflexivity).
  assert (HD : readies = [] \/ (pn_get p2' a = st_nonce p2' a + len (above (st_nonce p2' a) (aget a (p_pend p2'))) /\ contig (pn_get p2' a) readies)).
  { destruct Hready as [->|[x [r [El [Hle [Hc Hne]]]]]]; [left; reflexivity|].
    assert (Hx2 : In x q2) by (rewrite El; left; reflexivity).
    assert (Hk : In x inv \/ In x q2) by auto. apply Fkeep in Hk as [Hq1 _]. apply Ffw in Hq1 as [Hxq Hge].
    destruct (HC a) as [G1 G2]. unfold CRc in G1.
    assert (Hnot : ~ hasn (above (st_nonce p a) (aget a (p_pend p))) (t_nonce x)).
    { intros [y [Hy Ey]]. apply filter_In in Hy as [Hy _]. apply (ir_disj _ _ _ H a y x Hy Hxq). exact Ey. }
    rewrite (contig_hasn _ _ (t_nonce x) G1) in Hnot.
    destruct G2 as [G2|[G2 G3]].
    - right. rewrite Est, Epd, Epn. split; [exact G2|]. assert (t_nonce x = pn_get p a) by lia. rewrite <- H4. exact Hc.
    - exfalso. assert (0 < len (above (st_nonce p a) (aget a (p_pend p)))).
      { destruct (above _ _); [congruence|unfold len; cbn; lia]. }
      lia. }
  pose proof (promote_list_CRa c a readies [] p2' H3 (sv_CRa _ _ a V2' (HC a)) HD) as HCa.
  set (p3 := fold_left (fun s t => promote_tx c a t s) readies p2') in *.
  destruct (l_cap (c_aqueue c) q3) as [caps q4] eqn:EC.
  assert (V4 : same_view p3 (removed (len fw + len drops + len caps) (all_remove_list caps (set_queue a q4 p3)))).
  { eapply sv_trans; [|apply sv_removed]. eapply sv_trans; [apply sv_set_queue|apply sv_all_remove_list]. }
  apply (sv_CR _ _ V4). intros b. destruct (N.eq_dec b a) as [->|Hb]; [exact HCa|].
  destruct (promote_list_other c a readies p2' b Hb) as [A [B C]]. fold p3 in A, B, C.
  eapply CRa_ext; [exact C|exact A|exact B|]. apply (sv_CRa _ _ b V2'). apply HC.
Qed.

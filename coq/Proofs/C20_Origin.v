(* C20, origin side: the Quai that leaves the accounts of the origin zone is exactly the
   value + fee of the ETXs left in evm.ETXCache, whatever the nesting of frames, call kinds,
   failures and value transfers -- because a frame snapshot holds the account state AND the
   length of the cache.  Model: C20.ostep / C20.orun. *)
From Coq Require Import List ZArith NArith Bool Lia Arith.
From Coq Require String.
From GQ Require Import Generated.C20Params Model.C20.
Import ListNotations.
Local Open Scope Z_scope.

Lemma cache_cost_app : forall a b, cache_cost (a ++ b) = cache_cost a + cache_cost b.
Proof.
  induction a as [|x a IH]; intros b; cbn [cache_cost app fold_right].
  - reflexivity.
  - fold (cache_cost (a ++ b)). fold (cache_cost a). rewrite IH. lia.
Qed.

Lemma bal_total_add : forall b a d, bal_total (bal_add b a d) = bal_total b + d.
Proof.
  induction b as [|[a' x] b IH]; intros a d.
  - cbn. lia.
  - cbn [bal_add]. destruct (N.eqb a a').
    + unfold bal_total. cbn [fold_right snd]. lia.
    + unfold bal_total in *. cbn [fold_right snd]. rewrite IH. lia.
Qed.

Lemma firstn_app_le : forall (A : Type) (n : nat) (a b : list A),
  (n <= length a)%nat -> firstn n (a ++ b) = firstn n a.
Proof.
  intros A n a b Hle. rewrite firstn_app.
  replace (n - length a)%nat with 0%nat by lia. cbn [firstn]. apply app_nil_r.
Qed.

(* ---------- the invariant ---------- *)

Definition frame_ok (T : Z) (c : list erec) (f : oframe) : Prop :=
  cache_cost (firstn (f_len f) c) = f_deb f /\ (f_len f <= length c)%nat
  /\ bal_total (f_bal f) + f_deb f = T.

(* the frames below [f] were opened when the cache was a prefix of what [f] saved *)
Fixpoint stack_ok (T : Z) (c : list erec) (st : list oframe) : Prop :=
  match st with
  | [] => True
  | f :: r => frame_ok T c f /\ stack_ok T (firstn (f_len f) c) r
  end.

Definition inv (T : Z) (s : ostate) : Prop :=
  cache_cost (o_cache s) = o_deb s /\ bal_total (o_bal s) + o_deb s = T
  /\ stack_ok T (o_cache s) (o_stack s).

Lemma stack_ok_app : forall T st c x, stack_ok T c st -> stack_ok T (c ++ x) st.
Proof.
  induction st as [|f r IH]; intros c x H; cbn [stack_ok] in *.
  - exact I.
  - destruct H as [[Hc [Hl Hb]] Hr]. split.
    + unfold frame_ok. rewrite firstn_app_le by exact Hl. rewrite app_length.
      repeat split; try assumption; lia.
    + rewrite firstn_app_le by exact Hl. exact Hr.
Qed.

Lemma stack_ok_widen : forall T st c n, (n <= length c)%nat -> stack_ok T (firstn n c) st -> stack_ok T c st.
Proof.
  intros T st c n Hn H. rewrite <- (firstn_skipn n c). apply stack_ok_app. exact H.
Qed.

Lemma stack_ok_flag : forall T c f r,
  stack_ok T c (f :: r) ->
  stack_ok T c (mkOframe (f_bal f) (f_deb f) (f_len f) (f_static f) true :: r).
Proof. intros T c f r H. cbn [stack_ok] in *. unfold frame_ok in *. cbn. exact H. Qed.

Lemma inv_fail_top : forall T s, inv T s -> inv T (fail_top s).
Proof.
  intros T s [H1 [H2 H3]]. unfold fail_top. destruct (o_stack s) as [|f r] eqn:E.
  - unfold inv. rewrite E. auto.
  - unfold inv. cbn [o_cache o_deb o_bal o_stack]. split; [exact H1|]. split; [exact H2|].
    apply stack_ok_flag. exact H3.
Qed.

Lemma inv_skip_more : forall T s, inv T s -> inv T (skip_more s).
Proof. intros T s H. unfold inv, skip_more in *. cbn. exact H. Qed.

Lemma inv_step : forall T ptn s e, inv T s -> inv T (ostep true ptn s e).
Proof.
  intros T ptn s e Hinv. destruct e as [k from to v | id sender conv direct v fee gas | ok]; cbn [ostep].
  - (* EEnter *)
    destruct (negb (Nat.eqb (o_skip s) 0) || top_failed s). { apply inv_skip_more. exact Hinv. }
    match goal with |- inv T (if ?c then _ else _) => destruct c end.
    { apply inv_skip_more. apply inv_fail_top. exact Hinv. }
    match goal with |- inv T (if ?c then _ else _) => destruct c end.
    { apply inv_skip_more. exact Hinv. }
    destruct Hinv as [H1 [H2 H3]]. unfold inv. cbn [o_cache o_deb o_bal o_stack].
    split; [exact H1|]. split.
    + match goal with |- bal_total (if ?c then _ else _) + _ = _ => destruct c end.
      * rewrite !bal_total_add. lia.
      * exact H2.
    + cbn [stack_ok]. split.
      * unfold frame_ok. cbn [f_len f_deb f_bal]. rewrite firstn_all. repeat split; auto.
      * cbn [f_len]. rewrite firstn_all. exact H3.
  - (* EEmit *)
    destruct (negb (Nat.eqb (o_skip s) 0) || top_failed s); [exact Hinv|].
    destruct (o_static s). { apply inv_fail_top. exact Hinv. }
    match goal with |- inv T (if ?c then _ else _) => destruct c end; [exact Hinv|].
    match goal with |- inv T (if ?c then _ else _) => destruct c end; [exact Hinv|].
    match goal with |- inv T (if ?c then _ else _) => destruct c end; [exact Hinv|].
    destruct Hinv as [H1 [H2 H3]]. unfold inv. cbn [o_cache o_deb o_bal o_stack].
    split; [|split].
    + rewrite cache_cost_app. cbn [cache_cost fold_right x_value x_fee]. lia.
    + rewrite bal_total_add. lia.
    + apply stack_ok_app. exact H3.
  - (* ELeave *)
    destruct (o_skip s) as [|n] eqn:Es.
    + destruct (o_stack s) as [|f r] eqn:E; [exact Hinv|].
      destruct Hinv as [H1 [H2 H3]]. rewrite E in H3. cbn [stack_ok] in H3.
      destruct H3 as [[Hc [Hl Hb]] Hr].
      destruct (ok && negb (f_failed f)).
      * unfold inv. cbn [o_cache o_deb o_bal o_stack]. repeat split; try assumption.
        apply (stack_ok_widen T r (o_cache s) (f_len f) Hl Hr).
      * unfold inv. cbn [o_cache o_deb o_bal o_stack]. repeat split; assumption.
    + unfold inv in *. cbn [o_cache o_deb o_bal o_stack]. exact Hinv.
Qed.

Lemma inv_run : forall T ptn tr s, inv T s -> inv T (fold_left (ostep true ptn) tr s).
Proof.
  induction tr as [|e tr IH]; intros s H; cbn [fold_left].
  - exact H.
  - apply IH. apply inv_step. exact H.
Qed.

Lemma inv_start : forall b, inv (bal_total b) (ostart b).
Proof.
  intros b. unfold inv, ostart. cbn [o_cache o_deb o_bal o_stack cache_cost fold_right stack_ok].
  split; [reflexivity|]. split; [lia|exact I].
Qed.

(* every ETX left in the cache has been paid for, and nothing else has been taken *)
Lemma origin_debit_is_cache_cost : forall ptn b tr,
  let s := orun true ptn b tr in
  bal_total b - bal_total (o_bal s) = cache_cost (o_cache s).
Proof.
  intros ptn b tr s. pose proof (inv_run (bal_total b) ptn tr (ostart b) (inv_start b)) as [H1 [H2 _]].
  fold (orun true ptn b tr) in H1, H2. fold s in H1, H2. lia.
Qed.

(* values and fees are never negative in a cache: with non-negative requests nobody gains *)
Lemma origin_ghost_is_cache_cost : forall ptn b tr,
  o_deb (orun true ptn b tr) = cache_cost (o_cache (orun true ptn b tr)).
Proof.
  intros ptn b tr. pose proof (inv_run (bal_total b) ptn tr (ostart b) (inv_start b)) as [H1 _].
  unfold orun. symmetry. exact H1.
Qed.

(* ---------- a failed frame leaves no trace: the emission ids of the cache ---------- *)

Definition emit_id (e : event) : list N :=
  match e with EEmit id _ _ _ _ _ _ => [id] | _ => [] end.
Definition emit_ids (tr : list event) : list N := flat_map emit_id tr.
Definition cache_ids (s : ostate) : list N := map x_id (o_cache s).

Lemma firstn_incl : forall (A : Type) n (l : list A), incl (firstn n l) l.
Proof.
  intros A n l. rewrite <- (firstn_skipn n l) at 2. apply incl_appl. apply incl_refl.
Qed.

Lemma NoDup_app_l : forall (A : Type) (a b : list A), NoDup (a ++ b) -> NoDup a.
Proof.
  induction a as [|x a IH]; intros b H; [constructor|].
  cbn [app] in H. inversion H as [|? ? Hn Hd]; subst. constructor.
  - intros Hin. apply Hn. apply in_or_app. left. exact Hin.
  - apply (IH b Hd).
Qed.
Lemma NoDup_app_r : forall (A : Type) (a b : list A), NoDup (a ++ b) -> NoDup b.
Proof.
  induction a as [|x a IH]; intros b H; [exact H|].
  cbn [app] in H. inversion H; subst. apply IH. assumption.
Qed.
Lemma NoDup_app_disj : forall (A : Type) (a b : list A) x, NoDup (a ++ b) -> In x a -> In x b -> False.
Proof.
  induction a as [|y a IH]; intros b x H Ha Hb; [destruct Ha|].
  cbn [app] in H. inversion H as [|? ? Hn Hd]; subst. destruct Ha as [->|Ha].
  - apply Hn. apply in_or_app. right. exact Hb.
  - apply (IH b x Hd Ha Hb).
Qed.
Lemma NoDup_snoc : forall (A : Type) (l : list A) x, NoDup l -> ~ In x l -> NoDup (l ++ [x]).
Proof.
  induction l as [|y l IH]; intros x H Hn; cbn [app].
  - constructor; [intros []|constructor].
  - inversion H as [|? ? Hy Hd]; subst. constructor.
    + intros Hin. apply in_app_or in Hin. destruct Hin as [Hin|[->|[]]].
      * apply Hy. exact Hin.
      * apply Hn. left. reflexivity.
    + apply IH; [exact Hd|]. intros Hin. apply Hn. right. exact Hin.
Qed.

Lemma NoDup_firstn : forall (A : Type) n (l : list A), NoDup l -> NoDup (firstn n l).
Proof.
  intros A n l H. rewrite <- (firstn_skipn n l) in H. apply NoDup_app_l in H. exact H.
Qed.

Lemma step_ids : forall sc ptn s e,
  NoDup (cache_ids s) -> (forall i, In i (emit_id e) -> ~ In i (cache_ids s)) ->
  NoDup (cache_ids (ostep sc ptn s e)) /\ incl (cache_ids (ostep sc ptn s e)) (cache_ids s ++ emit_id e).
Proof.
  intros sc ptn s e Hnd Hfresh.
  assert (Hsame : forall s', o_cache s' = o_cache s ->
            NoDup (cache_ids s') /\ incl (cache_ids s') (cache_ids s ++ emit_id e)).
  { intros s' E. unfold cache_ids. rewrite E. split; [exact Hnd|]. apply incl_appl. apply incl_refl. }
  destruct e as [k from to v | id sender conv direct v fee gas | ok]; cbn [ostep].
  - destruct (negb (Nat.eqb (o_skip s) 0) || top_failed s). { apply Hsame. reflexivity. }
    match goal with |- context [if ?c then skip_more (fail_top s) else _] => destruct c end.
    { apply Hsame. unfold skip_more, fail_top. destruct (o_stack s); reflexivity. }
    match goal with |- context [if ?c then skip_more s else _] => destruct c end.
    { apply Hsame. reflexivity. }
    apply Hsame. reflexivity.
  - destruct (negb (Nat.eqb (o_skip s) 0) || top_failed s). { apply Hsame. reflexivity. }
    destruct (o_static s). { apply Hsame. unfold fail_top. destruct (o_stack s); reflexivity. }
    match goal with |- context [if ?c then s else _] => destruct c end. { apply Hsame. reflexivity. }
    match goal with |- context [if ?c then s else _] => destruct c end. { apply Hsame. reflexivity. }
    match goal with |- context [if ?c then s else _] => destruct c end. { apply Hsame. reflexivity. }
    unfold cache_ids. cbn [o_cache emit_id]. rewrite map_app. cbn [map x_id]. split.
    + apply NoDup_snoc; [exact Hnd|]. apply Hfresh. cbn. auto.
    + apply incl_refl.
  - destruct (o_skip s). 2:{ apply Hsame. reflexivity. }
    destruct (o_stack s) as [|f r]. { apply Hsame. reflexivity. }
    destruct (ok && negb (f_failed f)). { apply Hsame. reflexivity. }
    unfold cache_ids. cbn [o_cache emit_id]. rewrite app_nil_r. destruct sc.
    + rewrite <- firstn_map. split.
      * apply NoDup_firstn. exact Hnd.
      * apply firstn_incl.
    + split; [exact Hnd|apply incl_refl].
Qed.

Lemma run_ids : forall sc ptn tr s,
  NoDup (cache_ids s) -> NoDup (emit_ids tr) ->
  (forall i, In i (emit_ids tr) -> ~ In i (cache_ids s)) ->
  NoDup (cache_ids (fold_left (ostep sc ptn) tr s)).
Proof.
  induction tr as [|e tr IH]; intros s Hnd Htr Hfresh; cbn [fold_left].
  - exact Hnd.
  - unfold emit_ids in Htr, Hfresh. cbn [flat_map] in Htr, Hfresh. fold (emit_ids tr) in Htr, Hfresh.
    destruct (step_ids sc ptn s e Hnd) as [Hnd' Hincl].
    { intros i Hi. apply Hfresh. apply in_or_app. left. exact Hi. }
    apply IH.
    + exact Hnd'.
    + apply NoDup_app_r in Htr. exact Htr.
    + intros i Hi Hin. apply Hincl in Hin. apply in_app_or in Hin. destruct Hin as [Hin|Hin].
      * apply (Hfresh i); [apply in_or_app; right; exact Hi|exact Hin].
      * (* i is the id of e and also emitted later: contradicts NoDup *)
        exact (NoDup_app_disj _ _ _ i Htr Hin Hi).
Qed.

(* an emission is in the cache at most once *)
Lemma origin_emitted_at_most_once : forall sc ptn b tr,
  NoDup (emit_ids tr) -> NoDup (cache_ids (orun sc ptn b tr)).
Proof.
  intros sc ptn b tr H. unfold orun. apply run_ids.
  - cbn. constructor.
  - exact H.
  - intros i _ Hin. cbn in Hin. exact Hin.
Qed.

(* ---------- why the cache length must be in the snapshot ---------- *)

(* a frame entered by DELEGATECALL converts and reverts, its caller ends normally *)
Definition witness_trace : list event :=
  [EEnter KCall 0%N 1%N 0;
   EEnter KDelegate 1%N 1%N 0;
   EEmit 7%N 1%N true false (5 * min_quai_conversion_amount) 63000 21000;
   ELeave false;
   EEmit 8%N 1%N true false (2 * min_quai_conversion_amount) 63000 21000;
   ELeave true].
Definition witness_bals : bals := [(0%N, 0); (1%N, 100 * min_quai_conversion_amount)].
Definition witness_ptn : Z := 2100000.

Lemma state_only_snapshot_refuted :
  let s := orun false witness_ptn witness_bals witness_trace in
  bal_total witness_bals - bal_total (o_bal s) < cache_cost (o_cache s)
  /\ map x_id (o_cache s) = [7%N; 8%N].
Proof. vm_compute. split; reflexivity. Qed.

Lemma full_snapshot_witness :
  let s := orun true witness_ptn witness_bals witness_trace in
  map x_id (o_cache s) = [8%N] /\ cache_cost (o_cache s) = 2 * min_quai_conversion_amount + 63000
  /\ o_stack s = [] /\ o_skip s = 0%nat.
Proof. vm_compute. repeat split; reflexivity. Qed.

(* generated inventory of core/vm/evm.go: every method of *EVM that runs a frame takes the full
   snapshot once, rolls back only through revertToSnapshot, and never touches the StateDB revision
   alone; snapshot()/revertToSnapshot() cover the cache *)
Definition site_ok (s : String.string * bool * Z * Z * Z * Z) : bool :=
  let '(_, runs, fs, fr, rs, rr) := s in
  (rs =? 0) && (rr =? 0) && (if runs then (fs =? 1) && (1 <=? fr) else true).
Definition sites_cover (names : list String.string) : bool :=
  forallb (fun n => existsb (fun s => let '(m, runs, _, _, _, _) := s in String.eqb n m && runs) evm_frame_sites) names.

Module OriginSites.
  Import String.
  Definition frame_methods : list string :=
    ["Call"%string; "CallCode"%string; "DelegateCall"%string; "StaticCall"%string; "create"%string].
End OriginSites.
Definition evm_sites_ok : bool :=
  forallb site_ok evm_frame_sites && sites_cover OriginSites.frame_methods && evm_snapshot_covers_etx_cache.
Lemma evm_sites_ok_true : evm_sites_ok = true.
Proof. vm_compute. reflexivity. Qed.

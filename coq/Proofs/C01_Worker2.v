(* C01 -- worker accepted  ==>  processor accepts (continued): input loops, one step, a block. *)
From Coq Require Import List NArith Bool Lia ZifyBool ZifyN.
From GQ Require Import Lib.Key Lib.SMap Generated.C01Params Model.C01 Proofs.C01_View Proofs.C01_Sim
     Proofs.C01_Steps Proofs.C01_Ledger Proofs.C01_Worker.
Import ListNotations.
Local Open Scope N_scope.

Lemma amem_false a l : amem a l = false -> ~ In a l.
Proof.
  unfold amem. intros H Hin. assert (existsb (keqb a) l = true) as Ht.
  { apply existsb_exists. exists a. split; [exact Hin|apply keqb_refl]. }
  congruence.
Qed.

(* what the pool (ValidateQiTxInputs) has established for every transaction handed to the worker *)
Definition pool_ok (c : ctx) (l : ledger) (t : tx) : Prop :=
  Forall (fun i => validate_in_step c l i = true) (t_ins t).
(* tx.Hash() is new: no record of the database sits at an outpoint this transaction would create *)
Definition fresh (l : ledger) (t : tx) : Prop := forall i, get (outkey (t_hash t) i) l = None.
(* the signature is not re-checked (pool hit) or it is valid *)
Definition sig_fine (t : tx) : Prop :=
  t_checksig t = false \/ (t_sigok t = true /\ Forall (fun i => i_pkparse i = true) (t_ins t)).

Definition store_inv (l : ledger) (deleted : list key) (s : ledger) : Prop :=
  sorted s /\ forall k u, get k l = Some u -> ~ In k deleted -> get k s = Some u.

Lemma w_in_loop_proc c l gpw cs gp ins : forall deleted wa deleted' wa' (ia : iacc (S:=ledger)),
  w_in_loop c l gpw deleted wa ins = (deleted', Ok wa') ->
  store_inv l deleted (ia_store ia) ->
  Forall (fun i => validate_in_step c l i = true) ins ->
  (cs = true -> Forall (fun i => i_pkparse i = true) ins) ->
  ia_addrs ia = wi_addrs wa -> ia_total ia = wi_total wa -> ia_dens ia = wi_dens wa -> ia_spent ia = wi_spent wa ->
  exists ia', in_loop ledger_store c cs gp ia ins = Ok ia'
    /\ store_inv l deleted' (ia_store ia')
    /\ ia_addrs ia' = wi_addrs wa' /\ ia_total ia' = wi_total wa' /\ ia_dens ia' = wi_dens wa' /\ ia_spent ia' = wi_spent wa'
    /\ incl deleted deleted'.
Proof.
  induction ins as [|i r IH]; intros deleted wa deleted' wa' ia H Hinv Hpool Hparse Ha Ht Hd Hs; cbn [w_in_loop in_loop] in *.
  - inversion H; subst. exists ia. repeat split; auto using incl_refl; apply Hinv.
  - inversion Hpool as [|? ? Hp Hpool']; subst. unfold validate_in_step in Hp.
    destruct (get (i_op i) l) as [u|] eqn:G; [|discriminate].
    destruct (c_height c <? u_lock u) eqn:E1; [cbn in Hp; discriminate|].
    destruct (max_denomination <? u_den u) eqn:E2; [rewrite !andb_false_r in Hp; discriminate|].
    destruct (is_qi (u_owner u)) eqn:E3; cbn [negb] in H; [|inversion H].
    destruct (amem (i_op i) deleted) eqn:E4; [inversion H|].
    cbn [negb andb] in Hp. apply andb_prop in Hp as (Hp & _). apply andb_prop in Hp as (Hq & Hk).
    destruct Hinv as (Ssorted & Hget).
    assert (get (i_op i) (ia_store ia) = Some u) as G' by (apply Hget; [exact G|apply amem_false; exact E4]).
    unfold in_step. cbn [st_get st_del ledger_store]. rewrite G', E1, Hq, Hk, E2. cbn [negb].
    assert (cs && negb (i_pkparse i) = false) as ->.
    { destruct cs; [|reflexivity]. specialize (Hparse eq_refl). inversion Hparse; subst.
      match goal with Hx : i_pkparse i = true |- _ => rewrite Hx end. reflexivity. }
    assert (store_inv l (i_op i :: deleted) (del (i_op i) (ia_store ia))) as Hinv'.
    { split; [apply del_sorted; exact Ssorted|].
      intros k u0 Hk0 Hnin. rewrite get_del_other; [apply Hget; [exact Hk0|]|exact Ssorted|].
      - intros Hin. apply Hnin. right; exact Hin.
      - intros ->. apply Hnin. left; reflexivity. }
    assert (cs = true -> Forall (fun i => i_pkparse i = true) r) as Hparse'.
    { intros Hc. specialize (Hparse Hc). inversion Hparse; assumption. }
    destruct (IH _ _ _ _ (mkIA (del (i_op i) (ia_store ia)) (u_owner u :: ia_addrs ia) (ia_total ia + den_value (u_den u))
                               (u_den u :: ia_dens ia) (ia_spent ia ++ [(i_op i, u)]))
                 H Hinv' Hpool' Hparse'
                 ltac:(cbn [ia_addrs wi_addrs]; rewrite Ha; reflexivity)
                 ltac:(cbn [ia_total wi_total]; rewrite Ht; reflexivity)
                 ltac:(cbn [ia_dens wi_dens]; rewrite Hd; reflexivity)
                 ltac:(cbn [ia_spent wi_spent]; rewrite Hs; reflexivity))
      as (ia' & H1 & H2 & H3 & H4 & H5 & H6 & H7).
    exists ia'. repeat split; auto; try apply H2.
    intros k Hin. apply H7. right; exact Hin.
Qed.

(* a failing worker input loop only grows the deleted set *)
Lemma w_in_loop_incl c l gpw ins : forall deleted wa deleted' r,
  w_in_loop c l gpw deleted wa ins = (deleted', r) -> incl deleted deleted' /\ (forall e g, r = Err e g -> g = gpw).
Proof.
  induction ins as [|i rr IH]; intros deleted wa deleted' r H; cbn [w_in_loop] in H.
  - inversion H; subst. split; [apply incl_refl|discriminate].
  - destruct (get (i_op i) l) as [u|]; [|inversion H; subst; split; [apply incl_refl|intros ? ? Hx; inversion Hx; reflexivity]].
    destruct (c_height c <? u_lock u); [inversion H; subst; split; [apply incl_refl|intros ? ? Hx; inversion Hx; reflexivity]|].
    destruct (max_denomination <? u_den u); [inversion H; subst; split; [apply incl_refl|intros ? ? Hx; inversion Hx; reflexivity]|].
    destruct (negb (is_qi (u_owner u))); [inversion H; subst; split; [apply incl_refl|intros ? ? Hx; inversion Hx; reflexivity]|].
    destruct (amem (i_op i) deleted); [inversion H; subst; split; [apply incl_refl|intros ? ? Hx; inversion Hx; reflexivity]|].
    apply IH in H as (H1 & H2). split; [|exact H2]. intros k Hin. apply H1. right; exact Hin.
Qed.

Lemma put_all_get_other cs : forall (s : ledger) k, (forall kv, In kv cs -> fst kv <> k) ->
  get k (put_all ledger_store s cs) = get k s.
Proof.
  unfold put_all. induction cs as [|[k0 u0] cs IH]; intros s k H; cbn [fold_left]; [reflexivity|].
  rewrite IH by (intros kv Hin; apply H; right; exact Hin).
  cbn [st_put ledger_store fst snd]. apply get_put_other. intros ->. apply (H (k0, u0)); [left; reflexivity|reflexivity].
Qed.

Lemma put_all_sorted cs : forall s : ledger, sorted s -> sorted (put_all ledger_store s cs).
Proof.
  unfold put_all. induction cs as [|[k0 u0] cs IH]; intros s S; cbn [fold_left]; [exact S|].
  apply IH. cbn [st_put ledger_store fst snd]. apply put_sorted; exact S.
Qed.

(* relation between the worker's environment and the processor's block state *)
Definition winv (l : ledger) (e : wenv) (b : bst (S:=ledger)) (first_w : bool) : Prop :=
  w_gp e <= b_gp b /\ w_used e = b_used b /\ w_rlim e = b_rlim b /\ w_plim e = b_plim b
  /\ (first_w = true -> b_first b = true)
  /\ store_inv l (w_deleted e) (b_store b).

Definition res_agree (wr r : txres) : Prop :=
  r_fee wr = r_fee r /\ r_etxs wr = r_etxs r /\ r_spent wr = r_spent r /\ r_created wr = r_created r.

Lemma worker_qi_accept c l first e t e' wr b :
  worker_qi c l first e t = (e', Ok wr) -> winv l e b first ->
  pool_ok c l t -> fresh l t -> sig_fine t ->
  exists b' r, process_qi ledger_store c b t = Ok (b', r) /\ res_agree wr r /\ winv l e' b' false.
Proof.
  intros H (Hgp & Hused & Hrl & Hpl & Hfirst & Hstore) Hpool Hfresh Hsig.
  unfold worker_qi in H. unfold process_qi.
  destruct (sanity t) eqn:Es; [inversion H|].
  destruct (w_gp e <? t_intrinsic t) eqn:Eg; [inversion H|].
  assert (b_gp b <? t_intrinsic t = false) as -> by lia.
  cbv zeta in H.
  destruct (w_in_loop c l (w_gp e - t_intrinsic t) (w_deleted e) (mkWI [] 0 [] []) (t_ins t)) as [deleted [wa|]] eqn:Ei; [|inversion H].
  destruct (post_inputs true c (w_rlim e) (w_plim e) t (w_gp e - t_intrinsic t) (w_used e + t_intrinsic t) (wi_addrs wa) (wi_total wa))
    as [p|] eqn:Ep; [|inversion H].
  destruct (c_gaslimit c <? p_used p) eqn:El; [inversion H|].
  destruct (negb first && negb (check_denominations (wi_dens wa) (p_outdens p))) eqn:Ed; [inversion H|].
  inversion H; subst e' wr; clear H.
  (* gas limit: the processor tests only the intrinsic part *)
  pose proof (post_inputs_inv _ _ _ _ _ _ _ _ _ _ Ep) as (a & Hloop & _ & _ & Hcr & _ & _ & _ & _ & _ & _ & _ & Hcases).
  pose proof (out_loop_measure _ _ _ _ _ _ _ _ Hloop) as (_ & _ & Hg1 & Hg2 & Hidx & _).
  pose proof (out_loop_creates _ _ _ _ _ _ _ _ Hloop) as (cs & Hcs & Hcb).
  unfold oa0 in *. cbn [oa_gp oa_used oa_creates oa_idx app] in *.
  assert (p_used p >= w_used e + t_intrinsic t) as Hpu.
  { destruct Hcases as [(_ & _ & _ & Hx & Hy & _)|(_ & _ & Hz & Hx & Hy & _)]; lia. }
  assert (c_gaslimit c <? b_used b + t_intrinsic t = false) as -> by lia.
  (* inputs *)
  assert (t_checksig t = true -> Forall (fun i => i_pkparse i = true) (t_ins t)) as Hparse.
  { intros Hc. destruct Hsig as [Hs|(_ & Hs)]; [congruence|exact Hs]. }
  destruct (w_in_loop_proc c l _ (t_checksig t) (b_gp b - t_intrinsic t) (t_ins t) _ _ _ _
              (mkIA (b_store b) [] 0 [] []) Ei Hstore Hpool Hparse eq_refl eq_refl eq_refl eq_refl)
    as (ia & Hin & Hst' & Ha & Ht & Hd & Hs & Hincl).
  rewrite Hin, Ha, Ht, Hd, <- Hrl, <- Hpl, <- Hused.
  (* outputs and fee: same accumulator, larger pool *)
  destruct (post_inputs_worker_proc _ _ _ _ _ _ _ _ _ Ep (b_gp b - t_intrinsic t) ltac:(lia)) as (g' & Epp & Hg').
  rewrite Epp. unfold set_pgp. cbn [p_fee p_etxs p_creates p_gp p_used p_rgas p_pgas p_outdens].
  assert (negb (b_first b) && negb (check_denominations (wi_dens wa) (p_outdens p)) = false) as ->.
  { destruct first; cbn [negb andb] in Ed.
    - rewrite (Hfirst eq_refl). reflexivity.
    - rewrite Ed. apply andb_false_r. }
  assert (t_checksig t && negb (t_sigok t) = false) as ->.
  { destruct Hsig as [->|(-> & _)]; [reflexivity|apply andb_false_r]. }
  eexists; eexists. split; [reflexivity|]. split.
  - unfold res_agree; cbn [r_fee r_etxs r_spent r_created]. auto.
  - unfold winv; cbn [w_gp w_used w_rlim w_plim w_deleted b_gp b_used b_rlim b_plim b_first b_store].
    repeat split; auto; try lia; try discriminate.
    + apply put_all_sorted. apply Hst'.
    + intros k u Hk Hnin. rewrite put_all_get_other; [apply Hst'; assumption|].
      intros kv Hinkv Heq. rewrite Hcr, Hcs in Hinkv.
      rewrite Forall_forall in Hcb. destruct (Hcb kv Hinkv) as (i & _ & Hki & _).
      specialize (Hfresh i). rewrite <- Hki, Heq in Hfresh. congruence.
Qed.

Lemma worker_qi_reject c l first e t e' err g b first' :
  worker_qi c l first e t = (e', Err err g) -> winv l e b first ->
  (first' = true -> first = true) -> winv l e' b first'.
Proof.
  intros H (Hgp & Hused & Hrl & Hpl & Hfirst & Hsorted & Hget) Hf.
  unfold worker_qi in H.
  destruct (sanity t) eqn:Es; [inversion H; subst; unfold winv, store_inv; repeat split; auto|].
  destruct (w_gp e <? t_intrinsic t) eqn:Eg; [inversion H; subst; unfold winv, store_inv; repeat split; auto|].
  cbv zeta in H.
  destruct (w_in_loop c l (w_gp e - t_intrinsic t) (w_deleted e) (mkWI [] 0 [] []) (t_ins t)) as [deleted r] eqn:Ei.
  pose proof (w_in_loop_incl _ _ _ _ _ _ _ _ Ei) as (Hincl & Herr).
  assert (forall gnew, gnew <= w_gp e ->
            winv l (mkW deleted gnew (w_used e) (w_rlim e) (w_plim e)) b first') as Hgen.
  { intros gnew Hle. unfold winv, store_inv; cbn [w_gp w_used w_rlim w_plim w_deleted]. repeat split; auto; try lia;
      try (intros k u Hk Hnin; apply Hget; [exact Hk|]; intros Hin; apply Hnin; apply Hincl; exact Hin). }
  destruct r as [wa|e1 g1].
  - destruct (post_inputs true c (w_rlim e) (w_plim e) t (w_gp e - t_intrinsic t) (w_used e + t_intrinsic t) (wi_addrs wa) (wi_total wa))
      as [p|e2 g2] eqn:Ep.
    + pose proof (post_inputs_inv _ _ _ _ _ _ _ _ _ _ Ep) as (a & Hloop & _ & _ & _ & _ & _ & _ & _ & _ & _ & _ & Hcases).
      pose proof (out_loop_measure _ _ _ _ _ _ _ _ Hloop) as (_ & _ & Hg1 & _).
      unfold oa0 in Hg1. cbn [oa_gp] in Hg1.
      assert (p_gp p <= w_gp e) as Hpg.
      { destruct Hcases as [(_ & _ & _ & Hx & _)|(_ & _ & _ & Hx & _)]; lia. }
      destruct (c_gaslimit c <? p_used p); [inversion H; subst; apply Hgen; exact Hpg|].
      destruct (negb first && negb (check_denominations (wi_dens wa) (p_outdens p))); [inversion H; subst; apply Hgen; exact Hpg|].
      inversion H.
    + apply post_inputs_err_gp in Ep. inversion H; subst. apply Hgen. lia.
  - specialize (Herr _ _ eq_refl). inversion H; subst. apply Hgen. lia.
Qed.

Fixpoint somes {A} (l : list (option A)) : list A :=
  match l with
  | [] => []
  | Some x :: r => x :: somes r
  | None :: r => somes r
  end.

Lemma worker_txs_proc c l txs : forall first e (b : bst (S:=ledger)),
  winv l e b first ->
  Forall (fun t => pool_ok c l t /\ fresh l t /\ sig_fine t) txs ->
  exists rs b', run_txs ledger_store c b (accepted_txs txs (fst (worker_txs c l first e txs))) = (rs, Some b')
    /\ Forall2 res_agree (somes (fst (worker_txs c l first e txs))) rs.
Proof.
  induction txs as [|t r IH]; intros first e b Hinv Hall; cbn [worker_txs].
  - cbn. exists [], b. split; [reflexivity|constructor].
  - inversion Hall as [|? ? (Hp & Hf & Hs) Hall']; subst.
    destruct (worker_qi c l first e t) as [e' [wr|err g]] eqn:E.
    + destruct (worker_qi_accept _ _ _ _ _ _ _ _ E Hinv Hp Hf Hs) as (b1 & r1 & E1 & Hagree & Hinv1).
      destruct (IH false e' b1 Hinv1 Hall') as (rs & b' & Hrun & Hres).
      destruct (worker_txs c l false e' r) as [vs ef] eqn:Ew. cbn [fst] in *.
      cbn [accepted_txs somes run_txs]. rewrite E1, Hrun.
      exists (r1 :: rs), b'. split; [reflexivity|constructor; assumption].
    + assert (winv l e' b (if w_retry err then first else false)) as Hinv1.
      { eapply worker_qi_reject; [exact E|exact Hinv|]. destruct (w_retry err); [auto|discriminate]. }
      destruct (IH _ e' b Hinv1 Hall') as (rs & b' & Hrun & Hres).
      destruct (worker_txs c l (if w_retry err then first else false) e' r) as [vs ef] eqn:Ew. cbn [fst] in *.
      cbn [accepted_txs somes]. exists rs, b'. split; assumption.
Qed.

Lemma init_winv c (l : ledger) : sorted l -> winv l (init_wenv c) (init_bst c l) true.
Proof.
  intros S. unfold winv, init_wenv, init_bst, store_inv;
    cbn [w_gp w_used w_rlim w_plim w_deleted b_gp b_used b_rlim b_plim b_first b_store].
  repeat split; auto; lia.
Qed.

(* C20 -- the last conversion accepted by pass one keeps its slip bound (lemmas for Props/C20.v). *)
From Coq Require Import List ZArith NArith Bool Lia Permutation.
From GQ Require Import Generated.C20Params Model.C20 Proofs.C20.
Import ListNotations.
Local Open Scope Z_scope.

(* ---------- the last conversion accepted by pass one keeps its slip bound ---------- *)

Lemma mapM_app_inv : forall (A B : Type) (f : A -> option B) l a y b,
  mapM f l = Some (a ++ y :: b) ->
  exists la x lb, l = la ++ x :: lb /\ mapM f la = Some a /\ f x = Some y /\ mapM f lb = Some b.
Proof.
  intros A B f l a. revert l. induction a as [|a0 a IH]; intros l y b H.
  - destruct l as [|x l]; simpl in H; [discriminate|].
    destruct (f x) as [y0|] eqn:Hf; [|discriminate].
    destruct (mapM f l) as [r0|] eqn:Hr; [|discriminate].
    inversion H; subst. exists [], x, l. repeat split; assumption.
  - destruct l as [|x l]; simpl in H; [discriminate|].
    destruct (f x) as [y0|] eqn:Hf; [|discriminate].
    destruct (mapM f l) as [r0|] eqn:Hr; [|discriminate].
    inversion H; subst. destruct (IH l y b Hr) as (la & x' & lb & E & Ha & Hx & Hb).
    exists (x :: la), x', lb. subst l. repeat split; try assumption.
    simpl. rewrite Hf, Ha. reflexivity.
Qed.

Section Last.
  Variable disc : Z -> Z -> Z.

  Lemma p1_step_amount : forall h acc e acc' s,
    0 <= e_value e -> p1_step disc h acc e = Some (acc', s) -> acc' = acc + amount_of h s.
  Proof.
    intros h acc e acc' s Hv H. unfold p1_step in H. unfold amount_of.
    destruct (e_conv e && (0 <? e_value e)) eqn:Hc.
    - apply andb_prop in Hc. destruct Hc as [Hc1 Hc2]. apply Z.ltb_lt in Hc2.
      destruct (_ =? 0); [discriminate|].
      destruct (_ <? after_slip e); inversion H; subst; simpl; rewrite Hc1; simpl.
      + lia.
      + destruct (Z.eqb_spec (e_value e) 0); [lia|]. simpl. destruct (e_toqi e); lia.
    - inversion H; subst; simpl.
      apply andb_false_iff in Hc. destruct Hc as [Hc|Hc]; [rewrite Hc; simpl; lia|].
      apply Z.ltb_ge in Hc. assert (e_value e = 0) by lia.
      destruct (e_conv e); simpl; [|lia]. rewrite H0. simpl. lia.
  Qed.

  (* pass one over a split list: the accumulator that reaches the middle element, and after it *)
  Lemma pass1_app_inv : forall h la e lb acc r,
    Forall (fun e => 0 <= e_value e) (la ++ e :: lb) ->
    pass1 disc h acc (la ++ e :: lb) = Some r ->
    exists ra s rb acc',
      r = ra ++ s :: rb /\ length ra = length la /\
      p1_step disc h (acc + actual_amount h ra) e = Some (acc', s) /\
      pass1 disc h acc' lb = Some rb.
  Proof.
    induction la as [|x la IH]; intros e lb acc r Hv H; simpl in H.
    - destruct (p1_step disc h acc e) as [[acc' s]|] eqn:Hs; [|discriminate].
      destruct (pass1 disc h acc' lb) as [rb|] eqn:Hr; [|discriminate].
      inversion H; subst. exists [], s, rb, acc'. simpl. rewrite Z.add_0_r. repeat split; assumption.
    - inversion Hv as [|? ? Hx Hv']; subst.
      destruct (p1_step disc h acc x) as [[acc1 s1]|] eqn:Hs; [|discriminate].
      destruct (pass1 disc h acc1 (la ++ e :: lb)) as [r1|] eqn:Hr; [|discriminate].
      inversion H; subst.
      destruct (IH e lb acc1 r1 Hv' Hr) as (ra & s & rb & acc' & E & Hlen & Hstep & Hrest).
      exists (s1 :: ra), s, rb, acc'. subst r1. simpl. repeat split; try assumption; [lia|].
      rewrite (p1_step_amount h acc x acc1 s1 Hx Hs) in Hstep.
      unfold actual_amount in *. simpl. rewrite <- Z.add_assoc in Hstep. exact Hstep.
  Qed.

  Lemma pass1_total : forall h l acc r,
    Forall (fun e => 0 <= e_value e) l -> pass1 disc h acc l = Some r ->
    forall P : Prop, (forall s, In s r -> amount_of h s = 0) -> actual_amount h r = 0.
  Proof.
    intros h l acc r _ _ P Hz. induction r as [|s r IH]; [reflexivity|].
    unfold actual_amount in *. simpl. rewrite (Hz s (or_introl eq_refl)).
    rewrite IH; [lia|]. intros s' Hs'. apply Hz. right; assumption.
  Qed.

  Lemma actual_amount_app : forall h a b, actual_amount h (a ++ b) = actual_amount h a + actual_amount h b.
  Proof. intros h a b. induction a as [|s a IH]; simpl; [reflexivity|]. unfold actual_amount in *. simpl. rewrite IH. lia. Qed.

  Lemma app_inv_length : forall (A : Type) (a a' : list A) x x' b b',
    a ++ x :: b = a' ++ x' :: b' -> length a = length a' -> a = a' /\ x = x' /\ b = b'.
  Proof.
    induction a as [|y a IH]; intros a' x x' b b' E L; destruct a' as [|y' a']; simpl in *; try discriminate.
    - inversion E; subst. repeat split.
    - inversion E; subst. destruct (IH a' x x' b b' H1 ltac:(lia)) as (-> & -> & ->). repeat split.
  Qed.

  Lemma mapM_forward : forall (A B : Type) (f : A -> option B) l r x,
    mapM f l = Some r -> In x l -> exists y, In y r /\ f x = Some y.
  Proof.
    induction l as [|x0 l IH]; intros r x H Hin; [contradiction|]. simpl in H.
    destruct (f x0) as [y0|] eqn:Hf; [|discriminate].
    destruct (mapM f l) as [r0|] eqn:Hr; [|discriminate].
    inversion H; subst. destruct Hin as [<-|Hin].
    - exists y0. split; [left; reflexivity|assumption].
    - destruct (IH r0 x eq_refl Hin) as (y & Hy & Hfy). exists y. split; [right|]; assumption.
  Qed.

  Lemma p2_entry_ts : forall h actual d2 s t, p2_entry h actual d2 s = Some t -> t_s t = s.
  Proof.
    intros h actual d2 s t Hp. unfold p2_entry in Hp. destruct (e_conv (s_e s) && (0 <? s_val s)).
    - destruct (s_orig s); [|discriminate]. destruct (_ =? 0); [discriminate|].
      destruct (e_toqi (s_e s)); inversion Hp; reflexivity.
    - inversion Hp; reflexivity.
  Qed.

  Lemma p3_entry_fields : forall h knew t o, p3_entry h knew t = Some o ->
    o_e o = s_e (t_s t) /\ (e_conv (s_e (t_s t)) = true -> o_p1 o = s_p1 (t_s t)).
  Proof.
    intros h knew t o Hp. unfold p3_entry in Hp. destruct (e_conv (s_e (t_s t))).
    - destruct (t_val t <? 0); [inversion Hp; split; reflexivity|]. destruct (t_val t =? 0).
      + destruct (s_orig (t_s t)); inversion Hp; split; reflexivity.
      + destruct (t_before t); inversion Hp; split; reflexivity.
    - inversion Hp; split; [reflexivity|discriminate].
  Qed.

  (* an accepted conversion: new accumulator and pass-one value as functions of the tested amount *)
  Lemma p1_step_accepted : forall h acc e acc' s,
    p1_step disc h acc e = Some (acc', s) -> e_conv e = true -> 0 < e_value e -> s_val s = e_value e ->
    let temp := if e_toqi e then acc + e_value e else acc + qi_to_quai (ra h) (rb h) (e_value e) in
    acc' = temp /\
    s_p1 s = floor10 (e_value e)
               (apply_kq h (e_toqi e) (disc_at disc h temp) (kq_of h (disc_at disc h temp))
                         (e_value e * disc_at disc h temp / temp)).
  Proof.
    intros h acc e acc' s H Hc Hpos Hval. unfold p1_step in H. rewrite Hc in H.
    destruct (Z.ltb_spec 0 (e_value e)) as [_|]; [|lia]. simpl in H.
    destruct (_ =? 0); [discriminate|].
    destruct (_ <? after_slip e); inversion H; subst; simpl in *; [lia|]. split; reflexivity.
  Qed.

  Theorem last_accepted_keeps_slip : forall h knew etxs r pre o post,
    inputs_ok h knew etxs -> reprice disc h knew etxs = Some r ->
    r_out r = pre ++ o :: post -> o_kind o = KConverted ->
    (forall o', In o' post -> e_conv (o_e o') = true -> 0 < e_value (o_e o') -> o_p1 o' < after_slip (o_e o')) ->
    o_before o = o_p1 o /\ after_slip (o_e o) <= o_before o.
  Proof.
    intros h knew etxs r pre o post (Hr & Hk & Hv) H Hsplit Hkind Hpost.
    pose proof H as H'. unfold reprice in H'.
    destruct (pass1 disc h 0 (sort_desc etxs)) as [l1|] eqn:H1; [|discriminate].
    destruct (mapM _ l1) as [l2|] eqn:H2; [|discriminate].
    destruct (mapM _ l2) as [l3|] eqn:H3; [|discriminate].
    inversion H'; subst r; clear H'. simpl in Hsplit. subst l3. simpl in *.
    set (actual := actual_amount h l1) in *.
    destruct (mapM_app_inv _ _ _ _ _ _ _ H3) as (l2a & t & l2b & E2 & H3a & Hp3 & H3b). subst l2.
    destruct (mapM_app_inv _ _ _ _ _ _ _ H2) as (l1a & s & l1b & E1 & H2a & Hp2 & H2b). subst l1.
    assert (Hv' : Forall (fun e => 0 <= e_value e) (sort_desc etxs)).
    { apply Forall_forall. intros e He. rewrite Forall_forall in Hv. apply Hv.
      eapply Permutation_in; [apply sort_desc_perm|exact He]. }
    pose proof (pass1_map disc h _ 0 _ H1) as Hmap. rewrite map_app in Hmap. simpl in Hmap.
    rewrite <- Hmap in H1, Hv'.
    destruct (pass1_app_inv h _ _ _ 0 _ Hv' H1) as (ra & s' & rb & acc' & Er & Hlen & Hstep & Hrest).
    rewrite map_length in Hlen.
    destruct (app_inv_length _ _ _ _ _ _ _ Er (eq_sym Hlen)) as (<- & <- & <-).
    simpl in Hstep.
    (* the entries after s contribute nothing *)
    assert (Hvb : Forall (fun e => 0 <= e_value e) (map s_e l1b)).
    { apply Forall_app in Hv'. destruct Hv' as (_ & Hv'). inversion Hv'; assumption. }
    assert (Hacc' : 0 <= acc').
    { eapply p1_step_acc; [exact Hr| |idtac|exact Hstep].
      - apply Forall_app in Hv'. destruct Hv' as (_ & Hv'). inversion Hv'; assumption.
      - apply actual_amount_nonneg; [assumption|]. intros s0 Hs0.
        destruct (pass1_In disc h _ 0 (l1a ++ s :: l1b) s0 Hr Hv' ltac:(lia) H1 ltac:(apply in_or_app; left; exact Hs0)) as (b0 & b1 & _ & Hse & Hp1).
        rewrite Forall_forall in Hv'.
        destruct (p1_step_facts disc h b0 (s_e s0) b1 s0 (Hv' _ Hse) Hp1) as (_ & Hnn & _). exact Hnn. }
    assert (Hzero : actual_amount h l1b = 0).
    { apply (pass1_total h (map s_e l1b) acc' l1b Hvb Hrest True).
      intros s0 Hs0.
      destruct (pass1_In disc h _ acc' l1b s0 Hr Hvb Hacc' Hrest Hs0) as (b0 & b1 & _ & Hse & Hp1).
      assert (Hv0 : 0 <= e_value (s_e s0)) by (rewrite Forall_forall in Hvb; apply Hvb; exact Hse).
      destruct (p1_step_facts disc h b0 (s_e s0) b1 s0 Hv0 Hp1) as (_ & _ & Hcases).
      unfold amount_of.
      destruct Hcases as [(Hc & Hpos & _ & [(Hz & _)|(Hz & Hge)])|(Hnc & _ & Hval)].
      - rewrite Hz. rewrite andb_false_r. reflexivity.
      - exfalso.
        destruct (mapM_forward _ _ _ _ _ _ H2b Hs0) as (t0 & Ht0 & Hp20).
        destruct (mapM_forward _ _ _ _ _ _ H3b Ht0) as (o0 & Ho0 & Hp30).
        pose proof (p2_entry_ts _ _ _ _ _ Hp20) as Hts.
        destruct (p3_entry_fields _ _ _ _ Hp30) as (Hoe & Hop). rewrite Hts in Hoe, Hop.
        specialize (Hpost o0 Ho0). rewrite Hoe, (Hop Hc) in Hpost. specialize (Hpost Hc Hpos). lia.
      - destruct Hnc as [Hnc|Hnc]; [rewrite Hnc; reflexivity|].
        rewrite Hval, Hnc. rewrite andb_false_r. reflexivity. }
    (* the chain through the middle entry *)
    pose proof (p2_entry_ts _ _ _ _ _ Hp2) as Hts.
    destruct (p3_entry_fields _ _ _ _ Hp3) as (Hoe & Hop). rewrite Hts in Hoe, Hop.
    assert (Hve : 0 <= e_value (o_e o)).
    { rewrite Hoe. apply Forall_app in Hv'. destruct Hv' as (_ & Hv'). inversion Hv'; assumption. }
    rewrite <- Hoe in Hstep.
    destruct (entry_outcome disc h knew actual (o_e o) _ acc' s t o Hr Hk Hve eq_refl Hstep Hp2 Hp3)
      as [(_ & A & _)|[(_ & _ & A & _)|(A1 & A2 & A3 & A4 & A5 & A6 & A7 & A8)]]; try congruence.
    assert (Hp1o : o_p1 o = s_p1 s) by (apply Hop; rewrite <- Hoe; exact A1).
    destruct (p1_step_facts disc h _ (o_e o) acc' s Hve Hstep) as (Hse & _ & Hcases).
    destruct Hcases as [(_ & _ & _ & [(Hz & Hlt)|(Hz & Hge)])|(Hnc & _)].
    - (* rejected in pass one: cannot be converted *) lia.
    - destruct (p1_step_accepted h _ (o_e o) acc' s Hstep A1 A2 Hz) as (Hacc & Hp1).
      assert (Hact : actual = acc').
      { unfold actual. rewrite actual_amount_app. unfold actual_amount at 2. simpl.
        fold (actual_amount h l1b). rewrite Hzero.
        rewrite (p1_step_amount h _ (o_e o) acc' s Hve Hstep). lia. }
      assert (Hb : o_before o = s_p1 s) by (rewrite A6, Hp1, Hact, Hacc; reflexivity).
      split; lia.
    - destruct Hnc as [Hnc|Hnc]; [congruence|lia].
  Qed.
End Last.

(* C12 — one account over the transactions of a block (Model/C12_Fin.v): every mutator extends the
   journal and is undone exactly by rewinding it, so a failed frame - whatever its sub-frames did, in any
   transaction, with or without a snapshot layer - is the identity on the object, snapDestructs,
   snapAccounts, the journal, journal.dirties, stateObjectsPending / stateObjectsDirty and the account
   trie; hence a block and the block without its failed frames reach the same state and hand the same
   account entry, destruct mark and snapshot account entry to Commit. *)
From Coq Require Import List NArith ZArith Bool Lia.
From GQ Require Import Model.C12_Fin.
Import ListNotations.

(* createObjectChange.revert also deletes the address from stateObjectsDirty: a no-op, because an
   address without object has never been finalised *)
Definition FInv (s : fstate) : Prop := fa_obj s = None -> fa_dirty s = false.

Lemma FInv_fresh base : FInv (fa_fresh base).
Proof. intros _. reflexivity. Qed.

Fixpoint fframe_ind' (P : fframe -> Prop) (HOp : forall o, P (FFOp o))
    (HCall : forall body fails, Forall P body -> P (FFCall body fails)) (f : fframe) : P f :=
  match f with
  | FFOp o => HOp o
  | FFCall body fails =>
      HCall body fails ((fix go (l : list fframe) : Forall P l :=
                           match l with
                           | [] => Forall_nil P
                           | g :: l' => Forall_cons g (fframe_ind' P HOp HCall g) (go l')
                           end) body)
  end.

Lemma fa_pop_nil snap k s : fa_jr s = [] -> fa_pop snap k s = s.
Proof. destruct k; cbn; [auto|]. intros ->. reflexivity. Qed.

Lemma fa_pop_add snap k1 : forall k2 s, fa_pop snap (k1 + k2) s = fa_pop snap k2 (fa_pop snap k1 s).
Proof.
  induction k1 as [|k1 IH]; intros k2 s; cbn [plus fa_pop]; [reflexivity|].
  destruct (fa_jr s) as [|e j] eqn:E; [symmetry; apply fa_pop_nil; exact E|apply IH].
Qed.

(* extends-and-rewinds: [a'] has k more journal entries than [a] and undoing them gives [a] back *)
Definition aext (snap : bool) (a a' : fstate) : Prop :=
  exists k, length (fa_jr a') = k + length (fa_jr a) /\ fa_pop snap k a' = a.

Lemma aext_refl snap a : aext snap a a.
Proof. exists 0. split; reflexivity. Qed.

Lemma aext_trans snap a b c : aext snap a b -> aext snap b c -> aext snap a c.
Proof.
  intros (k1 & J1 & P1) (k2 & J2 & P2). exists (k2 + k1). split.
  - rewrite J2, J1. lia.
  - rewrite fa_pop_add, P2. exact P1.
Qed.

Lemma aext_rewind snap a a' : aext snap a a' -> fa_rewind snap (length (fa_jr a)) a' = a.
Proof.
  intros (k & J & P). unfold fa_rewind. rewrite J.
  replace (k + length (fa_jr a) - length (fa_jr a)) with k by lia. exact P.
Qed.

Ltac fcases :=
  repeat match goal with
         | |- context [if ?c then _ else _] => let E := fresh "E" in destruct c eqn:E
         end.

(* every mutator: local inverse + invariant *)
Lemma aext_op snap o s : FInv s -> aext snap s (fa_op snap o s) /\ FInv (fa_op snap o s).
Proof.
  intros I. destruct s as [obj d a jr dirt p y t].
  destruct obj as [[n b c su de]|].
  - clear I. destruct o, de, snap, d; cbn; fcases; cbn;
      (split; [first [exists 0; split; reflexivity | exists 1; split; reflexivity | exists 2; split; reflexivity]
              | intros H; try discriminate H]).
  - pose proof (I eq_refl) as Hy. cbn in Hy. subst y.
    destruct o, snap, d; cbn; fcases; cbn;
      (split; [first [exists 0; split; reflexivity | exists 1; split; reflexivity | exists 2; split; reflexivity]
              | intros H; try discriminate H; reflexivity]).
Qed.

Lemma FInv_pop snap k : forall s, FInv s -> FInv (fa_pop snap k s).
Proof.
  induction k as [|k IH]; intros s I; cbn [fa_pop]; [exact I|].
  destruct (fa_jr s) as [|e j] eqn:Ej; [exact I|]. apply IH.
  destruct s as [obj d a jr dirt p y t]. cbn in Ej. subst jr.
  destruct e; unfold fa_undo, fa_undo_obj, fa_live; cbn;
    try (intros H; discriminate H); try (intros _; reflexivity);
    try (destruct obj as [[n b c su de]|]; [destruct de; cbn; intros H; discriminate H | exact I]).
Qed.

Lemma FInv_rewind snap n s : FInv s -> FInv (fa_rewind snap n s).
Proof. apply FInv_pop. Qed.

Lemma aext_fold snap (l : list fframe) :
  Forall (fun f => forall s, FInv s -> aext snap s (fa_exec snap f s) /\ FInv (fa_exec snap f s)) l ->
  forall s, FInv s -> aext snap s (fold_left (fun x g => fa_exec snap g x) l s)
                      /\ FInv (fold_left (fun x g => fa_exec snap g x) l s).
Proof.
  induction 1 as [|g l Hg _ IH]; intros s I; cbn [fold_left]; [split; [apply aext_refl|exact I]|].
  destruct (Hg s I) as (E1 & I1). destruct (IH _ I1) as (E2 & I2).
  split; [eapply aext_trans; eassumption|exact I2].
Qed.

Lemma aext_exec snap f : forall s, FInv s -> aext snap s (fa_exec snap f s) /\ FInv (fa_exec snap f s).
Proof.
  induction f as [o|body fails IHb] using fframe_ind'; intros s I; cbn [fa_exec].
  - apply aext_op. exact I.
  - destruct (aext_fold snap body IHb s I) as (E & I'). destruct fails; [|split; assumption].
    rewrite (aext_rewind _ _ _ E). split; [apply aext_refl|exact I].
Qed.

Lemma aext_frames snap fs s : FInv s -> aext snap s (fa_frames snap fs s) /\ FInv (fa_frames snap fs s).
Proof. intros I. apply aext_fold; [|exact I]. apply Forall_forall. intros f _. apply aext_exec. Qed.

(* a failed frame is the identity *)
Lemma fa_failed snap body s : FInv s -> fa_exec snap (FFCall body true) s = s.
Proof. intros I. cbn [fa_exec]. apply aext_rewind. apply (aext_frames snap body s I). Qed.

(* siblings: what a completed part did is exactly what remains after a later failed frame *)
Lemma fa_siblings snap pre body s : FInv s ->
  fa_frames snap (pre ++ [FFCall body true]) s = fa_frames snap pre s.
Proof.
  intros I. unfold fa_frames. rewrite fold_left_app. cbn [fold_left].
  apply fa_failed. apply (aext_frames snap pre s I).
Qed.

(* boundaries keep the invariant *)
Lemma FInv_finalize snap s : FInv s -> FInv (fa_finalize snap s).
Proof.
  destruct s as [obj d a jr dirt p y t]. unfold FInv, fa_finalize. cbn.
  destruct obj as [o|].
  - intros _. destruct dirt; cbn; fcases; cbn; try (destruct jr; cbn); intros H; discriminate H.
  - intros I. destruct dirt; cbn; destruct jr; cbn; exact I.
Qed.

Lemma FInv_root snap s : FInv s -> FInv (fa_root snap s).
Proof.
  intros I. pose proof (FInv_finalize snap s I) as I1. unfold fa_root.
  destruct (fa_finalize snap s) as [obj d a jr dirt p y t]. cbn.
  destruct p; [|exact I1]. destruct obj as [o|]; [|exact I1].
  destruct (o_del o); intros H; discriminate H.
Qed.

Lemma FInv_tx snap s t : FInv s -> FInv (fa_tx snap s t).
Proof.
  intros I. unfold fa_tx. pose proof (proj2 (aext_frames snap (fst t) s I)) as I1.
  destruct (snd t); [apply FInv_root|apply FInv_finalize]; exact I1.
Qed.

Lemma FInv_block snap b : forall s, FInv s -> FInv (fa_block snap b s).
Proof.
  induction b as [|t b IH]; intros s I; [exact I|].
  unfold fa_block in *. cbn [fold_left]. apply IH. apply FInv_tx. exact I.
Qed.

(* the block without its failed frames *)
Fixpoint ferase (f : fframe) : list fframe :=
  match f with
  | FFOp o => [FFOp o]
  | FFCall body fails => if fails then [] else [FFCall (flat_map ferase body) false]
  end.
Definition ferase_block (b : fblock) : fblock := map (fun t => (flat_map ferase (fst t), snd t)) b.

Lemma fa_frames_app snap l1 l2 s : fa_frames snap (l1 ++ l2) s = fa_frames snap l2 (fa_frames snap l1 s).
Proof. unfold fa_frames. apply fold_left_app. Qed.

Lemma fa_erase_fold snap (l : list fframe) :
  Forall (fun f => forall s, FInv s -> fa_frames snap (ferase f) s = fa_exec snap f s) l ->
  forall s, FInv s -> fa_frames snap (flat_map ferase l) s = fa_frames snap l s.
Proof.
  induction 1 as [|g l Hg _ IH]; intros s I; cbn [flat_map]; [reflexivity|].
  rewrite fa_frames_app, (Hg s I). unfold fa_frames at 2. cbn [fold_left].
  apply IH. apply (aext_exec snap g s I).
Qed.

Lemma fa_erase snap f : forall s, FInv s -> fa_frames snap (ferase f) s = fa_exec snap f s.
Proof.
  induction f as [o|body fails IHb] using fframe_ind'; intros s I.
  - reflexivity.
  - destruct fails.
    + rewrite (fa_failed snap body s I). reflexivity.
    + cbn [ferase]. unfold fa_frames at 1. cbn [fold_left fa_exec].
      exact (fa_erase_fold snap body IHb s I).
Qed.

Lemma fa_erase_frames snap fs s : FInv s -> fa_frames snap (flat_map ferase fs) s = fa_frames snap fs s.
Proof. intros I. apply fa_erase_fold; [|exact I]. apply Forall_forall. intros f _. apply fa_erase. Qed.

Lemma fa_erase_block snap b : forall s, FInv s -> fa_block snap (ferase_block b) s = fa_block snap b s.
Proof.
  induction b as [|t b IH]; intros s I; [reflexivity|].
  unfold fa_block in *. cbn [ferase_block map fold_left]. unfold fa_tx at 2 4. cbn [fst snd].
  rewrite (fa_erase_frames snap (fst t) s I).
  apply IH. apply (FInv_tx snap s t I).
Qed.

Lemma fa_erase_commit snap b s : FInv s ->
  fa_commit snap (fa_block snap (ferase_block b) s) = fa_commit snap (fa_block snap b s).
Proof. intros I. rewrite (fa_erase_block snap b s I). reflexivity. Qed.

(* no frame at all fails in the erased block *)
Fixpoint no_fail (f : fframe) : bool :=
  match f with FFOp _ => true | FFCall body fails => negb fails && forallb no_fail body end.

Lemma ferase_no_fail f : forallb no_fail (ferase f) = true.
Proof.
  induction f as [o|body fails IHb] using fframe_ind'; [reflexivity|].
  destruct fails; [reflexivity|]. cbn [ferase forallb no_fail negb andb]. rewrite andb_true_r.
  induction IHb as [|g l Hg _ IH]; [reflexivity|]. cbn [flat_map]. rewrite forallb_app, Hg, IH. reflexivity.
Qed.

(* the journal never holds more dirtying entries than journal.dirties counts (no leak, no underflow):
   dirties = number of pending entries whose dirtied() is not nil *)
Definition fdcount (j : list fentry) : nat := length (filter fe_dirtied j).
Definition DInv (s : fstate) : Prop := fa_dirt s = fdcount (fa_jr s).

Lemma DInv_op snap o s : DInv s -> DInv (fa_op snap o s).
Proof.
  destruct s as [obj d a jr dirt p y t]. unfold DInv. cbn. intros ->.
  destruct obj as [[n b c su de]|]; destruct o; try destruct de; cbn; fcases; cbn; reflexivity.
Qed.

Lemma DInv_pop snap k : forall s, DInv s -> DInv (fa_pop snap k s).
Proof.
  induction k as [|k IH]; intros s I; cbn [fa_pop]; [exact I|].
  destruct (fa_jr s) as [|e j] eqn:Ej; [exact I|]. apply IH.
  destruct s as [obj d a jr dirt p y t]. cbn in Ej. subst jr. unfold DInv in *. cbn in I. subst dirt.
  destruct e; unfold fa_undo, fa_undo_obj, fa_live, fdcount; cbn;
    try reflexivity; destruct obj as [[n b c su de]|]; try destruct de; cbn; reflexivity.
Qed.

Lemma DInv_exec snap f : forall s, DInv s -> DInv (fa_exec snap f s).
Proof.
  induction f as [o|body fails IHb] using fframe_ind'; intros s I; cbn [fa_exec].
  - apply DInv_op. exact I.
  - assert (I1 : DInv (fold_left (fun x g => fa_exec snap g x) body s)).
    { revert s I. induction IHb as [|g l Hg _ IH]; intros s I; cbn [fold_left]; [exact I|]. apply IH. apply Hg. exact I. }
    destruct fails; [apply DInv_pop|]; exact I1.
Qed.

(* ---------- the snapshot layer does not change the result ----------
   Forgetting snapDestructs / snapAccounts / prevdestruct commutes with every step: the object, the
   journal (up to the saved prevdestruct), dirties, pending / dirty sets and the account trie of the
   snapshot-backed run are those of the trie-backed run. *)
Definition nopd (e : fentry) : fentry := match e with FEReset p _ => FEReset p false | _ => e end.
Definition nosnap (s : fstate) : fstate :=
  mkFS (fa_obj s) false false (map nopd (fa_jr s)) (fa_dirt s) (fa_pend s) (fa_dirty s) (fa_trie s).

Lemma nosnap_op snap o s : nosnap (fa_op snap o s) = fa_op false o (nosnap s).
Proof.
  destruct s as [obj d a jr dirt p y t].
  destruct obj as [[n b c su de]|]; destruct o; try destruct de; destruct snap; cbn; fcases; cbn; reflexivity.
Qed.

Lemma nosnap_pop snap k : forall s, nosnap (fa_pop snap k s) = fa_pop false k (nosnap s).
Proof.
  induction k as [|k IH]; intros s; cbn [fa_pop]; [reflexivity|].
  destruct s as [obj d a jr dirt p y t]. cbn [fa_jr nosnap map].
  destruct jr as [|e j]; [reflexivity|]. cbn [map]. rewrite IH. f_equal.
  destruct e; unfold fa_undo, fa_undo_obj, fa_live, nosnap; cbn;
    try reflexivity; try (destruct obj as [[n b c su de]|]; try destruct de; cbn; reflexivity).
Qed.

Lemma nosnap_rewind snap n s : nosnap (fa_rewind snap n s) = fa_rewind false n (nosnap s).
Proof. unfold fa_rewind. rewrite nosnap_pop. cbn [nosnap fa_jr]. rewrite map_length. reflexivity. Qed.

Lemma nosnap_exec snap f : forall s, nosnap (fa_exec snap f s) = fa_exec false f (nosnap s).
Proof.
  induction f as [o|body fails IHb] using fframe_ind'; intros s; cbn [fa_exec].
  - apply nosnap_op.
  - assert (E : forall s, nosnap (fold_left (fun x g => fa_exec snap g x) body s)
                         = fold_left (fun x g => fa_exec false g x) body (nosnap s)).
    { induction IHb as [|g l Hg _ IH]; intros s1; cbn [fold_left]; [reflexivity|]. rewrite IH, Hg. reflexivity. }
    destruct fails.
    + rewrite nosnap_rewind, E. cbn [nosnap fa_jr]. rewrite map_length. reflexivity.
    + apply E.
Qed.

Lemma nosnap_frames snap fs : forall s, nosnap (fa_frames snap fs s) = fa_frames false fs (nosnap s).
Proof.
  unfold fa_frames. induction fs as [|g l IH]; intros s; cbn [fold_left]; [reflexivity|].
  rewrite IH, nosnap_exec. reflexivity.
Qed.

Lemma nosnap_finalize snap s : nosnap (fa_finalize snap s) = fa_finalize false (nosnap s).
Proof.
  destruct s as [obj d a jr dirt p y t]. unfold fa_finalize, nosnap.
  cbn [fa_obj fa_destruct fa_snapacct fa_jr fa_dirt fa_pend fa_dirty fa_trie].
  destruct dirt as [|dirt]; [destruct jr; reflexivity|].
  destruct obj as [o|]; [|destruct jr; reflexivity].
  destruct (o_suic o || o_empty o);
    cbn [fa_obj fa_destruct fa_snapacct fa_jr fa_dirt fa_pend fa_dirty fa_trie]; destruct jr, snap; reflexivity.
Qed.

Lemma nosnap_root snap s : nosnap (fa_root snap s) = fa_root false (nosnap s).
Proof.
  unfold fa_root. rewrite <- (nosnap_finalize snap s).
  destruct (fa_finalize snap s) as [obj d a jr dirt p y t]. unfold nosnap. cbn.
  destruct p; [|reflexivity]. destruct obj as [o|]; [|reflexivity]. destruct (o_del o), snap; reflexivity.
Qed.

Lemma nosnap_block snap b : forall s, nosnap (fa_block snap b s) = fa_block false b (nosnap s).
Proof.
  unfold fa_block. induction b as [|t b IH]; intros s; cbn [fold_left]; [reflexivity|].
  rewrite IH. f_equal. unfold fa_tx. rewrite <- (nosnap_frames snap (fst t) s).
  destruct (snd t); [apply nosnap_root|apply nosnap_finalize].
Qed.

Lemma nosnap_fresh base : nosnap (fa_fresh base) = fa_fresh base.
Proof. reflexivity. Qed.

Lemma backend_independent b base :
  fa_obj (fa_block true b (fa_fresh base)) = fa_obj (fa_block false b (fa_fresh base))
  /\ fa_trie (fa_block true b (fa_fresh base)) = fa_trie (fa_block false b (fa_fresh base))
  /\ fst (fst (fa_commit true (fa_block true b (fa_fresh base)))) = fst (fst (fa_commit false (fa_block false b (fa_fresh base)))).
Proof.
  pose proof (nosnap_block true b (fa_fresh base)) as E. rewrite nosnap_fresh in E.
  repeat split.
  - rewrite <- E. reflexivity.
  - rewrite <- E. reflexivity.
  - unfold fa_commit. cbn [fst]. rewrite <- E, <- (nosnap_root true). reflexivity.
Qed.


Lemma DInv_finalize snap s : DInv s -> DInv (fa_finalize snap s).
Proof.
  destruct s as [obj d a jr dirt p y t]. unfold DInv, fa_finalize.
  cbn [fa_obj fa_destruct fa_snapacct fa_jr fa_dirt fa_pend fa_dirty fa_trie]. intros ->.
  destruct jr as [|e l]; [reflexivity|].
  destruct (fdcount (e :: l)); [reflexivity|]. destruct obj as [o|]; [|reflexivity].
  destruct (o_suic o || o_empty o); reflexivity.
Qed.

Lemma DInv_root snap s : DInv s -> DInv (fa_root snap s).
Proof.
  intros I. pose proof (DInv_finalize snap s I) as I1. unfold fa_root.
  destruct (fa_finalize snap s) as [obj d a jr dirt p y t]. unfold DInv in *.
  cbn [fa_obj fa_destruct fa_snapacct fa_jr fa_dirt fa_pend fa_dirty fa_trie] in *.
  destruct p; [|exact I1]. destruct obj as [o|]; [|exact I1]. destruct (o_del o); exact I1.
Qed.

Lemma DInv_frames snap fs : forall s, DInv s -> DInv (fa_frames snap fs s).
Proof.
  unfold fa_frames. induction fs as [|g l IH]; intros s I; cbn [fold_left]; [exact I|].
  apply IH. apply DInv_exec. exact I.
Qed.

Lemma DInv_block snap b : forall s, DInv s -> DInv (fa_block snap b s).
Proof.
  unfold fa_block. induction b as [|t b IH]; intros s I; cbn [fold_left]; [exact I|].
  apply IH. unfold fa_tx. destruct (snd t); [apply DInv_root|apply DInv_finalize]; apply DInv_frames; exact I.
Qed.

Lemma DInv_fresh base : DInv (fa_fresh base).
Proof. reflexivity. Qed.

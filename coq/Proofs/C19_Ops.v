(* C19 -- the structural invariant Inv0 and the price-heap cover heap_ok are preserved by
   every operation of the pool model; generic combinators for the loops of runReorg. *)
From Coq Require Import List NArith PeanoNat Bool Lia ZifyBool ZifyNat ZifyN.
From GQ Require Import Model.C19 Proofs.C19_Lists Proofs.C19_Struct.
Import ListNotations.
Local Open Scope N_scope.

Ltac psimpl :=
  cbn [p_pend p_queue p_all p_heap p_stales p_pn p_locals p_gasprice p_st p_oos
       set_pend set_queue set_all set_priced set_pn set_locals set_gasprice set_st set_oos
       all_add all_remove pn_set heap_put reheap] in *.

(* ---------- fields left alone by the primitives ---------- *)
Lemma removed_fields n p :
  p_pend (removed n p) = p_pend p /\ p_queue (removed n p) = p_queue p /\ p_all (removed n p) = p_all p /\
  p_pn (removed n p) = p_pn p /\ p_st (removed n p) = p_st p /\ p_locals (removed n p) = p_locals p /\
  p_gasprice (removed n p) = p_gasprice p /\ p_oos (removed n p) = p_oos p.
Proof. destruct (removed_eq n p) as [h [s ->]]. repeat split. Qed.

Lemma promote_tx_fields c a x p :
  p_queue (promote_tx c a x p) = p_queue p /\ p_st (promote_tx c a x p) = p_st p /\
  p_locals (promote_tx c a x p) = p_locals p /\ p_gasprice (promote_tx c a x p) = p_gasprice p /\
  p_oos (promote_tx c a x p) = p_oos p.
Proof.
  unfold promote_tx. destruct (l_add x (c_bump c) (aget a (p_pend p))) as [[pl' [o|]]|].
  - psimpl. destruct (removed_fields 1 (all_remove o (set_pend a pl' p))) as [A [B [C [D [E [F [G H]]]]]]].
    rewrite B, E, F, G, H. repeat split.
  - repeat split.
  - destruct (removed_fields 1 (all_remove x p)) as [A [B [C [D [E [F [G H]]]]]]].
    rewrite B, E, F, G, H. repeat split.
Qed.
Lemma promote_list_fields c a D p :
  let p' := fold_left (fun s t => promote_tx c a t s) D p in
  p_queue p' = p_queue p /\ p_st p' = p_st p /\ p_locals p' = p_locals p /\ p_gasprice p' = p_gasprice p /\ p_oos p' = p_oos p.
Proof.
  revert p. induction D as [|x D IH]; intros p; cbn; [repeat split|].
  destruct (IH (promote_tx c a x p)) as [A [B [C [E F]]]].
  destruct (promote_tx_fields c a x p) as [A' [B' [C' [E' F']]]]. cbn in *. repeat split; congruence.
Qed.

Lemma requeue_fields c x p :
  p_pend (requeue c x p) = p_pend p /\ p_st (requeue c x p) = p_st p /\ p_pn (requeue c x p) = p_pn p /\
  p_locals (requeue c x p) = p_locals p /\ p_gasprice (requeue c x p) = p_gasprice p /\ p_oos (requeue c x p) = p_oos p.
Proof.
  unfold requeue, enqueue_tx. destruct (l_add x (c_bump c) (aget (t_from x) (p_queue p))) as [[q' [o|]]|]; cbn [fst].
  - destruct (removed_fields 1 (all_remove o (set_queue (t_from x) q' p))) as [A [B [C [D [E [F [G H]]]]]]].
    rewrite A, D, E, F, G, H. repeat split.
  - repeat split.
  - repeat split.
Qed.
Lemma requeue_list_fields c D p :
  let p' := fold_left (fun s t => requeue c t s) D p in
  p_pend p' = p_pend p /\ p_st p' = p_st p /\ p_pn p' = p_pn p /\ p_locals p' = p_locals p /\ p_gasprice p' = p_gasprice p /\ p_oos p' = p_oos p.
Proof.
  revert p. induction D as [|x D IH]; intros p; cbn; [repeat split|].
  destruct (IH (requeue c x p)) as [A [B [C [E [F G]]]]].
  destruct (requeue_fields c x p) as [A' [B' [C' [E' [F' G']]]]]. cbn in *. repeat split; congruence.
Qed.

(* ---------- splits of the txList operations ---------- *)
Lemma l_forward_splits thr l : sorted l -> splits l (snd (l_forward thr l)) (fst (l_forward thr l)).
Proof. intros Hs. apply (splits_filter (fun x => t_nonce x <? thr) l Hs). Qed.

Lemma l_filter_nonstrict_splits bal mg l rem inv kept :
  sorted l -> l_filter false bal mg l = (rem, inv, kept) -> splits l kept rem /\ inv = [].
Proof.
  intros Hs. unfold l_filter. destruct (filter (unpayable bal mg) l) as [|x0 r0] eqn:Er.
  - intros [= <- <- <-]. split; [|reflexivity].
    split; [intros x; cbn; tauto|]. split; [intros ? ? []|]. split; [exact Hs|constructor].
  - intros [= <- <- <-]. split; [|reflexivity]. rewrite <- Er. apply splits_filter. exact Hs.
Qed.

Lemma nodup_app {A} (l1 l2 : list A) : NoDup l1 -> NoDup l2 -> (forall x, In x l1 -> In x l2 -> False) -> NoDup (l1 ++ l2).
Proof.
  intros H1 H2 H3. induction l1 as [|x r IH]; cbn; [exact H2|]. inversion H1; subst. constructor.
  - rewrite in_app_iff. intros [H|H]; [auto|]. apply (H3 x); cbn; auto.
  - apply IH; auto. intros y Hy. apply H3. right; exact Hy.
Qed.

Lemma l_filter_strict_splits bal mg l rem inv kept :
  sorted l -> l_filter true bal mg l = (rem, inv, kept) -> splits l kept (rem ++ inv).
Proof.
  intros Hs HF.
  pose proof (l_filter_rem _ _ _ _ _ _ _ HF) as Hrem.
  pose proof (l_filter_keep _ _ _ _ _ _ _ HF) as Hkeep.
  pose proof (l_filter_disj _ _ _ _ _ _ _ HF) as Hdisj.
  destruct (l_filter_sorted _ _ _ _ _ _ _ HF Hs) as [S1 [S2 S3]].
  split; [|split; [|split]].
  - intros x. rewrite in_app_iff, Hrem. specialize (Hkeep x). destruct (unpayable bal mg x) eqn:E; intuition congruence.
  - intros x Hk Ho. apply in_app_or in Ho as [Ho|Ho]; [|eauto].
    apply Hrem in Ho as [_ Ho]. assert (In x inv \/ In x kept) by auto. apply Hkeep in H as [_ H]. congruence.
  - exact S3.
  - apply nodup_nonce_sub with (l := l); auto.
    + apply nodup_app; try (apply sorted_nodup; assumption).
      intros x Hr Hi. apply Hrem in Hr as [_ Hr]. assert (In x inv \/ In x kept) by auto. apply Hkeep in H as [_ H]. congruence.
    + intros x Hx. apply in_app_or in Hx as [Hx|Hx]; [apply Hrem in Hx; tauto|].
      assert (In x inv \/ In x kept) by auto. apply Hkeep in H. tauto.
Qed.

(* ---------- promoteExecutables (one account) ---------- *)
Lemma aget_queue_after_drop a q D p :
  aget a (p_queue (all_remove_list D (set_queue a q p))) = q.
Proof.
  destruct (all_remove_list_fields D (set_queue a q p)) as [_ [E _]]. rewrite E. psimpl. apply aget_aset_same.
Qed.
Lemma aget_pend_after_drop a l D p :
  aget a (p_pend (all_remove_list D (set_pend a l p))) = l.
Proof.
  destruct (all_remove_list_fields D (set_pend a l p)) as [E _]. rewrite E. psimpl. apply aget_aset_same.
Qed.

Lemma invr_queue_drop a p keep out :
  InvR a [] p -> splits (aget a (p_queue p)) keep out -> InvR a [] (all_remove_list out (set_queue a keep p)).
Proof.
  intros H S. apply invr_drop_list. apply invr_queue_to_limbo; assumption.
Qed.
Lemma invr_pend_drop a p keep out :
  InvR a [] p -> splits (aget a (p_pend p)) keep out -> InvR a [] (all_remove_list out (set_pend a keep p)).
Proof.
  intros H S. apply invr_drop_list. apply invr_pend_to_limbo; assumption.
Qed.

Lemma promote_one_inv0 c a p : Inv0 p -> Inv0 (promote_one c a p).
Proof.
  intros H0. unfold promote_one. destruct (aget a (p_queue p)) as [|q0 qr] eqn:Eq; [exact H0|].
  rewrite <- Eq. set (q := aget a (p_queue p)).
  pose proof (inv0_any a _ H0) as H.
  assert (Sq : sorted q) by apply (ir_queue _ _ _ H a).
  (* Forward *)
  pose proof (l_forward_splits (st_nonce p a) q Sq) as Sf.
  destruct (l_forward (st_nonce p a) q) as [fw q1] eqn:Ef. cbn [fst snd] in Sf.
  pose proof (invr_queue_drop a p q1 fw H Sf) as H1.
  set (p1 := all_remove_list fw (set_queue a q1 p)) in *.
  assert (Eq1 : aget a (p_queue p1) = q1) by apply aget_queue_after_drop.
  assert (Sq1 : sorted q1) by (destruct Sf as [_ [_ [S _]]]; exact S).
  (* Filter *)
  destruct (l_filter false (st_bal p a) (s_maxgas (p_st p)) q1) as [[drops inv] q2] eqn:EF.
  destruct (l_filter_nonstrict_splits _ _ _ _ _ _ Sq1 EF) as [SF _].
  rewrite <- Eq1 in SF.
  pose proof (invr_queue_drop a p1 q2 drops H1 SF) as H2.
  set (p2 := all_remove_list drops (set_queue a q2 p1)) in *.
  assert (Eq2 : aget a (p_queue p2) = q2) by apply aget_queue_after_drop.
  assert (Sq2 : sorted q2) by (destruct SF as [_ [_ [S _]]]; exact S).
  (* Ready *)
  destruct (l_ready (pn_get p2 a) q2) as [readies q3] eqn:ER.
  destruct (l_ready_split _ _ _ _ ER) as [Eapp _].
  assert (SR : splits (aget a (p_queue p2)) q3 readies).
  { rewrite Eq2, Eapp. apply splits_app. rewrite <- Eapp. exact Sq2. }
  pose proof (invr_queue_to_limbo a [] p2 q3 readies H2 SR) as H3.
  apply invr_promote_list with (c := c) in H3.
  set (p3 := fold_left (fun s t => promote_tx c a t s) readies (set_queue a q3 p2)) in *.
  assert (Eq3 : aget a (p_queue p3) = q3).
  { unfold p3. destruct (promote_list_fields c a readies (set_queue a q3 p2)) as [E _]. cbn in E. rewrite E. psimpl. apply aget_aset_same. }
  assert (Sq3 : sorted q3) by (destruct SR as [_ [_ [S _]]]; exact S).
  (* Cap *)
  destruct (l_cap (c_aqueue c) q3) as [caps q4] eqn:EC.
  assert (SC : splits (aget a (p_queue p3)) q4 caps).
  { rewrite Eq3. pose proof (l_cap_app (c_aqueue c) q3) as E. rewrite EC in E. cbn [fst snd] in E.
    rewrite E. apply splits_app. rewrite <- E. exact Sq3. }
  pose proof (invr_queue_drop a p3 q4 caps H3 SC) as H4.
  apply invr_nil with (a := a). eapply invr_same; [apply same_removed|]. exact H4.
Qed.

Lemma promote_list_inv0 c l p : Inv0 p -> Inv0 (promote_list c l p).
Proof.
  revert p. induction l as [|a l IH]; intros p H; cbn; [exact H|]. apply IH. apply promote_one_inv0. exact H.
Qed.

(* ---------- demoteUnexecutables (one account) ---------- *)
Lemma demote_one_inv0 c a p : Inv0 p -> Inv0 (demote_one c a p).
Proof.
  intros H0. unfold demote_one.
  pose proof (inv0_any a _ H0) as H.
  set (pl := aget a (p_pend p)).
  assert (Spl : sorted pl) by apply (ir_pend _ _ _ H a).
  pose proof (l_forward_splits (st_nonce p a) pl Spl) as Sf.
  destruct (l_forward (st_nonce p a) pl) as [olds l1] eqn:Ef. cbn [fst snd] in Sf.
  pose proof (invr_pend_drop a p l1 olds H Sf) as H1.
  set (p1 := all_remove_list olds (set_pend a l1 p)) in *.
  assert (E1 : aget a (p_pend p1) = l1) by apply aget_pend_after_drop.
  assert (Sl1 : sorted l1) by (destruct Sf as [_ [_ [S _]]]; exact S).
  destruct (l_filter true (st_bal p a) (s_maxgas (p_st p)) l1) as [[drops invalids] l2] eqn:EF.
  pose proof (l_filter_strict_splits _ _ _ _ _ _ Sl1 EF) as SF. rewrite <- E1 in SF.
  pose proof (invr_pend_to_limbo a [] p1 l2 (drops ++ invalids) H1 SF) as H2.
  rewrite <- app_assoc in H2. apply invr_drop_list in H2.
  set (p2 := all_remove_list drops (set_pend a l2 p1)) in *.
  apply invr_requeue_list with (c := c) in H2.
  set (p4 := fold_left (fun s t => requeue c t s) invalids p2) in *.
  assert (E4 : aget a (p_pend p4) = l2).
  { unfold p4. destruct (requeue_list_fields c invalids p2) as [E _]. cbn in E. rewrite E. apply aget_pend_after_drop. }
  destruct l2 as [|y l2'] eqn:El2; [apply invr_nil with (a := a); exact H2|].
  destruct (l_get (st_nonce p a) (y :: l2')) eqn:Eg; [apply invr_nil with (a := a); exact H2|].
  assert (SG : splits (aget a (p_pend p4)) [] (y :: l2')).
  { rewrite E4. split; [intros x; cbn; tauto|]. split; [intros ? []|]. split; [exact I|].
    apply sorted_nodup_nonce. destruct SF as [_ [_ [S _]]]. exact S. }
  pose proof (invr_pend_to_limbo a [] p4 [] (y :: l2') H2 SG) as H5.
  apply invr_requeue_list with (c := c) in H5. apply invr_nil with (a := a). exact H5.
Qed.

Lemma demote_all_inv0 c p : Inv0 p -> Inv0 (demote_all c p).
Proof.
  unfold demote_all. generalize (akeys (p_pend p)) as l. intros l. revert p.
  induction l as [|a l IH]; intros p H; cbn; [exact H|]. apply IH. apply demote_one_inv0. exact H.
Qed.

(* requeue respects same_lists *)
Lemma map_fst_filter_eq o (l1 l2 : list (tx * bool)) : map fst l1 = map fst l2 ->
  map fst (filter (fun e => negb (tx_eqb o (fst e))) l1) = map fst (filter (fun e => negb (tx_eqb o (fst e))) l2).
Proof.
  revert l2. induction l1 as [|e1 l1 IH]; intros [|e2 l2]; cbn; try discriminate; [reflexivity|].
  intros [= E1 E2]. rewrite E1. destruct (tx_eqb o (fst e2)); cbn; [apply IH; exact E2|]. f_equal; [exact E1|apply IH; exact E2].
Qed.
Lemma requeue_same c x q1 q2 : same_lists q1 q2 -> same_lists (requeue c x q1) (requeue c x q2).
Proof.
  intros [S1 [S2 S3]]. unfold requeue, enqueue_tx. rewrite (S2 (t_from x)).
  destruct (l_add x (c_bump c) (aget (t_from x) (p_queue q1))) as [[q' [o|]]|]; cbn [fst].
  - destruct (removed_fields 1 (all_remove o (set_queue (t_from x) q' q1))) as [A [B [C _]]].
    destruct (removed_fields 1 (all_remove o (set_queue (t_from x) q' q2))) as [A' [B' [C' _]]].
    unfold same_lists. rewrite A, B, C, A', B', C'. psimpl. split; [exact S1|]. split.
    + intros b. rewrite !aget_aset. destruct (_ =? _); auto.
    + apply map_fst_filter_eq. exact S3.
  - unfold same_lists. psimpl. split; [exact S1|]. split; [|exact S3].
    intros b. rewrite !aget_aset. destruct (_ =? _); auto.
  - repeat split; assumption.
Qed.
Lemma requeue_list_same c D q1 q2 : same_lists q1 q2 ->
  same_lists (fold_left (fun s x => requeue c x s) D q1) (fold_left (fun s x => requeue c x s) D q2).
Proof.
  revert q1 q2. induction D as [|x D IH]; intros q1 q2 S; cbn; [exact S|]. apply IH. apply requeue_same. exact S.
Qed.

(* ---------- removeTx ---------- *)
Lemma l_remove_strict_splits n l t : sorted l -> In t l -> t_nonce t = n ->
  splits l (snd (l_remove_strict n l)) (t :: fst (l_remove_strict n l)).
Proof.
  intros Hs Ht En. unfold l_remove_strict. cbn [fst snd].
  split; [|split; [|split]].
  - intros x. cbn [In]. rewrite !filter_In, !l_remove_in. split.
    + intros Hx. destruct (N.eq_dec (t_nonce x) n) as [E|E].
      * right. left. eapply sorted_nonce_inj; eauto. lia.
      * destruct (n <? t_nonce x) eqn:E'; [right; right|left]; (split; [split; assumption|]); rewrite ?E'; reflexivity.
    + intros [[[Hx _] _]|[<-|[[Hx _] _]]]; assumption.
  - intros x H1 H2. apply filter_In in H1 as [H1 E1]. apply l_remove_in in H1 as [H1 N1].
    destruct H2 as [<-|H2]; [congruence|]. apply filter_In in H2 as [_ E2]. rewrite E2 in E1. discriminate.
  - apply filter_sorted. apply l_remove_sorted. exact Hs.
  - apply nodup_nonce_sub with (l := l); auto.
    + constructor.
      * rewrite filter_In, l_remove_in. intros [[_ N1] _]. congruence.
      * apply nodup_filter. apply nodup_filter. apply sorted_nodup. exact Hs.
    + intros x [<-|Hx]; [exact Ht|]. apply filter_In in Hx as [Hx _]. apply l_remove_in in Hx. tauto.
Qed.

Lemma l_remove_splits n l t : sorted l -> In t l -> t_nonce t = n -> splits l (l_remove n l) [t].
Proof.
  intros Hs Ht En. split; [|split; [|split]].
  - intros x. cbn [In]. rewrite l_remove_in. split.
    + intros Hx. destruct (N.eq_dec (t_nonce x) n) as [E|E]; [|left; auto].
      right. left. eapply sorted_nonce_inj; eauto. lia.
    + intros [[Hx _]|[<-|[]]]; assumption.
  - intros x H1 [<-|[]]. apply l_remove_in in H1. tauto.
  - apply l_remove_sorted. exact Hs.
  - cbn. constructor; [intros []|constructor].
Qed.

Lemma remove_tx_inv0 c t ob p : Inv0 p -> Inv0 (remove_tx c t ob p).
Proof.
  intros H0. unfold remove_tx. destruct (all_has t p) eqn:Eh; cbn [negb]; [|exact H0].
  apply all_has_in in Eh. set (a := t_from t).
  pose proof (inv0_any a _ H0) as H.
  set (p2 := if ob then removed 1 (all_remove t p) else all_remove t p).
  assert (F2 : p_pend p2 = p_pend p /\ p_queue p2 = p_queue p /\ p_all p2 = p_all (all_remove t p)).
  { unfold p2. destruct ob; [|repeat split]. destruct (removed_fields 1 (all_remove t p)) as [A [B [C _]]]. rewrite A, B, C. repeat split. }
  destruct F2 as [Fp [Fq Fa]]. rewrite Fp.
  apply (ir_all _ _ _ H) in Eh. fold a in Eh. cbn [In] in Eh.
  assert (Spl : sorted (aget a (p_pend p))) by apply (ir_pend _ _ _ H a).
  assert (Sql : sorted (aget a (p_queue p))) by apply (ir_queue _ _ _ H a).
  destruct (l_get (t_nonce t) (aget a (p_pend p))) as [y|] eqn:Eg.
  - (* pending branch *)
    apply l_get_in in Eg as [Hy Ey].
    assert (Ht : In t (aget a (p_pend p))).
    { destruct Eh as [Eh|[Eh|[]]]; [exact Eh|]. exfalso. apply (ir_disj _ _ _ H a y t); auto. }
    pose proof (l_remove_strict_splits (t_nonce t) _ t Spl Ht eq_refl) as S.
    destruct (l_remove_strict (t_nonce t) (aget a (p_pend p))) as [invalids pl'] eqn:Er. cbn [fst snd] in S.
    pose proof (invr_pend_to_limbo a [] p pl' (t :: invalids) H S) as H1. rewrite app_nil_r in H1.
    apply invr_drop_one in H1. rewrite <- (app_nil_r invalids) in H1. apply invr_requeue_list with (c := c) in H1.
    apply invr_nil with (a := a). eapply invr_same; [apply same_pn_set_if_lower|].
    eapply invr_same; [|exact H1].
    apply requeue_list_same. unfold same_lists. psimpl. rewrite Fp, Fq, Fa. psimpl. repeat split.
  - (* queue branch *)
    assert (Ht : In t (aget a (p_queue p))).
    { destruct Eh as [Eh|[Eh|[]]]; [|exact Eh]. exfalso. rewrite l_get_none in Eg. eapply Eg; eauto. }
    rewrite Fq. pose proof (l_remove_splits (t_nonce t) _ t Sql Ht eq_refl) as S.
    pose proof (invr_queue_to_limbo a [] p _ [t] H S) as H1. cbn [app] in H1. apply invr_drop_one in H1.
    apply invr_nil with (a := a). eapply invr_same; [|exact H1].
    unfold same_lists. psimpl. rewrite Fp, Fq, Fa. psimpl. repeat split.
Qed.

(* ---------- add ---------- *)
Lemma replace_in_pend a t o loc p :
  InvR a [] p -> In o (aget a (p_pend p)) -> t_nonce o = t_nonce t -> t_from t = a -> ~ in_all t p ->
  InvR a [] (set_pend a (l_put t (aget a (p_pend p))) (all_add t loc (all_remove o p))).
Proof.
  intros H Ho En Ht Hn.
  assert (Spl : sorted (aget a (p_pend p))) by apply (ir_pend _ _ _ H a).
  pose proof (l_remove_splits (t_nonce t) _ o Spl Ho En) as S.
  pose proof (invr_pend_to_limbo a [] p _ [o] H S) as H1. cbn [app] in H1. apply invr_drop_one in H1.
  set (pA := all_remove o (set_pend a (l_remove (t_nonce t) (aget a (p_pend p))) p)) in *.
  assert (H2 : InvR a [t] (all_add t loc pA)).
  { apply invr_all_add; auto.
    - unfold pA. rewrite in_all_remove. unfold in_all in *. psimpl. tauto.
    - unfold pA. psimpl. rewrite aget_aset_same. intros y [Hy|Hy].
      + apply l_remove_in in Hy. intros E. apply (proj2 Hy). auto.
      + intros E. apply (ir_disj _ _ _ H a o y); auto. congruence. }
  apply invr_place_pend in H2. eapply invr_same; [|exact H2].
  unfold same_lists, pA. psimpl. split; [|split; [reflexivity|reflexivity]].
  intros b. rewrite !aget_aset. destruct (a =? b) eqn:E; [|reflexivity].
  rewrite N.eqb_refl. symmetry. apply l_put_remove. exact Spl.
Qed.

Lemma replace_in_queue a t o loc p :
  InvR a [] p -> In o (aget a (p_queue p)) -> t_nonce o = t_nonce t -> t_from t = a -> ~ in_all t p ->
  InvR a [] (set_queue a (l_put t (aget a (p_queue p))) (all_add t loc (all_remove o p))).
Proof.
  intros H Ho En Ht Hn.
  assert (Sql : sorted (aget a (p_queue p))) by apply (ir_queue _ _ _ H a).
  pose proof (l_remove_splits (t_nonce t) _ o Sql Ho En) as S.
  pose proof (invr_queue_to_limbo a [] p _ [o] H S) as H1. cbn [app] in H1. apply invr_drop_one in H1.
  set (pA := all_remove o (set_queue a (l_remove (t_nonce t) (aget a (p_queue p))) p)) in *.
  assert (H2 : InvR a [t] (all_add t loc pA)).
  { apply invr_all_add; auto.
    - unfold pA. rewrite in_all_remove. unfold in_all in *. psimpl. tauto.
    - unfold pA. psimpl. rewrite aget_aset_same. intros y [Hy|Hy].
      + intros E. apply (ir_disj _ _ _ H a y o); auto. congruence.
      + apply l_remove_in in Hy. intros E. apply (proj2 Hy). auto. }
  apply invr_place_queue in H2. eapply invr_same; [|exact H2].
  unfold same_lists, pA. psimpl. split; [reflexivity|split; [|reflexivity]].
  intros b. rewrite !aget_aset. destruct (a =? b) eqn:E; [|reflexivity].
  rewrite N.eqb_refl. symmetry. apply l_put_remove. exact Sql.
Qed.

Lemma insert_in_queue a t loc p :
  InvR a [] p -> l_get (t_nonce t) (aget a (p_pend p)) = None -> l_get (t_nonce t) (aget a (p_queue p)) = None ->
  t_from t = a -> ~ in_all t p ->
  InvR a [] (set_queue a (l_put t (aget a (p_queue p))) (all_add t loc p)).
Proof.
  intros H G1 G2 Ht Hn. rewrite l_get_none in G1, G2.
  assert (H2 : InvR a [t] (all_add t loc p)).
  { apply invr_all_add; auto. intros y [Hy|Hy] E; [apply (G1 y)|apply (G2 y)]; auto. }
  apply invr_place_queue in H2. exact H2.
Qed.

Lemma remote_to_locals_same p : same_lists p (fst (remote_to_locals p)).
Proof.
  unfold remote_to_locals, same_lists. cbn [fst]. psimpl. repeat split. rewrite map_map. reflexivity.
Qed.

Lemma enqueue_tx_inv0 c t loc p p1 r :
  Inv0 p -> ~ in_all t p -> l_get (t_nonce t) (aget (t_from t) (p_pend p)) = None ->
  enqueue_tx c t loc true p = (p1, Some r) -> Inv0 p1.
Proof.
  intros H0 Eh Eg. unfold enqueue_tx. set (a := t_from t). pose proof (inv0_any a _ H0) as H.
  destruct (l_add t (c_bump c) (aget a (p_queue p))) as [[q' old]|] eqn:Ea; [|discriminate].
  destruct (l_add_some _ _ _ _ _ Ea) as [-> [-> _]]. intros [= <- _].
  eapply invr_same; [apply same_heap_put|].
  destruct (l_get (t_nonce t) (aget a (p_queue p))) as [o|] eqn:Eq.
  - apply l_get_in in Eq as [Ho En]. apply invr_nil with (a := a).
    eapply invr_same; [|apply (replace_in_queue a t o loc p H Ho En eq_refl Eh)].
    destruct (removed_fields 1 (all_remove o (set_queue a (l_put t (aget a (p_queue p))) p))) as [A [B [C _]]].
    unfold same_lists. psimpl. rewrite A, B, C. psimpl. repeat split.
  - apply invr_nil with (a := a). apply (insert_in_queue a t loc p H Eg Eq eq_refl Eh).
Qed.

Lemma locals_step_inv0 l p : Inv0 p ->
  Inv0 (let '(p'', migrated) := remote_to_locals (set_locals l p) in removed migrated p'').
Proof.
  intros H. destruct (remote_to_locals (set_locals l p)) as [p'' m] eqn:Er.
  eapply invr_same; [apply same_removed|].
  replace p'' with (fst (remote_to_locals (set_locals l p))) by (rewrite Er; reflexivity).
  eapply invr_same; [apply remote_to_locals_same|]. eapply invr_same; [|exact H]. repeat split.
Qed.

Lemma add_inv0 c t loc p : Inv0 p -> Inv0 (fst (fst (add c t loc p))).
Proof.
  intros H0. unfold add. destruct (all_has t p) eqn:Eh; [exact H0|]. apply all_has_false in Eh.
  destruct (validate p t); [exact H0|].
  destruct (_ <? _); [cbn [fst]; eapply invr_same; [|exact H0]; repeat split|].
  set (a := t_from t). pose proof (inv0_any a _ H0) as H.
  set (isLocal := loc || mem_n a (p_locals p)).
  destruct (l_get (t_nonce t) (aget a (p_pend p))) as [o0|] eqn:Eg.
  - (* replace a pending transaction *)
    destruct (l_add t (c_bump c) (aget a (p_pend p))) as [[pl' old]|] eqn:Ea; [|exact H0].
    destruct (l_add_some _ _ _ _ _ Ea) as [-> [-> _]]. rewrite Eg. cbn [fst].
    apply l_get_in in Eg as [Ho En].
    apply invr_nil with (a := a). eapply invr_same; [|apply (replace_in_pend a t o0 isLocal p H Ho En eq_refl Eh)].
    eapply same_trans; [|apply same_heap_put].
    destruct (removed_fields 1 (all_remove o0 (set_pend a (l_put t (aget a (p_pend p))) p))) as [A [B [C _]]].
    unfold same_lists. psimpl. rewrite A, B, C. psimpl. repeat split.
  - (* enqueueTx *)
    destruct (enqueue_tx c t isLocal true p) as [p1 [replaced|]] eqn:Ee; [|exact H0].
    pose proof (enqueue_tx_inv0 _ _ _ _ _ _ H0 Eh Eg Ee) as H1. cbn [fst].
    destruct (loc && negb (mem_n a (p_locals p1))); [|exact H1].
    apply locals_step_inv0. exact H1.
Qed.

Lemma add_locked_inv0 c txs loc p : Inv0 p -> Inv0 (fst (fst (add_locked c txs loc p))).
Proof.
  revert p. induction txs as [|t r IH]; intros p H; cbn; [exact H|].
  destruct (add c t loc p) as [[p1 v] rep] eqn:Ea.
  assert (H1 : Inv0 p1). { pose proof (add_inv0 c t loc p H) as X. rewrite Ea in X. exact X. }
  specialize (IH p1 H1). destruct (add_locked c r loc p1) as [[p2 vs] d]. exact IH.
Qed.
Lemma add_txs_inv0 c txs loc p : Inv0 p -> Inv0 (fst (fst (add_txs c txs loc p))).
Proof.
  intros H. unfold add_txs.
  pose proof (add_locked_inv0 c (filter (fun t => negb (all_has t p)) txs) loc p H) as X.
  destruct (add_locked c _ loc p) as [[p1 vs] d]. exact X.
Qed.

(* ---------- drop_last (truncatePending) ---------- *)
Lemma removelast_splits l x r : sorted l -> rev l = x :: r -> splits l (removelast l) [x].
Proof.
  intros Hs Er. assert (El : l = rev r ++ [x]).
  { rewrite <- (rev_involutive l), Er. reflexivity. }
  assert (E2 : removelast l = rev r). { rewrite El. apply removelast_last. }
  rewrite E2. rewrite El in Hs |- *. apply splits_app. exact Hs.
Qed.

Lemma drop_last_inv0 a p : Inv0 p -> Inv0 (drop_last a p).
Proof.
  intros H0. unfold drop_last. destruct (rev (aget a (p_pend p))) as [|x r] eqn:Er; [exact H0|].
  pose proof (inv0_any a _ H0) as H.
  pose proof (removelast_splits _ _ _ (proj1 (ir_pend _ _ _ H a)) Er) as S.
  pose proof (invr_pend_to_limbo a [] p _ [x] H S) as H1. cbn [app] in H1. apply invr_drop_one in H1.
  apply invr_nil with (a := a). eapply invr_same; [apply same_removed|]. eapply invr_same; [apply same_pn_set_if_lower|]. exact H1.
Qed.

(* ---------- generic combinators ---------- *)
Definition pres (P : pool -> Prop) (f : pool -> pool) : Prop := forall p, P p -> P (f p).

Lemma fold_pres {A} (P : pool -> Prop) (f : pool -> A -> pool) (l : list A) :
  (forall x, pres P (fun p => f p x)) -> pres P (fun p => fold_left f l p).
Proof. intros Hf. induction l as [|x l IH]; intros p Hp; cbn; [exact Hp|]. apply IH. apply (Hf x). exact Hp. Qed.

Lemma equalize_pres P fuel c prev lp thr pending :
  (forall a, pres P (drop_last a)) -> pres P (fun p => fst (equalize fuel c prev lp thr p pending)).
Proof.
  intros Hd. revert pending. induction fuel as [|f IH]; intros pending p Hp; cbn; [exact Hp|].
  destruct (_ && _); [|exact Hp]. apply IH. apply (fold_pres P (fun s a => drop_last a s)); auto.
Qed.
Lemma tp_stage1_pres P fuel c sp off pending :
  (forall a, pres P (drop_last a)) -> pres P (fun p => fst (fst (tp_stage1 fuel c sp off p pending))).
Proof.
  intros Hd. revert off pending. induction sp as [|o rest IH]; intros off pending p Hp; cbn; [exact Hp|].
  destruct (_ <? _); [|exact Hp]. destruct (rev off) as [|lp _].
  - apply IH. exact Hp.
  - destruct (equalize fuel c off lp (plen p o) p pending) as [p' pending'] eqn:Ee.
    apply IH. pose proof (equalize_pres P fuel c off lp (plen p o) pending Hd p Hp) as X. cbn beta in X. rewrite Ee in X. exact X.
Qed.
Lemma tp_stage2_pres P fuel c off lo pending :
  (forall a, pres P (drop_last a)) -> pres P (fun p => tp_stage2 fuel c off lo p pending).
Proof.
  intros Hd. revert pending. induction fuel as [|f IH]; intros pending p Hp; cbn; [exact Hp|].
  destruct (_ && _); [|exact Hp]. apply IH. apply (fold_pres P (fun s a => drop_last a s)); auto.
Qed.
Lemma truncate_pending_pres P c : (forall a, pres P (drop_last a)) -> pres P (truncate_pending c).
Proof.
  intros Hd p Hp. unfold truncate_pending. destruct (_ <=? _); [exact Hp|].
  destruct (tp_stage1 _ c (spammers c p) [] p (atotal (p_pend p))) as [[p1 pending1] off] eqn:E1.
  assert (H1 : P p1).
  { pose proof (tp_stage1_pres P (S (N.to_nat (atotal (p_pend p)))) c (spammers c p) [] (atotal (p_pend p)) Hd p Hp) as X.
    cbn beta in X. rewrite E1 in X. exact X. }
  destruct (rev off); [exact H1|]. apply tp_stage2_pres; auto.
Qed.

Lemma tq_loop_pres P c order drop :
  (forall t, pres P (remove_tx c t true)) -> pres P (tq_loop c order drop).
Proof.
  intros Hr. revert drop. induction order as [|a rest IH]; intros drop p Hp; cbn; [exact Hp|].
  destruct (drop =? 0); [exact Hp|]. destruct (_ <=? _).
  - apply IH. apply (fold_pres P (fun s t => remove_tx c t true s)); auto.
  - apply (fold_pres P (fun s t => remove_tx c t true s)); auto.
Qed.
Lemma truncate_queue_pres P c order : (forall t, pres P (remove_tx c t true)) -> pres P (truncate_queue c order).
Proof.
  intros Hr p Hp. unfold truncate_queue. destruct (_ <=? _); [exact Hp|]. apply tq_loop_pres; auto.
Qed.

Lemma fix_nonces_same p : same_lists p (fix_nonces p).
Proof.
  unfold fix_nonces. generalize (akeys (p_pend p)) as l. generalize (p_pend p) at 1 as m. intros m l. revert p.
  induction l as [|a l IH]; intros p; cbn [fold_left]; [apply same_refl|]. cbn beta.
  destruct (rev (aget a m)) as [|x ?]; [apply IH|].
  eapply same_trans; [|apply IH]. apply same_pn_set.
Qed.

Lemma set_gas_price_inv0 c g p : Inv0 p -> Inv0 (set_gas_price c g p).
Proof.
  intros H. unfold set_gas_price. destruct (_ <? _); [|eapply invr_same; [|exact H]; repeat split].
  eapply invr_same; [apply same_removed|].
  apply (fold_pres Inv0 (fun s t => remove_tx c t false s)).
  - intros t q Hq. apply remove_tx_inv0. exact Hq.
  - eapply invr_same; [|exact H]. repeat split.
Qed.

Lemma do_reset_inv0 c r p : Inv0 p -> Inv0 (do_reset c r p).
Proof.
  intros H. unfold do_reset.
  pose proof (add_locked_inv0 c (reinject r) false (set_pn [] (set_st (r_st r) p))) as X.
  destruct (add_locked c (reinject r) false _) as [[p2 vs] d]. apply X. eapply invr_same; [|exact H]. repeat split.
Qed.

Lemma run_inv0 c rs dirty qo p : Inv0 p -> Inv0 (run c rs dirty qo p).
Proof.
  intros H. unfold run. eapply invr_same; [apply fix_nonces_same|].
  apply truncate_queue_pres; [intros t q Hq; apply remove_tx_inv0; exact Hq|].
  apply truncate_pending_pres; [intros a q Hq; apply drop_last_inv0; exact Hq|].
  destruct rs as [r|].
  - eapply invr_same; [|apply demote_all_inv0, promote_list_inv0, do_reset_inv0; exact H]. repeat split.
  - apply promote_list_inv0. exact H.
Qed.

Lemma step_inv0 c p o qo : Inv0 p -> Inv0 (fst (step c p o qo)).
Proof.
  intros H. destruct o as [loc txs|g|r|]; cbn.
  - pose proof (add_txs_inv0 c txs loc p H) as X. destruct (add_txs c txs loc p) as [[p1 vs] d]. cbn [fst] in *. apply run_inv0. exact X.
  - apply run_inv0. apply set_gas_price_inv0. exact H.
  - apply run_inv0. exact H.
  - apply run_inv0. exact H.
Qed.

Lemma init_inv0 pl st : Inv0 (init pl st).
Proof.
  constructor; cbn.
  - intros b. split; [exact I|intros ? []].
  - intros b. split; [exact I|intros ? []].
  - intros b x y [].
  - constructor.
  - intros t. unfold in_all; cbn. tauto.
  - intros ? [].
  - constructor.
  - intros ? ? [].
Qed.

Lemma run_hist_inv0 c h p : Inv0 p -> Inv0 (run_hist c p h).
Proof.
  revert p. induction h as [|[o qo] h IH]; intros p H; cbn; [exact H|]. apply IH. apply step_inv0. exact H.
Qed.

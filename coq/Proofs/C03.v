(* C03 — signature value validation, sender derivation, sender cache, payload
   binding and Qi ownership: lemmas behind Props/C03.v. *)
From Coq Require Import List NArith ZArith Bool Lia.
From GQ Require Import Lib.C03_TLV Lib.C03_TLVFacts Generated.C03Params Model.C03 Proofs.C03_Payload.
Import ListNotations.
Local Open Scope Z_scope.

(* ================= (a) signature values ================= *)

(* facts about the generated constants (re-checked whenever crypto/crypto.go changes) *)
Lemma half_is_half : secp_half_n = secp_n / 2.
Proof. vm_compute. reflexivity. Qed.
Lemma n_odd : secp_n = 2 * secp_half_n + 1.
Proof. vm_compute. reflexivity. Qed.
Lemma half_pos : 0 < secp_half_n.
Proof. vm_compute. reflexivity. Qed.

Lemma half_lt_n : secp_half_n < secp_n.
Proof. pose proof n_odd. pose proof half_pos. lia. Qed.

Lemma validate_iff : forall v r s,
  validate_sig_values v r s = true <->
  (1 <= r < secp_n /\ 1 <= s <= secp_half_n /\ (v = 0%N \/ v = 1%N)).
Proof.
  intros v r s. unfold validate_sig_values. pose proof half_lt_n as Hh.
  destruct (r <? 1) eqn:Hr1; destruct (s <? 1) eqn:Hs1; cbn [orb];
    try (split; [discriminate|intros (A & B & C); lia]).
  destruct (s >? secp_half_n) eqn:Hsh.
  - split; [discriminate|intros (A & B & C); lia].
  - destruct (r <? secp_n) eqn:Hrn; destruct (s <? secp_n) eqn:Hsn; cbn [andb];
      try (split; [discriminate|intros (A & B & C); lia]).
    destruct (N.eqb_spec v 0) as [Hv0|Hv0]; destruct (N.eqb_spec v 1) as [Hv1|Hv1]; cbn [orb];
      split; intros Hx; try discriminate; try reflexivity; try (repeat split; try lia; tauto).
    all: try (destruct Hx as (_ & _ & [C|C]); contradiction).
Qed.

Lemma bad_values_rejected : forall v r s,
  r <= 0 \/ s <= 0 \/ r >= secp_n \/ s >= secp_n \/ s > secp_n / 2 \/ (v <> 0%N /\ v <> 1%N) ->
  validate_sig_values v r s = false.
Proof.
  intros v r s Hbad. destruct (validate_sig_values v r s) eqn:Hv; [|reflexivity].
  apply validate_iff in Hv. destruct Hv as (A & B & C). rewrite <- half_is_half in Hbad.
  pose proof half_lt_n. exfalso. destruct Hbad as [X|[X|[X|[X|[X|[X Y]]]]]]; try lia.
  all: try (destruct C; contradiction).
Qed.

(* the ECDSA twin (r, n - s) of an accepted signature is rejected *)
Lemma malleable_twin_rejected : forall v v' r s,
  validate_sig_values v r s = true -> validate_sig_values v' r (secp_n - s) = false.
Proof.
  intros v v' r s Hv. apply validate_iff in Hv. destruct Hv as (A & B & C).
  apply bad_values_rejected. right. right. right. right. left.
  rewrite <- half_is_half. pose proof n_odd. lia.
Qed.

(* recoverPlain's V handling: which big.Int V pass the BitLen and byte() steps as 0 or 1 *)
Lemma v_byte_accepts : forall vb,
  bitlen_gt8 vb = false -> (v_byte vb = 0%N \/ v_byte vb = 1%N) ->
  vb = 27 \/ vb = 28 \/ vb = -27 \/ vb = -28.
Proof.
  intros vb Hb Hv. unfold bitlen_gt8 in Hb. unfold v_byte in Hv.
  assert (Ha : Z.abs vb < 256) by lia.
  pose proof (Z.mod_pos_bound (Z.abs vb - 27) 256 ltac:(lia)) as Hm.
  pose proof (Z.div_mod (Z.abs vb - 27) 256 ltac:(lia)) as Hd.
  set (m := (Z.abs vb - 27) mod 256) in *. set (q := (Z.abs vb - 27) / 256) in *.
  assert (Hm01 : m = 0 \/ m = 1) by lia.
  assert (q = 0) by lia.
  lia.
Qed.

Lemma v_byte_27 : v_byte 27 = 0%N /\ v_byte 28 = 1%N /\ v_byte (-27) = 0%N /\ v_byte (-28) = 1%N.
Proof. vm_compute. repeat split. Qed.

(* ================= (b) sender ================= *)

Section SenderFacts.
  Variables hash pub addr : Type.
  Variable H : bytes -> hash.
  Variable ecrecover : hash -> Z -> Z -> N -> option pub.
  Variable addr_of_pub : pub -> addr.

  Notation recover_plain := (recover_plain hash pub addr ecrecover addr_of_pub).
  Notation signer_sender := (signer_sender hash pub addr H ecrecover addr_of_pub).
  Notation sender_cached := (sender_cached hash pub addr H ecrecover addr_of_pub).
  Notation cstep := (cstep hash pub addr H ecrecover addr_of_pub).
  Notation crun := (crun hash pub addr H ecrecover addr_of_pub).
  Notation crun_state := (crun_state hash pub addr H ecrecover addr_of_pub).
  Notation uncached := (uncached hash pub addr H ecrecover addr_of_pub).

  Lemma recover_plain_ok : forall h r s vb a,
    recover_plain h r s vb = ROk a ->
    (vb = 27 \/ vb = 28 \/ vb = -27 \/ vb = -28)
    /\ 1 <= r < secp_n /\ 1 <= s <= secp_half_n
    /\ exists p, ecrecover h r s (v_byte vb) = Some p /\ a = addr_of_pub p.
  Proof.
    intros h r s vb a Hr. unfold C03.recover_plain in Hr.
    destruct (bitlen_gt8 vb) eqn:Hb; [discriminate|].
    destruct (validate_sig_values (v_byte vb) r s) eqn:Hv; cbn [negb] in Hr; [|discriminate].
    apply validate_iff in Hv. destruct Hv as (A & B & C).
    destruct (ecrecover h r s (v_byte vb)) as [p|] eqn:He; [|discriminate].
    injection Hr as Hr. repeat split; try lia.
    - apply v_byte_accepts; assumption.
    - exists p. split; [reflexivity|symmetry; exact Hr].
  Qed.

  Lemma recover_plain_bad : forall h r s vb,
    (r <= 0 \/ s <= 0 \/ r >= secp_n \/ s >= secp_n \/ s > secp_n / 2
     \/ (vb <> 27 /\ vb <> 28 /\ vb <> -27 /\ vb <> -28)) ->
    recover_plain h r s vb = RErrSig.
  Proof.
    intros h r s vb Hbad. unfold C03.recover_plain.
    destruct (bitlen_gt8 vb) eqn:Hb; [reflexivity|].
    destruct (validate_sig_values (v_byte vb) r s) eqn:Hv; cbn [negb]; [|reflexivity].
    exfalso. pose proof Hv as Hv2. apply validate_iff in Hv2. destruct Hv2 as (A & B & C).
    pose proof (v_byte_accepts vb Hb C).
    rewrite <- half_is_half in Hbad. pose proof half_lt_n. lia.
  Qed.

  Lemma wrong_chain : forall sg t, q_chain t <> sg -> signer_sender sg t = RErrChain.
  Proof.
    intros sg t Hne. unfold C03.signer_sender.
    destruct (N.eqb_spec (q_chain t) sg) as [He|He]; [contradiction|reflexivity].
  Qed.

  Lemma sender_ok : forall sg t a, signer_sender sg t = ROk a ->
    q_chain t = sg
    /\ (q_v t = 0 \/ q_v t = 1 \/ q_v t = -54 \/ q_v t = -55)
    /\ 1 <= q_r t < secp_n /\ 1 <= q_s t <= secp_half_n
    /\ exists p, ecrecover (H (signing_bytes (q_f t))) (q_r t) (q_s t) (v_byte (q_v t + 27)) = Some p
                 /\ a = addr_of_pub p.
  Proof.
    intros sg t a Hs. unfold C03.signer_sender in Hs.
    destruct (N.eqb_spec (q_chain t) sg) as [He|He]; cbn [negb] in Hs; [|discriminate].
    apply recover_plain_ok in Hs. destruct Hs as (Hv & Hr & Hss & Hp).
    split; [exact He|]. split; [lia|]. split; [exact Hr|]. split; [exact Hss|exact Hp].
  Qed.

  Lemma sender_bad_sig : forall sg t,
    (q_r t <= 0 \/ q_s t <= 0 \/ q_r t >= secp_n \/ q_s t >= secp_n \/ q_s t > secp_n / 2
     \/ (0 <= q_v t /\ q_v t <> 0 /\ q_v t <> 1)) ->
    signer_sender sg t = RErrChain \/ signer_sender sg t = RErrSig.
  Proof.
    intros sg t Hbad. unfold C03.signer_sender.
    destruct (negb (q_chain t =? sg)%N); [left; reflexivity|right].
    apply recover_plain_bad. lia.
  Qed.

  (* a negative big.Int V aliases 0 / 1: BitLen and Uint64 read |V+27| *)
  Lemma negative_v_alias : forall sg f r s p m w,
    signer_sender sg (mkQ f (-54) r s p m w) = signer_sender sg (mkQ f 0 r s p m w)
    /\ signer_sender sg (mkQ f (-55) r s p m w) = signer_sender sg (mkQ f 1 r s p m w).
  Proof. intros sg f r s p m w. split; reflexivity. Qed.

  (* ---- cache ---- *)

  Definition cache_inv (t : qtx) (c : cache addr) : Prop :=
    match c with
    | None => True
    | Some (cc, a) => cc = q_chain t /\ signer_sender cc t = ROk a
    end.

  Lemma sender_cached_spec : forall t c sg, cache_inv t c ->
    snd (sender_cached c sg t) = signer_sender sg t /\ cache_inv t (fst (sender_cached c sg t)).
  Proof.
    intros t c sg Hinv. unfold C03.sender_cached.
    assert (Hfresh : forall c0 : cache addr, cache_inv t c0 ->
       snd (match signer_sender sg t with ROk a => (Some (sg, a), ROk a) | e => (c0, e) end) = signer_sender sg t
       /\ cache_inv t (fst (match signer_sender sg t with ROk a => (Some (sg, a), ROk a) | e => (c0, e) end))).
    { intros c0 H0. destruct (signer_sender sg t) as [a| | |] eqn:Hs; cbn [fst snd]; try (split; [reflexivity|exact H0]).
      split; [reflexivity|]. cbn. split; [|exact Hs].
      apply sender_ok in Hs. destruct Hs as [Hc _]. symmetry. exact Hc. }
    destruct c as [[cc a]|].
    - destruct (N.eqb_spec cc sg) as [He|He].
      + cbn [fst snd]. split; [|exact Hinv]. cbn in Hinv. destruct Hinv as [Hc Hs]. subst. symmetry. exact Hs.
      + apply Hfresh. exact Hinv.
    - apply Hfresh. exact Hinv.
  Qed.

  Definition st_inv (t : qtx) (st : cstate addr) : Prop := cache_inv t (fst st).

  Lemma cstep_spec : forall t st o, st_inv t st ->
    snd (cstep t st o) = uncached t o /\ st_inv t (fst (cstep t st o)).
  Proof.
    intros t [c hm] o Hinv. unfold st_inv in *. cbn [fst] in Hinv. destruct o as [chain loc|]; cbn [C03.cstep C03.uncached fst snd].
    - pose proof (sender_cached_spec t c chain Hinv) as [Hs Hi].
      destruct (sender_cached c chain t) as [c' r]. cbn [fst snd] in *. split; [f_equal; exact Hs|exact Hi].
    - destruct hm; cbn [fst snd]; [split; [reflexivity|exact Hinv]|].
      pose proof (sender_cached_spec t c (q_chain t) Hinv) as [Hs Hi].
      destruct (sender_cached c (q_chain t) t) as [c' r]. cbn [fst snd] in *. split; [reflexivity|exact Hi].
  Qed.

  Lemma crun_transparent : forall t ops st, st_inv t st -> crun t st ops = map (uncached t) ops.
  Proof.
    intros t ops. induction ops as [|o ops IH]; intros st Hinv; cbn [C03.crun map]; [reflexivity|].
    pose proof (cstep_spec t st o Hinv) as [Hs Hi].
    destruct (cstep t st o) as [st' r]. cbn [fst snd] in *. rewrite Hs. f_equal. apply IH. exact Hi.
  Qed.

  Lemma crun_state_inv : forall t ops st, st_inv t st -> st_inv t (crun_state t st ops).
  Proof.
    intros t ops. unfold C03.crun_state. induction ops as [|o ops IH]; intros st Hinv; cbn [fold_left]; [exact Hinv|].
    apply IH. apply cstep_spec. exact Hinv.
  Qed.

  Lemma init_inv : forall t hm, st_inv t (None, hm).
  Proof. intros t hm. exact I. Qed.

  (* every answer in every history is the uncached answer; in particular wrong chains error *)
  Lemma history_transparent : forall t ops, crun t (None, false) ops = map (uncached t) ops.
  Proof. intros t ops. apply crun_transparent. apply init_inv. Qed.

  Lemma history_wrong_chain : forall t ops pre chain loc post,
    ops = pre ++ OSender chain loc :: post -> q_chain t <> chain ->
    nth (length pre) (crun t (None, false) ops) CNone = CRes RErrChain.
  Proof.
    intros t ops pre chain loc post Hops Hne. rewrite history_transparent. subst ops.
    rewrite map_app. rewrite app_nth2; rewrite map_length; [|lia].
    rewrite Nat.sub_diag. cbn [map nth C03.uncached]. f_equal. apply wrong_chain. exact Hne.
  Qed.

  Lemma history_cache_owner : forall t ops cc a,
    fst (crun_state t (None, false) ops) = Some (cc, a) ->
    cc = q_chain t /\ signer_sender cc t = ROk a.
  Proof.
    intros t ops cc a Hc. pose proof (crun_state_inv t ops (None, false) (init_inv t false)) as Hinv.
    unfold st_inv in Hinv. rewrite Hc in Hinv. exact Hinv.
  Qed.

  (* without the invariant (e.g. after Transaction.SetFrom) the cache answers for a chain the
     transaction was not signed for: the invariant is what carries the property *)
  Lemma poisoned_cache_answers : forall t a sg, sender_cached (Some (sg, a)) sg t = (Some (sg, a), ROk a).
  Proof. intros t a sg. unfold C03.sender_cached. rewrite N.eqb_refl. reflexivity. Qed.

  (* ---- payload binding ---- *)

  (* what a counterexample to binding would hand us: two different byte strings whose hashes,
     under one (r, s, v), recover public keys with the same address *)
  Definition sig_reuse_collision : Prop :=
    exists b1 b2 r s v p1 p2, b1 <> b2
      /\ ecrecover (H b1) r s v = Some p1 /\ ecrecover (H b2) r s v = Some p2
      /\ addr_of_pub p1 = addr_of_pub p2.

  Lemma bytes_eq_dec : forall a b : bytes, {a = b} + {a <> b}.
  Proof. intros a b. apply (list_eq_dec N.eq_dec). Qed.

  Lemma binds_payload : forall sg1 sg2 t1 t2 a,
    signer_sender sg1 t1 = ROk a -> signer_sender sg2 t2 = ROk a ->
    q_r t1 = q_r t2 -> q_s t1 = q_s t2 -> v_byte (q_v t1 + 27) = v_byte (q_v t2 + 27) ->
    q_f t1 = q_f t2 \/ sig_reuse_collision.
  Proof.
    intros sg1 sg2 t1 t2 a H1 H2 Hr Hs Hv.
    apply sender_ok in H1. apply sender_ok in H2.
    destruct H1 as (_ & _ & _ & _ & p1 & He1 & Ha1). destruct H2 as (_ & _ & _ & _ & p2 & He2 & Ha2).
    destruct (bytes_eq_dec (signing_bytes (q_f t1)) (signing_bytes (q_f t2))) as [Hb|Hb].
    - left. apply signing_bytes_inj. exact Hb.
    - right. exists (signing_bytes (q_f t1)), (signing_bytes (q_f t2)), (q_r t1), (q_s t1), (v_byte (q_v t1 + 27)), p1, p2.
      split; [exact Hb|]. split; [exact He1|]. split; [rewrite Hr, Hs, Hv; exact He2|congruence].
  Qed.

  Lemma no_cross_chain_replay : forall sg1 sg2 t1 t2 a,
    sg1 <> sg2 ->
    signer_sender sg1 t1 = ROk a -> signer_sender sg2 t2 = ROk a ->
    q_r t1 = q_r t2 -> q_s t1 = q_s t2 -> v_byte (q_v t1 + 27) = v_byte (q_v t2 + 27) ->
    sig_reuse_collision.
  Proof.
    intros sg1 sg2 t1 t2 a Hne H1 H2 Hr Hs Hv.
    destruct (binds_payload sg1 sg2 t1 t2 a H1 H2 Hr Hs Hv) as [Hf|Hc]; [|exact Hc].
    exfalso. apply sender_ok in H1. apply sender_ok in H2.
    destruct H1 as [Hc1 _]. destruct H2 as [Hc2 _]. unfold q_chain in *. rewrite Hf in Hc1. congruence.
  Qed.

  (* with decidable equality on hashes the collision splits into a hash collision or a
     recovery collision on two different hashes *)
  Variable hash_eq_dec : forall x y : hash, {x = y} + {x <> y}.

  Definition hash_collision : Prop := exists b1 b2, b1 <> b2 /\ H b1 = H b2.
  Definition recover_collision : Prop :=
    exists h1 h2 r s v p1 p2, h1 <> h2 /\ ecrecover h1 r s v = Some p1 /\ ecrecover h2 r s v = Some p2
      /\ addr_of_pub p1 = addr_of_pub p2.

  Lemma collision_split : sig_reuse_collision -> hash_collision \/ recover_collision.
  Proof.
    intros (b1 & b2 & r & s & v & p1 & p2 & Hb & H1 & H2 & Ha).
    destruct (hash_eq_dec (H b1) (H b2)) as [Hh|Hh].
    - left. exists b1, b2. split; assumption.
    - right. exists (H b1), (H b2), r, s, v, p1, p2. repeat split; assumption.
  Qed.
End SenderFacts.

(* ================= (d) Qi ================= *)

Section QiFacts.
  Variables hash pub addr sig : Type.
  Variable H : bytes -> hash.
  Variable addr_of_pub : pub -> addr.
  Variable addr_eqb : addr -> addr -> bool.
  Variable in_qi_scope : addr -> bool.
  Variable parse_ok : pub -> bool.
  Variable agg : list pub -> option pub.
  Variable verify : pub -> hash -> sig -> bool.

  Notation own_loop := (own_loop pub addr addr_of_pub addr_eqb in_qi_scope parse_ok).
  Notation qi_authorised := (qi_authorised hash pub addr sig H addr_of_pub addr_eqb in_qi_scope parse_ok agg verify).
  Notation final_key := (final_key pub agg).

  (* input i is spent by its owner's key *)
  Definition owned (cs : bool) (i : pub * option addr) : Prop :=
    exists ea, snd i = Some ea /\ addr_eqb (addr_of_pub (fst i)) ea = true
               /\ in_qi_scope (addr_of_pub (fst i)) = true /\ (cs = true -> parse_ok (fst i) = true).

  Lemma own_loop_ok : forall cs ins, own_loop cs ins = QOk -> Forall (owned cs) ins.
  Proof.
    intros cs. induction ins as [|[pk e] rest IH]; intros Hl; [constructor|].
    cbn [C03.own_loop] in Hl. destruct e as [ea|]; [|discriminate].
    destruct (in_qi_scope (addr_of_pub pk)) eqn:Hsc; cbn [negb] in Hl; [|discriminate].
    destruct (addr_eqb (addr_of_pub pk) ea) eqn:Heq; cbn [negb] in Hl; [|discriminate].
    destruct (cs && negb (parse_ok pk)) eqn:Hp; [discriminate|].
    constructor; [|apply IH; exact Hl].
    exists ea. cbn [fst snd]. repeat split; try assumption.
    intros Hcs. subst cs. cbn in Hp. destruct (parse_ok pk); [reflexivity|discriminate].
  Qed.

  Lemma own_loop_not_owner : forall cs ins, ~ Forall (owned cs) ins -> own_loop cs ins <> QOk.
  Proof. intros cs ins Hn Hl. apply Hn. apply own_loop_ok. exact Hl. Qed.

  Lemma authorised_ok : forall chain cs f ins sg,
    qi_authorised chain cs f ins sg = QOk ->
    ins <> [] /\ qi_chain f = chain /\ Forall (owned cs) ins
    /\ (cs = true -> exists k, final_key (map fst ins) = Some k
                              /\ verify k (H (qi_signing_bytes f)) sg = true).
  Proof.
    intros chain cs f ins sg Ha. unfold C03.qi_authorised in Ha.
    destruct ins as [|i0 rest]; [discriminate|]. split; [discriminate|].
    destruct (N.eqb_spec (qi_chain f) chain) as [Hc|Hc]; cbn [negb] in Ha; [|discriminate].
    split; [exact Hc|].
    destruct (own_loop cs (i0 :: rest)) eqn:Hl; try discriminate.
    split; [apply own_loop_ok; exact Hl|].
    intros Hcs. subst cs.
    destruct (final_key (map fst (i0 :: rest))) as [k|]; [|discriminate].
    exists k. split; [reflexivity|]. destruct (verify k (H (qi_signing_bytes f)) sg); [reflexivity|discriminate].
  Qed.

  Lemma unchecked_ignores_signature : forall chain f ins sg sg',
    qi_authorised chain false f ins sg = qi_authorised chain false f ins sg'.
  Proof.
    intros chain f ins sg sg'. unfold C03.qi_authorised.
    destruct ins; [reflexivity|]. destruct (negb (qi_chain f =? chain)%N); [reflexivity|].
    destruct (own_loop false (p :: ins)); reflexivity.
  Qed.

  (* the loop accepts EXACTLY when every input (each one, at its own position) is owned *)
  Lemma own_loop_complete : forall cs ins, Forall (owned cs) ins -> own_loop cs ins = QOk.
  Proof.
    intros cs. induction ins as [|[pk e] rest IH]; intros Hf; [reflexivity|].
    inversion Hf as [|x l Ho Hr]; subst. destruct Ho as (ea & He & Heq & Hsc & Hp).
    cbn [fst snd] in He, Heq, Hsc, Hp. subst e. cbn [C03.own_loop].
    rewrite Hsc, Heq. cbn [negb].
    destruct cs; cbn [andb].
    - rewrite (Hp eq_refl). cbn [negb]. apply IH. exact Hr.
    - apply IH. exact Hr.
  Qed.

  Lemma own_loop_iff : forall cs ins, own_loop cs ins = QOk <-> Forall (owned cs) ins.
  Proof. intros cs ins. split; [apply own_loop_ok|apply own_loop_complete]. Qed.

  Lemma authorised_iff : forall chain cs f ins sg,
    qi_authorised chain cs f ins sg = QOk <->
    (ins <> [] /\ qi_chain f = chain /\ Forall (owned cs) ins
     /\ (cs = true -> exists k, final_key (map fst ins) = Some k
                               /\ verify k (H (qi_signing_bytes f)) sg = true)).
  Proof.
    intros chain cs f ins sg. split; [apply authorised_ok|].
    intros (Hne & Hc & Hf & Hs). unfold C03.qi_authorised.
    destruct ins as [|i0 rest]; [contradiction Hne; reflexivity|].
    rewrite Hc, N.eqb_refl. cbn [negb].
    rewrite (own_loop_complete cs (i0 :: rest) Hf).
    destruct cs; [|reflexivity].
    destruct (Hs eq_refl) as (k & Hk & Hv). rewrite Hk, Hv. reflexivity.
  Qed.

  (* one input, anywhere in the list, whose entry is missing or is not owned by the key the input
     carries: refused - whatever the other inputs are *)
  Lemma foreign_input_refused : forall chain cs f pre pk e post sg,
    (forall ea, e = Some ea -> addr_eqb (addr_of_pub pk) ea = false) ->
    qi_authorised chain cs f (pre ++ (pk, e) :: post) sg <> QOk.
  Proof.
    intros chain cs f pre pk e post sg Hfor Ha.
    apply authorised_ok in Ha. destruct Ha as (_ & _ & Hf & _).
    rewrite Forall_forall in Hf.
    destruct (Hf (pk, e)) as (ea & He & Heq & _); [apply in_or_app; right; left; reflexivity|].
    cbn [fst snd] in He, Heq. rewrite (Hfor ea He) in Heq. discriminate.
  Qed.

  (* ---- with the lookup explicit: every input against the entry under ITS OWN outpoint ---- *)
  Variable outpoint : Type.
  Notation qi_process := (qi_process hash pub addr sig H addr_of_pub addr_eqb in_qi_scope parse_ok agg verify outpoint).

  Definition spent_by_owner (utxo : outpoint -> option addr) (cs : bool) (i : outpoint * pub) : Prop :=
    exists ea, utxo (fst i) = Some ea /\ addr_eqb (addr_of_pub (snd i)) ea = true
               /\ in_qi_scope (addr_of_pub (snd i)) = true /\ (cs = true -> parse_ok (snd i) = true).

  Lemma lookup_owned : forall utxo cs oins,
    Forall (owned cs) (qi_lookup pub addr outpoint utxo oins) <-> Forall (spent_by_owner utxo cs) oins.
  Proof.
    intros utxo cs oins. unfold C03.qi_lookup. rewrite Forall_map.
    split; intros Hf; eapply Forall_impl; try exact Hf; intros [op pk] Ho; exact Ho.
  Qed.

  Lemma process_iff : forall utxo chain cs f oins sg,
    qi_process utxo chain cs f oins sg = QOk <->
    (oins <> [] /\ qi_chain f = chain /\ Forall (spent_by_owner utxo cs) oins
     /\ (cs = true -> exists k, final_key (map snd oins) = Some k
                               /\ verify k (H (qi_signing_bytes f)) sg = true)).
  Proof.
    intros utxo chain cs f oins sg. unfold C03.qi_process. rewrite authorised_iff, lookup_owned.
    assert (Hm : map fst (qi_lookup pub addr outpoint utxo oins) = map snd oins).
    { unfold C03.qi_lookup. rewrite map_map. reflexivity. }
    rewrite Hm.
    assert (Hn : qi_lookup pub addr outpoint utxo oins <> [] <-> oins <> []).
    { unfold C03.qi_lookup. destruct oins as [|o l]; cbn [map]; [tauto|]. split; intros _ Hy; discriminate Hy. }
    rewrite Hn. reflexivity.
  Qed.

  Lemma process_every_input : forall utxo chain cs f oins sg,
    qi_process utxo chain cs f oins sg = QOk ->
    forall n op pk, nth_error oins n = Some (op, pk) -> spent_by_owner utxo cs (op, pk).
  Proof.
    intros utxo chain cs f oins sg Ha n op pk Hn.
    apply process_iff in Ha. destruct Ha as (_ & _ & Hf & _).
    rewrite Forall_forall in Hf. apply Hf. eapply nth_error_In. exact Hn.
  Qed.

  (* the seeded shape: a key that legitimately spends one entry is repeated on an input consuming an
     entry it does not own (or no entry): refused on both paths, at any positions *)
  Lemma process_key_reuse_refused : forall utxo chain cs f pre op0 mid op pk post sg,
    spent_by_owner utxo cs (op0, pk) ->
    (forall ea, utxo op = Some ea -> addr_eqb (addr_of_pub pk) ea = false) ->
    qi_process utxo chain cs f (pre ++ (op0, pk) :: mid ++ (op, pk) :: post) sg <> QOk
    /\ qi_process utxo chain cs f (pre ++ (op, pk) :: mid ++ (op0, pk) :: post) sg <> QOk.
  Proof.
    intros utxo chain cs f pre op0 mid op pk post sg _ Hfor.
    split; intros Ha; apply process_iff in Ha; destruct Ha as (_ & _ & Hf & _);
      rewrite Forall_forall in Hf.
    - destruct (Hf (op, pk)) as (ea & He & Heq & _).
      { apply in_or_app; right; right. apply in_or_app; right; left; reflexivity. }
      cbn [fst snd] in He, Heq. rewrite (Hfor ea He) in Heq. discriminate.
    - destruct (Hf (op, pk)) as (ea & He & Heq & _).
      { apply in_or_app; right; left; reflexivity. }
      cbn [fst snd] in He, Heq. rewrite (Hfor ea He) in Heq. discriminate.
  Qed.

  Definition schnorr_reuse : Prop :=
    exists b1 b2 k sg, b1 <> b2 /\ verify k (H b1) sg = true /\ verify k (H b2) sg = true.

  Lemma qi_binds_payload : forall chain1 chain2 f1 f2 ins1 ins2 sg,
    qi_authorised chain1 true f1 ins1 sg = QOk -> qi_authorised chain2 true f2 ins2 sg = QOk ->
    map fst ins1 = map fst ins2 ->
    f1 = f2 \/ schnorr_reuse.
  Proof.
    intros chain1 chain2 f1 f2 ins1 ins2 sg H1 H2 Hk.
    apply authorised_ok in H1. apply authorised_ok in H2.
    destruct H1 as (_ & _ & _ & H1). destruct H2 as (_ & _ & _ & H2).
    destruct (H1 eq_refl) as (k1 & Hk1 & Hv1). destruct (H2 eq_refl) as (k2 & Hk2 & Hv2).
    rewrite Hk in Hk1. rewrite Hk1 in Hk2. injection Hk2 as Hk2. subst k2.
    destruct (list_eq_dec N.eq_dec (qi_signing_bytes f1) (qi_signing_bytes f2)) as [Hb|Hb].
    - left. apply qi_signing_bytes_inj. exact Hb.
    - right. exists (qi_signing_bytes f1), (qi_signing_bytes f2), k1, sg. repeat split; assumption.
  Qed.
End QiFacts.

(* ---- NOT the code: the weaker loop that tests ownership once per DISTINCT carried key (the
   "already checked this key" shortcut).  Kept only to state that it is not equivalent: it accepts
   a spend whose second input consumes somebody else's entry. ---- *)
Section QiDedup.
  Variables pub addr : Type.
  Variable addr_of_pub : pub -> addr.
  Variable addr_eqb : addr -> addr -> bool.
  Variable in_qi_scope : addr -> bool.
  Variable parse_ok : pub -> bool.
  Variable pub_eqb : pub -> pub -> bool.

  Fixpoint own_loop_per_key (check_sig : bool) (seen : list pub) (ins : list (pub * option addr))
    : qverdict :=
    match ins with
    | [] => QOk
    | (pk, e) :: rest =>
        match e with
        | None => QMissing
        | Some ea =>
            if existsb (pub_eqb pk) seen then
              if check_sig && negb (parse_ok pk) then QParse
              else own_loop_per_key check_sig seen rest
            else
              let a := addr_of_pub pk in
              if negb (in_qi_scope a) then QScope
              else if negb (addr_eqb a ea) then QOwner
              else if check_sig && negb (parse_ok pk) then QParse
              else own_loop_per_key check_sig (pk :: seen) rest
        end
    end.
End QiDedup.

Lemma per_key_loop_differs :
  exists ins : list (N * option N),
    own_loop_per_key N N (fun p => p) N.eqb (fun _ => true) (fun _ => true) N.eqb true [] ins = QOk
    /\ own_loop N N (fun p => p) N.eqb (fun _ => true) (fun _ => true) true ins = QOwner
    /\ own_loop_per_key N N (fun p => p) N.eqb (fun _ => true) (fun _ => true) N.eqb false [] ins = QOk
    /\ own_loop N N (fun p => p) N.eqb (fun _ => true) (fun _ => true) false ins = QOwner.
Proof. exists [(1%N, Some 1%N); (1%N, Some 2%N)]. vm_compute. repeat split. Qed.

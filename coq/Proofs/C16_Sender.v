(* C16 — the sender cache of a transaction object (Model/C16.v: sender_step, sop_step, run_ops).
   Addresses handed out from stored / cached bytes are classified at the location of the
   signer that ASKS; nothing depends on which signer filled the cache. *)
From Coq Require Import List NArith PeanoNat Arith Bool Lia ZifyBool ZifyNat ZifyN.
From GQ Require Import Lib.Key Model.C16 Proofs.C16.
Import ListNotations.
Local Open Scope N_scope.
Local Notation length := List.length (only parsing).

(* ------------------------------------------------------------------ *)
(* well-formedness: Keccak digests are 32 bytes; cached bytes are 20 bytes *)

Definition tx_wf (t : txobj) : Prop :=
  match tdigest t with Some d => length d = 32%nat | None => True end.

Definition cache_wf (s : sstate) : Prop :=
  match st_cache s with Some (_, _, b) => length b = 20%nat | None => True end.

Lemma skipn12_length (d : bytes) : length d = 32%nat -> length (skipn 12 d) = 20%nat.
Proof. intros H. rewrite skipn_length, H. reflexivity. Qed.

Lemma digest_to_address_spec (d : bytes) l : length d = 32%nat ->
  digest_to_address d l = classify (skipn 12 d) l.
Proof.
  intros H. unfold digest_to_address, bytes_to_address.
  apply bta_20_spec, skipn12_length, H.
Qed.

Lemma bytes20_spec (b : bytes) l : length b = 20%nat -> bytes20_to_address b l = classify b l.
Proof. intros H. unfold bytes20_to_address, bytes_to_address. apply bta_20_spec, H. Qed.

Lemma classify_bytes a l : res_bytes (classify a l) = a.
Proof. unfold classify. destruct (in_zone a l); reflexivity. Qed.

Lemma classify_not_err a l : classify a l <> Err.
Proof. unfold classify. destruct (in_zone a l); discriminate. Qed.

(* SignerV1.Sender on a signed transaction: an error that does not depend on the location, or the
   class of the 20 digest bytes at the signer's location *)
Lemma signer_sender_quai t c l : tk t = TQuai -> tx_wf t ->
  (signer_sender t c l = Err /\ forall l', signer_sender t c l' = Err)
  \/ (exists d, tdigest t = Some d /\ tchain t = c /\ length (skipn 12 d) = 20%nat /\
        forall l', signer_sender t c l' = classify (skipn 12 d) l').
Proof.
  intros Hk Hwf. unfold signer_sender. rewrite Hk.
  destruct (tchain t =? c) eqn:Ec; cbn [negb]; [|left; split; auto].
  apply N.eqb_eq in Ec.
  unfold tx_wf in Hwf. destruct (tdigest t) as [d|] eqn:Ed; [|left; split; auto].
  right. exists d. repeat split; auto using skipn12_length.
  intros l'. apply digest_to_address_spec, Hwf.
Qed.

(* ------------------------------------------------------------------ *)
(* the cached bytes are always 20 bytes long *)

Lemma sender_step_wf t s c l : tx_wf t -> cache_wf s -> cache_wf (snd (sender_step t s c l)).
Proof.
  intros Ht Hs. unfold sender_step. destruct (tk t) eqn:Hk; cbn [snd]; auto.
  assert (Hmiss : cache_wf (snd (match signer_sender t c l with
                                 | Err => (Err, s)
                                 | r => (r, set_cache s (Some (c, l, res_bytes r)))
                                 end))).
  { destruct (signer_sender_quai t c l Hk Ht) as [[E _]|[d [_ [_ [Hl E]]]]].
    - rewrite E. exact Hs.
    - rewrite (E l). unfold classify. destruct (in_zone (skipn 12 d) l); cbn; exact Hl. }
  unfold cache_wf in Hs. destruct (st_cache s) as [[[c0 fl] from]|] eqn:Ecache; [|exact Hmiss].
  destruct (c0 =? c); [|exact Hmiss]. cbn [snd]. unfold cache_wf. rewrite Ecache. exact Hs.
Qed.

Lemma hash_step_wf t s w : tx_wf t -> cache_wf s -> cache_wf (hash_step t s w).
Proof.
  intros Ht Hs. unfold hash_step. destruct (st_hashed s); auto.
  destruct (tk t) eqn:Hk; auto. destruct w; auto.
  pose proof (sender_step_wf t s (tchain t) [0; 0] Ht Hs) as H.
  destruct (sender_step t s (tchain t) [0; 0]) as [r s']. cbn [snd] in H.
  destruct r; exact H.
Qed.

Lemma sop_step_wf t s o : tx_wf t -> cache_wf s -> cache_wf (snd (sop_step t s o)).
Proof.
  intros Ht Hs. destruct o as [c l|c l|l|a c l|w|c l|l]; cbn [sop_step].
  - pose proof (sender_step_wf t s c l Ht Hs) as H.
    destruct (sender_step t s c l). exact H.
  - exact Hs.
  - destruct (st_cache s) as [[[? ?] ?]|]; exact Hs.
  - cbn. unfold cache_wf. cbn. apply to20_length.
  - cbn. apply hash_step_wf; assumption.
  - pose proof (sender_step_wf t _ c l Ht (hash_step_wf t s false Ht Hs)) as H.
    destruct (sender_step t (hash_step t s false) c l). exact H.
  - destruct (st_fromchain s); [exact Hs|].
    destruct (tk t) eqn:Hk; try exact Hs.
    + pose proof (sender_step_wf t s (tchain t) l Ht Hs) as H.
      destruct (sender_step t s (tchain t) l) as [r s']. cbn [snd] in H. destruct r; cbn; auto.
    + pose proof (sender_step_wf t s (tchain t) l Ht Hs) as H.
      destruct (sender_step t s (tchain t) l) as [r s']. cbn [snd] in H. destruct r; cbn; auto.
Qed.

Lemma run_ops_wf t ops : forall s, tx_wf t -> cache_wf s -> cache_wf (snd (run_ops t s ops)).
Proof.
  induction ops as [|o ops IH]; intros s Ht Hs; cbn [run_ops]; [exact Hs|].
  pose proof (sop_step_wf t s o Ht Hs) as H1.
  destruct (sop_step t s o) as [x s1]. cbn [snd] in H1.
  specialize (IH s1 Ht H1). destruct (run_ops t s1 ops) as [xs s2]. exact IH.
Qed.

Lemma st_init_wf : cache_wf st_init.
Proof. exact I. Qed.

(* ------------------------------------------------------------------ *)
(* THE clause: whatever was done with the transaction object before, Sender / From answer with
   the class of 20 bytes AT THE ASKING LOCATION *)

Lemma sender_step_class t s c l : tk t = TQuai -> tx_wf t -> cache_wf s ->
  fst (sender_step t s c l) = Err
  \/ exists a, length a = 20%nat /\ fst (sender_step t s c l) = classify a l.
Proof.
  intros Hk Ht Hs. unfold sender_step. rewrite Hk.
  assert (Hmiss : fst (match signer_sender t c l with
                       | Err => (Err, s)
                       | r => (r, set_cache s (Some (c, l, res_bytes r)))
                       end) = Err
                  \/ exists a, length a = 20%nat /\
                       fst (match signer_sender t c l with
                            | Err => (Err, s)
                            | r => (r, set_cache s (Some (c, l, res_bytes r)))
                            end) = classify a l).
  { destruct (signer_sender_quai t c l Hk Ht) as [[E _]|[d [_ [_ [Hl E]]]]].
    - rewrite E. left. reflexivity.
    - right. exists (skipn 12 d). split; [exact Hl|]. rewrite (E l).
      unfold classify. destruct (in_zone (skipn 12 d) l); reflexivity. }
  unfold cache_wf in Hs. destruct (st_cache s) as [[[c0 fl] from]|]; [|exact Hmiss].
  destruct (c0 =? c); [|exact Hmiss].
  right. exists from. split; [exact Hs|]. cbn [fst]. apply bytes20_spec, Hs.
Qed.

Lemma sender_after_history_class t ops c l : tk t = TQuai -> tx_wf t ->
  let r := fst (sender_step t (snd (run_ops t st_init ops)) c l) in
  r = Err \/ exists a, length a = 20%nat /\ r = classify a l.
Proof.
  intros Hk Ht. apply sender_step_class; auto. apply run_ops_wf; auto. exact st_init_wf.
Qed.

Lemma from_after_history_class t ops l : tx_wf t ->
  let x := fst (sop_step t (snd (run_ops t st_init ops)) (SFrom l)) in
  x = SNil \/ exists a, length a = 20%nat /\ x = sobs_of_res (classify a l).
Proof.
  intros Ht. pose proof (run_ops_wf t ops st_init Ht st_init_wf) as Hs.
  cbn [sop_step]. unfold cache_wf in Hs.
  destruct (st_cache (snd (run_ops t st_init ops))) as [[[c0 fl] from]|]; [|left; reflexivity].
  right. exists from. split; [exact Hs|]. cbn [fst]. rewrite (bytes20_spec from l Hs). reflexivity.
Qed.

(* ------------------------------------------------------------------ *)
(* without SetFrom the cached sender is the true one: the warm answer IS the cold answer *)

Definition cache_true (t : txobj) (s : sstate) : Prop :=
  match st_cache s with
  | None => True
  | Some (c, _, b) => c = tchain t /\ exists d, tdigest t = Some d /\ b = skipn 12 d
  end.

Definition is_setfrom (o : sop) : bool := match o with SSetFrom _ _ _ => true | _ => false end.

Lemma sender_step_true t s c l : tk t = TQuai -> tx_wf t -> cache_true t s ->
  fst (sender_step t s c l) = signer_sender t c l /\ cache_true t (snd (sender_step t s c l)).
Proof.
  intros Hk Ht Hs. unfold sender_step. rewrite Hk.
  assert (Hmiss : fst (match signer_sender t c l with
                       | Err => (Err, s)
                       | r => (r, set_cache s (Some (c, l, res_bytes r)))
                       end) = signer_sender t c l
                  /\ cache_true t (snd (match signer_sender t c l with
                                        | Err => (Err, s)
                                        | r => (r, set_cache s (Some (c, l, res_bytes r)))
                                        end))).
  { destruct (signer_sender_quai t c l Hk Ht) as [[E _]|[d [Ed [Ec [Hl E]]]]].
    - rewrite E. split; [reflexivity|exact Hs].
    - rewrite (E l). unfold classify. destruct (in_zone (skipn 12 d) l); cbn [fst snd];
        (split; [reflexivity|]); unfold cache_true; cbn; (split; [auto|exists d; auto]). }
  unfold cache_true in Hs. destruct (st_cache s) as [[[c0 fl] from]|] eqn:Ecache; [|exact Hmiss].
  destruct (c0 =? c) eqn:Ec; [|exact Hmiss].
  apply N.eqb_eq in Ec. destruct Hs as [Hc [d [Ed Hb]]]. subst c0 from. cbn [fst snd].
  split.
  - unfold signer_sender. rewrite Hk, <- Ec, N.eqb_refl, Ed. cbn [negb].
    unfold tx_wf in Ht. rewrite Ed in Ht.
    rewrite (digest_to_address_spec d l Ht). apply bytes20_spec, skipn12_length, Ht.
  - unfold cache_true. rewrite Ecache. split; [reflexivity|exists d; auto].
Qed.

Lemma hash_step_true t s w : tk t = TQuai -> tx_wf t -> cache_true t s -> cache_true t (hash_step t s w).
Proof.
  intros Hk Ht Hs. unfold hash_step. destruct (st_hashed s); auto. rewrite Hk.
  destruct w; auto.
  destruct (sender_step_true t s (tchain t) [0; 0] Hk Ht Hs) as [_ H].
  destruct (sender_step t s (tchain t) [0; 0]) as [r s']. cbn [snd] in H. destruct r; exact H.
Qed.

Lemma sop_step_true t s o : tk t = TQuai -> tx_wf t -> is_setfrom o = false ->
  cache_true t s -> cache_true t (snd (sop_step t s o)).
Proof.
  intros Hk Ht Ho Hs. destruct o as [c l|c l|l|a c l|w|c l|l]; cbn [sop_step]; try discriminate.
  - destruct (sender_step_true t s c l Hk Ht Hs) as [_ H].
    destruct (sender_step t s c l). exact H.
  - exact Hs.
  - destruct (st_cache s) as [[[? ?] ?]|]; exact Hs.
  - cbn. apply hash_step_true; assumption.
  - destruct (sender_step_true t _ c l Hk Ht (hash_step_true t s false Hk Ht Hs)) as [_ H].
    destruct (sender_step t (hash_step t s false) c l). exact H.
  - destruct (st_fromchain s); [exact Hs|]. rewrite Hk.
    destruct (sender_step_true t s (tchain t) l Hk Ht Hs) as [_ H].
    destruct (sender_step t s (tchain t) l) as [r s']. cbn [snd] in H. destruct r; cbn; auto.
Qed.

Lemma run_ops_true t ops : forall s, tk t = TQuai -> tx_wf t ->
  existsb is_setfrom ops = false -> cache_true t s -> cache_true t (snd (run_ops t s ops)).
Proof.
  induction ops as [|o ops IH]; intros s Hk Ht Hno Hs; cbn [run_ops]; [exact Hs|].
  cbn [existsb] in Hno. apply orb_false_iff in Hno. destruct Hno as [Ho Hno].
  pose proof (sop_step_true t s o Hk Ht Ho Hs) as H1.
  destruct (sop_step t s o) as [x s1]. cbn [snd] in H1.
  specialize (IH s1 Hk Ht Hno H1). destruct (run_ops t s1 ops) as [xs s2]. exact IH.
Qed.

Lemma warm_equals_cold t ops c l : tk t = TQuai -> tx_wf t -> existsb is_setfrom ops = false ->
  fst (sender_step t (snd (run_ops t st_init ops)) c l) = signer_sender t c l.
Proof.
  intros Hk Ht Hno. apply sender_step_true; auto.
  apply run_ops_true; auto. exact I.
Qed.

(* ------------------------------------------------------------------ *)
(* nothing depends on the location of the signer that filled the cache: two histories that
   differ ONLY in the locations of their signers leave states in which every query answers alike *)

Definition erase (s : sstate) : option (N * bytes) * bool * option location :=
  (match st_cache s with Some (c, _, b) => Some (c, b) | None => None end, st_hashed s, st_fromchain s).

Inductive sop_sim : sop -> sop -> Prop :=
| sim_sender c l l' : sop_sim (SSender c l) (SSender c l')
| sim_direct c l l' : sop_sim (SDirect c l) (SDirect c l')
| sim_from l l' : sop_sim (SFrom l) (SFrom l')
| sim_setfrom a c l l' : sop_sim (SSetFrom a c l) (SSetFrom a c l')
| sim_hash w : sop_sim (SHash w) (SHash w)
| sim_asmsg c l l' : sop_sim (SAsMsg c l) (SAsMsg c l')
| sim_fromchain l l' : sop_sim (SFromChain l) (SFromChain l').

Lemma erase_inv s s' : erase s = erase s' ->
  st_hashed s = st_hashed s' /\ st_fromchain s = st_fromchain s' /\
  match st_cache s, st_cache s' with
  | Some (c, _, b), Some (c', _, b') => c = c' /\ b = b'
  | None, None => True
  | _, _ => False
  end.
Proof.
  unfold erase. intros H. inversion H as [[H1 H2 H3]]. repeat split; auto.
  destruct (st_cache s) as [[[c fl] b]|], (st_cache s') as [[[c' fl'] b']|]; try discriminate; auto.
  inversion H1. auto.
Qed.

(* location-independent part of a result: error-ness and bytes *)
Definition res_sim (r r' : res) : Prop := (r = Err <-> r' = Err) /\ res_bytes r = res_bytes r'.

Lemma signer_sender_sim t c l l' : tx_wf t -> res_sim (signer_sender t c l) (signer_sender t c l').
Proof.
  intros Ht. destruct (tk t) eqn:Hk.
  - destruct (signer_sender_quai t c l Hk Ht) as [[E E']|[d [_ [_ [_ E]]]]].
    + rewrite E, (E' l'). split; tauto.
    + rewrite (E l), (E l'). split; [|rewrite !classify_bytes; reflexivity].
      split; intros H; exfalso; eapply classify_not_err; eauto.
  - unfold signer_sender. rewrite Hk. split; tauto.
  - unfold signer_sender. rewrite Hk. split; tauto.
Qed.

Lemma sender_step_sim t s s' c l l' : tx_wf t -> erase s = erase s' ->
  res_sim (fst (sender_step t s c l)) (fst (sender_step t s' c l'))
  /\ erase (snd (sender_step t s c l)) = erase (snd (sender_step t s' c l')).
Proof.
  intros Ht He. pose proof (erase_inv s s' He) as [Hh [Hf Hc]].
  unfold sender_step. destruct (tk t) eqn:Hk; cbn [fst snd]; try (split; [split; tauto|exact He]).
  assert (Hmiss :
    res_sim (fst (match signer_sender t c l with
                  | Err => (Err, s) | r => (r, set_cache s (Some (c, l, res_bytes r))) end))
            (fst (match signer_sender t c l' with
                  | Err => (Err, s') | r => (r, set_cache s' (Some (c, l', res_bytes r))) end))
    /\ erase (snd (match signer_sender t c l with
                   | Err => (Err, s) | r => (r, set_cache s (Some (c, l, res_bytes r))) end))
       = erase (snd (match signer_sender t c l' with
                     | Err => (Err, s') | r => (r, set_cache s' (Some (c, l', res_bytes r))) end))).
  { destruct (signer_sender_sim t c l l' Ht) as [Herr Hb].
    destruct (signer_sender t c l) as [a|a|] eqn:E1, (signer_sender t c l') as [a'|a'|] eqn:E2;
      cbn [fst snd res_bytes] in *;
      try (exfalso; destruct Herr as [H1 H2]; (discriminate (H1 eq_refl) || discriminate (H2 eq_refl)));
      try (split; [split; [split; intros; discriminate|exact Hb]|
                   unfold erase; cbn; rewrite Hh, Hf, Hb; reflexivity]).
    split; [split; tauto|exact He]. }
  destruct (st_cache s) as [[[c0 fl] b]|] eqn:E1, (st_cache s') as [[[c0' fl'] b']|] eqn:E2;
    try contradiction; [|exact Hmiss].
  destruct Hc as [-> ->]. destruct (c0' =? c); [|exact Hmiss]. cbn [fst snd].
  split; [|exact He].
  unfold bytes20_to_address, bytes_to_address. split.
  - split; intros H; exfalso; eapply bta_not_err; eauto.
  - rewrite !bta_bytes. reflexivity.
Qed.

Lemma erase_set_hashed s s' : erase s = erase s' -> erase (set_hashed s) = erase (set_hashed s').
Proof. unfold erase. intros H. inversion H. cbn. congruence. Qed.

Lemma hash_step_sim t s s' w : tx_wf t -> erase s = erase s' ->
  erase (hash_step t s w) = erase (hash_step t s' w).
Proof.
  intros Ht He. pose proof (erase_inv s s' He) as [Hh _].
  unfold hash_step. rewrite <- Hh. destruct (st_hashed s); [exact He|].
  destruct (tk t); try (apply erase_set_hashed, He).
  destruct w; [apply erase_set_hashed, He|].
  destruct (sender_step_sim t s s' (tchain t) [0; 0] [0; 0] Ht He) as [[Herr _] Hs].
  destruct (sender_step t s (tchain t) [0; 0]) as [r s1], (sender_step t s' (tchain t) [0; 0]) as [r' s1'].
  cbn [fst snd] in *.
  destruct r, r'; try exact Hs; try (apply erase_set_hashed, Hs);
    exfalso; destruct Herr as [H1 H2]; (discriminate (H1 eq_refl) || discriminate (H2 eq_refl)).
Qed.

Lemma erase_set_fromchain s s' x : erase s = erase s' -> erase (set_fromchain s x) = erase (set_fromchain s' x).
Proof. unfold erase. intros H. inversion H. cbn. congruence. Qed.

Lemma sop_step_sim t s s' o o' : tx_wf t -> erase s = erase s' -> sop_sim o o' ->
  erase (snd (sop_step t s o)) = erase (snd (sop_step t s' o')).
Proof.
  intros Ht He Ho. pose proof (erase_inv s s' He) as [Hh [Hf Hc]].
  destruct Ho as [c l l'|c l l'|l l'|a c l l'|w|c l l'|l l']; cbn [sop_step].
  - destruct (sender_step_sim t s s' c l l' Ht He) as [_ H].
    destruct (sender_step t s c l), (sender_step t s' c l'). exact H.
  - exact He.
  - destruct (st_cache s) as [[[? ?] ?]|], (st_cache s') as [[[? ?] ?]|]; try contradiction; exact He.
  - cbn [snd]. unfold erase. cbn. rewrite Hh, Hf. reflexivity.
  - cbn [snd]. apply hash_step_sim; assumption.
  - destruct (sender_step_sim t _ _ c l l' Ht (hash_step_sim t s s' false Ht He)) as [_ H].
    destruct (sender_step t (hash_step t s false) c l), (sender_step t (hash_step t s' false) c l'). exact H.
  - rewrite <- Hf. destruct (st_fromchain s); [exact He|].
    destruct (tk t) eqn:Hk.
    + destruct (sender_step_sim t s s' (tchain t) l l' Ht He) as [[Herr Hb] Hs].
      destruct (sender_step t s (tchain t) l) as [r s1], (sender_step t s' (tchain t) l') as [r' s1'].
      cbn [fst snd] in *.
      destruct r, r'; cbn [snd res_bytes] in *; try exact He;
        try (rewrite Hb; apply erase_set_fromchain, Hs);
        exfalso; destruct Herr as [H1 H2]; (discriminate (H1 eq_refl) || discriminate (H2 eq_refl)).
    + cbn [snd]. apply erase_set_fromchain, He.
    + destruct (sender_step_sim t s s' (tchain t) l l' Ht He) as [[Herr Hb] Hs].
      destruct (sender_step t s (tchain t) l) as [r s1], (sender_step t s' (tchain t) l') as [r' s1'].
      cbn [fst snd] in *.
      destruct r, r'; cbn [snd res_bytes] in *; try exact He;
        try (rewrite Hb; apply erase_set_fromchain, Hs);
        exfalso; destruct Herr as [H1 H2]; (discriminate (H1 eq_refl) || discriminate (H2 eq_refl)).
Qed.

Lemma run_ops_sim t ops ops' : tx_wf t -> Forall2 sop_sim ops ops' ->
  forall s s', erase s = erase s' -> erase (snd (run_ops t s ops)) = erase (snd (run_ops t s' ops')).
Proof.
  intros Ht H. induction H as [|o o' ops ops' Ho _ IH]; intros s s' He; cbn [run_ops]; [exact He|].
  pose proof (sop_step_sim t s s' o o' Ht He Ho) as H1.
  destruct (sop_step t s o) as [x s1], (sop_step t s' o') as [x' s1']. cbn [snd] in H1.
  specialize (IH s1 s1' H1).
  destruct (run_ops t s1 ops) as [xs s2], (run_ops t s1' ops') as [xs' s2']. exact IH.
Qed.

(* a query (same op, same asking location) answers alike in states that agree up to filler locations *)
Lemma sender_step_same_loc t s s' c l : tx_wf t -> erase s = erase s' ->
  fst (sender_step t s c l) = fst (sender_step t s' c l).
Proof.
  intros Ht He. pose proof (erase_inv s s' He) as [_ [_ Hc]].
  unfold sender_step. destruct (tk t); try reflexivity.
  destruct (st_cache s) as [[[c0 fl] b]|], (st_cache s') as [[[c0' fl'] b']|]; try contradiction.
  - destruct Hc as [-> ->]. destruct (c0' =? c); [reflexivity|].
    destruct (signer_sender t c l); reflexivity.
  - destruct (signer_sender t c l); reflexivity.
Qed.

Lemma query_same_answer t s s' q : tx_wf t -> erase s = erase s' ->
  fst (sop_step t s q) = fst (sop_step t s' q).
Proof.
  intros Ht He. pose proof (erase_inv s s' He) as [Hh [Hf Hc]].
  destruct q as [c l|c l|l|a c l|w|c l|l]; cbn [sop_step]; try reflexivity.
  - pose proof (sender_step_same_loc t s s' c l Ht He) as H.
    destruct (sender_step t s c l), (sender_step t s' c l). cbn [fst] in *. congruence.
  - destruct (st_cache s) as [[[c0 fl] b]|], (st_cache s') as [[[c0' fl'] b']|]; try contradiction; [|reflexivity].
    destruct Hc as [_ ->]. reflexivity.
  - pose proof (sender_step_same_loc t _ _ c l Ht (hash_step_sim t s s' false Ht He)) as H.
    destruct (sender_step t (hash_step t s false) c l), (sender_step t (hash_step t s' false) c l).
    cbn [fst] in *. congruence.
  - rewrite <- Hf. destruct (st_fromchain s); [reflexivity|].
    destruct (tk t); try reflexivity.
    + pose proof (sender_step_same_loc t s s' (tchain t) l Ht He) as H.
      destruct (sender_step t s (tchain t) l) as [r s1], (sender_step t s' (tchain t) l) as [r' s1'].
      cbn [fst] in H. subst r'. destruct r; reflexivity.
    + pose proof (sender_step_same_loc t s s' (tchain t) l Ht He) as H.
      destruct (sender_step t s (tchain t) l) as [r s1], (sender_step t s' (tchain t) l) as [r' s1'].
      cbn [fst] in H. subst r'. destruct r; reflexivity.
Qed.

Lemma answers_independent_of_fillers t ops ops' q : tx_wf t -> Forall2 sop_sim ops ops' ->
  fst (sop_step t (snd (run_ops t st_init ops)) q) = fst (sop_step t (snd (run_ops t st_init ops')) q).
Proof.
  intros Ht H. apply query_same_answer; auto. apply run_ops_sim; auto.
Qed.

(* ------------------------------------------------------------------ *)
(* the seeded defect, as a model variant: on a cache hit the bytes are re-wrapped at the location
   of the signer that FILLED the cache.  It violates the clause after a plain tx.Hash(). *)
Definition sender_step_filler_variant (t : txobj) (s : sstate) (chain : N) (l : location) : res :=
  match st_cache s with
  | Some (c, fl, from) => if c =? chain then bytes20_to_address from fl else signer_sender t chain l
  | None => signer_sender t chain l
  end.

Definition witness_tx : txobj :=
  mk_tx TQuai 9 (Some (repeat 0 12 ++ 1 :: 5 :: repeat 7 18)) [] [].   (* sender 01 05 07..: zone (0,1), Quai *)

Lemma witness_after_hash :
  fst (sender_step witness_tx (snd (run_ops witness_tx st_init [SHash false])) 9 [0; 1])
    = Internal (1 :: 5 :: repeat 7 18)
  /\ sender_step_filler_variant witness_tx (snd (run_ops witness_tx st_init [SHash false])) 9 [0; 1]
    = External (1 :: 5 :: repeat 7 18)
  /\ in_zone (1 :: 5 :: repeat 7 18) [0; 1] = true.
Proof. vm_compute. auto. Qed.

(* C12 — the model's inventory of journal entry kinds and StateDB methods, and the boolean
   checks that compare it with the inventory generated from the source (Generated/C12Journal.v).
   The tables are tied to the model by lemmas: [kind_dirties]/[kind_rejournals] describe
   [dirtied]/[undo_dirt], and [op_kinds] bounds what [mutate] appends. *)
From Coq Require Import String.
From Coq Require Import List NArith ZArith Bool Lia.
From GQ Require Import Lib.Key Lib.SMap Lib.C12_Laws Model.C12 Proofs.C12.
Import ListNotations.

Definition kind_name (k : jkind) : string :=
  match k with
  | KcreateObjectChange => "createObjectChange" | KresetObjectChange => "resetObjectChange"
  | KsuicideChange => "suicideChange" | KbalanceChange => "balanceChange" | KnonceChange => "nonceChange"
  | KstorageChange => "storageChange" | KcodeChange => "codeChange" | KsizeChange => "sizeChange"
  | KrefundChange => "refundChange" | KaddLogChange => "addLogChange" | KaddPreimageChange => "addPreimageChange"
  | KtouchChange => "touchChange" | KaccessListAddAccountChange => "accessListAddAccountChange"
  | KaccessListAddSlotChange => "accessListAddSlotChange" | KtransientStorageChange => "transientStorageChange"
  end%string.

Definition all_kinds : list jkind :=
  [KcreateObjectChange; KresetObjectChange; KsuicideChange; KbalanceChange; KnonceChange; KstorageChange;
   KcodeChange; KsizeChange; KrefundChange; KaddLogChange; KaddPreimageChange; KtouchChange;
   KaccessListAddAccountChange; KaccessListAddSlotChange; KtransientStorageChange].

Definition jkind_eqb (a b : jkind) : bool := String.eqb (kind_name a) (kind_name b).

Definition kind_dirties (k : jkind) : bool :=
  match k with
  | KcreateObjectChange | KsuicideChange | KbalanceChange | KnonceChange | KstorageChange
  | KcodeChange | KsizeChange | KtouchChange => true
  | _ => false
  end.

(* revert() of this kind goes through a journalling setter *)
Definition kind_rejournals (k : jkind) : bool := match k with KsizeChange => code_rejournal | _ => false end.

Lemma kind_dirties_spec e : kind_dirties (kind_of e) = match dirtied e with Some _ => true | None => false end.
Proof. destruct e; reflexivity. Qed.

Lemma kind_rejournals_spec e d : kind_rejournals (kind_of e) = false ->
  undo_dirt e d = match dirtied e with Some a => ddec a d | None => d end.
Proof. destruct e; cbn [kind_rejournals kind_of undo_dirt dirtied]; intros H; try rewrite H; reflexivity. Qed.

Lemma kind_rejournals_size a p d : code_rejournal = true -> undo_dirt (ESize a p) d = ddec a (dinc a d).
Proof. intros H. cbn [undo_dirt]. rewrite H. reflexivity. Qed.

Lemma all_kinds_complete k : In k all_kinds.
Proof. destruct k; cbn; tauto. Qed.

Definition kind_by_name (n : string) : option jkind := find (fun k => String.eqb (kind_name k) n) all_kinds.

(* every kind of the source is known to the model with the same dirtied()/re-journalling behaviour,
   and the model has no kind the source lacks *)
Definition journal_kinds_covered_b (gen : list (string * bool * bool)) : bool :=
  forallb (fun x => let '(n, d, r) := x in
             match kind_by_name n with
             | Some k => Bool.eqb d (kind_dirties k) && Bool.eqb r (kind_rejournals k)
             | None => false
             end) gen
  && forallb (fun k => existsb (fun x => String.eqb (fst (fst x)) (kind_name k)) gen) all_kinds.

(* ---------- which kinds an operation may append ---------- *)
Definition op_kinds (o : op) : list jkind :=
  match o with
  | OAddBalance _ _ => [KcreateObjectChange; KresetObjectChange; KtouchChange; KbalanceChange]
  | OSubBalance _ _ | OSetBalance _ _ => [KcreateObjectChange; KresetObjectChange; KbalanceChange]
  | OSetNonce _ _ => [KcreateObjectChange; KresetObjectChange; KnonceChange]
  | OSetCode _ _ => [KcreateObjectChange; KresetObjectChange; KcodeChange]
  | OSetState _ _ _ => [KcreateObjectChange; KresetObjectChange; KstorageChange]
  | OSuicide _ => [KsuicideChange]
  | OCreateAccount _ | OGetOrNew _ => [KcreateObjectChange; KresetObjectChange]
  | OSetSize _ _ | OAddSize _ | OSubSize _ => [KcreateObjectChange; KresetObjectChange; KsizeChange]
  | OAddLog _ => [KaddLogChange]
  | OAddPreimage _ _ => [KaddPreimageChange]
  | OAddRefund _ | OSubRefund _ => [KrefundChange]
  | OALAddr _ => [KaccessListAddAccountChange]
  | OALSlot _ _ => [KaccessListAddAccountChange; KaccessListAddSlotChange]
  | OSetTransient _ _ _ => [KtransientStorageChange]
  | OSnapshot | ORevert _ => []
  end.

(* m extends m0 by entries whose kinds are in S *)
Definition KI (S : list jkind) (m0 m : mstate) : Prop :=
  exists es, m_jr m = es ++ m_jr m0 /\ Forall (fun e => In (kind_of e) S) es.

Lemma KI_refl S m : KI S m m.  Proof. exists []. split; [reflexivity|constructor]. Qed.
Lemma KI_append S m0 m e : In (kind_of e) S -> KI S m0 m -> KI S m0 (append e m).
Proof. intros H [es [E F]]. exists (e :: es). split; [cbn; rewrite E; reflexivity|constructor; assumption]. Qed.
Lemma KI_same S m0 m m' : m_jr m' = m_jr m -> KI S m0 m -> KI S m0 m'.
Proof. intros E [es [E' F]]. exists es. rewrite E. auto. Qed.

Lemma KI_create S m0 a m : In KcreateObjectChange S -> In KresetObjectChange S -> KI S m0 m -> KI S m0 (fst (create_object a m)).
Proof.
  intros H1 H2 H. unfold create_object. cbn [fst].
  destruct (get a (objs (m_core m))) as [p|].
  - eapply KI_same; [|apply (KI_append S m0 m (EResetObject a p) H2 H)]. reflexivity.
  - eapply KI_same; [|apply (KI_append S m0 m (ECreateObject a) H1 H)]. reflexivity.
Qed.

Lemma KI_gon S m0 a m : In KcreateObjectChange S -> In KresetObjectChange S -> KI S m0 m -> KI S m0 (fst (get_or_new a m)).
Proof. intros H1 H2 H. unfold get_or_new. destruct (live a (m_core m)); cbn [fst]; [exact H|apply KI_create; assumption]. Qed.

Ltac kin := cbn; tauto.
Ltac kgon a m m1 ob H1 :=
  destruct (get_or_new a m) as [m1 ob] eqn:?G;
  match goal with G : get_or_new a m = _ |- KI ?S _ _ =>
    assert (KI S m m1) as H1 by (pose proof (KI_gon S m a m ltac:(kin) ltac:(kin) (KI_refl S m)) as X; rewrite G in X; exact X)
  end.

Lemma mutate_kinds fx o m : KI (op_kinds o) m (fst (mutate fx o m)).
Proof.
  destruct o; unfold mutate; cbn [op_kinds].
  - kgon a m m1 ob H1. destruct (Z.eqb v 0); cbn [fst].
    + destruct (acct_empty ob); [|exact H1]. unfold touch.
      destruct (keqb a ripemd); (eapply KI_same; [|apply (KI_append _ m m1 (ETouch a)); [kin|exact H1]]; reflexivity).
    + eapply KI_same; [|apply (KI_append _ m m1 (EBalance a (a_bal ob))); [kin|exact H1]]; reflexivity.
  - kgon a m m1 ob H1. destruct (Z.eqb v 0); cbn [fst]; [exact H1|].
    eapply KI_same; [|apply (KI_append _ m m1 (EBalance a (a_bal ob))); [kin|exact H1]]; reflexivity.
  - kgon a m m1 ob H1. cbn [fst].
    eapply KI_same; [|apply (KI_append _ m m1 (EBalance a (a_bal ob))); [kin|exact H1]]; reflexivity.
  - kgon a m m1 ob H1. cbn [fst].
    eapply KI_same; [|apply (KI_append _ m m1 (ENonce a (a_nonce ob))); [kin|exact H1]]; reflexivity.
  - kgon a m m1 ob H1. cbn [fst].
    eapply KI_same; [|apply (KI_append _ m m1 (ECode a (a_code ob))); [kin|exact H1]]; reflexivity.
  - kgon a m m1 ob H1. destruct (N.eqb (getw k (a_stor ob)) v); cbn [fst]; [exact H1|].
    eapply KI_same; [|apply (KI_append _ m m1 (EStorage a k (getw k (a_stor ob)))); [kin|exact H1]]; reflexivity.
  - destruct (live a (m_core m)) as [ob|]; cbn [fst]; [|apply KI_refl].
    eapply KI_same; [|apply (KI_append _ m m (ESuicide a (a_suic ob) (a_bal ob) (if fx then Some (a_size ob) else None))); [kin|apply KI_refl]]; reflexivity.
  - destruct (create_object a m) as [m1 prev] eqn:C.
    assert (KI [KcreateObjectChange; KresetObjectChange] m m1) as H1
      by (pose proof (KI_create [KcreateObjectChange; KresetObjectChange] m a m ltac:(kin) ltac:(kin) (KI_refl _ m)) as X; rewrite C in X; exact X).
    destruct prev; cbn [fst]; [|exact H1]. eapply KI_same; [|exact H1]. reflexivity.
  - cbn [fst]. apply KI_gon; [kin|kin|apply KI_refl].
  - kgon a m m1 ob H1. cbn [fst].
    eapply KI_same; [|apply (KI_append _ m m1 (ESize a (a_size ob))); [kin|exact H1]]; reflexivity.
  - kgon a m m1 ob H1. cbn [fst].
    eapply KI_same; [|apply (KI_append _ m m1 (ESize a (a_size ob))); [kin|exact H1]]; reflexivity.
  - kgon a m m1 ob H1. cbn [fst].
    eapply KI_same; [|apply (KI_append _ m m1 (ESize a (a_size ob))); [kin|exact H1]]; reflexivity.
  - cbn [fst]. eapply KI_same; [|apply (KI_append _ m m EAddLog); [kin|apply KI_refl]]; reflexivity.
  - destruct (get h (preim (m_core m))); cbn [fst]; [apply KI_refl|].
    eapply KI_same; [|apply (KI_append _ m m (EAddPreimage h)); [kin|apply KI_refl]]; reflexivity.
  - cbn [fst]. eapply KI_same; [|apply (KI_append _ m m (ERefund (refund (m_core m)))); [kin|apply KI_refl]]; reflexivity.
  - cbn [m_core append]. destruct (N.ltb (refund (m_core m)) g); cbn [fst];
      (eapply KI_same; [|apply (KI_append _ m m (ERefund (refund (m_core m)))); [kin|apply KI_refl]]; reflexivity).
  - destruct (get a (al_addr (m_core m))); cbn [fst]; [apply KI_refl|].
    eapply KI_same; [|apply (KI_append _ m m (EALAccount a)); [kin|apply KI_refl]]; reflexivity.
  - cbn [fst]. unfold al_add_slot. destruct (get a (al_addr (m_core m))) as [i|].
    + destruct (Z.ltb i 0).
      * eapply KI_same; [|apply (KI_append _ m m (EALSlot a s)); [kin|apply KI_refl]]; reflexivity.
      * destruct (nth_error (al_slots (m_core m)) (Z.to_nat i)) as [ss|]; [|apply KI_refl].
        destruct (get s ss); [apply KI_refl|].
        eapply KI_same; [|apply (KI_append _ m m (EALSlot a s)); [kin|apply KI_refl]]; reflexivity.
    + eapply KI_same; [|apply (KI_append _ m (append (EALAccount a) m) (EALSlot a s)); [kin|]]; [reflexivity|].
      apply KI_append; [kin|apply KI_refl].
  - destruct (N.eqb (getw (a ++ k) (transient (m_core m))) v); cbn [fst]; [apply KI_refl|].
    eapply KI_same; [|apply (KI_append _ m m (ETransient a k (getw (a ++ k) (transient (m_core m))))); [kin|apply KI_refl]]; reflexivity.
  - apply KI_refl.
  - apply KI_refl.
Qed.

(* ---------- classification of the methods of StateDB / stateObject ---------- *)
Inductive mclass :=
| MOp (kinds : list jkind)   (* modelled by an operation of Model/C12.v that appends at most these kinds *)
| MRead                      (* reads / caches only: nothing to revert *)
| MTx (why : string).        (* transaction/block boundary or debugging: never runs inside a call frame *)

Definition K0 : key := [].
Local Open Scope string_scope.
Definition statedb_class : list (string * mclass) := [
  ("AddAddressToAccessList", MOp (op_kinds (OALAddr K0)));
  ("AddBalance", MOp (op_kinds (OAddBalance K0 0)));
  ("AddLog", MOp (op_kinds (OAddLog 0)));
  ("AddPreimage", MOp (op_kinds (OAddPreimage K0 [])));
  ("AddRefund", MOp (op_kinds (OAddRefund 0)));
  ("AddSlotToAccessList", MOp (op_kinds (OALSlot K0 K0)));
  ("CreateAccount", MOp (op_kinds (OCreateAccount K0)));
  ("GetOrNewStateObject", MOp (op_kinds (OGetOrNew K0)));
  ("SetBalance", MOp (op_kinds (OSetBalance K0 0)));
  ("SetCode", MOp (op_kinds (OSetCode K0 [])));
  ("SetNonce", MOp (op_kinds (OSetNonce K0 0)));
  ("SetState", MOp (op_kinds (OSetState K0 K0 0%N)));
  ("SetTransientState", MOp (op_kinds (OSetTransient K0 K0 0%N)));
  ("SubBalance", MOp (op_kinds (OSubBalance K0 0)));
  ("SubRefund", MOp (op_kinds (OSubRefund 0)));
  ("Suicide", MOp (op_kinds (OSuicide K0)));
  ("Snapshot", MOp []); ("RevertToSnapshot", MOp []);
  ("PrepareAccessList", MOp (op_kinds (OALSlot K0 K0)));   (* = AddAddressToAccessList / AddSlotToAccessList calls, before the first frame *)
  ("AddressInAccessList", MRead); ("SlotInAccessList", MRead); ("Empty", MRead); ("Exist", MRead);
  ("ForEachStorage", MRead); ("GetBalance", MRead); ("GetCode", MRead); ("GetCodeHash", MRead);
  ("GetCodeSize", MRead); ("GetCommittedState", MRead); ("GetKQuai", MRead); ("GetNonce", MRead);
  ("GetRefund", MRead); ("GetSize", MRead); ("GetState", MRead); ("GetTransientState", MRead);
  ("GetUpdateBit", MRead); ("HasSuicided", MRead); ("UnderlyingDatabase", MRead);
  ("ConfigureAccessListChecks", MTx "toggles the access-list bypass flag around a whole message (access-list creation / ETX execution)");
  ("Finalize", MTx "transaction boundary: clears the journal; core/vm calls it only from WrapQi (state processor, outside any frame)");
  ("FreezeKQuai", MTx "state_transition.go, kQuai setting address, before any frame; ETX trie is not journalled");
  ("UnFreezeKQuai", MTx "as FreezeKQuai"); ("UpdateKQuai", MTx "as FreezeKQuai");
  ("IntermediateRoot", MTx "transaction/block boundary (updateTrie maintains the size counters through SetSize)");
  ("Commit", MTx "block boundary"); ("CommitEtxs", MTx "block boundary");
  ("StorageTrie", MTx "RPC proof helper on a copy of the object"); ("GetStorageProof", MTx "RPC");
  ("SetStorage", MTx "debugging only (fake storage of call tracers): documented as not journalled");
  ("AddLockedBalances", MTx "block level: genesis unlock schedule in the state processor")
].

Definition object_class : list (string * mclass) := [
  ("AddBalance", MOp (op_kinds (OAddBalance K0 0))); ("SubBalance", MOp (op_kinds (OSubBalance K0 0)));
  ("SetBalance", MOp (op_kinds (OSetBalance K0 0))); ("SetCode", MOp (op_kinds (OSetCode K0 [])));
  ("SetNonce", MOp (op_kinds (OSetNonce K0 0))); ("SetState", MOp (op_kinds (OSetState K0 K0 0%N)));
  ("AddSize", MOp (op_kinds (OAddSize K0))); ("SubSize", MOp (op_kinds (OSubSize K0)));
  ("SetSize", MOp (op_kinds (OSetSize K0 0)));
  ("CommitTrie", MTx "block boundary")
].

Local Close Scope string_scope.

Fixpoint lookup (n : string) (t : list (string * mclass)) : option mclass :=
  match t with
  | [] => None
  | (k, c) :: t' => if String.eqb k n then Some c else lookup n t'
  end.

Definition kinds_subset (names : list string) (ks : list jkind) : bool :=
  forallb (fun n => existsb (fun k => String.eqb (kind_name k) n) ks) names.

(* every journalling method found in the source is either modelled (and journals no kind the model's
   operation cannot append) or is an allow-listed boundary method *)
Definition journalling_covered_b (tbl : list (string * mclass)) (gen : list (string * list string)) : bool :=
  forallb (fun x => match lookup (fst x) tbl with
                    | Some (MOp ks) => kinds_subset (snd x) ks
                    | Some (MTx _) => true
                    | Some MRead | None => false
                    end) gen.

(* every method the EVM can call through vm.StateDB is classified; what is classified as a read
   does not journal *)
Definition evm_interface_covered_b (iface : list string) (journalling : list (string * list string)) : bool :=
  forallb (fun n => match lookup n statedb_class with
                    | Some MRead => negb (existsb (fun x => String.eqb (fst x) n) journalling)
                    | Some _ => true
                    | None => false
                    end) iface.

(* ---------- EVM frame layer (core/vm): the single constructor [ECall] of Model/C12.v stands for every
   function of *EVM that runs code in a frame.  That is justified when each of them takes the FULL
   snapshot (evm.snapshot(): state revision + ETX cache length + deleted-hash length + copy of the undo
   map) and reverts to it (evm.revertToSnapshot), and nobody else in package vm uses the bare StateDB
   revision. ---------- *)
Local Open Scope string_scope.
Definition model_frame_functions : list string := ["Call"; "CallCode"; "DelegateCall"; "StaticCall"; "create"].

Definition evm_frames_covered_b (fr : list (string * nat * nat * nat)) (raw : list string) : bool :=
  list_eqb String.eqb (map (fun x => fst (fst (fst x))) fr) model_frame_functions
  && forallb (fun x => let '(_, full, rev, rawn) := x in Nat.leb 1 full && Nat.leb 1 rev && Nat.eqb rawn 0) fr
  && list_eqb String.eqb raw ["revertToSnapshot"; "snapshot"].

(* side state of the EVM object: every field of struct EVM that package vm assigns is either one of the
   three lists of [evmst] and then restored by revertToSnapshot, or listed here as not being an effect
   of a frame:  Batch, interpreter: set once by NewEVM (the CONTENT of the batch is [e_batch], finding F9);
   StateDB: replaced by Reset between transactions;  callGasTemp: scratch of the gas functions, consumed by
   the call opcode that follows;  depth: incremented and decremented (defer) by Run. *)
Definition evm_field_class : list (string * bool) :=
  [("ETXCache", true); ("CoinbaseDeletedHashes", true); ("CoinbasesDeleted", true);
   ("Batch", false); ("StateDB", false); ("callGasTemp", false); ("depth", false); ("interpreter", false)].

Fixpoint lookup_b (n : string) (t : list (string * bool)) : option bool :=
  match t with [] => None | (k, v) :: t' => if String.eqb k n then Some v else lookup_b n t' end.

Definition evm_side_state_covered_b (assigned : list (string * list string)) (snapf : list string) : bool :=
  forallb (fun x => match lookup_b (fst x) evm_field_class with
                    | Some r => Bool.eqb r (existsb (String.eqb "revertToSnapshot") (snd x))
                    | None => false
                    end) assigned
  && forallb (fun c => negb (snd c) || existsb (fun x => String.eqb (fst x) (fst c)) assigned) evm_field_class
  && list_eqb String.eqb snapf ["stateRevision"; "etxCacheLen"; "coinbaseDeletedHashesLen"; "coinbasesDeleted"].

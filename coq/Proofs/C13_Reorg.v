(* C13 — rolling a block of rewards back (HeaderChain.SetCurrentHeader with the undo records
   StateProcessor.Process writes) restores the lockup ledger exactly. *)
From Coq Require Import List NArith ZArith Bool Lia ZifyBool ZifyNat ZifyN.
From GQ Require Import Lib.Key Lib.SMap Generated.C13Params Model.C13 Proofs.C13.
Import ListNotations.
Import C13Params.
Local Open Scope N_scope.

(* the ledger after a block and the undo records of the block *)
Fixpoint collect (L : ledger) (ops : list op) : ledger * list leff :=
  match ops with
  | [] => (L, [])
  | o :: t => let '(L1, es) := collect (fst (step L o)) t in (L1, effects_of L o ++ es)
  end.

Definition no_claim (o : op) : Prop := match o with OClaim _ _ => False | _ => True end.

Definition is_created (k0 : key) (es : list leff) : bool :=
  existsb (fun e => match e with ECreated k => keqb k k0 | _ => false end) es.
Fixpoint first_del (k0 : key) (es : list leff) : option lkrec :=
  match es with
  | [] => None
  | EDeleted k r :: t => if keqb k k0 then Some r else first_del k0 t
  | _ :: t => first_del k0 t
  end.

Definition putf (l : ledger) (e : leff) : ledger := match e with EDeleted k r => put k r l | _ => l end.
Definition delf (l : ledger) (e : leff) : ledger := match e with ECreated k => del k l | _ => l end.

Lemma undo_block_eq es L : undo_block es L = fold_left delf es (fold_right (fun e l => putf l e) L es).
Proof.
  unfold undo_block. f_equal.
  change (fun l e => match e with EDeleted k r => put k r l | _ => l end) with putf.
  rewrite <- (rev_involutive es) at 2. rewrite fold_left_rev_right. reflexivity.
Qed.

Lemma puts_sorted es : forall L, sorted L -> sorted (fold_right (fun e l => putf l e) L es).
Proof.
  induction es as [|e t IH]; intros L S; [exact S|]. cbn [fold_right].
  destruct e as [k|k r]; cbn [putf]; [apply IH; exact S | apply put_sorted, IH, S].
Qed.

Lemma puts_get es k0 : forall L,
  get k0 (fold_right (fun e l => putf l e) L es) = match first_del k0 es with Some r => Some r | None => get k0 L end.
Proof.
  induction es as [|e t IH]; intros L; [reflexivity|]. cbn [fold_right first_del].
  destruct e as [k|k r]; cbn [putf]; [apply IH|].
  destruct (keqb k k0) eqn:Ek.
  - apply keqb_eq in Ek. subst. apply get_put_same.
  - apply keqb_neq in Ek. rewrite get_put_other by congruence. apply IH.
Qed.

Lemma dels_get es k0 : forall M, sorted M ->
  get k0 (fold_left delf es M) = if is_created k0 es then None else get k0 M.
Proof.
  induction es as [|e t IH]; intros M S; [reflexivity|]. cbn [fold_left is_created existsb].
  destruct e as [k|k r]; cbn [delf].
  - rewrite IH by (apply del_sorted; exact S). fold (is_created k0 t).
    destruct (keqb k k0) eqn:Ek; cbn [orb].
    + apply keqb_eq in Ek. subst. rewrite get_del_same by exact S. destruct (is_created k0 t); reflexivity.
    + apply keqb_neq in Ek. rewrite get_del_other by (try exact S; congruence). reflexivity.
  - cbn [orb]. apply IH. exact S.
Qed.

Lemma dels_sorted es : forall M, sorted M -> sorted (fold_left delf es M).
Proof.
  induction es as [|e t IH]; intros M S; [exact S|]. cbn [fold_left].
  destruct e as [k|k r]; cbn [delf]; apply IH; [apply del_sorted; exact S | exact S].
Qed.

Lemma undo_block_get es L k0 : sorted L ->
  get k0 (undo_block es L) =
  if is_created k0 es then None else match first_del k0 es with Some r => Some r | None => get k0 L end.
Proof.
  intros S. rewrite undo_block_eq, dels_get by (apply puts_sorted; exact S). rewrite puts_get. reflexivity.
Qed.

Lemma undo_block_sorted es L : sorted L -> sorted (undo_block es L).
Proof. intros S. rewrite undo_block_eq. apply dels_sorted, puts_sorted, S. Qed.

(* the record AddNewLock hands back for the undo list is the record it replaced *)
Lemma add_core_old L a L' d old : add_core L a = Some (L', d, old) ->
  old = if d then Some (read L (add_key a)) else None.
Proof.
  unfold add_core.
  destruct (negb (internal (a_owner a) && is_quai (a_owner a))); [discriminate|].
  destruct (negb (internal (a_miner a))); [discriminate|].
  destruct (negb (a_sender_ok a)); [discriminate|].
  destruct (a_value a <=? 0)%Z; [discriminate|].
  set (r := read L (add_key a)).
  destruct (negb (r_unlock r =? 0) && (a_unlock a <? r_unlock r)); [discriminate|].
  destruct ((a_epoch a =? 0) && negb (r_unlock r =? 0)); [discriminate|].
  destruct (r_unlock r =? 0).
  - destruct (two256 <=? 0 + a_value a)%Z; [discriminate|]. intros H; inversion H; subst. reflexivity.
  - destruct (two256 <=? r_bal r + a_value a)%Z; [discriminate|]. intros H; inversion H; subst.
    destruct r; reflexivity.
Qed.

Lemma effects_add L a L' d old : add_core L a = Some (L', d, old) ->
  effects_of L (OAdd a) = if d then [EDeleted (add_key a) (read L (add_key a))] else [ECreated (add_key a)].
Proof.
  intros H. pose proof (add_core_old _ _ _ _ _ H) as Ho. cbn [effects_of]. rewrite H.
  destruct d; subst old; reflexivity.
Qed.

Lemma is_created_cons_other e t k0 :
  match e with ECreated k | EDeleted k _ => k <> k0 end -> is_created k0 (e :: t) = is_created k0 t.
Proof.
  intros H. unfold is_created. cbn [existsb]. destruct e as [k|k r]; [|reflexivity].
  apply keqb_neq in H. rewrite H. reflexivity.
Qed.

Lemma first_del_cons_other e t k0 :
  match e with ECreated k | EDeleted k _ => k <> k0 end -> first_del k0 (e :: t) = first_del k0 t.
Proof.
  intros H. cbn [first_del]. destruct e as [k|k r]; [reflexivity|].
  apply keqb_neq in H. rewrite H. reflexivity.
Qed.

(* what the undo records of a block of rewards say about one key *)
Definition key_spec (L L1 : ledger) (es : list leff) (k0 : key) : Prop :=
  match get k0 L with
  | None => is_created k0 es = true \/ (is_created k0 es = false /\ first_del k0 es = None /\ get k0 L1 = None)
  | Some r => is_created k0 es = false /\ (first_del k0 es = Some r \/ (first_del k0 es = None /\ get k0 L1 = Some r))
  end.

Lemma collect_spec ops : forall L, Inv L -> Forall op_wf ops -> Forall no_claim ops ->
  Inv (fst (collect L ops)) /\ forall k0, key_spec L (fst (collect L ops)) (snd (collect L ops)) k0.
Proof.
  induction ops as [|o t IH]; intros L I W NC.
  - cbn [collect fst snd]. split; [exact I|]. intros k0. unfold key_spec. destruct (get k0 L); cbn; auto.
  - inversion W as [|? ? Wo Wt]; subst. inversion NC as [|? ? NCo NCt]; subst.
    assert (I' : Inv (fst (step L o))) by (apply step_preserves_inv; assumption).
    specialize (IH (fst (step L o)) I' Wt NCt).
    cbn [collect]. destruct (collect (fst (step L o)) t) as [L1 et] eqn:Ec. cbn [fst snd] in *.
    destruct IH as [I1 IH]. split; [exact I1|]. intros k0. specialize (IH k0).
    destruct o as [a|m c|ow mi lb ep|ow mi lb h|].
    + (* a reward *)
      cbn [step] in *. destruct (add_core L a) as [[[L' d] old]|] eqn:A; cbn [fst] in *.
      * rewrite (effects_add _ _ _ _ _ A).
        destruct I as [S NZ].
        pose proof (add_core_some _ _ _ _ _ NZ A) as (_ & HL' & Hd).
        destruct (keqb (add_key a) k0) eqn:Ek.
        -- apply keqb_eq in Ek. subst k0. unfold key_spec in *.
           rewrite HL', get_put_same in IH. destruct IH as [IHc IHd].
           destruct d.
           ++ assert (Hnz : r_unlock (read L (add_key a)) <> 0).
              { destruct (r_unlock (read L (add_key a)) =? 0) eqn:E0; [discriminate|]. apply N.eqb_neq in E0. exact E0. }
              rewrite (read_nonzero_some _ _ Hnz). cbn [app]. split.
              ** unfold is_created in *. cbn [existsb]. exact IHc.
              ** left. cbn [first_del]. rewrite keqb_refl. reflexivity.
           ++ assert (Hz : r_unlock (read L (add_key a)) = 0).
              { destruct (r_unlock (read L (add_key a)) =? 0) eqn:E0; [apply N.eqb_eq in E0; exact E0|discriminate]. }
              rewrite (read_zero_none _ _ NZ Hz). left. cbn [app]. unfold is_created. cbn [existsb]. rewrite keqb_refl. reflexivity.
        -- apply keqb_neq in Ek. unfold key_spec in *.
           rewrite HL', get_put_other in IH by congruence.
           destruct d; cbn [app]; rewrite is_created_cons_other, first_del_cons_other by exact Ek; exact IH.
      * cbn [effects_of]. rewrite A. cbn [app]. exact IH.
    + destruct NCo.
    + assert (Hs : fst (step L (OGet ow mi lb ep)) = L).
      { cbn [step]. destruct (negb (internal ow && is_quai ow)); [reflexivity|]. destruct (negb (internal mi)); reflexivity. }
      rewrite Hs in *. cbn [effects_of app]. exact IH.
    + cbn [step fst effects_of app] in *. exact IH.
    + cbn [step fst effects_of app] in *. exact IH.
Qed.

Lemma rollback_restores_rewards_lemma ops L : Inv L -> Forall op_wf ops -> Forall no_claim ops ->
  undo_block (snd (collect L ops)) (fst (collect L ops)) = L.
Proof.
  intros I W NC. destruct (collect_spec ops L I W NC) as [[S1 _] Hk].
  apply sorted_ext; [apply undo_block_sorted; exact S1 | apply I |].
  intros k0. rewrite undo_block_get by exact S1. specialize (Hk k0). unfold key_spec in Hk.
  destruct (get k0 L) as [r|].
  - destruct Hk as [Hc [Hd|[Hd Hg]]]; rewrite Hc, Hd; [reflexivity | exact Hg].
  - destruct Hk as [Hc|[Hc [Hd Hg]]]; rewrite Hc; [reflexivity|]. rewrite Hd. exact Hg.
Qed.

(* the order matters: deleting the created keys FIRST and restoring afterwards leaves the first
   reward of an orphaned block in the ledger *)
Definition undo_block_swapped (es : list leff) (L : ledger) : ledger :=
  let L1 := fold_left delf es L in
  fold_left putf (rev es) L1.

Definition rw_add (v : Z) : addargs :=
  mkAdd (0 :: 1 :: repeat 0 18) (0 :: 16 :: repeat 0 18) zero_addr true 0 (100 + nth 0 depths 0) 1 v.
Definition rw_ops : list op := [OAdd (rw_add 100); OAdd (rw_add 50)].

Lemma rollback_order_matters_lemma :
  Forall op_wf rw_ops /\ Forall no_claim rw_ops /\
  undo_block (snd (collect [] rw_ops)) (fst (collect [] rw_ops)) = [] /\
  r_bal (read (undo_block_swapped (snd (collect [] rw_ops)) (fst (collect [] rw_ops))) (add_key (rw_add 100))) = 100%Z.
Proof.
  split; [|split; [|split]].
  - repeat constructor; cbn [op_wf]; intro H; vm_compute in H; discriminate.
  - repeat constructor.
  - vm_compute. reflexivity.
  - vm_compute. reflexivity.
Qed.

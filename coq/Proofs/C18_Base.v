(* C18 -- basic lemmas: induction principle for the nested node type, list surgery,
   strip / prefix_len, lookup equations, every canonical subtree holds a key. *)
From Coq Require Import List NArith Bool Arith Lia ZifyBool ZifyNat ZifyN.
From GQ Require Import Lib.Key Model.C18.
Import ListNotations.

(* ---------- induction principle ---------- *)
Section NodeInd.
  Variable P : node -> Prop.
  Hypothesis hNil : P Nil.
  Hypothesis hVal : forall v, P (Val v).
  Hypothesis hShort : forall k n, P n -> P (Short k n).
  Hypothesis hFull : forall cs, Forall P cs -> P (Full cs).
  Fixpoint node_ind' (n : node) : P n :=
    match n with
    | Nil => hNil
    | Val v => hVal v
    | Short k c => hShort k c (node_ind' c)
    | Full cs =>
        hFull cs ((fix go (l : list node) : Forall P l :=
                     match l with
                     | [] => Forall_nil P
                     | x :: r => Forall_cons x (node_ind' x) (go r)
                     end) cs)
    end.
End NodeInd.

(* ---------- child_app / set_nth ---------- *)
Lemma child_app_spec {A} (f : node -> A) d cs i :
  child_app f d cs i = match nth_error cs i with Some x => f x | None => d end.
Proof.
  revert i. induction cs as [|x r IH]; intros [|i]; cbn; auto.
Qed.

Lemma pchild_app_spec {A} (f : pnode -> A) d cs i :
  pchild_app f d cs i = match nth_error cs i with Some x => f x | None => d end.
Proof.
  revert i. induction cs as [|x r IH]; intros [|i]; cbn; auto.
Qed.

Lemma set_nth_length cs i n : length (set_nth cs i n) = length cs.
Proof. revert i. induction cs as [|x r IH]; intros [|i]; cbn; auto. Qed.

Lemma nth_error_set_nth_eq cs i n : i < length cs -> nth_error (set_nth cs i n) i = Some n.
Proof.
  revert i. induction cs as [|x r IH]; intros [|i] Hl; cbn in *; try lia; auto.
  apply IH. lia.
Qed.

Lemma nth_error_set_nth_neq cs i j n : i <> j -> nth_error (set_nth cs i n) j = nth_error cs j.
Proof.
  revert i j. induction cs as [|x r IH]; intros [|i] [|j] Hn; cbn; auto; try congruence.
Qed.

Lemma nth_error_nth' (cs : list node) i x : nth_error cs i = Some x -> nth i cs Nil = x.
Proof. revert i. induction cs as [|y r IH]; intros [|i]; cbn; try congruence; auto. Qed.

Lemma nth_error_empty17 i : i < 17 -> nth_error empty17 i = Some Nil.
Proof.
  intros Hi. unfold empty17.
  do 17 (destruct i as [|i]; [reflexivity|]). lia.
Qed.

Lemma nth_error_empty17_some i x : nth_error empty17 i = Some x -> x = Nil.
Proof.
  unfold empty17. intros Hx. apply nth_error_In in Hx. apply repeat_spec in Hx. exact Hx.
Qed.

(* ---------- count_nonnil ---------- *)
Lemma count_set_nth cs i n x :
  nth_error cs i = Some x ->
  count_nonnil (set_nth cs i n) + (if is_nil x then 0 else 1)
  = count_nonnil cs + (if is_nil n then 0 else 1).
Proof.
  revert i. induction cs as [|y r IH]; intros [|i] Hx; cbn in *; try congruence.
  - injection Hx as ->. lia.
  - specialize (IH _ Hx). lia.
Qed.

Lemma count_pos_exists cs : 1 <= count_nonnil cs ->
  exists i x, nth_error cs i = Some x /\ is_nil x = false.
Proof.
  induction cs as [|y r IH]; cbn; intros Hc; [lia|].
  destruct (is_nil y) eqn:Hy.
  - destruct IH as (i & x & Hi & Hx); [lia|]. exists (S i), x. auto.
  - exists 0, y. auto.
Qed.

(* a full node with two occupied slots has an occupied slot other than any given one *)
Lemma count_two_other cs c : 2 <= count_nonnil cs ->
  exists i x, i <> c /\ nth_error cs i = Some x /\ is_nil x = false.
Proof.
  revert c. induction cs as [|y r IH]; cbn; intros c Hc; [lia|].
  destruct (is_nil y) eqn:Hy.
  - destruct (IH (pred c)) as (i & x & Hn & Hi & Hx); [lia|].
    destruct c as [|c].
    + exists (S i), x. repeat split; auto.
    + exists (S i), x. cbn in Hn. repeat split; auto.
  - destruct c as [|c].
    + destruct (count_pos_exists r) as (i & x & Hi & Hx); [lia|].
      exists (S i), x. repeat split; auto.
    + exists 0, y. repeat split; auto.
Qed.

Lemma count_zero_all_nil cs : count_nonnil cs = 0 ->
  forall i x, nth_error cs i = Some x -> x = Nil.
Proof.
  induction cs as [|y r IH]; cbn; intros Hc [|i] x Hx; cbn in Hx; try congruence.
  - injection Hx as ->. destruct x; cbn in Hc; try lia; auto.
  - apply (IH ltac:(lia) i x Hx).
Qed.

(* ---------- strip ---------- *)
Lemma strip_app k q : strip k (k ++ q) = Some q.
Proof. induction k as [|a k IH]; cbn; auto. rewrite N.eqb_refl. auto. Qed.

Lemma strip_some k key r : strip k key = Some r -> key = k ++ r.
Proof.
  revert key. induction k as [|a k IH]; intros key Hs; cbn in *.
  - congruence.
  - destruct key as [|x key]; [discriminate|].
    destruct (N.eqb_spec a x) as [->|]; [|discriminate].
    f_equal. auto.
Qed.

Lemma strip_app_l p r key :
  strip (p ++ r) key = match strip p key with Some q => strip r q | None => None end.
Proof.
  revert key. induction p as [|a p IH]; intros key; cbn; auto.
  destruct key as [|x key]; auto. destruct (N.eqb a x); auto.
Qed.

Lemma strip_nil_inv k : strip k [] = match k with [] => Some [] | _ => None end.
Proof. destruct k; reflexivity. Qed.

(* ---------- prefix_len ---------- *)
Lemma prefix_len_spec a b :
  exists p ra rb, a = p ++ ra /\ b = p ++ rb /\ prefix_len a b = length p /\
    match ra, rb with x :: _, y :: _ => x <> y | _, _ => True end.
Proof.
  revert b. induction a as [|x a IH]; intros b.
  - exists [], [], b. cbn. auto.
  - destruct b as [|y b].
    + exists [], (x :: a), []. cbn. auto.
    + cbn. destruct (N.eqb_spec x y) as [->|Hn].
      * destruct (IH b) as (p & ra & rb & -> & -> & Hl & Hd).
        exists (y :: p), ra, rb. cbn. rewrite Hl. auto.
      * exists [], (x :: a), (y :: b). cbn. auto.
Qed.

Lemma prefix_len_app p ra rb :
  match ra, rb with x :: _, y :: _ => x <> y | _, _ => True end ->
  prefix_len (p ++ ra) (p ++ rb) = length p.
Proof.
  intros Hd. induction p as [|a p IH]; cbn.
  - destruct ra as [|x ra], rb as [|y rb]; cbn; auto.
    destruct (N.eqb_spec x y); congruence.
  - rewrite N.eqb_refl. auto.
Qed.

Lemma nth_error_app_mid {A} (p : list A) a r : nth_error (p ++ a :: r) (length p) = Some a.
Proof. induction p; cbn; auto. Qed.

Lemma skipn_app_len {A} (p r : list A) : skipn (length p) (p ++ r) = r.
Proof. induction p; cbn; auto. Qed.

Lemma firstn_app_len {A} (p r : list A) : firstn (length p) (p ++ r) = p.
Proof. induction p; cbn; auto. f_equal; auto. Qed.

Lemma skipn_S_app_mid {A} (p : list A) a r : skipn (S (length p)) (p ++ a :: r) = r.
Proof. induction p; cbn; auto. Qed.

(* ---------- lookup equations ---------- *)
Lemma lookup_full cs c rest :
  lookup (Full cs) (c :: rest) =
  match nth_error cs (N.to_nat c) with Some x => lookup x rest | None => None end.
Proof. cbn. apply child_app_spec. Qed.

Lemma lookup_short k c key :
  lookup (Short k c) key = match strip k key with Some r => lookup c r | None => None end.
Proof. reflexivity. Qed.

Lemma lookup_mk_short k c key :
  lookup (mk_short k c) key = match strip k key with Some r => lookup c r | None => None end.
Proof. destruct k; reflexivity. Qed.

Lemma lookup_short_app k c q : lookup (Short k c) (k ++ q) = lookup c q.
Proof. rewrite lookup_short, strip_app. reflexivity. Qed.

Lemma lookup_nil q : lookup Nil q = None.
Proof. reflexivity. Qed.

(* ---------- wfn unfolding ---------- *)
Lemma wfn_short k c : wfn (Short k c) = true <-> k <> [] /\ is_short c = false /\ wfn c = true.
Proof.
  cbn. rewrite !andb_true_iff, !negb_true_iff. destruct k; cbn; intuition congruence.
Qed.

Lemma wfn_full cs : wfn (Full cs) = true <->
  length cs = 17 /\ 2 <= count_nonnil cs /\
  (forall i x, nth_error cs i = Some x -> x = Nil \/ wfn x = true).
Proof.
  change (wfn (Full cs)) with (Nat.eqb (length cs) 17 && Nat.leb 2 (count_nonnil cs)
                               && forallb (fun x => is_nil x || wfn x) cs).
  rewrite !andb_true_iff, Nat.eqb_eq, Nat.leb_le, forallb_forall. split.
  - intros [[Hl Hc] Hf]. repeat split; auto. intros i x Hx.
    specialize (Hf x (nth_error_In _ _ Hx)). destruct x; cbn in *; auto.
  - intros (Hl & Hc & Hf). repeat split; auto. intros x Hin.
    apply In_nth_error in Hin as [i Hi]. destruct (Hf _ _ Hi) as [Hn|Hn]; rewrite Hn; cbn; auto.
    apply orb_true_r.
Qed.

Lemma wfn_not_nil n : wfn n = true -> n <> Nil.
Proof. destruct n; cbn; congruence. Qed.

Lemma is_nil_false n : is_nil n = false <-> n <> Nil.
Proof. destruct n; cbn; split; congruence. Qed.

(* ---------- every canonical subtree holds a key ---------- *)
Lemma wfn_nonempty n : wfn n = true -> exists q v, lookup n q = Some v.
Proof.
  induction n as [|v|k c IH|cs IH] using node_ind'; intros Hw.
  - discriminate.
  - exists [], v. reflexivity.
  - apply wfn_short in Hw as (_ & _ & Hc). destruct (IH Hc) as (q & v & Hq).
    exists (k ++ q), v. rewrite lookup_short_app. exact Hq.
  - apply wfn_full in Hw as (Hl & Hc & Hf).
    destruct (count_pos_exists cs) as (i & x & Hi & Hx); [lia|].
    rewrite Forall_forall in IH.
    destruct (Hf _ _ Hi) as [->|Hwx]; [discriminate|].
    destruct (IH x (nth_error_In _ _ Hi) Hwx) as (q & v & Hq).
    exists (N.of_nat i :: q), v. rewrite lookup_full, Nat2N.id, Hi. exact Hq.
Qed.

(* keys of a short node start with its key; keys of a full node are non-empty *)
Lemma lookup_short_some k c q v : lookup (Short k c) q = Some v -> exists r, q = k ++ r /\ lookup c r = Some v.
Proof.
  rewrite lookup_short. destruct (strip k q) as [r|] eqn:Hs; [|discriminate].
  intros Hl. exists r. split; auto. apply strip_some; auto.
Qed.

Lemma lookup_full_some cs q v : lookup (Full cs) q = Some v ->
  exists c r x, q = c :: r /\ nth_error cs (N.to_nat c) = Some x /\ lookup x r = Some v.
Proof.
  destruct q as [|c r]; [discriminate|]. rewrite lookup_full.
  destruct (nth_error cs (N.to_nat c)) as [x|] eqn:Hx; [|discriminate].
  intros Hl. exists c, r, x. auto.
Qed.

(* ---------- node_eqb is equality ---------- *)
Lemma node_eqb_eq a b : node_eqb a b = true <-> a = b.
Proof.
  revert b. induction a as [|v|k c IH|cs IH] using node_ind'; intros b; destruct b as [|w|k' c'|cs']; cbn;
    try (split; congruence).
  - rewrite keqb_eq. split; congruence.
  - rewrite andb_true_iff, keqb_eq, IH. split; [intros [-> ->]; auto | intros [= -> ->]; auto].
  - revert cs'. induction IH as [|x r Hx Hr IHr]; intros [|y r']; try (split; congruence).
    rewrite andb_true_iff, Hx, IHr. split.
    + intros [-> [= ->]]. reflexivity.
    + intros [= -> ->]. auto.
Qed.

(* C14 — Transaction model: the encodings are normal forms of the generated schema (so the generic wire theorem
   applies to their bytes), and the resulting theorems at the level of bytes. *)
From Coq Require Import List Arith NArith Lia Bool ZifyBool ZifyNat ZifyN.
From GQ Require Import Lib.Key Lib.C14_Varint Lib.C14_BigEndian Lib.C14_ProtoWire Lib.C14_ProtoWireFacts
  Lib.C14_ProtoWireNF Lib.C14_RLP Generated.C14Schemas Model.C14 Proofs.C14 Proofs.C14_Tx Proofs.C14_Tx2.
Import ListNotations.
Local Open Scope N_scope.

Local Arguments N.mul : simpl never.
Local Arguments N.add : simpl never.
Local Arguments N.sub : simpl never.
Local Arguments N.div : simpl never.
Local Arguments N.modulo : simpl never.
Local Arguments N.pow : simpl never.
Local Arguments N.ltb : simpl never.
Local Arguments N.leb : simpl never.

(* the descriptor of ProtoTransaction as the source has it now (generated obligation) *)
Definition txd : msgdesc :=
  [mkField 1 KU64 LOpt 0; mkField 2 KBytes LOpt 0; mkField 3 KU64 LOpt 0; mkField 4 KBytes LOpt 0; mkField 5 KU64 LOpt 0;
   mkField 6 KBytes LOpt 0; mkField 7 KBytes LOpt 0; mkField 8 KBytes LOpt 0; mkField 9 (KMsg id_block_ProtoAccessList) LOpt 0;
   mkField 10 KBytes LOpt 0; mkField 11 KBytes LOpt 0; mkField 12 KBytes LOpt 0; mkField 13 (KMsg id_common_ProtoHash) LOpt 0;
   mkField 14 KU32 LOpt 0; mkField 15 (KMsg id_block_ProtoTxIns) LOpt 0; mkField 16 (KMsg id_block_ProtoTxOuts) LOpt 0;
   mkField 17 KBytes LOpt 0; mkField 18 KBytes LOpt 0; mkField 19 (KMsg id_common_ProtoHash) LOpt 0;
   mkField 20 (KMsg id_common_ProtoHash) LOpt 0; mkField 21 KU64 LOpt 0; mkField 22 KU64 LOpt 0].
Lemma tx_desc : nth_error sc (N.to_nat id_block_ProtoTransaction) = Some txd.
Proof. vm_compute. reflexivity. Qed.
Lemma txins_desc : nth_error sc (N.to_nat id_block_ProtoTxIns) = Some [mkField 1 (KMsg id_block_ProtoTxIn) LRep 0].
Proof. vm_compute. reflexivity. Qed.
Lemma txouts_desc : nth_error sc (N.to_nat id_block_ProtoTxOuts) = Some [mkField 1 (KMsg id_block_ProtoTxOut) LRep 0].
Proof. vm_compute. reflexivity. Qed.
Lemma txin_desc : nth_error sc (N.to_nat id_block_ProtoTxIn) =
  Some [mkField 1 (KMsg id_block_ProtoOutPoint) LOpt 0; mkField 2 KBytes LOpt 0].
Proof. vm_compute. reflexivity. Qed.

Lemma e_u64 desc k n : find_field desc k = Some (mkField k KU64 LOpt 0) -> n < u64 -> entry_ok desc (k, FInt n) = true.
Proof. intros F H. unfold entry_ok. cbn [fst snd]. rewrite F. cbn [f_kind f_label wf_val nonzero_ok]. lia. Qed.
Lemma e_u32 desc k n : find_field desc k = Some (mkField k KU32 LOpt 0) -> n < u32 -> entry_ok desc (k, FInt n) = true.
Proof. intros F H. unfold entry_ok. cbn [fst snd]. rewrite F. cbn [f_kind f_label wf_val nonzero_ok]. lia. Qed.
Lemma e_bytes desc k b : find_field desc k = Some (mkField k KBytes LOpt 0) -> wf_bytes b -> entry_ok desc (k, FBytes b) = true.
Proof.
  intros F H. unfold entry_ok. cbn [fst snd]. rewrite F. cbn [f_kind f_label wf_val nonzero_ok].
  apply wf_bytesb_iff in H. rewrite H. reflexivity.
Qed.
Lemma e_msg desc k ref l m : find_field desc k = Some (mkField k (KMsg ref) l 0) -> wf_msg sc ref m = true ->
  entry_ok desc (k, FMsg m) = true.
Proof.
  intros F H. unfold entry_ok. cbn [fst snd]. rewrite F. cbn [f_kind].
  change (wf_val sc (KMsg ref) (FMsg m)) with (wf_msg sc ref m). rewrite H. destruct l; reflexivity.
Qed.
Lemma be_enc_wf' n : wf_bytes (be_enc n).
Proof. apply wf_bytesb_iff. apply be_enc_wfb. Qed.

Definition oaddr_wf (o : option bytes) : Prop := match o with Some a => addr_nf a | None => True end.

Local Opaque entry_ok.
Ltac entries :=
  repeat (apply andb_true_iff; split);
  first [ reflexivity
        | apply e_u64; [reflexivity|first [assumption|unfold u64, QuaiTxType, ExternalTxType, QiTxType; lia]]
        | apply e_u32; [reflexivity|unfold u32; lia]
        | apply e_bytes; [reflexivity|first [assumption|apply be_enc_wf'|match goal with H : addr_nf ?a |- wf_bytes ?a => exact (proj2 H) end]]
        | eapply e_msg; [reflexivity|first [apply al_wf; assumption|apply hash_msg_wf; assumption|assumption]]
        ].

Lemma quai_wf q : quai_nf q -> wf_msg sc id_block_ProtoTransaction (build (quai_entries q)) = true.
Proof.
  intros (Hto & Hn & Hg & Hd & Hal & _ & Hpa & Hmi & Hwn).
  apply (wf_msg_parts _ _ _ tx_desc); [reflexivity| |].
  - rewrite forallb_build. unfold quai_entries, work_entries.
    destruct (q_to q) as [a|]; destruct (w_parent (q_work q)) as [ph|]; destruct (w_mix (q_work q)) as [mh|];
      destruct (w_nonce (q_work q)) as [wn|]; cbn [app entries_ok option_map]; entries.
  - apply (ordered_build _ 0). reflexivity.
Qed.

Lemma ext_wf e : ext_nf e -> wf_msg sc id_block_ProtoTransaction (build (ext_entries e)) = true.
Proof.
  intros (Hto & Hg & Hd & Hal & Ho & Hi & Hs & Ht).
  apply (wf_msg_parts _ _ _ tx_desc); [reflexivity| |].
  - rewrite forallb_build. unfold ext_entries. cbn [app entries_ok option_map].
    assert (e_index e mod 65536 < 65536) by (apply N.mod_lt; lia). entries.
  - apply (ordered_build _ 0). reflexivity.
Qed.

Section Qi.
  Variable c d : bytes -> option bytes.

  Lemma txin_wf i m : txin_nf c d i -> txin_encode c i = Some m -> wf_msg sc id_block_ProtoTxIn m = true.
  Proof.
    intros (Hh & Hi & Hl & w & Hc & Hw & Hwf & Hd) E. unfold txin_encode, pub_to_wire in E. rewrite Hl in E. cbn [Nat.eqb] in E.
    rewrite Hc in E. assert (X : m = [(1, FMsg (outpoint_encode (in_prev i))); (2, FBytes w)]) by congruence. subst m.
    apply (wf_msg_parts _ _ _ txin_desc); [reflexivity| |reflexivity].
    cbn [forallb]. repeat (apply andb_true_iff; split); [| |reflexivity].
    - eapply e_msg; [reflexivity|]. apply outpoint_wf; assumption.
    - apply e_bytes; [reflexivity|exact Hwf].
  Qed.

  Lemma txins_wf ins ms : Forall (txin_nf c d) ins -> all_some (map (txin_encode c) ins) = Some ms ->
    Forall (fun m => wf_msg sc id_block_ProtoTxIn m = true) ms.
  Proof.
    intros H. revert ms. induction H as [|i ins Hi _ IH]; intros ms E.
    - cbn in E. assert (ms = []) by congruence. subst. constructor.
    - cbn [map all_some] in E. destruct (txin_encode c i) as [m|] eqn:Em; [|discriminate].
      destruct (all_some (map (txin_encode c) ins)) as [r|] eqn:Er; [|discriminate].
      assert (ms = m :: r) by congruence. subst. constructor; [eapply txin_wf; eassumption|apply IH; reflexivity].
  Qed.

  Lemma rep_wf id ref (ms : list msg) : nth_error sc (N.to_nat id) = Some [mkField 1 (KMsg ref) LRep 0] ->
    Forall (fun m => wf_msg sc ref m = true) ms -> wf_msg sc id (map (fun m => (1, FMsg m)) ms) = true.
  Proof.
    intros Hd H. apply (wf_msg_parts _ _ _ Hd); [reflexivity| |].
    - rewrite <- (map_map FMsg (fun v => (1, v))), forallb_rep, forallb_map. apply forallb_forall. intros m Hin.
      rewrite Forall_forall in H. eapply e_msg; [reflexivity|]. apply H. exact Hin.
    - rewrite <- (map_map FMsg (fun v => (1, v))). apply ordered_rep. reflexivity.
  Qed.

  Lemma qi_wf i ms : qi_nf c d i -> all_some (map (txin_encode c) (i_ins i)) = Some ms ->
    wf_msg sc id_block_ProtoTransaction (build (qi_entries i ms)) = true.
  Proof.
    intros (Hne & Hins & Houts & Hsig & Hsw & Hdw & Hpa & Hmi & Hwn) E.
    pose proof (rep_wf _ _ ms txins_desc (txins_wf _ _ Hins E)) as Wi.
    assert (Wo : wf_msg sc id_block_ProtoTxOuts (map (fun o => (1, FMsg (txout_encode o))) (i_outs i)) = true).
    { rewrite <- (map_map txout_encode (fun m => (1, FMsg m))). apply (rep_wf _ _ _ txouts_desc).
      apply Forall_map. eapply Forall_impl; [|exact Houts]. intros o Ho. apply txout_wf. exact Ho. }
    apply (wf_msg_parts _ _ _ tx_desc); [reflexivity| |].
    - rewrite forallb_build. unfold qi_entries, work_entries.
      destruct (w_parent (i_work i)) as [ph|]; destruct (w_mix (i_work i)) as [mh|];
        destruct (w_nonce (i_work i)) as [wn|]; cbn [app entries_ok option_map]; entries.
    - apply (ordered_build _ 0). reflexivity.
  Qed.
End Qi.

Section Top.
  Variable c d : bytes -> option bytes.

  (* well-formed transactions: 20-byte addresses, 32-byte hashes, uint64 / uint16 scalars in range, a Quai signature
     that is absent (0,0,0) or passes ValidateSignatureValues, Qi: at least one input, valid uncompressed keys,
     denominations < 256, a parseable Schnorr signature *)
  Definition tx_nf (t : tx) : Prop :=
    match t with TQuai q => quai_nf q | TExt e => ext_nf e | TQi i => qi_nf c d i end.
  (* what comes back: the same object, except that a nil TxOut lock reads back as 0 *)
  Definition tx_norm (t : tx) : tx := match t with TQi i => TQi (qi_norm i) | _ => t end.

  Lemma tx_encodes t : tx_nf t ->
    exists m, tx_encode c t = Some m /\ wf_msg sc id_block_ProtoTransaction m = true /\ tx_decode d m = DOk (tx_norm t).
  Proof.
    destruct t as [q|e|i]; intros H.
    - exists (build (quai_entries q)). split; [reflexivity|]. split; [apply quai_wf; exact H|apply quai_tree_roundtrip; exact H].
    - exists (build (ext_entries e)). split; [reflexivity|]. split; [apply ext_wf; exact H|apply ext_tree_roundtrip; exact H].
    - destruct (qi_tree_roundtrip c d i H) as (ms & E & _ & D). exists (build (qi_entries i ms)).
      rewrite tx_encode_qi, E. split; [reflexivity|]. split; [eapply qi_wf; eassumption|exact D].
  Qed.

  Lemma tx_wire_roundtrip t : tx_nf t ->
    exists m, tx_encode c t = Some m /\
              (len (encode m) < u64 -> obj_decode id_block_ProtoTransaction (tx_decode d) (encode m) = DOk (tx_norm t)).
  Proof.
    intros H. destruct (tx_encodes t H) as (m & E & W & D). exists m. split; [exact E|]. intros L.
    rewrite obj_wire by assumption. exact D.
  Qed.

  Lemma tx_reencode t : tx_encode c (tx_norm t) = tx_encode c t.
  Proof.
    destruct t as [q|e|i]; [reflexivity|reflexivity|]. cbn [tx_norm]. rewrite !tx_encode_qi. unfold qi_norm, qi_entries.
    cbn [i_ins i_outs i_chain i_sig i_data i_work]. rewrite map_map.
    rewrite (map_ext (fun x => (1, FMsg (txout_encode (txout_norm x)))) (fun o => (1, FMsg (txout_encode o))))
      by (intros o; rewrite txout_reencode; reflexivity).
    reflexivity.
  Qed.

  Lemma tx_identity_injective t1 t2 m1 m2 : tx_nf t1 -> tx_nf t2 ->
    tx_encode c t1 = Some m1 -> tx_encode c t2 = Some m2 -> len (encode m1) < u64 ->
    encode m1 = encode m2 -> tx_norm t1 = tx_norm t2.
  Proof.
    intros H1 H2 E1 E2 L E.
    destruct (tx_encodes t1 H1) as (m1' & E1' & W1 & D1). destruct (tx_encodes t2 H2) as (m2' & E2' & W2 & D2).
    assert (m1' = m1) by congruence. assert (m2' = m2) by congruence. subst m1' m2'.
    assert (m1 = m2) by (eapply sc_inj; eassumption). subst m2. congruence.
  Qed.
End Top.

(* the decoder is not injective on well-formed wire messages: the ETX index is narrowed uint32 -> uint16 silently *)
Lemma tx_decode_not_injective :
  exists m1 m2, m1 <> m2 /\ wf_msg sc id_block_ProtoTransaction m1 = true /\ wf_msg sc id_block_ProtoTransaction m2 = true /\
                tx_decode (fun _ => None) m1 = tx_decode (fun _ => None) m2 /\ tx_decode (fun _ => None) m1 <> DErr.
Proof.
  pose (e := mkExt (repeat 9 20) 5 21000 [] [] (repeat 7 32) 7 (repeat 3 20) 0).
  exists (build (ext_entries e)),
         (build [(1, Some (FInt 1)); (2, Some (FBytes (repeat 9 20))); (4, Some (FBytes [5])); (5, Some (FInt 21000));
                 (6, Some (FBytes [])); (9, Some (FMsg [])); (13, Some (FMsg (hash_msg (repeat 7 32))));
                 (14, Some (FInt 65543)); (18, Some (FBytes (repeat 3 20))); (22, Some (FInt 0))]).
  split; [vm_compute; discriminate|]. split; [vm_compute; reflexivity|]. split; [vm_compute; reflexivity|].
  split; [vm_compute; reflexivity|vm_compute; discriminate].
Qed.

(* C17 — lemmas about the key-value contract model. *)
From Coq Require Import List NArith Bool Lia.
From GQ Require Import Lib.Key Lib.SMap Model.C17.
Import ListNotations.
Local Open Scope N_scope.

(* ---------- abstract specification: a total function key -> option val ---------- *)
Definition fmap := key -> option val.
Definition abs (s : state) : fmap := fun k => get k (s_db s).
Definition fupd (f : fmap) (k : key) (v : option val) : fmap :=
  fun k0 => if keqb k0 k then v else f k0.
Definition fapply (f : fmap) (w : wop) : fmap :=
  match w with WPut k v => fupd f k (Some v) | WDel k => fupd f k None end.

Definition pends_sorted (s : state) : Prop :=
  sorted (b_pend (s_b0 s)) /\ sorted (b_pend (s_b1 s)).
Definition Inv (s : state) : Prop := sorted (s_db s) /\ pends_sorted s.

Lemma apply_wop_sorted m w : sorted m -> sorted (apply_wop m w).
Proof. destruct w; cbn; [apply put_sorted|apply del_sorted]. Qed.

Lemma apply_ops_sorted ops m : sorted m -> sorted (apply_ops ops m).
Proof.
  unfold apply_ops. revert m; induction ops as [|w ops IH]; cbn; intros m S; [exact S|].
  apply IH. apply apply_wop_sorted; exact S.
Qed.

Lemma get_apply_wop m w k : sorted m ->
  get k (apply_wop m w) = fapply (fun k => get k m) w k.
Proof.
  intros S. destruct w as [k' v|k']; cbn; unfold fupd.
  - destruct (keqb k k') eqn:E.
    + apply keqb_eq in E; subst. apply get_put_same.
    + apply keqb_neq in E. apply get_put_other; exact E.
  - destruct (keqb k k') eqn:E.
    + apply keqb_eq in E; subst. apply get_del_same; exact S.
    + apply keqb_neq in E. apply get_del_other; assumption.
Qed.

Lemma fapply_ext f g w : (forall k, f k = g k) -> forall k, fapply f w k = fapply g w k.
Proof. intros H k. destruct w; cbn; unfold fupd; destruct (keqb k _); auto. Qed.

Lemma fold_fapply_ext ops : forall f g, (forall k, f k = g k) ->
  forall k, fold_left fapply ops f k = fold_left fapply ops g k.
Proof.
  induction ops as [|w ops IH]; cbn; intros f g H k; [apply H|].
  apply IH. apply fapply_ext; exact H.
Qed.

(* A batch write applies every operation, in issue order. *)
Lemma get_apply_ops ops : forall m k, sorted m ->
  get k (apply_ops ops m) = fold_left fapply ops (fun k => get k m) k.
Proof.
  unfold apply_ops. induction ops as [|w ops IH]; cbn; intros m k S; [reflexivity|].
  rewrite IH by (apply apply_wop_sorted; exact S).
  apply fold_fapply_ext. intros k0. apply get_apply_wop; exact S.
Qed.

(* ---------- batches ---------- *)
Definition batch_run (x : batch) (ws : list wop) : batch := fold_left batch_apply ws x.

Definition wkey (w : wop) : key := match w with WPut k _ => k | WDel k => k end.
Definition wval (w : wop) : option val := match w with WPut _ v => Some v | WDel _ => None end.

(* last operation on k in ws, if any *)
Fixpoint last_on (k : key) (ws : list wop) (acc : option (option val)) : option (option val) :=
  match ws with
  | [] => acc
  | w :: ws' => last_on k ws' (if keqb k (wkey w) then Some (wval w) else acc)
  end.

Lemma batch_apply_ops x w : b_ops (batch_apply x w) = b_ops x ++ [w].
Proof. destruct w; reflexivity. Qed.
Lemma batch_apply_tracking x w : b_tracking (batch_apply x w) = b_tracking x.
Proof. destruct w; reflexivity. Qed.

Lemma batch_run_ops ws : forall x, b_ops (batch_run x ws) = b_ops x ++ ws.
Proof.
  unfold batch_run. induction ws as [|w ws IH]; cbn; intros x; [rewrite app_nil_r; reflexivity|].
  rewrite IH, batch_apply_ops, <- app_assoc. reflexivity.
Qed.

Lemma batch_run_tracking ws : forall x, b_tracking (batch_run x ws) = b_tracking x.
Proof.
  unfold batch_run. induction ws as [|w ws IH]; cbn; intros x; [reflexivity|].
  rewrite IH. apply batch_apply_tracking.
Qed.

Lemma batch_apply_pend_sorted x w : sorted (b_pend x) -> sorted (b_pend (batch_apply x w)).
Proof. destruct w; cbn; destruct (b_tracking x); auto using put_sorted. Qed.

Lemma batch_run_pend_sorted ws : forall x, sorted (b_pend x) -> sorted (b_pend (batch_run x ws)).
Proof.
  unfold batch_run. induction ws as [|w ws IH]; cbn; intros x S; [exact S|].
  apply IH. apply batch_apply_pend_sorted; exact S.
Qed.

Lemma batch_apply_pend_tracking x w k : b_tracking x = true ->
  get k (b_pend (batch_apply x w)) =
  if keqb k (wkey w) then Some (wval w) else get k (b_pend x).
Proof.
  intros T. destruct w as [k' v|k']; cbn; rewrite T; destruct (keqb k k') eqn:E.
  - apply keqb_eq in E; subst; apply get_put_same.
  - apply keqb_neq in E; apply get_put_other; exact E.
  - apply keqb_eq in E; subst; apply get_put_same.
  - apply keqb_neq in E; apply get_put_other; exact E.
Qed.

Lemma batch_apply_pend_untracked x w : b_tracking x = false ->
  b_pend (batch_apply x w) = b_pend x.
Proof. intros T. destruct w; cbn; rewrite T; reflexivity. Qed.

(* With tracking on, the pending view is exactly "last uncommitted operation per key". *)
Lemma batch_run_pend ws : forall x k, b_tracking x = true ->
  get k (b_pend (batch_run x ws)) = last_on k ws (get k (b_pend x)).
Proof.
  unfold batch_run. induction ws as [|w ws IH]; cbn; intros x k T; [reflexivity|].
  rewrite IH by (rewrite batch_apply_tracking; exact T).
  rewrite batch_apply_pend_tracking by exact T. reflexivity.
Qed.

Lemma batch_run_pend_untracked ws : forall x, b_tracking x = false ->
  b_pend (batch_run x ws) = b_pend x.
Proof.
  unfold batch_run. induction ws as [|w ws IH]; cbn; intros x T; [reflexivity|].
  rewrite IH by (rewrite batch_apply_tracking; exact T).
  apply batch_apply_pend_untracked; exact T.
Qed.

(* ---------- step-level facts ---------- *)
Lemma getb_setb_same s b x : getb (setb s b x) b = x.
Proof. destruct b; reflexivity. Qed.
Lemma getb_setb_other s b x : getb (setb s b x) (negb b) = getb s (negb b).
Proof. destruct b; reflexivity. Qed.
Lemma db_setb s b x : s_db (setb s b x) = s_db s.
Proof. destruct b; reflexivity. Qed.

Lemma pends_sorted_setb s b x : pends_sorted s -> sorted (b_pend x) -> pends_sorted (setb s b x).
Proof. intros [S0 S1] Sx. destruct b; split; cbn; assumption. Qed.

Lemma pends_sorted_getb s b : pends_sorted s -> sorted (b_pend (getb s b)).
Proof. intros [S0 S1]. destruct b; assumption. Qed.

Lemma step_inv s o : Inv s -> Inv (fst (step s o)).
Proof.
  intros [Sd Sp]. destruct o; cbn; try (split; assumption).
  - split; [apply put_sorted; exact Sd|exact Sp].
  - split; [apply del_sorted; exact Sd|exact Sp].
  - split; [rewrite db_setb; exact Sd|]. apply pends_sorted_setb; [exact Sp|].
    apply (batch_apply_pend_sorted _ (WPut k v)). apply pends_sorted_getb; exact Sp.
  - split; [rewrite db_setb; exact Sd|]. apply pends_sorted_setb; [exact Sp|].
    apply (batch_apply_pend_sorted _ (WDel k)). apply pends_sorted_getb; exact Sp.
  - split; [rewrite db_setb; exact Sd|]. apply pends_sorted_setb; [exact Sp|exact I].
  - split; [apply apply_ops_sorted; exact Sd|].
    destruct Sp as [S0 S1]. destruct b; split; cbn; auto.
  - split; [rewrite db_setb; exact Sd|]. apply pends_sorted_setb; [exact Sp|exact I].
  - split; [apply apply_ops_sorted; exact Sd|exact Sp].
  - split; [rewrite db_setb; exact Sd|]. apply pends_sorted_setb; [exact Sp|].
    apply batch_run_pend_sorted. apply pends_sorted_getb; exact Sp.
  - split; [apply apply_ops_sorted; exact Sd|exact Sp].
Qed.

Lemma init_inv : Inv init.
Proof. repeat split. Qed.

Lemma run_state_inv ops : forall s, Inv s -> Inv (run_state s ops).
Proof.
  unfold run_state. induction ops as [|o ops IH]; cbn; intros s H; [exact H|].
  apply IH. apply step_inv; exact H.
Qed.

(* database operations refine the abstract map *)
Lemma db_put_refines s k v : Inv s ->
  let '(s', r) := step s (DbPut k v) in
  r = ONone /\ (forall k0, abs s' k0 = fupd (abs s) k (Some v) k0) /\ s_b0 s' = s_b0 s /\ s_b1 s' = s_b1 s.
Proof.
  intros [Sd _]. cbn. repeat split. intros k0.
  exact (get_apply_wop (s_db s) (WPut k v) k0 Sd).
Qed.

Lemma db_del_refines s k : Inv s ->
  let '(s', r) := step s (DbDel k) in
  r = ONone /\ (forall k0, abs s' k0 = fupd (abs s) k None k0) /\ s_b0 s' = s_b0 s /\ s_b1 s' = s_b1 s.
Proof.
  intros [Sd _]. cbn. repeat split. intros k0.
  exact (get_apply_wop (s_db s) (WDel k) k0 Sd).
Qed.

Lemma db_get_refines s k : step s (DbGet k) = (s, OVal (abs s k)).
Proof. reflexivity. Qed.

Lemma db_has_refines s k :
  step s (DbHas k) = (s, OBool (match abs s k with Some _ => true | None => false end)).
Proof. reflexivity. Qed.

Lemma db_iter_refines s p st : Inv s ->
  exists l, step s (DbIter p st) = (s, OList l) /\ sorted l /\
    forall k v, In (k, v) l <-> (abs s k = Some v /\ in_range p st k = true).
Proof.
  intros [Sd _]. exists (iterate p st (s_db s)). split; [reflexivity|]. split.
  - apply iterate_sorted; exact Sd.
  - intros k v. apply iterate_exact; exact Sd.
Qed.

(* reads never change anything *)
Definition is_read (o : op) : bool :=
  match o with DbGet _ | DbHas _ | DbIter _ _ | BGetPending _ _ | BSize _ | DbCompact => true | _ => false end.
Lemma read_pure s o : is_read o = true -> fst (step s o) = s.
Proof. destruct o; cbn; try discriminate; reflexivity. Qed.

(* only Write and Replay-into-db let a batch touch the database: "all or none" *)
Definition touches_db (o : op) : bool :=
  match o with DbPut _ _ | DbDel _ | BWrite _ | BReplayDb _ | DbIterDuring _ _ _ => true | _ => false end.
Lemma batch_ops_isolated s o : touches_db o = false -> s_db (fst (step s o)) = s_db s.
Proof. destruct o; cbn; try discriminate; intros _; rewrite ?db_setb; reflexivity. Qed.

Lemma write_atomic_in_order s b : Inv s ->
  forall k, abs (fst (step s (BWrite b))) k = fold_left fapply (b_ops (getb s b)) (abs s) k.
Proof.
  intros [Sd _] k. unfold abs. cbn. apply get_apply_ops; exact Sd.
Qed.

Lemma replay_same_as_write s b :
  s_db (fst (step s (BReplayDb b))) = s_db (fst (step s (BWrite b))).
Proof. reflexivity. Qed.

Lemma reset_then_write_noop s b :
  let s1 := fst (step s (BReset b)) in
  s_db (fst (step s1 (BWrite b))) = s_db s.
Proof. cbn. rewrite getb_setb_same. cbn. rewrite db_setb. reflexivity. Qed.

Lemma replay_into_batch s b :
  let s1 := fst (step s (BReplayB b)) in
  b_ops (getb s1 (negb b)) = b_ops (getb s (negb b)) ++ b_ops (getb s b)
  /\ getb s1 b = getb s b /\ s_db s1 = s_db s.
Proof.
  cbn. rewrite getb_setb_same. split; [apply batch_run_ops|]. split.
  - destruct b; reflexivity.
  - apply db_setb.
Qed.

(* pending view after SetPending(true) followed by any puts/deletes on that batch *)
Lemma pending_after_set x ws k :
  let x1 := mkBatch (b_ops x) (b_size x) true [] in
  batch_get_pending (batch_run x1 ws) k =
  match last_on k ws None with
  | Some None => OPend true None
  | Some (Some v) => OPend false (Some v)
  | None => OPend false None
  end.
Proof.
  cbn. unfold batch_get_pending. rewrite batch_run_pend by reflexivity. reflexivity.
Qed.

Lemma pending_off x ws k : b_tracking x = false -> b_pend x = [] ->
  batch_get_pending (batch_run x ws) k = OPend false None.
Proof.
  intros T E. unfold batch_get_pending. rewrite batch_run_pend_untracked by exact T.
  rewrite E. reflexivity.
Qed.

(* the step function drives a batch only through batch_run / set-pending / write / reset *)
Lemma step_batch_shape s o b :
  let x := getb s b in let x' := getb (fst (step s o)) b in
  x' = x \/ (exists ws, x' = batch_run x ws)
  \/ (exists f, x' = mkBatch (b_ops x) (b_size x) f []) \/ x' = empty_batch.
Proof.
  destruct o; cbn; auto;
  match goal with
  | |- context [setb s ?c _] =>
      destruct (Bool.eqb c b) eqn:E;
      [apply Bool.eqb_prop in E; subst; rewrite getb_setb_same|
       apply Bool.eqb_false_iff in E; left; destruct c, b; try congruence; reflexivity]
  | _ => idtac
  end.
  - right; left. exists [WPut k v]. reflexivity.
  - right; left. exists [WDel k]. reflexivity.
  - right; right; left. exists flag. reflexivity.
  - destruct b0, b; cbn; auto; right; right; left; exists false; reflexivity.
  - right; right; right; reflexivity.
  - right; left. eexists. reflexivity.
Qed.

(* a put/delete on a tracking batch is immediately visible in its pending view *)
Lemma pending_reads_put s b k v : b_tracking (getb s b) = true ->
  snd (step (fst (step s (BPut b k v))) (BGetPending b k)) = OPend false (Some v).
Proof.
  intros T. cbn -[batch_put]. rewrite getb_setb_same. unfold batch_get_pending.
  change (batch_put (getb s b) k v) with (batch_apply (getb s b) (WPut k v)).
  rewrite batch_apply_pend_tracking by exact T. cbn. rewrite keqb_refl. reflexivity.
Qed.
Lemma pending_reads_del s b k : b_tracking (getb s b) = true ->
  snd (step (fst (step s (BDel b k))) (BGetPending b k)) = OPend true None.
Proof.
  intros T. cbn -[batch_del]. rewrite getb_setb_same. unfold batch_get_pending.
  change (batch_del (getb s b) k) with (batch_apply (getb s b) (WDel k)).
  rewrite batch_apply_pend_tracking by exact T. cbn. rewrite keqb_refl. reflexivity.
Qed.

(* an iterator is a snapshot of the store at its creation: writes made while it is open are not seen by it,
   and they take effect on the store exactly as if no iterator were open *)
Lemma iterator_is_snapshot s p st ws :
  snd (step s (DbIterDuring p st ws)) = snd (step s (DbIter p st))
  /\ s_db (fst (step s (DbIterDuring p st ws))) = apply_ops ws (s_db s)
  /\ s_b0 (fst (step s (DbIterDuring p st ws))) = s_b0 s /\ s_b1 (fst (step s (DbIterDuring p st ws))) = s_b1 s.
Proof. cbn. repeat split. Qed.

Lemma compact_is_invisible s : step s DbCompact = (s, ONone).
Proof. reflexivity. Qed.

(* determinism: the outputs of a history are a function of the history alone, so any two
   backends that agree with the model agree with each other, byte for byte. *)
Lemma backends_agree (h : list op) (o1 o2 : list out) :
  outs_eqb (run init h) o1 = true -> outs_eqb (run init h) o2 = true ->
  outs_eqb o1 o2 = true.
Proof.
  assert (Hv : forall a b, val_eqb a b = true <-> a = b) by (intros; apply keqb_eq).
  assert (Ho : forall a b, oval_eqb a b = true <-> a = b).
  { intros [a|] [b|]; cbn; rewrite ?Hv; split; congruence. }
  assert (Hk : forall a b, kvs_eqb a b = true <-> a = b).
  { induction a as [|[k v] a IH]; intros [|[k' v'] b]; cbn; try (split; congruence).
    rewrite !andb_true_iff, keqb_eq, Hv, IH. split; [intros [[-> ->] ->]; reflexivity|].
    intros H; inversion H; auto. }
  assert (He : forall a b, out_eqb a b = true <-> a = b).
  { intros [] []; cbn; try (split; congruence).
    - rewrite Ho; split; congruence.
    - rewrite Bool.eqb_true_iff; split; congruence.
    - rewrite Hk; split; congruence.
    - rewrite andb_true_iff, Bool.eqb_true_iff, Ho. split; [intros [-> ->]; reflexivity|].
      intros H; inversion H; auto.
    - rewrite N.eqb_eq; split; congruence. }
  assert (Hl : forall a b, outs_eqb a b = true <-> a = b).
  { induction a as [|x a IH]; intros [|y b]; cbn; try (split; congruence).
    rewrite andb_true_iff, He, IH. split; [intros [-> ->]; reflexivity|].
    intros H; inversion H; auto. }
  rewrite !Hl. congruence.
Qed.

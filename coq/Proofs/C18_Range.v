(* C18: range proofs.  What a list accepted by VerifyRangeProof says about the trie: with the strict
   monotonicity guard every listed pair is held by the trie; without strictness that is false. *)
From Coq Require Import List NArith Bool Arith Sorted.
From GQ Require Import Lib.Key Model.C18 Proofs.C18_Base Proofs.C18_History.
Import ListNotations.

Definition klt (a b : list N) : Prop := kltb a b = true.

Lemma strict_inc_sorted ks : strict_inc ks = true -> StronglySorted klt ks.
Proof.
  induction ks as [|a r IH]; intros H; [constructor|].
  cbn [strict_inc] in H. apply andb_true_iff in H. destruct H as [Hab Hr].
  specialize (IH Hr). constructor; [exact IH|].
  destruct r as [|b r']; [constructor|].
  inversion IH as [|? ? Hs Hall]; subst.
  constructor; [exact Hab|].
  apply Forall_forall. intros c Hc.
  rewrite Forall_forall in Hall. specialize (Hall c Hc).
  unfold klt in *. eapply kltb_trans; eauto.
Qed.

Lemma sorted_strict_inc ks : StronglySorted klt ks -> strict_inc ks = true.
Proof.
  induction 1 as [|a r Hs IH Hall]; [reflexivity|].
  cbn [strict_inc]. rewrite IH, andb_true_r.
  destruct r as [|b r']; [reflexivity|]. inversion Hall; subst. assumption.
Qed.

Lemma strict_inc_nodup ks : strict_inc ks = true -> NoDup ks.
Proof.
  intros H. apply strict_inc_sorted in H.
  induction H as [|a r Hs IH Hall]; constructor; [|exact IH].
  intros Hin. rewrite Forall_forall in Hall. specialize (Hall a Hin).
  unfold klt in Hall. rewrite kltb_irrefl in Hall. discriminate.
Qed.

Lemma apply_hist_notin (h : hist) : forall f k, ~ In k (map fst h) -> apply_hist f h k = f k.
Proof.
  induction h as [|[k0 v0] h IH]; intros f k Hn; cbn [apply_hist]; [reflexivity|].
  rewrite IH by (intros Hi; apply Hn; right; exact Hi).
  destruct (keqb k k0) eqn:E; [|reflexivity].
  apply keqb_eq in E. subst. exfalso. apply Hn. left. reflexivity.
Qed.

Lemma apply_hist_nodup (h : hist) : forall f k v, NoDup (map fst h) -> In (k, v) h -> apply_hist f h k = v.
Proof.
  induction h as [|[k0 v0] h IH]; intros f k v Hnd Hin; [destruct Hin|].
  cbn [map fst] in Hnd. inversion Hnd as [|? ? Hnot Hnd']; subst.
  cbn [apply_hist]. destruct Hin as [Heq|Hin].
  - inversion Heq; subst. rewrite apply_hist_notin by exact Hnot. rewrite keqb_refl. reflexivity.
  - eapply IH; eauto.
Qed.

(* every pair of a list that passed the strict guard and whose replay leaves the trie unchanged is
   held by the trie (a pair with an empty value: the key is absent) *)
Lemma range_pairs_stored t ps : Inv t -> wf_hist ps -> range_ok t ps = true ->
  forall k v, In (k, v) ps -> get t k = v.
Proof.
  intros Hi Hw Hok k v Hin. unfold range_ok in Hok. apply andb_true_iff in Hok. destruct Hok as [Hs Hr].
  destruct (run_correct ps t Hi Hw) as (t' & Hrun & _ & Hg).
  rewrite Hrun in Hr. apply node_eqb_eq in Hr. subst t'.
  rewrite Hg. apply apply_hist_nodup; [apply strict_inc_nodup; exact Hs|exact Hin].
Qed.

(* the replay half alone (what remains when the guard lets equal neighbours through): a list that is
   sorted, leaves the trie unchanged, and contains a pair the trie does not hold *)
Lemma range_nonstrict_witness :
  exists t ps, Inv t /\ wf_hist ps /\
    Sorted (fun a b => kleb a b = true) (map fst ps) /\
    (match run t ps with Some t' => node_eqb t' t | None => false end) = true /\
    exists k v, In (k, v) ps /\ get t k <> v.
Proof.
  destruct (run_correct [([18;52], [1]); ([18;53], [2]); ([19;0], [3])]%N Nil Inv_nil) as (t & Hr & Hi & _).
  { repeat constructor; vm_compute; reflexivity. }
  exists t, [([18;52], [1]); ([18;53], [238;238]); ([18;53], [2]); ([19;0], [3])]%N.
  split; [exact Hi|]. split; [repeat constructor; vm_compute; reflexivity|].
  vm_compute in Hr. inversion Hr; subst t. clear Hr Hi.
  split; [repeat constructor; vm_compute; reflexivity|].
  split; [vm_compute; reflexivity|].
  exists [18;53]%N, [238;238]%N. split; [right; left; reflexivity|vm_compute; discriminate].
Qed.

(* C01 -- CheckDenominations: accepted iff no value moves to a higher denomination.
   Stated over the generated table types.Denominations with decidable side conditions. *)
From Coq Require Import List NArith Bool Lia ZifyBool ZifyN ZifyNat.
From GQ Require Import Lib.Key Lib.SMap Generated.C01Params Model.C01.
Import ListNotations.
Local Open Scope N_scope.

(* side conditions on the generated constants (re-checked whenever the source changes) *)
Definition levels : list N := map N.of_nat (seq 1 (N.to_nat max_denomination)).
Definition denoms_ok : bool :=
  (len denominations =? max_denomination + 1)
  && (denominations_map_size =? max_denomination + 1)
  && forallb (fun d => 0 <? d) denominations
  && forallb (fun i => den_value i mod den_value (i - 1) =? 0) levels.

Lemma denoms_ok_true : denoms_ok = true.
Proof. vm_compute. reflexivity. Qed.

Lemma den_value_pos d : d <= max_denomination -> 0 < den_value d.
Proof.
  intros H. pose proof denoms_ok_true as Hok. unfold denoms_ok in Hok.
  apply andb_prop in Hok as (Hok & _). apply andb_prop in Hok as (Hok & Hpos). apply andb_prop in Hok as (Hlen & _).
  apply N.eqb_eq in Hlen. unfold len in Hlen.
  rewrite forallb_forall in Hpos. unfold den_value.
  assert (N.to_nat d < length denominations)%nat as Hlt by lia.
  specialize (Hpos (nth (N.to_nat d) denominations 0) (nth_In _ _ Hlt)). lia.
Qed.

Lemma den_value_beyond d : max_denomination < d -> den_value d = 0.
Proof.
  intros H. pose proof denoms_ok_true as Hok. unfold denoms_ok in Hok.
  apply andb_prop in Hok as (Hok & _). apply andb_prop in Hok as (Hok & _). apply andb_prop in Hok as (Hlen & _).
  apply N.eqb_eq in Hlen. unfold len in Hlen. unfold den_value. apply nth_overflow. lia.
Qed.

Lemma den_value_step d : 1 <= d <= max_denomination ->
  den_value d = den_value d / den_value (d - 1) * den_value (d - 1).
Proof.
  intros H. pose proof denoms_ok_true as Hok. unfold denoms_ok in Hok.
  apply andb_prop in Hok as (_ & Hdiv). rewrite forallb_forall in Hdiv.
  assert (In d levels) as Hin.
  { unfold levels. apply in_map_iff. exists (N.to_nat d). split; [lia|]. apply in_seq. lia. }
  specialize (Hdiv d Hin). apply N.eqb_eq in Hdiv.
  assert (den_value (d - 1) <> 0) as Hnz by (pose proof (den_value_pos (d - 1)); lia).
  pose proof (N.div_mod (den_value d) (den_value (d - 1)) Hnz) as Hdm. rewrite Hdiv in Hdm. lia.
Qed.

(* value of the entries of denomination >= d *)
Definition vge (d : N) (l : list N) : N := sum_den (filter (N.leb d) l).

Lemma sum_den_cons x l : sum_den (x :: l) = den_value x + sum_den l.
Proof. reflexivity. Qed.

Lemma count_cons d x l : count d (x :: l) = (if d =? x then 1 else 0) + count d l.
Proof. unfold count, len; cbn [filter]. destruct (d =? x); cbn [length]; lia. Qed.

Lemma vge_split d l : vge d l = count d l * den_value d + vge (d + 1) l.
Proof.
  unfold vge. induction l as [|x l IH]; [unfold count, len; cbn; lia|].
  rewrite count_cons. cbn [filter].
  destruct (d <=? x) eqn:E1; destruct (d + 1 <=? x) eqn:E2; destruct (d =? x) eqn:E3;
    rewrite ?sum_den_cons, IH; try lia.
  apply N.eqb_eq in E3. subst. lia.
Qed.

Lemma vge_le_total d l : vge d l <= sum_den l.
Proof.
  unfold vge. induction l as [|x l IH]; cbn [filter]; [lia|].
  destruct (d <=? x); rewrite ?sum_den_cons; lia.
Qed.

Lemma vge_top l : vge (max_denomination + 1) l = 0.
Proof.
  unfold vge. induction l as [|x l IH]; cbn [filter]; [reflexivity|].
  destruct (max_denomination + 1 <=? x) eqn:E; [|exact IH].
  rewrite sum_den_cons, IH, den_value_beyond; lia.
Qed.

Lemma two64_pos : 0 < two64.
Proof. reflexivity. Qed.

(* the loop invariant: carry * D(i) is the value the inputs of denomination > i have in
   excess of the outputs of denomination > i; nothing wraps while the input value fits 64 bits *)
Lemma check_loop_spec ins outs : sum_den ins < two64 -> forall i carry,
  N.of_nat i <= max_denomination ->
  carry * den_value (N.of_nat i) + vge (N.of_nat i + 1) outs = vge (N.of_nat i + 1) ins ->
  (check_den_loop i carry ins outs = true <->
   forall d, 1 <= d <= N.of_nat i -> vge d outs <= vge d ins).
Proof.
  intros Hb. induction i as [|j IH]; intros carry Hi Hinv.
  - cbn [check_den_loop]. split; [intros _ d Hd; lia|reflexivity].
  - cbn [check_den_loop].
    remember (N.of_nat (S j)) as n eqn:En.
    assert (n = N.of_nat j + 1) as Hn by lia.
    assert (n - 1 = N.of_nat j) as Hn1 by lia.
    rewrite Hn1.
    pose proof (den_value_pos n Hi) as Dpos.
    assert (N.of_nat j <= max_denomination) as Hj by lia.
    pose proof (den_value_pos (N.of_nat j) Hj) as Dppos.
    pose proof (den_value_step n ltac:(lia)) as Hstep. rewrite Hn1 in Hstep.
    set (Dn := den_value n) in *. set (Dp := den_value (N.of_nat j)) in *. set (q := Dn / Dp) in *.
    pose proof (vge_split n ins) as Vi. pose proof (vge_split n outs) as Vo.
    pose proof (vge_le_total n ins) as Vb.
    fold Dn in Vi, Vo.
    set (ci := count n ins) in *. set (co := count n outs) in *.
    set (Vi1 := vge (n + 1) ins) in *. set (Vo1 := vge (n + 1) outs) in *.
    assert ((ci + carry) * Dn <= vge n ins) as Hle1 by nia.
    assert (ci + carry < two64) as Hsmall by nia.
    rewrite (N.mod_small _ _ Hsmall).
    destruct (co <=? ci + carry) eqn:Ec.
    + apply N.leb_le in Ec.
      assert ((ci + carry - co) * q * Dp = (ci + carry - co) * Dn) as Hq by (rewrite <- N.mul_assoc, <- Hstep; reflexivity).
      assert ((ci + carry - co) * q < two64) as Hsmall2 by nia.
      rewrite (N.mod_small _ _ Hsmall2).
      assert ((ci + carry - co) * q * Dp + vge (N.of_nat j + 1) outs = vge (N.of_nat j + 1) ins) as Hinv'.
      { rewrite <- Hn. rewrite Hq, Vo, Vi. nia. }
      rewrite (IH _ Hj Hinv'). split.
      * intros H d Hd. destruct (N.eq_dec d n) as [->|Hne]; [|apply H; lia].
        rewrite <- Hn in Hinv'. lia.
      * intros H d Hd. apply H. lia.
    + apply N.leb_gt in Ec. split; [discriminate|]. intros H. exfalso.
      specialize (H n ltac:(lia)). rewrite Vo, Vi in H. nia.
Qed.

Lemma check_denominations_iff ins outs : sum_den ins < two64 ->
  (check_denominations ins outs = true <->
   forall d, 1 <= d <= max_denomination -> vge d outs <= vge d ins).
Proof.
  intros Hb. unfold check_denominations.
  pose proof (check_loop_spec ins outs Hb (N.to_nat max_denomination) 0) as H.
  rewrite N2Nat.id in H. apply H; [lia|]. rewrite !vge_top. lia.
Qed.

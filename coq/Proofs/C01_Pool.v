(* C01 -- the pool's senders cache in the Qi authorisation path.
   StateProcessor.Process calls ProcessQiTx with checkSig = (tx.Hash() not in pool.senders); an entry of
   that cache therefore stands for "signature verified".  Model/C01.v: pool_admit / pool_gossip (addQiTxs,
   addQiTxsWithoutValidationLocked), via_cache / run_block_via_pool (Process). *)
From Coq Require Import List NArith Bool Lia.
From GQ Require Import Lib.Key Lib.SMap Generated.C01Params Model.C01 Proofs.C01.
Import ListNotations.
Local Open Scope N_scope.

(* ------------------------------------------------------------------ ProcessQiTx and the signature bit, any store *)

Section AnyStore.
Context {S : Type} (st : store S).

Lemma process_qi_sig c (b b' : bst (S:=S)) t r :
  process_qi st c b t = Ok (b', r) -> (t_checksig t = true -> t_sigok t = true) /\ t_ins t <> [].
Proof.
  intros H. unfold process_qi in H.
  destruct (sanity t) eqn:Es; [discriminate|].
  destruct (b_gp b <? t_intrinsic t); [discriminate|].
  destruct (c_gaslimit c <? b_used b + t_intrinsic t); [discriminate|].
  destruct (in_loop st c (t_checksig t) (b_gp b - t_intrinsic t) (mkIA (b_store b) [] 0 [] []) (t_ins t)) as [ia|]; [|discriminate].
  destruct (post_inputs false c (b_rlim b) (b_plim b) t (b_gp b - t_intrinsic t) (b_used b + t_intrinsic t)
                        (ia_addrs ia) (ia_total ia)) as [p|]; [|discriminate].
  destruct (negb (b_first b) && negb (check_denominations (ia_dens ia) (p_outdens p))); [discriminate|].
  destruct (t_checksig t && negb (t_sigok t)) eqn:Esig; [discriminate|].
  split.
  - intros Hc. rewrite Hc in Esig. cbn [andb] in Esig. destruct (t_sigok t); [reflexivity|discriminate].
  - unfold sanity in Es. intros Hn. rewrite Hn in Es. unfold len in Es; cbn in Es. discriminate.
Qed.

Lemma run_txs_sig c : forall txs (b : bst (S:=S)) rs b',
  run_txs st c b txs = (rs, Some b') ->
  Forall (fun t => (t_checksig t = true -> t_sigok t = true) /\ t_ins t <> []) txs.
Proof.
  induction txs as [|t r IH]; intros b rs b' H; [constructor|].
  cbn [run_txs] in H.
  destruct (process_qi st c b t) as [[b1 res]|] eqn:Ep; [|discriminate].
  destruct (run_txs st c b1 r) as [l o] eqn:Er.
  inversion H; subst rs o; clear H.
  constructor; [eapply process_qi_sig; exact Ep|eapply IH; exact Er].
Qed.

End AnyStore.

(* ------------------------------------------------------------------ the cache only ever holds verified transactions *)

(* every cached hash is the hash of a transaction the pool has seen whose signature bit is set *)
Definition cache_sound (seen : list tx) (cache : list (list N)) : Prop :=
  forall h, In h cache -> exists t, In t seen /\ t_hash t = h /\ t_sigok t = true.

Lemma cache_sound_nil seen : cache_sound seen [].
Proof. intros h []. Qed.

Lemma pool_admit_facts outs_ok c l t : pool_admit outs_ok c l t = true ->
  validate_inputs c l t = true /\ t_sigok t = true.
Proof. unfold pool_admit. intros H. apply andb_prop in H as (H1 & H2). apply andb_prop in H1 as (H1 & _). auto. Qed.

Lemma pool_gossip_sound outs_ok c l seen cache txs :
  cache_sound seen cache -> cache_sound (seen ++ txs) (pool_gossip outs_ok c l cache txs).
Proof.
  intros Hs h Hin. unfold pool_gossip in Hin. apply in_app_or in Hin as [Hin|Hin].
  - destruct (Hs h Hin) as (t & Ht & Hh & Hok). exists t. split; [apply in_or_app; left; exact Ht|auto].
  - apply in_map_iff in Hin as (t & Hh & Hf). apply filter_In in Hf as (Ht & Ha).
    apply pool_admit_facts in Ha as (_ & Hok). exists t. split; [apply in_or_app; right; exact Ht|auto].
Qed.

(* a history of gossip phases, each against its own head and ledger *)
Fixpoint gossip_history (outs_ok : tx -> bool) (cache : list (list N)) (hs : list (ctx * ledger * list tx))
  : list (list N) :=
  match hs with
  | [] => cache
  | (c, l, txs) :: r => gossip_history outs_ok (pool_gossip outs_ok c l cache txs) r
  end.

Lemma gossip_history_sound outs_ok : forall hs seen cache,
  cache_sound seen cache ->
  cache_sound (seen ++ concat (map snd hs)) (gossip_history outs_ok cache hs).
Proof.
  induction hs as [|[[c l] txs] r IH]; intros seen cache Hs; cbn [gossip_history map concat snd].
  - rewrite app_nil_r. exact Hs.
  - rewrite app_assoc. apply IH. apply pool_gossip_sound. exact Hs.
Qed.

Lemma cache_only_verified outs_ok hs :
  cache_sound (concat (map snd hs)) (gossip_history outs_ok [] hs).
Proof. apply (gossip_history_sound outs_ok hs [] []). apply cache_sound_nil. Qed.

(* ------------------------------------------------------------------ a block processed behind the cache *)

Lemma amem_in h cache : amem h cache = true -> In h cache.
Proof.
  unfold amem. intros H. apply existsb_exists in H as (h' & Hin & He). apply keqb_eq in He. subst h'. exact Hin.
Qed.

(* either the transaction is signed by the keys it carries, or another transaction with the same hash that
   IS signed went through the pool (two transactions under one hash: a collision of tx.Hash()) *)
Definition signed_or_collision (seen : list tx) (t : tx) : Prop :=
  t_sigok t = true
  \/ exists t', In t' seen /\ t_hash t' = t_hash t /\ t_sigok t' = true /\ t_sigok t = false.

Lemma via_pool_authorised seen cache (l : ledger) c txs rs l' :
  cache_sound seen cache ->
  run_block_via_pool cache l c txs = (rs, true, l') ->
  Forall (fun t => t_ins t <> [] /\ signed_or_collision seen t) txs.
Proof.
  intros Hs H. unfold run_block_via_pool, run_block in H.
  destruct (run_txs view_store c (init_bst c (view_of true l)) (map (via_cache cache) txs)) as [rs0 [b|]] eqn:Er;
    [|inversion H].
  apply run_txs_sig in Er. rewrite Forall_forall in Er. apply Forall_forall. intros t Ht.
  destruct (Er (via_cache cache t)) as (Hsig & Hins); [apply in_map; exact Ht|].
  unfold via_cache, set_checksig in Hsig, Hins. cbn [t_checksig t_sigok t_ins] in Hsig, Hins.
  split; [exact Hins|]. unfold signed_or_collision.
  destruct (amem (t_hash t) cache) eqn:Em; cbn [negb] in Hsig.
  - apply amem_in in Em. destruct (Hs _ Em) as (t' & Ht' & Hh & Hok).
    destruct (t_sigok t) eqn:Eo; [left; reflexivity|]. right. exists t'. auto.
  - left. apply Hsig. reflexivity.
Qed.

(* end to end: whatever was gossiped to the pool before, in any number of phases, a block accepted behind the
   resulting cache carries only transactions signed by the keys they carry (or a hash collision) *)
Lemma authorised_whatever_pool_saw outs_ok hs (l : ledger) c txs rs l' :
  run_block_via_pool (gossip_history outs_ok [] hs) l c txs = (rs, true, l') ->
  Forall (fun t => t_ins t <> [] /\ signed_or_collision (concat (map snd hs)) t) txs.
Proof. apply via_pool_authorised. apply cache_only_verified. Qed.

(* ------------------------------------------------------------------ the reliance is real: an unsound cache entry *)

(* the spend x_tx1 carrying the owner's key but NOT signed by it (another signature, hence another hash) *)
Definition p_forged : tx :=
  mkTx (repeat 13 32) true (t_ins x_tx1) (t_outs x_tx1) [] (t_intrinsic x_tx1) true false.

(* The forged transaction is rejected behind an empty cache; the pool never caches it (the history
   [forged; valid twin] leaves exactly the twin's hash) and behind that cache it is still rejected while the
   twin is accepted without a second signature check; but it is ACCEPTED behind a cache that holds its hash:
   once such an entry exists nothing else stands between a forged transaction and the ledger. *)
Lemma forged_behind_cache :
  run_block_via_pool [] w_ledger w_ctx [p_forged] = ([], false, w_ledger)
  /\ gossip_history (fun _ => true) [] [(w_ctx, w_ledger, [p_forged; x_tx1])] = [t_hash x_tx1]
  /\ run_block_via_pool [t_hash x_tx1] w_ledger w_ctx [p_forged] = ([], false, w_ledger)
  /\ (exists rs l', run_block_via_pool [t_hash x_tx1] w_ledger w_ctx [x_tx1] = (rs, true, l')
                    /\ map t_checksig (map (via_cache [t_hash x_tx1]) [x_tx1]) = [false])
  /\ exists rs l', run_block_via_pool [t_hash p_forged] w_ledger w_ctx [p_forged] = (rs, true, l')
                   /\ l' <> w_ledger.
Proof.
  split; [vm_compute; reflexivity|]. split; [vm_compute; reflexivity|]. split; [vm_compute; reflexivity|].
  split.
  - eexists; eexists. split; [vm_compute; reflexivity|vm_compute; reflexivity].
  - eexists; eexists. split; [vm_compute; reflexivity|]. discriminate.
Qed.

(* C12 — lemmas about the journal model (Model/C12.v).
   Architecture: every mutator only APPENDS journal entries; for each appended entry the
   corresponding revert, applied to the state right after the mutation, gives back exactly the
   state before ([extm]).  Rewinding to an older journal length therefore passes through every
   earlier state ([rewind_core_compose]) and the induction over arbitrary histories with nested
   snapshots/reverts only needs list reasoning about validRevisions. *)
From Coq Require Import List NArith ZArith Bool Lia ZifyBool ZifyNat ZifyN.
From GQ Require Import Lib.Key Lib.SMap Lib.C12_Laws Model.C12.
Import ListNotations.

(* ---------- record eta ---------- *)
Lemma set_objs_id c : set_objs c (objs c) = c.  Proof. destruct c; reflexivity. Qed.
Lemma set_objs_set_objs c u v : set_objs (set_objs c u) v = set_objs c v.  Proof. reflexivity. Qed.
Lemma objs_set_objs c v : objs (set_objs c v) = v.  Proof. reflexivity. Qed.
Lemma set_refund_id c : set_refund c (refund c) = c.  Proof. destruct c; reflexivity. Qed.
Lemma set_preim_id c : set_preim c (preim c) = c.  Proof. destruct c; reflexivity. Qed.
Lemma set_transient_id c : set_transient c (transient c) = c.  Proof. destruct c; reflexivity. Qed.
Lemma set_al_id c : set_al c (al_addr c) (al_slots c) = c.  Proof. destruct c; reflexivity. Qed.
Lemma set_logs_id c : set_logs c (logs c) (logsize c) = c.  Proof. destruct c; reflexivity. Qed.

(* ---------- replace_nth ---------- *)
Lemma replace_nth_restore {A} n (x y : A) l :
  nth_error l n = Some x -> replace_nth n x (replace_nth n y l) = l.
Proof.
  revert n; induction l as [|h t IH]; intros [|n]; cbn; try discriminate.
  - intros H; inversion H; reflexivity.
  - intros H. f_equal. apply IH. exact H.
Qed.

Lemma nth_error_replace_nth_same {A} n (y : A) l x :
  nth_error l n = Some x -> nth_error (replace_nth n y l) n = Some y.
Proof.
  revert n; induction l as [|h t IH]; intros [|n]; cbn; try discriminate; auto.
Qed.

Lemma nth_error_replace_nth_other {A} n k (y : A) l :
  k <> n -> nth_error (replace_nth n y l) k = nth_error l k.
Proof.
  revert n k; induction l as [|h t IH]; intros [|n] [|k] H; cbn; try reflexivity; try congruence.
  apply IH. congruence.
Qed.

(* ---------- normalised word maps ---------- *)
Definition nz (m : smap word) : Prop := forall k, get k m <> Some 0%N.

Lemma nz_nil : nz [].  Proof. intros k; cbn; discriminate. Qed.

Lemma setw_sorted k v m : sorted m -> sorted (setw k v m).
Proof. intros S. unfold setw. destruct (N.eqb v 0); [apply del_sorted|apply put_sorted]; exact S. Qed.

Lemma setw_nz k v m : sorted m -> nz m -> nz (setw k v m).
Proof.
  intros S Z k0. unfold setw. destruct (N.eqb v 0) eqn:E.
  - destruct (keqb k0 k) eqn:K.
    + apply keqb_eq in K; subst. rewrite get_del_same by exact S. discriminate.
    + apply keqb_neq in K. rewrite get_del_other by assumption. apply Z.
  - rewrite get_put_eq_dec. destruct (keqb k0 k); [|apply Z].
    intros H; inversion H; subst. rewrite N.eqb_refl in E. discriminate.
Qed.

(* writing the previous visible value back restores the map *)
Lemma setw_restore k v m : sorted m -> nz m -> setw k (getw k m) (setw k v m) = m.
Proof.
  intros S Z. unfold getw, setw. destruct (get k m) as [p|] eqn:G.
  - assert (p <> 0%N) as P by (intros ->; exact (Z k G)).
    apply N.eqb_neq in P. rewrite P. destruct (N.eqb v 0).
    + apply put_del_restore; assumption.
    + apply put_restore; assumption.
  - cbn. destruct (N.eqb v 0).
    + rewrite !del_absent; auto. rewrite del_absent; auto.
    + apply del_put_absent; assumption.
Qed.

(* ---------- well-formedness ---------- *)
Definition wf_objs (m : smap acct) : Prop :=
  forall a o, get a m = Some o -> sorted (a_stor o) /\ nz (a_stor o).

Definition wf_al (addr : smap Z) (slots : list (smap unit)) : Prop :=
  forall a i, get a addr = Some i ->
    (i < 0)%Z \/ exists ss, nth_error slots (Z.to_nat i) = Some ss /\ ss <> [].

Definition WFc (c : core) : Prop :=
  wf_objs (objs c) /\ sorted (transient c) /\ nz (transient c) /\ wf_al (al_addr c) (al_slots c).

Lemma wf_objs_put a o m : wf_objs m -> sorted (a_stor o) -> nz (a_stor o) -> wf_objs (put a o m).
Proof.
  intros W S Z a0 o0. rewrite get_put_eq_dec. destruct (keqb a0 a).
  - intros H; inversion H; subst; auto.
  - apply W.
Qed.

Lemma forallb_get {V} (f : key * V -> bool) (m : smap V) k v :
  sorted m -> forallb f m = true -> get k m = Some v -> f (k, v) = true.
Proof.
  intros S F G. rewrite forallb_forall in F. apply F. apply get_in; assumption.
Qed.

Lemma nzb_nz m : sortedb m = true -> nzb m = true -> nz m.
Proof.
  intros S Z k G. apply sortedb_sorted in S.
  pose proof (forallb_get _ _ _ _ S Z G) as H. cbn in H. discriminate.
Qed.

Lemma wf_coreb_WFc c : wf_coreb c = true -> WFc c.
Proof.
  unfold wf_coreb. rewrite !andb_true_iff.
  intros [[[[[[Ho So] St] Zt] Sa] _] Al].
  split; [|split; [|split]].
  - intros a o G.
    pose proof (forallb_get _ _ _ _ (sortedb_sorted _ So) Ho G) as E. cbn in E.
    apply andb_prop in E as [E1 E2]. split; [apply sortedb_sorted; exact E1|apply nzb_nz; assumption].
  - apply sortedb_sorted; exact St.
  - apply nzb_nz; assumption.
  - intros a i G. pose proof (forallb_get _ _ _ _ (sortedb_sorted _ Sa) Al G) as E.
    unfold wf_al_entryb in E. cbn in E. destruct i as [|p|p].
    + right. destruct (nth_error (al_slots c) (Z.to_nat 0)) as [[|x ss]|]; try discriminate.
      eexists; split; [reflexivity|discriminate].
    + right. destruct (nth_error (al_slots c) (Z.to_nat (Z.pos p))) as [[|x ss]|]; try discriminate.
      eexists; split; [reflexivity|discriminate].
    + left. lia.
Qed.

(* ---------- rewinding the journal ---------- *)
Lemma rewind_core_ge n c j : length j <= n -> rewind_core n c j = Some (c, j).
Proof.
  destruct j as [|e j]; cbn [rewind_core]; [reflexivity|]. intros H.
  destruct (Nat.ltb n (length (e :: j))) eqn:E; [|reflexivity].
  apply Nat.ltb_lt in E. lia.
Qed.

Lemma rewind_core_lt n c e j : n < length (e :: j) ->
  rewind_core n c (e :: j) = match undo_core e c with Some c' => rewind_core n c' j | None => None end.
Proof.
  intros H. cbn [rewind_core]. destruct (Nat.ltb n (length (e :: j))) eqn:E; [reflexivity|].
  apply Nat.ltb_ge in E. lia.
Qed.

Lemma rewind_core_length n c j c' j' : rewind_core n c j = Some (c', j') -> length j' = Nat.min n (length j).
Proof.
  revert c; induction j as [|e j IH]; intros c; cbn [rewind_core].
  - intros H; inversion H; subst. cbn. lia.
  - destruct (Nat.ltb n (length (e :: j))) eqn:E.
    + apply Nat.ltb_lt in E. destruct (undo_core e c) as [c1|]; [|discriminate].
      intros H. apply IH in H. cbn [length] in *. lia.
    + apply Nat.ltb_ge in E. intros H; inversion H; subst. lia.
Qed.

(* going back to n directly = going back to m >= n first *)
Lemma rewind_core_compose n m c j c' j' :
  n <= m -> rewind_core m c j = Some (c', j') -> rewind_core n c j = rewind_core n c' j'.
Proof.
  intros L. revert c; induction j as [|e j IH]; intros c.
  - cbn. intros H; inversion H; subst. reflexivity.
  - destruct (Nat.ltb m (length (e :: j))) eqn:E.
    + apply Nat.ltb_lt in E. rewrite rewind_core_lt by exact E.
      rewrite rewind_core_lt by lia.
      destruct (undo_core e c) as [c1|]; [|discriminate]. apply IH.
    + apply Nat.ltb_ge in E. rewrite rewind_core_ge by exact E.
      intros H; inversion H; subst. reflexivity.
Qed.

Lemma rewind_dirt_ge n d j : length j <= n -> rewind_dirt n d j = d.
Proof.
  destruct j as [|e j]; cbn [rewind_dirt]; [reflexivity|]. intros H.
  destruct (Nat.ltb n (length (e :: j))) eqn:E; [|reflexivity]. apply Nat.ltb_lt in E. lia.
Qed.

(* ---------- "m' extends m and rewinds to it" ---------- *)
Definition extc (x y : core * list entry) : Prop :=
  exists es, snd y = es ++ snd x /\ rewind_core (length (snd x)) (fst y) (snd y) = Some x.

Lemma extc_refl x : extc x x.
Proof. exists []. split; [reflexivity|]. destruct x as [c j]. apply rewind_core_ge. cbn. lia. Qed.

Lemma extc_trans x y z : extc x y -> extc y z -> extc x z.
Proof.
  intros [es1 [E1 R1]] [es2 [E2 R2]]. exists (es2 ++ es1). split.
  - rewrite E2, E1. apply app_assoc.
  - destruct y as [cy jy]. cbn [fst snd] in *.
    rewrite (rewind_core_compose (length (snd x)) (length jy) _ _ _ _ ltac:(rewrite E1, app_length; lia) R2).
    exact R1.
Qed.

Lemma extc_single c j e c' : undo_core e c' = Some c -> extc (c, j) (c', e :: j).
Proof.
  intros U. exists [e]. split; [reflexivity|]. cbn [fst snd].
  rewrite rewind_core_lt by (cbn; lia). rewrite U. apply rewind_core_ge. lia.
Qed.

Definition cj (m : mstate) : core * list entry := (m_core m, m_jr m).
Definition extm (m m' : mstate) : Prop := extc (cj m) (cj m').

Lemma extm_refl m : extm m m.  Proof. apply extc_refl. Qed.
Lemma extm_trans a b c : extm a b -> extm b c -> extm a c.  Proof. apply extc_trans. Qed.

(* one journalled write: append e, then change the core to c' *)
Lemma extm_append m e c' : undo_core e c' = Some (m_core m) -> extm m (with_core (append e m) c').
Proof. intros U. unfold extm, cj. cbn. apply extc_single. exact U. Qed.

Lemma extm_same_cj m m' : cj m' = cj m -> extm m m'.
Proof. intros E. unfold extm. rewrite E. apply extc_refl. Qed.

(* ---------- objects ---------- *)
Lemma live_get a c o : live a c = Some o -> get a (objs c) = Some o /\ a_del o = false.
Proof.
  unfold live. destruct (get a (objs c)) as [o'|]; [|discriminate].
  destruct (a_del o') eqn:D; [discriminate|]. intros H; inversion H; subst; auto.
Qed.

Lemma live_put a o c : a_del o = false -> live a (set_objs c (put a o (objs c))) = Some o.
Proof. intros D. unfold live. cbn. rewrite get_put_same, D. reflexivity. Qed.

(* reverting a field write on the object that was just written *)
Lemma undo_obj_after_upd a o o' f c :
  get a (objs c) = Some o -> a_del o' = false -> f o' = o ->
  undo_obj a f (set_objs c (put a o' (objs c))) = Some c.
Proof.
  intros G D F. unfold undo_obj. rewrite live_put by exact D. cbn [objs set_objs].
  rewrite set_objs_set_objs, put_put_same, F, put_same_id by exact G.
  rewrite set_objs_id. reflexivity.
Qed.

Lemma extm_upd m a o o' e f :
  get a (objs (m_core m)) = Some o -> a_del o' = false -> f o' = o ->
  (forall c, undo_core e c = undo_obj a f c) ->
  extm m (upd a o' (append e m)).
Proof.
  intros G D F U. unfold upd, with_objs. apply extm_append. cbn [m_core append].
  rewrite U. apply undo_obj_after_upd; assumption.
Qed.

(* createObject *)
Lemma create_object_ext a m : extm m (fst (create_object a m)).
Proof.
  unfold create_object. cbn [fst]. unfold with_objs. apply extm_append. cbn [m_core append].
  destruct (get a (objs (m_core m))) as [p|] eqn:G; cbn [undo_core objs set_objs].
  - rewrite set_objs_set_objs, put_restore by exact G. rewrite set_objs_id. reflexivity.
  - rewrite set_objs_set_objs, del_put_absent by exact G. rewrite set_objs_id. reflexivity.
Qed.

Lemma create_object_get a m : get a (objs (m_core (fst (create_object a m)))) = Some new_acct.
Proof. unfold create_object. cbn. apply get_put_same. Qed.

Lemma create_object_objs a m :
  objs (m_core (fst (create_object a m))) = put a new_acct (objs (m_core m)).
Proof. reflexivity. Qed.

Lemma get_or_new_ext a m : extm m (fst (get_or_new a m)).
Proof.
  unfold get_or_new. destruct (live a (m_core m)); cbn [fst].
  - apply extm_refl.
  - apply create_object_ext.
Qed.

Lemma get_or_new_live a m :
  get a (objs (m_core (fst (get_or_new a m)))) = Some (snd (get_or_new a m)) /\ a_del (snd (get_or_new a m)) = false.
Proof.
  unfold get_or_new. destruct (live a (m_core m)) as [o|] eqn:L; cbn [fst snd].
  - apply live_get. exact L.
  - split; [apply create_object_get|reflexivity].
Qed.

(* C12 — lemmas about the journal model (Model/C12.v).
   Architecture: every mutator only APPENDS journal entries; for each appended entry the
   corresponding revert, applied to the state right after the mutation, gives back exactly the
   state before ([extm]).  Rewinding to an older journal length therefore passes through every
   earlier state ([rewind_core_compose]) and the induction over arbitrary histories with nested
   snapshots/reverts only needs list reasoning about validRevisions. *)
From Coq Require Import List NArith ZArith Bool Lia ZifyBool ZifyNat ZifyN Sorted.
From GQ Require Import Lib.Key Lib.SMap Lib.C12_Laws Model.C12.
Import ListNotations.

(* ---------- record eta ---------- *)
Lemma set_objs_id c : set_objs c (objs c) = c.  Proof. destruct c; reflexivity. Qed.
Lemma set_objs_set_objs c u v : set_objs (set_objs c u) v = set_objs c v.  Proof. reflexivity. Qed.
Lemma objs_set_objs c v : objs (set_objs c v) = v.  Proof. reflexivity. Qed.
Lemma set_refund_id c : set_refund c (refund c) = c.  Proof. destruct c; reflexivity. Qed.
Lemma set_preim_id c : set_preim c (preim c) = c.  Proof. destruct c; reflexivity. Qed.
Lemma set_transient_id c : set_transient c (transient c) = c.  Proof. destruct c; reflexivity. Qed.
Lemma set_al_id c : set_al c (al_addr c) (al_slots c) = c.  Proof. destruct c; reflexivity. Qed.
Lemma set_logs_id c : set_logs c (logs c) (logsize c) = c.  Proof. destruct c; reflexivity. Qed.
Lemma core_eta c : mkCore (objs c) (refund c) (logs c) (logsize c) (preim c) (al_addr c) (al_slots c) (transient c) = c.
Proof. destruct c; reflexivity. Qed.

(* ---------- replace_nth ---------- *)
Lemma replace_nth_restore {A} n (x y : A) l :
  nth_error l n = Some x -> replace_nth n x (replace_nth n y l) = l.
Proof.
  revert n; induction l as [|h t IH]; intros [|n]; cbn; try discriminate.
  - intros H; inversion H; reflexivity.
  - intros H. f_equal. apply IH. exact H.
Qed.

Lemma nth_error_replace_nth_same {A} n (y : A) l x :
  nth_error l n = Some x -> nth_error (replace_nth n y l) n = Some y.
Proof.
  revert n; induction l as [|h t IH]; intros [|n]; cbn; try discriminate; auto.
Qed.

Lemma nth_error_replace_nth_other {A} n k (y : A) l :
  k <> n -> nth_error (replace_nth n y l) k = nth_error l k.
Proof.
  revert n k; induction l as [|h t IH]; intros [|n] [|k] H; cbn; try reflexivity; try congruence.
  apply IH. congruence.
Qed.

(* ---------- normalised word maps ---------- *)
Definition nz (m : smap word) : Prop := forall k, get k m <> Some 0%N.

Lemma nz_nil : nz [].  Proof. intros k; cbn; discriminate. Qed.

Lemma setw_sorted k v m : sorted m -> sorted (setw k v m).
Proof. intros S. unfold setw. destruct (N.eqb v 0); [apply del_sorted|apply put_sorted]; exact S. Qed.

Lemma setw_nz k v m : sorted m -> nz m -> nz (setw k v m).
Proof.
  intros S Z k0. unfold setw. destruct (N.eqb v 0) eqn:E.
  - destruct (keqb k0 k) eqn:K.
    + apply keqb_eq in K; subst. rewrite get_del_same by exact S. discriminate.
    + apply keqb_neq in K. rewrite get_del_other by assumption. apply Z.
  - rewrite get_put_eq_dec. destruct (keqb k0 k); [|apply Z].
    intros H; inversion H; subst. rewrite N.eqb_refl in E. discriminate.
Qed.

(* writing the previous visible value back restores the map *)
Lemma setw_restore k v m : sorted m -> nz m -> setw k (getw k m) (setw k v m) = m.
Proof.
  intros S Z. unfold getw, setw. destruct (get k m) as [p|] eqn:G.
  - assert (p <> 0%N) as P by (intros ->; exact (Z k G)).
    apply N.eqb_neq in P. rewrite P. destruct (N.eqb v 0).
    + apply put_del_restore; assumption.
    + apply put_restore; assumption.
  - cbn. destruct (N.eqb v 0).
    + rewrite !del_absent; auto. rewrite del_absent; auto.
    + apply del_put_absent; assumption.
Qed.

(* ---------- well-formedness ---------- *)
Definition wf_objs (m : smap acct) : Prop :=
  forall a o, get a m = Some o -> sorted (a_stor o) /\ nz (a_stor o).

Definition wf_al (addr : smap Z) (slots : list (smap unit)) : Prop :=
  forall a i, get a addr = Some i ->
    i = (-1)%Z \/ ((0 <= i)%Z /\ exists ss, nth_error slots (Z.to_nat i) = Some ss /\ ss <> []).

Definition WFc (c : core) : Prop :=
  wf_objs (objs c) /\ sorted (transient c) /\ nz (transient c) /\ wf_al (al_addr c) (al_slots c).

Lemma wf_objs_put a o m : wf_objs m -> sorted (a_stor o) -> nz (a_stor o) -> wf_objs (put a o m).
Proof.
  intros W S Z a0 o0. rewrite get_put_eq_dec. destruct (keqb a0 a).
  - intros H; inversion H; subst; auto.
  - apply W.
Qed.

Lemma forallb_get {V} (f : key * V -> bool) (m : smap V) k v :
  sorted m -> forallb f m = true -> get k m = Some v -> f (k, v) = true.
Proof.
  intros S F G. rewrite forallb_forall in F. apply F. apply get_in; assumption.
Qed.

Lemma nzb_nz m : sortedb m = true -> nzb m = true -> nz m.
Proof.
  intros S Z k G. apply sortedb_sorted in S.
  pose proof (forallb_get _ _ _ _ S Z G) as H. cbn in H. discriminate.
Qed.

Lemma wf_coreb_WFc c : wf_coreb c = true -> WFc c.
Proof.
  unfold wf_coreb. rewrite !andb_true_iff.
  intros [[[[[[Ho So] St] Zt] Sa] _] Al].
  split; [|split; [|split]].
  - intros a o G.
    pose proof (forallb_get _ _ _ _ (sortedb_sorted _ So) Ho G) as E. cbn in E.
    apply andb_prop in E as [E1 E2]. split; [apply sortedb_sorted; exact E1|apply nzb_nz; assumption].
  - apply sortedb_sorted; exact St.
  - apply nzb_nz; assumption.
  - intros a i G. pose proof (forallb_get _ _ _ _ (sortedb_sorted _ Sa) Al G) as E.
    unfold wf_al_entryb in E. cbn [snd] in E.
    destruct (Z.ltb i 0) eqn:Li; [left; lia|]. right. split; [lia|].
    destruct (nth_error (al_slots c) (Z.to_nat i)) as [[|x ss]|] eqn:N; try discriminate.
    exists (x :: ss). split; [reflexivity|discriminate].
Qed.

(* ---------- rewinding the journal ---------- *)
Lemma rewind_core_ge n c j : length j <= n -> rewind_core n c j = Some (c, j).
Proof.
  destruct j as [|e j]; cbn [rewind_core]; [reflexivity|]. intros H.
  destruct (Nat.ltb n (length (e :: j))) eqn:E; [|reflexivity].
  apply Nat.ltb_lt in E. lia.
Qed.

Lemma rewind_core_lt n c e j : n < length (e :: j) ->
  rewind_core n c (e :: j) = match undo_core e c with Some c' => rewind_core n c' j | None => None end.
Proof.
  intros H. cbn [rewind_core]. destruct (Nat.ltb n (length (e :: j))) eqn:E; [reflexivity|].
  apply Nat.ltb_ge in E. lia.
Qed.

Lemma rewind_core_length n c j c' j' : rewind_core n c j = Some (c', j') -> length j' = Nat.min n (length j).
Proof.
  revert c; induction j as [|e j IH]; intros c; cbn [rewind_core].
  - intros H; inversion H; subst. cbn. lia.
  - destruct (Nat.ltb n (length (e :: j))) eqn:E.
    + apply Nat.ltb_lt in E. destruct (undo_core e c) as [c1|]; [|discriminate].
      intros H. apply IH in H. cbn [length] in *. lia.
    + apply Nat.ltb_ge in E. intros H; inversion H; subst. lia.
Qed.

(* going back to n directly = going back to m >= n first *)
Lemma rewind_core_compose n m c j c' j' :
  n <= m -> rewind_core m c j = Some (c', j') -> rewind_core n c j = rewind_core n c' j'.
Proof.
  intros L. revert c; induction j as [|e j IH]; intros c.
  - cbn. intros H; inversion H; subst. reflexivity.
  - destruct (Nat.ltb m (length (e :: j))) eqn:E.
    + apply Nat.ltb_lt in E. rewrite rewind_core_lt by exact E.
      rewrite rewind_core_lt by lia.
      destruct (undo_core e c) as [c1|]; [|discriminate]. apply IH.
    + apply Nat.ltb_ge in E. rewrite rewind_core_ge by exact E.
      intros H; inversion H; subst. reflexivity.
Qed.

Lemma rewind_dirt_ge n d j : length j <= n -> rewind_dirt n d j = d.
Proof.
  destruct j as [|e j]; cbn [rewind_dirt]; [reflexivity|]. intros H.
  destruct (Nat.ltb n (length (e :: j))) eqn:E; [|reflexivity]. apply Nat.ltb_lt in E. lia.
Qed.

(* ---------- "m' extends m and rewinds to it" ---------- *)
Definition extc (x y : core * list entry) : Prop :=
  exists es, snd y = es ++ snd x /\ rewind_core (length (snd x)) (fst y) (snd y) = Some x.

Lemma extc_refl x : extc x x.
Proof. exists []. split; [reflexivity|]. destruct x as [c j]. apply rewind_core_ge. cbn. lia. Qed.

Lemma extc_trans x y z : extc x y -> extc y z -> extc x z.
Proof.
  intros [es1 [E1 R1]] [es2 [E2 R2]]. exists (es2 ++ es1). split.
  - rewrite E2, E1. apply app_assoc.
  - destruct y as [cy jy]. cbn [fst snd] in *.
    rewrite (rewind_core_compose (length (snd x)) (length jy) _ _ _ _ ltac:(rewrite E1, app_length; lia) R2).
    exact R1.
Qed.

Lemma extc_single c j e c' : undo_core e c' = Some c -> extc (c, j) (c', e :: j).
Proof.
  intros U. exists [e]. split; [reflexivity|]. cbn [fst snd].
  rewrite rewind_core_lt by (cbn; lia). rewrite U. apply rewind_core_ge. lia.
Qed.

Definition cj (m : mstate) : core * list entry := (m_core m, m_jr m).
Definition extm (m m' : mstate) : Prop := extc (cj m) (cj m').

Lemma extm_refl m : extm m m.  Proof. apply extc_refl. Qed.
Lemma extm_trans a b c : extm a b -> extm b c -> extm a c.  Proof. apply extc_trans. Qed.

(* one journalled write: append e, then change the core to c' *)
Lemma extm_append m e c' : undo_core e c' = Some (m_core m) -> extm m (with_core (append e m) c').
Proof. intros U. unfold extm, cj. cbn. apply extc_single. exact U. Qed.

Lemma extm_same_cj m m' : cj m' = cj m -> extm m m'.
Proof. intros E. unfold extm. rewrite E. apply extc_refl. Qed.

(* ---------- objects ---------- *)
Lemma live_get a c o : live a c = Some o -> get a (objs c) = Some o /\ a_del o = false.
Proof.
  unfold live. destruct (get a (objs c)) as [o'|]; [|discriminate].
  destruct (a_del o') eqn:D; [discriminate|]. intros H; inversion H; subst; auto.
Qed.

Lemma live_put a o c : a_del o = false -> live a (set_objs c (put a o (objs c))) = Some o.
Proof. intros D. unfold live. cbn. rewrite get_put_same, D. reflexivity. Qed.

(* reverting a field write on the object that was just written *)
Lemma undo_obj_after_upd a o o' f c :
  get a (objs c) = Some o -> a_del o' = false -> f o' = o ->
  undo_obj a f (set_objs c (put a o' (objs c))) = Some c.
Proof.
  intros G D F. unfold undo_obj. rewrite live_put by exact D. cbn [objs set_objs].
  rewrite set_objs_set_objs, put_put_same, F, put_same_id by exact G.
  rewrite set_objs_id. reflexivity.
Qed.

Lemma extm_upd m a o o' e f :
  get a (objs (m_core m)) = Some o -> a_del o' = false -> f o' = o ->
  (forall c, undo_core e c = undo_obj a f c) ->
  extm m (upd a o' (append e m)).
Proof.
  intros G D F U. unfold upd, with_objs. apply extm_append. cbn [m_core append].
  rewrite U. apply (undo_obj_after_upd a o o' f); assumption.
Qed.

(* createObject *)
Lemma create_object_ext a m : extm m (fst (create_object a m)).
Proof.
  unfold create_object. cbn [fst]. unfold with_objs. apply extm_append. cbn [m_core append].
  destruct (get a (objs (m_core m))) as [p|] eqn:G; cbn [undo_core objs set_objs].
  - rewrite set_objs_set_objs, put_restore by exact G. rewrite set_objs_id. reflexivity.
  - rewrite set_objs_set_objs, del_put_absent by exact G. rewrite set_objs_id. reflexivity.
Qed.

Lemma create_object_get a m : get a (objs (m_core (fst (create_object a m)))) = Some new_acct.
Proof. unfold create_object. cbn. apply get_put_same. Qed.

Lemma create_object_objs a m :
  objs (m_core (fst (create_object a m))) = put a new_acct (objs (m_core m)).
Proof. reflexivity. Qed.

Lemma get_or_new_ext a m : extm m (fst (get_or_new a m)).
Proof.
  unfold get_or_new. destruct (live a (m_core m)); cbn [fst].
  - apply extm_refl.
  - apply create_object_ext.
Qed.

Lemma get_or_new_live a m :
  get a (objs (m_core (fst (get_or_new a m)))) = Some (snd (get_or_new a m)) /\ a_del (snd (get_or_new a m)) = false.
Proof.
  unfold get_or_new. destruct (live a (m_core m)) as [o|] eqn:L; cbn [fst snd].
  - apply live_get. exact L.
  - split; [apply create_object_get|reflexivity].
Qed.

(* ---------- frame lemmas for get_or_new ---------- *)
Lemma extm_step m m' e :
  m_jr m' = e :: m_jr m -> undo_core e (m_core m') = Some (m_core m) -> extm m m'.
Proof. intros J U. unfold extm, cj. rewrite J. apply extc_single. exact U. Qed.

Lemma get_or_new_core a m :
  m_core (fst (get_or_new a m)) = set_objs (m_core m) (objs (m_core (fst (get_or_new a m)))).
Proof.
  unfold get_or_new. destruct (live a (m_core m)); cbn [fst].
  - symmetry. apply set_objs_id.
  - reflexivity.
Qed.

Lemma get_or_new_wf_objs a m :
  wf_objs (objs (m_core m)) -> wf_objs (objs (m_core (fst (get_or_new a m)))).
Proof.
  intros W. unfold get_or_new. destruct (live a (m_core m)); cbn [fst]; [exact W|].
  rewrite create_object_objs. apply wf_objs_put; [exact W|exact I|apply nz_nil].
Qed.

Lemma WFc_set_objs c v : WFc c -> wf_objs v -> WFc (set_objs c v).
Proof. intros (W1 & W2 & W3 & W4) Wv. split; [exact Wv|split; [exact W2|split; [exact W3|exact W4]]]. Qed.

Lemma get_or_new_WFc a m : WFc (m_core m) -> WFc (m_core (fst (get_or_new a m))).
Proof.
  intros W. rewrite get_or_new_core. apply WFc_set_objs; [exact W|].
  apply get_or_new_wf_objs. apply W.
Qed.

(* destructs (get_or_new a m) into m1/ob with the facts the setter lemmas need *)
Ltac gon a m m1 ob :=
  let G := fresh "G" in
  destruct (get_or_new a m) as [m1 ob] eqn:G;
  let HE := fresh "HE" in let GL := fresh "GL" in let GD := fresh "GD" in let HW := fresh "HW" in
  pose proof (get_or_new_ext a m) as HE;
  pose proof (get_or_new_live a m) as [GL GD];
  pose proof (get_or_new_WFc a m) as HW;
  rewrite G in HE, GL, GD, HW; cbn [fst snd] in HE, GL, GD, HW.

Lemma benign_fixed o m : benign true o m = true.
Proof. destruct o; reflexivity. Qed.

(* the object-field setters *)
Lemma obj_set_balance_ext a ob v m :
  get a (objs (m_core m)) = Some ob -> a_del ob = false -> extm m (obj_set_balance a ob v m).
Proof.
  intros G D. unfold obj_set_balance.
  apply (extm_upd m a ob (set_bal ob v) _ (fun o => set_bal o (a_bal ob))); auto.
  destruct ob; reflexivity.
Qed.

Lemma obj_set_size_ext a ob v m :
  get a (objs (m_core m)) = Some ob -> a_del ob = false -> extm m (obj_set_size a ob v m).
Proof.
  intros G D. unfold obj_set_size.
  apply (extm_upd m a ob (set_size ob v) _ (fun o => set_size o (a_size ob))); auto.
  destruct ob; reflexivity.
Qed.

Lemma touch_ext a m : extm m (touch a m).
Proof.
  unfold touch. destruct (keqb a ripemd); apply (extm_step _ _ (ETouch a)); reflexivity.
Qed.

(* access list *)
Lemma al_add_slot_ext a s m : WFc (m_core m) -> extm m (al_add_slot a s m).
Proof.
  intros (_ & _ & _ & WA). unfold al_add_slot.
  set (c := m_core m) in *.
  set (len := Z.of_nat (length (al_slots c))).
  assert (Hundo : forall addr0,
     undo_core (EALSlot a s) (set_al c (put a len addr0) (al_slots c ++ [[(s, tt)]]))
     = Some (set_al c (put a (-1)%Z addr0) (al_slots c))).
  { intros addr0. cbn [undo_core al_addr al_slots set_al]. rewrite get_put_same.
    replace (Z.ltb len 0) with false by (unfold len; lia).
    unfold len. rewrite Nat2Z.id, nth_error_app_length. cbn [del]. rewrite kcmp_refl.
    rewrite put_put_same, firstn_length_app. reflexivity. }
  destruct (get a (al_addr c)) as [i|] eqn:G.
  - destruct (Z.ltb i 0) eqn:Li.
    + (* present without slots (idx = -1) *)
      destruct (WA a i G) as [->|[Hpos _]]; [|lia].
      apply (extm_step _ _ (EALSlot a s)); [reflexivity|]. cbn [m_core append with_core].
      rewrite Hundo, put_same_id by exact G. fold c. rewrite set_al_id. reflexivity.
    + destruct (WA a i G) as [->|[_ [ss [N NE]]]]; [discriminate|]. rewrite N.
      destruct (get s ss) eqn:Gs; [apply extm_refl|].
      apply (extm_step _ _ (EALSlot a s)); [reflexivity|].
      cbn [m_core append with_core undo_core al_addr al_slots set_al].
      fold c. rewrite G, Li. rewrite (nth_error_replace_nth_same _ _ _ _ N).
      rewrite del_put_absent by exact Gs.
      destruct ss as [|x ss]; [congruence|].
      rewrite replace_nth_restore by exact N. subst c. destruct (m_core m); reflexivity.
  - (* address absent: two entries *)
    apply (extm_trans _ (append (EALAccount a) (with_core m (set_al c (put a (-1)%Z (al_addr c)) (al_slots c))))).
    + apply (extm_step _ _ (EALAccount a)); [reflexivity|].
      cbn [m_core append with_core undo_core al_addr al_slots set_al].
      rewrite del_put_absent by exact G. subst c. destruct (m_core m); reflexivity.
    + apply (extm_step _ _ (EALSlot a s)); [reflexivity|]. cbn [m_core append with_core].
      fold c. fold len. rewrite Hundo. reflexivity.
Qed.

(* ---------- every mutator extends the journal and rewinds to where it started ---------- *)
Lemma mutate_ext fx o m : WFc (m_core m) -> benign fx o m = true -> extm m (fst (mutate fx o m)).
Proof.
  intros W B. destruct o; unfold mutate.
  - (* AddBalance *)
    gon a m m1 ob. destruct (Z.eqb v 0); cbn [fst].
    + destruct (acct_empty ob); [|exact HE]. eapply extm_trans; [exact HE|apply touch_ext].
    + eapply extm_trans; [exact HE|]. apply obj_set_balance_ext; assumption.
  - (* SubBalance *)
    gon a m m1 ob. destruct (Z.eqb v 0); cbn [fst]; [exact HE|].
    eapply extm_trans; [exact HE|]. apply obj_set_balance_ext; assumption.
  - (* SetBalance *)
    gon a m m1 ob. cbn [fst]. eapply extm_trans; [exact HE|]. apply obj_set_balance_ext; assumption.
  - (* SetNonce *)
    gon a m m1 ob. cbn [fst]. eapply extm_trans; [exact HE|].
    apply (extm_upd m1 a ob (set_nonce ob n) _ (fun o => set_nonce o (a_nonce ob))); auto.
    destruct ob; reflexivity.
  - (* SetCode *)
    gon a m m1 ob. cbn [fst]. eapply extm_trans; [exact HE|].
    apply (extm_upd m1 a ob (set_code ob c) _ (fun o => set_code o (a_code ob))); auto.
    destruct ob; reflexivity.
  - (* SetState *)
    gon a m m1 ob. destruct (N.eqb (getw k (a_stor ob)) v); cbn [fst]; [exact HE|].
    eapply extm_trans; [exact HE|].
    destruct (proj1 (HW W) a ob GL) as [Sst Zst].
    apply (extm_upd m1 a ob (set_stor ob (setw k v (a_stor ob))) _
             (fun o => set_stor o (setw k (getw k (a_stor ob)) (a_stor o)))); auto.
    cbn [a_stor set_stor]. rewrite setw_restore by assumption. destruct ob; reflexivity.
  - (* Suicide *)
    destruct (live a (m_core m)) as [ob|] eqn:L; cbn [fst]; [|apply extm_refl].
    apply live_get in L as [GL GD]. cbn [benign] in B.
    unfold upd, with_objs. apply extm_append. cbn [m_core append undo_core].
    rewrite live_put by (destruct ob; exact GD). cbn [objs set_objs].
    rewrite set_objs_set_objs, put_put_same.
    destruct fx; cbn [orb] in B |- *.
    + replace (set_size (set_bal (set_suic (set_size (set_bal (set_suic ob true) 0) 0) (a_suic ob)) (a_bal ob)) (a_size ob))
        with ob by (destruct ob; reflexivity).
      rewrite put_same_id by exact GL. rewrite set_objs_id. reflexivity.
    + unfold live in B. rewrite GL, GD in B. apply Z.eqb_eq in B.
      replace (set_bal (set_suic (set_size (set_bal (set_suic ob true) 0) 0) (a_suic ob)) (a_bal ob))
        with ob by (destruct ob; cbn in *; subst; reflexivity).
      rewrite put_same_id by exact GL. rewrite set_objs_id. reflexivity.
  - (* CreateAccount *)
    destruct (create_object a m) as [m1 prev] eqn:C.
    pose proof (create_object_ext a m) as HE. rewrite C in HE. cbn [fst] in HE.
    destruct prev as [p|]; cbn [fst]; [|exact HE].
    unfold create_object in C. inversion C as [[C1 C2]]; subst m1. clear C.
    unfold upd, with_objs. cbn [m_core with_core append objs set_objs].
    apply (extm_step _ _ (match get a (objs (m_core m)) with
                          | Some p0 => EResetObject a p0 | None => ECreateObject a end)); [reflexivity|].
    cbn [m_core with_core]. destruct (get a (objs (m_core m))) as [p0|] eqn:G; [|discriminate].
    cbn [undo_core objs set_objs]. rewrite !set_objs_set_objs, !put_put_same, put_same_id by exact G.
    rewrite set_objs_id. reflexivity.
  - (* GetOrNew *)
    cbn [fst]. apply get_or_new_ext.
  - (* SetSize *)
    gon a m m1 ob. cbn [fst]. eapply extm_trans; [exact HE|]. apply obj_set_size_ext; assumption.
  - gon a m m1 ob. cbn [fst]. eapply extm_trans; [exact HE|]. apply obj_set_size_ext; assumption.
  - gon a m m1 ob. cbn [fst]. eapply extm_trans; [exact HE|]. apply obj_set_size_ext; assumption.
  - (* AddLog *)
    cbn [fst]. apply extm_append. cbn [m_core append undo_core logs logsize set_logs].
    rewrite removelast_last. replace (logsize (m_core m) + 1 - 1)%N with (logsize (m_core m)) by lia.
    destruct (m_core m); reflexivity.
  - (* AddPreimage *)
    destruct (get h (preim (m_core m))) eqn:G; cbn [fst]; [apply extm_refl|].
    apply extm_append. cbn [m_core append undo_core preim set_preim].
    rewrite del_put_absent by exact G. destruct (m_core m); reflexivity.
  - (* AddRefund *)
    cbn [fst]. apply extm_append. cbn [m_core append undo_core]. destruct (m_core m); reflexivity.
  - (* SubRefund *)
    cbn [m_core append]. destruct (N.ltb (refund (m_core m)) g); cbn [fst].
    + apply (extm_step _ _ (ERefund (refund (m_core m)))); [reflexivity|].
      cbn [m_core append undo_core]. rewrite set_refund_id. reflexivity.
    + apply extm_append. cbn [m_core append undo_core]. destruct (m_core m); reflexivity.
  - (* ALAddr *)
    destruct (get a (al_addr (m_core m))) eqn:G; cbn [fst]; [apply extm_refl|].
    apply (extm_step _ _ (EALAccount a)); [reflexivity|].
    cbn [m_core append with_core undo_core al_addr al_slots set_al].
    rewrite del_put_absent by exact G. destruct (m_core m); reflexivity.
  - (* ALSlot *)
    cbn [fst]. apply al_add_slot_ext. exact W.
  - (* SetTransient *)
    destruct (N.eqb (getw (a ++ k) (transient (m_core m))) v); cbn [fst]; [apply extm_refl|].
    apply extm_append. cbn [m_core append undo_core transient set_transient].
    destruct W as (_ & St & Zt & _). rewrite setw_restore by assumption.
    destruct (m_core m); reflexivity.
  - apply extm_refl.
  - apply extm_refl.
Qed.

(* ---------- mutators preserve well-formedness ---------- *)
Lemma WFc_upd a o' e m :
  WFc (m_core m) -> sorted (a_stor o') -> nz (a_stor o') -> WFc (m_core (upd a o' (append e m))).
Proof.
  intros W S Z. unfold upd, with_objs. cbn [m_core with_core append].
  apply WFc_set_objs; [exact W|]. apply wf_objs_put; [apply W|exact S|exact Z].
Qed.

Lemma WFc_upd_same_stor a ob o' e m :
  WFc (m_core m) -> get a (objs (m_core m)) = Some ob -> a_stor o' = a_stor ob ->
  WFc (m_core (upd a o' (append e m))).
Proof.
  intros W G E. destruct (proj1 W a ob G) as [S Z]. apply WFc_upd; [exact W|rewrite E; exact S|rewrite E; exact Z].
Qed.

Lemma create_object_WFc a m : WFc (m_core m) -> WFc (m_core (fst (create_object a m))).
Proof.
  intros W. unfold create_object. cbn [fst]. unfold with_objs. cbn [m_core with_core append].
  apply WFc_set_objs; [exact W|]. apply wf_objs_put; [apply W|exact I|apply nz_nil].
Qed.

Lemma wf_al_put_neg a addr slots : wf_al addr slots -> wf_al (put a (-1)%Z addr) slots.
Proof.
  intros W a0 i. rewrite get_put_eq_dec. destruct (keqb a0 a).
  - intros H; inversion H; auto.
  - apply W.
Qed.

Lemma WFc_set_al c a s : WFc c -> wf_al a s -> WFc (set_al c a s).
Proof. intros (W1 & W2 & W3 & W4) H. split; [exact W1|split; [exact W2|split; [exact W3|exact H]]]. Qed.

Lemma al_add_slot_WFc a s m : WFc (m_core m) -> WFc (m_core (al_add_slot a s m)).
Proof.
  intros W. pose proof W as (_ & _ & _ & WA). unfold al_add_slot. set (c := m_core m) in *.
  assert (Hfresh : wf_al (put a (Z.of_nat (length (al_slots c))) (al_addr c)) (al_slots c ++ [[(s, tt)]])).
  { intros a0 i. rewrite get_put_eq_dec. destruct (keqb a0 a).
    - intros H; inversion H; subst. right. split; [lia|]. rewrite Nat2Z.id, nth_error_app_length.
      eexists; split; [reflexivity|discriminate].
    - intros G. destruct (WA a0 i G) as [->|[P [ss [N NE]]]]; [left; reflexivity|].
      right. split; [exact P|]. exists ss. split; [apply nth_error_app_lt; exact N|exact NE]. }
  destruct (get a (al_addr c)) as [i|] eqn:G.
  - destruct (Z.ltb i 0) eqn:Li.
    + cbn [m_core append with_core]. apply WFc_set_al; assumption.
    + destruct (nth_error (al_slots c) (Z.to_nat i)) as [ss|] eqn:N; [|exact W].
      destruct (get s ss) eqn:Gs; [exact W|].
      cbn [m_core append with_core]. apply WFc_set_al; [exact W|].
      intros a0 i0 G0.
      destruct (WA a0 i0 G0) as [->|[P [ss0 [N0 NE0]]]]; [left; reflexivity|].
      right. split; [exact P|].
      destruct (Nat.eq_dec (Z.to_nat i0) (Z.to_nat i)) as [E|E].
      * rewrite E. rewrite (nth_error_replace_nth_same _ _ _ _ N).
        eexists; split; [reflexivity|]. intros H.
        assert (get s (put s tt ss) = Some tt) as X by apply get_put_same. rewrite H in X. discriminate.
      * rewrite nth_error_replace_nth_other by exact E. exists ss0. auto.
  - cbn [m_core append with_core]. apply WFc_set_al; assumption.
Qed.

Lemma WFc_same_objs_tr_al c c' :
  WFc c -> objs c' = objs c -> transient c' = transient c -> al_addr c' = al_addr c -> al_slots c' = al_slots c -> WFc c'.
Proof. intros (W1 & W2 & W3 & W4) E1 E2 E3 E4. unfold WFc. rewrite E1, E2, E3, E4. auto. Qed.

Lemma mutate_WFc fx o m : WFc (m_core m) -> WFc (m_core (fst (mutate fx o m))).
Proof.
  intros W. destruct o; unfold mutate.
  - gon a m m1 ob. specialize (HW W). destruct (Z.eqb v 0); cbn [fst].
    + destruct (acct_empty ob); [|exact HW]. unfold touch. destruct (keqb a ripemd); exact HW.
    + unfold obj_set_balance. eapply WFc_upd_same_stor; eauto.
  - gon a m m1 ob. specialize (HW W). destruct (Z.eqb v 0); cbn [fst]; [exact HW|].
    unfold obj_set_balance. eapply WFc_upd_same_stor; eauto.
  - gon a m m1 ob. specialize (HW W). cbn [fst]. unfold obj_set_balance. eapply WFc_upd_same_stor; eauto.
  - gon a m m1 ob. specialize (HW W). cbn [fst]. eapply WFc_upd_same_stor; eauto.
  - gon a m m1 ob. specialize (HW W). cbn [fst]. eapply WFc_upd_same_stor; eauto.
  - gon a m m1 ob. specialize (HW W). destruct (N.eqb (getw k (a_stor ob)) v); cbn [fst]; [exact HW|].
    destruct (proj1 HW a ob GL) as [S Z].
    apply WFc_upd; [exact HW|apply setw_sorted; exact S|apply setw_nz; assumption].
  - destruct (live a (m_core m)) as [ob|] eqn:L; cbn [fst]; [|exact W].
    apply live_get in L as [GL GD]. eapply WFc_upd_same_stor; eauto.
  - destruct (create_object a m) as [m1 prev] eqn:C.
    pose proof (create_object_WFc a m W) as HW. rewrite C in HW. cbn [fst] in HW.
    destruct prev as [p|]; cbn [fst]; [|exact HW].
    unfold upd, with_objs. cbn [m_core with_core].
    apply WFc_set_objs; [exact HW|]. apply wf_objs_put; [apply HW|exact I|apply nz_nil].
  - cbn [fst]. apply get_or_new_WFc. exact W.
  - gon a m m1 ob. specialize (HW W). cbn [fst]. unfold obj_set_size. eapply WFc_upd_same_stor; eauto.
  - gon a m m1 ob. specialize (HW W). cbn [fst]. unfold obj_set_size. eapply WFc_upd_same_stor; eauto.
  - gon a m m1 ob. specialize (HW W). cbn [fst]. unfold obj_set_size. eapply WFc_upd_same_stor; eauto.
  - cbn [fst m_core with_core append]. apply (WFc_same_objs_tr_al (m_core m)); auto.
  - destruct (get h (preim (m_core m))); cbn [fst]; [exact W|].
    cbn [m_core with_core append]. apply (WFc_same_objs_tr_al (m_core m)); auto.
  - cbn [fst m_core with_core append]. apply (WFc_same_objs_tr_al (m_core m)); auto.
  - cbn [m_core append]. destruct (N.ltb (refund (m_core m)) g); cbn [fst m_core with_core append]; [exact W|].
    apply (WFc_same_objs_tr_al (m_core m)); auto.
  - destruct (get a (al_addr (m_core m))) eqn:G; cbn [fst]; [exact W|].
    cbn [m_core with_core append]. apply WFc_set_al; [exact W|].
    apply wf_al_put_neg. apply W.
  - cbn [fst]. apply al_add_slot_WFc. exact W.
  - destruct (N.eqb (getw (a ++ k) (transient (m_core m))) v); cbn [fst]; [exact W|].
    cbn [m_core with_core append]. destruct W as (W1 & W2 & W3 & W4).
    split; [exact W1|]. cbn [transient set_transient al_addr al_slots].
    split; [apply setw_sorted; exact W2|split; [apply setw_nz; assumption|exact W4]].
  - exact W.
  - exact W.
Qed.

(* ---------- lists sorted by a relation ---------- *)
Section SS.
Context {A : Type} (R : A -> A -> Prop).

Lemma SS_snoc l r : StronglySorted R l -> (forall a, In a l -> R a r) -> StronglySorted R (l ++ [r]).
Proof.
  induction l as [|h t IH]; cbn; intros S H.
  - constructor; [constructor|constructor].
  - inversion S as [|? ? S' F]; subst. constructor.
    + apply IH; [exact S'|]. intros a Ha. apply H. right. exact Ha.
    + apply Forall_app. split; [exact F|]. constructor; [|constructor]. apply H. left. reflexivity.
Qed.

Lemma SS_app_l l1 l2 : StronglySorted R (l1 ++ l2) -> StronglySorted R l1.
Proof.
  induction l1 as [|h t IH]; cbn; intros S; [constructor|].
  inversion S as [|? ? S' F]; subst. constructor; [apply IH; exact S'|].
  apply Forall_app in F. apply F.
Qed.

Lemma SS_app_rel l1 l2 a b : StronglySorted R (l1 ++ l2) -> In a l1 -> In b l2 -> R a b.
Proof.
  induction l1 as [|h t IH]; cbn; intros S Ha Hb; [contradiction|].
  inversion S as [|? ? S' F]; subst. destruct Ha as [->|Ha].
  - rewrite Forall_forall in F. apply F. apply in_or_app. right. exact Hb.
  - apply IH; assumption.
Qed.
End SS.

(* ---------- the whole StateDB ---------- *)

Lemma step_mut fx x o : is_mut o = true ->
  s_m (fst (step fx x o)) = fst (mutate fx o (s_m x)) /\
  s_revs (fst (step fx x o)) = s_revs x /\ s_next (fst (step fx x o)) = s_next x /\
  snd (step fx x o) = snd (mutate fx o (s_m x)).
Proof.
  intros H. destruct o; try discriminate; unfold step;
    destruct (mutate fx _ (s_m x)) as [m' r]; cbn; auto.
Qed.

Lemma search_rev_spec id l k i r :
  search_rev id l k = Some (i, r) ->
  exists l1 l2, l = l1 ++ r :: l2 /\ i = k + length l1 /\ (forall r', In r' l1 -> (fst r' < id)%N) /\ (id <= fst r)%N.
Proof.
  revert k; induction l as [|h t IH]; intros k; cbn [search_rev]; [discriminate|].
  destruct (N.leb id (fst h)) eqn:E.
  - intros H; inversion H; subst. exists [], t. cbn. split; [reflexivity|split; [lia|split; [intros ? []|lia]]].
  - intros H. destruct (IH _ H) as (l1 & l2 & -> & -> & F & L).
    exists (h :: l1), l2. cbn. split; [reflexivity|split; [lia|split; [|exact L]]].
    intros r' [<-|Hr]; [lia|apply F; exact Hr].
Qed.

Lemma search_rev_found id n l1 l2 k :
  (forall r', In r' l1 -> (fst r' < id)%N) ->
  search_rev id (l1 ++ (id, n) :: l2) k = Some (k + length l1, (id, n)).
Proof.
  revert k; induction l1 as [|h t IH]; intros k F; cbn [search_rev app length].
  - cbn [fst]. rewrite N.leb_refl. f_equal. f_equal. lia.
  - assert (fst h < id)%N as H by (apply F; left; reflexivity).
    replace (N.leb id (fst h)) with false by lia.
    rewrite IH by (intros r' Hr; apply F; right; exact Hr). f_equal. f_equal. lia.
Qed.

Definition Rrev (r1 r2 : N * nat) : Prop := (fst r1 < fst r2)%N /\ snd r1 <= snd r2.

Record Inv (x : sdb) : Prop := mkInv {
  inv_wf : WFc (m_core (s_m x));
  inv_ids : forall r, In r (s_revs x) -> (fst r < s_next x)%N;
  inv_sorted : StronglySorted Rrev (s_revs x);
  inv_idx : forall r, In r (s_revs x) -> snd r <= length (m_jr (s_m x));
  inv_back : forall r, In r (s_revs x) ->
      exists c j, rewind_core (snd r) (m_core (s_m x)) (m_jr (s_m x)) = Some (c, j) /\ WFc c
}.

Lemma Inv_fresh c d n : WFc c -> Inv (fresh c d n).
Proof.
  intros W. constructor; cbn; try (intros ? []); [exact W|constructor].
Qed.

Lemma extm_length m m' : extm m m' -> length (m_jr m) <= length (m_jr m').
Proof. intros [es [E _]]. cbn in E. rewrite E, app_length. lia. Qed.

Lemma extm_rewind m m' n : extm m m' -> n <= length (m_jr m) ->
  rewind_core n (m_core m') (m_jr m') = rewind_core n (m_core m) (m_jr m).
Proof.
  intros [es [E R]] L. cbn [cj fst snd] in *.
  apply (rewind_core_compose n (length (m_jr m))); [exact L|exact R].
Qed.

Lemma Inv_step fx x o : Inv x -> benign fx o (s_m x) = true -> Inv (fst (step fx x o)).
Proof.
  intros [W Ids Srt Idx Back] B.
  destruct (is_mut o) eqn:M.
  - destruct (step_mut fx x o M) as (E1 & E2 & E3 & _).
    pose proof (mutate_ext fx o (s_m x) W B) as X.
    constructor; rewrite ?E1, ?E2, ?E3; auto.
    + apply mutate_WFc. exact W.
    + intros r Hr. pose proof (Idx r Hr). pose proof (extm_length _ _ X). lia.
    + intros r Hr. rewrite (extm_rewind _ _ _ X (Idx r Hr)). apply Back. exact Hr.
  - destruct o; try discriminate.
    + (* Snapshot *)
      cbn [step fst]. constructor; cbn [s_m s_revs s_next].
      * exact W.
      * intros r Hr. apply in_app_or in Hr as [Hr|[<-|[]]]; [pose proof (Ids r Hr); lia|cbn; lia].
      * apply SS_snoc; [exact Srt|]. intros a Ha. split; cbn; [apply Ids; exact Ha|apply Idx; exact Ha].
      * intros r Hr. apply in_app_or in Hr as [Hr|[<-|[]]]; [apply Idx; exact Hr|cbn; lia].
      * intros r Hr. apply in_app_or in Hr as [Hr|[<-|[]]]; [apply Back; exact Hr|].
        cbn [snd]. exists (m_core (s_m x)), (m_jr (s_m x)). split; [apply rewind_core_ge; lia|exact W].
    + (* Revert *)
      cbn [step]. destruct (search_rev id (s_revs x) 0) as [[i [id' n]]|] eqn:S; [|constructor; assumption].
      destruct (N.eqb id' id); [|constructor; assumption].
      apply search_rev_spec in S as (l1 & l2 & E & -> & F & L). cbn [Nat.add].
      assert (In (id', n) (s_revs x)) as Hin by (rewrite E; apply in_or_app; right; left; reflexivity).
      destruct (Back _ Hin) as (c & j & R & Wc). cbn [snd] in R.
      unfold rewind. rewrite R. cbn [fst].
      rewrite E, firstn_length_app.
      pose proof (rewind_core_length _ _ _ _ _ R) as Lj. pose proof (Idx _ Hin) as Ln. cbn [snd] in Ln.
      assert (forall r, In r l1 -> In r (s_revs x)) as Sub by (intros r Hr; rewrite E; apply in_or_app; left; exact Hr).
      assert (forall r, In r l1 -> snd r <= n) as Le.
      { intros r Hr. rewrite E in Srt. apply (SS_app_rel Rrev l1 ((id', n) :: l2) r (id', n) Srt Hr). left. reflexivity. }
      constructor; cbn [s_m s_revs s_next m_core m_jr].
      * exact Wc.
      * intros r Hr. apply Ids. apply Sub. exact Hr.
      * rewrite E in Srt. apply (SS_app_l Rrev _ _ Srt).
      * intros r Hr. specialize (Le r Hr). lia.
      * intros r Hr. rewrite <- (rewind_core_compose (snd r) n _ _ _ _ (Le r Hr) R). apply Back. apply Sub. exact Hr.
Qed.

Fixpoint all_benign (fx : bool) (x : sdb) (ops : list op) : bool :=
  match ops with
  | [] => true
  | o :: t => benign fx o (s_m x) && all_benign fx (fst (step fx x o)) t
  end.

Lemma all_benign_fixed x ops : all_benign true x ops = true.
Proof. revert x; induction ops as [|o t IH]; intros x; cbn; [reflexivity|]. rewrite benign_fixed, IH. reflexivity. Qed.

Lemma Inv_run fx ops : forall x, Inv x -> all_benign fx x ops = true -> Inv (run fx x ops).
Proof.
  induction ops as [|o t IH]; intros x I B; cbn in *; [exact I|].
  apply andb_prop in B as [B1 B2]. apply IH; [apply Inv_step; assumption|exact B2].
Qed.

(* ---------- the anchored snapshot ---------- *)
(* y is a state reached after taking snapshot [id] in x: either the snapshot is still on the
   stack of valid revisions and the journal rewinds to exactly x's state, or it is gone for good *)
Definition anchored (x y : sdb) (id : N) : Prop :=
  exists top, s_revs y = s_revs x ++ (id, length (m_jr (s_m x))) :: top /\
    rewind_core (length (m_jr (s_m x))) (m_core (s_m y)) (m_jr (s_m y)) = Some (m_core (s_m x), m_jr (s_m x)).

Definition dead (y : sdb) (id : N) : Prop := ~ In id (map fst (s_revs y)) /\ (id < s_next y)%N.

Lemma dead_step fx y o id : dead y id -> dead (fst (step fx y o)) id.
Proof.
  intros [Nin Lt]. destruct (is_mut o) eqn:M.
  - destruct (step_mut fx y o M) as (_ & E2 & E3 & _). unfold dead. rewrite E2, E3. auto.
  - destruct o; try discriminate.
    + cbn [step fst]. split; cbn [s_revs s_next]; [|lia].
      rewrite map_app, in_app_iff. cbn. intros [H|[H|[]]]; [auto|lia].
    + cbn [step]. destruct (search_rev id0 (s_revs y) 0) as [[i [id' n]]|]; [|split; assumption].
      destruct (N.eqb id' id0); [|split; assumption].
      destruct (rewind n (s_m y)); [|split; assumption].
      cbn [fst]. split; cbn [s_revs s_next]; [|exact Lt].
      intros H. apply Nin. apply in_map_iff in H as (r & <- & Hr). apply in_map.
      rewrite <- (firstn_skipn i (s_revs y)). apply in_or_app. left. exact Hr.
Qed.

Lemma anchored_step fx x y o id :
  Inv y -> benign fx o (s_m y) = true -> anchored x y id ->
  (forall r, In r (s_revs x) -> (fst r < id)%N) ->
  anchored x (fst (step fx y o)) id \/ dead (fst (step fx y o)) id.
Proof.
  intros I B (top & Er & Rw) Old. set (n := length (m_jr (s_m x))) in *.
  assert (In (id, n) (s_revs y)) as Hid by (rewrite Er; apply in_or_app; right; left; reflexivity).
  pose proof (inv_idx y I _ Hid) as Ln. cbn [snd] in Ln.
  destruct (is_mut o) eqn:M.
  - left. destruct (step_mut fx y o M) as (E1 & E2 & _).
    exists top. rewrite E1, E2. split; [exact Er|]. fold n.
    rewrite (extm_rewind _ _ n (mutate_ext fx o (s_m y) (inv_wf y I) B) Ln). exact Rw.
  - destruct o; try discriminate.
    + left. cbn [step fst]. exists (top ++ [(s_next y, length (m_jr (s_m y)))]). cbn [s_revs s_m].
      split; [|exact Rw]. rewrite Er, <- app_assoc. reflexivity.
    + cbn [step]. destruct (search_rev id0 (s_revs y) 0) as [[i [id' n']]|] eqn:S; [|left; exists top; auto].
      destruct (N.eqb id' id0); [|left; exists top; auto].
      apply search_rev_spec in S as (l1 & l2 & E & -> & F & L). cbn [Nat.add].
      assert (In (id', n') (s_revs y)) as Hin by (rewrite E; apply in_or_app; right; left; reflexivity).
      destruct (inv_back y I _ Hin) as (c & j & R & Wc). cbn [snd] in R.
      unfold rewind. rewrite R. cbn [fst]. rewrite E, firstn_length_app.
      rewrite Er in E. symmetry in E. apply app_eq_app in E as [l [[E1 E2]|[E1 E2]]].
      * (* the reverted revision lies at or after ours *)
        destruct l as [|r0 l].
        -- (* it is ours: gone *)
           right. rewrite app_nil_r in E1. subst l1. split; cbn [s_revs s_next].
           ++ intros H. apply in_map_iff in H as (r & Hr1 & Hr2). specialize (Old r Hr2). lia.
           ++ apply (inv_ids y I _ Hid).
        -- (* strictly after: ours stays, and rewinding further passes through the same states *)
           left. cbn in E2. inversion E2; subst r0 top. exists l. cbn [s_revs s_m m_core m_jr].
           split; [exact E1|].
           assert (n <= n') as Le.
           {              pose proof (inv_sorted y I) as Srt2. rewrite Er in Srt2.
             change ((id, n) :: l ++ (id', n') :: l2) with ([(id, n)] ++ (l ++ (id', n') :: l2)) in Srt2.
             rewrite app_assoc in Srt2.
             apply (SS_app_rel Rrev _ _ (id, n) (id', n') Srt2).
             - apply in_or_app. right. left. reflexivity.
             - apply in_or_app. right. left. reflexivity. }
           fold n. rewrite <- (rewind_core_compose n n' _ _ _ _ Le R). exact Rw.
      * (* strictly before ours: ours is cut off *)
        right. split; cbn [s_revs s_next].
        -- intros H. apply in_map_iff in H as (r & Hr1 & Hr2).
           assert (In r (s_revs x)) as Hx by (rewrite E1; apply in_or_app; left; exact Hr2).
           specialize (Old r Hx). lia.
        -- apply (inv_ids y I _ Hid).
Qed.

Lemma run_anchor fx x id ops : forall y,
  (forall r, In r (s_revs x) -> (fst r < id)%N) ->
  Inv y -> all_benign fx y ops = true -> (anchored x y id \/ dead y id) ->
  Inv (run fx y ops) /\ (anchored x (run fx y ops) id \/ dead (run fx y ops) id).
Proof.
  induction ops as [|o t IH]; intros y Old I B A; cbn in *; [auto|].
  apply andb_prop in B as [B1 B2].
  apply IH; [exact Old|apply Inv_step; assumption|exact B2|].
  destruct A as [A|D]; [apply anchored_step; assumption|right; apply dead_step; exact D].
Qed.

(* The main lemma: any history after a snapshot, then revert to it. *)
Lemma revert_restores_gen fx x ops :
  Inv x ->
  let id := s_next x in
  let x1 := fst (step fx x OSnapshot) in
  all_benign fx x1 ops = true ->
  let x2 := run fx x1 ops in
  In id (map fst (s_revs x2)) ->
  snd (step fx x2 (ORevert id)) = OutNone /\
  m_core (s_m (fst (step fx x2 (ORevert id)))) = m_core (s_m x) /\
  m_jr (s_m (fst (step fx x2 (ORevert id)))) = m_jr (s_m x) /\
  s_revs (fst (step fx x2 (ORevert id))) = s_revs x.
Proof.
  intros I id x1 B x2 Hin.
  assert (Old : forall r, In r (s_revs x) -> (fst r < id)%N) by (intros r Hr; apply (inv_ids x I r Hr)).
  assert (I1 : Inv x1) by (apply Inv_step; [exact I|reflexivity]).
  assert (A1 : anchored x x1 id).
  { exists []. cbn. split; [reflexivity|]. apply rewind_core_ge. lia. }
  destruct (run_anchor fx x id ops x1 Old I1 B (or_introl A1)) as [I2 [A2|D2]].
  2:{ exfalso. apply (proj1 D2). exact Hin. }
  fold x2 in I2, A2. destruct A2 as (top & Er & Rw).
  cbn [step]. rewrite Er, search_rev_found by exact Old. cbn [Nat.add].
  rewrite N.eqb_refl. unfold rewind. rewrite Rw. cbn [fst snd s_m s_revs m_core m_jr].
  rewrite firstn_length_app. auto.
Qed.

(* ---------- journal.dirties is the image of the journal ---------- *)
Fixpoint dirt_of (d0 : smap Z) (j : list entry) : smap Z :=
  match j with
  | [] => d0
  | e :: j' => match dirtied e with Some a => dinc a (dirt_of d0 j') | None => dirt_of d0 j' end
  end.

Definition dpos (d : smap Z) : Prop := forall a c, get a d = Some c -> (0 < c)%Z.

Lemma dpos_dinc a d : dpos d -> dpos (dinc a d).
Proof.
  intros P a0 c. unfold dinc, dcount. rewrite get_put_eq_dec. destruct (keqb a0 a).
  - intros H; inversion H; subst. destruct (get a d) as [c0|] eqn:G; [specialize (P a c0 G)|]; lia.
  - apply P.
Qed.

Lemma dpos_dirt_of d0 j : dpos d0 -> dpos (dirt_of d0 j).
Proof. intros P. induction j as [|e j IH]; cbn; [exact P|]. destruct (dirtied e); [apply dpos_dinc|]; exact IH. Qed.

Lemma ddec_dinc a d : dpos d -> ddec a (dinc a d) = d.
Proof.
  intros P. unfold ddec.
  assert (dcount a (dinc a d) = dcount a d + 1)%Z as H
    by (unfold dcount at 1, dinc; rewrite get_put_same; reflexivity).
  rewrite H. replace (dcount a d + 1 - 1)%Z with (dcount a d) by lia.
  unfold dinc, dcount. destruct (get a d) as [c|] eqn:G.
  - specialize (P a c G). replace (Z.eqb c 0) with false by lia. apply put_restore. exact G.
  - cbn. apply del_put_absent. exact G.
Qed.

(* entries whose revert takes one count off journal.dirties, exactly what their append put on *)
Definition not_size (e : entry) : Prop := match e with ESize _ _ => code_rejournal = false | _ => True end.

Lemma undo_dirt_dirt_of d0 e j : dpos d0 -> not_size e -> undo_dirt e (dirt_of d0 (e :: j)) = dirt_of d0 j.
Proof.
  intros P NS. cbn [dirt_of]. destruct e; cbn [undo_dirt dirtied]; try reflexivity;
    try (cbn [not_size] in NS; rewrite NS); apply ddec_dinc; apply dpos_dirt_of; exact P.
Qed.

Lemma rewind_dirt_image d0 n j : dpos d0 -> Forall not_size j ->
  rewind_dirt n (dirt_of d0 j) j = dirt_of d0 (skipn (length j - n) j).
Proof.
  intros P. induction j as [|e j IH]; intros F; [reflexivity|].
  inversion F as [|? ? NS F']; subst. cbn [rewind_dirt].
  destruct (Nat.ltb n (length (e :: j))) eqn:E.
  - apply Nat.ltb_lt in E. rewrite undo_dirt_dirt_of by assumption. rewrite IH by exact F'.
    cbn [length] in *. replace (S (length j) - n) with (S (length j - n)) by lia. reflexivity.
  - apply Nat.ltb_ge in E. replace (length (e :: j) - n) with 0 by lia. reflexivity.
Qed.

Lemma rewind_core_skipn n c j c' j' : rewind_core n c j = Some (c', j') -> j' = skipn (length j - n) j.
Proof.
  revert c; induction j as [|e j IH]; intros c; cbn [rewind_core].
  - intros H; inversion H; reflexivity.
  - destruct (Nat.ltb n (length (e :: j))) eqn:E.
    + apply Nat.ltb_lt in E. destruct (undo_core e c) as [c1|]; [|discriminate]. intros H.
      apply IH in H. cbn [length] in *. replace (S (length j) - n) with (S (length j - n)) by lia. exact H.
    + apply Nat.ltb_ge in E. intros H; inversion H; subst.
      replace (length (e :: j) - n) with 0 by lia. reflexivity.
Qed.

Lemma Forall_skipn {A} (P : A -> Prop) k l : Forall P l -> Forall P (skipn k l).
Proof. revert l; induction k as [|k IH]; intros [|x l] F; cbn; auto. inversion F; auto. Qed.

(* the invariant: dirties = image of the journal, and no sizeChange entry is pending *)
Definition DI (d0 : smap Z) (m : mstate) : Prop := m_dirt m = dirt_of d0 (m_jr m) /\ Forall not_size (m_jr m).

Lemma DI_append d0 e m : not_size e -> DI d0 m -> DI d0 (append e m).
Proof.
  intros NS [D F]. split; cbn [append m_dirt m_jr dirt_of].
  - destruct (dirtied e); rewrite D; reflexivity.
  - constructor; assumption.
Qed.

Lemma DI_with_core d0 m c : DI d0 m -> DI d0 (with_core m c).
Proof. intros H. exact H. Qed.

Lemma DI_upd d0 a o m : DI d0 m -> DI d0 (upd a o m).
Proof. intros H. exact H. Qed.

Lemma DI_create_object d0 a m : DI d0 m -> DI d0 (fst (create_object a m)).
Proof.
  intros H. unfold create_object. cbn [fst]. unfold with_objs. apply DI_with_core. apply DI_append; [|exact H].
  destruct (get a (objs (m_core m))); exact I.
Qed.

Lemma DI_get_or_new d0 a m : DI d0 m -> DI d0 (fst (get_or_new a m)).
Proof. intros H. unfold get_or_new. destruct (live a (m_core m)); cbn [fst]; [exact H|apply DI_create_object; exact H]. Qed.

Definition dirt_safe (o : op) : bool :=
  match o with
  | OSetSize _ _ | OAddSize _ | OSubSize _ => negb code_rejournal   (* sizeChange.revert re-journals *)
  | OAddBalance a v => negb (keqb a ripemd && Z.eqb v 0)      (* RIPEMD touch stays dirty by design *)
  | _ => true
  end.

Lemma DI_al_add_slot d0 a s m : DI d0 m -> DI d0 (al_add_slot a s m).
Proof.
  intros H. unfold al_add_slot. destruct (get a (al_addr (m_core m))) as [i|].
  - destruct (Z.ltb i 0); [apply DI_append; [exact I|exact H]|].
    destruct (nth_error (al_slots (m_core m)) (Z.to_nat i)) as [ss|]; [|exact H].
    destruct (get s ss); [exact H|]. apply DI_append; [exact I|exact H].
  - apply DI_append; [exact I|]. apply DI_append; [exact I|exact H].
Qed.

Lemma DI_mutate d0 fx o m : dirt_safe o = true -> DI d0 m -> DI d0 (fst (mutate fx o m)).
Proof.
  intros S H. destruct o; unfold mutate.
  - destruct (get_or_new a m) as [m1 ob] eqn:G. pose proof (DI_get_or_new d0 a m H) as H1. rewrite G in H1. cbn [fst] in H1.
    cbn [dirt_safe] in S. destruct (Z.eqb v 0); cbn [fst].
    + destruct (acct_empty ob); [|exact H1]. unfold touch.
      rewrite andb_true_r in S. apply negb_true_iff in S. rewrite S. apply DI_append; [exact I|exact H1].
    + unfold obj_set_balance. apply DI_upd. apply DI_append; [exact I|exact H1].
  - destruct (get_or_new a m) as [m1 ob] eqn:G. pose proof (DI_get_or_new d0 a m H) as H1. rewrite G in H1. cbn [fst] in H1.
    destruct (Z.eqb v 0); cbn [fst]; [exact H1|]. apply DI_upd. apply DI_append; [exact I|exact H1].
  - destruct (get_or_new a m) as [m1 ob] eqn:G. pose proof (DI_get_or_new d0 a m H) as H1. rewrite G in H1. cbn [fst] in H1.
    cbn [fst]. apply DI_upd. apply DI_append; [exact I|exact H1].
  - destruct (get_or_new a m) as [m1 ob] eqn:G. pose proof (DI_get_or_new d0 a m H) as H1. rewrite G in H1. cbn [fst] in H1.
    cbn [fst]. apply DI_upd. apply DI_append; [exact I|exact H1].
  - destruct (get_or_new a m) as [m1 ob] eqn:G. pose proof (DI_get_or_new d0 a m H) as H1. rewrite G in H1. cbn [fst] in H1.
    cbn [fst]. apply DI_upd. apply DI_append; [exact I|exact H1].
  - destruct (get_or_new a m) as [m1 ob] eqn:G. pose proof (DI_get_or_new d0 a m H) as H1. rewrite G in H1. cbn [fst] in H1.
    destruct (N.eqb (getw k (a_stor ob)) v); cbn [fst]; [exact H1|]. apply DI_upd. apply DI_append; [exact I|exact H1].
  - destruct (live a (m_core m)); cbn [fst]; [|exact H]. apply DI_upd. apply DI_append; [exact I|exact H].
  - destruct (create_object a m) as [m1 prev] eqn:C. pose proof (DI_create_object d0 a m H) as H1. rewrite C in H1. cbn [fst] in H1.
    destruct prev; cbn [fst]; [apply DI_upd|]; exact H1.
  - cbn [fst]. apply DI_get_or_new. exact H.
  - destruct (get_or_new a m) as [m1 ob] eqn:G. pose proof (DI_get_or_new d0 a m H) as H1. rewrite G in H1. cbn [fst] in H1.
    cbn [fst dirt_safe] in *. apply negb_true_iff in S. unfold obj_set_size. apply DI_upd. apply DI_append; [exact S|exact H1].
  - destruct (get_or_new a m) as [m1 ob] eqn:G. pose proof (DI_get_or_new d0 a m H) as H1. rewrite G in H1. cbn [fst] in H1.
    cbn [fst dirt_safe] in *. apply negb_true_iff in S. unfold obj_set_size. apply DI_upd. apply DI_append; [exact S|exact H1].
  - destruct (get_or_new a m) as [m1 ob] eqn:G. pose proof (DI_get_or_new d0 a m H) as H1. rewrite G in H1. cbn [fst] in H1.
    cbn [fst dirt_safe] in *. apply negb_true_iff in S. unfold obj_set_size. apply DI_upd. apply DI_append; [exact S|exact H1].
  - cbn [fst]. apply DI_with_core. apply DI_append; [exact I|exact H].
  - destruct (get h (preim (m_core m))); cbn [fst]; [exact H|]. apply DI_with_core. apply DI_append; [exact I|exact H].
  - cbn [fst]. apply DI_with_core. apply DI_append; [exact I|exact H].
  - cbn [m_core append]. destruct (N.ltb (refund (m_core m)) g); cbn [fst]; [|apply DI_with_core]; apply DI_append; try exact I; exact H.
  - destruct (get a (al_addr (m_core m))); cbn [fst]; [exact H|]. apply DI_append; [exact I|exact H].
  - cbn [fst]. apply DI_al_add_slot. exact H.
  - destruct (N.eqb (getw (a ++ k) (transient (m_core m))) v); cbn [fst]; [exact H|]. apply DI_with_core. apply DI_append; [exact I|exact H].
  - exact H.
  - exact H.
Qed.

Lemma DI_step d0 fx x o : dpos d0 -> dirt_safe o = true -> DI d0 (s_m x) -> DI d0 (s_m (fst (step fx x o))).
Proof.
  intros P S H. destruct (is_mut o) eqn:M.
  - destruct (step_mut fx x o M) as (E1 & _). rewrite E1. apply DI_mutate; assumption.
  - destruct o; try discriminate.
    + exact H.
    + cbn [step]. destruct (search_rev id (s_revs x) 0) as [[i [id' n]]|]; [|exact H].
      destruct (N.eqb id' id); [|exact H]. unfold rewind.
      destruct (rewind_core n (m_core (s_m x)) (m_jr (s_m x))) as [[c j]|] eqn:R; [|exact H].
      cbn [fst s_m]. destruct H as [D F]. apply rewind_core_skipn in R. subst j.
      split; cbn [m_dirt m_jr].
      * rewrite D. apply rewind_dirt_image; assumption.
      * apply Forall_skipn. exact F.
Qed.

Lemma DI_run d0 fx ops : forall x, dpos d0 -> forallb dirt_safe ops = true -> DI d0 (s_m x) -> DI d0 (s_m (run fx x ops)).
Proof.
  induction ops as [|o t IH]; intros x P S H; cbn in *; [exact H|].
  apply andb_prop in S as [S1 S2]. apply IH; [exact P|exact S2|]. apply DI_step; assumption.
Qed.

Lemma wf_dirtb_dpos d : wf_dirtb d = true -> forall a, get a d <> Some 0%Z.
Proof.
  unfold wf_dirtb. intros H a G. apply andb_prop in H as [S Z]. apply sortedb_sorted in S.
  pose proof (forallb_get _ _ _ _ S Z G) as E. cbn in E. discriminate.
Qed.

(* ---------- revisions ---------- *)
Lemma revs_split x id n : Inv x -> In (id, n) (s_revs x) ->
  exists l1 l2, s_revs x = l1 ++ (id, n) :: l2 /\ (forall r, In r l1 -> (fst r < id)%N).
Proof.
  intros I Hin. apply in_split in Hin as (l1 & l2 & E). exists l1, l2. split; [exact E|].
  intros r Hr. pose proof (inv_sorted x I) as S. rewrite E in S.
  apply (SS_app_rel Rrev l1 ((id, n) :: l2) r (id, n) S Hr (or_introl eq_refl)).
Qed.

(* reverting to a valid revision never panics (no nil dereference inside journal.revert) *)
Lemma revert_valid_ok fx x id : Inv x -> In id (map fst (s_revs x)) ->
  snd (step fx x (ORevert id)) = OutNone /\ ~ In id (map fst (s_revs (fst (step fx x (ORevert id))))).
Proof.
  intros I Hin. apply in_map_iff in Hin as ([id' n] & E & Hin). cbn in E. subst id'.
  destruct (revs_split x id n I Hin) as (l1 & l2 & Er & Old).
  destruct (inv_back x I _ Hin) as (c & j & R & _). cbn [snd] in R.
  cbn [step]. rewrite Er, search_rev_found by exact Old. rewrite N.eqb_refl. unfold rewind. rewrite R.
  cbn [fst snd s_revs Nat.add]. split; [reflexivity|]. rewrite firstn_length_app.
  intros H. apply in_map_iff in H as (r & E & Hr). specialize (Old r Hr). lia.
Qed.

(* an id that is not on the stack of valid revisions: panic, nothing changes *)
Lemma revert_invalid_panics fx x id : ~ In id (map fst (s_revs x)) -> step fx x (ORevert id) = (x, OutPanic).
Proof.
  intros Nin. cbn [step]. destruct (search_rev id (s_revs x) 0) as [[i [id' n]]|] eqn:S; [|reflexivity].
  destruct (N.eqb id' id) eqn:E; [|reflexivity]. apply N.eqb_eq in E; subst id'.
  apply search_rev_spec in S as (l1 & l2 & Er & _). exfalso. apply Nin. rewrite Er, map_app.
  apply in_or_app. right. left. reflexivity.
Qed.

(* ---------- dirties restored ---------- *)
Lemma dirt_restored d0 fx x ops :
  Inv x -> dpos d0 -> DI d0 (s_m x) -> forallb dirt_safe ops = true ->
  let id := s_next x in
  let x1 := fst (step fx x OSnapshot) in
  all_benign fx x1 ops = true ->
  let x2 := run fx x1 ops in
  In id (map fst (s_revs x2)) ->
  m_dirt (s_m (fst (step fx x2 (ORevert id)))) = m_dirt (s_m x).
Proof.
  intros I P D S id x1 B x2 Hin.
  destruct (revert_restores_gen fx x ops I B Hin) as (_ & _ & Ej & _). fold id x1 x2 in Ej.
  assert (D2 : DI d0 (s_m x2)) by (apply DI_run; [exact P|exact S|exact D]).
  pose proof (DI_step d0 fx x2 (ORevert id) P eq_refl D2) as [D3 _].
  rewrite D3, Ej. symmetry. apply D.
Qed.

(* ---------- call frames ---------- *)
Lemma anchored_mut fx x y o id :
  Inv y -> benign fx o (s_m y) = true -> is_mut o = true -> anchored x y id ->
  anchored x (fst (step fx y o)) id.
Proof.
  intros I B M (top & Er & Rw).
  assert (In (id, length (m_jr (s_m x))) (s_revs y)) as Hid by (rewrite Er; apply in_or_app; right; left; reflexivity).
  pose proof (inv_idx y I _ Hid) as Ln. cbn [snd] in Ln.
  destruct (step_mut fx y o M) as (E1 & E2 & _). exists top. rewrite E1, E2. split; [exact Er|].
  rewrite (extm_rewind _ _ _ (mutate_ext fx o (s_m y) (inv_wf y I) B) Ln). exact Rw.
Qed.

Lemma anchored_snapshot fx x y id : anchored x y id -> anchored x (fst (step fx y OSnapshot)) id.
Proof.
  intros (top & Er & Rw). cbn [step fst]. exists (top ++ [(s_next y, length (m_jr (s_m y)))]). cbn [s_revs s_m].
  split; [|exact Rw]. rewrite Er, <- app_assoc. reflexivity.
Qed.

Lemma anchored_self fx y : anchored y (fst (step fx y OSnapshot)) (s_next y).
Proof. exists []. cbn. split; [reflexivity|]. apply rewind_core_ge. lia. Qed.

Lemma revert_anchored fx x y id :
  (forall r, In r (s_revs x) -> (fst r < id)%N) -> anchored x y id ->
  snd (step fx y (ORevert id)) = OutNone /\
  m_core (s_m (fst (step fx y (ORevert id)))) = m_core (s_m x) /\
  m_jr (s_m (fst (step fx y (ORevert id)))) = m_jr (s_m x) /\
  s_revs (fst (step fx y (ORevert id))) = s_revs x /\
  s_next (fst (step fx y (ORevert id))) = s_next y.
Proof.
  intros Old (top & Er & Rw). cbn [step]. rewrite Er, search_rev_found by exact Old. cbn [Nat.add].
  rewrite N.eqb_refl. unfold rewind. rewrite Rw. cbn [fst snd s_m s_revs s_next m_core m_jr].
  rewrite firstn_length_app. auto.
Qed.

Lemma anchored_same x y y' id :
  s_revs y' = s_revs y -> m_core (s_m y') = m_core (s_m y) -> m_jr (s_m y') = m_jr (s_m y) ->
  anchored x y id -> anchored x y' id.
Proof. intros E1 E2 E3 (top & Er & Rw). exists top. rewrite E1, E2, E3. auto. Qed.

Fixpoint frame_ind' (P : frame -> Prop) (HOp : forall o, P (FOp o))
    (HCall : forall body e, Forall P body -> P (FCall body e)) (f : frame) : P f :=
  match f with
  | FOp o => HOp o
  | FCall body e =>
      HCall body e ((fix go (l : list frame) : Forall P l :=
                           match l with
                           | [] => Forall_nil P
                           | g :: l' => Forall_cons g (frame_ind' P HOp HCall g) (go l')
                           end) body)
  end.

(* the flag only ever goes from true to false *)
Lemma fold_flag fx oog (l : list frame) :
  (forall f y b, In f l -> snd (exec fx oog f (y, b)) = true -> b = true) ->
  forall acc, snd (fold_left (fun acc g => exec fx oog g acc) l acc) = true -> snd acc = true.
Proof.
  induction l as [|g l IH]; intros H acc; cbn [fold_left]; [auto|].
  intros E. apply IH in E; [|intros f y b Hf; apply H; right; exact Hf].
  destruct acc as [y b]. cbn [snd]. apply (H g y b (or_introl eq_refl) E).
Qed.

Lemma exec_flag fx oog f : forall y b, snd (exec fx oog f (y, b)) = true -> b = true.
Proof.
  induction f as [o|body e IHb] using frame_ind'; intros y b; cbn [exec fst snd].
  - intros H. apply andb_prop in H as [H _]. apply andb_prop in H as [H _]. exact H.
  - intros H.
    assert (snd (fold_left (fun acc g => exec fx oog g acc) body (fst (step fx y OSnapshot), b)) = true) as H'
      by (destruct (ending_reverts oog e); exact H).
    apply fold_flag in H'; [exact H'|].
    intros f y0 b0 Hf. rewrite Forall_forall in IHb. apply (IHb f Hf).
Qed.

(* what executing a frame (or a list of frames) guarantees *)
Definition frame_ok (fx : bool) (run1 : sdb * bool -> sdb * bool) : Prop :=
  forall y b, Inv y -> snd (run1 (y, b)) = true ->
    Inv (fst (run1 (y, b))) /\ (s_next y <= s_next (fst (run1 (y, b))))%N /\
    (forall x id, anchored x y id -> anchored x (fst (run1 (y, b))) id).

Lemma frames_ok fx oog body : Forall (fun f => frame_ok fx (exec fx oog f)) body ->
  frame_ok fx (fun acc => fold_left (fun acc g => exec fx oog g acc) body acc).
Proof.
  induction body as [|g l IH]; intros F y b I H; cbn [fold_left] in *.
  - cbn [fst]. split; [exact I|split; [lia|auto]].
  - inversion F as [|? ? Fg Fl]; subst.
    assert (snd (exec fx oog g (y, b)) = true) as Hg
      by (apply (fold_flag fx oog l (fun f y0 b0 _ => exec_flag fx oog f y0 b0)); exact H).
    destruct (Fg y b I Hg) as (I1 & N1 & A1).
    destruct (exec fx oog g (y, b)) as [y1 b1] eqn:E1. cbn [fst snd] in *.
    destruct (IH Fl y1 b1 I1 H) as (I2 & N2 & A2).
    split; [exact I2|split; [lia|]]. intros x id A. apply A2. apply A1. exact A.
Qed.

Lemma exec_ok fx oog f : frame_ok fx (exec fx oog f).
Proof.
  induction f as [o|body e IHb] using frame_ind'; intros y b I H.
  - cbn [exec fst snd] in *. apply andb_prop in H as [H B]. apply andb_prop in H as [_ M].
    split; [apply Inv_step; assumption|split].
    + destruct (step_mut fx y o M) as (_ & _ & E3 & _). rewrite E3. lia.
    + intros x id A. apply anchored_mut; assumption.
  - cbn [exec fst snd] in *.
    set (y1 := fst (step fx y OSnapshot)) in *.
    assert (I1 : Inv y1) by (apply Inv_step; [exact I|reflexivity]).
    assert (Hr : snd (fold_left (fun acc g => exec fx oog g acc) body (y1, b)) = true)
      by (destruct (ending_reverts oog e); exact H).
    destruct (frames_ok fx oog body IHb y1 b I1 Hr) as (I2 & N2 & A2).
    assert (s_next y1 = s_next y + 1)%N as Ny by reflexivity.
    destruct (ending_reverts oog e); cbn [fst snd].
    + (* the frame fails: RevertToSnapshot(id of this frame) *)
      set (y2 := fst (fold_left (fun acc g => exec fx oog g acc) body (y1, b))) in *.
      assert (Old : forall r, In r (s_revs y) -> (fst r < s_next y)%N) by (intros r Hr0; apply (inv_ids y I r Hr0)).
      pose proof (A2 y (s_next y) (anchored_self fx y)) as Ay.
      destruct (revert_anchored fx y y2 (s_next y) Old Ay) as (_ & Ec & Ej & Er & En).
      split; [apply Inv_step; [exact I2|reflexivity]|split; [rewrite En; lia|]].
      intros x id A. apply (anchored_same x y); auto.
    + split; [exact I2|split; [lia|]]. intros x id A. apply A2. apply anchored_snapshot. exact A.
Qed.

(* a frame that ends in an error for which the EVM reverts, at any depth, leaves the journalled state
   exactly as it found it *)
Lemma failed_frame_restores fx oog y body e :
  ending_reverts oog e = true ->
  Inv y -> snd (exec fx oog (FCall body e) (y, true)) = true ->
  let y' := fst (exec fx oog (FCall body e) (y, true)) in
  m_core (s_m y') = m_core (s_m y) /\ m_jr (s_m y') = m_jr (s_m y) /\ s_revs y' = s_revs y /\ Inv y'.
Proof.
  intros R I H y'. pose proof (exec_ok fx oog (FCall body e) y true I H) as (I' & _ & _).
  subst y'. cbn [exec fst snd] in *. rewrite R in *.
  set (y1 := fst (step fx y OSnapshot)) in *.
  assert (I1 : Inv y1) by (apply Inv_step; [exact I|reflexivity]).
  assert (IHb : Forall (fun f => frame_ok fx (exec fx oog f)) body) by (apply Forall_forall; intros f _; apply exec_ok).
  destruct (frames_ok fx oog body IHb y1 true I1 H) as (_ & _ & A2).
  assert (Old : forall r, In r (s_revs y) -> (fst r < s_next y)%N) by (intros r Hr0; apply (inv_ids y I r Hr0)).
  destruct (revert_anchored fx y _ (s_next y) Old (A2 y (s_next y) (anchored_self fx y))) as (_ & Ec & Ej & Er & _).
  auto.
Qed.

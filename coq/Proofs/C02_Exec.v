(* C02 — lemmas about the effect-tree semantics ([exec]): nested induction principle, a generic
   "every action refines a preorder closed under the guarded primitives" theorem, and its
   instances: ledger conservation, non-negativity, monotone ghosts, once-only rent refund. *)
From Coq Require Import List ZArith NArith Bool Lia.
From GQ Require Import Lib.C02_BMap Generated.C02Sites Model.C02.
Import ListNotations.
Local Open Scope Z_scope.

(* ---------- induction over the nested effect tree ---------- *)
Section ActionInd.
  Variable P : action -> Prop.
  Hypothesis HCall : forall f t v r mk body rv, Forall P body -> P (ACall f t v r mk body rv).
  Hypothesis HCallEtx : forall f v r rv, P (ACallEtx f v r rv).
  Hypothesis HFrame : forall self v c r body rv, Forall P body -> P (AFrame self v c r body rv).
  Hypothesis HCreate : forall f n v r body out, Forall P body -> P (ACreate f n v r body out).
  Hypothesis HSelf : forall a b, P (ASelfDestruct a b).
  Hypothesis HEtx : forall a v f p em, P (AEtx a v f p em).
  Hypothesis HOther : P AOther.

  Fixpoint action_ind' (a : action) : P a :=
    let go := (fix go (l : list action) : Forall P l :=
                 match l with
                 | [] => Forall_nil P
                 | x :: r => Forall_cons x (action_ind' x) (go r)
                 end) in
    match a with
    | ACall f t v r mk body rv => HCall f t v r mk body rv (go body)
    | ACallEtx f v r rv => HCallEtx f v r rv
    | AFrame self v c r body rv => HFrame self v c r body rv (go body)
    | ACreate f n v r body out => HCreate f n v r body out (go body)
    | ASelfDestruct a b => HSelf a b
    | AEtx a v f p em => HEtx a v f p em
    | AOther => HOther
    end.
End ActionInd.

(* the part of the state that balances and their accounting ghosts live in *)
Definition core (s : st) := (bal s, sui s, etx s, burn s, rent s).

Lemma core_snap s : core (p_snap s) = core s. Proof. reflexivity. Qed.
Lemma core_create a s : core (p_create a s) = core s. Proof. reflexivity. Qed.
Lemma core_restore s0 s id : core (restore s0 s id) = core s0. Proof. reflexivity. Qed.

Lemma can_transfer_spec a v s : can_transfer a v s = true <-> v <= bget a (bal s).
Proof. unfold can_transfer. apply Z.leb_le. Qed.

Lemma call_guard v f s :
  negb (v =? 0) && negb (can_transfer f v s) = false -> v = 0 \/ v <= bget f (bal s).
Proof.
  intros H. destruct (v =? 0) eqn:E; [left; now apply Z.eqb_eq|].
  right. cbn in H. apply negb_false_iff in H. now apply can_transfer_spec.
Qed.

(* ---------- every action refines any preorder closed under the guarded primitives ---------- *)
Section Rel.
  Variable e : env.
  Variable R : st -> st -> Prop.
  Hypothesis R_refl : forall s, R s s.
  Hypothesis R_trans : forall a b c, R a b -> R b c -> R a c.
  Hypothesis R_core : forall s a b, core a = core b -> R s a -> R s b.
  Hypothesis R_transfer : forall s f t v, 0 <= v -> (v = 0 \/ v <= bget f (bal s)) -> R s (transfer f t v s).
  Hypothesis R_etx : forall s a value fee, 0 <= value -> 0 <= fee -> value + fee <= bget a (bal s) ->
    R s (add_etx (value, fee) (p_sub a (value + fee) s)).
  Hypothesis R_lost : forall s a t, 0 < t -> t <= bget a (bal s) -> R s (add_burn t (p_sub a t s)).
  Hypothesis R_selfd : forall s a ben, R s (do_selfdestruct e a ben s).

  Lemma R_same_core s s' : core s = core s' -> R s s'.
  Proof. intros H. apply (R_core s s s' H). apply R_refl. Qed.

  Lemma fold_R body :
    Forall (fun a => wf a = true -> forall s, R s (exec e a s)) body ->
    forallb wf body = true ->
    forall s, R s (fold_left (fun x b => exec e b x) body s).
  Proof.
    induction body as [|a body IH]; cbn; intros HF HW s; [apply R_refl|].
    apply andb_true_iff in HW. destruct HW as [Wa Wb].
    inversion HF as [|? ? Ha Hb]; subst.
    eapply R_trans; [apply (Ha Wa)|]. apply IH; assumption.
  Qed.

  Lemma frame_R s s1 s2 id rv : core s1 = core s -> R s s2 -> R s (frame_end s1 s2 id rv).
  Proof.
    intros C H. unfold frame_end. destruct rv; [|exact H].
    apply R_same_core. rewrite core_restore. now symmetry.
  Qed.

  Theorem exec_rel : forall a, wf a = true -> forall s, R s (exec e a s).
  Proof.
    induction a as [f t v r mk body rv IH|f v r rv|self v c r body rv IH|f n v r body out IH|a b|a v f p em|]
      using action_ind'; intros W s; cbn [exec].
    - (* ACall *)
      cbn [wf] in W. apply andb_true_iff in W. destruct W as [Wv Wb]. apply Z.leb_le in Wv.
      destruct (negb (v =? 0) && negb (can_transfer f v s)) eqn:G; [apply R_refl|].
      destruct (r =? 0)%N; [apply R_refl|].
      apply frame_R; [apply core_snap|].
      destruct (r =? 1)%N; [apply R_same_core; now rewrite core_snap|].
      apply call_guard in G.
      set (s1 := if mk then p_create t (p_snap s) else p_snap s).
      assert (C1 : core s = core s1) by (unfold s1; destruct mk; reflexivity).
      eapply R_trans; [apply (R_same_core _ _ C1)|].
      eapply R_trans; [apply (R_transfer s1 f t v Wv)|apply fold_R; assumption].
      replace (bal s1) with (bal s) by (unfold s1; destruct mk; reflexivity). exact G.
    - (* ACallEtx *)
      cbn [wf] in W. apply Z.leb_le in W.
      destruct (negb (v =? 0) && negb (can_transfer f v s)) eqn:G; [apply R_refl|].
      destruct (r =? 0)%N; [apply R_refl|].
      destruct (r =? 1)%N; [apply frame_R; [apply core_snap|apply R_same_core; now rewrite core_snap]|].
      destruct (negb (can_transfer f v (p_snap s))) eqn:G2;
        [apply frame_R; [apply core_snap|apply R_same_core; now rewrite core_snap]|].
      apply negb_false_iff, can_transfer_spec in G2.
      destruct rv; [apply R_same_core; now rewrite core_restore, core_snap|].
      eapply R_trans; [apply (R_same_core s (p_snap s)); now rewrite core_snap|].
      replace (p_sub f v (p_snap s)) with (p_sub f (v + 0) (p_snap s)) by (f_equal; lia).
      apply R_etx; lia.
    - (* AFrame *)
      cbn [wf] in W. apply andb_true_iff in W. destruct W as [Wv Wb].
      destruct (c && negb (can_transfer self v s)); [apply R_refl|].
      destruct (r =? 0)%N; [apply R_refl|].
      apply frame_R; [apply core_snap|].
      destruct (r =? 1)%N; [apply R_same_core; now rewrite core_snap|].
      eapply R_trans; [apply (R_same_core s (p_snap s)); now rewrite core_snap|].
      apply fold_R; assumption.
    - (* ACreate *)
      cbn [wf] in W. apply andb_true_iff in W. destruct W as [Wv Wb]. apply Z.leb_le in Wv.
      destruct (negb (can_transfer f v s)) eqn:G; [apply R_refl|].
      apply negb_false_iff, can_transfer_spec in G.
      destruct (r <? 2)%N; [apply R_refl|].
      apply frame_R; [apply core_snap|].
      eapply R_trans; [apply (R_same_core s (p_create n (p_snap s))); reflexivity|].
      eapply R_trans; [apply (R_transfer _ f n v Wv); right; exact G|apply fold_R; assumption].
    - apply R_selfd.
    - (* AEtx *)
      cbn [wf] in W. apply andb_true_iff in W. destruct W as [Wv Wf]. apply Z.leb_le in Wv, Wf.
      destruct (negb p); [apply R_refl|].
      destruct ((v + f =? 0) || negb (can_transfer a (v + f) s)) eqn:G; [apply R_refl|].
      apply orb_false_iff in G. destruct G as [G0 G1].
      apply Z.eqb_neq in G0. apply negb_false_iff, can_transfer_spec in G1.
      destruct em; [apply R_etx; assumption|apply R_lost; [lia|assumption]].
    - apply R_refl.
  Qed.

  Corollary exec_list_rel l : forallb wf l = true -> forall s, R s (exec_list e l s).
  Proof.
    intros W s. unfold exec_list. apply fold_R; [|exact W].
    apply Forall_forall. intros a _ Wa. now apply exec_rel.
  Qed.
End Rel.

(* ---------- projections of the primitives ---------- *)
Lemma bsum_sub a v s : bsum (bal (p_sub a v s)) = bsum (bal s) - v.
Proof. cbn. rewrite bsum_bset. lia. Qed.
Lemma bsum_add a v s : bsum (bal (p_add a v s)) = bsum (bal s) + v.
Proof. cbn. rewrite bsum_bset. lia. Qed.

Lemma ledger_core e s s' : core s = core s' -> ledger e s' = ledger e s.
Proof. unfold core, ledger. intros H. injection H as Hb _ He Hu Hr. now rewrite Hb, He, Hu, Hr. Qed.

Lemma etx_total_app l x : etx_total (l ++ [x]) = etx_total l + fst x + snd x.
Proof. induction l as [|y l IH]; cbn; [lia|]. unfold etx_total in IH. cbn in IH. rewrite IH. lia. Qed.

(* ---------- instance 1: the ledger is invariant ---------- *)
Lemma ledger_selfdestruct e a ben s : ledger e (do_selfdestruct e a ben s) = ledger e s.
Proof.
  unfold do_selfdestruct.
  destruct (e_prefork e || negb (mem a (sui (p_add ben (bget a (bal s)) s))));
    unfold ledger, add_burn, p_suicide, add_rent, p_add; cbn [bal sui etx burn rent length];
    rewrite ?Nat2Z.inj_succ, ?Z.mul_succ_r, !bsum_bset; generalize (e_rent e); intros; lia.
Qed.

Theorem exec_ledger e a : wf a = true -> forall s, ledger e (exec e a s) = ledger e s.
Proof.
  intros W s.
  apply (exec_rel e (fun s s' => ledger e s' = ledger e s)); try exact W.
  - reflexivity.
  - intros x y z H1 H2. congruence.
  - intros x y z C H. rewrite <- H. apply ledger_core. now symmetry.
  - intros x f t v _ _. unfold transfer, ledger. rewrite bsum_add, bsum_sub. cbn [etx burn rent p_add p_sub].
    generalize (e_rent e); intros; lia.
  - intros x a0 value fee _ _ _. unfold ledger.
    change (bal (add_etx (value, fee) (p_sub a0 (value + fee) x))) with (bal (p_sub a0 (value + fee) x)).
    rewrite bsum_sub. cbn [etx burn rent add_etx p_sub]. rewrite etx_total_app. cbn [fst snd].
    generalize (e_rent e); intros; lia.
  - intros x a0 t _ _. unfold ledger.
    change (bal (add_burn t (p_sub a0 t x))) with (bal (p_sub a0 t x)).
    rewrite bsum_sub. cbn [etx burn rent add_burn p_sub]. generalize (e_rent e); intros; lia.
  - intros x a0 ben. apply ledger_selfdestruct.
Qed.

(* ---------- instance 2: no balance goes negative; ghosts only grow ---------- *)
Definition grows (s s' : st) : Prop :=
  nonneg (bal s) ->
  nonneg (bal s') /\ burn s <= burn s' /\ (exists l, etx s' = etx s ++ l) /\ (exists l, rent s' = l ++ rent s)
  /\ (forall a, mem a (sui s) = true -> mem a (sui s') = true)
  /\ etx_total (etx s) <= etx_total (etx s').

Lemma nonneg_sub a v m : nonneg m -> v <= bget a m -> nonneg (bset a (bget a m - v) m).
Proof. intros H G. apply nonneg_bset; [exact H|lia]. Qed.
Lemma nonneg_add a v m : nonneg m -> 0 <= v -> nonneg (bset a (bget a m + v) m).
Proof. intros H G. apply nonneg_bset; [exact H|]. specialize (H a). lia. Qed.

Lemma grows_selfdestruct e a ben s : 0 <= e_rent e -> grows s (do_selfdestruct e a ben s).
Proof.
  intros Hr NN. unfold do_selfdestruct.
  set (b := bget a (bal s)). set (s1 := p_add ben b s).
  assert (Hb : 0 <= b) by apply NN.
  assert (NN1 : nonneg (bal s1)) by (apply nonneg_add; assumption).
  assert (Hb1 : b <= bget a (bal s1)).
  { unfold s1. cbn. rewrite bget_bset. destruct (N.eqb a ben) eqn:E; [|fold b; lia].
    apply N.eqb_eq in E. subst ben. fold b. lia. }
  destruct (e_prefork e || negb (mem a (sui s1))).
  - set (s2 := p_add ben (e_rent e) s1).
    assert (NN2 : nonneg (bal s2)) by (apply nonneg_add; assumption).
    assert (Hb2 : b <= bget a (bal s2)).
    { unfold s2. cbn [bal p_add]. rewrite bget_bset. destruct (N.eqb a ben) eqn:E; [|exact Hb1].
      apply N.eqb_eq in E. subst ben. lia. }
    cbn [bal sui etx burn rent add_burn p_suicide add_rent].
    change (bal (add_rent a s2)) with (bal s2).
    repeat split.
    + apply nonneg_bset; [exact NN2|lia].
    + change (burn s2) with (burn s). lia.
    + exists []. now rewrite app_nil_r.
    + exists [a]. reflexivity.
    + intros x Hx. unfold mem in *. change (sui s2) with (sui s). cbn [existsb]. rewrite Hx. apply orb_true_r.
    + change (etx s2) with (etx s). lia.
  - cbn [bal sui etx burn rent add_burn p_suicide].
    repeat split.
    + apply nonneg_bset; [exact NN1|lia].
    + change (burn s1) with (burn s). lia.
    + exists []. now rewrite app_nil_r.
    + exists []. reflexivity.
    + intros x Hx. unfold mem in *. change (sui s1) with (sui s). cbn [existsb]. rewrite Hx. apply orb_true_r.
    + change (etx s1) with (etx s). lia.
Qed.

Lemma grows_refl s : grows s s.
Proof.
  intros NN. repeat split; auto; try lia.
  - exists []. now rewrite app_nil_r.
  - exists []. reflexivity.
Qed.

Lemma grows_trans a b c : grows a b -> grows b c -> grows a c.
Proof.
  intros H1 H2 NN. destruct (H1 NN) as (N1 & B1 & [l1 E1] & [r1 T1] & S1 & X1).
  destruct (H2 N1) as (N2 & B2 & [l2 E2] & [r2 T2] & S2 & X2).
  repeat split; auto; try lia.
  - exists (l1 ++ l2). rewrite E2, E1. now rewrite app_assoc.
  - exists (r2 ++ r1). rewrite T2, T1. now rewrite app_assoc.
Qed.

Theorem exec_grows e a : 0 <= e_rent e -> wf a = true -> forall s, grows s (exec e a s).
Proof.
  intros Hr W s.
  apply (exec_rel e grows); try exact W.
  - apply grows_refl.
  - apply grows_trans.
  - intros x y z C H NN. destruct (H NN) as (N1 & B1 & E1 & T1 & S1 & X1).
    unfold core in C. injection C as Cb Cs Ce Cu Cr. rewrite <- Cb, <- Cs, <- Ce, <- Cu, <- Cr. repeat split; assumption.
  - intros x f t v Hv G NN. unfold transfer. cbn [bal sui etx burn rent p_add p_sub].
    repeat split; auto; try lia.
    + apply nonneg_add; [|exact Hv]. apply nonneg_sub; [exact NN|]. destruct G as [->|G]; [apply NN|exact G].
    + exists []. now rewrite app_nil_r.
    + exists []. reflexivity.
  - intros x a0 value fee Hv Hf G NN. cbn [bal sui etx burn rent add_etx p_sub].
    repeat split; auto; try lia.
    + apply nonneg_sub; assumption.
    + eexists. reflexivity.
    + exists []. reflexivity.
    + rewrite etx_total_app. cbn [fst snd]. lia.
  - intros x a0 t Ht G NN. cbn [bal sui etx burn rent add_burn p_sub].
    repeat split; auto; try lia.
    + apply nonneg_sub; assumption.
    + exists []. now rewrite app_nil_r.
    + exists []. reflexivity.
  - intros x a0 ben. now apply grows_selfdestruct.
Qed.

(* ---------- instance 3: after the fork, the rent refund is granted at most once per account ---------- *)
Definition rent_inv (s : st) : Prop :=
  NoDup (rent s) /\ forall a, In a (rent s) -> mem a (sui s) = true.

Theorem exec_rent_once e a : e_prefork e = false -> wf a = true ->
  forall s, rent_inv s -> rent_inv (exec e a s).
Proof.
  intros PF W s.
  apply (exec_rel e (fun s s' => rent_inv s -> rent_inv s')); try exact W; auto.
  - intros x y z C H I. specialize (H I). unfold rent_inv in *. unfold core in C.
    injection C as _ Cs _ _ Cr. now rewrite <- Cs, <- Cr.
  - intros x a0 ben [ND IN]. unfold do_selfdestruct. rewrite PF. cbn [orb].
    change (sui (p_add ben (bget a0 (bal x)) x)) with (sui x).
    destruct (mem a0 (sui x)) eqn:M; cbn [negb].
    + split; cbn; [exact ND|]. intros y Hy. fold (mem y (sui x)). rewrite (IN y Hy). apply orb_true_r.
    + split; cbn.
      * constructor; [|exact ND]. intros HI. apply IN in HI. congruence.
      * intros y [<-|Hy]; [now rewrite N.eqb_refl|]. fold (mem y (sui x)). rewrite (IN y Hy). apply orb_true_r.
Qed.

(* ---------- instance 4: the key set of the balance map stays duplicate-free ---------- *)
Theorem exec_keys_nodup e a : wf a = true -> forall s, NoDup (bkeys (bal s)) -> NoDup (bkeys (bal (exec e a s))).
Proof.
  intros W s.
  apply (exec_rel e (fun s s' => NoDup (bkeys (bal s)) -> NoDup (bkeys (bal s')))); try exact W; auto.
  - intros x y z C H I. specialize (H I). unfold core in C. injection C as Cb _ _ _ _. now rewrite <- Cb.
  - intros x f t v _ _ I. cbn. now repeat apply bset_nodup.
  - intros x a0 value fee _ _ _ I. cbn. now apply bset_nodup.
  - intros x a0 t _ _ I. cbn. now apply bset_nodup.
  - intros x a0 ben I. unfold do_selfdestruct.
    destruct (e_prefork e || negb (mem a0 (sui (p_add ben (bget a0 (bal x)) x)))); cbn; now repeat apply bset_nodup.
Qed.

(* ---------- a reverted frame is balance-neutral ---------- *)
Definition reverted_frame (a : action) : bool :=
  match a with
  | ACall _ _ _ _ _ _ rv => rv
  | ACallEtx _ _ _ rv => rv
  | AFrame _ _ _ _ _ rv => rv
  | ACreate _ _ _ _ _ out => (out =? 1)%N
  | _ => false
  end.

Theorem reverted_frame_neutral e a s : reverted_frame a = true -> core (exec e a s) = core s.
Proof.
  destruct a as [f t v r mk body rv|f v r rv|self v c r body rv|f n v r body out|a b|a v f p em|];
    cbn [reverted_frame exec]; intros H; try discriminate; subst.
  - destruct (negb (v =? 0) && negb (can_transfer f v s)); [reflexivity|].
    destruct (r =? 0)%N; reflexivity.
  - destruct (negb (v =? 0) && negb (can_transfer f v s)); [reflexivity|].
    destruct (r =? 0)%N; [reflexivity|].
    destruct (r =? 1)%N; [reflexivity|].
    destruct (negb (can_transfer f v (p_snap s))); reflexivity.
  - destruct (c && negb (can_transfer self v s)); [reflexivity|].
    destruct (r =? 0)%N; reflexivity.
  - destruct (negb (can_transfer f v s)); [reflexivity|].
    destruct (r <? 2)%N; [reflexivity|]. unfold frame_end. rewrite H. reflexivity.
Qed.

(* a frame that never moved value (guard failed, or returned early) is neutral as well *)
Theorem unentered_frame_neutral e a s :
  match a with
  | ACall f _ v r _ _ _ => (negb (v =? 0) && negb (can_transfer f v s)) || (r <? 2)%N
  | ACallEtx f v r _ => (negb (v =? 0) && negb (can_transfer f v s)) || (r <? 2)%N
  | ACreate f _ v r _ _ => negb (can_transfer f v s) || (r <? 2)%N
  | _ => false
  end = true -> core (exec e a s) = core s.
Proof.
  destruct a as [f t v r mk body rv|f v r rv|self v c r body rv|f n v r body out|a b|a v f p em|];
    cbn [exec]; intros H; try discriminate.
  - destruct (negb (v =? 0) && negb (can_transfer f v s)); [reflexivity|]. cbn [orb] in H.
    destruct (r =? 0)%N eqn:E0; [reflexivity|].
    destruct (r =? 1)%N eqn:E1; [unfold frame_end; destruct rv; reflexivity|].
    apply N.eqb_neq in E0, E1. apply N.ltb_lt in H. lia.
  - destruct (negb (v =? 0) && negb (can_transfer f v s)); [reflexivity|]. cbn [orb] in H.
    destruct (r =? 0)%N eqn:E0; [reflexivity|].
    destruct (r =? 1)%N eqn:E1; [unfold frame_end; destruct rv; reflexivity|].
    apply N.eqb_neq in E0, E1. apply N.ltb_lt in H. lia.
  - destruct (negb (can_transfer f v s)); [reflexivity|]. cbn [orb] in H. now rewrite H.
Qed.

(* C01 -- a pending block assembled by the worker (processQiTx with its explicit deletedUtxos
   set, reading the committed database only) is accepted by ProcessQiTx. *)
From Coq Require Import List NArith Bool Lia ZifyBool ZifyN.
From GQ Require Import Lib.Key Lib.SMap Generated.C01Params Model.C01 Proofs.C01_View Proofs.C01_Sim
     Proofs.C01_Steps Proofs.C01_Ledger.
Import ListNotations.
Local Open Scope N_scope.

Definition set_gp (a : oacc) (g : N) : oacc :=
  mkOA (oa_idx a) (oa_addrs a) (oa_total a) (oa_conv a) (oa_isconv a) (oa_iswrap a) (oa_caddr a) (oa_dens a)
       (oa_etxs a) (oa_creates a) g (oa_used a) (oa_rgas a) (oa_pgas a).

(* worker order of checks accepted with gas pool gp  ==>  processor order accepted with any larger pool *)
Lemma out_step_worker_proc c rl pl t a o a' : out_step true c rl pl t a o = Ok a' ->
  forall g, oa_gp a <= g ->
  exists g', out_step false c rl pl t (set_gp a g) o = Ok (set_gp a' g') /\ oa_gp a' <= g'.
Proof.
  destruct a as [idx addrs total conv isconv iswrap caddr dens etxs creates gp used rgas pgas].
  unfold out_step, out_emit, set_gp. cbv zeta.
  cbn [oa_idx oa_addrs oa_total oa_conv oa_isconv oa_iswrap oa_caddr oa_dens oa_etxs oa_creates oa_gp oa_used oa_rgas oa_pgas].
  intros H g Hg. revert H.
  repeat match goal with
         | |- context[if ?b then _ else _] => destruct b eqn:?
         end;
    intros H; try discriminate; inversion H; subst a'; clear H;
    cbn [oa_idx oa_addrs oa_total oa_conv oa_isconv oa_iswrap oa_caddr oa_dens oa_etxs oa_creates oa_gp oa_used oa_rgas oa_pgas];
    try lia;
    eexists; (split; [reflexivity|lia]).
Qed.

Lemma set_gp_gp a g : oa_gp (set_gp a g) = g.
Proof. reflexivity. Qed.
Lemma set_gp_set a g g' : set_gp (set_gp a g) g' = set_gp a g'.
Proof. reflexivity. Qed.

Lemma out_loop_worker_proc c rl pl t outs : forall a a', out_loop true c rl pl t a outs = Ok a' ->
  forall g, oa_gp a <= g ->
  exists g', out_loop false c rl pl t (set_gp a g) outs = Ok (set_gp a' g') /\ oa_gp a' <= g'.
Proof.
  induction outs as [|o r IH]; intros a a' H g Hg; cbn [out_loop] in *.
  - inversion H; subst. exists g. split; [reflexivity|exact Hg].
  - destruct (out_step true c rl pl t a o) as [a1|] eqn:E; [|discriminate].
    destruct (out_step_worker_proc _ _ _ _ _ _ _ E g Hg) as (g1 & E1 & Hg1). rewrite E1.
    destruct (IH _ _ H g1 Hg1) as (g' & E2 & Hg'). exists g'. split; assumption.
Qed.

Definition set_pgp (p : pres) (g : N) : pres :=
  mkPR (p_fee p) (p_etxs p) (p_creates p) g (p_used p) (p_rgas p) (p_pgas p) (p_outdens p)
       (p_total_out p) (p_conv p) (p_isconv p) (p_iswrap p).

Lemma post_inputs_worker_proc c rl pl t gp used addrs tot p :
  post_inputs true c rl pl t gp used addrs tot = Ok p ->
  forall g, gp <= g ->
  exists g', post_inputs false c rl pl t g used addrs tot = Ok (set_pgp p g') /\ p_gp p <= g'.
Proof.
  unfold post_inputs. intros H g Hg.
  destruct (out_loop true c rl pl t (mkOA 0 addrs 0 0 false false [] [] [] [] gp used 0 0) (t_outs t)) as [a|] eqn:E; [|discriminate].
  destruct (out_loop_worker_proc _ _ _ _ _ _ _ E g Hg) as (g1 & E1 & Hg1).
  unfold set_gp in E1 at 1. cbn [oa_idx oa_addrs oa_total oa_conv oa_isconv oa_iswrap oa_caddr oa_dens oa_etxs oa_creates oa_gp oa_used oa_rgas oa_pgas] in E1.
  rewrite E1. clear E E1.
  destruct a as [idx addrs' total conv isconv iswrap caddr dens etxs creates gpa useda rgas pgas].
  unfold set_gp, set_pgp. cbv zeta.
  cbn [oa_idx oa_addrs oa_total oa_conv oa_isconv oa_iswrap oa_caddr oa_dens oa_etxs oa_creates oa_gp oa_used oa_rgas oa_pgas] in *.
  revert H.
  repeat match goal with
         | |- context[if ?b then _ else _] => destruct b eqn:?
         end;
    intros H; try discriminate; inversion H; subst p; clear H;
    cbn [p_fee p_etxs p_creates p_gp p_used p_rgas p_pgas p_outdens p_total_out p_conv p_isconv p_iswrap];
    try lia;
    eexists; (split; [reflexivity|lia]).
Qed.

(* a failing worker step never returns more gas than it was given *)
Lemma out_step_err_gp w c rl pl t a o e g : out_step w c rl pl t a o = Err e g -> g <= oa_gp a.
Proof.
  unfold out_step, out_emit. cbv zeta.
  cbn [oa_idx oa_addrs oa_total oa_conv oa_isconv oa_iswrap oa_caddr oa_dens oa_etxs oa_creates oa_gp oa_used oa_rgas oa_pgas].
  repeat match goal with
         | |- context[if ?b then _ else _] => destruct b eqn:?
         end;
    intros H; try discriminate; inversion H; subst; lia.
Qed.

Lemma out_loop_err_gp w c rl pl t outs : forall a e g, out_loop w c rl pl t a outs = Err e g -> g <= oa_gp a.
Proof.
  induction outs as [|o r IH]; intros a e g H; cbn [out_loop] in H; [discriminate|].
  destruct (out_step w c rl pl t a o) as [a1|e1 g1] eqn:E.
  - apply out_step_measure in E as (_ & _ & Hg & _). apply IH in H. lia.
  - inversion H; subst. eapply out_step_err_gp; eauto.
Qed.

Lemma post_inputs_err_gp w c rl pl t gp used addrs tot e g :
  post_inputs w c rl pl t gp used addrs tot = Err e g -> g <= gp.
Proof.
  unfold post_inputs.
  destruct (out_loop w c rl pl t (mkOA 0 addrs 0 0 false false [] [] [] [] gp used 0 0) (t_outs t)) as [a|e1 g1] eqn:E.
  - apply out_loop_measure in E as (_ & _ & Hg & _). cbn [oa_gp] in Hg. cbv zeta.
    repeat match goal with
           | |- context[if ?b then _ else _] => destruct b eqn:?
           end;
      intros H; try discriminate; inversion H; subst; lia.
  - apply out_loop_err_gp in E. cbn [oa_gp] in E. intros H; inversion H; subst; exact E.
Qed.

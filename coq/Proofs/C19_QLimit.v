(* C19 -- truncateQueue re-establishes the GlobalQueue bound, whatever the eviction order,
   as long as the order lists every account that has queued transactions. *)
From Coq Require Import List NArith PeanoNat Bool Lia ZifyBool ZifyNat ZifyN.
From GQ Require Import Model.C19 Proofs.C19_Lists Proofs.C19_Struct Proofs.C19_Ops Proofs.C19_State Proofs.C19_Contig.
Import ListNotations.
Local Open Scope N_scope.

(* ---------- well-formed maps: one entry per account ---------- *)
Definition wf (m : amap) : Prop := NoDup (akeys m).

Lemma akeys_adel a m : akeys (adel a m) = filter (fun b => negb (b =? a)) (akeys m).
Proof.
  unfold akeys. induction m as [|[k l] r IH]; cbn; [reflexivity|]. destruct (k =? a) eqn:E; cbn; [exact IH|]. rewrite IH. reflexivity.
Qed.
Lemma wf_adel a m : wf m -> wf (adel a m).
Proof. unfold wf. rewrite akeys_adel. apply nodup_filter. Qed.
Lemma notin_adel a m : ~ In a (akeys (adel a m)).
Proof. rewrite akeys_adel. intros H. apply filter_In in H as [_ H]. rewrite N.eqb_refl in H. discriminate. Qed.
Lemma wf_aset a l m : wf m -> wf (aset a l m).
Proof.
  intros H. unfold aset. destruct l; [apply wf_adel; exact H|]. unfold wf. cbn. constructor; [apply notin_adel|apply wf_adel; exact H].
Qed.

Lemma atotal_adel a m : wf m -> atotal (adel a m) + len (aget a m) = atotal m.
Proof.
  unfold wf. induction m as [|[k l] r IH]; cbn; [intros _; unfold len; cbn; lia|].
  intros H. inversion H as [|? ? Hn Hd]; subst. destruct (k =? a) eqn:E.
  - assert (k = a) by lia. subst k. assert (Er : adel a r = r).
    { clear - Hn. induction r as [|[k2 l2] r IH]; cbn; [reflexivity|]. cbn in Hn. destruct (k2 =? a) eqn:E; [exfalso; apply Hn; left; lia|].
      f_equal. apply IH. tauto. }
    rewrite Er. unfold atotal. lia.
  - cbn [fold_right snd]. specialize (IH Hd). unfold atotal in IH. lia.
Qed.
Lemma atotal_aset a l m : wf m -> atotal (aset a l m) + len (aget a m) = atotal m + len l.
Proof.
  intros H. pose proof (atotal_adel a m H) as E. unfold aset. destruct l as [|x r]; [unfold len at 2; cbn [length]; lia|].
  unfold atotal in *. cbn [fold_right snd]. lia.
Qed.

(* ---------- the queue map stays well formed ---------- *)
Definition wfq (p : pool) : Prop := wf (p_queue p).
Lemma wfq_same p q : p_queue q = p_queue p -> wfq p -> wfq q.
Proof. unfold wfq. intros ->. auto. Qed.
Lemma wfq_set_queue a l p : wfq p -> wfq (set_queue a l p).
Proof. apply wf_aset. Qed.
Lemma wfq_removed n p : wfq p -> wfq (removed n p).
Proof. apply wfq_same. apply removed_fields. Qed.
Lemma wfq_all_remove_list D p : wfq p -> wfq (all_remove_list D p).
Proof. apply wfq_same. apply all_remove_list_fields. Qed.
Lemma wfq_requeue c x p : wfq p -> wfq (requeue c x p).
Proof.
  intros H. unfold requeue, enqueue_tx. destruct (l_add _ _ _) as [[q' [o|]]|]; cbn [fst]; [| |exact H].
  - apply wfq_removed. apply (wfq_same (set_queue (t_from x) q' p)); [reflexivity|]. apply wfq_set_queue, H.
  - apply wfq_set_queue, H.
Qed.
Lemma wfq_fold {A} (f : pool -> A -> pool) l p : (forall x q, wfq q -> wfq (f q x)) -> wfq p -> wfq (fold_left f l p).
Proof. intros Hf. revert p. induction l as [|x l IH]; intros p H; cbn; [exact H|]. apply IH, Hf, H. Qed.
Lemma wfq_remove_tx c t ob p : wfq p -> wfq (remove_tx c t ob p).
Proof.
  intros H. unfold remove_tx. destruct (negb _); [exact H|].
  assert (H2 : wfq (if ob then removed 1 (all_remove t p) else all_remove t p)).
  { destruct ob; [apply wfq_removed|]; exact H. }
  destruct (l_get _ _).
  - destruct (l_remove_strict _ _) as [invalids pl'].
    apply (wfq_same (fold_left (fun s x => requeue c x s) invalids (set_pend (t_from t) pl' (if ob then removed 1 (all_remove t p) else all_remove t p)))).
    + unfold pn_set_if_lower. destruct (_ <=? _); reflexivity.
    + apply wfq_fold; [intros x q Hq; apply wfq_requeue; exact Hq|exact H2].
  - apply wfq_set_queue, H2.
Qed.

(* ---------- one removal of a queued transaction ---------- *)
Lemma len_l_remove n l t : sorted l -> In t l -> t_nonce t = n -> len (l_remove n l) + 1 = len l.
Proof.
  intros Hs Ht En. induction l as [|y r IH]; [destruct Ht|]. cbn in Hs. destruct Hs as [Hlt Hs]. unfold l_remove. cbn [filter].
  destruct Ht as [->|Ht].
  - assert (E : t_nonce t =? n = true) by lia. rewrite E. cbn [negb].
    rewrite filter_all; [unfold len; cbn [length]; lia|]. intros x Hx. specialize (Hlt _ Hx). lia.
  - assert (E : t_nonce y =? n = false) by (specialize (Hlt _ Ht); lia). rewrite E. cbn [negb].
    fold (l_remove n r). specialize (IH Hs Ht). unfold len in *. cbn [length]. lia.
Qed.

Lemma remove_queued c t p :
  Inv0 p -> wfq p -> In t (aget (t_from t) (p_queue p)) ->
  let p' := remove_tx c t true p in
  atotal (p_queue p') + 1 = atotal (p_queue p) /\
  aget (t_from t) (p_queue p') = l_remove (t_nonce t) (aget (t_from t) (p_queue p)) /\
  (forall b, b <> t_from t -> aget b (p_queue p') = aget b (p_queue p)).
Proof.
  intros H0 Hw Ht. cbn zeta. unfold remove_tx. set (a := t_from t) in *.
  pose proof (inv0_any a _ H0) as H.
  assert (Eh : all_has t p = true). { apply all_has_in. apply (ir_all _ _ _ H). fold a. auto. }
  rewrite Eh. cbn [negb].
  set (p2 := removed 1 (all_remove t p)).
  assert (F : p_pend p2 = p_pend p /\ p_queue p2 = p_queue p).
  { unfold p2. destruct (removed_fields 1 (all_remove t p)) as [A [B _]]. rewrite A, B. auto. }
  destruct F as [Fp Fq]. rewrite Fp.
  assert (Eg : l_get (t_nonce t) (aget a (p_pend p)) = None).
  { apply l_get_none. intros x Hx E. apply (ir_disj _ _ _ H a x t); auto. }
  rewrite Eg. psimpl. rewrite Fq. split; [|split].
  - pose proof (atotal_aset a (l_remove (t_nonce t) (aget a (p_queue p))) (p_queue p) Hw) as E1.
    pose proof (len_l_remove (t_nonce t) _ t (proj1 (ir_queue _ _ _ H a)) Ht eq_refl) as E2. lia.
  - apply aget_aset_same.
  - intros b Hb. apply aget_aset_other. auto.
Qed.

Lemma fold_remove_queued c a L p :
  Inv0 p -> wfq p -> NoDup L -> (forall t, In t L -> In t (aget a (p_queue p)) /\ t_from t = a) ->
  let p' := fold_left (fun s t => remove_tx c t true s) L p in
  Inv0 p' /\ wfq p' /\ atotal (p_queue p') + len L = atotal (p_queue p) /\
  (forall x, In x (aget a (p_queue p')) <-> In x (aget a (p_queue p)) /\ ~ In x L) /\
  (forall b, b <> a -> aget b (p_queue p') = aget b (p_queue p)).
Proof.
  revert p. induction L as [|t L IH]; intros p H0 Hw Hnd HL; cbn [fold_left]; cbn zeta.
  - repeat split; auto; unfold len; cbn; try lia; tauto.
  - inversion Hnd as [|? ? Hn Hd]; subst. destruct (HL t (or_introl eq_refl)) as [Ht Ea].
    rewrite <- Ea in Ht. destruct (remove_queued c t p H0 Hw Ht) as [E1 [E2 E3]]. cbn zeta in *. rewrite Ea in *.
    set (p1 := remove_tx c t true p) in *.
    assert (H1 : Inv0 p1) by (apply remove_tx_inv0; exact H0).
    assert (Hw1 : wfq p1) by (apply wfq_remove_tx; exact Hw).
    pose proof (inv0_any a _ H0) as H.
    assert (HL1 : forall x, In x L -> In x (aget a (p_queue p1)) /\ t_from x = a).
    { intros x Hx. destruct (HL x (or_intror Hx)) as [Hq Hf]. split; [|exact Hf]. rewrite E2. apply l_remove_in. split; [exact Hq|].
      intros En. assert (x = t). { apply (sorted_nonce_inj (aget a (p_queue p))); auto. apply (ir_queue _ _ _ H a). } subst. auto. }
    destruct (IH p1 H1 Hw1 Hd HL1) as [A [B [C [D E]]]]. cbn zeta in *.
    split; [exact A|]. split; [exact B|]. split; [unfold len in *; cbn [length]; lia|]. split.
    + intros x. rewrite D, E2, l_remove_in. cbn [In]. split.
      * intros [[Hx Hne] Hnl]. split; [exact Hx|]. intros [<-|Hl]; [apply Hne; reflexivity|auto].
      * intros [Hx Hnl]. split; [split; [exact Hx|]|tauto].
        intros En. apply Hnl. left. apply (sorted_nonce_inj (aget a (p_queue p))); auto. apply (ir_queue _ _ _ H a).
    + intros b Hb. rewrite E by auto. apply E3. auto.
Qed.

Lemma all_empty_total m : wf m -> (forall b, aget b m = []) -> atotal m = 0.
Proof.
  unfold wf. induction m as [|[k l] r IH]; cbn; [reflexivity|]. intros Hn Hall. inversion Hn as [|? ? Hk Hd]; subst.
  pose proof (Hall k) as Ek. cbn in Ek. rewrite N.eqb_refl in Ek. subst l. unfold len at 1. cbn. apply IH; auto.
  intros b. specialize (Hall b). cbn in Hall. destruct (k =? b) eqn:E; [|exact Hall].
  assert (b = k) by lia. subst. apply aget_notin. exact Hk.
Qed.

Lemma tq_loop_total c order : forall drop p,
  Inv0 p -> wfq p -> drop <= atotal (p_queue p) -> (forall b, aget b (p_queue p) <> [] -> In b order) ->
  atotal (p_queue (tq_loop c order drop p)) + drop = atotal (p_queue p).
Proof.
  induction order as [|a rest IH]; intros drop p H0 Hw Hle Hcov; cbn [tq_loop].
  - assert (atotal (p_queue p) = 0).
    { apply all_empty_total; [exact Hw|]. intros b. destruct (aget b (p_queue p)) eqn:E; [reflexivity|]. exfalso. apply (Hcov b). rewrite E. discriminate. }
    lia.
  - destruct (drop =? 0) eqn:E0; [lia|].
    pose proof (inv0_any a _ H0) as H. pose proof (ir_queue _ _ _ H a) as [Sq Oq].
    set (l := aget a (p_queue p)) in *.
    destruct (len l <=? drop) eqn:El.
    + destruct (fold_remove_queued c a l p H0 Hw (sorted_nodup _ Sq)) as [A [B [C [D E]]]]; [intros t Ht; split; [exact Ht|apply Oq; exact Ht]|].
      cbn zeta in *. set (p1 := fold_left (fun s t => remove_tx c t true s) l p) in *.
      assert (Ea : aget a (p_queue p1) = []).
      { destruct (aget a (p_queue p1)) as [|x r] eqn:Ex; [reflexivity|]. exfalso. assert (In x (x :: r)) by (left; reflexivity). apply D in H1. tauto. }
      assert (Hx : atotal (p_queue (tq_loop c rest (drop - len l) p1)) + (drop - len l) = atotal (p_queue p1)).
      { apply IH; auto; [lia|]. intros b Hb. destruct (N.eq_dec b a) as [->|Hne]; [congruence|].
        rewrite E in Hb by auto. destruct (Hcov b Hb) as [<-|Hin]; [congruence|exact Hin]. }
      lia.
    + set (L := firstn (N.to_nat drop) (rev l)).
      assert (HL : forall t, In t L -> In t l /\ t_from t = a).
      { intros t Ht. assert (In t (rev l)) by (eapply firstn_In_sub; eauto). apply in_rev in H1. split; [exact H1|apply Oq; exact H1]. }
      assert (Hnd : NoDup L).
      { unfold L. apply nodup_firstn. apply NoDup_rev. apply sorted_nodup. exact Sq. }
      destruct (fold_remove_queued c a L p H0 Hw Hnd HL) as [_ [_ [C _]]]. cbn zeta in C.
      assert (len L = drop).
      { unfold L, len. rewrite firstn_length, rev_length. unfold len in El. lia. }
      lia.
Qed.

(* C19 -- truncateQueue re-establishes the GlobalQueue bound, whatever the eviction order,
   as long as the order lists every account that has queued transactions. *)
From Coq Require Import List NArith PeanoNat Bool Lia ZifyBool ZifyNat ZifyN.
From GQ Require Import Model.C19 Proofs.C19_Lists Proofs.C19_Struct Proofs.C19_Ops Proofs.C19_State Proofs.C19_Contig.
Import ListNotations.
Local Open Scope N_scope.

(* ---------- well-formed maps: one entry per account ---------- *)
Definition wf (m : amap) : Prop := NoDup (akeys m).

Lemma akeys_adel a m : akeys (adel a m) = filter (fun b => negb (b =? a)) (akeys m).
Proof.
  unfold akeys. induction m as [|[k l] r IH]; cbn; [reflexivity|]. destruct (k =? a) eqn:E; cbn; [exact IH|]. rewrite IH. reflexivity.
Qed.
Lemma wf_adel a m : wf m -> wf (adel a m).
Proof. unfold wf. rewrite akeys_adel. apply nodup_filter. Qed.
Lemma notin_adel a m : ~ In a (akeys (adel a m)).
Proof. rewrite akeys_adel. intros H. apply filter_In in H as [_ H]. rewrite N.eqb_refl in H. discriminate. Qed.
Lemma wf_aset a l m : wf m -> wf (aset a l m).
Proof.
  intros H. unfold aset. destruct l; [apply wf_adel; exact H|]. unfold wf. cbn. constructor; [apply notin_adel|apply wf_adel; exact H].
Qed.

Lemma atotal_adel a m : wf m -> atotal (adel a m) + len (aget a m) = atotal m.
Proof.
  unfold wf. induction m as [|[k l] r IH]; cbn; [intros _; unfold len; cbn; lia|].
  intros H. inversion H as [|? ? Hn Hd]; subst. destruct (k =? a) eqn:E.
  - assert (k = a) by lia. subst k. assert (Er : adel a r = r).
    { clear - Hn. induction r as [|[k2 l2] r IH]; cbn; [reflexivity|]. cbn in Hn. destruct (k2 =? a) eqn:E; [exfalso; apply Hn; left; lia|].
      f_equal. apply IH. tauto. }
    rewrite Er. unfold atotal. lia.
  - cbn [fold_right snd]. specialize (IH Hd). unfold atotal in IH. lia.
Qed.
Lemma atotal_aset a l m : wf m -> atotal (aset a l m) + len (aget a m) = atotal m + len l.
Proof.
  intros H. pose proof (atotal_adel a m H) as E. unfold aset. destruct l as [|x r]; [unfold len at 2; cbn [length]; lia|].
  unfold atotal in *. cbn [fold_right snd]. lia.
Qed.

(* ---------- the queue map stays well formed ---------- *)
Definition wfq (p : pool) : Prop := wf (p_queue p).
Lemma wfq_same p q : p_queue q = p_queue p -> wfq p -> wfq q.
Proof. unfold wfq. intros ->. auto. Qed.
Lemma wfq_set_queue a l p : wfq p -> wfq (set_queue a l p).
Proof. apply wf_aset. Qed.
Lemma wfq_removed n p : wfq p -> wfq (removed n p).
Proof. apply wfq_same. apply removed_fields. Qed.
Lemma wfq_all_remove_list D p : wfq p -> wfq (all_remove_list D p).
Proof. apply wfq_same. apply all_remove_list_fields. Qed.
Lemma wfq_requeue c x p : wfq p -> wfq (requeue c x p).
Proof.
  intros H. unfold requeue, enqueue_tx. destruct (l_add _ _ _) as [[q' [o|]]|]; cbn [fst]; [| |exact H].
  - apply wfq_removed. apply (wfq_same (set_queue (t_from x) q' p)); [reflexivity|]. apply wfq_set_queue, H.
  - apply wfq_set_queue, H.
Qed.
Lemma wfq_fold {A} (f : pool -> A -> pool) l p : (forall x q, wfq q -> wfq (f q x)) -> wfq p -> wfq (fold_left f l p).
Proof. intros Hf. revert p. induction l as [|x l IH]; intros p H; cbn; [exact H|]. apply IH, Hf, H. Qed.
Lemma wfq_remove_tx c t ob p : wfq p -> wfq (remove_tx c t ob p).
Proof.
  intros H. unfold remove_tx. destruct (negb _); [exact H|].
  assert (H2 : wfq (if ob then removed 1 (all_remove t p) else all_remove t p)).
  { destruct ob; [apply wfq_removed|]; exact H. }
  destruct (l_get _ _).
  - destruct (l_remove_strict _ _) as [invalids pl'].
    apply (wfq_same (fold_left (fun s x => requeue c x s) invalids (set_pend (t_from t) pl' (if ob then removed 1 (all_remove t p) else all_remove t p)))).
    + unfold pn_set_if_lower. destruct (_ <=? _); reflexivity.
    + apply wfq_fold; [intros x q Hq; apply wfq_requeue; exact Hq|exact H2].
  - apply wfq_set_queue, H2.
Qed.

(* ---------- one removal of a queued transaction ---------- *)
Lemma len_l_remove n l t : sorted l -> In t l -> t_nonce t = n -> len (l_remove n l) + 1 = len l.
Proof.
  intros Hs Ht En. induction l as [|y r IH]; [destruct Ht|]. cbn in Hs. destruct Hs as [Hlt Hs]. unfold l_remove. cbn [filter].
  destruct Ht as [->|Ht].
  - assert (E : t_nonce t =? n = true) by lia. rewrite E. cbn [negb].
    rewrite filter_all; [unfold len; cbn [length]; lia|]. intros x Hx. specialize (Hlt _ Hx). lia.
  - assert (E : t_nonce y =? n = false) by (specialize (Hlt _ Ht); lia). rewrite E. cbn [negb].
    fold (l_remove n r). specialize (IH Hs Ht). unfold len in *. cbn [length]. lia.
Qed.

Lemma remove_queued c t p :
  Inv0 p -> wfq p -> In t (aget (t_from t) (p_queue p)) ->
  let p' := remove_tx c t true p in
  atotal (p_queue p') + 1 = atotal (p_queue p) /\
  aget (t_from t) (p_queue p') = l_remove (t_nonce t) (aget (t_from t) (p_queue p)) /\
  (forall b, b <> t_from t -> aget b (p_queue p') = aget b (p_queue p)).
Proof.
  intros H0 Hw Ht. cbn zeta. unfold remove_tx. set (a := t_from t) in *.
  pose proof (inv0_any a _ H0) as H.
  assert (Eh : all_has t p = true). { apply all_has_in. apply (ir_all _ _ _ H). fold a. auto. }
  rewrite Eh. cbn [negb].
  set (p2 := removed 1 (all_remove t p)).
  assert (F : p_pend p2 = p_pend p /\ p_queue p2 = p_queue p).
  { unfold p2. destruct (removed_fields 1 (all_remove t p)) as [A [B _]]. rewrite A, B. auto. }
  destruct F as [Fp Fq]. rewrite Fp.
  assert (Eg : l_get (t_nonce t) (aget a (p_pend p)) = None).
  { apply l_get_none. intros x Hx E. apply (ir_disj _ _ _ H a x t); auto. }
  rewrite Eg. psimpl. rewrite Fq. split; [|split].
  - pose proof (atotal_aset a (l_remove (t_nonce t) (aget a (p_queue p))) (p_queue p) Hw) as E1.
    pose proof (len_l_remove (t_nonce t) _ t (proj1 (ir_queue _ _ _ H a)) Ht eq_refl) as E2. lia.
  - apply aget_aset_same.
  - intros b Hb. apply aget_aset_other. auto.
Qed.

Lemma fold_remove_queued c a L p :
  Inv0 p -> wfq p -> NoDup L -> (forall t, In t L -> In t (aget a (p_queue p)) /\ t_from t = a) ->
  let p' := fold_left (fun s t => remove_tx c t true s) L p in
  Inv0 p' /\ wfq p' /\ atotal (p_queue p') + len L = atotal (p_queue p) /\
  (forall x, In x (aget a (p_queue p')) <-> In x (aget a (p_queue p)) /\ ~ In x L) /\
  (forall b, b <> a -> aget b (p_queue p') = aget b (p_queue p)).
Proof.
  revert p. induction L as [|t L IH]; intros p H0 Hw Hnd HL; cbn [fold_left]; cbn zeta.
  - split; [exact H0|]. split; [exact Hw|]. split; [unfold len; cbn; lia|]. split; [intros x; cbn; tauto|reflexivity].
  - inversion Hnd as [|? ? Hn Hd]; subst. destruct (HL t (or_introl eq_refl)) as [Ht Ea].
    rewrite <- Ea in Ht. destruct (remove_queued c t p H0 Hw Ht) as [E1 [E2 E3]]. cbn zeta in *. rewrite Ea in *.
    set (p1 := remove_tx c t true p) in *.
    assert (H1 : Inv0 p1) by (apply remove_tx_inv0; exact H0).
    assert (Hw1 : wfq p1) by (apply wfq_remove_tx; exact Hw).
    pose proof (inv0_any a _ H0) as H.
    assert (HL1 : forall x, In x L -> In x (aget a (p_queue p1)) /\ t_from x = a).
    { intros x Hx. destruct (HL x (or_intror Hx)) as [Hq Hf]. split; [|exact Hf]. rewrite E2. apply l_remove_in. split; [exact Hq|].
      intros En. assert (x = t). { apply (sorted_nonce_inj (aget a (p_queue p))); auto. apply (ir_queue _ _ _ H a). } subst. auto. }
    destruct (IH p1 H1 Hw1 Hd HL1) as [A [B [C [D E]]]]. cbn zeta in *.
    split; [exact A|]. split; [exact B|]. split; [unfold len in *; cbn [length]; lia|]. split.
    + intros x. rewrite D, E2, l_remove_in. cbn [In]. split.
      * intros [[Hx Hne] Hnl]. split; [exact Hx|]. intros [<-|Hl]; [apply Hne; reflexivity|auto].
      * intros [Hx Hnl]. split; [split; [exact Hx|]|tauto].
        intros En. apply Hnl. left. apply (sorted_nonce_inj (aget a (p_queue p))); auto. apply (ir_queue _ _ _ H a).
    + intros b Hb. rewrite E by auto. apply E3. auto.
Qed.

Lemma firstn_In_sub {A} n (l : list A) x : In x (firstn n l) -> In x l.
Proof. intros H. rewrite <- (firstn_skipn n l). apply in_or_app. left; exact H. Qed.
Lemma nodup_firstn {A} n (l : list A) : NoDup l -> NoDup (firstn n l).
Proof.
  revert n. induction l as [|y r IH]; intros n H; destruct n; cbn; try constructor.
  - inversion H; subst. intros Hin. apply firstn_In_sub in Hin. auto.
  - inversion H; subst. apply IH. assumption.
Qed.
Lemma nodup_rev {A} (l : list A) : NoDup l -> NoDup (rev l).
Proof.
  induction l as [|y r IH]; cbn; [auto|]. intros H. inversion H; subst. apply nodup_app; auto.
  - constructor; [intros []|constructor].
  - intros x Hx [<-|[]]. apply in_rev in Hx. auto.
Qed.

Lemma all_empty_total m : wf m -> (forall b, aget b m = []) -> atotal m = 0.
Proof.
  unfold wf. induction m as [|[k l] r IH]; cbn; [reflexivity|]. intros Hn Hall. inversion Hn as [|? ? Hk Hd]; subst.
  pose proof (Hall k) as Ek. cbn in Ek. rewrite N.eqb_refl in Ek. subst l. unfold len at 1. cbn. apply IH; auto.
  intros b. specialize (Hall b). cbn in Hall. destruct (k =? b) eqn:E; [|exact Hall].
  assert (b = k) by lia. subst. apply aget_notin. exact Hk.
Qed.

Lemma tq_loop_total c order : forall drop p,
  Inv0 p -> wfq p -> drop <= atotal (p_queue p) -> (forall b, aget b (p_queue p) <> [] -> In b order) ->
  atotal (p_queue (tq_loop c order drop p)) + drop = atotal (p_queue p).
Proof.
  induction order as [|a rest IH]; intros drop p H0 Hw Hle Hcov; cbn [tq_loop].
  - assert (atotal (p_queue p) = 0).
    { apply all_empty_total; [exact Hw|]. intros b. destruct (aget b (p_queue p)) eqn:E; [reflexivity|]. exfalso. apply (Hcov b). rewrite E. discriminate. }
    lia.
  - destruct (drop =? 0) eqn:E0; [lia|].
    pose proof (inv0_any a _ H0) as H. pose proof (ir_queue _ _ _ H a) as [Sq Oq].
    set (l := aget a (p_queue p)) in *.
    destruct (len l <=? drop) eqn:El.
    + destruct (fold_remove_queued c a l p H0 Hw (sorted_nodup _ Sq)) as [A [B [C [D E]]]]; [intros t Ht; split; [exact Ht|apply Oq; exact Ht]|].
      cbn zeta in *. set (p1 := fold_left (fun s t => remove_tx c t true s) l p) in *.
      assert (Ea : aget a (p_queue p1) = []).
      { destruct (aget a (p_queue p1)) as [|x r] eqn:Ex; [reflexivity|]. exfalso. assert (In x (x :: r)) by (left; reflexivity). apply D in H1. tauto. }
      assert (Hx : atotal (p_queue (tq_loop c rest (drop - len l) p1)) + (drop - len l) = atotal (p_queue p1)).
      { apply IH; auto; [lia|]. intros b Hb. destruct (N.eq_dec b a) as [->|Hne]; [congruence|].
        rewrite E in Hb by auto. destruct (Hcov b Hb) as [<-|Hin]; [congruence|exact Hin]. }
      lia.
    + set (L := firstn (N.to_nat drop) (rev l)).
      assert (HL : forall t, In t L -> In t l /\ t_from t = a).
      { intros t Ht. assert (In t (rev l)) by (eapply firstn_In_sub; eauto). apply in_rev in H1. split; [exact H1|apply Oq; exact H1]. }
      assert (Hnd : NoDup L).
      { unfold L. apply nodup_firstn. apply nodup_rev. apply sorted_nodup. exact Sq. }
      destruct (fold_remove_queued c a L p H0 Hw Hnd HL) as [_ [_ [C _]]]. cbn zeta in C.
      assert (len L = drop).
      { unfold L, len. rewrite firstn_length, rev_length. unfold len in El. lia. }
      lia.
Qed.

Lemma truncate_queue_bound c order p :
  Inv0 p -> wfq p -> (forall b, aget b (p_queue p) <> [] -> In b order) ->
  atotal (p_queue (truncate_queue c order p)) <= c_gqueue c.
Proof.
  intros H0 Hw Hcov. unfold truncate_queue. destruct (atotal (p_queue p) <=? c_gqueue c) eqn:E; [lia|].
  pose proof (tq_loop_total c order (atotal (p_queue p) - c_gqueue c) p H0 Hw) as X.
  assert (atotal (p_queue p) - c_gqueue c <= atotal (p_queue p)) by lia. specialize (X H Hcov). lia.
Qed.

(* ---------- the queue map of every reachable state is well formed ---------- *)
Lemma wfq_promote_tx c a x p : wfq p -> wfq (promote_tx c a x p).
Proof. apply wfq_same. apply promote_tx_fields. Qed.
Lemma wfq_promote_one c a p : wfq p -> wfq (promote_one c a p).
Proof.
  intros H. unfold promote_one. destruct (aget a (p_queue p)) as [|q0 qr]; [exact H|].
  destruct (l_forward _ _) as [fw q1]. destruct (l_filter _ _ _ _) as [[drops inv] q2].
  destruct (l_ready _ _) as [readies q3]. destruct (l_cap _ _) as [caps q4].
  apply wfq_removed, wfq_all_remove_list, wfq_set_queue.
  apply wfq_fold; [intros x q Hq; apply wfq_promote_tx; exact Hq|].
  apply wfq_set_queue, wfq_all_remove_list, wfq_set_queue, wfq_all_remove_list, wfq_set_queue, H.
Qed.
Lemma wfq_demote_one c a p : wfq p -> wfq (demote_one c a p).
Proof.
  intros H. unfold demote_one. destruct (l_forward _ _) as [olds l1]. destruct (l_filter _ _ _ _) as [[drops invalids] l2].
  assert (H4 : wfq (fold_left (fun s t => requeue c t s) invalids (all_remove_list drops (set_pend a l2 (all_remove_list olds (set_pend a l1 p)))))).
  { apply wfq_fold; [intros x q Hq; apply wfq_requeue; exact Hq|]. apply wfq_all_remove_list.
    apply (wfq_same (all_remove_list olds (set_pend a l1 p))); [reflexivity|]. apply wfq_all_remove_list. exact H. }
  destruct l2 as [|y l2']; [exact H4|]. destruct (l_get _ _); [exact H4|].
  apply wfq_fold; [intros x q Hq; apply wfq_requeue; exact Hq|]. exact H4.
Qed.
Lemma wfq_drop_last a p : wfq p -> wfq (drop_last a p).
Proof.
  intros H. unfold drop_last. destruct (rev _); [exact H|]. apply wfq_removed.
  apply (wfq_same p); [|exact H]. unfold pn_set_if_lower. destruct (_ <=? _); reflexivity.
Qed.
Lemma wfq_add c t loc p : wfq p -> wfq (fst (fst (add c t loc p))).
Proof.
  intros H. unfold add. destruct (all_has t p); [exact H|]. destruct (validate p t); [exact H|].
  destruct (_ <? _); [exact H|].
  destruct (l_get _ _).
  - destruct (l_add _ _ _) as [[pl' [o|]]|]; cbn [fst]; [| |exact H].
    + apply (wfq_same (removed 1 (all_remove o (set_pend (t_from t) pl' p)))); [unfold heap_put; destruct (_ || _); reflexivity|]. apply wfq_removed. exact H.
    + apply (wfq_same p); [unfold heap_put; destruct (_ || _); reflexivity|exact H].
  - unfold enqueue_tx. destruct (l_add _ _ _) as [[q' old]|]; [|exact H].
    match goal with |- wfq (fst (fst (if ?b then _ else ?p1, _, _))) => assert (H1 : wfq p1) end.
    { match goal with |- wfq (heap_put ?t ?l ?q) => apply (wfq_same q); [unfold heap_put; destruct l; reflexivity|] end.
      apply (wfq_same (match old with Some o => removed 1 (all_remove o (set_queue (t_from t) q' p)) | None => set_queue (t_from t) q' p end)); [reflexivity|].
      destruct old; [apply wfq_removed; apply (wfq_same (set_queue (t_from t) q' p)); [reflexivity|]|]; apply wfq_set_queue, H. }
    cbn [fst]. destruct (_ && _); [|exact H1]. unfold remote_to_locals. apply wfq_removed. exact H1.
Qed.
Lemma wfq_add_locked c txs loc p : wfq p -> wfq (fst (fst (add_locked c txs loc p))).
Proof.
  revert p. induction txs as [|t r IH]; intros p H; cbn; [exact H|].
  pose proof (wfq_add c t loc p H) as X. destruct (add c t loc p) as [[p1 v] rep]. cbn [fst] in X.
  specialize (IH p1 X). destruct (add_locked c r loc p1) as [[p2 vs] d]. exact IH.
Qed.
Lemma wfq_fix_nonces p : wfq p -> wfq (fix_nonces p).
Proof.
  unfold fix_nonces. generalize (akeys (p_pend p)) as l. generalize (p_pend p) at 1 as m. intros m l. revert p.
  induction l as [|a l IH]; intros p H; cbn [fold_left]; [exact H|]. cbn beta. apply IH. destruct (rev (aget a m)); exact H.
Qed.
Lemma wfq_run c rs dirty qo p : wfq p -> wfq (run c rs dirty qo p).
Proof.
  intros H. unfold run. apply wfq_fix_nonces.
  apply (truncate_queue_pres wfq); [intros t q Hq; apply wfq_remove_tx; exact Hq|].
  apply (truncate_pending_pres wfq); [intros a q Hq; apply wfq_drop_last; exact Hq|].
  destruct rs as [r|].
  - apply (wfq_same (demote_all c (promote_list c (akeys (p_queue (do_reset c r p))) (do_reset c r p)))); [reflexivity|].
    apply (fold_pres wfq (fun s a => demote_one c a s)); [intros a q Hq; apply wfq_demote_one; exact Hq|].
    apply (fold_pres wfq (fun s a => promote_one c a s)); [intros a q Hq; apply wfq_promote_one; exact Hq|].
    unfold do_reset. pose proof (wfq_add_locked c (reinject r) false (set_pn [] (set_st (r_st r) p)) H) as X.
    destruct (add_locked c (reinject r) false _) as [[p2 vs] d]. exact X.
  - apply (fold_pres wfq (fun s a => promote_one c a s)); [intros a q Hq; apply wfq_promote_one; exact Hq|exact H].
Qed.
Lemma wfq_step c p o qo : wfq p -> wfq (fst (step c p o qo)).
Proof.
  intros H. destruct o as [loc txs|g|r|]; cbn.
  - unfold add_txs. pose proof (wfq_add_locked c (filter (fun t => negb (all_has t p)) txs) loc p H) as X.
    destruct (add_locked c _ loc p) as [[p1 vs] d]. cbn [fst] in *. apply wfq_run. exact X.
  - apply wfq_run. unfold set_gas_price. destruct (_ <? _); [|exact H]. apply wfq_removed.
    apply wfq_fold; [intros x q Hq; apply wfq_remove_tx; exact Hq|exact H].
  - apply wfq_run, H.
  - apply wfq_run, H.
Qed.
Lemma wfq_run_hist c h p : wfq p -> wfq (run_hist c p h).
Proof. revert p. induction h as [|[o qo] h IH]; intros p H; cbn; [exact H|]. apply IH, wfq_step, H. Qed.
Lemma wfq_init pl st : wfq (init pl st).
Proof. constructor. Qed.

(* truncateQueue applied to any reachable state, with any order that lists the queue accounts *)
Lemma queue_limit_lemma c pl st h order :
  let p := run_hist c (init pl st) h in
  (forall b, aget b (p_queue p) <> [] -> In b order) ->
  atotal (p_queue (truncate_queue c order p)) <= c_gqueue c.
Proof.
  intros p Hcov. apply truncate_queue_bound; auto.
  - apply (run_hist_IWT c h (init pl st) (init_IWT pl st)).
  - apply wfq_run_hist. apply wfq_init.
Qed.

Example queue_limit_nonvacuous :
  let c := Cfg 10 16 64 16 2 in
  let p := fst (fst (add_txs c [T 0 1 5 21000 0; T 0 2 5 21000 0; T 1 3 5 21000 0; T 1 4 5 21000 0; T 2 9 5 21000 0] false
                     (init 1 (St [] [(0,1000000000);(1,1000000000);(2,1000000000)] 1 5000000)))) in
  atotal (p_queue p) = 5 /\ atotal (p_queue (truncate_queue c [2;1;0] p)) = 2 /\ atotal (p_queue (truncate_queue c [0;1;2] p)) = 2.
Proof. vm_compute. repeat split. Qed.

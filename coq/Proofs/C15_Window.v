(* C15 — lemmas about the RETURNDATACOPY bounds check of Lib/C15_Window.v *)
From Coq Require Import List NArith Bool String Lia ZifyBool ZifyN.
From GQ Require Import Lib.C15_Row Lib.C15_Window Model.C15.
Import ListNotations.
Local Open Scope N_scope.

Lemma W64_lt_W256 : 2 * W64 <= W256.
Proof. vm_compute. discriminate. Qed.

Lemma W64_pos : 0 < W64.
Proof. vm_compute. reflexivity. Qed.

(* with a dataOffset and a length that are uint64 the 256-bit sum does not wrap *)
Lemma sum_small : forall off len, off < W64 -> len < W64 -> (off + len) mod W256 = off + len.
Proof.
  intros off len Ho Hl. apply N.mod_small. pose proof W64_lt_W256. lia.
Qed.

(* the check decides exactly "dataOffset + length <= len(returnData)" *)
Lemma rdc_window_exact_lemma : forall off len ret,
  len < W64 -> ret < W64 ->
  rdc_window off len ret = if off + len <=? ret then Some (off, off + len) else None.
Proof.
  intros off len ret Hl Hr. unfold rdc_window.
  destruct (W64 <=? off) eqn:E1.
  - apply N.leb_le in E1. destruct (off + len <=? ret) eqn:E2; [apply N.leb_le in E2; lia | reflexivity].
  - apply N.leb_gt in E1. rewrite (sum_small off len E1 Hl). cbv zeta.
    destruct (W64 <=? off + len) eqn:E3.
    + apply N.leb_le in E3. destruct (off + len <=? ret) eqn:E2; [apply N.leb_le in E2; lia | reflexivity].
    + destruct (ret <? off + len) eqn:E4.
      * apply N.ltb_lt in E4. destruct (off + len <=? ret) eqn:E2; [apply N.leb_le in E2; lia | reflexivity].
      * apply N.ltb_ge in E4. destruct (off + len <=? ret) eqn:E2; [reflexivity | apply N.leb_gt in E2; lia].
Qed.

(* every window the check lets through is a valid slice of the return data, and it is the requested one;
   needs NO bound on len(returnData) *)
Lemma rdc_window_in_bounds_lemma : forall off len ret lo hi,
  len < W64 ->
  rdc_window off len ret = Some (lo, hi) ->
  lo = off /\ hi = off + len /\ slice_ok ret lo hi = true.
Proof.
  intros off len ret lo hi Hl. unfold rdc_window.
  destruct (W64 <=? off) eqn:E1; [discriminate|].
  apply N.leb_gt in E1. rewrite (sum_small off len E1 Hl). cbv zeta.
  destruct (W64 <=? off + len) eqn:E3; [discriminate|].
  destruct (ret <? off + len) eqn:E4; [discriminate|].
  intros H. inversion H; subst. apply N.ltb_ge in E4.
  split; [reflexivity|]. split; [reflexivity|].
  unfold slice_ok. apply andb_true_iff. split; apply N.leb_le; lia.
Qed.

(* a refusal is never spurious: the requested window does not fit *)
Lemma rdc_window_refusal_lemma : forall off len ret,
  len < W64 -> ret < W64 -> rdc_window off len ret = None -> ret < off + len.
Proof.
  intros off len ret Hl Hr H. rewrite (rdc_window_exact_lemma off len ret Hl Hr) in H.
  destruct (off + len <=? ret) eqn:E; [discriminate | apply N.leb_gt in E; exact E].
Qed.

(* the machine-word variant lets an inverted window through *)
Lemma rdc_window_u64_unsound_lemma :
  exists off len ret lo hi,
    off < W64 /\ len < W64 /\ ret < W64 /\
    rdc_window_u64 off len ret = Some (lo, hi) /\ slice_ok ret lo hi = false /\
    rdc_window off len ret = None.
Proof.
  exists (W64 - 1), 2, 32, (W64 - 1), 1. vm_compute. repeat split; reflexivity.
Qed.

(* the body alone is not total: a length that is not a uint64 can wrap the 256-bit sum *)
Lemma rdc_window_body_alone_lemma :
  exists off len ret lo hi,
    off < W256 /\ len < W256 /\ rdc_window off len ret = Some (lo, hi) /\ slice_ok ret lo hi = false.
Proof.
  exists (W64 - 1), (W256 - W64 + 2), 32, (W64 - 1), 1. vm_compute. repeat split; reflexivity.
Qed.

(* ... and such a length never reaches the body: a row with a memorySize function whose size computation
   reports overflow fails its charge phase *)
Lemma overflowing_request_refused_lemma : forall T op r a s,
  lookup T op = Some r -> r_has_mem r = true -> a_req a = None -> fst (step T op a s) <> VOk.
Proof.
  intros T op r a s HL HM HR. unfold step. rewrite HL.
  destruct (a_stack a <? r_min r); [cbn; discriminate|].
  destruct (r_max r <? a_stack a); [cbn; discriminate|].
  destruct (m_gas s <? a_cgas a); [cbn; discriminate|].
  unfold mem_size_of. rewrite HM, HR. cbn. discriminate.
Qed.

(* obligation on generated data: in every fork table there is a row named RETURNDATACOPY and every such row has a
   memorySize function *)
Definition is_rdc (r : row) : bool := String.eqb (r_name r) "RETURNDATACOPY".
Definition rdc_rows_guarded (T : table) : bool :=
  existsb is_rdc T && forallb (fun r => implb (is_rdc r) (r_has_mem r && r_has_dyn r)) T.

(* C18 -- trie.go:delete : no panic, canonical form preserved (node collapse), the key is gone,
   other keys untouched, "not dirty" means unchanged. *)
From Coq Require Import List NArith Bool Arith Lia ZifyBool ZifyNat ZifyN.
From GQ Require Import Lib.Key Model.C18 Proofs.C18_Base Proofs.C18_Ext Proofs.C18_Insert.
Import ListNotations.

(* ---------- the single-child scan ---------- *)
Lemma scan_one cs i j0 :
  scan cs i (SOne j0) = if Nat.eqb (count_nonnil cs) 0 then SOne j0 else SMany.
Proof.
  revert i. induction cs as [|x r IH]; intros i; [reflexivity|].
  destruct x; cbn [scan count_nonnil is_nil]; try reflexivity. apply IH.
Qed.

Lemma scan_spec cs i :
  match scan cs i SNone with
  | SNone => count_nonnil cs = 0
  | SOne j => count_nonnil cs = 1 /\ i <= j /\
              exists z, nth_error cs (j - i) = Some z /\ is_nil z = false
  | SMany => 2 <= count_nonnil cs
  end.
Proof.
  revert i. induction cs as [|x r IH]; intros i; [reflexivity|].
  assert (Hnn : is_nil x = false ->
    match scan r (S i) (SOne i) with
    | SNone => count_nonnil (x :: r) = 0
    | SOne j => count_nonnil (x :: r) = 1 /\ i <= j /\
                exists z, nth_error (x :: r) (j - i) = Some z /\ is_nil z = false
    | SMany => 2 <= count_nonnil (x :: r)
    end).
  { intros Hx. rewrite scan_one. cbn [count_nonnil]. rewrite Hx.
    destruct (Nat.eqb_spec (count_nonnil r) 0) as [E|E].
    - split; [lia|]. split; [lia|]. exists x. rewrite Nat.sub_diag. auto.
    - lia. }
  destruct x; try (apply Hnn; reflexivity).
  cbn [scan count_nonnil is_nil]. specialize (IH (S i)).
  destruct (scan r (S i) SNone) as [|j|]; auto.
  destruct IH as (Hc & Hle & z & Hz & Hzn). split; [lia|]. split; [lia|].
  exists z. replace (j - i) with (S (j - S i)) by lia. auto.
Qed.

Lemma count_one_others cs j z :
  count_nonnil cs = 1 -> nth_error cs j = Some z -> is_nil z = false ->
  forall i w, i <> j -> nth_error cs i = Some w -> w = Nil.
Proof.
  intros Hc Hz Hzn i w Hij Hw.
  pose proof (count_set_nth cs j Nil z Hz) as Hs. rewrite Hzn in Hs. cbn [is_nil] in Hs.
  apply (count_zero_all_nil (set_nth cs j Nil) ltac:(lia) i w).
  rewrite nth_error_set_nth_neq; auto.
Qed.

(* a full node with one occupied slot answers like a one-symbol short node over that child *)
Lemma single_child_lookup cs pos z :
  count_nonnil cs = 1 -> nth_error cs pos = Some z -> is_nil z = false ->
  forall q, lookup (Full cs) q = lookup (Short [N.of_nat pos] z) q.
Proof.
  intros Hc Hz Hzn q. destruct q as [|s r]; [reflexivity|].
  rewrite lookup_full, lookup_short. cbn [strip].
  destruct (N.eqb_spec (N.of_nat pos) s) as [<-|Hn].
  - rewrite Nat2N.id, Hz. reflexivity.
  - destruct (nth_error cs (N.to_nat s)) as [w|] eqn:Hw; auto.
    rewrite (count_one_others cs pos z Hc Hz Hzn (N.to_nat s) w); auto.
    intros E. apply Hn. rewrite <- E, N2Nat.id. reflexivity.
Qed.

(* replacing the child on the path of the key *)
Lemma lookup_full_set cs c rest x nn :
  nth_error cs (N.to_nat c) = Some x ->
  (forall r, lookup nn r = if keqb r rest then None else lookup x r) ->
  forall q, lookup (Full (set_nth cs (N.to_nat c) nn)) q =
            if keqb q (c :: rest) then None else lookup (Full cs) q.
Proof.
  intros Hx Hl q. destruct q as [|s q].
  - rewrite keqb_nil_cons. reflexivity.
  - rewrite !lookup_full, keqb_cons.
    destruct (N.eqb_spec s c) as [->|Hsc]; cbn [andb].
    + rewrite nth_error_set_nth_eq, Hx by (apply nth_error_Some; congruence). apply Hl.
    + rewrite nth_error_set_nth_neq; auto. intros E. apply N2Nat.inj in E. congruence.
Qed.

(* ---------- equations of delete ---------- *)
Lemma delete_Short_mismatch p ra y rb child :
  match ra with x :: _ => x <> y | [] => True end ->
  delete (Short (p ++ y :: rb) child) (p ++ ra) = Some (false, Short (p ++ y :: rb) child).
Proof.
  intros Hd. cbn [delete].
  rewrite (prefix_len_app p ra (y :: rb)) by (destruct ra; auto).
  replace (Nat.ltb (length p) (length (p ++ y :: rb))) with true; auto.
  symmetry. apply Nat.ltb_lt. rewrite app_length. cbn. lia.
Qed.

Lemma prefix_len_self_app k ra : prefix_len (k ++ ra) k = length k.
Proof.
  rewrite <- (app_nil_r k) at 2. apply prefix_len_app. destruct ra; exact I.
Qed.

Lemma delete_Short_exact k child : delete (Short k child) k = Some (true, Nil).
Proof.
  cbn [delete]. pose proof (prefix_len_self_app k []) as E. rewrite app_nil_r in E. rewrite E.
  rewrite Nat.ltb_irrefl, Nat.eqb_refl. reflexivity.
Qed.

Lemma delete_Short_longer k child s ra :
  delete (Short k child) (k ++ s :: ra) =
  match delete child (s :: ra) with
  | None => None
  | Some (false, _) => Some (false, Short k child)
  | Some (true, Short k2 c2) => Some (true, Short (k ++ k2) c2)
  | Some (true, c') => Some (true, Short k c')
  end.
Proof.
  cbn [delete]. rewrite prefix_len_self_app, Nat.ltb_irrefl.
  replace (Nat.eqb (length k) (length (k ++ s :: ra))) with false
    by (symmetry; apply Nat.eqb_neq; rewrite app_length; cbn; lia).
  rewrite skipn_app_len. reflexivity.
Qed.

Lemma delete_Full cs c rest :
  delete (Full cs) (c :: rest) =
  match nth_error cs (N.to_nat c) with
  | None => None
  | Some x =>
    match delete x rest with
    | None => None
    | Some (false, _) => Some (false, Full cs)
    | Some (true, nn) =>
        let cs' := set_nth cs (N.to_nat c) nn in
        match nn with
        | Nil =>
            match scan cs' 0 SNone with
            | SOne pos =>
                if negb (Nat.eqb pos 16) then
                  match nth pos cs' Nil with
                  | Short k2 c2 => Some (true, Short (N.of_nat pos :: k2) c2)
                  | x => Some (true, Short [N.of_nat pos] x)
                  end
                else Some (true, Short [N.of_nat pos] (nth pos cs' Nil))
            | _ => Some (true, Full cs')
            end
        | _ => Some (true, Full cs')
        end
    end
  end.
Proof.
  cbn [delete]. rewrite child_app_spec. destruct (nth_error cs (N.to_nat c)); reflexivity.
Qed.

(* with the terminator discipline, what hangs in slot 16 only holds the empty key *)
Lemma slot16_not_short cs z :
  okdom (Full cs) -> nth_error cs 16 = Some z -> wfn z = true -> is_short z = false.
Proof.
  intros Ho Hz Hw. destruct z as [|v|k2 c2|cs2]; auto. exfalso.
  apply wfn_short in Hw as (Hk2 & _ & Hc2).
  destruct (wfn_nonempty _ Hc2) as (q & v & Hq).
  assert (Ht : tk (16%N :: k2 ++ q)).
  { apply Ho. rewrite lookup_full. change (N.to_nat 16) with 16. rewrite Hz, lookup_short_app. congruence. }
  cbn [tk] in Ht. destruct (k2 ++ q) eqn:E.
  - destruct k2; [congruence|discriminate].
  - destruct Ht as [Ht _]. lia.
Qed.

(* ---------- the main lemma ---------- *)
Ltac split5 := split; [|split; [|split; [|split]]].

Lemma delete_correct : forall t key,
  wfo t -> okdom t -> pf t key -> tk key ->
  exists d t', delete t key = Some (d, t') /\ wfo t' /\
    (forall q, lookup t' q = if keqb q key then None else lookup t q) /\
    (d = false -> t' = t) /\
    (forall cs, t = Full cs -> t' <> Nil).
Proof.
  intros t.
  induction t as [|v0|k child IH|cs IH] using node_ind'; intros key Hw Ho Hp Hk.
  - (* Nil *)
    exists false, Nil. split5.
    + reflexivity.
    + left; reflexivity.
    + intros q. destruct (keqb q key); reflexivity.
    + reflexivity.
    + congruence.
  - (* Val *)
    destruct key as [|c rest].
    + exists true, Nil. split5.
      * reflexivity.
      * left; reflexivity.
      * intros q. destruct q; reflexivity.
      * congruence.
      * congruence.
    + exfalso. destruct (Hp []) as [Hn _]; [cbn; congruence|]. apply Hn. apply sprefix_nil. discriminate.
  - (* Short *)
    destruct Hw as [|Hw]; [discriminate|]. pose proof Hw as Hw'.
    apply wfn_short in Hw as (Hkne & Hs & Hc).
    destruct (prefix_len_spec key k) as (p & ra & rb & -> & -> & _ & Hd).
    destruct rb as [|y rb].
    + rewrite app_nil_r in *. destruct ra as [|s ra].
      * (* whole match: the short node disappears *)
        rewrite app_nil_r in *. exists true, Nil. rewrite delete_Short_exact. split5.
        -- reflexivity.
        -- left; reflexivity.
        -- intros q. destruct (keqb q p) eqn:E; auto. apply keqb_neq in E.
           destruct (lookup (Short p child) q) eqn:El; auto. exfalso.
           destruct (lookup_short_some _ _ _ _ El) as (r & -> & _).
           destruct (Hp (p ++ r)) as [_ Hn]; [congruence|]. apply Hn.
           destruct r as [|a r]; [rewrite app_nil_r in E; congruence|]. exists a, r. reflexivity.
        -- congruence.
        -- congruence.
      * (* the key continues below the short node *)
        assert (Hfull : exists ccs, child = Full ccs).
        { destruct child as [|v1|k1 c1|ccs]; try discriminate.
          - exfalso. destruct (Hp (p ++ [])) as [Hn _]; [rewrite lookup_short_app; cbn; congruence|].
            apply Hn. apply sprefix_app. apply sprefix_nil. discriminate.
          - eauto. }
        destruct Hfull as (ccs & Hccs).
        destruct (IH (s :: ra)) as (d & c' & Hdel & Hwc & Hl & Hnd & Hnn).
        -- right; exact Hc.
        -- exact (okdom_short _ _ Ho).
        -- exact (pf_short _ _ _ Hp).
        -- exact (tk_suffix _ _ Hk).
        -- rewrite delete_Short_longer, Hdel.
           assert (Hspec : forall c'', (forall q, lookup c'' q = lookup c' q) ->
                     forall q, lookup (Short p c'') q =
                       if keqb q (p ++ s :: ra) then None else lookup (Short p child) q).
           { intros c'' Hc'' q. rewrite !lookup_short. destruct (strip p q) as [r|] eqn:Hst.
             - apply strip_some in Hst. subst q. rewrite keqb_app, Hc''. apply Hl.
             - destruct (keqb q (p ++ s :: ra)); reflexivity. }
           destruct d.
           ++ specialize (Hnn _ Hccs).
              destruct Hwc as [|Hwc]; [congruence|].
              destruct c' as [|v1|k2 c2|cs2]; try congruence.
              ** exists true, (Short p (Val v1)). split5.
                 --- reflexivity.
                 --- right. apply wfn_short. auto.
                 --- apply Hspec. reflexivity.
                 --- congruence.
                 --- congruence.
              ** exists true, (Short (p ++ k2) c2). split5.
                 --- reflexivity.
                 --- right. apply wfn_short in Hwc as (Hk2 & Hs2 & Hc2). apply wfn_short.
                     split; [|split]; auto. destruct p; [congruence|discriminate].
                 --- intros q. rewrite <- (Hspec (Short k2 c2)) by reflexivity.
                     rewrite !lookup_short, strip_app_l. destruct (strip p q); reflexivity.
                 --- congruence.
                 --- congruence.
              ** exists true, (Short p (Full cs2)). split5.
                 --- reflexivity.
                 --- right. apply wfn_short. auto.
                 --- apply Hspec. reflexivity.
                 --- congruence.
                 --- congruence.
           ++ exists false, (Short p child). rewrite (Hnd eq_refl) in *. split5.
              ** reflexivity.
              ** right; exact Hw'.
              ** apply Hspec. reflexivity.
              ** reflexivity.
              ** congruence.
    + (* mismatch: nothing to delete *)
      exists false, (Short (p ++ y :: rb) child). rewrite delete_Short_mismatch by exact Hd. split5.
      * reflexivity.
      * right; exact Hw'.
      * intros q. destruct (keqb q (p ++ ra)) eqn:E; auto. apply keqb_eq in E. subst q.
        rewrite lookup_short, strip_app_l, strip_app. destruct ra as [|x ra]; [reflexivity|].
        cbn [strip]. destruct (N.eqb_spec y x); [congruence|reflexivity].
      * reflexivity.
      * congruence.
  - (* Full *)
    destruct Hw as [|Hw]; [discriminate|]. pose proof Hw as Hw'.
    apply wfn_full in Hw as (Hl & Hcnt & Hf).
    destruct key as [|c rest].
    { exfalso. destruct (wfn_nonempty _ Hw') as (q & v & Hq).
      destruct (Hp q) as [_ Hn]; [congruence|]. apply Hn. apply sprefix_nil.
      destruct q; discriminate. }
    pose proof (tk_head _ _ Hk) as Hc16.
    destruct (nth_error cs (N.to_nat c)) as [x|] eqn:Hx; [|apply nth_error_None in Hx; lia].
    rewrite Forall_forall in IH.
    destruct (IH x (nth_error_In _ _ Hx) rest) as (d & nn & Hdel & Hwn & Hlk & Hnd & _).
    + exact (Hf _ _ Hx).
    + exact (okdom_full _ _ _ Hx Ho).
    + exact (pf_full _ _ _ _ Hx Hp).
    + exact (tk_suffix [c] _ Hk).
    + rewrite delete_Full, Hx, Hdel.
      pose proof (lookup_full_set cs c rest x nn Hx Hlk) as Hspec.
      assert (Hlen : length (set_nth cs (N.to_nat c) nn) = 17) by (rewrite set_nth_length; exact Hl).
      assert (Hch : forall i z, nth_error (set_nth cs (N.to_nat c) nn) i = Some z -> z = Nil \/ wfn z = true).
      { intros i z Hz. destruct (Nat.eq_dec (N.to_nat c) i) as [<-|Hne].
        - rewrite nth_error_set_nth_eq in Hz by lia. injection Hz as <-. exact Hwn.
        - rewrite nth_error_set_nth_neq in Hz by auto. exact (Hf _ _ Hz). }
      pose proof (count_set_nth cs _ nn x Hx) as Hcs.
      destruct d.
      2:{ exists false, (Full cs). rewrite (Hnd eq_refl) in *. split5.
          - reflexivity.
          - right; exact Hw'.
          - intros q. rewrite <- Hspec. f_equal. f_equal.
            apply (nth_ext _ _ Nil Nil); [symmetry; apply set_nth_length|]. intros i Hi.
            destruct (Nat.eq_dec (N.to_nat c) i) as [<-|Hne].
            + rewrite (nth_error_nth' _ _ _ Hx). symmetry.
              apply nth_error_nth'. apply nth_error_set_nth_eq. lia.
            + destruct (nth_error cs i) eqn:E; [|apply nth_error_None in E; lia].
              rewrite (nth_error_nth' _ _ _ E). symmetry. apply nth_error_nth'.
              rewrite nth_error_set_nth_neq; auto.
          - reflexivity.
          - congruence. }
      cbn zeta.
      assert (Hkeep : 2 <= count_nonnil (set_nth cs (N.to_nat c) nn) ->
                exists d t', Some (true, Full (set_nth cs (N.to_nat c) nn)) = Some (d, t') /\ wfo t' /\
                  (forall q, lookup t' q = if keqb q (c :: rest) then None else lookup (Full cs) q) /\
                  (d = false -> t' = Full cs) /\ (forall cs0, Full cs = Full cs0 -> t' <> Nil)).
      { intros Hc2. exists true, (Full (set_nth cs (N.to_nat c) nn)). split5.
        - reflexivity.
        - right. apply wfn_full. auto.
        - exact Hspec.
        - congruence.
        - congruence. }
      destruct nn as [|v1|k1 c1|cs1].
      * (* the child vanished: maybe collapse *)
        cbn [is_nil] in Hcs.
        pose proof (scan_spec (set_nth cs (N.to_nat c) Nil) 0) as Hscan.
        destruct (scan (set_nth cs (N.to_nat c) Nil) 0 SNone) as [|pos|].
        -- exfalso. destruct (is_nil x); lia.
        -- destruct Hscan as (Hone & _ & z & Hz & Hzn). rewrite Nat.sub_0_r in Hz.
           rewrite (nth_error_nth' _ _ _ Hz).
           pose proof (single_child_lookup _ pos z Hone Hz Hzn) as Hsl.
           assert (Hwz : wfn z = true).
           { destruct (Hch _ _ Hz) as [->|]; [discriminate|auto]. }
           assert (Hpos : pos < 17) by (rewrite <- Hlen; apply nth_error_Some; congruence).
           assert (Hzs : is_short z = false ->
                     exists d t', Some (true, Short [N.of_nat pos] z) = Some (d, t') /\ wfo t' /\
                       (forall q, lookup t' q = if keqb q (c :: rest) then None else lookup (Full cs) q) /\
                       (d = false -> t' = Full cs) /\ (forall cs0, Full cs = Full cs0 -> t' <> Nil)).
           { intros Hns. exists true, (Short [N.of_nat pos] z). split5.
             - reflexivity.
             - right. apply wfn_short. split; [|split]; auto. discriminate.
             - intros q. rewrite <- Hspec, Hsl. reflexivity.
             - congruence.
             - congruence. }
           destruct (Nat.eqb_spec pos 16) as [->|Hp16]; cbn [negb].
           ++ apply Hzs. apply (slot16_not_short (set_nth cs (N.to_nat c) Nil)); auto.
              intros q Hq. apply Ho. rewrite Hspec in Hq. destruct (keqb q (c :: rest)); congruence.
           ++ destruct z as [|v2|k2 c2|cs2]; try (apply Hzs; reflexivity).
              exists true, (Short (N.of_nat pos :: k2) c2). split5.
              ** reflexivity.
              ** right. apply wfn_short in Hwz as (Hk2 & Hs2 & Hc2). apply wfn_short.
                 split; [|split]; auto. discriminate.
              ** intros q. rewrite <- Hspec, Hsl.
                 change (N.of_nat pos :: k2) with ([N.of_nat pos] ++ k2).
                 rewrite !lookup_short, strip_app_l. destruct (strip [N.of_nat pos] q); reflexivity.
              ** congruence.
              ** congruence.
        -- apply Hkeep; auto.
      * apply Hkeep. cbn [is_nil] in Hcs. destruct (is_nil x); lia.
      * apply Hkeep. cbn [is_nil] in Hcs. destruct (is_nil x); lia.
      * apply Hkeep. cbn [is_nil] in Hcs. destruct (is_nil x); lia.
Qed.

(* C19 -- main lemmas behind Props/C19.v: reachable-state invariants, the replacement rule,
   queue limits, and the witnesses of what the model (and the code) does not guarantee. *)
From Coq Require Import List NArith PeanoNat Bool Lia ZifyBool ZifyNat ZifyN.
From GQ Require Import Model.C19 Proofs.C19_Lists Proofs.C19_Struct Proofs.C19_Ops Proofs.C19_Heap Proofs.C19_State Proofs.C19_Contig Proofs.C19_Limits.
Import ListNotations.
Local Open Scope N_scope.

(* ---------- the invariant of the property statement ---------- *)
Record pool_invariant (p : pool) : Prop := {
  pi_sorted : forall a, sorted (aget a (p_pend p)) /\ sorted (aget a (p_queue p));
  pi_owned : forall a t, In t (aget a (p_pend p)) \/ In t (aget a (p_queue p)) -> t_from t = a;
  pi_from_state_nonce : forall a t, In t (aget a (p_pend p)) -> st_nonce p a <= t_nonce t;
  pi_front : forall a, aget a (p_pend p) <> [] -> hasn (aget a (p_pend p)) (st_nonce p a);
  pi_affordable : forall a t, In t (aget a (p_pend p)) -> cost t <= st_bal p a /\ t_gas t <= s_maxgas (p_st p);
  pi_disjoint : forall a x y, In x (aget a (p_pend p)) -> In y (aget a (p_queue p)) -> t_nonce x <> t_nonce y;
  pi_all_nodup : NoDup (map fst (p_all p));
  pi_all : forall t, In t (map fst (p_all p)) <-> In t (aget (t_from t) (p_pend p)) \/ In t (aget (t_from t) (p_queue p));
  pi_priced : forall t, In (t, false) (p_all p) -> In t (p_heap p);
  pi_pnonce : forall a, pn_get p a = last_next (st_nonce p a) (aget a (p_pend p))
}.

Lemma invariant_of p : IWT p -> heap_ok p -> pool_invariant p.
Proof.
  intros [H0 [HW HT]] HK. constructor.
  - intros a. split; [apply (ir_pend _ _ _ H0 a)|apply (ir_queue _ _ _ H0 a)].
  - intros a t [H|H]; [apply (proj2 (ir_pend _ _ _ H0 a))|apply (proj2 (ir_queue _ _ _ H0 a))]; exact H.
  - intros a. apply (w_ge _ _ (HW a)).
  - intros a. apply (w_front _ _ (HW a)).
  - intros a t Ht. pose proof (w_pay _ _ (HW a) t Ht) as Hp. unfold payable, unpayable in Hp.
    apply orb_false_iff in Hp as [A B]. lia.
  - apply (ir_disj _ _ _ H0).
  - apply (ir_nodup _ _ _ H0).
  - intros t. pose proof (ir_all _ _ _ H0 t) as X. unfold in_all in X. cbn [In] in X. tauto.
  - exact HK.
  - exact HT.
Qed.

Lemma reachable_invariant c pl st h : pool_invariant (run_hist c (init pl st) h).
Proof. apply invariant_of; [apply run_hist_IWT, init_IWT|apply hk_run_hist, hk_init]. Qed.

Lemma step_invariant c p o qo : IWT p -> heap_ok p -> pool_invariant (fst (step c p o qo)).
Proof. intros H K. apply invariant_of; [apply step_IWT; exact H|apply hk_step; exact K]. Qed.

(* ---------- the replacement rule ---------- *)
Lemma in_all_same p q t : same_lists p q -> (in_all t q <-> in_all t p).
Proof. intros [_ [_ E]]. unfold in_all. rewrite E. tauto. Qed.

Lemma in_all_heap_put t l p x : in_all x (heap_put t l p) <-> in_all x p.
Proof. apply in_all_same. apply same_heap_put. Qed.
Lemma in_all_removed n p x : in_all x (removed n p) <-> in_all x p.
Proof. apply in_all_same. apply same_removed. Qed.
Lemma in_all_set_pend a l p x : in_all x (set_pend a l p) <-> in_all x p.
Proof. reflexivity. Qed.
Lemma in_all_set_queue a l p x : in_all x (set_queue a l p) <-> in_all x p.
Proof. reflexivity. Qed.
Lemma in_all_locals_step l p x :
  in_all x (let '(p'', m) := remote_to_locals (set_locals l p) in removed m p'') <-> in_all x p.
Proof.
  unfold remote_to_locals. rewrite in_all_removed. unfold in_all. psimpl. rewrite map_map. cbn [fst]. tauto.
Qed.

Lemma add_replaced c t loc p p' :
  Inv0 p -> add c t loc p = (p', VOk, true) ->
  exists o, (In o (aget (t_from t) (p_pend p)) \/ In o (aget (t_from t) (p_queue p))) /\
    t_nonce o = t_nonce t /\ t_price o < t_price t /\ bump_threshold (c_bump c) (t_price o) <= t_price t /\
    ~ in_all t p /\ (forall x, in_all x p' <-> x = t \/ (in_all x p /\ x <> o)).
Proof.
  intros H0. unfold add. destruct (all_has t p) eqn:Eh; [discriminate|]. apply all_has_false in Eh.
  destruct (validate p t); [discriminate|]. destruct (_ <? _); [discriminate|].
  set (a := t_from t). set (isLocal := loc || mem_n a (p_locals p)).
  destruct (l_get (t_nonce t) (aget a (p_pend p))) as [o0|] eqn:Eg.
  - destruct (l_add t (c_bump c) (aget a (p_pend p))) as [[pl' old]|] eqn:Ea; [|discriminate].
    destruct (l_add_some _ _ _ _ _ Ea) as [-> [-> Hp]]. rewrite Eg. intros [= <-].
    destruct (Hp o0 Eg) as [P1 P2]. apply l_get_in in Eg as [Ho En].
    exists o0. repeat split; auto.
    + rewrite in_all_heap_put, in_all_add, in_all_removed, in_all_remove, in_all_set_pend. tauto.
    + rewrite in_all_heap_put, in_all_add, in_all_removed, in_all_remove, in_all_set_pend. tauto.
  - destruct (enqueue_tx c t isLocal true p) as [p1 [replaced|]] eqn:Ee; [|discriminate].
    intros [= <- ->]. unfold enqueue_tx in Ee. fold a in Ee.
    destruct (l_add t (c_bump c) (aget a (p_queue p))) as [[q' old]|] eqn:Ea; [|discriminate].
    destruct (l_add_some _ _ _ _ _ Ea) as [-> [-> Hp]].
    destruct (l_get (t_nonce t) (aget a (p_queue p))) as [o|] eqn:Eq; [|inversion Ee].
    injection Ee as E1. destruct (Hp o eq_refl) as [P1 P2]. apply l_get_in in Eq as [Ho En].
    assert (Hp1 : forall x, in_all x p1 <-> x = t \/ (in_all x p /\ x <> o)).
    { intros x. rewrite <- E1. rewrite in_all_heap_put, in_all_add, in_all_removed, in_all_remove, in_all_set_queue. tauto. }
    exists o. repeat split; auto.
    + intros Hx. apply Hp1. destruct (loc && negb (mem_n a (p_locals p1))); [|exact Hx].
      apply in_all_locals_step in Hx. exact Hx.
    + intros Hx. apply Hp1 in Hx. destruct (loc && negb (mem_n a (p_locals p1))); [|exact Hx].
      apply in_all_locals_step. exact Hx.
Qed.

Lemma replacement_rule c t loc p p' :
  Inv0 p -> add c t loc p = (p', VOk, true) ->
  exists o, (In o (aget (t_from t) (p_pend p)) \/ In o (aget (t_from t) (p_queue p))) /\
    t_from o = t_from t /\ t_nonce o = t_nonce t /\ o <> t /\
    t_price o < t_price t /\ (100 + c_bump c) * t_price o / 100 <= t_price t /\
    (* the old transaction is gone from every index, the new one is indexed *)
    ~ In o (map fst (p_all p')) /\ ~ In o (aget (t_from t) (p_pend p')) /\ ~ In o (aget (t_from t) (p_queue p')) /\
    In t (map fst (p_all p')) /\ (In t (aget (t_from t) (p_pend p')) \/ In t (aget (t_from t) (p_queue p'))).
Proof.
  intros H0 Ea. destruct (add_replaced _ _ _ _ _ H0 Ea) as [o [Ho [En [P1 [P2 [Hn Hall]]]]]].
  assert (H1 : Inv0 p'). { pose proof (add_inv0 c t loc p H0) as X. rewrite Ea in X. exact X. }
  assert (Hfo : t_from o = t_from t).
  { destruct Ho as [Ho|Ho]; [apply (proj2 (ir_pend _ _ _ H0 _))|apply (proj2 (ir_queue _ _ _ H0 _))]; exact Ho. }
  assert (Hoa : in_all o p). { apply (ir_all _ _ _ H0). rewrite Hfo. tauto. }
  assert (Hne : o <> t) by (intros ->; auto).
  assert (Hno : ~ in_all o p') by (rewrite Hall; intros [E|[_ E]]; congruence).
  assert (Hto : in_all t p') by (apply Hall; auto).
  exists o. repeat split; auto.
  - intros Hp. apply Hno. apply (ir_all _ _ _ H1). rewrite Hfo. auto.
  - intros Hq. apply Hno. apply (ir_all _ _ _ H1). rewrite Hfo. auto.
  - apply (ir_all _ _ _ H1) in Hto. cbn [In] in Hto. tauto.
Qed.

(* a same-nonce transaction below the bump is refused and nothing changes *)
Lemma validate_not_ok p t v : validate p t = Some v -> v <> VOk.
Proof.
  unfold validate. repeat (destruct (_ <? _); [intros [= <-]; discriminate|]). discriminate.
Qed.

Lemma underpriced_replacement c t loc p o :
  Inv0 p -> In o (aget (t_from t) (p_pend p)) \/ In o (aget (t_from t) (p_queue p)) -> t_nonce o = t_nonce t ->
  t_price t <= t_price o \/ t_price t < (100 + c_bump c) * t_price o / 100 ->
  let '(p', v, r) := add c t loc p in (p' = p /\ v <> VOk /\ r = false) \/ v = VOverflow.
Proof.
  intros H0 Ho En Hp. unfold add. destruct (all_has t p); [left; repeat split; discriminate|].
  destruct (validate p t) as [v|] eqn:Ev; [left; repeat split; eapply validate_not_ok; eauto|].
  destruct (_ <? _); [right; reflexivity|].
  pose proof (inv0_any (t_from t) _ H0) as H.
  destruct Ho as [Ho|Ho].
  - rewrite (l_get_some _ _ o (proj1 (ir_pend _ _ _ H _)) Ho En).
    unfold l_add. rewrite (l_get_some _ _ o (proj1 (ir_pend _ _ _ H _)) Ho En).
    destruct (t_price t <=? t_price o) eqn:E1; [left; repeat split; discriminate|]. unfold bump_threshold.
    destruct (t_price t <? _) eqn:E2; [left; repeat split; discriminate|]. lia.
  - assert (Eg : l_get (t_nonce t) (aget (t_from t) (p_pend p)) = None).
    { apply l_get_none. intros x Hx E. apply (ir_disj _ _ _ H (t_from t) x o); auto. congruence. }
    rewrite Eg. unfold enqueue_tx, l_add. rewrite (l_get_some _ _ o (proj1 (ir_queue _ _ _ H _)) Ho En).
    destruct (t_price t <=? t_price o) eqn:E1; [left; repeat split; discriminate|]. unfold bump_threshold.
    destruct (t_price t <? _) eqn:E2; [left; repeat split; discriminate|]. lia.
Qed.

(* ---------- what is NOT guaranteed (by the model, and by the code: both witnesses are
   replayed on the real pool by the harness corpus) ---------- *)
Definition w_cfg := Cfg 10 16 64 16 64.
Definition w_st0 := St [(0,0)] [(0,1000000000)] 1 5000000.
Definition w_st2 := St [(0,2)] [(0,1000000000)] 1 5000000.
Definition w_A := T 0 0 10 21000 0.
Definition w_B := T 0 1 3 21000 0.      (* below the pool's price limit 5: refused when re-injected *)
Definition w_C := T 0 2 10 21000 0.
(* two transactions are mined elsewhere, a third one is added on top, then the chain
   reorganises back: A is re-injected, B is refused, and [A; C] is promoted with a gap *)
Definition w_gap_history : list (op * list N) :=
  [(OHead (Reset w_st2 [] [w_A; w_B]), []); (OAdd false [w_C], []); (OHead (Reset w_st0 [w_A; w_B] []), [])].

Lemma gap_witness : map t_nonce (aget 0 (p_pend (run_hist w_cfg (init 5 w_st0) w_gap_history))) = [0; 2].
Proof. vm_compute. reflexivity. Qed.

Lemma contiguity_refuted_lemma : exists c pl st h a,
  ~ contig (st_nonce (run_hist c (init pl st) h) a) (aget a (p_pend (run_hist c (init pl st) h))).
Proof.
  exists w_cfg, 5, w_st0, w_gap_history, 0. vm_compute. intros [_ [E _]]. discriminate.
Qed.

Definition w_st_poor := St [(0,0)] [(0,300000)] 1 5000000.
Definition w_two : list (op * list N) := [(OAdd false [T 0 0 10 21000 0; T 0 1 10 21000 0], [])].
Lemma cumulative_refuted_lemma : exists c pl st h a,
  let p := run_hist c (init pl st) h in
  st_bal p a < fold_right (fun t s => cost t + s) 0 (aget a (p_pend p)).
Proof. exists w_cfg, 1, w_st_poor, w_two, 0. vm_compute. reflexivity. Qed.

(* non-vacuity: an accepted replacement, and a state with pending and queued transactions *)
Definition nv_st := St [(0,0);(1,0)] [(0,1000000000);(1,1000000000)] 1 5000000.
Definition nv_pool := run_hist w_cfg (init 1 nv_st)
  [(OAdd false [T 0 0 10 21000 0; T 0 1 10 21000 0; T 0 3 10 21000 0; T 1 2 7 21000 0], [])].
Lemma nv_state : map t_nonce (aget 0 (p_pend nv_pool)) = [0; 1] /\ map t_nonce (aget 0 (p_queue nv_pool)) = [3]
  /\ map t_nonce (aget 1 (p_queue nv_pool)) = [2] /\ pn_get nv_pool 0 = 2 /\ len (map fst (p_all nv_pool)) = 4.
Proof. vm_compute. repeat split. Qed.
Lemma nv_replacement : snd (add w_cfg (T 0 1 11 21000 0) false nv_pool) = true
  /\ snd (fst (add w_cfg (T 0 1 11 21000 0) false nv_pool)) = VOk
  /\ snd (fst (add w_cfg (T 0 3 10 21000 5) false nv_pool)) = VReplaceUnderpriced.
Proof. vm_compute. repeat split. Qed.
Lemma nv_monotone : monotone nv_st [(OAdd false [w_A], []); (OHead (Reset w_st2 [] [w_A; w_B]), []); (OTick, [])].
Proof.
  cbn [monotone r_st]. split; [|exact I]. intros a. unfold nget, nv_st, w_st2. cbn [s_nonce nfind].
  destruct (0 =? a) eqn:E0; [lia|]. destruct (1 =? a) eqn:E1; lia.
Qed.

(* ---------- corollaries in the form used by Props/C19.v ---------- *)
Lemma preserved_lemma c p o qo :
  IWT p -> heap_ok p ->
  IWT (fst (step c p o qo)) /\ heap_ok (fst (step c p o qo)) /\ pool_invariant (fst (step c p o qo)).
Proof.
  intros H K. split; [apply step_IWT; exact H|]. split; [apply hk_step; exact K|apply step_invariant; assumption].
Qed.
Lemma contiguous_partial_lemma c pl st h :
  monotone st h ->
  forall a, let p := run_hist c (init pl st) h in
  contig (st_nonce p a) (aget a (p_pend p)) /\ pn_get p a = st_nonce p a + len (aget a (p_pend p)).
Proof.
  intros Hm a. pose proof (run_hist_K c h (init pl st) (init_IWT pl st) (init_K pl st) Hm a) as [A B]. split; assumption.
Qed.
Lemma affordable_lemma c pl st h a t :
  let p := run_hist c (init pl st) h in
  In t (aget a (p_pend p)) -> cost t <= st_bal p a /\ t_gas t <= s_maxgas (p_st p).
Proof. apply (pi_affordable _ (reachable_invariant c pl st h)). Qed.
Lemma disjoint_lemma c pl st h a x y :
  let p := run_hist c (init pl st) h in
  In x (aget a (p_pend p)) -> In y (aget a (p_queue p)) -> t_nonce x <> t_nonce y.
Proof. apply (pi_disjoint _ (reachable_invariant c pl st h)). Qed.
Lemma union_lemma c pl st h :
  let p := run_hist c (init pl st) h in
  NoDup (map fst (p_all p)) /\
  forall t, In t (map fst (p_all p)) <-> In t (aget (t_from t) (p_pend p)) \/ In t (aget (t_from t) (p_queue p)).
Proof. split; [apply (pi_all_nodup _ (reachable_invariant c pl st h))|apply (pi_all _ (reachable_invariant c pl st h))]. Qed.
Lemma priced_lemma c pl st h t :
  let p := run_hist c (init pl st) h in In (t, false) (p_all p) -> In t (p_heap p).
Proof. apply (pi_priced _ (reachable_invariant c pl st h)). Qed.
Lemma pnonce_lemma c pl st h a :
  let p := run_hist c (init pl st) h in pn_get p a = last_next (st_nonce p a) (aget a (p_pend p)).
Proof. apply (pi_pnonce _ (reachable_invariant c pl st h)). Qed.
Lemma index_limit_lemma c pl st h :
  len (map fst (p_all (run_hist c (init pl st) h))) <= c_gslots c + c_gqueue c.
Proof. apply al_run_hist. apply al_init. Qed.

(* C04 (e): recovery of a bundle the dominant node missed.  Whatever the subordinate answers when it is
   asked again (valid, unfiltered, foreign, garbage, nothing), and however often a collection is retried:
   the answer of CollectSubRollup / CollectNewlyConfirmedEtxs is a function of the VALIDATED store alone
   (the fetched data is never used directly), the store only ever gains bundles that pass the commitment
   check of their own header, entries never change, and the content of a successful sub rollup is what the
   headers of the manifest commit to. *)
From Coq Require Import List NArith Bool Lia.
From GQ Require Import Lib.Key Lib.SMap Model.C04.
Import ListNotations.
Local Open Scope N_scope.

Lemma ns_eqb_eq : forall a b, ns_eqb a b = true -> a = b.
Proof.
  induction a as [|x a IH]; destruct b as [|y b]; cbn; intros H; try discriminate; try reflexivity.
  apply andb_true_iff in H. destruct H as [Hx Hr]. apply N.eqb_eq in Hx. subst. f_equal. auto.
Qed.

Section Rec.
Variable cm : list (N * list N).
Variable T : N.

(* every stored bundle passes the commitment check of its header (or is the genesis entry) *)
Definition store_validated (w : rworld) : Prop :=
  forall h l, lookup_pending w h = Some l -> bundle_valid cm w (h, l) = true.
(* nothing known is ever replaced *)
Definition store_extends (w w' : rworld) : Prop :=
  rw_genesis w' = rw_genesis w /\ rw_blocks w' = rw_blocks w /\
  forall h l, lookup_pending w h = Some l -> lookup_pending w' h = Some l.

Lemma store_extends_refl w : store_extends w w.
Proof. repeat split; auto. Qed.
Lemma store_extends_trans a b c : store_extends a b -> store_extends b c -> store_extends a c.
Proof.
  intros [G1 [B1 P1]] [G2 [B2 P2]]. repeat split; try congruence. auto.
Qed.

Lemma find_app_none {A} (f : A -> bool) l x : find f l = None -> find f (l ++ [x]) = (if f x then Some x else None).
Proof. induction l as [|y l IH]; cbn; intros H; [reflexivity|]. destruct (f y); [discriminate|auto]. Qed.
Lemma find_app_some {A} (f : A -> bool) l x y : find f l = Some y -> find f (l ++ [x]) = Some y.
Proof. induction l as [|z l IH]; cbn; intros H; [discriminate|]. destruct (f z); auto. Qed.

Lemma lookup_pending_none w h : lookup_pending w h = None -> find (fun p => fst p =? h) (rw_pending w) = None.
Proof. unfold lookup_pending. destruct (find _ _); cbn; [discriminate|reflexivity]. Qed.

Lemma bundle_valid_genesis w w' b : rw_genesis w' = rw_genesis w -> bundle_valid cm w' b = bundle_valid cm w b.
Proof. intros H. unfold bundle_valid, is_genesis. rewrite H. reflexivity. Qed.

Lemma add_validated_extends w b : store_extends w (add_validated cm w b).
Proof.
  unfold add_validated. destruct (bundle_valid cm w b); [|apply store_extends_refl].
  destruct (lookup_pending w (fst b)) eqn:E; [apply store_extends_refl|].
  repeat split; cbn; auto. intros h l H. unfold lookup_pending in *. cbn.
  destruct (find (fun p => fst p =? h) (rw_pending w)) eqn:F; [|discriminate].
  rewrite (find_app_some _ _ _ _ F). exact H.
Qed.

Lemma add_validated_keeps w b : store_validated w -> store_validated (add_validated cm w b).
Proof.
  intros Hv. unfold add_validated. destruct (bundle_valid cm w b) eqn:V; [|exact Hv].
  destruct (lookup_pending w (fst b)) eqn:E; [exact Hv|].
  intros h l H. rewrite (bundle_valid_genesis w) by reflexivity.
  unfold lookup_pending in H. cbn in H.
  destruct (find (fun p => fst p =? h) (rw_pending w)) eqn:F.
  - rewrite (find_app_some _ _ _ _ F) in H. apply Hv. unfold lookup_pending. rewrite F. exact H.
  - rewrite (find_app_none _ _ _ F) in H. destruct (fst b =? h) eqn:K; [|discriminate].
    cbn in H. injection H as <-. apply N.eqb_eq in K. subst h. destruct b; exact V.
Qed.

(* a valid bundle of a header not yet known IS stored: recovery works *)
Lemma add_validated_stores w h l : bundle_valid cm w (h, l) = true -> lookup_pending w h = None ->
  lookup_pending (add_validated cm w (h, l)) h = Some l.
Proof.
  intros V E. unfold add_validated. rewrite V. cbn [fst]. rewrite E.
  unfold lookup_pending. cbn. rewrite (find_app_none _ _ _ (lookup_pending_none _ _ E)). cbn.
  rewrite N.eqb_refl. reflexivity.
Qed.

Lemma fetch_extends answers st key h : store_extends (fs_world st) (fs_world (fetch cm T answers st key h)).
Proof.
  unfold fetch. destruct (assoc (fs_retries st) key); [|apply store_extends_refl].
  destruct (n <? T); [apply store_extends_refl|].
  destruct (assoc answers h); [apply add_validated_extends|apply store_extends_refl].
Qed.
Lemma fetch_keeps answers st key h : store_validated (fs_world st) -> store_validated (fs_world (fetch cm T answers st key h)).
Proof.
  intros Hv. unfold fetch. destruct (assoc (fs_retries st) key); [|exact Hv].
  destruct (n <? T); [exact Hv|].
  destruct (assoc answers h); [apply add_validated_keeps; exact Hv|exact Hv].
Qed.

(* the gate: once the counter of the key reached the threshold, a valid answer for a missing entry is stored *)
Lemma fetch_valid_answer_stores (answers : list (N * bundle)) st key h l r :
  assoc (fs_retries st) key = Some r -> T <= r -> assoc answers h = Some (h, l) ->
  bundle_valid cm (fs_world st) (h, l) = true -> lookup_pending (fs_world st) h = None ->
  lookup_pending (fs_world (fetch cm T answers st key h)) h = Some l.
Proof.
  intros Hr Hle Ha V E. unfold fetch. rewrite Hr. destruct (r <? T) eqn:L; [apply N.ltb_lt in L; lia|].
  rewrite Ha. cbn. apply add_validated_stores; assumption.
Qed.

(* ---- the sub rollup with its side effect *)

Lemma sub_rollup_f_some answers st key : forall m acc r,
  sub_rollup (fs_world st) m = Some r -> sub_rollup_f cm T answers st key m acc = (st, Some (acc ++ r)).
Proof.
  induction m as [|h m IH]; intros acc r H; cbn in *.
  - injection H as <-. rewrite app_nil_r. reflexivity.
  - destruct (lookup_pending (fs_world st) h) as [l|]; [|discriminate].
    destruct (sub_rollup (fs_world st) m) as [r'|] eqn:E; [|discriminate]. injection H as <-.
    rewrite (IH (acc ++ l) r' eq_refl), app_assoc. reflexivity.
Qed.

Lemma sub_rollup_f_none answers st key : forall m acc,
  sub_rollup (fs_world st) m = None ->
  exists h, In h m /\ lookup_pending (fs_world st) h = None
            /\ sub_rollup_f cm T answers st key m acc = (fetch cm T answers st key h, None).
Proof.
  induction m as [|h m IH]; intros acc H; cbn in *; [discriminate|].
  destruct (lookup_pending (fs_world st) h) as [l|] eqn:E.
  - destruct (sub_rollup (fs_world st) m) eqn:E2; [discriminate|].
    destruct (IH (acc ++ l) eq_refl) as [h' [Hin [Hn Hf]]]. exists h'. auto.
  - exists h. auto.
Qed.

(* ---- the collection: its answer is the answer of the pure walk over the store *)

Lemma nc_walk_f_answer answers ctx loc border : forall fuel st cur acc,
  snd (nc_walk_f cm T answers fuel st ctx loc border cur acc) = nc_walk fuel (fs_world st) ctx loc border cur acc
  /\ (nc_walk fuel (fs_world st) ctx loc border cur acc <> RErrPending ->
      fst (nc_walk_f cm T answers fuel st ctx loc border cur acc) = st)
  /\ (nc_walk fuel (fs_world st) ctx loc border cur acc = RErrPending ->
      exists key h, lookup_pending (fs_world st) h = None
                    /\ fst (nc_walk_f cm T answers fuel st ctx loc border cur acc) = fetch cm T answers st key h).
Proof.
  induction fuel as [|f IH]; intros st cur acc; cbn [nc_walk_f nc_walk].
  - cbn. repeat split; auto. discriminate.
  - destruct (lookup_block (fs_world st) (rb_parent cur)) as [p|]; [|cbn; repeat split; auto; discriminate].
    destruct (is_genesis (fs_world st) (rb_parent cur)); [cbn; repeat split; auto; discriminate|].
    destruct (walk_stops ctx loc p); [cbn; repeat split; auto; discriminate|].
    destruct (sub_rollup (fs_world st) (rb_manifest p)) as [roll|] eqn:E.
    + rewrite (sub_rollup_f_some answers st (rb_hash p) _ [] roll E). cbn [app]. apply IH.
    + destruct (sub_rollup_f_none answers st (rb_hash p) _ [] E) as [h [_ [Hn Hf]]]. rewrite Hf. cbn.
      repeat split; auto. * intros C; congruence. * intros _. exists (rb_hash p), h. auto.
Qed.

Lemma collect_f_answer answers st ctx b border :
  snd (newly_confirmed_f cm T answers st ctx b border) = newly_confirmed (fs_world st) ctx b border
  /\ (newly_confirmed (fs_world st) ctx b border <> RErrPending ->
      fst (newly_confirmed_f cm T answers st ctx b border) = st)
  /\ (newly_confirmed (fs_world st) ctx b border = RErrPending ->
      exists key h, lookup_pending (fs_world st) h = None
                    /\ fst (newly_confirmed_f cm T answers st ctx b border) = fetch cm T answers st key h).
Proof.
  unfold newly_confirmed_f, newly_confirmed.
  destruct (sub_rollup (fs_world st) (rb_manifest b)) as [roll|] eqn:E.
  - rewrite (sub_rollup_f_some answers st (rb_hash b) _ [] roll E). cbn [app]. apply nc_walk_f_answer.
  - destruct (sub_rollup_f_none answers st (rb_hash b) _ [] E) as [h [_ [Hn Hf]]]. rewrite Hf. cbn.
    repeat split; auto. + intros C; congruence. + intros _. exists (rb_hash b), h. auto.
Qed.

(* the subordinate has no influence on the answer of the call in which it is asked *)
Lemma collect_answer_independent answers1 answers2 st ctx b border :
  snd (newly_confirmed_f cm T answers1 st ctx b border) = snd (newly_confirmed_f cm T answers2 st ctx b border).
Proof.
  rewrite (proj1 (collect_f_answer answers1 st ctx b border)), (proj1 (collect_f_answer answers2 st ctx b border)).
  reflexivity.
Qed.

Lemma collect_f_state answers st ctx b border :
  fst (newly_confirmed_f cm T answers st ctx b border) = st
  \/ exists key h, fst (newly_confirmed_f cm T answers st ctx b border) = fetch cm T answers st key h.
Proof.
  destruct (collect_f_answer answers st ctx b border) as [_ [H1 H2]].
  destruct (newly_confirmed (fs_world st) ctx b border) eqn:E;
    try (left; apply H1; discriminate).
  right. destruct (H2 eq_refl) as [k [h [_ Hf]]]. exists k, h. exact Hf.
Qed.

Lemma sub_rollup_f_state answers st key m acc :
  fst (sub_rollup_f cm T answers st key m acc) = st
  \/ exists h, fst (sub_rollup_f cm T answers st key m acc) = fetch cm T answers st key h.
Proof.
  destruct (sub_rollup (fs_world st) m) as [r|] eqn:E.
  - left. rewrite (sub_rollup_f_some answers st key m acc r E). reflexivity.
  - right. destruct (sub_rollup_f_none answers st key m acc E) as [h [_ [_ Hf]]]. exists h. rewrite Hf. reflexivity.
Qed.

Lemma run_round_state answers ctx st q :
  fst (run_round cm T answers ctx st q) = st
  \/ exists key h, fst (run_round cm T answers ctx st q) = fetch cm T answers st key h.
Proof.
  unfold run_round. destruct (lookup_block (fs_world st) (fst q)) as [b|]; [|left; reflexivity].
  destruct (snd q =? 9).
  - destruct (sub_rollup_f_state answers st (rb_hash b) (rb_manifest b) []) as [H|[h H]];
      destruct (sub_rollup_f cm T answers st (rb_hash b) (rb_manifest b) []) as [st' [l|]]; cbn in *;
      [left|left|right; exists (rb_hash b), h|right; exists (rb_hash b), h]; exact H.
  - destruct (collect_f_state answers st ctx b (snd q)) as [H|[k [h H]]];
      destruct (newly_confirmed_f cm T answers st ctx b (snd q)) as [st' r]; cbn in *;
      [left|right; exists k, h]; exact H.
Qed.

(* any history of calls, the subordinate answering anything, differently each time *)
Lemma run_rounds_invariant ctx : forall rs st,
  store_validated (fs_world st) ->
  store_validated (fs_world (fst (run_rounds cm T ctx st rs)))
  /\ store_extends (fs_world st) (fs_world (fst (run_rounds cm T ctx st rs))).
Proof.
  induction rs as [|[answers q] rs IH]; intros st Hv; cbn [run_rounds].
  - cbn. split; [exact Hv|apply store_extends_refl].
  - destruct (run_round cm T answers ctx st q) as [st' o] eqn:R.
    assert (Hst : st' = fst (run_round cm T answers ctx st q)) by (rewrite R; reflexivity).
    assert (Hv' : store_validated (fs_world st') /\ store_extends (fs_world st) (fs_world st')).
    { destruct (run_round_state answers ctx st q) as [H|[k [h H]]]; rewrite Hst, H.
      - split; [exact Hv|apply store_extends_refl].
      - split; [apply fetch_keeps; exact Hv|apply fetch_extends]. }
    destruct Hv' as [Hv' He]. destruct (IH st' Hv') as [Hv'' He'].
    destruct (run_rounds cm T ctx st' rs) as [st'' os]. cbn in *. split; [exact Hv''|].
    eapply store_extends_trans; eassumption.
Qed.

(* ---- content committed by the headers *)

Definition committed_of (h : N) : list N := match assoc cm h with Some c => c | None => [] end.

Lemma validated_rollup_is_committed w : store_validated w -> forall m l,
  sub_rollup w m = Some l -> (forall h, In h m -> is_genesis w h = false) ->
  map retx_id l = concat (map committed_of m).
Proof.
  intros Hv. induction m as [|h m IH]; intros l H Hg; cbn in *.
  - injection H as <-. reflexivity.
  - destruct (lookup_pending w h) as [x|] eqn:E; [|discriminate].
    destruct (sub_rollup w m) as [r|] eqn:E2; [|discriminate]. injection H as <-.
    rewrite map_app, (IH r eq_refl) by auto. f_equal.
    specialize (Hv h x E). unfold bundle_valid in Hv. cbn [fst snd] in Hv.
    rewrite (Hg h (or_introl eq_refl)), orb_false_r in Hv. unfold committed_of.
    destruct (assoc cm h); [apply ns_eqb_eq; exact Hv|discriminate].
Qed.

(* two nodes with validated stores (whatever each received, in whatever order, from whatever subordinates)
   that both can serve a manifest give the same sub rollup, name by name *)
Lemma validated_stores_agree w1 w2 m l1 l2 : store_validated w1 -> store_validated w2 ->
  sub_rollup w1 m = Some l1 -> sub_rollup w2 m = Some l2 ->
  (forall h, In h m -> is_genesis w1 h = false /\ is_genesis w2 h = false) ->
  map retx_id l1 = map retx_id l2.
Proof.
  intros V1 V2 H1 H2 Hg.
  rewrite (validated_rollup_is_committed w1 V1 m l1 H1) by (intros h Hin; apply (Hg h Hin)).
  rewrite (validated_rollup_is_committed w2 V2 m l2 H2) by (intros h Hin; apply (Hg h Hin)).
  reflexivity.
Qed.

End Rec.

(* C18 -- from hex keys to the KEYBYTES API (TryUpdate / TryDelete / TryGet), histories,
   and history independence of the node tree (hence of the root for any hash function). *)
From Coq Require Import List NArith Bool Arith Lia ZifyBool ZifyNat ZifyN.
From GQ Require Import Lib.Key Model.C18 Proofs.C18_Base Proofs.C18_Ext Proofs.C18_Insert Proofs.C18_Delete.
Import ListNotations.

(* stored keys are keybytesToHex images of byte strings *)
Definition valid (q : hkey) : Prop := exists bs, wf_bytes bs /\ q = hex bs.

Definition Inv (t : node) : Prop :=
  wf t = true /\ forall q, lookup t q <> None -> valid q.

(* ---------- keybytesToHex ---------- *)
Lemma hex_not_nil bs : hex bs <> [].
Proof. destruct bs; discriminate. Qed.

Lemma tk_cons x q : q <> [] -> (x < 16)%N -> tk q -> tk (x :: q).
Proof. destruct q; [congruence|]. intros _ Hx Hq. split; assumption. Qed.

Lemma hex_tk bs : wf_bytes bs -> tk (hex bs).
Proof.
  induction 1 as [|b r Hb Hr IH]; cbn [hex].
  - cbn. lia.
  - assert ((b / 16 < 16)%N) by (apply N.div_lt_upper_bound; lia).
    assert ((b mod 16 < 16)%N) by (apply N.mod_lt; lia).
    apply tk_cons; [discriminate|assumption|].
    apply tk_cons; [apply hex_not_nil|assumption|exact IH].
Qed.

Lemma hex_inj a : forall b, hex a = hex b -> a = b.
Proof.
  induction a as [|x a IH]; intros [|y b] He; cbn [hex] in He; auto.
  - destruct b; discriminate.
  - destruct a; discriminate.
  - injection He as H1 H2 H3. f_equal; auto.
    rewrite (N.div_mod x 16), (N.div_mod y 16) by lia. congruence.
Qed.

Lemma hex_not_sprefix a : forall b, wf_bytes a -> wf_bytes b -> ~ sprefix (hex a) (hex b).
Proof.
  induction a as [|x a IH]; intros b Ha Hb (c & r & He).
  - destruct b as [|y b]; cbn [hex app] in He; [discriminate|].
    injection He as H1 _. inversion Hb as [|? ? Hy _]; subst.
    assert ((y / 16 < 16)%N) by (apply N.div_lt_upper_bound; lia). lia.
  - destruct b as [|y b]; cbn [hex app] in He.
    + destruct (hex a); discriminate.
    + injection He as _ _ H3. inversion Ha; inversion Hb; subst.
      apply (IH b); auto. exists c, r. exact H3.
Qed.

Lemma keqb_hex a b : keqb (hex a) (hex b) = keqb a b.
Proof.
  destruct (keqb a b) eqn:E.
  - apply keqb_eq in E. subst. apply keqb_refl.
  - apply keqb_neq in E. apply keqb_neq. intros H. apply E. apply hex_inj. exact H.
Qed.

(* ---------- the invariant gives the preconditions of insert/delete ---------- *)
Lemma Inv_okdom t : Inv t -> okdom t.
Proof. intros [_ Hd] q Hq. destruct (Hd q Hq) as (bs & Hb & ->). apply hex_tk. exact Hb. Qed.

Lemma Inv_pf t k : Inv t -> wf_bytes k -> pf t (hex k).
Proof.
  intros [_ Hd] Hk q Hq. destruct (Hd q Hq) as (bs & Hb & ->).
  split; apply hex_not_sprefix; auto.
Qed.

Lemma Inv_nil : Inv Nil.
Proof. split; [reflexivity|]. intros q Hq. exfalso. apply Hq. reflexivity. Qed.

(* stored values are never empty *)
Lemma wfn_values t : wfo t -> forall q v, lookup t q = Some v -> v <> [].
Proof.
  induction t as [|v0|k c IH|cs IH] using node_ind'; intros Hw q v Hq.
  - discriminate.
  - destruct Hw as [|Hw]; [discriminate|]. destruct q; [|discriminate]. cbn in Hq, Hw.
    injection Hq as <-. destruct v0; [discriminate|discriminate].
  - destruct Hw as [|Hw]; [discriminate|]. apply wfn_short in Hw as (_ & _ & Hc).
    destruct (lookup_short_some _ _ _ _ Hq) as (r & _ & Hr). apply (IH (or_intror Hc) r v Hr).
  - destruct Hw as [|Hw]; [discriminate|]. apply wfn_full in Hw as (_ & _ & Hf).
    destruct (lookup_full_some _ _ _ Hq) as (c & r & x & _ & Hx & Hr).
    rewrite Forall_forall in IH. apply (IH x (nth_error_In _ _ Hx) (Hf _ _ Hx) r v Hr).
Qed.

(* ---------- one TryUpdate / TryDelete ---------- *)
Lemma update_correct t k v : Inv t -> wf_bytes k ->
  exists t', update t k v = Some t' /\ Inv t' /\
    (forall q, lookup t' q = if keqb q (hex k) then (if is_empty v then None else Some v) else lookup t q).
Proof.
  intros Hi Hk. pose proof Hi as [Hw Hd]. apply wf_wfo in Hw.
  unfold update. destruct v as [|b v]; cbn [is_empty].
  - destruct (delete_correct t (hex k) Hw (Inv_okdom _ Hi) (Inv_pf _ _ Hi Hk) (hex_tk _ Hk))
      as (d & t' & Hdel & Hw' & Hl & _ & _).
    exists t'. rewrite Hdel. split; [reflexivity|]. split; [|exact Hl].
    split; [apply wf_wfo; exact Hw'|]. intros q Hq. rewrite Hl in Hq.
    destruct (keqb q (hex k)); [congruence|]. apply Hd. exact Hq.
  - destruct (insert_correct (b :: v) ltac:(discriminate) t (hex k) Hw (Inv_okdom _ Hi)
                (Inv_pf _ _ Hi Hk) (hex_tk _ Hk)) as (t' & Hins & Hw' & Hl & _).
    exists t'. split; [exact Hins|]. split; [|exact Hl].
    split; [apply wf_wfo; right; exact Hw'|]. intros q Hq. rewrite Hl in Hq.
    destruct (keqb q (hex k)) eqn:E.
    + apply keqb_eq in E. subst q. exists k. auto.
    + apply Hd. exact Hq.
Qed.

Lemma update_get t k v t' : Inv t -> wf_bytes k -> update t k v = Some t' ->
  forall k', get t' k' = if keqb k' k then v else get t k'.
Proof.
  intros Hi Hk Hu k'. destruct (update_correct t k v Hi Hk) as (t'' & Hu' & _ & Hl).
  rewrite Hu in Hu'. injection Hu' as <-. unfold get. rewrite Hl, keqb_hex.
  destruct (keqb k' k); auto. destruct v; reflexivity.
Qed.

(* ---------- histories ---------- *)
Definition hist := list (list N * list N).
Definition wf_hist (h : hist) : Prop := Forall (fun kv => wf_bytes (fst kv)) h.

(* the content a history leaves behind: last write wins, empty value = absent *)
Fixpoint apply_hist (f : list N -> list N) (h : hist) : list N -> list N :=
  match h with
  | [] => f
  | (k, v) :: h' => apply_hist (fun k' => if keqb k' k then v else f k') h'
  end.

Lemma apply_hist_ext f g h : (forall k, f k = g k) -> forall k, apply_hist f h k = apply_hist g h k.
Proof.
  revert f g. induction h as [|[k0 v0] h IH]; intros f g He k; cbn [apply_hist]; auto.
  apply IH. intros k'. destruct (keqb k' k0); auto.
Qed.

Lemma run_correct h : forall t, Inv t -> wf_hist h ->
  exists t', run t h = Some t' /\ Inv t' /\ forall k, get t' k = apply_hist (get t) h k.
Proof.
  induction h as [|[k v] h IH]; intros t Hi Hh.
  - exists t. auto.
  - inversion Hh as [|? ? Hk Hh']; subst. cbn [fst] in Hk.
    destruct (update_correct t k v Hi Hk) as (t1 & Hu & Hi1 & _).
    destruct (IH t1 Hi1 Hh') as (t' & Hr & Hi' & Hg).
    exists t'. cbn [run]. rewrite Hu. split; [exact Hr|]. split; [exact Hi'|].
    intros k0. rewrite Hg. cbn [apply_hist]. apply apply_hist_ext.
    intros k'. apply (update_get t k v t1 Hi Hk Hu).
Qed.

(* ---------- content determines the tree ---------- *)
Lemma content_determines_tree t1 t2 : Inv t1 -> Inv t2 ->
  (forall k, wf_bytes k -> get t1 k = get t2 k) -> t1 = t2.
Proof.
  intros [Hw1 Hd1] [Hw2 Hd2] Hg. apply wf_extensional_lemma; auto. intros q.
  assert (Hv : valid q -> lookup t1 q = lookup t2 q).
  { intros (bs & Hb & ->). specialize (Hg bs Hb). unfold get in Hg.
    destruct (lookup t1 (hex bs)) as [v1|] eqn:E1; destruct (lookup t2 (hex bs)) as [v2|] eqn:E2; auto.
    - congruence.
    - exfalso. apply (wfn_values t1 (proj1 (wf_wfo _) Hw1) _ _ E1). exact Hg.
    - exfalso. apply (wfn_values t2 (proj1 (wf_wfo _) Hw2) _ _ E2). auto. }
  destruct (lookup t1 q) as [v1|] eqn:E1.
  - apply Hv. apply Hd1. congruence.
  - destruct (lookup t2 q) as [v2|] eqn:E2; auto.
    apply Hv. apply Hd2. congruence.
Qed.

Lemma history_independent_lemma h1 h2 : wf_hist h1 -> wf_hist h2 ->
  (forall k, wf_bytes k -> apply_hist (fun _ => []) h1 k = apply_hist (fun _ => []) h2 k) ->
  exists t, run Nil h1 = Some t /\ run Nil h2 = Some t /\ wf t = true.
Proof.
  intros H1 H2 He.
  destruct (run_correct h1 Nil Inv_nil H1) as (t1 & R1 & I1 & G1).
  destruct (run_correct h2 Nil Inv_nil H2) as (t2 & R2 & I2 & G2).
  assert (t1 = t2).
  { apply content_determines_tree; auto. intros k Hk. rewrite G1, G2.
    rewrite (apply_hist_ext (get Nil) (fun _ => []) h1) by reflexivity.
    rewrite (apply_hist_ext (get Nil) (fun _ => []) h2) by reflexivity.
    apply He. exact Hk. }
  subst t2. exists t1. destruct I1. auto.
Qed.

(* C18 -- several handles on one trie (SecureTrie.Copy / state.Database.CopyTrie / StateDB.Copy).
   In the model a handle is a tree and operations are pure functions, so persistence is immediate:
   an operation addressed to one handle leaves every other handle as it was, and each handle is the
   result of its own linear history (what was written through it and, before it was taken, through the
   handle it was copied from).  Hence everything proved for single histories (content, canonical
   form, root = root of a fresh trie with the same content, proofs) holds for every handle.  The real
   code shares node pointers and key slices between the handles; that it nevertheless behaves like
   these pure functions is what the harness' copy/persistence monitors check. *)
From Coq Require Import List NArith Bool Arith Lia.
From GQ Require Import Lib.Key Model.C18 Proofs.C18_Base Proofs.C18_History.
Import ListNotations.

(* ---------- list surgery for the history lists ---------- *)
Lemma set_nth_h_length hs i x : length (set_nth_h hs i x) = length hs.
Proof. revert i. induction hs as [|y r IH]; intros [|i]; cbn; auto. Qed.

Lemma nth_error_set_nth_h_eq hs i x : i < length hs -> nth_error (set_nth_h hs i x) i = Some x.
Proof.
  revert i. induction hs as [|y r IH]; intros [|i] Hl; cbn in *; try lia; auto.
  apply IH. lia.
Qed.

Lemma nth_error_set_nth_h_neq hs i j x : i <> j -> nth_error (set_nth_h hs i x) j = nth_error hs j.
Proof.
  revert i j. induction hs as [|y r IH]; intros [|i] [|j] Hn; cbn; auto; try congruence.
Qed.

(* ---------- (a) an operation sequence that never addresses handle h leaves it as it was ---------- *)
Lemma mrun_untouched ops : forall hs hs' h,
  mrun hs ops = Some hs' -> forallb (fun o => negb (addresses h o)) ops = true -> h < length hs ->
  nth_error hs' h = nth_error hs h.
Proof.
  induction ops as [|o ops IH]; intros hs hs' h Hr Ha Hl; cbn [mrun] in Hr.
  - injection Hr as <-. reflexivity.
  - cbn [forallb] in Ha. apply andb_true_iff in Ha as [Ho Ha].
    destruct o as [h' k v|h'].
    + destruct (nth_error hs h') as [t|] eqn:Et; [|discriminate].
      destruct (update t k v) as [t'|] eqn:Eu; [|discriminate].
      cbn [addresses] in Ho. apply negb_true_iff in Ho. apply Nat.eqb_neq in Ho.
      rewrite (IH _ _ h Hr Ha) by (rewrite set_nth_length; exact Hl).
      apply nth_error_set_nth_neq. congruence.
    + destruct (nth_error hs h') as [t|] eqn:Et; [|discriminate].
      rewrite (IH _ _ h Hr Ha) by (rewrite app_length; cbn; lia).
      apply nth_error_app1. exact Hl.
Qed.

(* ---------- (b) no panic, every handle stays a reachable (canonical) trie ---------- *)
Definition wf_mops (ops : list mop) : Prop :=
  Forall (fun o => match o with MUpd _ k _ => wf_bytes k | MCopy _ => True end) ops.

(* every operation addresses an existing handle (n = number of handles so far) *)
Fixpoint in_range (n : nat) (ops : list mop) : bool :=
  match ops with
  | [] => true
  | MUpd h _ _ :: r => (h <? n) && in_range n r
  | MCopy h :: r => (h <? n) && in_range (S n) r
  end.

Lemma Forall_set_nth (P : node -> Prop) hs i t : Forall P hs -> P t -> Forall P (set_nth hs i t).
Proof.
  intros Hf Ht. revert i. induction Hf as [|x r Hx Hr IH]; intros [|i]; cbn; auto.
Qed.

Lemma mrun_no_panic ops : forall hs,
  Forall Inv hs -> wf_mops ops -> in_range (length hs) ops = true ->
  exists hs', mrun hs ops = Some hs' /\ Forall Inv hs'.
Proof.
  induction ops as [|o ops IH]; intros hs Hi Hw Hr.
  - exists hs. auto.
  - inversion Hw as [|? ? Ho Hw']; subst. cbn [in_range] in Hr. cbn [mrun].
    destruct o as [h k v|h]; apply andb_true_iff in Hr as [Hh Hr]; apply Nat.ltb_lt in Hh.
    + destruct (nth_error hs h) as [t|] eqn:Et; [|apply nth_error_None in Et; lia].
      assert (Ht : Inv t) by (rewrite Forall_forall in Hi; apply Hi; eapply nth_error_In; eauto).
      destruct (update_correct t k v Ht Ho) as (t' & Hu & Hi' & _). rewrite Hu.
      apply IH; auto.
      * apply Forall_set_nth; auto.
      * rewrite set_nth_length. exact Hr.
    + destruct (nth_error hs h) as [t|] eqn:Et; [|apply nth_error_None in Et; lia].
      assert (Ht : Inv t) by (rewrite Forall_forall in Hi; apply Hi; eapply nth_error_In; eauto).
      apply IH; auto.
      * apply Forall_app. split; auto.
      * rewrite app_length. cbn. rewrite Nat.add_1_r. exact Hr.
Qed.

(* ---------- (c) each handle is the result of its own linear history ---------- *)
Lemma run_app a : forall t b,
  run t (a ++ b) = match run t a with Some t1 => run t1 b | None => None end.
Proof.
  induction a as [|[k v] a IH]; intros t b; cbn [app run]; auto.
  destruct (update t k v); auto.
Qed.

Definition tracks (t : node) (x : hist) : Prop := run Nil x = Some t /\ wf_hist x.

Lemma Forall2_nth_l {A B} (R : A -> B -> Prop) l1 l2 i a :
  Forall2 R l1 l2 -> nth_error l1 i = Some a -> exists b, nth_error l2 i = Some b /\ R a b.
Proof.
  intros Hf. revert i. induction Hf as [|x y r1 r2 Hxy Hr IH]; intros [|i] Hn; cbn in *; try discriminate.
  - injection Hn as <-. eauto.
  - apply IH. exact Hn.
Qed.

Lemma Forall2_set_nth (R : node -> hist -> Prop) hs xs i t x :
  Forall2 R hs xs -> R t x -> Forall2 R (set_nth hs i t) (set_nth_h xs i x).
Proof.
  intros Hf Hr. revert i. induction Hf as [|a b r1 r2 Hab Hrr IH]; intros [|i]; cbn; auto.
Qed.

Lemma mrun_linear ops : forall hs xs hs',
  wf_mops ops -> Forall2 tracks hs xs -> mrun hs ops = Some hs' ->
  Forall2 tracks hs' (mhist xs ops).
Proof.
  induction ops as [|o ops IH]; intros hs xs hs' Hw Hf Hr; cbn [mrun] in Hr; cbn [mhist].
  - injection Hr as <-. exact Hf.
  - inversion Hw as [|? ? Ho Hw']; subst.
    destruct o as [h k v|h].
    + destruct (nth_error hs h) as [t|] eqn:Et; [|discriminate].
      destruct (update t k v) as [t'|] eqn:Eu; [|discriminate].
      destruct (Forall2_nth_l _ _ _ _ _ Hf Et) as (x & Ex & Hx & Hwx). cbn [mhist]. unfold hist in Ex. rewrite Ex.
      apply (IH (set_nth hs h t') _ hs' Hw'); [|exact Hr].
      apply Forall2_set_nth; [exact Hf|]. split.
      * rewrite run_app, Hx. cbn [run]. rewrite Eu. reflexivity.
      * apply Forall_app. split; [exact Hwx|]. constructor; [exact Ho|constructor].
    + destruct (nth_error hs h) as [t|] eqn:Et; [|discriminate].
      destruct (Forall2_nth_l _ _ _ _ _ Hf Et) as (x & Ex & Hx). cbn [mhist]. unfold hist in Ex. rewrite Ex.
      apply (IH (hs ++ [t]) _ hs' Hw'); [|exact Hr].
      apply Forall2_app; [exact Hf|]. constructor; [exact Hx|constructor].
Qed.

Lemma handle_own_history ops ts h t :
  wf_mops ops -> mrun [Nil] ops = Some ts -> nth_error ts h = Some t ->
  exists x, nth_error (mhist [[]] ops) h = Some x /\ wf_hist x /\ run Nil x = Some t /\ Inv t /\
    forall k, get t k = apply_hist (fun _ => []) x k.
Proof.
  intros Hw Hr Hn.
  assert (H0 : Forall2 tracks [Nil] [[]]).
  { constructor; [|constructor]. split; [reflexivity|constructor]. }
  pose proof (mrun_linear ops [Nil] [[]] ts Hw H0 Hr) as Hf.
  destruct (Forall2_nth_l _ _ _ _ _ Hf Hn) as (x & Ex & Hx & Hwx).
  exists x. split; [exact Ex|]. split; [exact Hwx|]. split; [exact Hx|].
  destruct (run_correct x Nil Inv_nil Hwx) as (t' & Hr' & Hi & Hg).
  rewrite Hx in Hr'. injection Hr' as <-. split; [exact Hi|].
  intros k. rewrite Hg. apply apply_hist_ext. reflexivity.
Qed.

(* ---------- (d) the tree (hence any root) of a handle is the tree of a fresh trie with its content ---------- *)
Lemma handle_is_fresh_trie ops ts h t y :
  wf_mops ops -> mrun [Nil] ops = Some ts -> nth_error ts h = Some t -> wf_hist y ->
  (forall k, wf_bytes k -> get t k = apply_hist (fun _ => []) y k) ->
  run Nil y = Some t.
Proof.
  intros Hw Hr Hn Hy He.
  destruct (handle_own_history ops ts h t Hw Hr Hn) as (x & _ & _ & _ & Hi & _).
  destruct (run_correct y Nil Inv_nil Hy) as (t2 & Hr2 & Hi2 & Hg2).
  rewrite Hr2. f_equal. symmetry. apply content_determines_tree; auto.
  intros k Hk. rewrite He by exact Hk. rewrite Hg2. apply apply_hist_ext. reflexivity.
Qed.

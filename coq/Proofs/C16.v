(* C16 — lemmas about the address model (Model/C16.v). Property theorems: Props/C16.v *)
From Coq Require Import List NArith PeanoNat Arith Bool Lia ZifyBool ZifyNat ZifyN String.
From GQ Require Import Lib.Key Model.C16 Generated.C16Sites.
Import ListNotations.
Local Open Scope N_scope.
Local Notation length := List.length (only parsing).

(* ------------------------------------------------------------------ *)
(* finite ranges: brute force over [0, n) lifted to a universally quantified statement *)

Definition N_range (n : nat) : list N := map N.of_nat (seq 0 n).

Lemma N_range_in n x : x < N.of_nat n -> In x (N_range n).
Proof.
  intros Hx. unfold N_range. apply in_map_iff. exists (N.to_nat x). split; [lia|].
  apply in_seq. lia.
Qed.

Lemma forall_range (f : N -> bool) n :
  forallb f (N_range n) = true -> forall x, x < N.of_nat n -> f x = true.
Proof. intros Hf x Hx. rewrite forallb_forall in Hf. apply Hf, N_range_in, Hx. Qed.

Lemma forall_range2 (f : N -> N -> bool) n m :
  forallb (fun x => forallb (f x) (N_range m)) (N_range n) = true ->
  forall x y, x < N.of_nat n -> y < N.of_nat m -> f x y = true.
Proof.
  intros Hf x y Hx Hy.
  pose proof (forall_range _ _ Hf x Hx) as H1. cbv beta in H1.
  exact (forall_range _ _ H1 y Hy).
Qed.

(* ------------------------------------------------------------------ *)
(* byte-level facts, each decided exhaustively *)

(* Location() nibble extraction = div / mod 16, both < 16, and BytePrefix inverts it: all 256 bytes *)
Definition byte_split_ok (b0 : N) : bool :=
  let l := location_of [b0] in
  keqb l [b0 / 16; b0 mod 16] && (nth 0 l 0 <? 16) && (nth 1 l 0 <? 16) && (byte_prefix l =? b0).

Lemma byte_split_all : forallb byte_split_ok (N_range 256) = true.
Proof. vm_compute. reflexivity. Qed.

(* BytePrefix is injective on the 16 x 16 zone locations and Location() inverts it: all 256 x 256 pairs *)
Definition prefix_pair_ok (p q : N) : bool :=
  let l1 := [p / 16; p mod 16] in
  let l2 := [q / 16; q mod 16] in
  (byte_prefix l1 =? p) && keqb (location_of [byte_prefix l1]) l1 &&
  (negb (byte_prefix l1 =? byte_prefix l2) || (p =? q)).

Lemma prefix_pair_all : forallb (fun p => forallb (prefix_pair_ok p) (N_range 256)) (N_range 256) = true.
Proof. vm_compute. reflexivity. Qed.

(* the ledger threshold "> 127" is the high bit of the byte: all 256 bytes *)
Definition ledger_bit_ok (b1 : N) : bool :=
  Bool.eqb (127 <? b1) (N.testbit b1 7) && Bool.eqb (b1 <=? 127) (negb (N.testbit b1 7)).

Lemma ledger_bit_all : forallb ledger_bit_ok (N_range 256) = true.
Proof. vm_compute. reflexivity. Qed.

(* hex digits: all 16 nibbles decode to themselves, are hex characters, and are neither 'x' nor 'X' *)
Definition nibble_ok (n : N) : bool :=
  match hex_val (hex_digit n) with Some m => m =? n | None => false end
  && is_hex_char (hex_digit n) && negb (hex_digit n =? 120) && negb (hex_digit n =? 88).

Lemma nibble_all : forallb nibble_ok (N_range 16) = true.
Proof. vm_compute. reflexivity. Qed.

Lemma nibble_spec n : n < 16 ->
  hex_val (hex_digit n) = Some n /\ is_hex_char (hex_digit n) = true /\ hex_digit n <> 120 /\ hex_digit n <> 88.
Proof.
  intros Hn. pose proof (forall_range _ 16 nibble_all n Hn) as H. unfold nibble_ok in H.
  destruct (hex_val (hex_digit n)) as [m|] eqn:E; cbn in H; [|discriminate].
  repeat rewrite andb_true_iff in H. destruct H as [[[H1 H2] H3] H4].
  apply N.eqb_eq in H1. subst m. repeat split; auto.
  - apply negb_true_iff, N.eqb_neq in H3. exact H3.
  - apply negb_true_iff, N.eqb_neq in H4. exact H4.
Qed.

(* ------------------------------------------------------------------ *)
(* set_bytes *)

Lemma set_bytes_length n b : length (set_bytes n b) = n.
Proof.
  unfold set_bytes. destruct (Nat.ltb n (length b)) eqn:E.
  - apply Nat.ltb_lt in E. rewrite skipn_length. lia.
  - apply Nat.ltb_ge in E. rewrite app_length, repeat_length. lia.
Qed.

Lemma set_bytes_id n b : length b = n -> set_bytes n b = b.
Proof.
  intros H. unfold set_bytes. rewrite H, Nat.ltb_irrefl, Nat.sub_diag. reflexivity.
Qed.

Lemma to20_length b : length (to20 b) = 20%nat.
Proof. apply set_bytes_length. Qed.

Lemma to20_id b : length b = 20%nat -> to20 b = b.
Proof. apply set_bytes_id. Qed.

Lemma in_skipn_in {A} (x : A) n l : In x (skipn n l) -> In x l.
Proof. revert l; induction n as [|n IH]; intros [|y l] H; cbn in *; auto. Qed.

Lemma set_bytes_wf n b : wf_bytes b -> wf_bytes (set_bytes n b).
Proof.
  intros H. unfold set_bytes, wf_bytes in *. destruct (Nat.ltb n (length b)).
  - rewrite Forall_forall in *. intros x Hx. apply H. eapply in_skipn_in; eauto.
  - apply Forall_app. split; [|exact H]. apply Forall_forall. intros x Hx.
    apply repeat_spec in Hx. subst. lia.
Qed.

Lemma hash_of_20 b : length b = 20%nat -> bytes_to_hash b = repeat 0 12 ++ b.
Proof.
  intros H. unfold bytes_to_hash, set_bytes, HASH_LENGTH. rewrite H. reflexivity.
Qed.

Lemma zero_address_length l : length (zero_address l) = 20%nat.
Proof. reflexivity. Qed.

(* ------------------------------------------------------------------ *)
(* IsInChainScope *)

Lemma context_zone_inv l : (context l =? ZONE_CTX) = true -> exists r z t, l = r :: z :: t.
Proof. destruct l as [|r [|z t]]; cbn; try discriminate. eauto. Qed.

(* on exactly 20 bytes IsInChainScope is the zone predicate: the zero-address clause is subsumed *)
Lemma in_scope_20 b l : length b = 20%nat -> in_chain_scope b l = in_zone b l.
Proof.
  intros Hb. unfold in_chain_scope, in_zone.
  destruct (context l =? ZONE_CTX) eqn:Ec; cbn [negb andb]; [|reflexivity].
  destruct (keqb (bytes_to_hash b) (bytes_to_hash (zero_address l))) eqn:Eh.
  - apply keqb_eq in Eh. rewrite (hash_of_20 b Hb), (hash_of_20 _ (zero_address_length l)) in Eh.
    apply app_inv_head in Eh. subst b. cbn. symmetry. apply N.eqb_refl.
  - destruct b as [|b0 b']; [discriminate|]. reflexivity.
Qed.

Lemma in_zone_ctx a l : in_zone a l = true -> (context l =? ZONE_CTX) = true.
Proof. unfold in_zone. intros H. apply andb_true_iff in H. tauto. Qed.

Lemma contains_address_in_zone l a : contains_address l a = in_zone a l.
Proof.
  unfold contains_address, in_zone. destruct (context l =? ZONE_CTX); cbn; [|reflexivity].
  apply N.eqb_sym.
Qed.

(* ------------------------------------------------------------------ *)
(* BytesToAddress *)

Definition classify (a : bytes) (l : location) : res :=
  if in_zone a l then Internal a else External a.

(* the repaired constructor is the specification for EVERY input *)
Lemma bta_fixed_spec b l : bytes_to_address_gen true b l = classify (to20 b) l.
Proof.
  unfold bytes_to_address_gen, classify. rewrite (in_scope_20 _ l (to20_length b)). reflexivity.
Qed.

(* current and repaired constructor coincide on 20-byte inputs *)
Lemma bta_20_spec fx b l : length b = 20%nat -> bytes_to_address_gen fx b l = classify b l.
Proof.
  intros Hb. unfold bytes_to_address_gen, classify. rewrite (to20_id b Hb).
  destruct fx; rewrite (in_scope_20 b l Hb); reflexivity.
Qed.

Lemma bta_bytes fx b l : res_bytes (bytes_to_address_gen fx b l) = to20 b.
Proof. unfold bytes_to_address_gen. destruct (in_chain_scope _ l); reflexivity. Qed.

Lemma bta_not_err fx b l : bytes_to_address_gen fx b l <> Err.
Proof. unfold bytes_to_address_gen. destruct (in_chain_scope _ l); discriminate. Qed.

Lemma classify_internal a l x : classify a l = Internal x -> x = a /\ in_zone a l = true.
Proof. unfold classify. destruct (in_zone a l); intros H; inversion H; auto. Qed.

Lemma classify_external a l x : classify a l = External x -> x = a /\ in_zone a l = false.
Proof. unfold classify. destruct (in_zone a l); intros H; inversion H; auto. Qed.

Lemma internal_in_zone_20 fx b l a :
  length b = 20%nat -> bytes_to_address_gen fx b l = Internal a -> a = b /\ in_zone a l = true.
Proof.
  intros Hb H. rewrite (bta_20_spec fx b l Hb) in H. apply classify_internal in H.
  destruct H as [-> H]. auto.
Qed.

Lemma external_out_of_zone_20 fx b l a :
  length b = 20%nat -> bytes_to_address_gen fx b l = External a -> a = b /\ in_zone a l = false.
Proof.
  intros Hb H. rewrite (bta_20_spec fx b l Hb) in H. apply classify_external in H.
  destruct H as [-> H]. auto.
Qed.

Lemma internal_in_zone_fixed b l a :
  bytes_to_address_gen true b l = Internal a -> a = to20 b /\ in_zone a l = true.
Proof. rewrite bta_fixed_spec. intros H. apply classify_internal in H. destruct H as [-> H]. auto. Qed.

Lemma external_out_of_zone_fixed b l a :
  bytes_to_address_gen true b l = External a -> a = to20 b /\ in_zone a l = false.
Proof. rewrite bta_fixed_spec. intros H. apply classify_external in H. destruct H as [-> H]. auto. Qed.

(* F10 witnesses (replayed on the real code by the harness corpus) *)
Definition f10_crop_input : bytes := 0 :: 16 :: repeat 7 19.          (* 21 bytes 00 10 07.. *)
Definition f10_pad_input : bytes := 16 :: repeat 7 18.                (* 19 bytes 10 07..    *)
Definition f10_ext_input : bytes := 85 :: 0 :: repeat 7 19.           (* 21 bytes 55 00 07.. *)

Lemma f10_crop : bytes_to_address_gen false f10_crop_input [0; 0] = Internal (16 :: repeat 7 19)
                 /\ in_zone (16 :: repeat 7 19) [0; 0] = false /\ in_zone (16 :: repeat 7 19) [1; 0] = true.
Proof. vm_compute. auto. Qed.

Lemma f10_pad : bytes_to_address_gen false f10_pad_input [1; 0] = Internal (0 :: 16 :: repeat 7 18)
                /\ in_zone (0 :: 16 :: repeat 7 18) [1; 0] = false /\ in_zone (0 :: 16 :: repeat 7 18) [0; 0] = true.
Proof. vm_compute. auto. Qed.

Lemma f10_ext : bytes_to_address_gen false f10_ext_input [0; 0] = External (0 :: repeat 7 19)
                /\ in_zone (0 :: repeat 7 19) [0; 0] = true.
Proof. vm_compute. auto. Qed.

(* ------------------------------------------------------------------ *)
(* zone / ledger partition *)

Definition valid_zone (l : location) : Prop := exists r z, l = [r; z] /\ r < 16 /\ z < 16.

Lemma location_of_head a : location_of a = location_of [nth 0 a 0].
Proof. reflexivity. Qed.

Lemma byte_split_spec b0 : b0 < 256 ->
  location_of [b0] = [b0 / 16; b0 mod 16] /\ b0 / 16 < 16 /\ b0 mod 16 < 16 /\ byte_prefix (location_of [b0]) = b0.
Proof.
  intros Hb. pose proof (forall_range _ 256 byte_split_all b0 Hb) as H. unfold byte_split_ok in H.
  repeat rewrite andb_true_iff in H. destruct H as [[[H1 H2] H3] H4].
  apply keqb_eq in H1. apply N.eqb_eq in H4. rewrite H1 in *. cbn in H2, H3.
  repeat split; auto; lia.
Qed.

Lemma valid_zone_prefix r z : r < 16 -> z < 16 ->
  byte_prefix [r; z] = r * 16 + z /\ r * 16 + z < 256.
Proof. intros. cbn. split; [apply N.mod_small|]; lia. Qed.

Lemma zone_of_address a : nth 0 a 0 < 256 ->
  valid_zone (location_of a) /\ in_zone a (location_of a) = true.
Proof.
  intros Hb. rewrite location_of_head. destruct (byte_split_spec _ Hb) as (H1 & H2 & H3 & H4).
  split.
  - rewrite H1. exists (nth 0 a 0 / 16), (nth 0 a 0 mod 16). auto.
  - unfold in_zone. rewrite H4, !N.eqb_refl. reflexivity.
Qed.

Lemma zone_unique a l : valid_zone l -> in_zone a l = true -> l = location_of a.
Proof.
  intros (r & z & -> & Hr & Hz) H. unfold in_zone in H. apply andb_true_iff in H. destruct H as [_ H].
  apply N.eqb_eq in H. destruct (valid_zone_prefix r z Hr Hz) as [Hp Hlt].
  rewrite location_of_head, H, Hp.
  assert (Hq : r * 16 + z < N.of_nat 256) by lia.
  pose proof (forall_range2 _ 256 256 prefix_pair_all (r * 16 + z) (r * 16 + z) Hq Hq) as Hk.
  unfold prefix_pair_ok in Hk. repeat rewrite andb_true_iff in Hk. destruct Hk as [[_ Hk] _].
  apply keqb_eq in Hk.
  assert (Hd : (r * 16 + z) / 16 = r) by (symmetry; apply (N.div_unique _ 16 r z); lia).
  assert (Hm : (r * 16 + z) mod 16 = z) by (symmetry; apply (N.mod_unique _ 16 r z); lia).
  rewrite Hd, Hm in Hk. rewrite Hp in Hk. symmetry. exact Hk.
Qed.

Lemma ledger_partition a : (is_qi a = true /\ is_quai a = false) \/ (is_qi a = false /\ is_quai a = true).
Proof. unfold is_qi, is_quai. destruct (127 <? second a) eqn:E; [left|right]; split; auto; lia. Qed.

Lemma ledger_negb a : is_qi a = negb (is_quai a).
Proof. destruct (ledger_partition a) as [[-> ->]|[-> ->]]; reflexivity. Qed.

Lemma ledger_high_bit a : second a < 256 -> is_qi a = N.testbit (second a) 7.
Proof.
  intros H. pose proof (forall_range _ 256 ledger_bit_all _ H) as Hk. unfold ledger_bit_ok in Hk.
  apply andb_true_iff in Hk. destruct Hk as [Hk _]. apply eqb_prop in Hk. exact Hk.
Qed.

Lemma wf_nth a i : wf_bytes a -> nth i a 0 < 256.
Proof.
  intros H. unfold wf_bytes in H. rewrite Forall_forall in H.
  destruct (Nat.lt_ge_cases i (length a)) as [Hi|Hi].
  - apply H, nth_In, Hi.
  - rewrite nth_overflow by exact Hi. lia.
Qed.

(* non-zone node locations (prime, region): nothing is in scope *)
Lemma non_zone_nothing_in_scope b l : (context l =? ZONE_CTX) = false -> in_chain_scope b l = false.
Proof. intros H. unfold in_chain_scope. rewrite H. reflexivity. Qed.

(* ------------------------------------------------------------------ *)
(* InternalAnd{Quai,Qi}Address *)

Lemma internal_and_quai_spec r a : internal_and_quai r = Some a <-> (r = Internal a /\ is_quai a = true).
Proof.
  destruct r as [x|x|]; cbn; try (split; [discriminate|intros [H _]; discriminate]).
  pose proof (ledger_negb x) as Hn. destruct (is_qi x) eqn:E; split.
  - discriminate.
  - intros [H H2]; inversion H; subst. rewrite H2 in Hn. discriminate.
  - intros H; inversion H; subst. split; [reflexivity|]. destruct (is_quai a); [reflexivity|discriminate].
  - intros [H _]; inversion H; reflexivity.
Qed.

Lemma internal_and_qi_spec r a : internal_and_qi r = Some a <-> (r = Internal a /\ is_qi a = true).
Proof.
  destruct r as [x|x|]; cbn; try (split; [discriminate|intros [H _]; discriminate]).
  pose proof (ledger_negb x) as Hn. destruct (is_quai x) eqn:E; split.
  - discriminate.
  - intros [H H2]; inversion H; subst. rewrite H2 in Hn. discriminate.
  - intros H; inversion H; subst. split; [reflexivity|]. exact Hn.
  - intros [H _]; inversion H; reflexivity.
Qed.

Lemma internal_quai_qi_exclusive r a b : internal_and_quai r = Some a -> internal_and_qi r = Some b -> False.
Proof.
  intros H1 H2. apply internal_and_quai_spec in H1. apply internal_and_qi_spec in H2.
  destruct H1 as [-> H1], H2 as [H2 H3]. inversion H2; subst. rewrite ledger_negb, H1 in H3. discriminate.
Qed.

(* ------------------------------------------------------------------ *)
(* hex text *)

Lemma hex_encode_length a : length (hex_encode a) = (2 * length a)%nat.
Proof.
  induction a as [|b a IH]; [reflexivity|].
  change (hex_encode (b :: a)) with (hex_digit (b / 16) :: hex_digit (b mod 16) :: hex_encode a).
  cbn [List.length]. rewrite IH. lia.
Qed.

Lemma hex_decode_encode a : wf_bytes a -> hex_decode (hex_encode a) = a.
Proof.
  unfold wf_bytes. induction a as [|b a IH]; intros H; [reflexivity|].
  inversion H as [|? ? Hb Ha]; subst.
  change (hex_encode (b :: a)) with (hex_digit (b / 16) :: hex_digit (b mod 16) :: hex_encode a).
  cbn [hex_decode].
  assert (H1 : b / 16 < 16) by (apply N.div_lt_upper_bound; lia).
  assert (H2 : b mod 16 < 16) by (apply N.mod_lt; lia).
  destruct (nibble_spec _ H1) as (-> & _). destruct (nibble_spec _ H2) as (-> & _).
  rewrite (IH Ha). f_equal. rewrite N.mul_comm. symmetry. apply N.div_mod. lia.
Qed.

Lemma hex_encode_all_hex a : wf_bytes a -> forallb is_hex_char (hex_encode a) = true.
Proof.
  unfold wf_bytes. induction a as [|b a IH]; intros H; [reflexivity|].
  inversion H as [|? ? Hb Ha]; subst.
  change (hex_encode (b :: a)) with (hex_digit (b / 16) :: hex_digit (b mod 16) :: hex_encode a).
  cbn [forallb].
  assert (H1 : b / 16 < 16) by (apply N.div_lt_upper_bound; lia).
  assert (H2 : b mod 16 < 16) by (apply N.mod_lt; lia).
  destruct (nibble_spec _ H1) as (_ & -> & _). destruct (nibble_spec _ H2) as (_ & -> & _).
  rewrite (IH Ha). reflexivity.
Qed.

Lemma hex_encode_no_0x a : wf_bytes a -> has_0x (hex_encode a) = false.
Proof.
  destruct a as [|b a]; intros H; [reflexivity|].
  inversion H as [|? ? Hb Ha]; subst.
  change (hex_encode (b :: a)) with (hex_digit (b / 16) :: hex_digit (b mod 16) :: hex_encode a).
  assert (H2 : b mod 16 < 16) by (apply N.mod_lt; lia).
  destruct (nibble_spec _ H2) as (_ & _ & Hx & HX).
  unfold has_0x. destruct (hex_digit (b / 16)) as [|p]; [reflexivity|].
  apply N.eqb_neq in Hx, HX. rewrite Hx, HX.
  repeat (destruct p as [p|p|]; try reflexivity).
Qed.

Lemma len_even_not_odd (s : list N) n : length s = (2 * n)%nat -> N.odd (len s) = false.
Proof.
  intros H. unfold len. rewrite H. rewrite Nat2N.inj_mul. change (N.of_nat 2) with 2.
  rewrite N.odd_mul. reflexivity.
Qed.

Lemma from_hex_encode a : wf_bytes a -> from_hex (hex_encode a) = a.
Proof.
  intros H. unfold from_hex. rewrite (hex_encode_no_0x a H).
  rewrite (len_even_not_odd _ _ (hex_encode_length a)). apply hex_decode_encode, H.
Qed.

Lemma from_hex_0x a : wf_bytes a -> from_hex (hex0x a) = a.
Proof.
  intros H. unfold from_hex, hex0x. cbn [has_0x N.eqb Pos.eqb orb skipn].
  rewrite (len_even_not_odd _ _ (hex_encode_length a)). apply hex_decode_encode, H.
Qed.

Lemma unmarshal_fixed_text_0x a : wf_bytes a -> length a = 20%nat -> unmarshal_fixed_text (hex0x a) = Some a.
Proof.
  intros H Hl. unfold unmarshal_fixed_text, hex0x. cbn [has_0x N.eqb Pos.eqb orb skipn].
  rewrite (len_even_not_odd _ _ (hex_encode_length a)). rewrite hex_encode_length, Hl.
  cbn [Nat.mul Nat.add Nat.div Nat.divmod fst Nat.eqb ADDRESS_LENGTH negb].
  rewrite (hex_encode_all_hex a H), (hex_decode_encode a H). reflexivity.
Qed.

Lemma is_hex_address_0x a : wf_bytes a -> length a = 20%nat -> is_hex_address (hex0x a) = true.
Proof.
  intros H Hl. unfold is_hex_address, hex0x. cbn [has_0x N.eqb Pos.eqb orb skipn].
  rewrite hex_encode_length, Hl, (hex_encode_all_hex a H). reflexivity.
Qed.

Definition quote (s : list N) : list N := 34 :: s ++ [34].

Lemma is_string_quote s : is_string (quote s) = true.
Proof.
  unfold is_string, quote. destruct s as [|c s]; [reflexivity|].
  cbn [app]. change (34 :: c :: s ++ [34]) with ((34 :: c :: s) ++ [34]).
  rewrite last_last. reflexivity.
Qed.

Lemma unquote_quote s : unquote (quote s) = s.
Proof. unfold unquote, quote. cbn [tl]. apply removelast_last. Qed.

(* ------------------------------------------------------------------ *)
(* all constructors on an encoding of the same 20 bytes *)

Lemma skipn_digest (p a : bytes) : length p = 12%nat -> skipn 12 (p ++ a) = a.
Proof. intros H. rewrite skipn_app, H, Nat.sub_diag, skipn_all2 by lia. reflexivity. Qed.

Lemma strip_zeros_bta_nonzero a : nth 0 a 0 <> 0 -> strip_zeros a = a.
Proof. destruct a as [|[|p] a]; cbn; intros H; congruence. Qed.

(* ------------------------------------------------------------------ *)
(* CheckIfBytesAreInternalAndQiAddress / IsConversionOutput / createObject guard *)

Lemma loc_eqb_in_zone a l : nth 0 a 0 < 256 -> valid_zone l -> loc_eqb (location_of a) l = in_zone a l.
Proof.
  intros Hb Hv. destruct (in_zone a l) eqn:E.
  - apply zone_unique in E; [|exact Hv]. subst l. apply keqb_refl.
  - apply keqb_neq. intros Heq. subst l. destruct (zone_of_address a Hb) as [_ H]. congruence.
Qed.

Lemma check_internal_qi_spec b l :
  check_internal_qi b l = (Nat.eqb (length b) 20) && in_zone b l && is_qi b.
Proof.
  unfold check_internal_qi, ADDRESS_LENGTH. destruct (Nat.eqb (length b) 20) eqn:E; cbn; [|reflexivity].
  apply Nat.eqb_eq in E. rewrite (in_scope_20 b l E), ledger_negb.
  destruct (in_zone b l), (is_quai b); reflexivity.
Qed.

Lemma create_object_guard_spec a l : length a = 20%nat ->
  create_object_guard a l = in_zone a l && is_quai a.
Proof.
  intros H. unfold create_object_guard. rewrite (in_scope_20 a l H).
  destruct (in_zone a l), (is_quai a); reflexivity.
Qed.

(* ------------------------------------------------------------------ *)
(* GrindContract *)

Section Grind.
  Variable H : N -> bytes.            (* attempt number -> Keccak256 digest: abstract *)
  Variable l : location.
  Variable cost : N.

  Definition attempt (i : N) : option bytes := internal_and_quai (digest_to_address (H i) l).

  Lemma attempt_sound i a : length (H i) = 32%nat -> attempt i = Some a ->
    length a = 20%nat /\ in_zone a l = true /\ is_quai a = true /\ a = skipn 12 (H i).
  Proof.
    intros Hl Ha. unfold attempt in Ha. apply internal_and_quai_spec in Ha. destruct Ha as [Ha Hq].
    unfold digest_to_address, bytes_to_address in Ha.
    assert (H20 : length (skipn 12 (H i)) = 20%nat) by (rewrite skipn_length, Hl; reflexivity).
    apply (internal_in_zone_20 _ _ _ _ H20) in Ha. destruct Ha as [-> Hz]. auto.
  Qed.

  Lemma grind_loop_spec fuel : forall i gas,
    match grind_loop H l fuel i gas cost with
    | GOk a g =>
        exists k, i <= k /\ k < i + N.of_nat fuel /\ attempt k = Some a
                  /\ (forall j, i <= j -> j < k -> attempt j = None)
                  /\ g + (k - i + 1) * cost = gas
    | GErr =>
        (forall j, i <= j -> j < i + N.of_nat fuel -> attempt j = None)
        \/ (exists k, i <= k /\ k < i + N.of_nat fuel /\ gas < (k - i + 1) * cost
                      /\ (forall j, i <= j -> j < k -> attempt j = None))
    end.
  Proof.
    induction fuel as [|fuel IH]; intros i gas; cbn [grind_loop].
    - left. intros j H1 H2. lia.
    - destruct (gas <? cost) eqn:Eg.
      + right. exists i. repeat split; try lia; intros j H1 H2; lia.
      + fold (attempt i). destruct (attempt i) as [a|] eqn:Ea.
        * exists i. repeat split; try lia; auto; intros j H1 H2; lia.
        * specialize (IH (i + 1) (gas - cost)).
          destruct (grind_loop H l fuel (i + 1) (gas - cost) cost) as [a g|].
          -- destruct IH as (k & K1 & K2 & K3 & K4 & K5). exists k.
             assert (Hk : k - i + 1 = (k - (i + 1) + 1) + 1) by lia.
             split; [lia|]. split; [lia|]. split; [exact K3|]. split.
             ++ intros j J1 J2. destruct (N.eq_dec j i) as [->|Hne]; [exact Ea|]. apply K4; lia.
             ++ rewrite Hk, N.mul_add_distr_r. lia.
          -- destruct IH as [IH|(k & K1 & K2 & K3 & K4)].
             ++ left. intros j J1 J2. destruct (N.eq_dec j i) as [->|Hne]; [exact Ea|]. apply IH; lia.
             ++ right. exists k.
                assert (Hk : k - i + 1 = (k - (i + 1) + 1) + 1) by lia.
                split; [lia|]. split; [lia|]. split.
                ** rewrite Hk, N.mul_add_distr_r. lia.
                ** intros j J1 J2. destruct (N.eq_dec j i) as [->|Hne]; [exact Ea|]. apply K4; lia.
  Qed.

  Lemma grind_sound attempts gas a g :
    (forall i, length (H i) = 32%nat) ->
    grind H l attempts gas cost = GOk a g ->
    length a = 20%nat /\ in_zone a l = true /\ is_quai a = true /\ g <= gas
    /\ exists k, k < attempts /\ a = skipn 12 (H k) /\ g + (k + 1) * cost = gas
                 /\ forall j, j < k -> attempt j = None.
  Proof.
    intros Hl Hg. unfold grind in Hg. pose proof (grind_loop_spec (N.to_nat attempts) 0 gas) as S.
    rewrite Hg in S. destruct S as (k & K1 & K2 & K3 & K4 & K5).
    destruct (attempt_sound k a (Hl k) K3) as (A1 & A2 & A3 & A4).
    repeat split; auto; try lia.
    exists k. repeat split; auto; try lia. intros j Hj. apply K4; lia.
  Qed.

  Lemma grind_complete attempts gas :
    grind H l attempts gas cost = GErr ->
    (forall j, j < attempts -> attempt j = None)
    \/ (exists k, k < attempts /\ gas < (k + 1) * cost /\ forall j, j < k -> attempt j = None).
  Proof.
    intros Hg. unfold grind in Hg. pose proof (grind_loop_spec (N.to_nat attempts) 0 gas) as S.
    rewrite Hg in S. destruct S as [S|(k & K1 & K2 & K3 & K4)].
    - left. intros j Hj. apply S; lia.
    - right. exists k. repeat split; try lia. intros j Hj. apply K4; lia.
  Qed.

  Lemma create_select_sound d0 attempts gas a g :
    length d0 = 32%nat -> (forall i, length (H i) = 32%nat) ->
    create_select d0 H l attempts gas cost = GOk a g ->
    length a = 20%nat /\ in_zone a l = true /\ is_quai a = true /\ g <= gas.
  Proof.
    intros Hd Hl Hc. unfold create_select in Hc.
    destruct (internal_and_quai (digest_to_address d0 l)) as [x|] eqn:E.
    - inversion Hc; subst x g. apply internal_and_quai_spec in E. destruct E as [E Hq].
      unfold digest_to_address, bytes_to_address in E.
      assert (H20 : length (skipn 12 d0) = 20%nat) by (rewrite skipn_length, Hd; reflexivity).
      apply (internal_in_zone_20 _ _ _ _ H20) in E. destruct E as [-> Hz].
      repeat split; auto. lia.
    - destruct (grind_sound attempts gas a g Hl Hc) as (A1 & A2 & A3 & A4 & _). auto.
  Qed.
End Grind.

Lemma create2_select_sound d l a : length d = 32%nat -> create2_select d l = Some a ->
  length a = 20%nat /\ in_zone a l = true /\ is_quai a = true.
Proof.
  intros Hd H. unfold create2_select in H. apply internal_and_quai_spec in H. destruct H as [E Hq].
  unfold digest_to_address, bytes_to_address in E.
  assert (H20 : length (skipn 12 d) = 20%nat) by (rewrite skipn_length, Hd; reflexivity).
  apply (internal_in_zone_20 _ _ _ _ H20) in E. destruct E as [-> Hz]. auto.
Qed.

Lemma grind_attempts_bounded prev mx fork bn : prev <= mx -> grind_attempts prev mx fork bn <= mx.
Proof. intros H. unfold grind_attempts. destruct (bn <? fork); lia. Qed.

(* ------------------------------------------------------------------ *)
(* ProcessQiTx output classification *)

Lemma qi_output_utxo addr dl l : qi_output addr dl l = QUtxo ->
  loc_eqb (location_of (to20 addr)) l = true /\ is_qi (to20 addr) = true.
Proof.
  unfold qi_output. rewrite (ledger_negb (to20 addr)).
  destruct (loc_eqb (location_of (to20 addr)) l), (is_quai (to20 addr)),
    (dl =? MAX_QI_TX_DATA_LENGTH), (dl =? 20); cbn; intros H; try discriminate; auto.
Qed.

Lemma qi_output_etx addr dl l : qi_output addr dl l = QEtx ->
  loc_eqb (location_of (to20 addr)) l = false /\ is_qi (to20 addr) = true.
Proof.
  unfold qi_output. rewrite (ledger_negb (to20 addr)).
  destruct (loc_eqb (location_of (to20 addr)) l), (is_quai (to20 addr)),
    (dl =? MAX_QI_TX_DATA_LENGTH), (dl =? 20); cbn; intros H; try discriminate; auto.
Qed.

(* ------------------------------------------------------------------ *)
(* generated data: side conditions (a source edit breaks these without touching any .v) *)

Definition constants_as_modelled : bool :=
  (C16Sites.address_length =? N.of_nat ADDRESS_LENGTH) && (C16Sites.hash_length =? N.of_nat HASH_LENGTH)
  && (C16Sites.zone_ctx =? ZONE_CTX) && (C16Sites.hierarchy_depth =? 3)
  && (C16Sites.max_regions =? 16) && (C16Sites.max_zones =? 16) && (C16Sites.max_width =? 16)
  && (C16Sites.max_qi_tx_data_length =? MAX_QI_TX_DATA_LENGTH)
  && (C16Sites.previous_max_address_grind_attempts <=? C16Sites.max_address_grind_attempts)
  && (0 <? C16Sites.previous_max_address_grind_attempts)
  && C16Sites.zero_external_is_20_zero_bytes && negb C16Sites.zero_is_internal
  && C16Sites.zero_address_is_internal_prefix_then_zeros.

Lemma constants_ok : constants_as_modelled = true.
Proof. vm_compute. reflexivity. Qed.

Local Open Scope string_scope.

(* every copy of the ledger predicates reads byte 1 against 127 in the modelled direction *)
Definition ledger_pred_ok (p : string * string * string) : bool :=
  let '(_, name, desc) := p in
  if String.eqb name "IsInQiLedgerScope" then String.eqb desc "1>127"
  else if String.eqb name "IsInQuaiLedgerScope" then String.eqb desc "1<=127"
  else false.

Definition ledger_predicates_as_modelled : bool :=
  forallb ledger_pred_ok C16Sites.ledger_predicates
  && (6 <=? N.of_nat (length C16Sites.ledger_predicates))%N.

Lemma ledger_predicates_ok : ledger_predicates_as_modelled = true.
Proof. vm_compute. reflexivity. Qed.

(* Reviewed inventory of the BytesToAddress call sites whose byte argument is NOT 20 bytes by
   syntax (generator shapes fullslice / bytesmethod / other).  Verdicts of the manual review:
     G20   length is 20 (array type, Address.Bytes(), or a length test dominating the call)
     ANYB  arbitrary length possible, but only the bytes / zone / ledger of the result are used
     ANYC  arbitrary length possible AND the internal/external class of the result is used
           (F10 is reachable through this site)                                             *)
Inductive verdict := G20 | ANYB | ANYC.

Definition reviewed_sites : list (string * string * N * verdict) := [
  ("cmd/utils/hierarchical_coordinator.go:ValidateChainIndexer", "other", 1%N, ANYB);   (* utxo.Address from db, Bytes20 only *)
  ("common/address.go:Address.DecodeRLP", "other", 1%N, ANYC);                          (* RLP string of any length *)
  ("common/address.go:Address.ProtoDecode", "other", 1%N, ANYC);                        (* wire bytes *)
  ("common/address.go:BigToAddress", "bytesmethod", 1%N, ANYC);                         (* big.Int.Bytes(): leading zeros stripped; no production caller *)
  ("common/address.go:Bytes20ToAddress", "fullslice", 1%N, G20);                        (* [20]byte *)
  ("common/address.go:HexToAddress", "other", 1%N, ANYC);                               (* config / CLI strings *)
  ("common/types.go:NewMixedcaseAddressFromString", "other", 1%N, G20);                 (* IsHexAddress *)
  ("core/chain_indexer.go:ChainIndexer.addOutpointsToIndexer", "other", 1%N, ANYB);     (* out.Address, ledger bit only *)
  ("core/chain_indexer.go:ChainIndexer.reorgUtxoIndexer", "other", 1%N, ANYB);
  ("core/core.go:Core.Append", "bytesmethod", 1%N, G20);                                (* Address.Bytes() *)
  ("core/headerchain_validation.go:HeaderChain.VerifyUncles", "other", 2%N, G20);       (* Data()[1:21], Data()[21:41] via locals *)
  ("core/headerchain_validation.go:HeaderChain.verifyHeader", "other", 2%N, G20);
  ("core/rawdb/accessors_chain.go:ReadCoinbaseLockup", "other", 2%N, G20);              (* len(data) == 58, data[38:] *)
  ("core/state/dump.go:StateDB.DumpToCollector", "other", 1%N, ANYB);                   (* trie key preimage *)
  ("core/state/statedb.go:StateDB.PopETX", "bytesmethod", 1%N, G20);                    (* Address.Bytes() *)
  ("core/state/statedb.go:StateDB.ReadETX", "bytesmethod", 1%N, G20);
  ("core/state_processor.go:ProcessQiTx", "fullslice", 1%N, G20);                       (* len(tx.Data()) == AddressLength && *)
  ("core/state_processor.go:ProcessQiTx", "other", 3%N, ANYB);                          (* utxo.Address, txOut.Address (zone+ledger of the cropped bytes), tx.Data() under a length test *)
  ("core/state_processor.go:StateProcessor.Process", "other", 1%N, G20);                (* len(etx.Data()) != AddressLength rejected above *)
  ("core/state_processor.go:ValidateQiTxInputs", "fullslice", 1%N, G20);
  ("core/state_processor.go:ValidateQiTxInputs", "other", 1%N, ANYB);                   (* utxo.Address *)
  ("core/state_processor.go:ValidateQiTxOutputsAndSignature", "other", 2%N, ANYB);      (* txOut.Address, tx.Data() under a length test *)
  ("core/types/transaction.go:AccessList.ProtoDecode", "other", 1%N, ANYC);             (* wire bytes *)
  ("core/types/transaction.go:Transaction.ProtoDecode", "other", 3%N, ANYC);            (* wire to (x2), etx_sender *)
  ("core/types/wo.go:WorkObjectHeader.ProtoDecode", "other", 1%N, ANYC);                (* wire primary coinbase *)
  ("core/vm/contracts.go:ClaimQiDeposit", "other", 1%N, G20);                           (* len(input) != 20 rejected *)
  ("core/vm/contracts.go:InitializePrecompiles", "fullslice", 1%N, G20);                (* AddressBytes array *)
  ("core/worker.go:worker.commitTransaction", "other", 1%N, G20);                       (* len(tx.Data()) != AddressLength rejected *)
  ("core/worker.go:worker.processQiTx", "fullslice", 1%N, G20);
  ("core/worker.go:worker.processQiTx", "other", 2%N, ANYB);                            (* txOut.Address, tx.Data() under a length test *)
  ("internal/quaiapi/api.go:DoCall", "bytesmethod", 2%N, G20);                          (* Address.Bytes() *)
  ("internal/quaiapi/api.go:PublicTransactionPoolAPI.GetTransactionCount", "bytesmethod", 1%N, G20);
  ("internal/quaiapi/api.go:newRPCTransaction", "other", 1%N, ANYB);                    (* txout.Address for display *)
  ("internal/quaiapi/quai_api.go:GetDeltas", "other", 1%N, ANYB);
  ("internal/quaiapi/quai_api.go:PublicBlockChainQuaiAPI.GetUTXO", "other", 1%N, ANYB);
  ("quai/abi/unpack.go:toGoType", "other", 1%N, ANYC);                                  (* 32-byte ABI word: class decided by the padding byte *)
  ("quai/api.go:PrivateDebugAPI.getModifiedAccounts", "other", 1%N, ANYB);
  ("quai/filters/api.go:PublicFilterAPI.Accesses", "other", 1%N, ANYB);
  ("quaiclient/ethclient/ethclient.go:toCallArg", "other", 1%N, ANYB)
].

Definition site_eqb (x : string * string * N) (y : string * string * N * verdict) : bool :=
  let '(w, s, n) := x in let '(w', s', n', _) := y in
  String.eqb w w' && String.eqb s s' && N.eqb n n'.

Fixpoint sites_match (g : list (string * string * N)) (r : list (string * string * N * verdict)) : bool :=
  match g, r with
  | [], [] => true
  | x :: g', y :: r' => site_eqb x y && sites_match g' r'
  | _, _ => false
  end.

Definition not_fixed20 (x : string * string * N) : bool := negb (String.eqb (snd (fst x)) "fixed20").

(* the sites of the current source that are not 20 bytes by syntax are exactly the reviewed ones *)
Definition inventory_as_reviewed : bool :=
  sites_match (filter not_fixed20 C16Sites.sites) reviewed_sites.

Lemma inventory_ok : inventory_as_reviewed = true.
Proof. vm_compute. reflexivity. Qed.

(* the sites through which F10 is reachable (class of an arbitrary-length input is consumed) *)
Definition f10_sites : list string :=
  map (fun y => fst (fst (fst y))) (filter (fun y => match snd y with ANYC => true | _ => false end) reviewed_sites).

(* ------------------------------------------------------------------ *)
(* statements used by Props/C16.v *)
Local Close Scope string_scope.

Definition wf20 (a : bytes) : Prop := wf_bytes a /\ length a = 20%nat.

Lemma bta_cur_20 a l : length a = 20%nat -> bytes_to_address a l = classify a l.
Proof. apply bta_20_spec. Qed.

Lemma constructors_agree_lemma a l (p : bytes) : wf20 a -> length p = 12%nat ->
  let r := classify a l in
  bytes_to_address a l = r /\ bytes20_to_address a l = r
  /\ hex_to_address (hex0x a) l = r /\ hex_to_address (hex_encode a) l = r
  /\ proto_decode (Some a) l = r /\ wire_to_address a l = r /\ scan a l = r
  /\ mixedcase_from_string (hex0x a) l = r /\ digest_to_address (p ++ a) l = r
  /\ hex_to_address_bytes (hex0x a) = a /\ res_bytes r = a.
Proof.
  intros [Hw Hl] Hp r.
  assert (Hb : bytes_to_address a l = r) by (apply bta_cur_20, Hl).
  repeat split.
  - exact Hb.
  - exact Hb.
  - unfold hex_to_address. rewrite (from_hex_0x a Hw). exact Hb.
  - unfold hex_to_address. rewrite (from_hex_encode a Hw). exact Hb.
  - exact Hb.
  - exact Hb.
  - unfold scan. rewrite Hl. exact Hb.
  - unfold mixedcase_from_string. rewrite (is_hex_address_0x a Hw Hl), (from_hex_0x a Hw). exact Hb.
  - unfold digest_to_address. rewrite (skipn_digest p a Hp). exact Hb.
  - unfold hex_to_address_bytes. rewrite (from_hex_0x a Hw). apply to20_id, Hl.
  - unfold r, classify. destruct (in_zone a l); reflexivity.
Qed.

Lemma big_to_address_agrees a l : wf20 a -> nth 0 a 0 <> 0 -> big_to_address a l = classify a l.
Proof.
  intros [_ Hl] Hn. unfold big_to_address. rewrite (strip_zeros_bta_nonzero a Hn). apply bta_cur_20, Hl.
Qed.

Lemma locationless_lemma a : wf20 a ->
  let r := classify a [0; 0] in
  decode_rlp a = r /\ unmarshal_text (hex0x a) = r /\ unmarshal_json (quote (hex0x a)) = r
  /\ mixedcase_unmarshal_json (quote (hex0x a)) = External a.
Proof.
  intros [Hw Hl] r. repeat split.
  - apply bta_cur_20, Hl.
  - unfold unmarshal_text. rewrite (unmarshal_fixed_text_0x a Hw Hl). apply bta_cur_20, Hl.
  - unfold unmarshal_json. rewrite is_string_quote, unquote_quote, (unmarshal_fixed_text_0x a Hw Hl).
    apply bta_cur_20, Hl.
  - unfold mixedcase_unmarshal_json. rewrite is_string_quote, unquote_quote, (unmarshal_fixed_text_0x a Hw Hl).
    unfold bytes20_to_address. rewrite (bta_cur_20 a [] Hl). reflexivity.
Qed.

Definition zone10_address : bytes := 16 :: repeat 7 19.

Lemma zone10_wf20 : wf20 zone10_address.
Proof.
  split; [|reflexivity]. unfold wf_bytes, zone10_address. repeat constructor.
Qed.

Lemma locationless_refuted_lemma :
  exists a l, wf20 a /\ valid_zone l /\
    bytes_to_address a l = Internal a /\ decode_rlp a = External a
    /\ unmarshal_text (hex0x a) = External a /\ unmarshal_json (quote (hex0x a)) = External a.
Proof.
  exists zone10_address, [1; 0]. split; [exact zone10_wf20|]. split.
  - exists 1, 0. repeat split; lia.
  - destruct (locationless_lemma _ zone10_wf20) as (H1 & H2 & H3 & _).
    rewrite H1, H2, H3, (bta_cur_20 _ _ (proj2 zone10_wf20)). vm_compute. auto.
Qed.

(* classification on 20 bytes, as an iff *)
Lemma in_scope_iff_prefix_lemma b l : length b = 20%nat ->
  (in_chain_scope b l = true <-> (context l = ZONE_CTX /\ nth 0 b 0 = byte_prefix l)).
Proof.
  intros Hb. rewrite (in_scope_20 b l Hb). unfold in_zone. rewrite andb_true_iff, !N.eqb_eq. tauto.
Qed.

Lemma class_table_lemma b0 b1 (tail : bytes) r z :
  b0 < 256 -> b1 < 256 -> length tail = 18%nat -> r < 16 -> z < 16 ->
  let a := b0 :: b1 :: tail in
  (bytes_to_address a [r; z] = Internal a <-> b0 = r * 16 + z)
  /\ (bytes_to_address a [r; z] = External a <-> b0 <> r * 16 + z)
  /\ bytes_to_address a [] = External a /\ bytes_to_address a [r] = External a
  /\ (is_qi a = true <-> 128 <= b1) /\ (is_quai a = true <-> b1 < 128).
Proof.
  intros H0 H1 Ht Hr Hz a.
  assert (Hl : length a = 20%nat) by (unfold a; cbn [List.length]; rewrite Ht; reflexivity).
  rewrite !(bta_cur_20 a _ Hl). unfold classify, in_zone.
  destruct (valid_zone_prefix r z Hr Hz) as [Hp _]. rewrite Hp.
  change (nth 0 a 0) with b0. change (context [r; z] =? ZONE_CTX) with true.
  change (context [] =? ZONE_CTX) with false. change (context [r] =? ZONE_CTX) with false.
  cbn [andb]. unfold is_qi, is_quai, second. change (nth 1 a 0) with b1.
  destruct (b0 =? r * 16 + z) eqn:E; [apply N.eqb_eq in E|apply N.eqb_neq in E];
    repeat split; intros; try congruence; try discriminate; try lia; auto.
Qed.

Lemma predicates_agree_lemma a l : wf20 a -> valid_zone l ->
  (check_internal_qi a l = true <-> (exists x, bytes_to_address a l = Internal x) /\ is_qi a = true)
  /\ (is_conversion_output a l = true <-> (exists x, bytes_to_address a l = Internal x) /\ is_quai a = true)
  /\ (contains_address l a = true <-> exists x, bytes_to_address a l = Internal x)
  /\ (create_object_guard a l = true <-> (exists x, bytes_to_address a l = Internal x) /\ is_quai a = true).
Proof.
  intros [Hw Hl] Hv. rewrite (bta_cur_20 a l Hl).
  assert (Hi : (exists x, classify a l = Internal x) <-> in_zone a l = true).
  { unfold classify. destruct (in_zone a l); split; intros H; eauto; try discriminate.
    destruct H as [x H]. discriminate. }
  rewrite Hi. rewrite check_internal_qi_spec, Hl, (create_object_guard_spec a l Hl), contains_address_in_zone.
  unfold is_conversion_output. rewrite Hl. cbn [Nat.eqb ADDRESS_LENGTH negb andb].
  rewrite (loc_eqb_in_zone a l (wf_nth a 0 Hw) Hv). fold (is_quai a).
  rewrite !andb_true_iff. tauto.
Qed.

Lemma guard_refuses_misclassified fx b l a :
  bytes_to_address_gen fx b l = Internal a -> in_zone a l = false -> create_object_guard a l = false.
Proof.
  intros H Hz. assert (Hl : length a = 20%nat).
  { pose proof (bta_bytes fx b l) as Hb. rewrite H in Hb. cbn in Hb. subst a. apply to20_length. }
  rewrite (create_object_guard_spec a l Hl), Hz. reflexivity.
Qed.

Lemma guard_sound a l : length a = 20%nat -> create_object_guard a l = true ->
  in_zone a l = true /\ is_quai a = true /\ is_qi a = false.
Proof.
  intros Hl H. rewrite (create_object_guard_spec a l Hl) in H. apply andb_true_iff in H.
  destruct H as [H1 H2]. rewrite ledger_negb, H2. auto.
Qed.

Lemma qi_utxo_lemma addr dl l : wf_bytes addr -> valid_zone l -> qi_output addr dl l = QUtxo ->
  in_zone (to20 addr) l = true /\ is_qi (to20 addr) = true /\ is_quai (to20 addr) = false.
Proof.
  intros Hw Hv H. apply qi_output_utxo in H. destruct H as [H1 H2].
  rewrite (loc_eqb_in_zone (to20 addr) l (wf_nth _ 0 (set_bytes_wf _ addr Hw)) Hv) in H1.
  pose proof (ledger_negb (to20 addr)) as Hn. rewrite H2 in Hn.
  repeat split; auto. destruct (is_quai (to20 addr)); [discriminate|reflexivity].
Qed.

Definition qi_long_owner : bytes := 85 :: 0 :: 200 :: repeat 7 18.   (* 21 bytes: 55 | 00 c8 07.. *)

Lemma qi_utxo_refuted_lemma :
  qi_output qi_long_owner 0 [0; 0] = QUtxo /\ length qi_long_owner = 21%nat
  /\ in_zone (firstn 20 qi_long_owner) [0; 0] = false /\ is_qi (firstn 20 qi_long_owner) = false.
Proof. vm_compute. auto. Qed.

Definition f10_site_list : list String.string := Eval vm_compute in f10_sites.

(* composed statements (Props/C16.v only says [exact]) *)
Lemma zone_ledger_partition_lemma : forall a, wf20 a ->
  valid_zone (location_of a) /\ in_zone a (location_of a) = true
  /\ (forall l, valid_zone l -> in_zone a l = true -> l = location_of a)
  /\ ((is_qi a = true /\ is_quai a = false) \/ (is_qi a = false /\ is_quai a = true)).
Proof.
  intros a [Hw Hl]. destruct (zone_of_address a (wf_nth a 0 Hw)) as [H1 H2].
  exact (conj H1 (conj H2 (conj (fun l Hv Hz => zone_unique a l Hv Hz) (ledger_partition a)))).
Qed.

Lemma ledger_high_bit_lemma : forall a, wf_bytes a ->
  is_qi a = N.testbit (second a) 7 /\ is_quai a = negb (is_qi a).
Proof.
  intros a Hw. split; [exact (ledger_high_bit a (wf_nth a 1 Hw))|].
  rewrite ledger_negb, negb_involutive. reflexivity.
Qed.

Lemma addresses_20_lemma : forall b l,
  length (res_bytes (bytes_to_address b l)) = 20%nat /\ bytes_to_address b l <> Err.
Proof.
  intros b l. unfold bytes_to_address. split; [rewrite bta_bytes; apply to20_length|apply bta_not_err].
Qed.

Lemma internal_implies_in_zone_partial_lemma : forall b l a, length b = 20%nat ->
  (bytes_to_address b l = Internal a -> a = b /\ in_zone a l = true)
  /\ (bytes_to_address b l = External a -> a = b /\ in_zone a l = false).
Proof.
  intros b l a Hb. exact (conj (internal_in_zone_20 _ b l a Hb) (external_out_of_zone_20 _ b l a Hb)).
Qed.

Lemma internal_and_ledger_lemma : forall r a,
  (internal_and_quai r = Some a <-> (r = Internal a /\ is_quai a = true))
  /\ (internal_and_qi r = Some a <-> (r = Internal a /\ is_qi a = true))
  /\ (forall x y, internal_and_quai r = Some x -> internal_and_qi r = Some y -> False).
Proof.
  intros r a. exact (conj (internal_and_quai_spec r a) (conj (internal_and_qi_spec r a)
    (fun x y => internal_quai_qi_exclusive r x y))).
Qed.

Lemma create_address_lemma : forall (H : N -> bytes) (d0 : bytes) l block_number gas cost,
  length d0 = 32%nat -> (forall i, length (H i) = 32%nat) ->
  let attempts := grind_attempts C16Sites.previous_max_address_grind_attempts
                    C16Sites.max_address_grind_attempts C16Sites.max_grind_increase_fork_block block_number in
  attempts <= C16Sites.max_address_grind_attempts /\
  match create_select d0 H l attempts gas cost with
  | GOk a g => length a = 20%nat /\ in_zone a l = true /\ is_quai a = true /\ g <= gas
  | GErr => True
  end.
Proof.
  intros H d0 l bn gas cost Hd Hl attempts. split.
  - apply grind_attempts_bounded. vm_compute. discriminate.
  - destruct (create_select d0 H l attempts gas cost) as [a g|] eqn:E; [|exact I].
    exact (create_select_sound H l cost d0 attempts gas a g Hd Hl E).
Qed.

Lemma grind_lemma : forall (H : N -> bytes) l attempts gas cost,
  (forall i, length (H i) = 32%nat) ->
  match grind H l attempts gas cost with
  | GOk a g =>
      length a = 20%nat /\ in_zone a l = true /\ is_quai a = true /\ g <= gas
      /\ exists k, k < attempts /\ a = skipn 12 (H k) /\ g + (k + 1) * cost = gas
                   /\ forall j, j < k -> attempt H l j = None
  | GErr =>
      (forall j, j < attempts -> attempt H l j = None)
      \/ (exists k, k < attempts /\ gas < (k + 1) * cost /\ forall j, j < k -> attempt H l j = None)
  end.
Proof.
  intros H l attempts gas cost Hl. destruct (grind H l attempts gas cost) as [a g|] eqn:E.
  - exact (grind_sound H l cost attempts gas a g Hl E).
  - exact (grind_complete H l cost attempts gas E).
Qed.

Lemma qi_utxo_partial_lemma : forall addr datalen l, wf_bytes addr -> valid_zone l ->
  qi_output addr datalen l = QUtxo ->
  in_zone (to20 addr) l = true /\ is_qi (to20 addr) = true /\ is_quai (to20 addr) = false
  /\ (length addr = 20%nat -> to20 addr = addr).
Proof.
  intros addr dl l Hw Hv H. destruct (qi_utxo_lemma addr dl l Hw Hv H) as (H1 & H2 & H3).
  exact (conj H1 (conj H2 (conj H3 (to20_id addr)))).
Qed.

Lemma qi_utxo_owner_refuted_lemma :
  exists addr, qi_output addr 0 [0; 0] = QUtxo /\ length addr = 21%nat
    /\ in_zone (firstn 20 addr) [0; 0] = false /\ is_qi (firstn 20 addr) = false.
Proof. exists qi_long_owner. exact qi_utxo_refuted_lemma. Qed.

(* about the UNREPAIRED constructor: delete together with the Props theorems after the fix *)
Lemma internal_implies_in_zone_refuted_lemma :
  (exists b a, length b = 21%nat /\ bytes_to_address_gen false b [0; 0] = Internal a
               /\ in_zone a [0; 0] = false /\ in_zone a [1; 0] = true)
  /\ (exists b a, length b = 19%nat /\ bytes_to_address_gen false b [1; 0] = Internal a
               /\ in_zone a [1; 0] = false /\ in_zone a [0; 0] = true).
Proof.
  split.
  - exists f10_crop_input, (16 :: repeat 7 19). vm_compute. auto.
  - exists f10_pad_input, (0 :: 16 :: repeat 7 18). vm_compute. auto.
Qed.

Lemma in_zone_implies_internal_refuted_lemma :
  exists b a, length b = 21%nat /\ bytes_to_address_gen false b [0; 0] = External a /\ in_zone a [0; 0] = true.
Proof. exists f10_ext_input, (0 :: repeat 7 19). vm_compute. auto. Qed.

Lemma big_to_address_refuted_lemma :
  exists a, wf20 a /\ bytes_to_address_gen false (strip_zeros a) [0; 0] = External a /\ bytes_to_address_gen false a [0; 0] = Internal a.
Proof.
  exists (0 :: 5 :: repeat 7 18). split; [split; [unfold wf_bytes; repeat constructor|reflexivity]|].
  vm_compute. auto.
Qed.

(* once the switch is flipped the full statement holds for the model of the running code:
   instantiate with [eq_refl] *)
Lemma internal_in_zone_when_fixed : fix_applied = true -> forall b l a,
  (bytes_to_address b l = Internal a -> a = to20 b /\ in_zone a l = true)
  /\ (bytes_to_address b l = External a -> a = to20 b /\ in_zone a l = false).
Proof.
  unfold bytes_to_address. intros Hf b l a. rewrite Hf.
  split; [apply internal_in_zone_fixed|apply external_out_of_zone_fixed].
Qed.

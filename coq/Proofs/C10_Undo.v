(* C10 — lemmas about the stored undo records (extension round): the rollback reads the 'deleted
   coinbase lockups' record only through the FIRST image per key, and needs the complete previous
   image of every spent / trimmed output. *)
From Coq Require Import List NArith Bool Lia.
From GQ Require Import Lib.Key Lib.SMap Model.C10 Model.C10_Undo Proofs.C10.
Import ListNotations.
Local Open Scope N_scope.

(* ---------- the restore loop (reverse order, batch.Put) = 'first image per key wins' ---------- *)
Lemma put_all_rev_ext {V} (l1 l2 : list (key * V)) m :
  sorted m -> (forall k, first_rec k l1 = first_rec k l2) -> put_all (rev l1) m = put_all (rev l2) m.
Proof.
  intros S H. apply sorted_ext; try (apply put_all_sorted; exact S).
  intros k. rewrite !get_put_all, !rev_involutive, H. reflexivity.
Qed.

Lemma first_rec_dedup_first_acc {L} k (l : list (key * L)) : forall acc,
  first_rec k (fold_left dedup_first_step l acc)
  = match first_rec k acc with Some v => Some v | None => first_rec k l end.
Proof.
  induction l as [|[k' v'] l IH]; intros acc; cbn [fold_left].
  - destruct (first_rec k acc); reflexivity.
  - rewrite IH. unfold dedup_first_step; cbn [fst snd].
    destruct (kmem k' (map fst acc)) eqn:M.
    + destruct (first_rec k acc) eqn:F; [reflexivity|].
      cbn [first_rec]. destruct (keqb k k') eqn:E; [|reflexivity].
      apply keqb_eq in E; subst k'. apply kmem_In in M. apply first_rec_None in F. contradiction.
    + rewrite first_rec_app. destruct (first_rec k acc); [reflexivity|].
      cbn [first_rec]. destruct (keqb k k'); reflexivity.
Qed.

Lemma first_rec_dedup_first {L} k (l : list (key * L)) : first_rec k (dedup_first l) = first_rec k l.
Proof. unfold dedup_first. rewrite first_rec_dedup_first_acc. reflexivity. Qed.

Section Generic.
Context {L : Type}.
Notation db := (db L).
Notation effect := (effect L).

(* the rollback of a block depends on its 'deleted lockups' record only through first_rec *)
Lemma rollback_lk_record_ext (d : db) (e : effect) l' :
  db_ok d -> (forall k, first_rec k l' = first_rec k (e_lk_deleted e)) ->
  rollback d (with_lk_deleted e l') = rollback d e.
Proof.
  intros (_ & S & _) H. unfold rollback, with_lk_deleted. cbn [utxo lockups canon head e_num e_hash e_parent e_created e_created_keys e_spent e_trimmed e_lk_writes e_lk_created e_lk_deleted].
  rewrite (put_all_rev_ext l' (e_lk_deleted e) (lockups d) S H). reflexivity.
Qed.

Lemma rollback_dedup_first (d : db) (e : effect) :
  db_ok d -> rollback d (with_lk_deleted e (dedup_first (e_lk_deleted e))) = rollback d e.
Proof. intros D. apply rollback_lk_record_ext; [exact D|]. intros k. apply first_rec_dedup_first. Qed.

(* and on nothing less: a record whose first image of a key differs restores something else *)
Lemma rollback_lk_record_first_image_needed (d : db) (e : effect) l' k a b :
  db_ok d -> ~ In k (e_lk_created e) ->
  first_rec k l' = Some a -> first_rec k (e_lk_deleted e) = Some b -> a <> b ->
  get k (lockups (rollback d (with_lk_deleted e l'))) = Some a /\
  get k (lockups (rollback d e)) = Some b /\
  rollback d (with_lk_deleted e l') <> rollback d e.
Proof.
  intros (_ & S & _) NC Fa Fb NE.
  assert (A : get k (lockups (rollback d (with_lk_deleted e l'))) = Some a).
  { unfold rollback, with_lk_deleted. cbn [utxo lockups canon head e_num e_hash e_parent e_created e_created_keys e_spent e_trimmed e_lk_writes e_lk_created e_lk_deleted].
    rewrite get_del_all_notin; [|apply put_all_sorted; exact S|exact NC].
    rewrite get_put_all, rev_involutive, Fa. reflexivity. }
  assert (B : get k (lockups (rollback d e)) = Some b).
  { unfold rollback. cbn [utxo lockups canon head e_num e_hash e_parent e_created e_created_keys e_spent e_trimmed e_lk_writes e_lk_created e_lk_deleted].
    rewrite get_del_all_notin; [|apply put_all_sorted; exact S|exact NC].
    rewrite get_put_all, rev_involutive, Fb. reflexivity. }
  split; [exact A|]. split; [exact B|].
  intros E. rewrite E, B in A. inversion A. apply NE. symmetry. assumption.
Qed.

(* ---------- the spent / trimmed record must carry the complete previous output ---------- *)
Lemma in_map_vals f k w (l : list (key * val)) :
  In (k, w) (map_vals f l) -> exists v, In (k, v) l /\ w = f v.
Proof.
  unfold map_vals. intros H. apply in_map_iff in H as [[k0 v0] [E Hin]]. cbn in E.
  inversion E; subst. exists v0. split; [exact Hin|reflexivity].
Qed.

Lemma map_vals_keys f (l : list (key * val)) : map fst (map_vals f l) = map fst l.
Proof. unfold map_vals. rewrite map_map. reflexivity. Qed.

Lemma lossy_spent_image_restores_image (d : db) (e : effect) f k v :
  db_ok d -> wf_effect d e ->
  In (k, v) (e_spent e ++ e_trimmed e) -> ~ In k (created_keys e) ->
  get k (utxo (rollback (apply d e) (map_spent f e))) = Some (f v) /\ get k (utxo d) = Some v.
Proof.
  intros (S & _) ((_ & W2 & _) & _) Hin NC.
  assert (G : get k (utxo d) = Some v).
  { destruct (W2 _ _ Hin) as [H|H]; [contradiction|exact H]. }
  split; [|exact G].
  assert (SA : sorted (utxo (apply d e))) by (apply utxo_apply_sorted; exact S).
  unfold rollback, map_spent, with_spent. cbn [utxo lockups canon head e_num e_hash e_parent e_created e_created_keys e_spent e_trimmed e_lk_writes e_lk_created e_lk_deleted].
  rewrite get_del_all_notin; [|apply put_all_sorted; exact SA|exact NC].
  rewrite get_put_all.
  destruct (first_rec k (rev (map_vals f (e_spent e) ++ map_vals f (e_trimmed e)))) as [w|] eqn:F.
  - apply first_rec_rev_In in F. unfold map_vals in F. rewrite <- map_app in F.
    apply in_map_vals in F as [v0 [Hin0 ->]].
    destruct (W2 _ _ Hin0) as [H|H]; [contradiction|].
    rewrite G in H. inversion H; subst. reflexivity.
  - apply first_rec_rev_None in F. exfalso. apply F.
    rewrite map_app, !map_vals_keys, <- map_app.
    apply (in_map fst) in Hin. exact Hin.
Qed.

Lemma lossy_spent_image_not_exact (d : db) (e : effect) f k v :
  db_ok d -> wf_effect d e ->
  In (k, v) (e_spent e ++ e_trimmed e) -> ~ In k (created_keys e) -> f v <> v ->
  rollback (apply d e) (map_spent f e) <> d.
Proof.
  intros D W Hin NC NE E.
  destruct (lossy_spent_image_restores_image d e f k v D W Hin NC) as [A B].
  rewrite E, B in A. inversion A. apply NE. symmetry. assumption.
Qed.

End Generic.

(* ---------- witnesses ---------- *)
(* a block that tops up ONE existing tranche twice (150 -> 157 -> 166): the undo record holds the
   image before the first and before the second top-up, in this order *)
Definition dd_key : key := [99;108;1].
Definition dd_db : db val := mkDb [] [(dd_key, [150;2])] [([4], [44])] [44].
Definition dd_eff : effect val :=
  mkEff 5 [55] [44] [] [] [] [] [(dd_key, Some [157;3]); (dd_key, Some [166;4])] []
        [(dd_key, [150;2]); (dd_key, [157;3])].

Lemma dd_wf : db_ok dd_db /\ wf_effect dd_db dd_eff.
Proof.
  split; [apply db_sortedb_ok; vm_compute; reflexivity|].
  apply (wf_effectb_sound keqb keqb_eq). vm_compute. reflexivity.
Qed.

Lemma dedup_last_refuted_lemma :
  db_ok dd_db /\ wf_effect dd_db dd_eff
  /\ lockups (apply dd_db dd_eff) = [(dd_key, [166;4])]
  /\ rollback (apply dd_db dd_eff) dd_eff = dd_db
  /\ rollback (apply dd_db dd_eff) (with_lk_deleted dd_eff (dedup_first (e_lk_deleted dd_eff))) = dd_db
  /\ dedup_last (e_lk_deleted dd_eff) = [(dd_key, [157;3])]
  /\ lockups (rollback (apply dd_db dd_eff) (with_lk_deleted dd_eff (dedup_last (e_lk_deleted dd_eff))))
     = [(dd_key, [157;3])]
  /\ rollback (apply dd_db dd_eff) (with_lk_deleted dd_eff (dedup_last (e_lk_deleted dd_eff))) <> dd_db.
Proof.
  destruct dd_wf as [A B]. split; [exact A|]. split; [exact B|].
  vm_compute. repeat split; try reflexivity. discriminate.
Qed.

(* a block spending an output whose stored image ends with a lock height (last byte), and an encoder
   that forgets it *)
Definition drop_lock (v : val) : val := removelast v.
Definition lo_db : db val := mkDb [([1], [12;7;2]); ([2], [8;7])] [] [([4], [44])] [44].
Definition lo_eff : effect val :=
  mkEff 5 [55] [44] [([6], [11;9])] [[6]] [([1], [12;7;2])] [] [] [] [].

Lemma lossy_nonvacuous_lemma :
  db_ok lo_db /\ wf_effect lo_db lo_eff
  /\ In ([1], [12;7;2]) (e_spent lo_eff ++ e_trimmed lo_eff) /\ ~ In [1] (created_keys lo_eff)
  /\ drop_lock [12;7;2] <> [12;7;2]
  /\ rollback (apply lo_db lo_eff) lo_eff = lo_db
  /\ utxo (rollback (apply lo_db lo_eff) (map_spent drop_lock lo_eff)) = [([1], [12;7]); ([2], [8;7])].
Proof.
  split; [apply db_sortedb_ok; vm_compute; reflexivity|].
  split; [apply (wf_effectb_sound keqb keqb_eq); vm_compute; reflexivity|].
  split; [left; reflexivity|].
  split; [cbn; intros [H|[]]; discriminate H|].
  split; [vm_compute; discriminate|].
  vm_compute. split; reflexivity.
Qed.

(* C17 — the rawdb table wrapper refines an independent store (for every history)
   and never reads or changes a key outside its prefix. *)
From Coq Require Import List NArith Bool Lia.
From GQ Require Import Lib.Key Lib.SMap Model.C17 Model.C17_Table Proofs.C17.
Import ListNotations.
Local Open Scope N_scope.

(* ---------- keys under a common prefix ---------- *)
Lemma strip_app tp k : strip_key tp (tp ++ k) = k.
Proof. unfold strip_key. induction tp as [|x tp IH]; cbn; auto. Qed.

Lemma kcmp_app tp a b : kcmp (tp ++ a) (tp ++ b) = kcmp a b.
Proof. induction tp as [|x tp IH]; cbn; [reflexivity|]. rewrite N.compare_refl. exact IH. Qed.

Lemma kltb_app tp a b : kltb (tp ++ a) (tp ++ b) = kltb a b.
Proof. unfold kltb. rewrite kcmp_app. reflexivity. Qed.

Lemma kleb_app tp a b : kleb (tp ++ a) (tp ++ b) = kleb a b.
Proof. unfold kleb. rewrite kcmp_app. reflexivity. Qed.

Lemma has_prefix_app2 tp p k : has_prefix (tp ++ p) (tp ++ k) = has_prefix p k.
Proof. induction tp as [|x tp IH]; cbn; [reflexivity|]. rewrite N.eqb_refl. cbn. exact IH. Qed.

Lemma has_prefix_app_false tp p k : has_prefix tp k = false -> has_prefix (tp ++ p) k = false.
Proof.
  revert k; induction tp as [|x tp IH]; intros k H; cbn in *; [discriminate|].
  destruct k as [|y k]; [reflexivity|]. destruct (x =? y); cbn in *; auto.
Qed.

Lemma prefixed_split tp k : has_prefix tp k = true -> k = tp ++ strip_key tp k.
Proof. intros H. apply has_prefix_spec in H as [s ->]. rewrite strip_app. reflexivity. Qed.

Lemma foreign_neq tp k k0 : has_prefix tp k0 = false -> k0 <> tp ++ k.
Proof. intros H E. subst. rewrite has_prefix_app in H. discriminate. Qed.

Lemma in_range_app tp p st k : in_range (tp ++ p) st (tp ++ k) = in_range p st k.
Proof. unfold in_range. rewrite has_prefix_app2, <- app_assoc, kleb_app. reflexivity. Qed.

Lemma in_range_foreign tp p st k : has_prefix tp k = false -> in_range (tp ++ p) st k = false.
Proof. intros H. unfold in_range. rewrite has_prefix_app_false by exact H. reflexivity. Qed.

(* ---------- the table's view of an inner map ---------- *)
Section View.
Context {V : Type}.
Implicit Types m : smap V.

Lemma tview_cons_in tp k v m : has_prefix tp k = true ->
  tview tp ((k, v) :: m) = (strip_key tp k, v) :: tview tp m.
Proof. intros H. unfold tview, strip_kvs. cbn. rewrite H. reflexivity. Qed.

Lemma tview_cons_out tp k v m : has_prefix tp k = false -> tview tp ((k, v) :: m) = tview tp m.
Proof. intros H. unfold tview, strip_kvs. cbn. rewrite H. reflexivity. Qed.

Lemma in_tview tp k v m : In (k, v) (tview tp m) <-> In (tp ++ k, v) m.
Proof.
  induction m as [|[k0 v0] m IH]; [cbn; tauto|].
  destruct (has_prefix tp k0) eqn:E.
  - rewrite tview_cons_in by exact E. apply prefixed_split in E.
    cbn [In]. rewrite IH. split; intros [H|H]; auto; left.
    + inversion H; subst. rewrite <- E. reflexivity.
    + inversion H; subst. rewrite strip_app. reflexivity.
  - rewrite tview_cons_out by exact E. cbn [In]. rewrite IH. split; [auto|].
    intros [H|H]; [|exact H]. inversion H; subst. rewrite has_prefix_app in E. discriminate.
Qed.

Lemma tview_sorted tp m : sorted m -> sorted (tview tp m).
Proof.
  induction m as [|[k0 v0] m IH]; [intros _; exact I|]. intros [L S].
  destruct (has_prefix tp k0) eqn:E.
  - rewrite tview_cons_in by exact E. split; [|apply IH; exact S].
    intros k' v' Hin. apply in_tview in Hin. apply L in Hin.
    rewrite (prefixed_split _ _ E), kltb_app in Hin. exact Hin.
  - rewrite tview_cons_out by exact E. apply IH; exact S.
Qed.

Lemma opt_ext (a b : option V) : (forall v, a = Some v <-> b = Some v) -> a = b.
Proof.
  intros H. destruct a as [x|], b as [y|]; auto.
  - destruct (H x) as [H1 _]. symmetry. apply H1. reflexivity.
  - destruct (H x) as [H1 _]. specialize (H1 eq_refl). discriminate.
  - destruct (H y) as [_ H2]. specialize (H2 eq_refl). discriminate.
Qed.

(* table.Get / table.Has / tableBatch.GetPending read exactly the prefixed cell *)
Lemma get_tview tp k m : sorted m -> get k (tview tp m) = get (tp ++ k) m.
Proof.
  intros S. apply opt_ext. intros v.
  rewrite (get_in k v _ (tview_sorted tp m S)), (get_in (tp ++ k) v m S). apply in_tview.
Qed.

Lemma tview_put tp k v m : sorted m -> tview tp (put (tp ++ k) v m) = put k v (tview tp m).
Proof.
  intros S. apply sorted_ext.
  - apply tview_sorted, put_sorted, S.
  - apply put_sorted, tview_sorted, S.
  - intros k0. rewrite get_tview by (apply put_sorted; exact S).
    destruct (keqb k0 k) eqn:E.
    + apply keqb_eq in E; subst. rewrite !get_put_same. reflexivity.
    + apply keqb_neq in E. rewrite !get_put_other; [|exact E|intros H; apply app_inv_head in H; auto].
      symmetry. apply get_tview; exact S.
Qed.

Lemma tview_del tp k m : sorted m -> tview tp (del (tp ++ k) m) = del k (tview tp m).
Proof.
  intros S. apply sorted_ext.
  - apply tview_sorted, del_sorted, S.
  - apply del_sorted, tview_sorted, S.
  - intros k0. rewrite get_tview by (apply del_sorted; exact S).
    destruct (keqb k0 k) eqn:E.
    + apply keqb_eq in E; subst. rewrite !get_del_same; auto using tview_sorted.
    + apply keqb_neq in E. rewrite !get_del_other; auto using tview_sorted.
      * symmetry. apply get_tview; exact S.
      * intros H; apply app_inv_head in H; auto.
Qed.

(* tableIterator over NewIterator(tp ++ p, st) = the view's own iteration *)
Lemma tview_iterate tp p st m :
  strip_kvs tp (iterate (tp ++ p) st m) = iterate p st (tview tp m).
Proof.
  induction m as [|[k0 v0] m IH]; [reflexivity|].
  destruct (has_prefix tp k0) eqn:E.
  - rewrite tview_cons_in by exact E. unfold iterate in *. cbn [filter fst].
    assert (in_range (tp ++ p) st k0 = in_range p st (strip_key tp k0)) as ->
      by (rewrite (prefixed_split _ _ E) at 1; apply in_range_app).
    destruct (in_range p st (strip_key tp k0)).
    + unfold strip_kvs in *. cbn [map fst snd]. rewrite IH. reflexivity.
    + exact IH.
  - rewrite tview_cons_out by exact E. unfold iterate in *. cbn [filter fst].
    rewrite in_range_foreign by exact E. exact IH.
Qed.

Lemma tview_all_foreign tp m :
  (forall k v, In (k, v) m -> has_prefix tp k = false) -> tview tp m = [].
Proof.
  induction m as [|[k0 v0] m IH]; intros H; [reflexivity|].
  rewrite tview_cons_out by (apply (H k0 v0); left; reflexivity).
  apply IH. intros k v Hin. apply (H k v). right; exact Hin.
Qed.

End View.

(* ---------- write operations ---------- *)
Lemma strip_tr tp w : strip_wop tp (tr_wop tp w) = w.
Proof. destruct w; cbn; rewrite strip_app; reflexivity. Qed.

Lemma replayed_tr tp ws : replayed tp (map (tr_wop tp) ws) = map (tr_wop tp) ws.
Proof.
  unfold replayed. rewrite map_map. apply map_ext. intros w. rewrite strip_tr. reflexivity.
Qed.

Lemma tview_apply_wop tp m w : sorted m ->
  tview tp (apply_wop m (tr_wop tp w)) = apply_wop (tview tp m) w.
Proof. intros S. destruct w; cbn; [apply tview_put|apply tview_del]; exact S. Qed.

Lemma tview_apply_ops tp ws : forall m, sorted m ->
  tview tp (apply_ops (map (tr_wop tp) ws) m) = apply_ops ws (tview tp m).
Proof.
  unfold apply_ops. induction ws as [|w ws IH]; cbn [map fold_left]; intros m S; [reflexivity|].
  rewrite IH by (apply apply_wop_sorted; exact S). rewrite tview_apply_wop by exact S. reflexivity.
Qed.

Lemma frame_apply_wop tp m w k0 : sorted m -> has_prefix tp k0 = false ->
  get k0 (apply_wop m (tr_wop tp w)) = get k0 m.
Proof.
  intros S F. destruct w as [k v|k]; cbn.
  - apply get_put_other. apply foreign_neq; exact F.
  - apply get_del_other; [exact S|]. apply foreign_neq; exact F.
Qed.

Lemma frame_apply_ops tp ws k0 : forall m, sorted m -> has_prefix tp k0 = false ->
  get k0 (apply_ops (map (tr_wop tp) ws) m) = get k0 m.
Proof.
  unfold apply_ops. induction ws as [|w ws IH]; cbn [map fold_left]; intros m S F; [reflexivity|].
  rewrite IH by (auto using apply_wop_sorted). apply frame_apply_wop; assumption.
Qed.

(* ---------- simulation relation: inner state i  ~  the store t the table pretends to be ---------- *)
Definition Rb (tp : key) (ib tb : batch) : Prop :=
  b_ops ib = map (tr_wop tp) (b_ops tb) /\
  b_tracking ib = b_tracking tb /\
  b_pend tb = tview tp (b_pend ib).

Definition R (tp : key) (i t : state) : Prop :=
  s_db t = tview tp (s_db i) /\ Rb tp (s_b0 i) (s_b0 t) /\ Rb tp (s_b1 i) (s_b1 t).

Lemma R_getb tp i t b : R tp i t -> Rb tp (getb i b) (getb t b).
Proof. intros (_ & H0 & H1). destruct b; assumption. Qed.

Lemma R_setb tp i t b x y : R tp i t -> Rb tp x y -> R tp (setb i b x) (setb t b y).
Proof. intros (Hd & H0 & H1) Hx. destruct b; repeat split; cbn; try apply Hx; try apply H0; try apply H1; exact Hd. Qed.

Lemma Rb_empty tp : Rb tp empty_batch empty_batch.
Proof. repeat split. Qed.

Lemma Rb_apply tp ib tb w : Rb tp ib tb -> sorted (b_pend ib) ->
  Rb tp (batch_apply ib (tr_wop tp w)) (batch_apply tb w).
Proof.
  intros (Ho & Ht & Hp) S. destruct w as [k v|k]; cbn; repeat split; cbn.
  - rewrite Ho, map_app. reflexivity.
  - exact Ht.
  - rewrite <- Ht. destruct (b_tracking ib); [|exact Hp]. rewrite Hp. symmetry. apply tview_put; exact S.
  - rewrite Ho, map_app. reflexivity.
  - exact Ht.
  - rewrite <- Ht. destruct (b_tracking ib); [|exact Hp]. rewrite Hp. symmetry. apply tview_put; exact S.
Qed.

Lemma Rb_run tp ws : forall ib tb, Rb tp ib tb -> sorted (b_pend ib) ->
  Rb tp (fold_left batch_apply (map (tr_wop tp) ws) ib) (fold_left batch_apply ws tb).
Proof.
  induction ws as [|w ws IH]; cbn; intros ib tb H S; [exact H|].
  apply IH; [apply Rb_apply; assumption|apply batch_apply_pend_sorted; exact S].
Qed.

Lemma Rb_cleared tp ib tb f : Rb tp ib tb ->
  Rb tp (mkBatch (b_ops ib) (b_size ib) f []) (mkBatch (b_ops tb) (b_size tb) f []).
Proof. intros (Ho & _ & _). repeat split; cbn; exact Ho. Qed.

Definition is_size (o : op) : bool := match o with BSize _ => true | _ => false end.

Lemma tstep_inv tp s o : Inv s -> Inv (fst (tstep tp s o)).
Proof.
  intros H. destruct o; try (apply (step_inv s _ H)).
  - exact (step_inv s (DbIter (tp ++ prefix) start) H).
  - destruct H as [Sd Sp]. split; cbn; [apply apply_ops_sorted; exact Sd|exact Sp].
  - destruct H as [Sd Sp]. split; cbn; [rewrite db_setb; exact Sd|].
    apply pends_sorted_setb; [exact Sp|]. apply batch_run_pend_sorted. apply pends_sorted_getb; exact Sp.
  - exact (step_inv s (DbIterDuring (tp ++ prefix) start (map (tr_wop tp) ws)) H).
Qed.

(* One table operation: same answer as the independent store, relation kept, foreign keys untouched. *)
Lemma tstep_refines tp i t o : Inv i -> R tp i t ->
  (is_size o = false -> snd (tstep tp i o) = snd (step t o)) /\
  R tp (fst (tstep tp i o)) (fst (step t o)) /\
  (forall k0, has_prefix tp k0 = false -> get k0 (s_db (fst (tstep tp i o))) = get k0 (s_db i)).
Proof.
  intros [Sd Sp] HR. pose proof HR as (Hd & H0 & H1).
  destruct o; cbn [tstep step fst snd].
  - (* DbPut *) split; [reflexivity|]. split.
    + repeat split; cbn; try apply H0; try apply H1. rewrite Hd. symmetry. apply tview_put; exact Sd.
    + intros k0 F. cbn. apply get_put_other. apply foreign_neq; exact F.
  - (* DbDel *) split; [reflexivity|]. split.
    + repeat split; cbn; try apply H0; try apply H1. rewrite Hd. symmetry. apply tview_del; exact Sd.
    + intros k0 F. cbn. apply get_del_other; [exact Sd|]. apply foreign_neq; exact F.
  - (* DbGet *) split; [|split; [exact HR|reflexivity]].
    intros _. rewrite Hd, get_tview by exact Sd. reflexivity.
  - (* DbHas *) split; [|split; [exact HR|reflexivity]].
    intros _. rewrite Hd, get_tview by exact Sd. reflexivity.
  - (* DbIter *) split; [|split; [exact HR|reflexivity]].
    intros _. cbn. rewrite Hd, tview_iterate. reflexivity.
  - (* BPut *) split; [reflexivity|]. split.
    + apply R_setb; [exact HR|]. apply (Rb_apply tp _ _ (WPut k v)); [apply R_getb; exact HR|apply pends_sorted_getb; exact Sp].
    + intros k0 F. rewrite db_setb. reflexivity.
  - (* BDel *) split; [reflexivity|]. split.
    + apply R_setb; [exact HR|]. apply (Rb_apply tp _ _ (WDel k)); [apply R_getb; exact HR|apply pends_sorted_getb; exact Sp].
    + intros k0 F. rewrite db_setb. reflexivity.
  - (* BSetPending *) split; [reflexivity|]. split.
    + apply R_setb; [exact HR|]. apply Rb_cleared. apply R_getb; exact HR.
    + intros k0 F. rewrite db_setb. reflexivity.
  - (* BGetPending *) split; [|split; [exact HR|reflexivity]].
    intros _. unfold batch_get_pending. destruct (R_getb tp i t b HR) as (_ & _ & Hp).
    rewrite Hp, get_tview by (apply pends_sorted_getb; exact Sp). reflexivity.
  - (* BSize *) split; [discriminate|]. split; [exact HR|reflexivity].
  - (* BWrite *) split; [reflexivity|].
    destruct (R_getb tp i t b HR) as (Ho & Ht & Hp). split.
    + assert (HR' : R tp (setb i b (mkBatch (b_ops (getb i b)) (b_size (getb i b)) false []))
                         (setb t b (mkBatch (b_ops (getb t b)) (b_size (getb t b)) false []))).
      { apply R_setb; [exact HR|]. apply Rb_cleared. apply R_getb; exact HR. }
      destruct HR' as (_ & H0' & H1'). repeat split; cbn; try apply H0'; try apply H1'.
      rewrite Ho, Hd. symmetry. apply tview_apply_ops; exact Sd.
    + intros k0 F. cbn. rewrite Ho. apply frame_apply_ops; assumption.
  - (* BReset *) split; [reflexivity|]. split.
    + apply R_setb; [exact HR|apply Rb_empty].
    + intros k0 F. rewrite db_setb. reflexivity.
  - (* BReplayDb *) split; [reflexivity|].
    destruct (R_getb tp i t b HR) as (Ho & Ht & Hp). rewrite Ho, replayed_tr. split.
    + repeat split; cbn; try apply H0; try apply H1.
      rewrite Hd. symmetry. apply tview_apply_ops; exact Sd.
    + intros k0 F. cbn. apply frame_apply_ops; assumption.
  - (* BReplayB *) split; [reflexivity|].
    destruct (R_getb tp i t b HR) as (Ho & Ht & Hp). rewrite Ho, replayed_tr. split.
    + apply R_setb; [exact HR|]. apply Rb_run; [apply R_getb; exact HR|apply pends_sorted_getb; exact Sp].
    + intros k0 F. rewrite db_setb. reflexivity.
  - (* DbCompact *) split; [reflexivity|]. split; [exact HR|reflexivity].
  - (* DbIterDuring *) split; [|split].
    + intros _. cbn. rewrite Hd, tview_iterate. reflexivity.
    + repeat split; cbn; try apply H0; try apply H1. rewrite Hd. symmetry. apply tview_apply_ops; exact Sd.
    + intros k0 F. cbn. apply frame_apply_ops; assumption.
Qed.

Definition no_size (h : list op) : bool := forallb (fun o => negb (is_size o)) h.

Lemma trun_refines tp h : forall i t, Inv i -> R tp i t ->
  (no_size h = true -> trun tp i h = run t h) /\
  R tp (trun_state tp i h) (run_state t h) /\
  Inv (trun_state tp i h) /\
  (forall k0, has_prefix tp k0 = false -> get k0 (s_db (trun_state tp i h)) = get k0 (s_db i)).
Proof.
  unfold trun_state, run_state.
  induction h as [|o h IH]; intros i t HI HR; cbn [trun run fold_left].
  - split; [reflexivity|]. split; [exact HR|]. split; [exact HI|reflexivity].
  - destruct (tstep_refines tp i t o HI HR) as (Hout & HR' & Hfr).
    pose proof (tstep_inv tp i o HI) as HI'.
    destruct (IH _ _ HI' HR') as (IHo & IHR & IHI & IHf).
    split; [|split; [exact IHR|split; [exact IHI|]]].
    + intros Hn. cbn in Hn. apply andb_prop in Hn as [Hn1 Hn2].
      destruct (tstep tp i o) as [i' r] eqn:E1, (step t o) as [t' r'] eqn:E2. cbn in *.
      rewrite Hout by (destruct (is_size o); [discriminate|reflexivity]).
      rewrite IHo by exact Hn2. reflexivity.
    + intros k0 F. rewrite IHf by exact F. apply Hfr; exact F.
Qed.

(* ---------- the statements used by Props/C17.v ---------- *)
Definition fresh (db0 : smap val) : state := mkState db0 empty_batch empty_batch.

Lemma fresh_inv db0 : sorted db0 -> Inv (fresh db0).
Proof. intros S. repeat split; exact S. Qed.

Lemma fresh_R tp db0 : R tp (fresh db0) (fresh (tview tp db0)).
Proof. repeat split. Qed.

Lemma table_refines tp db0 h : sorted db0 -> no_size h = true ->
  trun tp (fresh db0) h = run (fresh (tview tp db0)) h.
Proof. intros S. apply (trun_refines tp h _ _ (fresh_inv db0 S) (fresh_R tp db0)). Qed.

Lemma table_over_foreign tp db0 h : sorted db0 ->
  (forall k v, In (k, v) db0 -> has_prefix tp k = false) -> no_size h = true ->
  trun tp (fresh db0) h = run init h.
Proof.
  intros S F Hn. rewrite table_refines by assumption. rewrite (tview_all_foreign tp db0 F). reflexivity.
Qed.

Lemma table_frame tp db0 h k0 : sorted db0 -> has_prefix tp k0 = false ->
  get k0 (s_db (trun_state tp (fresh db0) h)) = get k0 db0.
Proof.
  intros S F. destruct (trun_refines tp h _ _ (fresh_inv db0 S) (fresh_R tp db0)) as (_ & _ & _ & H).
  apply H; exact F.
Qed.

Lemma table_view_commutes tp db0 h : sorted db0 ->
  s_db (run_state (fresh (tview tp db0)) h) = tview tp (s_db (trun_state tp (fresh db0) h)).
Proof.
  intros S. destruct (trun_refines tp h _ _ (fresh_inv db0 S) (fresh_R tp db0)) as (_ & (H & _) & _).
  exact H.
Qed.

Lemma table_inner_sorted tp db0 h : sorted db0 -> sorted (s_db (trun_state tp (fresh db0) h)).
Proof.
  intros S. destruct (trun_refines tp h _ _ (fresh_inv db0 S) (fresh_R tp db0)) as (_ & _ & (H & _) & _).
  exact H.
Qed.

Lemma table_inner tp db0 h : sorted db0 ->
  s_db (run_state (fresh (tview tp db0)) h) = tview tp (s_db (trun_state tp (fresh db0) h))
  /\ sorted (s_db (trun_state tp (fresh db0) h)).
Proof. intros S. split; [exact (table_view_commutes tp db0 h S)|exact (table_inner_sorted tp db0 h S)]. Qed.

(* Nested tables: a table with prefix q inside a table with prefix p shows what a single
   table with prefix p ++ q shows. *)
Lemma strip_key_app p q k : strip_key q (strip_key p k) = strip_key (p ++ q) k.
Proof.
  unfold strip_key. rewrite app_length. revert k; induction p as [|x p IH]; intros k; cbn; [reflexivity|].
  destruct k as [|y k]; cbn; [destruct (length q); reflexivity|apply IH].
Qed.

Lemma has_prefix_nested p q k :
  has_prefix (p ++ q) k = has_prefix p k && has_prefix q (strip_key p k).
Proof.
  revert k; induction p as [|x p IH]; intros k; cbn; [reflexivity|].
  destruct k as [|y k]; cbn; [reflexivity|]. destruct (x =? y); cbn; [apply IH|reflexivity].
Qed.

Lemma tview_nested {V : Type} p q (m : smap V) : tview q (tview p m) = tview (p ++ q) m.
Proof.
  induction m as [|[k0 v0] m IH]; [reflexivity|].
  destruct (has_prefix p k0) eqn:Ep.
  - rewrite (tview_cons_in p) by exact Ep.
    destruct (has_prefix q (strip_key p k0)) eqn:Eq.
    + rewrite (tview_cons_in q) by exact Eq.
      rewrite (tview_cons_in (p ++ q)) by (rewrite has_prefix_nested, Ep, Eq; reflexivity).
      rewrite strip_key_app, IH. reflexivity.
    + rewrite (tview_cons_out q) by exact Eq.
      rewrite (tview_cons_out (p ++ q)) by (rewrite has_prefix_nested, Ep, Eq; reflexivity).
      exact IH.
  - rewrite (tview_cons_out p) by exact Ep.
    rewrite (tview_cons_out (p ++ q)) by (rewrite has_prefix_nested, Ep; reflexivity).
    exact IH.
Qed.

(* ValueSize is NOT transparent through a table: a delete is sized with the prefixed key. *)
Lemma table_valuesize_counts_prefix :
  trun [116; 98; 108] (fresh []) [BDel false [1]; BSize false] <> run init [BDel false [1]; BSize false].
Proof. vm_compute. intros H. discriminate. Qed.

(* C06 — lemmas about the accumulator (formal sums = free abelian group over elements)
   and about its image under any abelian-group homomorphism (the real MuHash). *)
From Coq Require Import List NArith ZArith Bool Lia Permutation Arith.
From Coq Require Import ZifyBool ZifyNat ZifyN.
From GQ Require Import Model.C06.
Import ListNotations.

(* number of occurrences of e in a list of elements, as an integer *)
Fixpoint occ (l : list elem) (e : elem) : Z :=
  match l with
  | [] => 0%Z
  | x :: t => ((if N.eqb x e then 1 else 0) + occ t e)%Z
  end.

Definition ceq (a b : acc) : Prop := forall e, count a e = count b e.

Lemma ceq_refl : forall a, ceq a a.
Proof. intros a e; reflexivity. Qed.
Lemma ceq_sym : forall a b, ceq a b -> ceq b a.
Proof. intros a b H e; symmetry; apply H. Qed.
Lemma ceq_trans : forall a b c, ceq a b -> ceq b c -> ceq a c.
Proof. intros a b c H1 H2 e; rewrite H1; apply H2. Qed.

Lemma occ_app : forall l1 l2 e, occ (l1 ++ l2) e = (occ l1 e + occ l2 e)%Z.
Proof. induction l1 as [|x t IH]; intros l2 e; cbn [occ app]; [lia|rewrite IH; destruct (N.eqb x e); lia]. Qed.

Lemma occ_nonneg : forall l e, (0 <= occ l e)%Z.
Proof. induction l as [|x t IH]; intros e; cbn [occ]; [lia|]. specialize (IH e). destruct (N.eqb x e); lia. Qed.

Lemma occ_perm : forall l1 l2, Permutation l1 l2 -> forall e, occ l1 e = occ l2 e.
Proof.
  intros l1 l2 P; induction P; intros e; cbn [occ].
  - reflexivity.
  - rewrite IHP; lia.
  - destruct (N.eqb x e), (N.eqb y e); lia.
  - rewrite IHP1; apply IHP2.
Qed.

Lemma occ_not_in : forall l e, ~ In e l -> occ l e = 0%Z.
Proof.
  induction l as [|x t IH]; intros e Hn; cbn [occ]; [reflexivity|].
  destruct (N.eqb_spec x e) as [->|Hne]; [exfalso; apply Hn; left; reflexivity|].
  rewrite IH; [lia|]. intro Hi; apply Hn; right; exact Hi.
Qed.

Lemma occ_in_pos : forall l e, In e l -> (0 < occ l e)%Z.
Proof.
  induction l as [|x t IH]; intros e Hi; [destruct Hi|]. cbn [occ].
  pose proof (occ_nonneg t e). destruct Hi as [->|Hi]; [rewrite N.eqb_refl; lia|].
  specialize (IH e Hi). destruct (N.eqb x e); lia.
Qed.

Lemma count_app : forall a b e, count (a ++ b) e = (count a e + count b e)%Z.
Proof.
  induction a as [|[x s] t IH]; intros b e; cbn [count app]; [lia|rewrite IH; destruct (N.eqb x e); lia].
Qed.

Lemma count_adds : forall l a e, count (acc_adds a l) e = (count a e + occ l e)%Z.
Proof.
  induction l as [|x t IH]; intros a e; cbn [acc_adds fold_left occ]; [lia|].
  fold (acc_adds (acc_add a x) t). rewrite IH. unfold acc_add; cbn [count sgn]. destruct (N.eqb x e); lia.
Qed.

Lemma count_removes : forall l a e, count (acc_removes a l) e = (count a e - occ l e)%Z.
Proof.
  induction l as [|x t IH]; intros a e; cbn [acc_removes fold_left occ]; [lia|].
  fold (acc_removes (acc_remove a x) t). rewrite IH. unfold acc_remove; cbn [count sgn]. destruct (N.eqb x e); lia.
Qed.

Lemma count_of_content : forall l e, count (of_content l) e = occ l e.
Proof. intros l e; unfold of_content; rewrite count_adds; cbn [count]; lia. Qed.

Lemma count_perm : forall a b, Permutation a b -> ceq a b.
Proof.
  intros a b P; induction P; intros e.
  - reflexivity.
  - destruct x as [x s]; cbn [count]; rewrite IHP; lia.
  - destruct x as [x s], y as [y s']; cbn [count]; destruct (N.eqb x e), (N.eqb y e); lia.
  - rewrite IHP1; apply IHP2.
Qed.

Lemma count_not_in : forall a e, ~ In e (map fst a) -> count a e = 0%Z.
Proof.
  induction a as [|[x s] t IH]; intros e Hn; cbn [count]; [reflexivity|].
  cbn [map fst] in Hn.
  destruct (N.eqb_spec x e) as [->|Hne]; [exfalso; apply Hn; left; reflexivity|].
  rewrite IH; [lia|]. intro Hi; apply Hn; right; exact Hi.
Qed.

(* the boolean test used by the correspondence check decides equality in the free abelian group *)
Lemma acc_eqb_spec : forall a b, acc_eqb a b = true <-> ceq a b.
Proof.
  intros a b; unfold acc_eqb; rewrite forallb_forall; split.
  - intros H e.
    destruct (in_dec N.eq_dec e (map fst a ++ map fst b)) as [Hi|Hn].
    + apply Z.eqb_eq, H, Hi.
    + rewrite (count_not_in a), (count_not_in b); [reflexivity| |];
        intro Hx; apply Hn, in_or_app; [right|left]; exact Hx.
  - intros H e _. apply Z.eqb_eq, H.
Qed.

(* the block's contribution to the accumulator: created added, deleted and trimmed removed *)
Lemma count_block : forall a cr de tr e,
  count (acc_removes (acc_adds a cr) (de ++ tr)) e = (count a e + occ cr e - occ de e - occ tr e)%Z.
Proof. intros; rewrite count_removes, count_adds, occ_app; lia. Qed.

(* ------------------------------------------------------------------------------------------ *)
(* Image of a formal sum under a homomorphism into ANY abelian group: the real accumulator is
   MuHash (numerator / denominator in Z_p^*, p prime): multiSet.Add multiplies by H(e),
   multiSet.Remove by its inverse.                                                             *)
Section Mu.
  Variable G : Type.
  Variable op : G -> G -> G.
  Variable inv : G -> G.
  Variable one : G.
  Variable H : elem -> G.
  Hypothesis op_assoc : forall x y z, op x (op y z) = op (op x y) z.
  Hypothesis op_comm : forall x y, op x y = op y x.
  Hypothesis op_one : forall x, op one x = x.
  Hypothesis op_inv : forall x, op (inv x) x = one.

  Definition term (p : elem * bool) : G := if snd p then H (fst p) else inv (H (fst p)).
  Fixpoint mu (a : acc) : G :=
    match a with
    | [] => one
    | p :: t => op (term p) (mu t)
    end.

  Lemma op_one_r : forall x, op x one = x.
  Proof using op_comm op_one. intros x; rewrite op_comm; apply op_one. Qed.
  Lemma op_inv_r : forall x, op x (inv x) = one.
  Proof using op_comm op_inv. intros x; rewrite op_comm; apply op_inv. Qed.

  Lemma mu_app : forall a b, mu (a ++ b) = op (mu a) (mu b).
  Proof using op_assoc op_one.
    induction a as [|p t IH]; intros b; cbn [mu app]; [symmetry; apply op_one|].
    rewrite IH; apply op_assoc.
  Qed.

  Lemma mu_perm : forall a b, Permutation a b -> mu a = mu b.
  Proof using op_assoc op_comm.
    intros a b P; induction P; cbn [mu].
    - reflexivity.
    - rewrite IHP; reflexivity.
    - rewrite !op_assoc, (op_comm (term y) (term x)); reflexivity.
    - rewrite IHP1; exact IHP2.
  Qed.

  Lemma term_cancel : forall x s, op (term (x, s)) (term (x, negb s)) = one.
  Proof using op_comm op_inv.
    intros x [|]; unfold term; cbn [fst snd negb]; [apply op_inv_r|apply op_inv].
  Qed.

  (* if every entry for x in t has sign s, the count of x in t is a non-negative multiple of sgn s *)
  Lemma count_same_sign : forall t x s,
    (forall s', In (x, s') t -> s' = s) -> exists n, (0 <= n)%Z /\ count t x = (n * sgn s)%Z.
  Proof.
    induction t as [|[y s'] t IH]; intros x s Hs; cbn [count].
    - exists 0%Z; lia.
    - destruct (IH x s) as [n [Hn Hc]]; [intros s'' Hi; apply Hs; right; exact Hi|].
      destruct (N.eqb_spec y x) as [->|Hne].
      + assert (s' = s) by (apply Hs; left; reflexivity). subst s'.
        exists (n + 1)%Z; split; [lia|]. rewrite Hc; lia.
      + exists n; split; [exact Hn|]. rewrite Hc; lia.
  Qed.

  Lemma find_opposite : forall t x s, count t x = (- sgn s)%Z -> In (x, negb s) t.
  Proof.
    intros t x s Hc.
    destruct (in_dec (fun p q : elem * bool =>
                        match N.eq_dec (fst p) (fst q), Bool.bool_dec (snd p) (snd q) with
                        | left e1, left e2 => left (match p, q return fst p = fst q -> snd p = snd q -> p = q with
                                                     | (a, b), (c, d) => fun E1 E2 => f_equal2 pair E1 E2 end e1 e2)
                        | right n, _ => right (fun E => n (f_equal fst E))
                        | _, right n => right (fun E => n (f_equal snd E))
                        end) (x, negb s) t) as [Hi|Hn]; [exact Hi|exfalso].
    destruct (count_same_sign t x s) as [n [Hn0 Hcn]].
    - intros s' Hi. destruct s, s'; try reflexivity; exfalso; apply Hn; exact Hi.
    - rewrite Hcn in Hc. destruct s; cbn [sgn] in Hc; lia.
  Qed.

  (* a formal sum that is zero in the free abelian group maps to the unit *)
  Lemma mu_zero : forall n a, length a <= n -> (forall e, count a e = 0%Z) -> mu a = one.
  Proof using op_assoc op_comm op_one op_inv.
    induction n as [|n IH]; intros a Hl Hz.
    - destruct a; [reflexivity|cbn [length] in Hl; lia].
    - destruct a as [|[x s] t]; [reflexivity|].
      assert (Hc : count t x = (- sgn s)%Z).
      { specialize (Hz x); cbn [count] in Hz; rewrite N.eqb_refl in Hz; lia. }
      apply find_opposite in Hc. apply in_split in Hc. destruct Hc as [t1 [t2 ->]].
      assert (P : Permutation ((x, s) :: t1 ++ (x, negb s) :: t2) ((x, s) :: (x, negb s) :: t1 ++ t2)).
      { apply perm_skip. symmetry. apply Permutation_middle. }
      rewrite (mu_perm _ _ P). cbn [mu]. rewrite op_assoc, term_cancel, op_one.
      apply IH.
      + cbn [length] in Hl. rewrite app_length in *. cbn [length] in Hl. lia.
      + intros e. specialize (Hz e). rewrite (count_perm _ _ P e) in Hz. cbn [count] in Hz.
        destruct s; cbn [negb sgn] in Hz; destruct (N.eqb x e); lia.
  Qed.

  Definition neg (a : acc) : acc := map (fun p => (fst p, negb (snd p))) a.
  Lemma count_neg : forall a e, count (neg a) e = (- count a e)%Z.
  Proof.
    induction a as [|[x s] t IH]; intros e; cbn [neg map count fst snd]; [lia|].
    fold (neg t). rewrite IH. destruct s; cbn [negb sgn]; destruct (N.eqb x e); lia.
  Qed.
  Lemma mu_neg : forall a, op (mu a) (mu (neg a)) = one.
  Proof using op_assoc op_comm op_one op_inv.
    intros a. rewrite <- mu_app. apply (mu_zero (length (a ++ neg a))); [lia|].
    intros e. rewrite count_app, count_neg. lia.
  Qed.

  (* equal in the free abelian group  ==>  equal accumulator value (hence equal UTXORoot) *)
  Lemma mu_ceq : forall a b, ceq a b -> mu a = mu b.
  Proof using op_assoc op_comm op_one op_inv.
    intros a b E.
    assert (Z1 : mu (a ++ neg b) = one).
    { apply (mu_zero (length (a ++ neg b))); [lia|]. intros e. rewrite count_app, count_neg, E. lia. }
    rewrite mu_app in Z1.
    (* mu a = mu a * (mu (neg b) * mu b) = (mu a * mu (neg b)) * mu b = mu b *)
    assert (Z2 : op (mu (neg b)) (mu b) = one) by (rewrite op_comm; apply mu_neg).
    rewrite <- (op_one_r (mu a)), <- Z2, op_assoc, Z1. apply op_one.
  Qed.

  Lemma mu_add : forall a e, mu (acc_add a e) = op (H e) (mu a).
  Proof. reflexivity. Qed.
  Lemma mu_remove : forall a e, mu (acc_remove a e) = op (inv (H e)) (mu a).
  Proof. reflexivity. Qed.
End Mu.

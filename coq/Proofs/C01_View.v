(* C01 -- lemmas about (db, batch) views: with pending tracking a view reads exactly
   what batch.Write() would commit. *)
From Coq Require Import List NArith Bool Lia.
From GQ Require Import Lib.Key Lib.SMap Generated.C01Params Model.C01.
Import ListNotations.
Local Open Scope N_scope.

(* last operation of a batch on key k: None = untouched, Some None = deleted, Some (Some u) = put *)
Fixpoint last_op (k : key) (ops : list wop) : option (option utxo) :=
  match ops with
  | [] => None
  | w :: r =>
      match last_op k r with
      | Some x => Some x
      | None =>
          match w with
          | WPut k' u => if keqb k k' then Some (Some u) else None
          | WDel k' => if keqb k k' then Some None else None
          end
      end
  end.

Lemma last_op_app k ops w :
  last_op k (ops ++ [w]) =
  match w with
  | WPut k' u => if keqb k k' then Some (Some u) else last_op k ops
  | WDel k' => if keqb k k' then Some None else last_op k ops
  end.
Proof.
  induction ops as [|w0 ops IH]; cbn.
  - destruct w; destruct (keqb k k0); reflexivity.
  - rewrite IH. destruct w; destruct (keqb k k0); try reflexivity.
Qed.

Lemma fold_apply_sorted ops : forall l, sorted l -> sorted (fold_left apply_wop ops l).
Proof.
  induction ops as [|w ops IH]; cbn; intros l S; [exact S|].
  apply IH. destruct w; cbn; [apply put_sorted|apply del_sorted]; exact S.
Qed.

Lemma fold_apply_get k ops : forall l, sorted l ->
  get k (fold_left apply_wop ops l) =
  match last_op k ops with
  | Some None => None
  | Some (Some u) => Some u
  | None => get k l
  end.
Proof.
  induction ops as [|w ops IH]; cbn; intros l S; [reflexivity|].
  rewrite IH by (destruct w; cbn; [apply put_sorted|apply del_sorted]; exact S).
  destruct (last_op k ops) as [[u|]|]; try reflexivity.
  destruct w as [k' u|k']; cbn; destruct (keqb k k') eqn:E.
  - apply keqb_eq in E; subst. apply get_put_same.
  - apply keqb_neq in E. apply get_put_other; exact E.
  - apply keqb_eq in E; subst. apply get_del_same; exact S.
  - apply keqb_neq in E. apply get_del_other; assumption.
Qed.

(* invariant of a batch created on a database by db.NewBatch(); batch.SetPending(true) *)
Definition view_ok (v : view) : Prop :=
  sorted (v_base v) /\ v_tracks v = true /\ forall k, get k (v_pend v) = last_op k (v_ops v).

Lemma view_of_ok l : sorted l -> view_ok (view_of true l).
Proof. intros S. repeat split; auto. Qed.

Lemma commit_view_of tr l : commit (view_of tr l) = l.
Proof. reflexivity. Qed.

Lemma commit_sorted v : view_ok v -> sorted (commit v).
Proof. intros (S & _ & _). apply fold_apply_sorted; exact S. Qed.

(* the heart of the matter: GetUTXOWithBatch on a tracking batch = GetUTXO on the would-be-committed DB *)
Lemma v_get_commit v k : view_ok v -> v_get v k = get k (commit v).
Proof.
  intros (S & T & P). unfold v_get, commit. rewrite T, P, (fold_apply_get k (v_ops v) (v_base v) S).
  destruct (last_op k (v_ops v)) as [[u|]|]; reflexivity.
Qed.

Lemma commit_del v k : commit (v_del v k) = del k (commit v).
Proof. unfold commit, v_del; cbn. rewrite fold_left_app. reflexivity. Qed.

Lemma commit_put v k u : commit (v_put v k u) = put k u (commit v).
Proof. unfold commit, v_put; cbn. rewrite fold_left_app. reflexivity. Qed.

Lemma v_del_ok v k : view_ok v -> view_ok (v_del v k).
Proof.
  intros (S & T & P). repeat split; cbn; auto. intros k0. rewrite T, last_op_app.
  destruct (keqb k0 k) eqn:E.
  - apply keqb_eq in E; subst. apply get_put_same.
  - apply keqb_neq in E. rewrite get_put_other by exact E. apply P.
Qed.

Lemma v_put_ok v k u : view_ok v -> view_ok (v_put v k u).
Proof.
  intros (S & T & P). repeat split; cbn; auto. intros k0. rewrite T, last_op_app.
  destruct (keqb k0 k) eqn:E.
  - apply keqb_eq in E; subst. apply get_put_same.
  - apply keqb_neq in E. rewrite get_put_other by exact E. apply P.
Qed.
